(* stateful: the automaton state lives in the driver between lines.
   reset                      -> "ok"
   ev <name> <args...>        -> "ok" | "REJECT"          (state unchanged on REJECT)
   inv                        -> "doc=<0|1> nodrop=<0|1> conc=<0|1>"
   msg <n>                    -> file pattern and record summary of message n
   events: injmess p n | injintd p n | injcommit p n k dbl | injabort p n f | preunlink n f | create n f | sync n f
           recs n a b | cleanintd n | cleantodo n | cmd c d n i | rep c d v | note n c i | mark n c i | unlinkchan n c
           bouncequeued n | bouncediscard n | unlinkbounce n | unlinkinfo n | cleanfoop n f old | crash | start a b
   f in mess intd todo info local remote bounce ; v in K Z D G *)
let st = ref q0
let nat s = nat_of_int (int_of_string s)
let file_of s = match s with "mess" -> Mess | "intd" -> Intd | "todo" -> Todo | "info" -> Info | "local" -> Local
  | "remote" -> Remote | "bounce" -> Bounce | _ -> failwith "file"
let verd s = match s with "K" -> VK | "Z" -> VZ | "D" -> VD | _ -> VGarbage
let ev_of w = match w with
  | ["injmess"; p; n] -> EInjMess (nat p, nat n)
  | ["injintd"; p; n] -> EInjIntd (nat p, nat n)
  | ["injcommit"; p; n; k; d] -> EInjCommit (nat p, nat n, nat k, d = "1")
  | ["injabort"; p; n; f] -> EInjAbort (nat p, nat n, file_of f)
  | ["preunlink"; n; f] -> EPreUnlink (nat n, file_of f)
  | ["create"; n; f] -> ECreate (nat n, file_of f)
  | ["sync"; n; f] -> ESync (nat n, file_of f)
  | ["recs"; n; a; b] -> ERecs (nat n, nat a, nat b)
  | ["cleanintd"; n] -> ECleanIntd (nat n)
  | ["cleantodo"; n] -> ECleanTodo (nat n)
  | ["cmd"; c; d; n; i] -> ECmd (nat c, nat d, nat n, nat i)
  | ["rep"; c; d; v] -> ERep (nat c, nat d, verd v)
  | ["note"; n; c; i] -> ENote (nat n, nat c, nat i)
  | ["mark"; n; c; i] -> EMark (nat n, nat c, nat i)
  | ["unlinkchan"; n; c] -> EUnlinkChan (nat n, nat c)
  | ["bouncequeued"; n] -> EBounceQueued (nat n)
  | ["bouncediscard"; n] -> EBounceDiscard (nat n)
  | ["unlinkbounce"; n] -> EUnlinkBounce (nat n)
  | ["unlinkinfo"; n] -> EUnlinkInfo (nat n)
  | ["cleanfoop"; n; f; o] -> ECleanFoop (nat n, file_of f, o = "1")
  | ["crash"] -> ECrash
  | ["start"; a; b] -> EStart (nat a, nat b)
  | _ -> failwith "event"
let () = iter_lines (fun line ->
  let out = match split_ws line with
    | ["reset"] -> st := q0; "ok"
    | "ev" :: w -> (match step !st (ev_of w) with Some s -> st := s; "ok" | None -> "REJECT")
    | ["inv"] -> Printf.sprintf "doc=%s nodrop=%s conc=%s" (b01 (all_documented !st)) (b01 (no_drop !st)) (b01 (conc_ok !st))
    | ["msg"; n] -> let m = getm !st.q_msgs (nat n) in
        let rs c = String.concat "" (List.map (fun r -> (match r.r_stat with RTodo -> "T" | RDone -> "D") ^ (if r.r_k then "k" else "") ^ (if r.r_pending then "p" else "") ^ (if r.r_bounced then "b" else "") ^ (if r.r_discarded then "x" else "")) (List.nth m.m_recs c)) in
        Printf.sprintf "mess=%s intd=%s todo=%s info=%s local=%s remote=%s bounce=%s sync=%s%s%s nrcpt=%d have=%s elim=%s L[%s] R[%s] doc=%s nodrop=%s"
          (b01 m.f_mess) (b01 m.f_intd) (b01 m.f_todo) (b01 m.f_info) (b01 m.f_local) (b01 m.f_remote) (b01 m.f_bounce)
          (b01 m.s_info) (b01 m.s_local) (b01 m.s_remote) (int_of_nat m.m_nrcpt) (b01 m.m_have_recs) (b01 m.m_elim) (rs 0) (rs 1)
          (b01 (documented m)) (b01 (msg_no_drop m))
    | _ -> "?" in
  print_string out; print_char '\n')
