(* line protocol:  <fn> <hex> [<hex>...]  ->  one result line
   enc  m            -> S <hex out> | P
   encp m            -> (pre-fix encoder) same
   dec  s            -> D <body> <rest> | X | N <body>
   decp s            -> pre-fix decoder
   rfc  s            -> same format (reference decoder)
   rfce m            -> <hex>
   canon m           -> S <hex> | P
   hops s            -> <int>
   ok06 m S <out>|P  -> 0|1
   ok05 s D b r|X|N b-> 0|1 *)
let show_opt = function Some o -> "S " ^ hex_of_bytes o | None -> "P"
let show_res = function
  | Done (b, r) -> "D " ^ hex_of_bytes b ^ " " ^ hex_of_bytes r
  | Stray -> "X"
  | NeedMore b -> "N " ^ hex_of_bytes b
let parse_res = function
  | "D" :: b :: r :: _ -> Done (bytes_of_hex b, bytes_of_hex r)
  | "X" :: _ -> Stray
  | "N" :: b :: _ -> NeedMore (bytes_of_hex b)
  | "N" :: [] -> NeedMore []
  | _ -> failwith "res"
let () = iter_lines (fun line ->
  let out = match split_ws line with
    | "enc" :: m :: _ -> show_opt (rblast (bytes_of_hex m))
    | "encp" :: m :: _ -> show_opt (renc_prefix RTop (bytes_of_hex m))
    | "dec" :: s :: _ -> show_res (sblast (bytes_of_hex s))
    | "decp" :: s :: _ -> show_res (sdec_prefix S1 (bytes_of_hex s))
    | "rfc" :: s :: _ -> show_res (rfc_decode (bytes_of_hex s))
    | "rfce" :: m :: _ -> hex_of_bytes (rfc_encode (bytes_of_hex m))
    | "canon" :: m :: _ -> show_opt (canon (bytes_of_hex m))
    | "hops" :: s :: _ -> string_of_int (int_of_n (hops (bytes_of_hex s)))
    | "ok06" :: m :: "S" :: o :: _ -> b01 (ok_C06 (bytes_of_hex m) (Some (bytes_of_hex o)))
    | "ok06" :: m :: "P" :: _ -> b01 (ok_C06 (bytes_of_hex m) None)
    | "ok05" :: s :: rest -> b01 (ok_C05 (bytes_of_hex s) (parse_res rest))
    | _ -> "?" in
  print_string out; print_char '\n')
