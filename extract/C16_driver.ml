(* progs                                -> "<dprog> <iprog>"  (letters S C O D R / L W B X)
   search <dprog> <iprog> <ninj> <fuel> -> "none" | schedule as letters: i<k> = injector k moves, d = daemon
   run <dprog> <iprog> <ninj> <sched>   -> "todo=<ids> done=<ids> dpc=<n> readable=<0|1> lost=<0|1>"
   timeout <recent> <exit01> <passready01> <jobfree01> <chan_due ,-list|-> <fail|-> <done|-> <scanning01> <nexttodorun> <flagcleanup01> <cleanuptime>
                                        -> "<tv_sec> <work_now 0|1> <min due|->" *)
let dop_of c = match c with 'S' -> DSelect | 'C' -> DCloseT | 'O' -> DOpenT | 'D' -> DOpendir | 'R' -> DScan | _ -> failwith "dop"
let ch_dop o = match o with DSelect -> 'S' | DCloseT -> 'C' | DOpenT -> 'O' | DOpendir -> 'D' | DScan -> 'R'
let iop_of c = match c with 'L' -> ILink | 'W' -> IOpenW | 'B' -> IWrite | 'X' -> ICloseW | _ -> failwith "iop"
let ch_iop o = match o with ILink -> 'L' | IOpenW -> 'W' | IWrite -> 'B' | ICloseW -> 'X'
let explode s = List.init (String.length s) (String.get s)
let implode l = String.init (List.length l) (List.nth l)
let ids n = List.init n (fun i -> nat_of_int (100 + i))
let mv_str m = match m with MInj k -> "i" ^ string_of_int (int_of_nat k) | MDaemon -> "d" | MLate n -> "l" ^ string_of_int (int_of_nat n)
let mv_of s = if s = "d" then MDaemon else if s.[0] = 'i' then MInj (nat_of_int (int_of_string (String.sub s 1 (String.length s - 1))))
  else MLate (nat_of_int (int_of_string (String.sub s 1 (String.length s - 1))))
let nl l = if l = [] then "-" else String.concat "," (List.map (fun n -> string_of_int (int_of_nat n)) l)
let z s = z_of_int (int_of_string s)
let zo s = if s = "-" then None else Some (z s)
let () = iter_lines (fun line ->
  let out = match split_ws line with
    | ["progs"] -> implode (List.map ch_dop real_dprog) ^ " " ^ implode (List.map ch_iop real_iprog)
    | ["search"; dp; ip; n; fuel] ->
        let dp = List.map dop_of (explode dp) and ip = List.map iop_of (explode ip) in
        (match search dp ip (nat_of_int (int_of_string fuel)) (init dp (ids (int_of_string n))) [] with
         | None -> "none" | Some ms -> if ms = [] then "empty" else String.concat "." (List.map mv_str ms))
    | ["run"; dp; ip; n; sched] ->
        let dp = List.map dop_of (explode dp) and ip = List.map iop_of (explode ip) in
        let ms = if sched = "-" || sched = "empty" then [] else List.map mv_of (String.split_on_char '.' sched) in
        let s = run dp ip (init dp (ids (int_of_string n))) ms in
        Printf.sprintf "todo=%s done=%s dpc=%d readable=%s lost=%s" (nl s.t_todo) (nl s.t_done) (int_of_nat s.t_dpc) (b01 (readable s)) (b01 (lost dp ip s))
    | ["timeout"; rc; ex; pr; jf; cd; fd; dd; sc; nt; fc; ct] ->
        let x = { recent = z rc; exitasap = ex = "1"; pass_ready = pr = "1"; job_free = jf = "1";
                  chan_due = (if cd = "-" then [] else List.map z (String.split_on_char ',' cd));
                  fail_due = zo fd; done_due = zo dd; scanning = sc = "1"; nexttodorun = z nt; flagcleanup = fc = "1"; cleanuptime = z ct } in
        let dues = due_times x in
        Printf.sprintf "%d %s %s" (int_of_z (timeout x)) (b01 (work_now x))
          (match dues with [] -> "-" | d :: r -> string_of_int (int_of_z (List.fold_left (fun a b -> if int_of_z b < int_of_z a then b else a) d r)))
    | _ -> "?" in
  print_string out; print_char '\n')
