(* cfg as in C08_driver (liphost ipme rcpthosts morercpt bmf databytes relayclient remotehost remoteip remoteinfo local)
   qmtp <cfg 11 fields> <inputhex> <qq e:texthex,..|->
        -> per package "P <bodyhex> <senderhex> <complete> <K|D|Z> <rcpt kinds e.g. 0DLN0> <accepted rcpts hex+hex|->" joined by " ; " then " | <end: E(of) B(ad) R(es)>"
   qmqp <innerhex> <qe> <qtxthex>  -> "N" | "<bodyhex> <senderhex> <rcpts hex+hex|-> <complete> <K|D|Z>"
   recv <proto hex> <cfg 11 fields> <helo N|hex> -> hex of the Received prefix *)
let optb s = if s = "N" then None else Some (bytes_of_hex s)
let lstb s = if s = "-" || s = "E" then [] else List.map bytes_of_hex (String.split_on_char ',' s)
let optl s = if s = "N" then None else Some (lstb s)
let ipme s = if s = "-" then [] else List.map (fun q -> List.map (fun o -> n_of_int (int_of_string o)) (String.split_on_char '.' q)) (String.split_on_char ',' s)
let mk lip ip rh mrh bmf db rc rhost rip rinfo loc =
  { g_greeting = []; g_liphost = optb lip; g_ipme = ipme ip; g_rcpthosts = optl rh; g_morercpthosts = lstb mrh; g_bmf = optl bmf;
    g_databytes = n_of_int (int_of_string db); g_relayclient = optb rc; g_remotehost = bytes_of_hex rhost; g_remoteip = bytes_of_hex rip;
    g_remoteinfo = optb rinfo; g_local = bytes_of_hex loc }
let vch = function MK -> "K" | MFail c -> if int_of_n c = 68 then "D" else "Z"
(* "-" = no element; an empty element is "=" (hex_of_bytes [] is "-" too: one empty recipient must not read as none) *)
let hexs l = if l = [] then "-" else String.concat "+" (List.map (fun b -> if b = [] then "=" else hex_of_bytes b) l)
let () = iter_lines (fun line ->
  let out = match split_ws line with
    | ["qmtp"; lip; ip; rh; mrh; bmf; db; rc; rhost; rip; rinfo; loc; inp; qq] ->
      let g = mk lip ip rh mrh bmf db rc rhost rip rinfo loc in
      let q = ref (if qq = "-" then [] else List.map (fun e -> match String.split_on_char ':' e with
        | [c; t] -> (n_of_int (int_of_string c), bytes_of_hex t) | _ -> failwith "qq") (String.split_on_char ',' qq)) in
      let rec go s acc =
        let (qe, qt) = match !q with x :: r -> q := r; x | [] -> (N0, []) in
        match qmtp_package g s qe qt with
        | Got (p, rest) ->
          let kinds = String.concat "" (List.map (fun (_, k) -> match k with RNone -> "0" | RTooLong -> "L" | RNul -> "N" | RDenied -> "D") p.k_rcpts) in
          let acc' = ("P " ^ hex_of_bytes p.k_body ^ " " ^ hex_of_bytes p.k_sender ^ " " ^ b01 p.k_complete ^ " " ^ vch p.k_verdict ^ " " ^
                      (if kinds = "" then "-" else kinds) ^ " " ^ hexs (List.map fst (List.filter (fun (_, k) -> k = RNone) p.k_rcpts))) :: acc in
          go rest acc'
        | Eof -> (List.rev acc, "E") | Bad -> (List.rev acc, "B") | Res -> (List.rev acc, "R") in
      let (ps, e) = go (bytes_of_hex inp) [] in
      (if ps = [] then "-" else String.concat " ; " ps) ^ " | " ^ e
    | ["qmqp"; inner; qe; qt] ->
      (match qmqp_inner (bytes_of_hex inner) (n_of_int (int_of_string qe)) (bytes_of_hex qt) with
       | None -> "N"
       | Some o -> hex_of_bytes o.q_body ^ " " ^ hex_of_bytes o.q_sender ^ " " ^ hexs o.q_rcpts ^ " " ^ b01 o.q_complete ^ " " ^ vch o.q_verdict)
    | ["recv"; proto; lip; ip; rh; mrh; bmf; db; rc; rhost; rip; rinfo; loc; helo] ->
      hex_of_bytes (received_prefix (bytes_of_hex proto) (mk lip ip rh mrh bmf db rc rhost rip rinfo loc) (optb helo))
    | _ -> "?" in
  print_string out; print_char '\n')
