(* table = '-' or ';' separated lines  <=|+>:<lochex>:<f1hex>,<f2hex>,...(6 fields)
   look <table> <localhex>      -> "F <nughde hex>" | "N" | "B"      (compile + nughde_get)
   spec <table> <localhex>      -> "F <hex>" | "N"                    (declarative)
   getpw <accts> <localhex>     -> "<name>:<uid>:<gid>:<home>:<dash>:<ext>" (hex fields) | "N"
        accts = ';' separated <namehex>:<uid>:<gid>:<homehex>:<owner or ->
   wild <table>                 -> hex of the recorded break characters
   verdict <crashed> <code>     -> K|Z|D *)
let parse_table s = if s = "-" then [] else List.map (fun l -> match String.split_on_char ':' l with
  | [k; loc; fs] -> { a_kind = (if k = "=" then AExact else AWild); a_loc = bytes_of_hex loc;
                      a_fields = List.map bytes_of_hex (String.split_on_char ',' fs) }
  | _ -> failwith "line") (String.split_on_char ';' s)
let parse_accts s = if s = "-" then [] else List.map (fun l -> match String.split_on_char ':' l with
  | [n; u; g; h; o] -> { ac_name = bytes_of_hex n; ac_uid = n_of_int (int_of_string u); ac_gid = n_of_int (int_of_string g);
                         ac_home = bytes_of_hex h; ac_home_owner = (if o = "-" then None else Some (n_of_int (int_of_string o))) }
  | _ -> failwith "acct") (String.split_on_char ';' s)
let () = iter_lines (fun line ->
  let out = match split_ws line with
    | ["look"; t; l] -> (match nughde_get (compile (parse_table t)) (bytes_of_hex l) with
        | LFound d -> "F " ^ hex_of_bytes d | LNone -> "N" | LBroken -> "B")
    | ["spec"; t; l] -> (match assign_spec (parse_table t) (bytes_of_hex l) with Some d -> "F " ^ hex_of_bytes d | None -> "N")
    | ["getpw"; a; l] -> (match getpw (parse_accts a) (bytes_of_hex l) with
        | Some (((((n, u), g), h), d), e) -> String.concat ":" [hex_of_bytes n; string_of_int (int_of_n u); string_of_int (int_of_n g); hex_of_bytes h; hex_of_bytes d; hex_of_bytes e]
        | None -> "N")
    | ["wild"; t] -> hex_of_bytes (wildchars_of (parse_table t) [])
    | ["verdict"; c; e] -> String.make 1 (Char.chr (int_of_n (lspawn_verdict (c = "1") (n_of_int (int_of_string e)))))
    | _ -> "?" in
  print_string out; print_char '\n')
