(* smtp <nrcpt> <body_ok 0|1> <hex script> -> "<rcpt bytes as string> <K|Z|D> <dup 0|1>"
   rep <crashed> <exitcode> <hex out>     -> hex report *)
let () = iter_lines (fun line ->
  let out = match split_ws line with
    | ["smtp"; n; b; s] ->
      let r = smtp (nat_of_int (int_of_string n)) (b = "1") (bytes_of_hex s) in
      let rc = string_of_bytes r.r_rcpts in
      (if rc = "" then "-" else rc) ^ " " ^ (match r.r_verdict with VK -> "K" | VZ -> "Z" | VD -> "D") ^ " " ^ b01 r.r_dup
    | ["slot"; keep; evs] ->
        (* one delivery slot of spawn.c as a concurrent system (Remote/SpawnSlot.v): events c | w<hex byte> | x | e<wstat> | s | r<n>
           -> "REJECT" | "<wstat>:<texthex>:<honest 1|0>,..." | "-" (accepted, no report) ; then "|" and what rspawn's report() relays for each *)
        let ev s = match s.[0] with
          | 'c' -> ECmd | 'x' -> EChildClose | 's' -> ESigchld
          | 'w' -> EChildWrite (n_of_int (int_of_string ("0x" ^ String.sub s 1 (String.length s - 1))))
          | 'e' -> EChildExit (n_of_int (int_of_string (String.sub s 1 (String.length s - 1))))
          | 'r' -> ERead (nat_of_int (int_of_string (String.sub s 1 (String.length s - 1))))
          | _ -> failwith "ev" in
        (match run (keep = "1") init (List.map ev (String.split_on_char ',' evs)) with
         | None -> "REJECT"
         | Some (_, outs) ->
             if outs = [] then "-" else
             String.concat "," (List.map (fun r -> string_of_int (int_of_n r.r_wstat) ^ ":" ^ hex_of_bytes r.r_text ^ ":" ^ b01 (honestb r)) outs)
             ^ " | " ^ String.concat "," (List.map (fun r ->
                 let w = int_of_n r.r_wstat in
                 let crashed = (w land 127) <> 0 in
                 hex_of_bytes (rspawn_report crashed (n_of_int ((w lsr 8) land 255)) r.r_text)) outs))
    | ["rep"; c; e; o] -> hex_of_bytes (rspawn_report (c = "1") (n_of_int (int_of_string e)) (bytes_of_hex o))
    | _ -> "?" in
  print_string out; print_char '\n')
