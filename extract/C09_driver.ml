(* smtp <nrcpt> <body_ok 0|1> <hex script> -> "<rcpt bytes as string> <K|Z|D> <dup 0|1>"
   rep <crashed> <exitcode> <hex out>     -> hex report *)
let () = iter_lines (fun line ->
  let out = match split_ws line with
    | ["smtp"; n; b; s] ->
      let r = smtp (nat_of_int (int_of_string n)) (b = "1") (bytes_of_hex s) in
      let rc = string_of_bytes r.r_rcpts in
      (if rc = "" then "-" else rc) ^ " " ^ (match r.r_verdict with VK -> "K" | VZ -> "Z" | VD -> "D") ^ " " ^ b01 r.r_dup
    | ["rep"; c; e; o] -> hex_of_bytes (rspawn_report (c = "1") (n_of_int (int_of_string e)) (bytes_of_hex o))
    | _ -> "?" in
  print_string out; print_char '\n')
