(* ctl is given as four hex fields: envnoathost, locals file content, percenthack file content, virtualdomains file content
   rw <env> <locals> <pct> <vdoms> <recip>        -> "L <hex>" | "R <hex>"     (model of rewrite())
   spec <env> <locals> <pct> <vdoms> <recip>      -> same                       (declarative rules)
   sadd <sender> <recip>                          -> hex
   svp <vdoms> <recip>                            -> hex                        (stripvdomprepend)
   btext <recip> <report>                         -> hex                        (addbounce text; recip already stripped)
   pstarts <hex>                                  -> int (paragraph starts with a blank line in front)
   plan <doublebounceto> <sender>                 -> "S <sender> <rcpt>" | "D <sender> <rcpt>" | "X"   + " rank=<n>" *)
let mkctl env loc pct vd =
  { envnoathost = bytes_of_hex env; locals = control_lines (bytes_of_hex loc);
    percenthack = control_lines (bytes_of_hex pct); vdoms = colon_entries (control_lines (bytes_of_hex vd)) }
let show_route = function Local a -> "L " ^ hex_of_bytes a | Remote a -> "R " ^ hex_of_bytes a
let lf = n_of_int 10
let () = iter_lines (fun line ->
  let out = match split_ws line with
    | ["rw"; e; l; p; v; r] -> show_route (rewrite (mkctl e l p v) (bytes_of_hex r))
    | ["spec"; e; l; p; v; r] -> show_route (route_spec (mkctl e l p v) (bytes_of_hex r))
    | ["sadd"; s; r] -> hex_of_bytes (senderadd (bytes_of_hex s) (bytes_of_hex r))
    | ["svp"; v; r] -> hex_of_bytes (stripvdomprepend (mkctl "-" "-" "-" v) (bytes_of_hex r))
    | ["btext"; r; rep] -> hex_of_bytes (addbounce_text (bytes_of_hex r) (bytes_of_hex rep))
    | ["pstarts"; t] -> string_of_int (int_of_nat (pstarts lf lf (bytes_of_hex t)))
    | ["plan"; d; s] ->
      let sd = bytes_of_hex s in
      (match bounce_plan (bytes_of_hex d) sd with
       | BSingle (a, b) -> "S " ^ hex_of_bytes a ^ " " ^ hex_of_bytes b
       | BDouble (a, b) -> "D " ^ hex_of_bytes a ^ " " ^ hex_of_bytes b
       | BDiscard -> "X") ^ " rank=" ^ string_of_int (int_of_nat (rank sd))
    | _ -> "?" in
  print_string out; print_char '\n')
