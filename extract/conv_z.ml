(* Z <-> int (only when the extracted model uses Z) *)
let z_of_int (i : int) : z = if i = 0 then Z0 else if i > 0 then Zpos (pos_of_int i) else Zneg (pos_of_int (- i))
let int_of_z (x : z) : int = match x with Z0 -> 0 | Zpos p -> int_of_pos p | Zneg p -> - (int_of_pos p)
