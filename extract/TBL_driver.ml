(* tables: cdb (writer/reader on file images), constmap, the text compilers, rcpthosts()/bmfcheck() on concrete tables
   mk <keyhex>:<datahex>;...|-          -> hex image (cdb_make)
   get <imagehex> <keyhex>              -> E | N | F <datahex>
   spec <recs> <keyhex>                 -> N | F <datahex>
   hash <keyhex>                        -> decimal cdb_hash
   cm <flagcolon> <bufhex> <keyhex>     -> N | F <valuehex|->
   dump <flagcolon> <bufhex>            -> <mask> <first,...> <len:hash:next,...>
   cmhash <hex>                         -> decimal constmap hash
   newu <texthex>                       -> E | hex image
   newmrh <texthex>                     -> hex image
   nug <imagehex> <localhex>            -> F <nughdehex> | N | B
   rh <rcpthosts lines hex NUL-joined|!> <imagehex|!> <addrhex>   -> Y | N | E     ("!" = file absent)
   bmf <lines hex NUL-joined|!> <addrhex>                         -> 1 | 0 *)
let parse_recs s = if s = "-" then [] else List.map (fun e ->
  match String.index_opt e ':' with
  | Some i -> (bytes_of_hex (let k = String.sub e 0 i in if k = "" then "-" else k),
               bytes_of_hex (let d = String.sub e (i + 1) (String.length e - i - 1) in if d = "" then "-" else d))
  | None -> failwith "rec") (String.split_on_char ';' s)
let gres = function GErr -> "E" | GNone -> "N" | GFound d -> "F " ^ hex_of_bytes d
let lines_of_buf (b : n list) : n list list =
  let rec go cur acc = function
    | [] -> List.rev acc
    | c :: r -> if c = N0 then go [] (List.rev cur :: acc) r else go (c :: cur) acc r in
  go [] [] b
let big_dec (x : n) : string =
  let rec bits p = match p with XH -> [true] | XO q -> false :: bits q | XI q -> true :: bits q in
  match x with N0 -> "0" | Npos p ->
    let v = List.fold_right (fun b acc -> Int64.add (Int64.mul acc 2L) (if b then 1L else 0L)) (bits p) 0L in
    Printf.sprintf "%Lu" v
let opt = function None -> "-1" | Some k -> string_of_int (int_of_nat k)
let () = iter_lines (fun line ->
  let out = match split_ws line with
    | ["mk"; r] -> hex_of_bytes (cdb_make (parse_recs r))
    | ["get"; f; k] -> gres (cdb_get_fast (bytes_of_hex f) (bytes_of_hex k))
    | ["spec"; r; k] -> gres (get_spec (parse_recs r) (bytes_of_hex k))
    | ["hash"; k] -> big_dec (cdb_hash (bytes_of_hex k))
    | ["cm"; fc; b; k] ->
        let m = constmap_init (lines_of_buf (bytes_of_hex b)) (fc = "1") in
        (match constmap m (bytes_of_hex k) with None -> "N" | Some v -> "F " ^ (if fc = "1" then hex_of_bytes v else "-"))
    | ["dump"; fc; b] ->
        let m = constmap_init (lines_of_buf (bytes_of_hex b)) (fc = "1") in
        big_dec m.cm_mask ^ " " ^ String.concat "," (List.map opt m.cm_first) ^ " " ^
        (if m.cm_ents = [] then "-" else String.concat "," (List.map (fun e ->
           string_of_int (List.length e.ce_key) ^ ":" ^ big_dec e.ce_hash ^ ":" ^ opt e.ce_next) m.cm_ents))
    | ["cmhash"; k] -> big_dec (cm_hash (bytes_of_hex k))
    | ["newu"; t] -> (match newu_image (bytes_of_hex t) with None -> "E" | Some i -> hex_of_bytes i)
    | ["newmrh"; t] -> hex_of_bytes (newmrh_image (bytes_of_hex t))
    | ["nug"; f; l] -> (match nughde_get_img (bytes_of_hex f) (bytes_of_hex l) with
                        | LFound d -> "F " ^ hex_of_bytes d | LNone -> "N" | LBroken -> "B")
    | ["rh"; rhl; img; a] ->
        let m = if rhl = "!" then None else Some (constmap_init (lines_of_buf (bytes_of_hex rhl)) false) in
        let f = if img = "!" then None else Some (bytes_of_hex img) in
        (match rcpthosts_c m f (bytes_of_hex a) with RHYes -> "Y" | RHNo -> "N" | RHErr -> "E")
    | ["bmf"; l; a] ->
        let m = if l = "!" then None else Some (constmap_init (lines_of_buf (bytes_of_hex l)) false) in
        b01 (bmfcheck_c m (bytes_of_hex a))
    | _ -> "?" in
  print_string out; print_char '\n')
