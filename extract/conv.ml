(* hand-written glue shared by all drivers: hex <-> list N, ints <-> N / nat.
   Concatenated after the extracted model, so the extracted constructors are in scope. *)
let rec pos_of_int (i : int) : positive =
  if i = 1 then XH else if i land 1 = 1 then XI (pos_of_int (i lsr 1)) else XO (pos_of_int (i lsr 1))
let n_of_int (i : int) : n = if i = 0 then N0 else Npos (pos_of_int i)
let rec int_of_pos (p : positive) : int =
  match p with XH -> 1 | XO q -> 2 * int_of_pos q | XI q -> 2 * int_of_pos q + 1
let int_of_n (x : n) : int = match x with N0 -> 0 | Npos p -> int_of_pos p
let rec nat_of_int (i : int) : nat = if i <= 0 then O else S (nat_of_int (i - 1))
let rec int_of_nat (x : nat) : int = match x with O -> 0 | S y -> 1 + int_of_nat y

let byte_tbl : n array = Array.init 256 n_of_int
let hexval c = match c with
  | '0'..'9' -> Char.code c - 48 | 'a'..'f' -> Char.code c - 87 | 'A'..'F' -> Char.code c - 55
  | _ -> failwith "hex"
let bytes_of_hex (s : string) : n list =
  if s = "-" then [] else begin
    let l = String.length s / 2 in
    let rec go i acc = if i < 0 then acc
      else go (i - 1) (byte_tbl.(hexval s.[2*i] * 16 + hexval s.[2*i+1]) :: acc) in
    go (l - 1) []
  end
let hex_of_bytes (b : n list) : string =
  if b = [] then "-" else begin
    let buf = Buffer.create 64 in
    List.iter (fun x -> Buffer.add_string buf (Printf.sprintf "%02x" (int_of_n x land 255))) b;
    Buffer.contents buf
  end
let string_of_bytes (b : n list) : string =
  let buf = Buffer.create 64 in
  List.iter (fun x -> Buffer.add_char buf (Char.chr (int_of_n x land 255))) b; Buffer.contents buf
let bytes_of_string (s : string) : n list =
  let rec go i acc = if i < 0 then acc else go (i - 1) (byte_tbl.(Char.code s.[i]) :: acc) in
  go (String.length s - 1) []
(* decimal string of an arbitrarily large N (for u64 values etc.) *)
let dec_of_n (x : n) : string =
  (* values used by the drivers fit in 62 bits except where stated; fall back to hex-ish *)
  string_of_int (int_of_n x)
let split_ws (s : string) : string list =
  List.filter (fun x -> x <> "") (String.split_on_char ' ' s)
let b01 b = if b then "1" else "0"
(* every input line yields exactly one output line; a malformed line yields "ERR ..." *)
let iter_lines (f : string -> unit) =
  try while true do
    let l = input_line stdin in
    (try f l with
     | End_of_file -> raise End_of_file
     | e -> print_string ("ERR " ^ Printexc.to_string e); print_char '\n')
  done with End_of_file -> ()
