(* sess <msgs> <lines> -> "<hex output> <ops>"
   msgs  = '-' or comma list of  <fnhex>:<size>:<contenthex or V>      (V = cannot be opened)
   lines = '-' or comma list of hex command lines (without the LF)
   ops   = '-' or comma list of U:<fnhex> | R:<srchex>:<dsthex>
   blast <contenthex> <limit> -> hex
   popup <bannerhex> x,<line>,<line>... <crashed01> <exitcode> -> "<hex replies incl. what follows the subprogram> <fd3 hex|none>" *)
let parse_msg s = match String.split_on_char ':' s with
  | [f; sz; c] -> { p_fn = bytes_of_hex f; p_size = n_of_int (int_of_string sz); p_content = (if c = "V" then None else Some (bytes_of_hex c)) }
  | _ -> failwith "msg"
let lst f s = if s = "-" then [] else List.map f (String.split_on_char ',' s)
let () = iter_lines (fun line ->
  let out = match split_ws line with
    | ["sess"; ms; ls] ->
      let (o, ops) = session (init_state (lst parse_msg ms)) (lst bytes_of_hex ls) in
      hex_of_bytes o ^ " " ^ (if ops = [] then "-" else String.concat "," (List.map (function
        | QUnlink f -> "U:" ^ hex_of_bytes f | QRename (a, b) -> "R:" ^ hex_of_bytes a ^ ":" ^ hex_of_bytes b) ops))
    | ["popup"; b; ls; cr; ec] ->
      let (o, a) = popup_session (bytes_of_hex b) ust0 (List.map bytes_of_hex (List.tl (String.split_on_char ',' ls))) in
      (match a with
       | None -> hex_of_bytes o ^ " none"
       | Some f -> hex_of_bytes (o @ after_auth (cr = "1") (n_of_int (int_of_string ec))) ^ " " ^ hex_of_bytes f)
    | ["blast"; c; l] -> hex_of_bytes (pop3_blast (bytes_of_hex c) (n_of_int (int_of_string l)))
    | _ -> "?" in
  print_string out; print_char '\n')
