(* cnt <hex>                                  -> "F" | "<numtoks> <numchars>"           count_pass
   rp|rdy <null01> <a> <len> <n> <allocok01>  -> "<ok01> <a'|N> <len'>"                 readyplus / ready
   catb|copyb <null01> <a> <len> <n> <allocok01> -> "<ok01> <a'|N> <len'>"
   append <null01> <a> <len> <allocok01>      -> "<ok01> <a'|N> <len'>"
   getlen <hex>                               -> "ok <v>" | "res" | "bad" | "eof"
   rcpt <len> <biglen> <relayclientlen|->     -> "bad" | "long" | "accept <highest index written>" *)
let zs s = z_of_int (int_of_string s)
let mk nul a len = { s_alloc = (if nul = "1" then None else Some (zs a)); s_len = zs len; s_data = [] }
let show ok x = Printf.sprintf "%s %s %d" (b01 ok) (match x.s_alloc with None -> "N" | Some a -> string_of_int (int_of_z a)) (int_of_z x.s_len)
let rec zeros n = if n <= 0 then [] else N0 :: zeros (n - 1)
let () = iter_lines (fun line ->
  let out = match split_ws line with
    | ["cnt"; s] -> (match count_pass (bytes_of_hex s) with None -> "F" | Some (a, b) -> Printf.sprintf "%d %d" (int_of_nat a) (int_of_nat b))
    | ["rp"; nul; a; len; n; ok] -> let (b, x) = readyplus (mk nul a len) (zs n) (ok = "1") in show b x
    | ["rdy"; nul; a; len; n; ok] -> let (b, x) = ready (mk nul a len) (zs n) (ok = "1") in show b x
    | ["catb"; nul; a; len; n; ok] -> let r = catb (mk nul a len) (zeros (min (int_of_string n) 5000)) (zs n) (ok = "1") in show r.r_ok r.r_sa
    | ["copyb"; nul; a; len; n; ok] -> let r = copyb (mk nul a len) (zeros (min (int_of_string n) 5000)) (zs n) (ok = "1") in show r.r_ok r.r_sa
    | ["append"; nul; a; len; ok] -> let r = append (mk nul a len) N0 (ok = "1") in show r.r_ok r.r_sa
    | ["out"; cap; scr; ops] ->
        (* substdio output side (Mem/Substdio.v): script k<n>|i|e, ops p<hex>|b<hex>|f|P<hex> -> "<ok> <accepted hex> <bytes waiting> <all copies inside 1|0>" *)
        let split s = if s = "-" then [] else String.split_on_char ',' s in
        let num s = int_of_string (String.sub s 1 (String.length s - 1)) in
        let hexarg s = let h = String.sub s 1 (String.length s - 1) in bytes_of_hex (if h = "" then "-" else h) in
        let w = function s when s.[0] = 'i' -> WIntr | s when s.[0] = 'e' -> WErr | s -> WOk (nat_of_int (num s)) in
        let o = function s when s.[0] = 'p' -> OPut (hexarg s) | s when s.[0] = 'b' -> OBput (hexarg s) | s when s.[0] = 'f' -> OFlush | s -> OPutflush (hexarg s) in
        let c = int_of_string cap in
        let (ok, b) = o_run (o_init (nat_of_int c) (List.map w (split scr))) (List.map o (split ops)) in
        b01 ok ^ " " ^ hex_of_bytes b.o_out ^ " " ^ string_of_int (List.length b.o_pend) ^ " " ^
        b01 (List.for_all (fun (lo, n) -> int_of_nat lo + int_of_nat n <= c) b.o_copies)
    | ["in"; cap; scr; sep; src] ->
        let split s = if s = "-" then [] else String.split_on_char ',' s in
        let num s = int_of_string (String.sub s 1 (String.length s - 1)) in
        let r = function s when s.[0] = 'i' -> RIntr | s when s.[0] = 'e' -> RErr | s -> RChunk (nat_of_int (num s)) in
        let sb = bytes_of_hex src in
        let (ls, ok) = getlns_all (nat_of_int (List.length sb + 2)) (i_init (nat_of_int (int_of_string cap)) sb (List.map r (split scr))) (List.hd (bytes_of_hex sep)) in
        (if ls = [] then "-" else String.concat "," (List.map (fun (l, m) -> hex_of_bytes l ^ ":" ^ b01 m) ls)) ^ " " ^ b01 ok
    | ["get"; cap; scr; lens; src] ->
        (* successive i_get calls of Mem/Substdio.v: "r:hex,..." stopping after the first r <= 0 (error: -1) *)
        let split s = if s = "-" then [] else String.split_on_char ',' s in
        let num s = int_of_string (String.sub s 1 (String.length s - 1)) in
        let r = function s when s.[0] = 'i' -> RIntr | s when s.[0] = 'e' -> RErr | s -> RChunk (nat_of_int (num s)) in
        let rec go b first = function
          | [] -> ""
          | l :: rest ->
              let (res, b') = i_get b (nat_of_int (int_of_string l)) in
              let sep = if first then "" else "," in
              (match res with
               | None -> sep ^ "-1:-"
               | Some d -> let n = List.length d in sep ^ string_of_int n ^ ":" ^ hex_of_bytes d ^ (if n = 0 then "" else go b' false rest)) in
        let ls = split lens in
        if ls = [] then "-" else go (i_init (nat_of_int (int_of_string cap)) (bytes_of_hex src) (List.map r (split scr))) true ls
    | ["dns"; kind; want; resp] ->
        (* the record walk of dns.c on one response: "S" (resolve: DNS_SOFT) | "<results e.g. KGKS>;<largest index read or -1>;<nreads>"
           K = skipped (0), G = got (1), S = DNS_SOFT, E = end (2); dn_expand = the simple-name stand-in *)
        let bl = List.map (fun b -> z_of_int (int_of_n b)) (bytes_of_hex resp) in
        let arr = Array.of_list bl in
        let rlen = z_of_int (Array.length arr) in
        let buf p = let i = int_of_z p in if i >= 0 && i < Array.length arr then arr.(i) else z_of_int 0 in
        let dn = dn_simple buf rlen in
        let k = (match kind with "ip" -> KIp | "mx" -> KMx | _ -> KName) in
        (match resolve_walk buf rlen dn with
         | (None, _) -> "S"
         | (Some s0, _) ->
             let fuel = nat_of_int (1 + max 0 (int_of_z s0.numanswers)) in
             let (rs, rd) = walk buf rlen dn true fuel k (zs want) s0 in
             let c = function FSoft -> "S" | FEnd -> "E" | FSkip -> "K" | FGot -> "G" in
             String.concat "" (List.map c rs) ^ ";" ^ string_of_int (List.fold_left (fun m x -> max m (int_of_z x)) (-1) rd) ^ ";" ^ string_of_int (List.length rd))
    | ["getlen"; s] -> (match getlen (List.map (fun b -> z_of_int (int_of_n b)) (bytes_of_hex s)) with
        | GOk (v, _) -> "ok " ^ string_of_int (int_of_z v) | GResources -> "res" | GBadproto -> "bad" | GEof -> "eof")
    | ["rcpt"; l; b; rl] -> (match rcpt_decide (zs l) (zs b) (if rl = "-" then None else Some (zs rl)) with
        | RBad -> "bad" | RTooLong _ -> "long"
        | RAccept ws -> "accept " ^ string_of_int (List.fold_left (fun m (_, hi) -> max m (int_of_z hi - 1)) 0 ws))
    | _ -> "?" in
  print_string out; print_char '\n')
