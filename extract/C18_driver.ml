(* clean <split> <hexreq> <u1> <u2>            -> "<hexresp> <path,path|->"      (u = o|n|f)
   cmds <hexstream>                            -> "d:messid:sender:recip;..." (hex fields) | "-"
   docmd <nspawn> <used list|-> <fkind a|n|w|g> <delnum> <hexmessid> <hexrecip> -> "E d v" | "O d path v" | "S d path"
   lrep <crashed 0|1> <exitcode> <hex child output> -> hex of lspawn_report
   reports <hexstream>                         -> "hex,hex,..." | "-"
   delrun <conc> <used list|-> <dying list|-> <hexstream> -> events "I" | "R<d>:<K|Z|D|M>:<texthex>" joined by ' ' *)
let ures = function "o" -> UOk | "n" -> UNoent | _ -> UFail
let ilist s = if s = "-" then [] else List.map int_of_string (String.split_on_char ',' s)
let mem_n l x = List.mem (int_of_n x) l
let vchar = function VK -> "K" | VZ -> "Z" | VD -> "D" | VMangled -> "M"
let () = iter_lines (fun line ->
  let out = match split_ws line with
    | ["clean"; sp; r; u1; u2] ->
      let (ps, resp) = clean_handle (n_of_int (int_of_string sp)) (bytes_of_hex r) (ures u1) (ures u2) in
      hex_of_bytes resp ^ " " ^ (if ps = [] then "-" else String.concat "," (List.map hex_of_bytes ps))
    | ["cmds"; s] ->
      let b = bytes_of_hex s in
      let cs = parse_cmds (nat_of_int (List.length b)) b in
      if cs = [] then "-" else String.concat ";" (List.map (fun c ->
        Printf.sprintf "%d:%s:%s:%s" (int_of_n c.c_delnum) (hex_of_bytes c.c_messid) (hex_of_bytes c.c_sender) (hex_of_bytes c.c_recip)) cs)
    | ["docmd"; ns; used; fk; d; m; r] ->
      let u = ilist used in
      let f = match fk with "a" -> FAbsent | "n" -> FNotRegular | "w" -> FWrongOwner | _ -> FGood in
      (match docmd (n_of_int (int_of_string ns)) (mem_n u) (fun _ -> f)
               { c_delnum = n_of_int (int_of_string d); c_messid = bytes_of_hex m; c_sender = []; c_recip = bytes_of_hex r } with
       | SErr (d, v) -> Printf.sprintf "E %d %c" (int_of_n d) (Char.chr (int_of_n v))
       | SOpenErr (d, p, v) -> Printf.sprintf "O %d %s %c" (int_of_n d) (hex_of_bytes p) (Char.chr (int_of_n v))
       | SSpawn (d, p) -> Printf.sprintf "S %d %s" (int_of_n d) (hex_of_bytes p))
    | ["lrep"; c; e; h] -> hex_of_bytes (lspawn_report (int_of_string c <> 0) (n_of_int (int_of_string e)) (bytes_of_hex h))
    | ["reports"; s] -> let rs = reports (bytes_of_hex s) in if rs = [] then "-" else String.concat "," (List.map hex_of_bytes rs)
    | ["delrun"; conc; used; dying; s] ->
      let dy = ilist dying in
      let rec go used rs = match rs with
        | [] -> []
        | r :: rs' ->
          (match del_event (n_of_int (int_of_string conc)) (mem_n used) (mem_n dy) r with
           | DIgnored -> "I" :: go used rs'
           | DReport (d, v, t) -> Printf.sprintf "R%d:%s:%s" (int_of_n d) (vchar v) (hex_of_bytes t)
                                  :: go (List.filter (fun x -> x <> int_of_n d) used) rs') in
      let ev = go (ilist used) (reports (bytes_of_hex s)) in
      if ev = [] then "-" else String.concat " " ev
    | _ -> "?" in
  print_string out; print_char '\n')
