(* the functions generated from the C sources, behind the line protocol of harness/h_leaf.c *)
let zl (s : string) : z list = List.map (fun b -> z_of_int (int_of_n b)) (bytes_of_hex s)
let zstr s = zl s @ [z_of_int 0]
let hexz (l : z list) : string = if l = [] then "-" else String.concat "" (List.map (fun x -> Printf.sprintf "%02x" ((int_of_z x) land 255)) l)
let rec take n l = if n <= 0 then [] else match l with [] -> [] | x :: r -> x :: take (n - 1) r
let bigz (x : z) : string =
  let rec bits p = match p with XH -> [true] | XO q -> false :: bits q | XI q -> true :: bits q in
  match x with Z0 -> "0" | Zneg _ -> string_of_int (int_of_z x) | Zpos p ->
    let v = List.fold_right (fun b acc -> Int64.add (Int64.mul acc 2L) (if b then 1L else 0L)) (bits p) 0L in Printf.sprintf "%Lu" v
let zbig (s : string) : z =
  (* decimal up to 2^64 - 1 *)
  let v = Int64.of_string ("0u" ^ s) in
  let rec pos (v : Int64.t) : positive =
    if Int64.equal v 1L then XH else
    let h = Int64.shift_right_logical v 1 in if Int64.equal (Int64.logand v 1L) 1L then XI (pos h) else XO (pos h) in
  if Int64.equal v 0L then Z0 else Zpos (pos v)
let fuel l = nat_of_int (String.length l + 80)
let sign i = if i < 0 then -1 else if i > 0 then 1 else 0
let () = iter_lines (fun line ->
  let f = fuel line in
  let ret = function None -> "STUCK" | Some (v, _) -> bigz v in
  let out = match split_ws line with
    | ["cm_hash"; h] -> let a = zl h in ret (C_cm_hash.run f a (z_of_int 0) (z_of_int (List.length a)))
    | ["cdb_hash"; h] -> let a = zl h in ret (C_cdb_hash.run f a (z_of_int 0) (z_of_int (List.length a)))
    | ["hashadd"; h; c] -> ret (C_cdbmake_hashadd.run f (zbig h) (zbig c))
    | ["unpack"; h] -> ret (C_cdb_unpack.run f (zl h) (z_of_int 0))
    | ["pack"; n] -> (match C_cdbmake_pack.run f [Z0; Z0; Z0; Z0] (z_of_int 0) (zbig n) with None -> "STUCK" | Some (_, s) -> hexz s.C_cdbmake_pack.a_buf)
    | ["case_diffb"; x; y] -> let a = zl x in (match C_case_diffb.run f a (z_of_int 0) (z_of_int (List.length a)) (zl y) (z_of_int 0) with None -> "STUCK" | Some (v, _) -> string_of_int (int_of_z v))
    | ["case_lowerb"; h] -> let a = zl h in (match C_case_lowerb.run f a (z_of_int 0) (z_of_int (List.length a)) with None -> "STUCK" | Some (_, s) -> hexz s.C_case_lowerb.a_s)
    | ["byte_chr"; h; c] -> let a = zl h in ret (C_byte_chr.run f a (z_of_int 0) (z_of_int (List.length a)) (z_of_int (int_of_string c)))
    | ["byte_rchr"; h; c] -> let a = zl h in ret (C_byte_rchr.run f a (z_of_int 0) (z_of_int (List.length a)) (z_of_int (int_of_string c)))
    | ["str_chr"; h; c] -> ret (C_str_chr.run f (zstr h) (z_of_int 0) (z_of_int (int_of_string c)))
    | ["str_rchr"; h; c] -> ret (C_str_rchr.run f (zstr h) (z_of_int 0) (z_of_int (int_of_string c)))
    | ["scan_ulong"; h] -> (match C_scan_ulong.run f (zstr h) (z_of_int 0) [z_of_int 77] (z_of_int 0) with None -> "STUCK" | Some (v, s) -> bigz v ^ " " ^ bigz (List.hd s.C_scan_ulong.a_u))
    | ["scan_8long"; h] -> (match C_scan_8long.run f (zstr h) (z_of_int 0) [z_of_int 77] (z_of_int 0) with None -> "STUCK" | Some (v, s) -> bigz v ^ " " ^ bigz (List.hd s.C_scan_8long.a_u))
    | ["fmt_ulong"; u] ->
        let buf = List.init 40 (fun _ -> Z0) in
        (match C_fmt_ulong.run f [] (z_of_int (-1)) (zbig u), C_fmt_ulong.run f buf (z_of_int 0) (zbig u) with
         | Some (r0, _), Some (r, s) -> bigz r0 ^ " " ^ bigz r ^ " " ^ hexz (take (int_of_z r) s.C_fmt_ulong.a_s) | _ -> "STUCK")
    | ["fmt_uint0"; u; n] ->
        let buf = List.init 64 (fun _ -> Z0) in
        (match C_fmt_uint0.run f buf (z_of_int 0) (zbig u) (zbig n) with Some (r, s) -> bigz r ^ " " ^ hexz (take (int_of_z r) s.C_fmt_uint0.a_s) | None -> "STUCK")
    | ["fmt_str"; h] ->
        let buf = List.init (String.length h + 4) (fun _ -> Z0) in
        (match C_fmt_str.run f buf (z_of_int 0) (zstr h) (z_of_int 0) with Some (r, s) -> bigz r ^ " " ^ hexz (take (int_of_z r) s.C_fmt_str.a_s) | None -> "STUCK")
    | ["byte_copy"; h; n] -> let a = zl h in let d = List.map (fun _ -> z_of_int 0x2e) a in
        (match C_byte_copy.run f d (z_of_int 0) (zbig n) a (z_of_int 0) with Some (_, s) -> hexz s.C_byte_copy.a_to | None -> "STUCK")
    | ["byte_copyr"; h; n] -> let a = zl h in let d = List.map (fun _ -> z_of_int 0x2e) a in
        (match C_byte_copyr.run f d (z_of_int 0) (zbig n) a (z_of_int 0) with Some (_, s) -> hexz s.C_byte_copyr.a_to | None -> "STUCK")
    | ["byte_zero"; h; n] -> (match C_byte_zero.run f (zl h) (z_of_int 0) (zbig n) with Some (_, s) -> hexz s.C_byte_zero.a_s | None -> "STUCK")
    | ["str_start"; x; y] -> ret (C_str_start.run f (zstr x) (z_of_int 0) (zstr y) (z_of_int 0))
    | ["case_diffs"; x; y] -> (match C_case_diffs.run f (zstr x) (z_of_int 0) (zstr y) (z_of_int 0) with Some (v, _) -> string_of_int (sign (int_of_z v)) | None -> "STUCK")
    | ["case_starts"; x; y] -> ret (C_case_starts.run f (zstr x) (z_of_int 0) (zstr y) (z_of_int 0))
    | ["squareroot"; x] -> ret (C_squareroot.run f (zbig x))
    | ["rblast"; h] ->
        (* blast() of qmail-remote.c as generated: "S <hex out>" | "P" (perm_partialline) | "E <code>" *)
        (match C_rblast.run f (zl h) (z_of_int 0) [] (z_of_int 0) with
         | Some (v, s) -> let c = int_of_z v in if c = 0 then "S " ^ hexz s.C_rblast.a_smtpto__out else if c = -3 then "P" else "E " ^ string_of_int c
         | None -> "STUCK")
    | ["sblast"; h; bto] ->
        (* blast() of qmail-smtpd.c as generated: "D <body> <rest> <hops> F<fail>" | "X" (stray newline) | "N <body>" (input exhausted) *)
        let inp = zl h in
        (match C_sblast.run f [Z0] (z_of_int 0) inp (z_of_int 0) (zbig bto) (z_of_int 0) [] with
         | Some (v, s) ->
             let c = int_of_z v in
             if c = -4 then "X" else if c = -9 then "N " ^ hexz s.C_sblast.a_qqt__out else
             let pos = int_of_z s.C_sblast.v_ssin__pos in
             let rec drop n l = if n <= 0 then l else match l with [] -> [] | _ :: r -> drop (n - 1) r in
             "D " ^ hexz s.C_sblast.a_qqt__out ^ " " ^ hexz (drop pos inp) ^ " " ^ bigz (List.hd s.C_sblast.a_hops) ^ " F" ^ bigz s.C_sblast.v_qqt__fail
         | None -> "STUCK")
    | ["smtpcode"; h] ->
        (match C_smtpcode.run f [] (z_of_int 0) (zl h) (z_of_int 0) with
         | Some (v, s) -> if int_of_z v = -9 then "DROP" else bigz v ^ " " ^ bigz s.C_smtpcode.v_smtpfrom__pos ^ " " ^ hexz s.C_smtpcode.a_smtptext__s
         | None -> "STUCK")
    | ["getlen"; h] ->
        (match C_getlen.run f (zl h) (z_of_int 0) with
         | Some (v, s) -> let c = int_of_z v in if c = -6 then "res" else if c = -7 then "bad" else if c = -9 then "eof" else "ok " ^ bigz v ^ " " ^ bigz s.C_getlen.v_ssin__pos
         | None -> "STUCK")
    | ["ip_scan"; h] -> (match C_ip_scan.run f (zstr h) (z_of_int 0) [Z0; Z0; Z0; Z0] with Some (v, s) -> bigz v ^ " " ^ hexz s.C_ip_scan.a_ip__d | None -> "STUCK")
    | ["ip_scanbracket"; h] ->
        (match C_ip_scanbracket.run f (zstr h) (z_of_int 0) [Z0; Z0; Z0; Z0], K_ip_scanbracket.run f (zstr h) (z_of_int 0) [Z0; Z0; Z0; Z0] with
         | Some (v, s), Some (v2, k) -> if v = v2 && int_of_z k.K_ip_scanbracket.v__oob = 0 then bigz v ^ " " ^ hexz s.C_ip_scanbracket.a_ip__d else "OOB-OR-DIFFERENT"
         | _ -> "STUCK")
    | ["ip_fmt"; h] -> (match C_ip_fmt.run f (List.init 20 (fun _ -> Z0)) (z_of_int 0) (zl h) with Some (v, s) -> bigz v ^ " " ^ hexz (take (int_of_z v) s.C_ip_fmt.a_s) | None -> "STUCK")
    | ["quote_doit"; h] ->
        let src = zl h in let n = z_of_int (List.length src) in
        (match C_quote_doit.run f [] (z_of_int 0) (z_of_int 0) src n (z_of_int 1), K_quote_doit.run f [] (z_of_int 0) (z_of_int 0) src n (z_of_int 1) with
         | Some (v, s), Some (_, k) -> if int_of_z k.K_quote_doit.v__oob <> 0 then "OOB" else
             bigz v ^ " " ^ bigz s.C_quote_doit.v_saout__len ^ " " ^ hexz (take (int_of_z s.C_quote_doit.v_saout__len) s.C_quote_doit.a_saout__s)
         | _ -> "STUCK")
    | ["rep"; c; e; h] | ["lrep"; c; e; h] ->
        (* report() of qmail-rspawn.c / qmail-lspawn.c as generated, on the harness's arguments (a NUL sentinel after the output);
           "OOB" appended when the checked variant saw an access outside output + sentinel *)
        let out = zl h in let n = z_of_int (List.length out) in
        let wstat = if int_of_string c <> 0 then z_of_int 11 else z_of_int (int_of_string e * 256) in
        if List.hd (split_ws line) = "rep" then
          (match C_rreport.run f [] wstat (out @ [Z0]) (z_of_int 0) n, K_rreport.run f [] wstat (out @ [Z0]) (z_of_int 0) n with
           | Some (_, s), Some (_, k) -> hexz s.C_rreport.a_ss__out ^ (if int_of_z k.K_rreport.v__oob <> 0 then " OOB" else "")
           | _ -> "STUCK")
        else
          (match C_lreport.run f [] wstat (out @ [Z0]) (z_of_int 0) n, K_lreport.run f [] wstat (out @ [Z0]) (z_of_int 0) n with
           | Some (_, s), Some (_, k) -> hexz s.C_lreport.a_ss__out ^ (if int_of_z k.K_lreport.v__oob <> 0 then " OOB" else "")
           | _ -> "STUCK")
    | ["safeput"; h] ->
        (match C_safeput.run f [] (zstr h) (z_of_int 0), K_safeput.run f [] (zstr h) (z_of_int 0) with
         | Some (_, s), Some (_, k) -> if int_of_z k.K_safeput.v__oob <> 0 then "OOB" else hexz s.C_safeput.a_qqt__out
         | _ -> "STUCK")
    | ["fmtqfn"; d; id; flag; split] ->
        let buf = List.init 300 (fun _ -> z_of_int 0x2e) in
        let fl = z_of_int (int_of_string flag) and sp = z_of_int (int_of_string split) in
        (match C_fmtqfn.run f [] (z_of_int (-1)) (zstr d) (z_of_int 0) (zbig id) fl sp, C_fmtqfn.run f buf (z_of_int 0) (zstr d) (z_of_int 0) (zbig id) fl sp,
               K_fmtqfn.run f buf (z_of_int 0) (zstr d) (z_of_int 0) (zbig id) fl sp with
         | Some (r0, _), Some (r, s), Some (_, k) -> if int_of_z k.K_fmtqfn.v__oob <> 0 then "OOB" else
             bigz r0 ^ " " ^ bigz r ^ " " ^ split ^ " " ^ hexz (take (int_of_z r) s.C_fmtqfn.a_s)
         | _ -> "STUCK")
    | ["ap"; h; ok; lh; ipme] ->
        (* addrparse() of qmail-smtpd.c as generated: "S <hex addr without its NUL>" | "F"; "OOB" when the checked variant saw an access outside an array *)
        let l = zl lh in
        (match C_addrparse.run f (zstr h) (z_of_int 0) [] (z_of_int 0) (z_of_int (int_of_string ok)) (zl ipme) l (z_of_int (List.length l)),
               K_addrparse.run f (zstr h) (z_of_int 0) [] (z_of_int 0) (z_of_int (int_of_string ok)) (zl ipme) l (z_of_int (List.length l)) with
         | Some (v, s), Some (_, k) ->
             if int_of_z k.K_addrparse.v__oob <> 0 then "OOB" else
             if int_of_z v = 0 then "F" else if int_of_z v < 0 then "E" else "S " ^ hexz (take (int_of_z s.C_addrparse.v_addr__len - 1) s.C_addrparse.a_addr__s)
         | _ -> "STUCK")
    | ["clean"; sp; r; u1; u2] ->
        (* main() of qmail-clean.c as generated, on one request (the request + NUL, then end of input); unlink answers o = removed,
           n = ENOENT, f = EIO; same output format as the model driver: "<hex status bytes> <path,path|->" *)
        let res = List.map (fun u -> z_of_int (match u with "o" -> 0 | "n" -> 2 | _ -> 5)) [u1; u2] in
        (match C_clean_main.run f (zl r @ [Z0]) (z_of_int 0) [] (z_of_int 0) [] (List.init 40 (fun _ -> Z0)) (z_of_int (int_of_string sp)) res [] (z_of_int 0) with
         | Some (v, s) when int_of_z v = 0 ->
             let rec split cur acc = function
               | [] -> List.rev acc
               | x :: rest -> if int_of_z x = 0 then split [] (List.rev cur :: acc) rest else split (x :: cur) acc rest in
             let paths = split [] [] s.C_clean_main.a_unlink__log in
             hexz s.C_clean_main.a_subfdoutsmall__out ^ " " ^ (if paths = [] then "-" else String.concat "," (List.map hexz paths))
         | Some (v, _) -> "EXIT " ^ string_of_int (int_of_z v)
         | None -> "STUCK")
    | ["out"; cap; scr; ops] ->
        (* substdo.c as generated (substdio_put, substdio_bput, substdio_flush, substdio_putflush over allwrite; op = the scripted write
           oracle), in the protocol of harness/h_substdio.c: "<ok> <hex accepted> <bytes waiting>"; " OOB" when a checked variant saw an access
           outside the buffer or the data *)
        let split s = if s = "-" then [] else String.split_on_char ',' s in
        let num s = int_of_string (String.sub s 1 (String.length s - 1)) in
        let hexarg s = let h = String.sub s 1 (String.length s - 1) in zl (if h = "" then "-" else h) in
        let script = List.map (fun t -> z_of_int (if t.[0] = 'i' then -1 else if t.[0] = 'e' then -2 else num t)) (split scr) in
        let c = int_of_string cap in
        let zi = z_of_int in
        let rec go (x, p, n, acc, oob) = function
          | [] -> (true, p, acc, oob)
          | o :: rest ->
              let d = if o.[0] = 'f' then [] else hexarg o in
              let len = zi (List.length d) in
              let r = match o.[0] with
                | 'p' -> (match C_substdio_put.run f x (zi c) p (zi 1) d (zi 0) len script acc n, K_substdio_put.run f x (zi c) p (zi 1) d (zi 0) len script acc n with
                          | Some (v, t), Some (_, k) -> Some (v, t.C_substdio_put.a_s__x, t.C_substdio_put.v_s__p, t.C_substdio_put.v_wr__n, t.C_substdio_put.a_wr__out, k.K_substdio_put.v__oob) | _ -> None)
                | 'b' -> (match C_substdio_bput.run f x (zi c) p (zi 1) d (zi 0) len script acc n, K_substdio_bput.run f x (zi c) p (zi 1) d (zi 0) len script acc n with
                          | Some (v, t), Some (_, k) -> Some (v, t.C_substdio_bput.a_s__x, t.C_substdio_bput.v_s__p, t.C_substdio_bput.v_wr__n, t.C_substdio_bput.a_wr__out, k.K_substdio_bput.v__oob) | _ -> None)
                | 'f' -> (match C_substdio_flush.run f x p (zi 1) script acc n, K_substdio_flush.run f x p (zi 1) script acc n with
                          | Some (v, t), Some (_, k) -> Some (v, t.C_substdio_flush.a_s__x, t.C_substdio_flush.v_s__p, t.C_substdio_flush.v_wr__n, t.C_substdio_flush.a_wr__out, k.K_substdio_flush.v__oob) | _ -> None)
                | _ -> (match C_substdio_putflush.run f x p (zi 1) d (zi 0) len script acc n, K_substdio_putflush.run f x p (zi 1) d (zi 0) len script acc n with
                          | Some (v, t), Some (_, k) -> Some (v, t.C_substdio_putflush.a_s__x, t.C_substdio_putflush.v_s__p, t.C_substdio_putflush.v_wr__n, t.C_substdio_putflush.a_wr__out, k.K_substdio_putflush.v__oob) | _ -> None) in
              (match r with
               | None -> (false, zi (-99), acc, true)
               | Some (v, x', p', n', acc', k) ->
                   let oob' = oob || int_of_z k <> 0 in
                   if int_of_z v <> 0 then (false, p', acc', oob') else go (x', p', n', acc', oob') rest) in
        let (ok, p, acc, oob) = go (List.init c (fun _ -> Z0), zi 0, zi 0, [], false) (split ops) in
        if int_of_z p = -99 then "STUCK" else
        (if ok then "1" else "0") ^ " " ^ hexz acc ^ " " ^ string_of_int (int_of_z p) ^ (if oob then " OOB" else "")
    | ["get"; cap; scr; lens; src] ->
        (* substdi.c as generated (substdio_get over getthis / substdio_feed / oneread; op = the scripted read oracle), protocol of
           harness/h_substdio.c "get"; " OOB" when the checked variant saw an access outside the buffer or the destination *)
        let split s = if s = "-" then [] else String.split_on_char ',' s in
        let num s = int_of_string (String.sub s 1 (String.length s - 1)) in
        let script = List.map (fun t -> z_of_int (if t.[0] = 'i' then -1 else if t.[0] = 'e' then -2 else num t)) (split scr) in
        let c = int_of_string cap in let zi = z_of_int in
        let source = zl src in
        let rec go (x, p, n, k, pos, first, oob) = function
          | [] -> if oob then " OOB" else ""
          | l :: rest ->
              let len = int_of_string l in
              let dst = List.init (max len 1) (fun _ -> Z0) in
              (match C_substdio_get.run f x p n (zi 0) dst (zi 0) (zi len) script source k pos, K_substdio_get.run f x p n (zi 0) dst (zi 0) (zi len) script source k pos with
               | Some (v, t), Some (_, kk) ->
                   let r = int_of_z v in
                   let oob' = oob || int_of_z kk.K_substdio_get.v__oob <> 0 in
                   let item = string_of_int r ^ ":" ^ hexz (take (max r 0) t.C_substdio_get.a_buf) in
                   (if first then "" else ",") ^ item ^
                   (if r <= 0 then (if oob' then " OOB" else "") else
                    go (t.C_substdio_get.a_s__x, t.C_substdio_get.v_s__p, t.C_substdio_get.v_s__n, t.C_substdio_get.v_rd__n, t.C_substdio_get.v_rd__pos, false, oob') rest)
               | _ -> "STUCK") in
        let ls = split lens in
        if ls = [] then "-" else go (List.init c (fun _ -> Z0), zi 0, zi c, zi 0, zi 0, true, false) ls
    | _ -> "?" in
  print_string out; print_char '\n')
