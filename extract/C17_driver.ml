(* qn <hex>                 -> 0|1                      quote_need
   q2 <hex>                 -> <hex>                    quote2
   mangle <hex>             -> <hex>                    addrmangle
   aparse <hex arg>         -> S <hex> | F              addrparse, no liphost
   tok <hex>                -> F | <tokens> | <unquote hex> | <unparse(80) hex>
   hf <dh> <dd> <pd> <flags sfir as 01 string> <hex field>
                            -> P | hr=<hex,..> hrr=<..> sender=<hex|none> saved=<hex|none> seen=<n>
   inject <dh> <dd> <pd> <flags> <useargs 0|1> <usehdr 0|1> <from hex|none> <args hex,hex|-> <msg hex>
                            -> P | sender=<hex|none> rcpts=<hex,...> saved=<hex> body=<hex> seen=<n,n,...> *)
let tokstr t = match t with
  | TAtom s -> "A" ^ hex_of_bytes s | TQuote s -> "Q" ^ hex_of_bytes s | TLiteral s -> "L" ^ hex_of_bytes s
  | TComment s -> "C" ^ hex_of_bytes s | TComma -> "," | TAt -> "@" | TDot -> "." | TLeft -> "<" | TRight -> ">"
  | TSemi -> ";" | TColon -> ":"
let hexlist l = if l = [] then "-" else String.concat "," (List.map hex_of_bytes l)
let cfg dh dd pd =
  let p pre s = match parse (pre :: bytes_of_hex s) with Some ts -> ts | None -> failwith "cfg" in
  { c_defaulthost = p (n_of_int 64) dh; c_defaultdomain = p (n_of_int 46) dd; c_plusdomain = p (n_of_int 46) pd }
let flags s = { f_delsender = s.[0] = '1'; f_delfrom = s.[1] = '1'; f_delmessid = s.[2] = '1'; f_hackrecip = s.[3] = '1' }
let g0 = { g_greeting = []; g_liphost = None; g_ipme = []; g_rcpthosts = None; g_morercpthosts = []; g_bmf = None;
           g_databytes = N0; g_relayclient = None; g_remotehost = []; g_remoteip = []; g_remoteinfo = None; g_local = [] }
let opt_hex o = match o with Some s -> hex_of_bytes s | None -> "none"
let () = iter_lines (fun line ->
  let out = match split_ws line with
    | ["qn"; s] -> b01 (quote_need (bytes_of_hex s))
    | ["q2"; s] -> hex_of_bytes (quote2 (bytes_of_hex s))
    | ["mangle"; s] -> hex_of_bytes (addrmangle (bytes_of_hex s))
    | ["aparse"; s] -> (match addrparse g0 (bytes_of_hex s) with Some a -> "S " ^ hex_of_bytes a | None -> "F")
    | ["tok"; s] -> (match parse (bytes_of_hex s) with
        | None -> "F"
        | Some ts -> String.concat " " (List.map tokstr ts) ^ " | " ^ hex_of_bytes (unquote ts) ^ " | " ^ hex_of_bytes (unparse ts (nat_of_int 80)))
    | ["hf"; dh; dd; pd; fl; h] ->
        (match doheaderfield (cfg dh dd pd) (flags fl) (ist0 None) (bytes_of_hex h) with
         | None -> "P"
         | Some st -> Printf.sprintf "hr=%s hrr=%s sender=%s saved=%s seen=%s" (hexlist st.i_hr) (hexlist st.i_hrr)
                        (opt_hex st.i_sender) (match st.i_saved with [] -> "none" | x :: _ -> hex_of_bytes x)
                        (String.concat "," (List.map (fun n -> string_of_int (int_of_nat n)) st.i_seen)))
    | ["inject"; dh; dd; pd; fl; ua; uh; from; args; msg] ->
        let r = { r_args = (if args = "-" then [] else List.map bytes_of_hex (String.split_on_char ',' args));
                  r_use_args = ua = "1"; r_use_header = uh = "1";
                  r_from = (if from = "none" then None else Some (bytes_of_hex from)) } in
        (match inject (cfg dh dd pd) (flags fl) r (bytes_of_hex msg) with
         | IPerm -> "P"
         | IOk (snd, rc, saved, body, seen) ->
           Printf.sprintf "sender=%s rcpts=%s saved=%s body=%s seen=%s" (opt_hex snd) (hexlist rc)
             (hex_of_bytes (List.concat saved)) (hex_of_bytes (List.concat body))
             (String.concat "," (List.map (fun n -> string_of_int (int_of_nat n)) (List.rev seen))))
    | _ -> "?" in
  print_string out; print_char '\n')
