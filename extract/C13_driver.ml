(* files = '-' or comma list  <namehex>=a | <namehex>=r<w 0|1><x 0|1>:<contenthex>
   plan <homewritable> <dash> <ext> <alias> <files>                      -> "A m:<hex>,b:<hex>,p:<hex>,f:<hex>" | "T ..." (then exit 111) | "X<code>"
   run <homewritable> <sticky> <looping> <dash> <ext> <alias> <files> <progcodes k=code,..|-> <queue 0|1|2>
                                                                          -> "<steps> X<code>" ; steps D:m:<hex> D:b:<hex> P:<hex> F:<hex>+<hex>
   cands <dash> <ext> -> comma list of hex names
   dt <local> <host> | rp <quotedsender> | uf <sender> <date> -> hex
   loop <hdrlines comma hex> <dtline_noLF> -> 0|1 *)
let lst f s = if s = "-" then [] else List.map f (String.split_on_char ',' s)
let parse_files s =
  let tbl = lst (fun e -> match String.index_opt e '=' with
    | Some i -> let n = String.sub e 0 i and v = String.sub e (i + 1) (String.length e - i - 1) in
      (bytes_of_hex n, if v = "a" then FAbsent else if v = "t" then FTemp else
         FReg (v.[1] = '1', v.[2] = '1', bytes_of_hex (String.sub v 4 (String.length v - 4))))
    | None -> failwith "file") s in
  fun name -> (try List.assoc name tbl with Not_found -> FAbsent)
let act = function
  | AMaildir p -> "m:" ^ hex_of_bytes p | AMbox p -> "b:" ^ hex_of_bytes p
  | AProgram c -> "p:" ^ hex_of_bytes c | AForward a -> "f:" ^ hex_of_bytes a
let acts l = if l = [] then "-" else String.concat "," (List.map act l)
let step = function
  | XDeliver a -> "D:" ^ act a | XProgram c -> "P:" ^ hex_of_bytes c
  | XForward rs -> "F:" ^ String.concat "+" (List.map hex_of_bytes rs)
let mkcfg hw hs doit lp dash ext alias files =
  { c_home_writable = (hw = "1"); c_home_sticky = (hs = "1"); c_doit = doit; c_dash = bytes_of_hex dash; c_ext = bytes_of_hex ext;
    c_files = parse_files files; c_aliasempty = bytes_of_hex alias; c_looping = (lp = "1") }
let () = iter_lines (fun line ->
  let out = match split_ws line with
    | ["plan"; hw; dash; ext; alias; files] ->
      (match local_plan (mkcfg hw "0" false "0" dash ext alias files) with
       | Inl (PActs a) -> "A " ^ acts a | Inl (PDeferAfter a) -> "T " ^ acts a | Inr c -> "X" ^ string_of_int (int_of_n c))
    | ["run"; hw; hs; lp; dash; ext; alias; files; progs; q] ->
      let pc = lst (fun e -> match String.split_on_char '=' e with [k; c] -> (int_of_string k, int_of_string c) | _ -> failwith "pc") progs in
      let o = { o_prog = (fun k -> match List.assoc_opt (int_of_nat k) pc with Some c -> if c < 0 then None else Some (n_of_int c) | None -> Some N0);
                o_deliver = (fun _ -> true); o_queue = n_of_int (int_of_string q) } in
      let (steps, code) = local_run (mkcfg hw hs true lp dash ext alias files) o in
      (if steps = [] then "-" else String.concat "," (List.map step steps)) ^ " X" ^ string_of_int (int_of_n code)
    | ["cands"; dash; ext] -> String.concat "," (List.map hex_of_bytes (candidates (bytes_of_hex dash) (bytes_of_hex ext)))
    | ["dt"; l; h] -> hex_of_bytes (dtline (bytes_of_hex l) (bytes_of_hex h))
    | ["rp"; s] -> hex_of_bytes (rpline (bytes_of_hex s))
    | ["uf"; s; d] -> hex_of_bytes (ufline (bytes_of_hex s) (bytes_of_hex d))
    | ["fws"; snd; loc; host; dash; ext; o1; o2] ->
        (* forward sender: o1/o2 = state of the -owner / -owner-default file: a absent, t temporary error, e exists *)
        let st_of = function "e" -> OExists | "t" -> OTemp | _ -> OAbsent in
        let d = bytes_of_hex dash and e = bytes_of_hex ext in
        let f1 = owner_file d e s_owner and f2 = owner_file d e s_owner_default in
        let st name = if name = f2 then st_of o2 else if name = f1 then st_of o1 else OAbsent in
        (match forward_sender (bytes_of_hex snd) (bytes_of_hex loc) (bytes_of_hex host) d e st with
         | None -> "D" | Some s -> "S " ^ hex_of_bytes s)
    | ["loop"; h; d] -> b01 (looping (lst bytes_of_hex h) (bytes_of_hex d))
    | _ -> "?" in
  print_string out; print_char '\n')
