(* sess <liphost -|hex> <ipme a.b.c.d,..|-> <rcpthosts N|hex,hex|E> <morercpt hexlist|-> <bmf N|hexlist|E> <databytes> <relayclient N|hex> <remotehost> <remoteip> <remoteinfo N|hex> <local> <inputhex> <qq e:texthex,...|->
   -> "<codes> | <helo N|hex>:<body>:<sender>:<rcpt+rcpt>:<complete>:<qexit>;... | <exit or ->"
   ap <liphost> <ipme> <arghex> -> N | hex      (addrparse) *)
let optb s = if s = "N" then None else Some (bytes_of_hex s)
let lstb s = if s = "-" || s = "E" then [] else List.map bytes_of_hex (String.split_on_char ',' s)
let optl s = if s = "N" then None else Some (lstb s)
let ipme s = if s = "-" then [] else List.map (fun q -> List.map (fun o -> n_of_int (int_of_string o)) (String.split_on_char '.' q)) (String.split_on_char ',' s)
let mk lip ip rh mrh bmf db rc rhost rip rinfo loc =
  { g_greeting = []; g_liphost = optb lip; g_ipme = ipme ip; g_rcpthosts = optl rh; g_morercpthosts = lstb mrh; g_bmf = optl bmf;
    g_databytes = n_of_int (int_of_string db); g_relayclient = optb rc; g_remotehost = bytes_of_hex rhost; g_remoteip = bytes_of_hex rip;
    g_remoteinfo = optb rinfo; g_local = bytes_of_hex loc }
let () = iter_lines (fun line ->
  let out = match split_ws line with
    | ["sess"; lip; ip; rh; mrh; bmf; db; rc; rhost; rip; rinfo; loc; inp; qq] ->
      let g = mk lip ip rh mrh bmf db rc rhost rip rinfo loc in
      let q = if qq = "-" then [] else List.map (fun e -> match String.split_on_char ':' e with
        | [c; t] -> (n_of_int (int_of_string c), bytes_of_hex t) | _ -> failwith "qq") (String.split_on_char ',' qq) in
      let ((codes, subs), ex) = smtp_session g (bytes_of_hex inp) q in
      String.concat "," (List.map (fun c -> string_of_int (int_of_n c)) codes) ^ " | " ^
      (if subs = [] then "-" else String.concat ";" (List.map (fun u ->
        (match u.u_helo with None -> "N" | Some h -> hex_of_bytes h) ^ ":" ^ hex_of_bytes u.u_body ^ ":" ^ hex_of_bytes u.u_sender ^ ":" ^
        String.concat "+" (List.map hex_of_bytes u.u_rcpts) ^ ":" ^ b01 u.u_complete ^ ":" ^ string_of_int (int_of_n u.u_qexit)) subs)) ^
      " | " ^ (match ex with None -> "-" | Some e -> string_of_int (int_of_n e))
    | ["ap"; lip; ip; a] ->
      let g = mk lip ip "N" "-" "N" "0" "N" "-" "-" "N" "-" in
      (match addrparse g (bytes_of_hex a) with None -> "N" | Some x -> hex_of_bytes x)
    | _ -> "?" in
  print_string out; print_char '\n')
