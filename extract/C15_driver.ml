(* sqrt <x> -> y ; retry <birth> <recent> <c> -> t ; dying <birth> <recent> <lifetime> -> 0|1
   pq <op>,<op>,...  (op = i:<dt>:<id> | d) -> "m<dt>:<id> m- ... | dt:id,dt:id,..." (min after each op, final array)
   heap <dt:id,...> -> 0|1 (heap_okb)
   restart <c:id:dt,...> ; files <c:id:mtime,...> -> resulting schedule "c:id:dt,..." (pqstart (pqfinish s fs)) *)
let show_elt ((d, i) : z * n) = Printf.sprintf "%d:%d" (int_of_z d) (int_of_n i)
let parse_elt s = match String.split_on_char ':' s with
  | [d; i] -> (z_of_int (int_of_string d), n_of_int (int_of_string i)) | _ -> failwith "elt"
let parse_list f s = if s = "-" || s = "" then [] else List.map f (String.split_on_char ',' s)
let parse_op s = if s = "d" then PDel else match String.split_on_char ':' s with
  | ["i"; d; i] -> PIns (z_of_int (int_of_string d), n_of_int (int_of_string i)) | _ -> failwith "op"
let parse_ent s = match String.split_on_char ':' s with
  | [c; i; d] -> ((nat_of_int (int_of_string c), n_of_int (int_of_string i)), z_of_int (int_of_string d)) | _ -> failwith "ent"
let show_ent ((c, i), d) = Printf.sprintf "%d:%d:%d" (int_of_nat c) (int_of_n i) (int_of_z d)
let () = iter_lines (fun line ->
  let out = match split_ws line with
    | ["sqrt"; x] -> string_of_int (int_of_z (squareroot (z_of_int (int_of_string x))))
    | ["retry"; b; r; c] -> string_of_int (int_of_z (nextretry (z_of_int (int_of_string b)) (z_of_int (int_of_string r)) (nat_of_int (int_of_string c))))
    | ["dying"; b; r; l] -> b01 (flagdying (z_of_int (int_of_string b)) (z_of_int (int_of_string r)) (z_of_int (int_of_string l)))
    | ["pq"; ops] ->
      let (ms, l) = pq_run [] (parse_list parse_op ops) in
      String.concat " " (List.map (function None -> "m-" | Some e -> "m" ^ show_elt e) ms)
      ^ " | " ^ String.concat "," (List.map show_elt l)
    | ["heap"; l] -> b01 (heap_okb (parse_list parse_elt l))
    | ["restart"; s; fs] ->
      String.concat "," (List.map show_ent (pqstart (pqfinish (parse_list parse_ent s) (parse_list parse_ent fs))))
    | _ -> "?" in
  print_string out; print_char '\n')
