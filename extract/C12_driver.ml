(* mdoracle <content> <tok>...      -> 0|1  (mprefixes_ok on an observed maildir event list)
     tokens: CD1 CD0 CT1 CT0 W:<hex> FS1 FS0 CL1 CL0 LN1 LN0 UT X<code>
   entry <ufline> <hdr> <msg>        -> hex of the mbox entry
   mread <file>                      -> "from:body;from:body" (hex) | "-"
   gfrom <line>                      -> 0|1 *)
let flag s = s.[String.length s - 1] = '1'
let untok s =
  if String.length s > 2 && String.sub s 0 2 = "W:" then MWrite (bytes_of_hex (String.sub s 2 (String.length s - 2)))
  else if s = "UT" then MUnlinkTmp
  else if s.[0] = 'X' then MExit (n_of_int (int_of_string (String.sub s 1 (String.length s - 1))))
  else match String.sub s 0 2 with
    | "CD" -> MChdir (flag s) | "CT" -> MCreateTmp (flag s) | "FS" -> MFsync (flag s) | "CL" -> MClose (flag s)
    | "LN" -> MLinkNew (flag s) | _ -> failwith ("tok " ^ s)
let () = iter_lines (fun line ->
  let out = match split_ws line with
    | "mdoracle" :: c :: toks -> b01 (mprefixes_ok (bytes_of_hex c) mfs0 (List.map untok toks))
    | ["entry"; u; h; m] -> hex_of_bytes (mbox_entry (bytes_of_hex u) (bytes_of_hex h) (bytes_of_hex m))
    | ["mread"; f] ->
      let ms = mbox_read (bytes_of_hex f) in
      if ms = [] then "-" else String.concat ";" (List.map (fun (a, b) -> hex_of_bytes a ^ ":" ^ hex_of_bytes b) ms)
    | ["gfrom"; l] -> b01 (gfrom (bytes_of_hex l))
    | _ -> "?" in
  print_string out; print_char '\n')
