(* events <received> <msg> <hdr> <env> <faults>  -> model event list as tokens
     faults: '-' or comma separated: pid=<n> lm up mw=<n> mr=<n> fm ci iw=<n> ifl=<n> fi lt ui um
   oracle <received> <msg> <hdr> <env> <tok> <tok> ...  -> "1"/"0" (prefixes_ok on an OBSERVED event list) + final pattern
   parse <env> -> O|E|B|L <hex>
   tokens: A  P0 P1  LM0 LM1  UP0 UP1  WM:<hex>  FM0 FM1  CI0 CI1  WI:<hex>  FI0 FI1  LT0 LT1  TI  UI0 UI1  TM  UM0 UM1  TR  X<code> *)
let b01s b = if b then "1" else "0"
let tok = function
  | EvAlarm -> "A" | EvCreatePid b -> "P" ^ b01s b | EvLinkMess b -> "LM" ^ b01s b | EvUnlinkPid b -> "UP" ^ b01s b
  | EvWriteMess d -> "WM:" ^ string_of_int (List.length d) | EvFsyncMess b -> "FM" ^ b01s b | EvCreateIntd b -> "CI" ^ b01s b
  | EvWriteIntd d -> "WI:" ^ string_of_int (List.length d) | EvFsyncIntd b -> "FI" ^ b01s b | EvLinkTodo b -> "LT" ^ b01s b
  | EvTruncIntd -> "TI" | EvUnlinkIntd b -> "UI" ^ b01s b | EvTruncMess -> "TM" | EvUnlinkMess b -> "UM" ^ b01s b
  | EvTrigger -> "TR" | EvExit c -> "X" ^ string_of_int (int_of_n c)
let flag s = s.[String.length s - 1] = '1'
let untok s =
  if s = "A" then EvAlarm
  else if String.length s > 3 && String.sub s 0 3 = "WM:" then EvWriteMess (bytes_of_hex (String.sub s 3 (String.length s - 3)))
  else if String.length s > 3 && String.sub s 0 3 = "WI:" then EvWriteIntd (bytes_of_hex (String.sub s 3 (String.length s - 3)))
  else if s = "TI" then EvTruncIntd else if s = "TM" then EvTruncMess else if s = "TR" then EvTrigger
  else if s.[0] = 'X' then EvExit (n_of_int (int_of_string (String.sub s 1 (String.length s - 1))))
  else match String.sub s 0 (String.length s - 1) with
    | "P" -> EvCreatePid (flag s) | "LM" -> EvLinkMess (flag s) | "UP" -> EvUnlinkPid (flag s) | "FM" -> EvFsyncMess (flag s)
    | "CI" -> EvCreateIntd (flag s) | "FI" -> EvFsyncIntd (flag s) | "LT" -> EvLinkTodo (flag s) | "UI" -> EvUnlinkIntd (flag s)
    | "UM" -> EvUnlinkMess (flag s) | _ -> failwith ("tok " ^ s)
let parse_faults s =
  let f = ref { f_pid_fail = O; f_link_mess = false; f_unlink_pid = false; f_mess_write = None; f_msg_read = None;
                f_fsync_mess = false; f_create_intd = false; f_intd_write = None; f_intd_flushed = O;
                f_fsync_intd = false; f_link_todo = false; f_unlink_intd = false; f_unlink_mess = false } in
  if s <> "-" then List.iter (fun kv ->
    let k, v = match String.index_opt kv '=' with
      | Some i -> String.sub kv 0 i, int_of_string (String.sub kv (i + 1) (String.length kv - i - 1))
      | None -> kv, 0 in
    let x = !f in
    f := (match k with
      | "pid" -> { x with f_pid_fail = nat_of_int v } | "lm" -> { x with f_link_mess = true } | "up" -> { x with f_unlink_pid = true }
      | "mw" -> { x with f_mess_write = Some (nat_of_int v) } | "mr" -> { x with f_msg_read = Some (nat_of_int v) }
      | "fm" -> { x with f_fsync_mess = true } | "ci" -> { x with f_create_intd = true }
      | "iw" -> { x with f_intd_write = Some (nat_of_int v) } | "ifl" -> { x with f_intd_flushed = nat_of_int v }
      | "fi" -> { x with f_fsync_intd = true } | "lt" -> { x with f_link_todo = true }
      | "ui" -> { x with f_unlink_intd = true } | "um" -> { x with f_unlink_mess = true } | _ -> failwith "fault")) (String.split_on_char ',' s);
  !f
let mkin r m h e = { q_received = bytes_of_hex r; q_msg = bytes_of_hex m; q_hdr = bytes_of_hex h; q_env = bytes_of_hex e }
let () = iter_lines (fun line ->
  let out = match split_ws line with
    | ["events"; r; m; h; e; fs] -> String.concat " " (List.map tok (qq_events (mkin r m h e) (parse_faults fs)))
    | "oracle" :: r :: m :: h :: e :: toks ->
      let i = mkin r m h e in
      let evs = List.map untok toks in
      let s = run evs in
      b01s (prefixes_ok i fs0 evs) ^ " pid=" ^ b01s s.n_pid ^ " mess=" ^ b01s s.n_mess ^ " intd=" ^ b01s s.n_intd ^ " todo=" ^ b01s s.n_todo
      ^ " lm=" ^ string_of_int (List.length s.d_mess) ^ " le=" ^ string_of_int (List.length s.d_env)
    | ["parse"; e] -> (match parse_env (bytes_of_hex e) with
        | EnvOk d -> "O " ^ hex_of_bytes d | EnvEOF d -> "E " ^ hex_of_bytes d
        | EnvBadLetter d -> "B " ^ hex_of_bytes d | EnvTooLong d -> "L " ^ hex_of_bytes d)
    | _ -> "?" in
  print_string out; print_char '\n')
