From Coq Require Extraction ExtrOcamlBasic.
From NQ Require Import Addr.Quote Addr.Tok Addr.Inject822 Smtp.Smtpd.
Extraction Language OCaml.
Extraction "extracted_C17.ml" quote_need quote quote2 addrmangle parse unquote unparse addrlist rwgeneric addr_string
  doheaderfield ist0 inject headerbody hfield_known hfield_valid arg_addr addrparse.
