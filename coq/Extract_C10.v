From Coq Require Extraction ExtrOcamlBasic.
From NQ Require Import Send.Route.
Extraction Language OCaml.
Extraction "extracted_C10.ml" control_lines colon_entries rewrite route_spec route_eqb senderadd
  stripvdomprepend addbounce_text pstarts bounce_plan rank plan_sender verp_base.
