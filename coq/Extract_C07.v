From Coq Require Extraction ExtrOcamlBasic.
From NQ Require Import Smtp.Qmtpd.
Extraction Language OCaml.
Extraction "extracted_C07.ml" qmtp_package qmqp_inner netstr r_denied r_cant smtp_session received_prefix qq_class safe.
