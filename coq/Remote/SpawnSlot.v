(* spawn.c: the life of one delivery slot d[i] as a concurrent system - the spawner's main loop and SIGCHLD handler
   on one side, the child and the kernel on the other.  The point: report() is called when the report pipe reaches
   end of file, and the status it is given (d[i].wstat) must be the status of THIS child, not what an earlier
   delivery left in the slot.  The spawner guarantees it by keeping its own copy of the pipe's write end open
   (d[i].fdout, "delays eof until after death") until the handler has stored the status.
   [keep] = does docmd() keep that copy (the real code: true).  No proofs here. *)
From NQ Require Import Base.Bytes.
Local Open Scope N_scope.

Record slot := {
  used : bool;              (* d[i].used *)
  wstat : N;                (* d[i].wstat - NOT reset by docmd() *)
  par_wr : bool;            (* the spawner holds a write end (d[i].fdout != -1) *)
  chd_wr : bool;            (* the child (or a descendant) holds a write end *)
  chd_alive : bool;
  pend : option N;          (* exited, SIGCHLD not yet handled: the status waitpid will return *)
  pipe : bytes;             (* written, not yet read by the spawner *)
  outp : bytes;             (* d[i].output *)
  g_written : bytes;        (* ghost: everything this command's child wrote *)
  g_exit : option N         (* ghost: this command's child's exit status, once it has exited *)
}.

Definition init : slot :=
  {| used := false; wstat := 0; par_wr := false; chd_wr := false; chd_alive := false; pend := None;
     pipe := []; outp := []; g_written := []; g_exit := None |}.

Inductive ev :=
  | ECmd                      (* a command for this slot: pipe(), fork() *)
  | EChildWrite (b : N)       (* the child writes a byte of its report *)
  | EChildClose               (* the child closes its descriptors 1 and 2 (or execs something that does) *)
  | EChildExit (w : N)        (* the child dies with wait status w; the kernel closes what it still held *)
  | ESigchld                  (* the handler runs (signals are unblocked only around select) *)
  | ERead (n : nat).          (* select says readable; read(fdin, 128) returns n bytes, or 0 at end of file *)

(* what the slot reports: status and text as given to report(), with the ghost truth beside them *)
Record rep := { r_wstat : N; r_text : bytes; r_true_exit : option N; r_true_text : bytes }.

Definition step (keep : bool) (s : slot) (e : ev) : option (slot * list rep) :=
  match e with
  | ECmd =>
      if used s || chd_alive s || (match pend s with Some _ => true | None => false end) then None else
      Some ({| used := true; wstat := wstat s; par_wr := keep; chd_wr := true; chd_alive := true; pend := None;
               pipe := []; outp := []; g_written := []; g_exit := None |}, [])
  | EChildWrite b =>
      if chd_alive s && chd_wr s then
        Some ({| used := used s; wstat := wstat s; par_wr := par_wr s; chd_wr := true; chd_alive := true; pend := pend s;
                 pipe := pipe s ++ [b]; outp := outp s; g_written := g_written s ++ [b]; g_exit := g_exit s |}, [])
      else None
  | EChildClose =>
      if chd_alive s then
        Some ({| used := used s; wstat := wstat s; par_wr := par_wr s; chd_wr := false; chd_alive := true; pend := pend s;
                 pipe := pipe s; outp := outp s; g_written := g_written s; g_exit := g_exit s |}, [])
      else None
  | EChildExit w =>
      if chd_alive s then
        Some ({| used := used s; wstat := wstat s; par_wr := par_wr s; chd_wr := false; chd_alive := false; pend := Some w;
                 pipe := pipe s; outp := outp s; g_written := g_written s; g_exit := Some w |}, [])
      else None
  | ESigchld =>
      match pend s with
      | None => None
      | Some w =>
          (* if (d[i].used && d[i].pid == pid): close(fdout); wstat = w; pid = 0 *)
          if used s then
            Some ({| used := true; wstat := w; par_wr := false; chd_wr := chd_wr s; chd_alive := chd_alive s; pend := None;
                     pipe := pipe s; outp := outp s; g_written := g_written s; g_exit := g_exit s |}, [])
          else
            Some ({| used := false; wstat := wstat s; par_wr := par_wr s; chd_wr := chd_wr s; chd_alive := chd_alive s; pend := None;
                     pipe := pipe s; outp := outp s; g_written := g_written s; g_exit := g_exit s |}, [])
      end
  | ERead n =>
      if negb (used s) then None else
      match n with
      | O =>
          (* end of file: nothing buffered and nobody can write any more *)
          if (match pipe s with [] => true | _ => false end) && negb (par_wr s) && negb (chd_wr s) then
            Some ({| used := false; wstat := wstat s; par_wr := false; chd_wr := false; chd_alive := chd_alive s; pend := pend s;
                     pipe := []; outp := []; g_written := g_written s; g_exit := g_exit s |},
                  [{| r_wstat := wstat s; r_text := outp s; r_true_exit := g_exit s; r_true_text := g_written s |}])
          else None
      | S _ =>
          if Nat.leb n (length (pipe s)) && Nat.leb n 128 then
            Some ({| used := true; wstat := wstat s; par_wr := par_wr s; chd_wr := chd_wr s; chd_alive := chd_alive s; pend := pend s;
                     pipe := skipn n (pipe s); outp := outp s ++ firstn n (pipe s);
                     g_written := g_written s; g_exit := g_exit s |}, [])
          else None
      end
  end.

Fixpoint run (keep : bool) (s : slot) (tr : list ev) : option (slot * list rep) :=
  match tr with
  | [] => Some (s, [])
  | e :: tr' =>
      match step keep s e with
      | None => None
      | Some (s', o) => match run keep s' tr' with Some (s'', o') => Some (s'', o ++ o') | None => None end
      end
  end.

Definition honest (r : rep) : Prop := r_true_exit r = Some (r_wstat r) /\ r_text r = r_true_text r.
Definition honestb (r : rep) : bool :=
  (match r_true_exit r with Some w => w =? r_wstat r | None => false end) && beq (r_text r) (r_true_text r).
