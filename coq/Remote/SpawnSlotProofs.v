From NQ Require Import Base.Bytes Remote.SpawnSlot.
Local Open Scope N_scope.

(* the invariant of the real program (keep = true) *)
Definition Inv (s : slot) : Prop :=
  (used s = true ->
     outp s ++ pipe s = g_written s /\
     (par_wr s = false -> g_exit s = Some (wstat s) /\ chd_alive s = false /\ pend s = None) /\
     (par_wr s = true -> (chd_alive s = true -> g_exit s = None /\ pend s = None) /\
                         (chd_alive s = false -> pend s = g_exit s /\ g_exit s <> None)) /\
     (chd_wr s = true -> chd_alive s = true)) /\
  (used s = false -> chd_alive s = false /\ pend s = None).

Lemma Inv_init : Inv init.
Proof. split; [discriminate | intros _; split; reflexivity]. Qed.

Lemma step_inv s e s' o : Inv s -> step true s e = Some (s', o) -> Inv s' /\ Forall honest o.
Proof.
  intros [Iu In] H. destruct e as [|b| |w| |n]; cbn [step] in H.
  - destruct (used s) eqn:U; [discriminate|]. destruct (chd_alive s) eqn:A; [discriminate|].
    destruct (pend s); [discriminate|]. cbn [orb] in H. injection H as <- <-. split; [|constructor].
    split; cbn; [intros _ | discriminate].
    repeat split; try reflexivity; try discriminate; intros; try discriminate; auto.
  - destruct (chd_alive s) eqn:A; [|discriminate]. destruct (chd_wr s) eqn:W; [|discriminate]. cbn [andb] in H.
    injection H as <- <-. split; [|constructor]. split; cbn.
    + intro U. destruct (Iu U) as [E [P0 [P1 Cw]]]. split; [rewrite app_assoc, E; reflexivity|].
      split; [intro Pf; destruct (P0 Pf) as [_ [X _]]; discriminate|]. split; [|auto].
      intro Pt. destruct (P1 Pt) as [Q1 Q2]. split; [auto | discriminate].
    + intro U. destruct (In U) as [X _]. discriminate.
  - destruct (chd_alive s) eqn:A; [|discriminate]. injection H as <- <-. split; [|constructor]. split; cbn.
    + intro U. destruct (Iu U) as [E [P0 [P1 Cw]]]. split; [exact E|].
      split; [intro Pf; destruct (P0 Pf) as [_ [X _]]; discriminate|]. split; [|discriminate].
      intro Pt. destruct (P1 Pt) as [Q1 Q2]. split; [auto | discriminate].
    + intro U. destruct (In U) as [X _]. discriminate.
  - destruct (chd_alive s) eqn:A; [|discriminate]. injection H as <- <-. split; [|constructor]. split; cbn.
    + intro U. destruct (Iu U) as [E [P0 [P1 Cw]]]. split; [exact E|].
      split; [intro Pf; destruct (P0 Pf) as [_ [X _]]; discriminate|]. split; [|discriminate].
      intro Pt. split; [discriminate|]. intros _. split; [reflexivity | discriminate].
    + intro U. destruct (In U) as [X _]. discriminate.
  - destruct (pend s) as [w|] eqn:P; [|discriminate]. destruct (used s) eqn:U.
    + injection H as <- <-. split; [|constructor]. split; cbn; [|discriminate]. intros _.
      destruct (Iu eq_refl) as [E [P0 [P1 Cw]]]. split; [exact E|].
      destruct (par_wr s) eqn:Pw.
      * destruct (P1 eq_refl) as [Q1 Q2]. destruct (chd_alive s) eqn:A.
        { destruct (Q1 eq_refl) as [_ X]. discriminate. }
        destruct (Q2 eq_refl) as [X Y]. split; [intros _; split; [rewrite <- X; reflexivity | split; reflexivity]|].
        split; [discriminate | exact Cw].
      * destruct (P0 eq_refl) as [_ [_ X]]. discriminate.
    + destruct (In eq_refl) as [_ X]. rewrite X in P. discriminate.
  - destruct (used s) eqn:U; [|discriminate]. cbn [negb] in H. destruct (Iu eq_refl) as [E [P0 [P1 Cw]]].
    destruct n as [|n].
    + destruct (pipe s) as [|x p] eqn:Pi; [|discriminate]. destruct (par_wr s) eqn:Pw; [discriminate|].
      destruct (chd_wr s) eqn:W; [discriminate|]. cbn [andb negb] in H. injection H as <- <-.
      destruct (P0 eq_refl) as [X [Y Z]]. split.
      * split; cbn; [discriminate|]. intros _. split; assumption.
      * constructor; [|constructor]. split; cbn; [exact X | rewrite <- E, app_nil_r; reflexivity].
    + remember (S n) as m eqn:Em. destruct (Nat.leb m (length (pipe s)) && Nat.leb m 128); [|discriminate]. injection H as <- <-.
      split; [|constructor]. split; cbn [used wstat par_wr chd_wr chd_alive pend pipe outp g_written g_exit]; [|discriminate]. intros _.
      split; [rewrite <- app_assoc, firstn_skipn; exact E|]. split; [exact P0|]. split; [exact P1 | exact Cw].
Qed.

(* REQUIRED: whatever the child does and however the events interleave, every report the real spawner makes
   carries the wait status of the child of that very command and exactly the bytes that child wrote *)
Theorem reports_honest : forall tr s' outs, run true init tr = Some (s', outs) -> Forall honest outs.
Proof.
  assert (G : forall tr s s' outs, Inv s -> run true s tr = Some (s', outs) -> Forall honest outs).
  { induction tr as [|e tr IH]; intros s s' outs I H; cbn [run] in H.
    - injection H as <- <-. constructor.
    - destruct (step true s e) as [[s1 o]|] eqn:E; [|discriminate].
      destruct (run true s1 tr) as [[s2 o']|] eqn:R; [|discriminate]. injection H as <- <-.
      destruct (step_inv _ _ _ _ I E) as [I1 Ho]. apply Forall_app. split; [exact Ho | eapply IH; eauto]. }
  intros tr s' outs H. eapply G; [apply Inv_init | exact H].
Qed.

(* exactly one report per command that has run to its end of file: reports only come from ERead 0 on a used slot,
   which frees the slot; a new command needs a free slot *)
Theorem one_report_per_command : forall keep tr s' outs, run keep init tr = Some (s', outs) ->
  (length outs + (if used s' then 1 else 0) = length (filter (fun e => match e with ECmd => true | _ => false end) tr))%nat.
Proof.
  intros keep.
  assert (G : forall tr s s' outs, run keep s tr = Some (s', outs) ->
              (length outs + (if used s' then 1 else 0) = (if used s then 1 else 0) + length (filter (fun e => match e with ECmd => true | _ => false end) tr))%nat).
  { induction tr as [|e tr IH]; intros s s' outs H; cbn [run] in H.
    - injection H as <- <-. cbn. lia.
    - destruct (step keep s e) as [[s1 o]|] eqn:E; [|discriminate].
      destruct (run keep s1 tr) as [[s2 o']|] eqn:R; [|discriminate]. injection H as <- <-.
      specialize (IH _ _ _ R). rewrite app_length. cbn [filter].
      assert (X : (length o + (if used s1 then 1 else 0) = (if used s then 1 else 0) + (match e with ECmd => 1 | _ => 0 end))%nat).
      { clear -E. destruct e as [|b| |w| |n]; cbn [step] in E.
        - destruct (used s); [discriminate|]. destruct (chd_alive s); [discriminate|]. destruct (pend s); [discriminate|].
          injection E as <- <-. reflexivity.
        - destruct (chd_alive s && chd_wr s); [|discriminate]. injection E as <- <-. cbn. lia.
        - destruct (chd_alive s); [|discriminate]. injection E as <- <-. cbn. lia.
        - destruct (chd_alive s); [|discriminate]. injection E as <- <-. cbn. lia.
        - destruct (pend s); [|discriminate]. destruct (used s) eqn:U; injection E as <- <-; cbn; rewrite ?U; lia.
        - destruct (used s) eqn:U; [|discriminate]. destruct n.
          + destruct ((match pipe s with [] => true | _ => false end) && negb (par_wr s) && negb (chd_wr s)); [|discriminate].
            injection E as <- <-. reflexivity.
          + destruct (Nat.leb (S n) (length (pipe s)) && Nat.leb (S n) 128); [|discriminate]. injection E as <- <-. cbn. lia. }
      destruct e; cbn [length]; lia. }
  intros tr s' outs H. specialize (G _ _ _ _ H). cbn in G. lia.
Qed.

(* without the spawner's own copy of the write end the property fails: a child that closes its descriptors before it
   dies is reported with the status an EARLIER delivery left in the slot *)
Definition bad_trace : list ev :=
  [ECmd; EChildWrite 75; EChildExit 0; ESigchld; ERead 1; ERead 0;        (* a first delivery: "K", exit 0 *)
   ECmd; EChildWrite 75; EChildClose; ERead 1; ERead 0;                   (* second: writes "K", closes, read to EOF ... *)
   EChildExit 25600; ESigchld].                                           (* ... and only then exits 100 *)
Theorem without_own_write_end_refuted :
  exists s' outs, run false init bad_trace = Some (s', outs) /\ existsb (fun r => negb (honestb r)) outs = true.
Proof. eexists _, _. split; [vm_compute; reflexivity | vm_compute; reflexivity]. Qed.

(* the same trace is not even possible for the real program: end of file cannot be read while the spawner holds its copy *)
Example real_program_blocks_that_trace : run true init bad_trace = None.
Proof. vm_compute. reflexivity. Qed.

(* non-vacuity: a full honest run *)
Example honest_run : exists s' outs, run true init [ECmd; EChildWrite 75; EChildClose; EChildExit 25600; ESigchld; ERead 1; ERead 0] = Some (s', outs)
  /\ map (fun r => (r_wstat r, r_text r)) outs = [(25600, [75])].
Proof. eexists _, _. split; vm_compute; reflexivity. Qed.
