(* qmail-remote.c smtpcode()/smtp() as a function of the byte stream the server sends (its exhaustion
   is a disconnect), and qmail-rspawn.c report().  Model only (C09). *)
From NQ Require Export Base.Bytes.
From Coq Require Export Arith.
Local Open Scope N_scope.

Definition U64 : N := 18446744073709551616.
Definition MINUS : N := 45.

(* ---- smtpcode(): three bytes as (ch - '0') in unsigned long arithmetic; continuation lines "ddd-..." *)
Definition digit_val (c : N) : N := (c + U64 - 48) mod U64.
Fixpoint skip_line (s : bytes) : option bytes :=       (* consume through the next LF *)
  match s with [] => None | c :: s' => if c =? LF then Some s' else skip_line s' end.
(* after the 3 code bytes: the 4th byte decides; fuel bounds the number of continuation lines *)
Fixpoint after_code (fuel : nat) (s : bytes) : option bytes :=
  match fuel with
  | O => None
  | S f =>
    match s with
    | [] => None
    | ch :: s1 =>
      if ch =? MINUS then
        match skip_line s1 with
        | None => None
        | Some s2 => match s2 with
                     | _ :: _ :: _ :: s3 => after_code f s3
                     | _ => None
                     end
        end
      else if ch =? LF then Some s1 else skip_line s1
    end
  end.
Definition smtpcode (s : bytes) : option (N * bytes) :=
  match s with
  | a :: b :: c :: s1 =>
    let code := (((digit_val a * 10 + digit_val b) mod U64) * 10 + digit_val c) mod U64 in
    match after_code (S (length s1)) s1 with
    | Some rest => Some (code, rest)
    | None => None
    end
  | _ => None
  end.

(* ---- smtp() ---- *)
Inductive ph := PGreet | PHelo | PMail | PRcpt (i : nat) | PData | PFinal.
Inductive sev := SCode (p : ph) (code : N) | SDrop (p : ph).     (* what the client learnt, in order *)
Inductive verdict := VK | VZ | VD.
Record sres := { r_rcpts : list N;        (* per-recipient report bytes, in argument order: r h s *)
                 r_verdict : verdict;     (* the message report *)
                 r_dup : bool;            (* "Possible duplicate!" *)
                 r_trace : list sev }.

Definition c_r : N := 114.
Definition c_h : N := 104.
Definition c_s : N := 115.

Definition mk (rc : list N) (v : verdict) (d : bool) (t : list sev) : sres :=
  {| r_rcpts := rc; r_verdict := v; r_dup := d; r_trace := t |}.

Fixpoint rcpt_loop (n i : nat) (s : bytes) (acc : list N) (tr : list sev)
  : (list N * list sev * option bytes) :=
  match n with
  | O => (acc, tr, Some s)
  | S n' =>
    match smtpcode s with
    | None => (acc, tr ++ [SDrop (PRcpt i)], None)
    | Some (code, rest) =>
      let rep := if 500 <=? code then c_h else if 400 <=? code then c_s else c_r in
      rcpt_loop n' (S i) rest (acc ++ [rep]) (tr ++ [SCode (PRcpt i) code])
    end
  end.

(* body_ok = the message has no partial final line (otherwise blast() reports D before sending) *)
Definition smtp (nrcpt : nat) (body_ok : bool) (script : bytes) : sres :=
  match smtpcode script with
  | None => mk [] VZ false [SDrop PGreet]
  | Some (g, s1) =>
    if negb (g =? 220) then mk [] VZ false [SCode PGreet g] else
    match smtpcode s1 with
    | None => mk [] VZ false [SCode PGreet g; SDrop PHelo]
    | Some (h, s2) =>
      if negb (h =? 250) then mk [] VZ false [SCode PGreet g; SCode PHelo h] else
      match smtpcode s2 with
      | None => mk [] VZ false [SCode PGreet g; SCode PHelo h; SDrop PMail]
      | Some (m, s3) =>
        let t3 := [SCode PGreet g; SCode PHelo h; SCode PMail m] in
        if 500 <=? m then mk [] VD false t3 else
        if 400 <=? m then mk [] VZ false t3 else
        match rcpt_loop nrcpt 0 s3 [] t3 with
        | (rc, tr, None) => mk rc VZ false tr
        | (rc, tr, Some s4) =>
          if negb (existsb (fun x => x =? c_r) rc) then mk rc VD false tr else
          match smtpcode s4 with
          | None => mk rc VZ false (tr ++ [SDrop PData])
          | Some (d, s5) =>
            let t5 := tr ++ [SCode PData d] in
            if 500 <=? d then mk rc VD false t5 else
            if 400 <=? d then mk rc VZ false t5 else
            if negb body_ok then mk rc VD false t5 else
            match smtpcode s5 with
            | None => mk rc VZ true (t5 ++ [SDrop PFinal])
            | Some (f, _) =>
              let t6 := t5 ++ [SCode PFinal f] in
              if 500 <=? f then mk rc VD false t6 else
              if 400 <=? f then mk rc VZ false t6 else mk rc VK false t6
            end
          end
        end
      end
    end
  end.

(* ---- qmail-rspawn.c report() ---- *)
Definition c_K : N := 75.
Definition c_Z : N := 90.
Definition c_D : N := 68.
(* NUL-terminated segments of the child's output (an unterminated tail is not a segment) *)
Fixpoint segs (cur : bytes) (s : bytes) : list bytes :=
  match s with
  | [] => []
  | c :: s' => if c =? 0 then rev cur :: segs [] s' else segs (c :: cur) s'
  end.
(* +1 K, 0 Z, -1 D/none: the first terminated segment that starts with K, Z or D decides *)
Inductive tri := TPos | TZero | TNeg.
Fixpoint first_kzd (l : list bytes) : tri :=
  match l with
  | [] => TNeg
  | sg :: l' =>
    match sg with
    | c :: _ => if c =? c_K then TPos else if c =? c_Z then TZero else if c =? c_D then TNeg else first_kzd l'
    | [] => first_kzd l'
    end
  end.
Definition tri_le (a b : tri) : bool :=
  match a, b with
  | TNeg, _ => true | TZero, TNeg => false | TZero, _ => true | TPos, TPos => true | TPos, _ => false
  end.
Definition is_kzd (c : N) : bool := (c =? c_K) || (c =? c_Z) || (c =? c_D).

Fixpoint take_nul (cur : bytes) (s : bytes) : option (bytes * bytes) :=
  match s with
  | [] => None
  | c :: s' => if c =? 0 then Some (rev cur, s') else take_nul (c :: cur) s'
  end.
(* C string: up to the first NUL (the whole list if there is none - outside the domain) *)
Fixpoint cstr (s : bytes) : bytes :=
  match s with [] => [] | c :: s' => if c =? 0 then [] else c :: cstr s' end.

(* the report handed to qmail-send (without delivery number and terminating NUL);
   out must end with NUL for the text part to be well defined (qmail-remote always does) *)
Definition rspawn_report (crashed : bool) (exitcode : N) (out : bytes) : bytes :=
  if crashed then c_Z :: [113;109;97;105;108;45;114;101;109;111;116;101;32;99;114;97;115;104;101;100;46;10]
  else if exitcode =? 111 then c_Z :: [85;110;97;98;108;101;32;116;111;32;114;117;110;32;113;109;97;105;108;45;114;101;109;111;116;101;46;10]
  else if negb (exitcode =? 0) then c_D :: [85;110;97;98;108;101;32;116;111;32;114;117;110;32;113;109;97;105;108;45;114;101;109;111;116;101;46;10]
  else match out with
  | [] => c_Z :: [113;109;97;105;108;45;114;101;109;111;116;101;32;112;114;111;100;117;99;101;100;32;110;111;32;111;117;116;112;117;116;46;10]
  | c0 :: o1 =>
    let sg := segs [] out in
    let result := first_kzd sg in
    let orr := if c0 =? c_s then TZero else if c0 =? c_h then TNeg else result in
    let v := match orr with TPos => c_K | TZero => c_Z | TNeg => c_D end in
    v :: match take_nul [] o1 with
         | None => []                                 (* no NUL after the first byte: nothing more is written *)
         | Some (t1, after) =>
           t1 ++
           (if tri_le result orr then
              match after with
              | c :: t => if is_kzd c then cstr t else []
              | [] => []
              end
            else [])
         end
  end.
