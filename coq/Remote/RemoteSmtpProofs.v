From NQ Require Import Remote.RemoteSmtp.
Local Open Scope N_scope.

Definition rep_of (code : N) : N := if 500 <=? code then c_h else if 400 <=? code then c_s else c_r.

(* the codes of n consecutive replies (as many as arrive) *)
Fixpoint parse_codes (n : nat) (s : bytes) : list N * option bytes :=
  match n with
  | O => ([], Some s)
  | S n' => match smtpcode s with
            | None => ([], None)
            | Some (c, rest) => let (cs, o) := parse_codes n' rest in (c :: cs, o)
            end
  end.

Lemma rcpt_loop_spec n : forall i s acc tr,
  let '(rc, tr', o) := rcpt_loop n i s acc tr in
  rc = acc ++ map rep_of (fst (parse_codes n s)) /\ o = snd (parse_codes n s) /\
  (length (fst (parse_codes n s)) <= n)%nat /\
  (o <> None -> length (fst (parse_codes n s)) = n).
Proof.
  induction n as [|n IH]; intros i s acc tr.
  - cbn. rewrite app_nil_r. auto.
  - cbn [rcpt_loop parse_codes]. destruct (smtpcode s) as [[c rest]|].
    + specialize (IH (S i) rest (acc ++ [rep_of c]) (tr ++ [SCode (PRcpt i) c])).
      fold (rep_of c).
      destruct (rcpt_loop n (S i) rest (acc ++ [rep_of c]) (tr ++ [SCode (PRcpt i) c])) as [[rc tr'] o].
      destruct (parse_codes n rest) as [cs o'] eqn:E. cbn [fst snd] in *.
      destruct IH as (A & B & C & D). repeat split.
      * rewrite A, <- app_assoc. reflexivity.
      * exact B.
      * cbn. lia.
      * intros H. cbn. f_equal. apply D. exact H.
    + cbn. rewrite app_nil_r. repeat split; auto; try lia. intros H. exfalso. apply H. reflexivity.
Qed.

(* per-recipient reports: in argument order; r iff the reply code was < 400, s iff 400..499, h iff >= 500 *)
Lemma rep_of_classes c :
  (rep_of c = c_r <-> c < 400) /\ (rep_of c = c_s <-> 400 <= c < 500) /\ (rep_of c = c_h <-> 500 <= c).
Proof.
  unfold rep_of, c_r, c_s, c_h.
  destruct (N.leb_spec 500 c); [|destruct (N.leb_spec 400 c)]; repeat split; intros; try lia; try discriminate; reflexivity.
Qed.

(* a recipient is reported delivered only if the server accepted it and then accepted the message *)
Lemma smtp_K_sound_l n b script :
  r_verdict (smtp n b script) = VK ->
  b = true /\
  exists s1 s2 m s3 s4 d s5 f s6,
    smtpcode script = Some (220, s1) /\ smtpcode s1 = Some (250, s2) /\
    smtpcode s2 = Some (m, s3) /\ m < 400 /\
    snd (parse_codes n s3) = Some s4 /\ In c_r (map rep_of (fst (parse_codes n s3))) /\
    r_rcpts (smtp n b script) = map rep_of (fst (parse_codes n s3)) /\
    smtpcode s4 = Some (d, s5) /\ d < 400 /\ smtpcode s5 = Some (f, s6) /\ f < 400 /\
    r_dup (smtp n b script) = false.
Proof.
  unfold smtp.
  destruct (smtpcode script) as [[g s1]|] eqn:E1; [|discriminate].
  destruct (N.eqb_spec g 220) as [->|]; cbn [negb]; [|discriminate].
  destruct (smtpcode s1) as [[h s2]|] eqn:E2; [|discriminate].
  destruct (N.eqb_spec h 250) as [->|]; cbn [negb]; [|discriminate].
  destruct (smtpcode s2) as [[m s3]|] eqn:E3; [|discriminate].
  destruct (N.leb_spec 500 m); [discriminate|]. destruct (N.leb_spec 400 m); [discriminate|].
  pose proof (rcpt_loop_spec n 0 s3 [] [SCode PGreet 220; SCode PHelo 250; SCode PMail m]) as R.
  destruct (rcpt_loop n 0 s3 [] _) as [[rc tr] o]. destruct R as (A & B & _ & _). cbn [app] in A.
  destruct o as [s4|]; [|discriminate].
  destruct (existsb (fun x => x =? c_r) rc) eqn:Ex; cbn [negb]; [|discriminate].
  destruct (smtpcode s4) as [[d s5]|] eqn:E4; [|discriminate].
  destruct (N.leb_spec 500 d); [discriminate|]. destruct (N.leb_spec 400 d); [discriminate|].
  destruct b; cbn [negb]; [|discriminate].
  destruct (smtpcode s5) as [[f s6]|] eqn:E5; [|discriminate].
  destruct (N.leb_spec 500 f); [discriminate|]. destruct (N.leb_spec 400 f); [discriminate|].
  intros _. split; [reflexivity|].
  exists s1, s2, m, s3, s4, d, s5, f, s6. cbn [r_rcpts r_dup mk].
  repeat split; auto.
  apply existsb_exists in Ex as (x & Hx & Hxe). apply N.eqb_eq in Hxe. subst x. rewrite <- A. exact Hx.
Qed.

(* a disconnect anywhere is a temporary failure; "possible duplicate" exactly when it happens while
   the reply to the final dot is awaited *)
Definition has_drop (t : list sev) : bool := existsb (fun e => match e with SDrop _ => true | _ => false end) t.
Definition drop_final (t : list sev) : bool := existsb (fun e => match e with SDrop PFinal => true | _ => false end) t.

Lemma smtp_drop_Z_l n b script :
  has_drop (r_trace (smtp n b script)) = true -> r_verdict (smtp n b script) = VZ.
Proof.
  unfold smtp.
  destruct (smtpcode script) as [[g s1]|]; [|reflexivity].
  destruct (negb (g =? 220)); [cbn; discriminate|].
  destruct (smtpcode s1) as [[h s2]|]; [|reflexivity].
  destruct (negb (h =? 250)); [cbn; discriminate|].
  destruct (smtpcode s2) as [[m s3]|]; [|reflexivity].
  destruct (500 <=? m); [cbn; discriminate|]. destruct (400 <=? m); [reflexivity|].
  set (t3 := [SCode PGreet g; SCode PHelo h; SCode PMail m]).
  assert (L : forall k i s acc tr rc tr' s4, has_drop tr = false -> rcpt_loop k i s acc tr = (rc, tr', Some s4) -> has_drop tr' = false).
  { induction k as [|k IHk]; intros i s acc tr rc tr' s4 Ht E; cbn in E.
    - injection E as <- <- <-. exact Ht.
    - destruct (smtpcode s) as [[c rest]|]; [|discriminate].
      apply (IHk _ _ _ _ _ _ _) in E; [exact E|]. unfold has_drop in *. rewrite existsb_app, Ht. reflexivity. }
  destruct (rcpt_loop n 0 s3 [] t3) as [[rc tr] [s4|]] eqn:E; [|reflexivity].
  pose proof (L n 0%nat s3 [] t3 rc tr s4 eq_refl E) as Ht.
  destruct (negb (existsb _ rc)); [cbn [r_trace mk]; rewrite Ht; discriminate|].
  destruct (smtpcode s4) as [[d s5]|]; [|reflexivity].
  assert (Ht5 : has_drop (tr ++ [SCode PData d]) = false) by (unfold has_drop in *; rewrite existsb_app, Ht; reflexivity).
  destruct (500 <=? d); [cbn [r_trace mk]; rewrite Ht5; discriminate|].
  destruct (400 <=? d); [reflexivity|].
  destruct (negb b); [cbn [r_trace mk]; rewrite Ht5; discriminate|].
  destruct (smtpcode s5) as [[f s6]|]; [|reflexivity].
  assert (Ht6 : has_drop ((tr ++ [SCode PData d]) ++ [SCode PFinal f]) = false) by (unfold has_drop in *; rewrite existsb_app, Ht5; reflexivity).
  destruct (500 <=? f); [cbn [r_trace mk]; rewrite Ht6; discriminate|].
  destruct (400 <=? f); [reflexivity|]. cbn [r_trace mk]. rewrite Ht6. discriminate.
Qed.

Lemma smtp_dup_only_after_dot_l n b script :
  r_dup (smtp n b script) = true ->
  r_verdict (smtp n b script) = VZ /\ exists t, r_trace (smtp n b script) = t ++ [SDrop PFinal].
Proof.
  unfold smtp.
  destruct (smtpcode script) as [[g s1]|]; [|discriminate].
  destruct (negb (g =? 220)); [discriminate|].
  destruct (smtpcode s1) as [[h s2]|]; [|discriminate].
  destruct (negb (h =? 250)); [discriminate|].
  destruct (smtpcode s2) as [[m s3]|]; [|discriminate].
  destruct (500 <=? m); [discriminate|]. destruct (400 <=? m); [discriminate|].
  destruct (rcpt_loop n 0 s3 [] _) as [[rc tr] [s4|]]; [|discriminate].
  destruct (negb (existsb _ rc)); [discriminate|].
  destruct (smtpcode s4) as [[d s5]|]; [|discriminate].
  destruct (500 <=? d); [discriminate|]. destruct (400 <=? d); [discriminate|].
  destruct (negb b); [discriminate|].
  destruct (smtpcode s5) as [[f s6]|].
  - destruct (500 <=? f); [discriminate|]. destruct (400 <=? f); discriminate.
  - intros _. split; [reflexivity|]. eexists. reflexivity.
Qed.

(* 5xx at MAIL, DATA or after the dot is permanent; 4xx there is temporary; a bad greeting/HELO is temporary *)
Lemma smtp_greeting_l n b script g s1 : smtpcode script = Some (g, s1) -> g <> 220 -> r_verdict (smtp n b script) = VZ.
Proof. intros E H. unfold smtp. rewrite E. apply N.eqb_neq in H. rewrite H. reflexivity. Qed.

Lemma smtp_mail_class_l n b script s1 s2 m s3 :
  smtpcode script = Some (220, s1) -> smtpcode s1 = Some (250, s2) -> smtpcode s2 = Some (m, s3) ->
  (500 <= m -> r_verdict (smtp n b script) = VD) /\ (400 <= m < 500 -> r_verdict (smtp n b script) = VZ).
Proof.
  intros E1 E2 E3. unfold smtp. rewrite E1. cbn [N.eqb negb]. rewrite E2. cbn. rewrite E3.
  split; intro H.
  - destruct (N.leb_spec 500 m); [reflexivity|lia].
  - destruct (N.leb_spec 500 m); [lia|]. destruct (N.leb_spec 400 m); [reflexivity|lia].
Qed.

(* ---------------------------------------------------------------- rspawn report() *)
Lemma rspawn_first_byte_l crashed ec out :
  exists v t, rspawn_report crashed ec out = v :: t /\ (v = c_K \/ v = c_Z \/ v = c_D).
Proof.
  unfold rspawn_report. destruct crashed; [eexists; eexists; split; [reflexivity|auto]|].
  destruct (ec =? 111); [eexists; eexists; split; [reflexivity|auto]|].
  destruct (negb (ec =? 0)); [eexists; eexists; split; [reflexivity|auto]|].
  destruct out as [|c0 o1]; [eexists; eexists; split; [reflexivity|auto]|].
  eexists; eexists; split; [reflexivity|].
  destruct (c0 =? c_s); [auto|]. destruct (c0 =? c_h); [auto|]. destruct (first_kzd _); auto.
Qed.

(* the verdict relayed to qmail-send is K only for a clean exit whose output does not start with a
   refusal (h, s) and whose first K/Z/D segment is K: a crash, a failure exit, empty or unparseable
   output are never upgraded to success *)
Lemma rspawn_never_upgrades_l crashed ec out t :
  rspawn_report crashed ec out = c_K :: t ->
  crashed = false /\ ec = 0 /\ exists c0 o1, out = c0 :: o1 /\ c0 <> c_s /\ c0 <> c_h /\
                                     first_kzd (segs [] out) = TPos.
Proof.
  unfold rspawn_report. destruct crashed; [discriminate|].
  destruct (ec =? 111); [discriminate|].
  destruct (N.eqb_spec ec 0) as [->|]; cbn [negb]; [|discriminate].
  destruct out as [|c0 o1]; [discriminate|].
  destruct (N.eqb_spec c0 c_s); [discriminate|]. destruct (N.eqb_spec c0 c_h); [discriminate|].
  destruct (first_kzd (segs [] (c0 :: o1))) eqn:E; try discriminate.
  intros _. repeat split. exists c0, o1. auto.
Qed.

Lemma rspawn_crash_is_Z_l ec out : exists t, rspawn_report true ec out = c_Z :: t.
Proof. eexists. reflexivity. Qed.
Lemma rspawn_exit_codes_l out ec : ec <> 0 ->
  exists t, rspawn_report false ec out = (if ec =? 111 then c_Z else c_D) :: t.
Proof.
  intros H. unfold rspawn_report. destruct (ec =? 111); [eexists; reflexivity|].
  apply N.eqb_neq in H. rewrite H. eexists. reflexivity.
Qed.
