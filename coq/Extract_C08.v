From Coq Require Extraction ExtrOcamlBasic.
From NQ Require Import Smtp.Smtpd.
Extraction Language OCaml.
Extraction "extracted_C08.ml" smtp_session addrparse rcpthosts bmfcheck received_prefix qq_class.
