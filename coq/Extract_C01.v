From Coq Require Extraction ExtrOcamlBasic.
From NQ Require Import Queue.Inject.
Extraction Language OCaml.
Extraction "extracted_C01.ml" qq_events parse_env prefixes_ok run fs0 exit_code committed_ok pattern_ok step.
