From Coq Require Extraction ExtrOcamlBasic NArith.
From NQ Require Import Send.Trigger.
Extraction Language OCaml.
Definition keep_n : N := 0%N.     (* the shared driver glue (extract/conv.ml) refers to the type n *)
Extraction "extracted_C16.ml" keep_n real_dprog real_iprog init run step search lost d_alone timeout wakeup work_now due_times readable.
