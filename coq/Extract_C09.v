From Coq Require Extraction ExtrOcamlBasic.
From NQ Require Import Remote.RemoteSmtp Remote.SpawnSlot.
Extraction Language OCaml.
Extraction "extracted_C09.ml" smtp smtpcode rspawn_report SpawnSlot.run SpawnSlot.init SpawnSlot.honestb.
