From Coq Require Extraction ExtrOcamlBasic.
From NQ Require Import Remote.RemoteSmtp.
Extraction Language OCaml.
Extraction "extracted_C09.ml" smtp smtpcode rspawn_report.
