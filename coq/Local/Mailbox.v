(* qmail-local.c maildir_child()/maildir() and mailfile(), gfrom.c; the mbox(5) reader.
   Model only (C12). *)
From NQ Require Export Base.Bytes.
From Coq Require Export Arith.
Local Open Scope N_scope.

(* ================================================================== maildir *)
Inductive mev :=
  | MChdir (ok : bool)
  | MCreateTmp (ok : bool)            (* open_excl tmp/time.pid.host ; false = EEXIST or other error *)
  | MWrite (data : bytes)
  | MFsync (ok : bool)
  | MClose (ok : bool)
  | MLinkNew (ok : bool)              (* link tmp/x new/x *)
  | MUnlinkTmp
  | MExit (code : N).                 (* exit code of the CHILD: 0 ok, 1 temp, 2 chdir, 3 timeout, 4 read *)

Record mfaults := {
  mf_chdir : bool; mf_create_fail : nat;        (* number of failing open_excl attempts (EEXIST), >= 3 gives up *)
  mf_create_err : bool;                         (* a non-EEXIST error on the first attempt *)
  mf_write : option nat;                        (* write error after that many bytes reached the file *)
  mf_read : option nat;                         (* read error on the message after that many bytes were written *)
  mf_fsync : bool; mf_close : bool; mf_link : bool
}.

Definition maildir_events (content : bytes) (f : mfaults) : list mev :=
  if mf_chdir f then [MChdir false; MExit 2] else
  MChdir true ::
  if mf_create_err f then [MCreateTmp false; MExit 1] else
  repeat (MCreateTmp false) (Nat.min (mf_create_fail f) 3) ++
  if Nat.leb 3 (mf_create_fail f) then [MExit 1] else
  MCreateTmp true ::
  match mf_write f with
  | Some n => [MWrite (firstn n content); MUnlinkTmp; MExit 1]
  | None =>
    match mf_read f with
    | Some n => [MWrite (firstn n content); MUnlinkTmp; MExit 4]
    | None =>
      MWrite content ::
      if mf_fsync f then [MFsync false; MUnlinkTmp; MExit 1] else
      MFsync true ::
      if mf_close f then [MClose false; MUnlinkTmp; MExit 1] else
      MClose true ::
      if mf_link f then [MLinkNew false; MUnlinkTmp; MExit 1]
      else [MLinkNew true; MUnlinkTmp; MExit 0]
    end
  end.

(* the parent's exit code for a child exit code: 0 success, anything else temporary failure 111 *)
Definition maildir_parent (child : N) : N := if child =? 0 then 0 else 111.

Record mfs := { m_tmp : bool; m_new : bool; m_data : bytes; m_synced : nat }.
Definition mfs0 : mfs := {| m_tmp := false; m_new := false; m_data := []; m_synced := 0 |}.
Definition mstep (s : mfs) (e : mev) : mfs :=
  match e with
  | MCreateTmp true => {| m_tmp := true; m_new := m_new s; m_data := []; m_synced := 0 |}
  | MWrite d => {| m_tmp := m_tmp s; m_new := m_new s; m_data := m_data s ++ d; m_synced := m_synced s |}
  | MFsync true => {| m_tmp := m_tmp s; m_new := m_new s; m_data := m_data s; m_synced := length (m_data s) |}
  | MLinkNew true => {| m_tmp := m_tmp s; m_new := true; m_data := m_data s; m_synced := m_synced s |}
  | MUnlinkTmp => {| m_tmp := false; m_new := m_new s; m_data := m_data s; m_synced := m_synced s |}
  | _ => s
  end.
Definition mrun (evs : list mev) : mfs := fold_left mstep evs mfs0.
Definition mexit (evs : list mev) : option N :=
  fold_left (fun acc e => match e with MExit c => Some c | _ => acc end) evs None.

(* at one state: a message visible in new/ is complete and durable *)
Definition visible_ok (content : bytes) (s : mfs) : bool :=
  negb (m_new s) || (beq (m_data s) content && Nat.eqb (m_synced s) (length (m_data s))).
Fixpoint mprefixes_ok (content : bytes) (s : mfs) (evs : list mev) : bool :=
  visible_ok content s &&
  match evs with [] => true | e :: evs' => mprefixes_ok content (mstep s e) evs' end.

(* ================================================================== mbox *)
Definition GTc : N := 62.
Definition s_From : bytes := [70; 114; 111; 109; 32].        (* "From " *)

Fixpoint strip_gt (l : bytes) : bytes :=
  match l with c :: l' => if c =? GTc then strip_gt l' else l | [] => [] end.
Definition gfrom (l : bytes) : bool := is_prefix s_From (strip_gt l).

Definition quote_line (l : bytes) : bytes := if gfrom l then GTc :: l else l.
(* what mailfile() appends: ufline, header lines, the message with >From quoting and a final
   newline added to an unterminated last line, then one blank line *)
Definition mbox_entry (ufline hdr msg : bytes) : bytes :=
  ufline ++ hdr ++ join_lines (map quote_line (split_lines msg)) ++ [LF].

(* the reader of mbox(5) *)
Definition is_from (l : bytes) : bool := is_prefix s_From l.
Fixpoint grp (ls : list bytes) : list bytes * list (bytes * list bytes) :=
  match ls with
  | [] => ([], [])
  | l :: ls' => let (p, ms) := grp ls' in
                if is_from l then ([], (l, p) :: ms) else (l :: p, ms)
  end.
Definition strip_final_blank (body : list bytes) : list bytes :=
  match rev body with
  | [] :: r => rev r
  | _ => body
  end.
Definition unquote_line (l : bytes) : bytes :=
  match l with
  | c :: l' => if (c =? GTc) && gfrom l then l' else l
  | [] => []
  end.
Definition mbox_read (file : bytes) : list (bytes * bytes) :=
  map (fun m => (fst m, join_lines (map unquote_line (strip_final_blank (snd m)))))
      (snd (grp (split_lines file))).

(* ---- mailfile() as events on one file ---- *)
Inductive bev :=
  | BOpen (ok : bool) | BLock (ok : bool) | BPos
  | BWrite (data : bytes) | BFsync (ok : bool) | BTrunc | BExit (code : N).
Record bfaults := { bf_open : bool; bf_lock : bool; bf_write : option nat; bf_read : option nat; bf_fsync : bool }.
Definition mailfile_events (entry : bytes) (f : bfaults) : list bev :=
  if bf_open f then [BOpen false; BExit 111] else
  BOpen true :: BLock (negb (bf_lock f)) :: BPos ::
  let rollback := if bf_lock f then [] else [BTrunc] in
  match bf_write f with
  | Some n => BWrite (firstn n entry) :: rollback ++ [BExit 111]
  | None =>
    match bf_read f with
    | Some n => BWrite (firstn n entry) :: rollback ++ [BExit 111]
    | None => BWrite entry :: if bf_fsync f then BFsync false :: rollback ++ [BExit 111]
                              else [BFsync true; BExit 0]
    end
  end.
(* the file: content and the position remembered by BPos *)
Definition bstep (s : bytes * nat) (e : bev) : bytes * nat :=
  match e with
  | BPos => (fst s, length (fst s))
  | BWrite d => (fst s ++ d, snd s)
  | BTrunc => (firstn (snd s) (fst s), snd s)
  | _ => s
  end.
Definition brun (old : bytes) (evs : list bev) : bytes := fst (fold_left bstep evs (old, 0%nat)).
Definition bexit (evs : list bev) : option N :=
  fold_left (fun acc e => match e with BExit c => Some c | _ => acc end) evs None.
