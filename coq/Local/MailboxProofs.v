From NQ Require Import Local.Mailbox.
Local Open Scope N_scope.

Lemma beq_refl' b : beq b b = true.
Proof. apply beq_eq. reflexivity. Qed.

(* ================================================================== maildir *)
Lemma mprefixes_repeat content s k rest :
  mprefixes_ok content s (repeat (MCreateTmp false) k ++ rest) = true <-> mprefixes_ok content s rest = true.
Proof.
  induction k as [|k IH]; [reflexivity|].
  cbn [repeat app mprefixes_ok]. change (mstep s (MCreateTmp false)) with s.
  destruct rest as [|e rest'].
  - rewrite app_nil_r in *. cbn [mprefixes_ok] in *. destruct (visible_ok content s); cbn; [|tauto]. rewrite IH. tauto.
  - cbn [mprefixes_ok] in IH |- *. destruct (visible_ok content s); cbn; [|tauto]. rewrite IH. cbn. tauto.
Qed.

Ltac mcrunch :=
  repeat (cbn [mprefixes_ok mstep app negb andb orb visible_ok mfs0 m_tmp m_new m_data m_synced];
          rewrite ?beq_refl', ?Nat.eqb_refl, ?app_nil_l; try reflexivity).

Lemma maildir_prefixes_ok_l content f : mprefixes_ok content mfs0 (maildir_events content f) = true.
Proof.
  unfold maildir_events.
  destruct (mf_chdir f); [mcrunch|]. cbn [mprefixes_ok mstep]. change (visible_ok content mfs0) with true. cbn [andb].
  destruct (mf_create_err f); [mcrunch|].
  apply mprefixes_repeat.
  destruct (Nat.leb 3 (mf_create_fail f)); [mcrunch|].
  destruct (mf_write f); [mcrunch|]. destruct (mf_read f); [mcrunch|].
  destruct (mf_fsync f); [mcrunch|]. destruct (mf_close f); [mcrunch|]. destruct (mf_link f); mcrunch.
Qed.

Lemma mprefixes_at content p : forall s q,
  mprefixes_ok content s (p ++ q) = true -> visible_ok content (fold_left mstep p s) = true.
Proof.
  induction p as [|e p IH]; intros s q H.
  - cbn [app fold_left]. destruct q; cbn [mprefixes_ok] in H; apply andb_true_iff in H as [H _]; exact H.
  - cbn [app mprefixes_ok] in H. apply andb_true_iff in H as [_ H]. exact (IH _ _ H).
Qed.

(* whatever instant the process or the machine dies, whichever call fails *)
Lemma maildir_atomic_l content f p q k :
  maildir_events content f = p ++ q -> m_new (mrun p) = true ->
  (m_synced (mrun p) <= k <= length (m_data (mrun p)))%nat ->
  firstn k (m_data (mrun p)) = content.
Proof.
  intros E Hn Hk. pose proof (maildir_prefixes_ok_l content f) as H. rewrite E in H.
  apply mprefixes_at in H. fold (mrun p) in H. unfold visible_ok in H. rewrite Hn in H. cbn in H.
  apply andb_true_iff in H as [H1 H2]. apply beq_eq in H1. apply Nat.eqb_eq in H2.
  rewrite firstn_all2 by lia. exact H1.
Qed.

Lemma mexit_repeat k rest acc :
  fold_left (fun acc e => match e with MExit c => Some c | _ => acc end) (repeat (MCreateTmp false) k ++ rest) acc =
  fold_left (fun acc e => match e with MExit c => Some c | _ => acc end) rest acc.
Proof. induction k; cbn; auto. Qed.
Lemma mrun_repeat k rest s : fold_left mstep (repeat (MCreateTmp false) k ++ rest) s = fold_left mstep rest s.
Proof. induction k; cbn; auto. Qed.

Lemma maildir_success_iff_l content f :
  mexit (maildir_events content f) = Some 0 <-> m_new (mrun (maildir_events content f)) = true.
Proof.
  unfold mexit, mrun, maildir_events.
  destruct (mf_chdir f); [cbn; split; discriminate|]. cbn [fold_left]. change (mstep mfs0 (MChdir true)) with mfs0.
  destruct (mf_create_err f); [cbn; split; discriminate|].
  rewrite mexit_repeat, mrun_repeat.
  destruct (Nat.leb 3 (mf_create_fail f)); [cbn; split; discriminate|].
  destruct (mf_write f); [cbn; split; discriminate|]. destruct (mf_read f); [cbn; split; discriminate|].
  destruct (mf_fsync f); [cbn; split; discriminate|]. destruct (mf_close f); [cbn; split; discriminate|].
  destruct (mf_link f); cbn; split; try discriminate; reflexivity.
Qed.

(* ================================================================== mbox: rollback *)
Lemma mailfile_rollback_l old entry f c :
  bf_lock f = false -> bexit (mailfile_events entry f) = Some c -> c <> 0 ->
  brun old (mailfile_events entry f) = old.
Proof.
  intros Hl He Hc. unfold bexit, brun, mailfile_events in *. rewrite Hl in *. cbn [negb] in *.
  assert (T : forall d, firstn (length old) (old ++ d) = old).
  { intros d. rewrite firstn_app, Nat.sub_diag, firstn_all. cbn. apply app_nil_r. }
  destruct (bf_open f); [reflexivity|].
  destruct (bf_write f); [cbn; apply T|]. destruct (bf_read f); [cbn; apply T|].
  destruct (bf_fsync f); [cbn; apply T|]. cbn in He. injection He as <-. contradiction.
Qed.

Lemma mailfile_success_l old entry f :
  bexit (mailfile_events entry f) = Some 0 -> brun old (mailfile_events entry f) = old ++ entry.
Proof.
  unfold bexit, brun, mailfile_events.
  destruct (bf_open f); [discriminate|].
  destruct (bf_write f); [destruct (bf_lock f); cbn; discriminate|].
  destruct (bf_read f); [destruct (bf_lock f); cbn; discriminate|].
  destruct (bf_fsync f); [destruct (bf_lock f); cbn; discriminate|]. reflexivity.
Qed.

(* ================================================================== mbox: round trip *)
Definition nolf (l : bytes) : Prop := has LF l = false.

Lemma split_aux_line l : nolf l -> forall cur tail,
  split_lines_aux cur (l ++ LF :: tail) = (rev cur ++ l) :: split_lines_aux [] tail.
Proof.
  induction l as [|c l IHl]; intros Hl cur tail.
  - cbn. rewrite app_nil_r. reflexivity.
  - unfold nolf in Hl. cbn in Hl. apply orb_false_iff in Hl as [Hc Hl'].
    cbn [app split_lines_aux]. assert (Hc' : (c =? LF) = false) by (rewrite N.eqb_sym; exact Hc). rewrite Hc'.
    rewrite (IHl Hl'). cbn [rev]. rewrite <- app_assoc. reflexivity.
Qed.

Lemma split_aux_join ls : forall cur rest,
  Forall nolf ls ->
  split_lines_aux cur (join_lines ls ++ rest) =
  match ls with
  | [] => split_lines_aux cur rest
  | l :: ls' => (rev cur ++ l) :: ls' ++ split_lines_aux [] rest
  end.
Proof.
  induction ls as [|l ls IH]; intros cur rest Hf; [reflexivity|].
  inversion Hf as [|? ? Hl Hls]; subst.
  unfold join_lines. cbn [map concat]. fold (join_lines ls).
  rewrite <- !app_assoc. cbn [app]. rewrite (split_aux_line l Hl). f_equal.
  rewrite (IH [] rest Hls). destruct ls; reflexivity.
Qed.

Lemma split_join ls rest : Forall nolf ls -> split_lines (join_lines ls ++ rest) = ls ++ split_lines rest.
Proof. intros H. unfold split_lines. rewrite split_aux_join by exact H. destruct ls; reflexivity. Qed.

Lemma split_lines_nolf s : forall cur, nolf (rev cur) -> Forall nolf (split_lines_aux cur s).
Proof.
  induction s as [|c s IH]; intros cur Hc; cbn.
  - destruct cur; [constructor|constructor; [exact Hc|constructor]].
  - destruct (N.eqb_spec c LF) as [->|Hn].
    + constructor; [exact Hc|]. apply IH. reflexivity.
    + apply IH. unfold nolf in *. cbn [rev]. 
      assert (G : forall a b, has LF (a ++ b) = has LF a || has LF b).
      { induction a; intros; cbn; [reflexivity|]. rewrite IHa. apply orb_assoc. }
      rewrite G, Hc. cbn [has orb]. apply N.eqb_neq in Hn. rewrite N.eqb_sym in Hn. rewrite Hn. reflexivity.
Qed.

Lemma join_app a b : join_lines (a ++ b) = join_lines a ++ join_lines b.
Proof. unfold join_lines. rewrite map_app, concat_app. reflexivity. Qed.

Lemma join_cons a l : join_lines (a :: l) = (a ++ [LF]) ++ join_lines l.
Proof. reflexivity. Qed.

Lemma grp_no_from ls : forallb (fun l => negb (is_from l)) ls = true -> grp ls = (ls, []).
Proof.
  induction ls as [|l ls IH]; intros H; [reflexivity|].
  cbn in H. apply andb_true_iff in H as [H1 H2]. cbn. rewrite (IH H2).
  apply negb_true_iff in H1. rewrite H1. reflexivity.
Qed.

Lemma grp_app_from L1 f L2 :
  is_from f = true -> forallb (fun l => negb (is_from l)) L2 = true ->
  snd (grp (L1 ++ f :: L2)) = snd (grp L1) ++ [(f, L2)] /\ fst (grp (L1 ++ f :: L2)) = fst (grp L1).
Proof.
  intros Hf H2. induction L1 as [|l L1 [IH1 IH2]].
  - cbn [app grp]. rewrite (grp_no_from L2 H2), Hf. auto.
  - cbn [app grp]. destruct (grp (L1 ++ f :: L2)) as [p ms]. destruct (grp L1) as [p1 ms1].
    cbn in IH1, IH2. subst. destruct (is_from l); cbn; auto.
Qed.

Lemma strip_gt_idem_from l : is_from l = true -> gfrom l = true.
Proof.
  unfold is_from, gfrom. intros H. destruct l as [|c l]; [discriminate|].
  pose proof H as H'. cbn in H'. apply andb_true_iff in H' as [Hc _]. apply N.eqb_eq in Hc. subst c.
  cbn [strip_gt]. change (70 =? GTc) with false. exact H.
Qed.

Lemma quote_not_from l : is_from (quote_line l) = false.
Proof.
  unfold quote_line. destruct (gfrom l) eqn:E; [reflexivity|].
  destruct (is_from l) eqn:F; [|reflexivity]. apply strip_gt_idem_from in F. congruence.
Qed.

Lemma unquote_quote l : unquote_line (quote_line l) = l.
Proof.
  unfold quote_line. destruct (gfrom l) eqn:E.
  - unfold unquote_line. rewrite N.eqb_refl. cbn [andb].
    assert (gfrom (GTc :: l) = true) by (unfold gfrom in *; cbn; exact E). rewrite H. reflexivity.
  - unfold unquote_line. destruct l as [|c l']; [reflexivity|]. rewrite E, andb_false_r. reflexivity.
Qed.
Lemma unquote_plain l : gfrom l = false -> unquote_line l = l.
Proof. intros E. unfold unquote_line. destruct l; [reflexivity|]. rewrite E, andb_false_r. reflexivity. Qed.

Lemma quote_nolf l : nolf l -> nolf (quote_line l).
Proof. unfold quote_line, nolf. destruct (gfrom l); cbn; auto. Qed.

Lemma mbox_roundtrip_l lo x lh msg :
  Forall nolf lo -> nolf x -> Forall nolf lh ->
  forallb (fun l => negb (gfrom l)) lh = true ->
  let old := join_lines lo in
  let ufline := s_From ++ x ++ [LF] in
  let hdr := join_lines lh in
  mbox_read (old ++ mbox_entry ufline hdr msg) =
  mbox_read old ++ [(s_From ++ x, hdr ++ msg_plus msg)].
Proof.
  intros Hlo Hx Hlh Hg old ufline hdr.
  set (ml := split_lines msg).
  assert (Hml : Forall nolf ml) by (apply split_lines_nolf; reflexivity).
  set (body := lh ++ map quote_line ml ++ [[]]).
  assert (E : old ++ mbox_entry ufline hdr msg = join_lines (lo ++ (s_From ++ x) :: body) ++ []).
  { unfold mbox_entry, old, ufline, hdr, body, ml. rewrite app_nil_r.
    rewrite join_app, join_cons, !join_app. change (join_lines [[]]) with [LF].
    rewrite <- !app_assoc. reflexivity. }
  assert (Hall : Forall nolf (lo ++ (s_From ++ x) :: body)).
  { apply Forall_app. split; [exact Hlo|]. constructor.
    - unfold nolf in *. clear -Hx. cbn. exact Hx.
    - unfold body. apply Forall_app. split; [exact Hlh|]. apply Forall_app. split.
      + apply Forall_forall. intros q Hq. apply in_map_iff in Hq as (l & <- & Hl).
        apply quote_nolf. exact (proj1 (Forall_forall _ _) Hml l Hl).
      + constructor; [reflexivity|constructor]. }
  unfold mbox_read. rewrite E, (split_join _ [] Hall). cbn [split_lines split_lines_aux]. rewrite app_nil_r.
  assert (Hfrom : is_from (s_From ++ x) = true) by (apply is_prefix_spec; exists x; reflexivity).
  assert (Hbody : forallb (fun l => negb (is_from l)) body = true).
  { unfold body. rewrite !forallb_app. repeat (apply andb_true_iff; split).
    - apply forallb_forall. intros l Hl. pose proof (proj1 (forallb_forall _ _) Hg l Hl) as G.
      apply negb_true_iff in G. apply negb_true_iff. destruct (is_from l) eqn:F; [|reflexivity].
      apply strip_gt_idem_from in F. congruence.
    - apply forallb_forall. intros q Hq. apply in_map_iff in Hq as (l & <- & _). rewrite quote_not_from. reflexivity.
    - reflexivity.
    - reflexivity. }
  pose proof (proj1 (grp_app_from lo (s_From ++ x) body Hfrom Hbody)) as G. rewrite G.
  assert (Eo : split_lines old = lo).
  { unfold old. rewrite <- (app_nil_r (join_lines lo)), (split_join lo [] Hlo). apply app_nil_r. }
  rewrite Eo, map_app. f_equal. cbn [map fst snd]. f_equal. f_equal.
  unfold strip_final_blank, body.
  rewrite app_assoc, rev_app_distr. cbn [rev app]. rewrite rev_involutive.
  rewrite map_app, join_app. f_equal.
  - unfold hdr. f_equal. transitivity (map (fun l => l) lh); [|apply map_id]. apply map_ext_in. intros l Hl. apply unquote_plain.
    pose proof (proj1 (forallb_forall _ _) Hg l Hl) as G2. apply negb_true_iff in G2. exact G2.
  - unfold msg_plus. fold ml. f_equal. rewrite map_map. transitivity (map (fun l => l) ml); [|apply map_id].
    apply map_ext. intros l. apply unquote_quote.
Qed.
