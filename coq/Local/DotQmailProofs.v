From NQ Require Import Local.DotQmail.
Local Open Scope N_scope.

(* ---------------------------------------------------------------- the looked-up name *)
Lemma safeext_no_dot ext : has DOT (safeext ext) = false.
Proof.
  unfold safeext. induction ext as [|c ext IH]; [reflexivity|]. cbn [map has]. rewrite IH, orb_false_r.
  destruct (N.eqb_spec (lower c) DOT) as [E|E]; [reflexivity|]. apply N.eqb_neq. intro H. apply E. symmetry. exact H.
Qed.

Lemma safeext_length ext : length (safeext ext) = length ext.
Proof. unfold safeext. apply map_length. Qed.

(* every candidate is .qmail ++ dash ++ (a prefix of the sanitised extension) ++ ("" | "default") *)
Lemma default_cands_shape dash sx i c :
  In c (default_cands dash sx i) -> exists j, (j <= i)%nat /\ c = s_qmail ++ dash ++ firstn j sx ++ s_default.
Proof.
  induction i as [|i IH]; cbn [default_cands].
  - destruct (Nat.eqb 0 0 || _); cbn; [intros [<-|[]]; exists 0%nat; auto|contradiction].
  - intros H. apply in_app_or in H as [H|H].
    + destruct (Nat.eqb (S i) 0 || _); cbn in H; [destruct H as [<-|[]]; exists (S i); auto|contradiction].
    + destruct (IH H) as (j & Hj & ->). exists j. auto.
Qed.
Lemma candidates_shape dash ext c :
  In c (candidates dash ext) ->
  c = s_qmail ++ dash ++ safeext ext \/
  exists j, (j <= length ext)%nat /\ c = s_qmail ++ dash ++ firstn j (safeext ext) ++ s_default.
Proof.
  unfold candidates. intros [<-|H]; [left; reflexivity|right].
  destruct (default_cands_shape _ _ _ _ H) as (j & Hj & ->). rewrite safeext_length in Hj. exists j. auto.
Qed.

(* the exact name is tried first, the bare -default name last *)
Lemma candidates_first dash ext : exists rest, candidates dash ext = (s_qmail ++ dash ++ safeext ext) :: rest.
Proof. eexists. reflexivity. Qed.
Lemma default_cands_last dash sx i : exists pre, default_cands dash sx i = pre ++ [s_qmail ++ dash ++ s_default].
Proof.
  induction i as [|i [pre IH]]; cbn [default_cands].
  - exists []. reflexivity.
  - rewrite IH. eexists. rewrite app_assoc. reflexivity.
Qed.

(* ---------------------------------------------------------------- choosing the file *)
Lemma choose_file_spec files cands x content :
  choose files cands = CFile x content ->
  exists pre c post, cands = pre ++ c :: post /\ files c = FReg false x content /\
                     Forall (fun p => files p = FAbsent) pre.
Proof.
  induction cands as [|c cs IH]; cbn; [discriminate|].
  destruct (files c) as [| |w x' ct] eqn:E.
  - intros H. destruct (IH H) as (pre & c' & post & -> & Hc & Hp).
    exists (c :: pre), c', post. repeat split; auto.
  - discriminate.
  - destruct w; [discriminate|]. intros H. injection H as <- <-. exists [], c, cs. repeat split; auto.
Qed.

Lemma choose_defers files pre c post :
  Forall (fun p => files p = FAbsent) pre ->
  (files c = FTemp \/ exists x ct, files c = FReg true x ct) ->
  choose files (pre ++ c :: post) = CDefer.
Proof.
  intros Hp Hc. induction Hp as [|p pre Hpp _ IH]; cbn.
  - destruct Hc as [->|(x & ct & ->)]; reflexivity.
  - rewrite Hpp. exact IH.
Qed.

(* ---------------------------------------------------------------- executing the lines *)
Definition is_fwd (s : step) : bool := match s with XForward _ => true | _ => false end.

Lemma run_lines_no_forward_step ls : forall first fo k o fw,
  forallb (fun s => negb (is_fwd s)) (fst (fst (run_lines ls first fo k o fw))) = true.
Proof.
  induction ls as [|raw ls IH]; intros first fo k o fw; [reflexivity|].
  cbn [run_lines]. destruct (classify_line raw) as [| |a|cmd|b|a].
  - destruct first; [reflexivity|apply IH].
  - apply IH.
  - destruct fo; [reflexivity|]. destruct (o_deliver o k); [|reflexivity].
    specialize (IH false false (S k) o fw). destruct (run_lines ls false false (S k) o fw) as [[s f] e]. cbn in *. exact IH.
  - destruct fo; [reflexivity|]. destruct (o_prog o k) as [c|]; [|reflexivity].
    destruct (c =? 0).
    + specialize (IH false false (S k) o fw). destruct (run_lines ls false false (S k) o fw) as [[s f] e]. cbn in *. exact IH.
    + destruct (c =? 99); [reflexivity|]. destruct (hard_exit c); reflexivity.
  - apply IH.
  - apply IH.
Qed.

(* with the x bit (or after +list) no file or program instruction is ever executed *)
Lemma run_lines_forward_only ls : forall first k o fw,
  fst (fst (run_lines ls first true k o fw)) = [].
Proof.
  induction ls as [|raw ls IH]; intros first k o fw; [reflexivity|].
  cbn [run_lines]. destruct (classify_line raw); try reflexivity; try apply IH.
  destruct first; [reflexivity|apply IH].
Qed.

(* forwarding happens last, once, and only if no earlier instruction ended the run *)
Lemma local_run_forward_last c o steps code r :
  local_run c o = (steps, code) -> In (XForward r) steps ->
  exists pre, steps = pre ++ [XForward r] /\ forallb (fun s => negb (is_fwd s)) pre = true /\
              (code = 0 \/ code = 100 \/ code = 111).
Proof.
  unfold local_run.
  destruct (c_home_writable c); [intros H; injection H as <- <-; contradiction|].
  destruct (c_home_sticky c && c_doit c); [intros H; injection H as <- <-; contradiction|].
  destruct (c_doit c && c_looping c); [intros H; injection H as <- <-; contradiction|].
  destruct (chosen_text c) as [[[text x]|]|cd]; try (intros H; injection H as <- <-; contradiction).
  pose proof (run_lines_no_forward_step (split_lines text) true x 0%nat o []) as NF.
  destruct (run_lines (split_lines text) true x 0 o []) as [[st fw] e]. cbn [fst] in NF.
  destruct e as [cd|].
  - intros H Hin. injection H as <- <-. exfalso.
    apply (proj1 (forallb_forall _ _) NF) in Hin. discriminate.
  - destruct fw as [|f0 fw'].
    + intros H Hin. injection H as <- <-. exfalso. apply (proj1 (forallb_forall _ _) NF) in Hin. discriminate.
    + intros H Hin. injection H as <- <-. apply in_app_or in Hin as [Hin|Hin].
      * exfalso. apply (proj1 (forallb_forall _ _) NF) in Hin. discriminate.
      * destruct Hin as [E|[]]. injection E as <-. exists st. repeat split; auto.
        destruct (o_queue o =? 0); auto. destruct (o_queue o =? 1); auto.
Qed.

(* exit codes of a program instruction *)
Definition BARc : N := 124.
Lemma classify_prog cmd : has 0 cmd = false -> strip_blanks (BARc :: cmd) = BARc :: cmd ->
  classify_line (BARc :: cmd) = IProg cmd.
Proof.
  intros Hz Hs. unfold classify_line. rewrite Hs. cbn.
  assert (C : forall s, has 0 s = false -> cstr s = s).
  { induction s as [|c s IH]; intros H; [reflexivity|]. cbn [has] in H. apply orb_false_iff in H as [Hc Hs'].
    cbn [cstr]. rewrite N.eqb_sym, Hc. f_equal. exact (IH Hs'). }
  rewrite (C cmd Hz). reflexivity.
Qed.

Lemma program_exit_map raw cmd ls k o fw code :
  classify_line raw = IProg cmd -> o_prog o k = Some code -> code <> 0 ->
  run_lines (raw :: ls) false false k o fw =
  ([XProgram cmd], fw, if code =? 99 then None else if hard_exit code then Some 100 else Some 111).
Proof.
  intros Hc Ho Hn. cbn [run_lines]. rewrite Hc, Ho. apply N.eqb_neq in Hn. rewrite Hn.
  destruct (code =? 99); [reflexivity|]. destruct (hard_exit code); reflexivity.
Qed.
Lemma program_crash_defers raw cmd ls k o fw :
  classify_line raw = IProg cmd -> o_prog o k = None ->
  run_lines (raw :: ls) false false k o fw = ([XProgram cmd], fw, Some 111).
Proof. intros Hc Ho. cbn [run_lines]. rewrite Hc, Ho. reflexivity. Qed.

Lemma blank_first_line_defers ls raw x k o fw :
  classify_line raw = IBlank -> run_lines (raw :: ls) true x k o fw = ([], fw, Some 111).
Proof. intros H. cbn [run_lines]. rewrite H. reflexivity. Qed.

(* a message that already carries this Delivered-To line is bounced before anything is delivered *)
Lemma loop_cut_l c o :
  c_home_writable c = false -> c_home_sticky c = false -> c_doit c = true -> c_looping c = true ->
  local_run c o = ([], 100).
Proof. intros H1 H2 H3 H4. unfold local_run. rewrite H1, H2, H3, H4. reflexivity. Qed.

Lemma unsafe_home_defers c o :
  c_home_writable c = true \/ (c_home_sticky c = true /\ c_doit c = true) -> local_run c o = ([], 111).
Proof.
  intros [H|[H1 H2]]; unfold local_run; [rewrite H; reflexivity|].
  destruct (c_home_writable c); [reflexivity|]. rewrite H1, H2. reflexivity.
Qed.

(* ---------------------------------------------------------------- header lines *)
Lemma us_no_lf s : has LF (us s) = false.
Proof.
  unfold us. induction s as [|c s IH]; [reflexivity|]. cbn [map has]. rewrite IH, orb_false_r.
  destruct (N.eqb_spec c LF) as [->|E]; [reflexivity|]. apply N.eqb_neq. intro H. apply E. symmetry. exact H.
Qed.
Lemma has_app x a b : has x (a ++ b) = has x a || has x b.
Proof. induction a; cbn; [reflexivity|]. rewrite IHa. apply orb_assoc. Qed.

Lemma dtline_one_lf local host : exists x, dtline local host = x ++ [LF] /\ has LF x = false.
Proof. unfold dtline. eexists. split; [reflexivity|apply us_no_lf]. Qed.
Lemma rpline_one_lf q : exists x, rpline q = x ++ [LF] /\ has LF x = false.
Proof.
  unfold rpline. exists (us (s_rp ++ q) ++ [62]). split; [rewrite <- app_assoc; reflexivity|].
  rewrite has_app, us_no_lf. reflexivity.
Qed.
Lemma ufline_one_lf sender d : has LF d = false -> has LF (ufline sender (d ++ [LF])) = true /\
  exists x, ufline sender (d ++ [LF]) = x ++ [LF] /\ has LF x = false.
Proof.
  intros Hd. unfold ufline.
  assert (Hs : has LF (match sender with [] => s_md | _ :: _ => map (fun c => if (c =? 32) || (c =? 9) || (c =? LF) then DASHc else c) sender end) = false).
  { destruct sender as [|c0 s0]; [reflexivity|]. generalize (c0 :: s0). intros s.
    induction s as [|c s IH]; [reflexivity|]. cbn [map has]. rewrite IH, orb_false_r.
    destruct (c =? 32); [reflexivity|]. destruct (c =? 9); [reflexivity|]. cbn [orb].
    destruct (N.eqb_spec c LF) as [->|E]; [reflexivity|]. apply N.eqb_neq. intro H. apply E. symmetry. exact H. }
  assert (Hl : has LF (d ++ [LF]) = true) by (rewrite has_app; cbn [has]; rewrite N.eqb_refl; apply orb_true_r).
  split.
  - rewrite has_app, has_app, has_app, Hl. rewrite !orb_true_r. reflexivity.
  - exists (s_from ++ (match sender with [] => s_md | _ :: _ => map (fun c => if (c =? 32) || (c =? 9) || (c =? LF) then DASHc else c) sender end) ++ [32] ++ d).
    split; [rewrite <- !app_assoc; reflexivity|].
    rewrite has_app, has_app, has_app, Hs, Hd. reflexivity.
Qed.
