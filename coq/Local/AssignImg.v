(* qmail-lspawn.c nughde_get() on the byte image of users/cdb (Base/Cdb.v reader), instead of the abstract
   record list of Local/Assign.v.  Any read error or a missing wildcard record is QLX_CDB (LBroken).  No proofs here. *)
From NQ Require Import Base.Bytes Base.Cdb Base.CdbFast Local.Assign.
Local Open Scope N_scope.

Fixpoint nughde_loop_img (f : bytes) (wild lower local : bytes) (i : nat) (flagwild : bool) : lres :=
  match i with
  | O => LNone
  | S i' =>
    let try_ := negb flagwild || Nat.eqb i 1 || has (nth (i - 1) lower 0) wild in
    if try_ then
      match cdb_get_fast f (firstn i lower) with          (* = cdb_get, Base/CdbFastProofs.v *)
      | GErr => LBroken
      | GFound d => LFound (if flagwild then d ++ skipn (i - 1) local else d)
      | GNone => nughde_loop_img f wild lower local i' true
      end
    else nughde_loop_img f wild lower local i' true
  end.

Definition nughde_get_img (f : bytes) (local : bytes) : lres :=
  match cdb_get_fast f [] with
  | GFound wild =>
      let lower := BANG :: lowers local ++ [0] in
      nughde_loop_img f wild lower local (length lower) false
  | _ => LBroken
  end.
