(* C12, the concurrent part: several qmail-local processes delivering to ONE mbox file
   (qmail-local.c mailfile(): open_append, lock_ex, seek_end/seek_cur, write..., fsync, seek_trunc on
   failure, _exit) and two deliveries into ONE maildir (maildir_child()).
   Extends Local/Mailbox.v; the single-writer facts come from Local/MailboxProofs.v. *)
From NQ Require Import Local.Mailbox Local.MailboxProofs.
From Coq Require Import Lia Permutation.
Local Open Scope N_scope.

(* ================================================================== A. mbox, n writers *)

(* ---- what one writer's program may look like: a little automaton over its events ----
   Pre   : the lock is not held (only open / lock attempt / exit may happen)
   Hold  : the lock is held (position, writes, fsync, truncate, then exit)
   DoneL : exited after having held the lock;  DoneN : exited without ever holding it
   Bad   : anything else (in particular BLock false = carrying on without the lock) *)
Inductive phase := Pre | Hold | DoneL | DoneN | Bad.
Definition pstep (p : phase) (e : bev) : phase :=
  match p, e with
  | Pre, BOpen _ => Pre
  | Pre, BLock true => Hold
  | Pre, BExit _ => DoneN
  | Hold, BPos => Hold
  | Hold, BWrite _ => Hold
  | Hold, BFsync _ => Hold
  | Hold, BTrunc => Hold
  | Hold, BExit _ => DoneL
  | _, _ => Bad
  end.
Definition phase_of (evs : list bev) : phase := fold_left pstep evs Pre.

(* a property of every state the single writer goes through *)
Fixpoint all_states (P : bytes * nat -> Prop) (s : bytes * nat) (evs : list bev) : Prop :=
  P s /\ match evs with [] => True | e :: evs' => all_states P (bstep s e) evs' end.

(* The single-writer contract the concurrency proof relies on, for a program [evs] that delivers [entry]:
   it respects the lock discipline, on its own it only ever shows base ++ (a prefix of entry),
   exit 0 means "held the lock and appended exactly entry", any other exit means "file as before". *)
Definition good_prog (entry : bytes) (evs : list bev) : Prop :=
  (phase_of evs = DoneL \/ phase_of evs = DoneN) /\
  (bexit evs = Some 0 -> phase_of evs = DoneL) /\
  forall base : bytes,
    all_states (fun s => exists k : nat, fst s = base ++ firstn k entry) (base, 0%nat) evs /\
    (bexit evs = Some 0 -> brun base evs = base ++ entry) /\
    (forall c, bexit evs = Some c -> c <> 0 -> brun base evs = base).

(* ---- the shared system ---- *)
Record writer := { w_done : list bev;      (* ghost: events already performed, oldest first *)
                   w_evs : list bev;       (* events still to perform *)
                   w_pos : nat }.          (* the value seek_cur() returned to THIS process *)
Record cstate := { c_file : bytes;         (* the one mbox file *)
                   c_lock : option nat;    (* who holds the flock *)
                   c_order : list nat;     (* ghost: the writers in the order they obtained the lock *)
                   c_ws : list writer }.

Fixpoint upd {A} (l : list A) (i : nat) (x : A) : list A :=
  match l, i with
  | [], _ => []
  | _ :: t, O => x :: t
  | h :: t, S i' => h :: upd t i' x
  end.

(* writer [i] is scheduled.  It stalls (state unchanged) when it does not exist, has finished, or
   wants the lock while somebody holds it.  Otherwise its next event acts on the shared file exactly
   as [bstep] does on (file, its own remembered position). *)
Definition cstep (s : cstate) (i : nat) : cstate :=
  match nth_error (c_ws s) i with
  | None => s
  | Some w =>
    match w_evs w with
    | [] => s
    | e :: rest =>
      let w' pos := {| w_done := w_done w ++ [e]; w_evs := rest; w_pos := pos |} in
      match e with
      | BLock true =>
        match c_lock s with
        | Some _ => s
        | None => {| c_file := c_file s; c_lock := Some i; c_order := c_order s ++ [i];
                     c_ws := upd (c_ws s) i (w' (w_pos w)) |}
        end
      | BExit _ =>
        {| c_file := c_file s;
           c_lock := match c_lock s with
                     | Some h => if Nat.eqb h i then None else Some h
                     | None => None
                     end;
           c_order := c_order s;
           c_ws := upd (c_ws s) i (w' (w_pos w)) |}
      | _ =>
        let fp := bstep (c_file s, w_pos w) e in
        {| c_file := fst fp; c_lock := c_lock s; c_order := c_order s;
           c_ws := upd (c_ws s) i (w' (snd fp)) |}
      end
    end
  end.
Definition crun (s : cstate) (sched : list nat) : cstate := fold_left cstep sched s.

Definition cinit (old : bytes) (progs : list (list bev)) : cstate :=
  {| c_file := old; c_lock := None; c_order := [];
     c_ws := map (fun p => {| w_done := []; w_evs := p; w_pos := 0%nat |}) progs |}.

Definition wexit (ws : list writer) (i : nat) : option N :=
  match nth_error ws i with Some w => bexit (w_done w) | None => None end.
Definition exit0 (ws : list writer) (i : nat) : bool :=
  match wexit ws i with Some 0 => true | _ => false end.
(* the writers that have completed successfully so far, in the order they took the lock *)
Definition committed (s : cstate) : list nat := filter (exit0 (c_ws s)) (c_order s).
Definition all_finished (s : cstate) : Prop := forall w, In w (c_ws s) -> w_evs w = [].

(* ---- small list facts ---- *)
Lemma upd_length {A} (l : list A) : forall i x, length (upd l i x) = length l.
Proof. induction l as [|h t IH]; intros [|i] x; cbn [upd length]; auto. Qed.
Lemma upd_same {A} (l : list A) : forall i x y, nth_error l i = Some y -> nth_error (upd l i x) i = Some x.
Proof. induction l as [|h t IH]; intros [|i] x y H; cbn in *; try discriminate; eauto. Qed.
Lemma upd_other {A} (l : list A) : forall i j x, j <> i -> nth_error (upd l i x) j = nth_error l j.
Proof.
  induction l as [|h t IH]; intros [|i] [|j] x H; cbn [upd nth_error]; auto; try contradiction.
  apply IH. intros ->. apply H. reflexivity.
Qed.

Lemma pstep_bad l : fold_left pstep l Bad = Bad.
Proof. induction l as [|e l IH]; [reflexivity|]. cbn [fold_left]. exact IH. Qed.
Lemma pstep_done l p : p = DoneL \/ p = DoneN ->
  fold_left pstep l p = DoneL \/ fold_left pstep l p = DoneN -> l = [].
Proof.
  intros Hp H. destruct l as [|e l]; [reflexivity|]. exfalso. cbn [fold_left] in H.
  assert (E : pstep p e = Bad) by (destruct Hp as [-> | ->]; destruct e; reflexivity).
  rewrite E, pstep_bad in H. destruct H; discriminate.
Qed.
Lemma phase_snoc d e : phase_of (d ++ [e]) = pstep (phase_of d) e.
Proof. unfold phase_of. rewrite fold_left_app. reflexivity. Qed.
Lemma bexit_snoc d e : bexit (d ++ [e]) = match e with BExit c => Some c | _ => bexit d end.
Proof. unfold bexit. rewrite fold_left_app. reflexivity. Qed.

(* before any exit, no exit code *)
Lemma phase_noexit d : phase_of d = Pre \/ phase_of d = Hold -> bexit d = None.
Proof.
  induction d as [|e d IH] using rev_ind; intros H; [reflexivity|].
  rewrite phase_snoc in H. rewrite bexit_snoc.
  destruct (phase_of d) eqn:P; destruct e as [b|b| | | | |c]; try destruct b; cbn in H;
    try (destruct H; discriminate); apply IH; auto.
Qed.
(* before the lock, the file and the remembered position were not touched *)
Lemma phase_pre_id d : phase_of d = Pre -> forall x, fold_left bstep d x = x.
Proof.
  induction d as [|e d IH] using rev_ind; intros H x; [reflexivity|].
  rewrite phase_snoc in H. rewrite fold_left_app. cbn [fold_left].
  destruct (phase_of d) eqn:P; destruct e as [b|b| | | | |c]; try destruct b; cbn in H; try discriminate;
    rewrite IH by reflexivity; reflexivity.
Qed.

Lemma all_states_at P p : forall s q, all_states P s (p ++ q) -> P (fold_left bstep p s).
Proof.
  induction p as [|e p IH]; intros s q H.
  - cbn [app fold_left]. destruct q; cbn [all_states] in H; tauto.
  - cbn [app all_states] in H. cbn [fold_left]. apply (IH _ q). tauto.
Qed.

(* ---- qmail-local's mailfile(), when it gets the lock, is a good program ---- *)
Lemma mailfile_good entry f : bf_lock f = false -> good_prog entry (mailfile_events entry f).
Proof.
  intros Hl. split; [|split; [|intros base; split; [|split]]].
  - unfold mailfile_events. rewrite Hl.
    destruct (bf_open f), (bf_write f), (bf_read f), (bf_fsync f); cbn; auto.
  - unfold mailfile_events. rewrite Hl.
    destruct (bf_open f), (bf_write f), (bf_read f), (bf_fsync f); cbn; auto; discriminate.
  - assert (T : forall d, firstn (length base) (base ++ d) = base).
    { intros d. rewrite firstn_app, Nat.sub_diag, firstn_all. cbn. apply app_nil_r. }
    assert (K0 : exists k : nat, base = base ++ firstn k entry) by (exists 0%nat; cbn; rewrite app_nil_r; reflexivity).
    assert (KA : exists k : nat, base ++ entry = base ++ firstn k entry) by (exists (length entry); rewrite firstn_all; reflexivity).
    unfold mailfile_events. rewrite Hl.
    destruct (bf_open f), (bf_write f), (bf_read f), (bf_fsync f);
      cbn [all_states bstep negb app fst snd]; rewrite ?T; repeat split; eauto.
  - apply mailfile_success_l.
  - intros c Hc Hn. exact (mailfile_rollback_l base entry f c Hl Hc Hn).
Qed.
