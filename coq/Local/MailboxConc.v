(* C12, the concurrent part: several qmail-local processes delivering to ONE mbox file
   (qmail-local.c mailfile(): open_append, lock_ex, seek_end/seek_cur, write..., fsync, seek_trunc on
   failure, _exit) and two deliveries into ONE maildir (maildir_child()).
   Extends Local/Mailbox.v; the single-writer facts come from Local/MailboxProofs.v. *)
From NQ Require Import Local.Mailbox Local.MailboxProofs.
From Coq Require Import Lia Permutation.
Local Open Scope N_scope.

(* ================================================================== A. mbox, n writers *)

(* ---- what one writer's program may look like: a little automaton over its events ----
   Pre   : the lock is not held (only open / lock attempt / exit may happen)
   Hold  : the lock is held (position, writes, fsync, truncate, then exit)
   DoneL : exited after having held the lock;  DoneN : exited without ever holding it
   Bad   : anything else (in particular BLock false = carrying on without the lock) *)
Inductive phase := Pre | Hold | DoneL | DoneN | Bad.
Definition pstep (p : phase) (e : bev) : phase :=
  match p, e with
  | Pre, BOpen _ => Pre
  | Pre, BLock true => Hold
  | Pre, BExit _ => DoneN
  | Hold, BPos => Hold
  | Hold, BWrite _ => Hold
  | Hold, BFsync _ => Hold
  | Hold, BTrunc => Hold
  | Hold, BExit _ => DoneL
  | _, _ => Bad
  end.
Definition phase_of (evs : list bev) : phase := fold_left pstep evs Pre.

(* a property of every state the single writer goes through *)
Fixpoint all_states (P : bytes * nat -> Prop) (s : bytes * nat) (evs : list bev) : Prop :=
  P s /\ match evs with [] => True | e :: evs' => all_states P (bstep s e) evs' end.

(* The single-writer contract the concurrency proof relies on, for a program [evs] that delivers [entry]:
   it respects the lock discipline, on its own it only ever shows base ++ (a prefix of entry),
   exit 0 means "held the lock and appended exactly entry", any other exit means "file as before". *)
Definition good_prog (entry : bytes) (evs : list bev) : Prop :=
  (phase_of evs = DoneL \/ phase_of evs = DoneN) /\
  (bexit evs = Some 0 -> phase_of evs = DoneL) /\
  forall base : bytes,
    all_states (fun s => exists k : nat, fst s = base ++ firstn k entry) (base, 0%nat) evs /\
    (bexit evs = Some 0 -> brun base evs = base ++ entry) /\
    (forall c, bexit evs = Some c -> c <> 0 -> brun base evs = base).

(* ---- the shared system ---- *)
Record writer := { w_done : list bev;      (* ghost: events already performed, oldest first *)
                   w_evs : list bev;       (* events still to perform *)
                   w_pos : nat }.          (* the value seek_cur() returned to THIS process *)
Record cstate := { c_file : bytes;         (* the one mbox file *)
                   c_lock : option nat;    (* who holds the flock *)
                   c_order : list nat;     (* ghost: the writers in the order they obtained the lock *)
                   c_ws : list writer }.

Fixpoint upd {A} (l : list A) (i : nat) (x : A) : list A :=
  match l, i with
  | [], _ => []
  | _ :: t, O => x :: t
  | h :: t, S i' => h :: upd t i' x
  end.

(* writer [i] is scheduled.  It stalls (state unchanged) when it does not exist, has finished, or
   wants the lock while somebody holds it.  Otherwise its next event acts on the shared file exactly
   as [bstep] does on (file, its own remembered position). *)
Definition cstep (s : cstate) (i : nat) : cstate :=
  match nth_error (c_ws s) i with
  | None => s
  | Some w =>
    match w_evs w with
    | [] => s
    | e :: rest =>
      let w' pos := {| w_done := w_done w ++ [e]; w_evs := rest; w_pos := pos |} in
      match e with
      | BLock true =>
        match c_lock s with
        | Some _ => s
        | None => {| c_file := c_file s; c_lock := Some i; c_order := c_order s ++ [i];
                     c_ws := upd (c_ws s) i (w' (w_pos w)) |}
        end
      | BExit _ =>
        {| c_file := c_file s;
           c_lock := match c_lock s with
                     | Some h => if Nat.eqb h i then None else Some h
                     | None => None
                     end;
           c_order := c_order s;
           c_ws := upd (c_ws s) i (w' (w_pos w)) |}
      | _ =>
        let fp := bstep (c_file s, w_pos w) e in
        {| c_file := fst fp; c_lock := c_lock s; c_order := c_order s;
           c_ws := upd (c_ws s) i (w' (snd fp)) |}
      end
    end
  end.
Definition crun (s : cstate) (sched : list nat) : cstate := fold_left cstep sched s.

Definition cinit (old : bytes) (progs : list (list bev)) : cstate :=
  {| c_file := old; c_lock := None; c_order := [];
     c_ws := map (fun p => {| w_done := []; w_evs := p; w_pos := 0%nat |}) progs |}.

Definition wexit (ws : list writer) (i : nat) : option N :=
  match nth_error ws i with Some w => bexit (w_done w) | None => None end.
Definition exit0 (ws : list writer) (i : nat) : bool :=
  match wexit ws i with Some 0 => true | _ => false end.
(* the writers that have completed successfully so far, in the order they took the lock *)
Definition committed (s : cstate) : list nat := filter (exit0 (c_ws s)) (c_order s).
Definition all_finished (s : cstate) : Prop := forall w, In w (c_ws s) -> w_evs w = [].

(* ---- small list facts ---- *)
Lemma upd_length {A} (l : list A) : forall i x, length (upd l i x) = length l.
Proof. induction l as [|h t IH]; intros [|i] x; cbn [upd length]; auto. Qed.
Lemma upd_same {A} (l : list A) : forall i x y, nth_error l i = Some y -> nth_error (upd l i x) i = Some x.
Proof. induction l as [|h t IH]; intros [|i] x y H; cbn in *; try discriminate; eauto. Qed.
Lemma upd_other {A} (l : list A) : forall i j x, j <> i -> nth_error (upd l i x) j = nth_error l j.
Proof.
  induction l as [|h t IH]; intros [|i] [|j] x H; cbn [upd nth_error]; auto; try contradiction.
Qed.

Lemma pstep_bad l : fold_left pstep l Bad = Bad.
Proof. induction l as [|e l IH]; [reflexivity|]. cbn [fold_left]. exact IH. Qed.
Lemma pstep_done l p : p = DoneL \/ p = DoneN ->
  fold_left pstep l p = DoneL \/ fold_left pstep l p = DoneN -> l = [].
Proof.
  intros Hp H. destruct l as [|e l]; [reflexivity|]. exfalso. cbn [fold_left] in H.
  assert (E : pstep p e = Bad) by (destruct Hp as [-> | ->]; destruct e; reflexivity).
  rewrite E, pstep_bad in H. destruct H; discriminate.
Qed.
Lemma phase_snoc d e : phase_of (d ++ [e]) = pstep (phase_of d) e.
Proof. unfold phase_of. rewrite fold_left_app. reflexivity. Qed.
Lemma bexit_snoc d e : bexit (d ++ [e]) = match e with BExit c => Some c | _ => bexit d end.
Proof. unfold bexit. rewrite fold_left_app. reflexivity. Qed.

(* before any exit, no exit code *)
Lemma phase_noexit d : phase_of d = Pre \/ phase_of d = Hold -> bexit d = None.
Proof.
  induction d as [|e d IH] using rev_ind; intros H; [reflexivity|].
  rewrite phase_snoc in H. rewrite bexit_snoc.
  destruct (phase_of d) eqn:P; destruct e as [b|b| | | | |c]; try destruct b; cbn in H;
    try (destruct H; discriminate); apply IH; auto.
Qed.
(* before the lock, the file and the remembered position were not touched *)
Lemma phase_pre_id d : phase_of d = Pre -> forall x, fold_left bstep d x = x.
Proof.
  induction d as [|e d IH] using rev_ind; intros H x; [reflexivity|].
  rewrite phase_snoc in H. rewrite fold_left_app. cbn [fold_left].
  destruct (phase_of d) eqn:P; destruct e as [b|b| | | | |c]; try destruct b; cbn in H; try discriminate;
    rewrite IH by reflexivity; reflexivity.
Qed.

Lemma all_states_at P p : forall s q, all_states P s (p ++ q) -> P (fold_left bstep p s).
Proof.
  induction p as [|e p IH]; intros s q H.
  - cbn [app fold_left] in *. destruct q; cbn [all_states] in H; tauto.
  - cbn [app all_states] in H. cbn [fold_left]. apply (IH _ q). tauto.
Qed.

(* ---- qmail-local's mailfile(), when it gets the lock, is a good program ---- *)
Lemma mailfile_good entry f : bf_lock f = false -> good_prog entry (mailfile_events entry f).
Proof.
  intros Hl. split; [|split; [|intros base; split; [|split]]].
  - unfold mailfile_events. rewrite Hl.
    destruct (bf_open f), (bf_write f), (bf_read f), (bf_fsync f); cbn; auto.
  - unfold mailfile_events. rewrite Hl.
    destruct (bf_open f), (bf_write f), (bf_read f), (bf_fsync f); cbn; auto; discriminate.
  - assert (T : forall d, firstn (length base) (base ++ d) = base).
    { intros d. rewrite firstn_app, Nat.sub_diag, firstn_all. cbn. apply app_nil_r. }
    assert (K0 : exists k : nat, base = base ++ firstn k entry) by (exists 0%nat; cbn; rewrite app_nil_r; reflexivity).
    assert (KA : exists k : nat, base ++ entry = base ++ firstn k entry) by (exists (length entry); rewrite firstn_all; reflexivity).
    unfold mailfile_events. rewrite Hl.
    destruct (bf_open f), (bf_write f), (bf_read f), (bf_fsync f);
      cbn [all_states bstep negb app fst snd]; rewrite ?T; repeat split; eauto.
  - apply mailfile_success_l.
  - intros c Hc Hn. exact (mailfile_rollback_l base entry f c Hl Hc Hn).
Qed.

Lemma nth_error_map' {A B} (f : A -> B) l : forall i, nth_error (map f l) i = option_map f (nth_error l i).
Proof. induction l as [|h t IH]; intros [|i]; cbn; auto. Qed.

Lemma committed_frame ws i w' order :
  (In i order -> exit0 (upd ws i w') i = exit0 ws i) ->
  filter (exit0 (upd ws i w')) order = filter (exit0 ws) order.
Proof.
  intros H. apply filter_ext_in. intros j Hj. destruct (Nat.eq_dec j i) as [->|Hne]; [auto|].
  unfold exit0, wexit. rewrite upd_other by exact Hne. reflexivity.
Qed.
Lemma exit0_upd ws i w w' : nth_error ws i = Some w ->
  exit0 (upd ws i w') i = match bexit (w_done w') with Some 0 => true | _ => false end.
Proof. intros H. unfold exit0, wexit. rewrite (upd_same _ _ _ _ H). reflexivity. Qed.
Lemma exit0_at ws i w : nth_error ws i = Some w ->
  exit0 ws i = match bexit (w_done w) with Some 0 => true | _ => false end.
Proof. intros H. unfold exit0, wexit. rewrite H. reflexivity. Qed.

Section Conc.
Variable old : bytes.
Variable spec : list (bytes * list bev).     (* writer i: the entry it delivers and its program *)
Hypothesis spec_good : Forall (fun ep => good_prog (fst ep) (snd ep)) spec.

Definition ent (i : nat) : bytes := fst (nth i spec ([], [])).
Definition prog (i : nat) : list bev := snd (nth i spec ([], [])).
Definition base (s : cstate) : bytes := old ++ concat (map ent (committed s)).

Record Inv (s : cstate) : Prop := {
  inv_len : length (c_ws s) = length spec;
  inv_w : forall i w, nth_error (c_ws s) i = Some w ->
      w_done w ++ w_evs w = prog i /\
      (phase_of (w_done w) = Hold <-> c_lock s = Some i) /\
      (In i (c_order s) <-> phase_of (w_done w) = Hold \/ phase_of (w_done w) = DoneL) /\
      (phase_of (w_done w) = Pre -> w_pos w = 0%nat);
  inv_nodup : NoDup (c_order s);
  inv_last : forall h, c_lock s = Some h -> exists o, c_order s = o ++ [h];
  inv_file : match c_lock s with
             | None => c_file s = base s
             | Some h => exists w, nth_error (c_ws s) h = Some w /\
                          (c_file s, w_pos w) = fold_left bstep (w_done w) (base s, 0%nat)
             end }.

Lemma good_at i : (i < length spec)%nat -> good_prog (ent i) (prog i).
Proof.
  intros H. unfold ent, prog.
  exact (proj1 (Forall_forall _ _) spec_good _ (nth_In spec ([], []) H)).
Qed.

Lemma Inv_init : Inv (cinit old (map snd spec)).
Proof.
  constructor; cbn [cinit c_file c_lock c_order c_ws].
  - rewrite !map_length. reflexivity.
  - intros i w H. rewrite nth_error_map', nth_error_map' in H.
    destruct (nth_error spec i) as [ep|] eqn:E; [|discriminate]. cbn in H. injection H as <-.
    cbn [w_done w_evs w_pos app]. unfold prog. rewrite (nth_error_nth _ _ _ E).
    repeat split; try discriminate; try (intros []; discriminate); try contradiction; auto.
  - constructor.
  - discriminate.
  - unfold base, committed. cbn. rewrite app_nil_r. reflexivity.
Qed.

(* a step that neither takes nor releases the lock nor exits *)
Lemma Inv_quiet s i w e rest :
  Inv s -> nth_error (c_ws s) i = Some w -> w_evs w = e :: rest ->
  phase_of (w_done w) = Pre \/ phase_of (w_done w) = Hold ->
  pstep (phase_of (w_done w)) e = phase_of (w_done w) ->
  Inv {| c_file := fst (bstep (c_file s, w_pos w) e); c_lock := c_lock s; c_order := c_order s;
         c_ws := upd (c_ws s) i {| w_done := w_done w ++ [e]; w_evs := rest;
                                   w_pos := snd (bstep (c_file s, w_pos w) e) |} |}.
Proof.
  intros I Hw Hev Hph Hst.
  destruct (inv_w s I i w Hw) as (Wp & Wh & Wo & Wz).
  assert (Hne : bexit (w_done w ++ [e]) = bexit (w_done w)).
  { rewrite bexit_snoc. destruct e; try reflexivity.
    destruct Hph as [P|P]; rewrite P in Hst; discriminate. }
  assert (Hb : forall o, filter (exit0 (upd (c_ws s) i {| w_done := w_done w ++ [e]; w_evs := rest;
                 w_pos := snd (bstep (c_file s, w_pos w) e) |})) o = filter (exit0 (c_ws s)) o).
  { intros o. apply committed_frame. intros _. rewrite (exit0_upd _ _ _ _ Hw), (exit0_at _ _ _ Hw).
    cbn [w_done]. rewrite Hne. reflexivity. }
  constructor; cbn [c_file c_lock c_order c_ws].
  - rewrite upd_length. exact (inv_len s I).
  - intros j wj Hj. destruct (Nat.eq_dec j i) as [->|Hji].
    + rewrite (upd_same _ _ _ _ Hw) in Hj. injection Hj as <-. cbn [w_done w_evs w_pos].
      rewrite phase_snoc, Hst. repeat split; try tauto.
      * rewrite <- app_assoc. cbn [app]. rewrite <- Hev. exact Wp.
      * intros P. rewrite P in Hst.
        destruct e as [b|[|]| | | | |c]; cbn in Hst; try discriminate.
        cbn [bstep snd]. exact (Wz P).
    + rewrite upd_other in Hj by exact Hji. exact (inv_w s I j wj Hj).
  - exact (inv_nodup s I).
  - exact (inv_last s I).
  - pose proof (inv_file s I) as F. unfold base, committed in *. cbn [c_ws c_order]. rewrite Hb.
    destruct (c_lock s) as [h|] eqn:L.
    + destruct F as (w0 & Hw0 & F). destruct (Nat.eq_dec h i) as [->|Hhi].
      * rewrite Hw in Hw0. injection Hw0 as <-.
        eexists. split; [apply (upd_same _ _ _ _ Hw)|]. cbn [w_done w_pos].
        rewrite fold_left_app. cbn [fold_left]. rewrite <- F. symmetry. apply surjective_pairing.
      * exists w0. rewrite upd_other by exact Hhi. split; [exact Hw0|].
        assert (P : phase_of (w_done w) = Pre).
        { destruct Hph as [P|P]; [exact P|]. apply Wh in P. congruence. }
        rewrite P in Hst. destruct e as [b|[|]| | | | |c]; cbn in Hst; try discriminate.
        cbn [bstep fst]. exact F.
    + assert (P : phase_of (w_done w) = Pre).
      { destruct Hph as [P|P]; [exact P|]. apply Wh in P. congruence. }
      rewrite P in Hst. destruct e as [b|[|]| | | | |c]; cbn in Hst; try discriminate.
      cbn [bstep fst]. exact F.
Qed.

(* taking the free lock *)
Lemma Inv_lock s i w rest :
  Inv s -> nth_error (c_ws s) i = Some w -> w_evs w = BLock true :: rest ->
  phase_of (w_done w) = Pre -> c_lock s = None ->
  Inv {| c_file := c_file s; c_lock := Some i; c_order := c_order s ++ [i];
         c_ws := upd (c_ws s) i {| w_done := w_done w ++ [BLock true]; w_evs := rest; w_pos := w_pos w |} |}.
Proof.
  intros I Hw Hev P L.
  destruct (inv_w s I i w Hw) as (Wp & Wh & Wo & Wz).
  assert (Hni : ~ In i (c_order s)).
  { intros H. apply Wo in H. rewrite P in H. destruct H; discriminate. }
  constructor; cbn [c_file c_lock c_order c_ws].
  - rewrite upd_length. exact (inv_len s I).
  - intros j wj Hj. destruct (Nat.eq_dec j i) as [->|Hji].
    + rewrite (upd_same _ _ _ _ Hw) in Hj. injection Hj as <-. cbn [w_done w_evs w_pos].
      rewrite phase_snoc, P. cbn [pstep]. repeat split; try tauto; try discriminate.
      * rewrite <- app_assoc. cbn [app]. rewrite <- Hev. exact Wp.
      * intros _. apply in_or_app. right. left. reflexivity.
    + rewrite upd_other in Hj by exact Hji.
      destruct (inv_w s I j wj Hj) as (Vp & Vh & Vo & Vz). rewrite L in Vh.
      repeat split; try tauto.
      * intros H. apply Vh in H. discriminate.
      * intros H. injection H as ->. contradiction.
      * intros H. apply in_app_or in H as [H|[H|[]]]; [tauto|]. subst. contradiction.
      * intros H. apply in_or_app. left. tauto.
  - apply (Permutation_NoDup (Permutation_cons_append (c_order s) i)).
    constructor; [exact Hni|exact (inv_nodup s I)].
  - intros h H. injection H as <-. eexists. reflexivity.
  - eexists. split; [apply (upd_same _ _ _ _ Hw)|]. cbn [w_done w_pos].
    pose proof (inv_file s I) as F. rewrite L in F.
    unfold base, committed in *. cbn [c_ws c_order].
    rewrite filter_app, committed_frame by (intros; contradiction).
    cbn [filter]. rewrite (exit0_upd _ _ _ _ Hw). cbn [w_done].
    rewrite bexit_snoc, (phase_noexit (w_done w)) by (left; exact P).
    rewrite app_nil_r, fold_left_app. cbn [fold_left].
    rewrite (phase_pre_id _ P). cbn [bstep]. rewrite (Wz P), F. reflexivity.
Qed.

(* exit of a writer that never held the lock (open failure) *)
Lemma Inv_exit_pre s i w c rest :
  Inv s -> nth_error (c_ws s) i = Some w -> w_evs w = BExit c :: rest ->
  phase_of (w_done w) = Pre ->
  Inv {| c_file := c_file s;
         c_lock := match c_lock s with Some h => if Nat.eqb h i then None else Some h | None => None end;
         c_order := c_order s;
         c_ws := upd (c_ws s) i {| w_done := w_done w ++ [BExit c]; w_evs := rest; w_pos := w_pos w |} |}.
Proof.
  intros I Hw Hev P.
  destruct (inv_w s I i w Hw) as (Wp & Wh & Wo & Wz).
  assert (Hni : ~ In i (c_order s)).
  { intros H. apply Wo in H. rewrite P in H. destruct H; discriminate. }
  assert (Hl : c_lock s <> Some i).
  { intros H. apply Wh in H. congruence. }
  assert (L : match c_lock s with Some h => if Nat.eqb h i then None else Some h | None => None end = c_lock s).
  { destruct (c_lock s) as [h|]; [|reflexivity]. destruct (Nat.eqb_spec h i) as [->|]; [contradiction|reflexivity]. }
  rewrite L.
  constructor; cbn [c_file c_lock c_order c_ws].
  - rewrite upd_length. exact (inv_len s I).
  - intros j wj Hj. destruct (Nat.eq_dec j i) as [->|Hji].
    + rewrite (upd_same _ _ _ _ Hw) in Hj. injection Hj as <-. cbn [w_done w_evs w_pos].
      rewrite phase_snoc, P. cbn [pstep]. repeat split; try tauto; try discriminate.
      * rewrite <- app_assoc. cbn [app]. rewrite <- Hev. exact Wp.
      * intros [H|H]; discriminate.
    + rewrite upd_other in Hj by exact Hji. exact (inv_w s I j wj Hj).
  - exact (inv_nodup s I).
  - exact (inv_last s I).
  - pose proof (inv_file s I) as F. unfold base, committed in *. cbn [c_ws c_order].
    rewrite committed_frame by (intros; contradiction).
    destruct (c_lock s) as [h|]; [|exact F].
    destruct F as (w0 & Hw0 & F). exists w0. rewrite upd_other by congruence. auto.
Qed.

(* exit of the lock holder: the single-writer theorems decide what is left in the file *)
Lemma Inv_exit_hold s i w c rest :
  Inv s -> nth_error (c_ws s) i = Some w -> w_evs w = BExit c :: rest ->
  phase_of (w_done w) = Hold ->
  Inv {| c_file := c_file s;
         c_lock := match c_lock s with Some h => if Nat.eqb h i then None else Some h | None => None end;
         c_order := c_order s;
         c_ws := upd (c_ws s) i {| w_done := w_done w ++ [BExit c]; w_evs := rest; w_pos := w_pos w |} |}.
Proof.
  intros I Hw Hev P.
  destruct (inv_w s I i w Hw) as (Wp & Wh & Wo & Wz).
  assert (L : c_lock s = Some i) by (apply Wh; exact P).
  assert (Hi : (i < length spec)%nat).
  { rewrite <- (inv_len s I). apply nth_error_Some. congruence. }
  destruct (good_at i Hi) as (Gph & Gx0 & Gb).
  assert (Hr : rest = []).
  { rewrite <- Wp, Hev in Gph. unfold phase_of in Gph. rewrite fold_left_app in Gph. cbn [fold_left] in Gph.
    fold (phase_of (w_done w)) in Gph. rewrite P in Gph. cbn [pstep] in Gph.
    apply (pstep_done rest DoneL); auto. }
  subst rest.
  assert (Ep : prog i = w_done w ++ [BExit c]) by (rewrite <- Wp, Hev; reflexivity).
  destruct (inv_last s I i L) as (o & Ho).
  pose proof (inv_nodup s I) as ND. rewrite Ho in ND.
  assert (Hio : ~ In i o).
  { apply NoDup_remove_2 in ND. rewrite app_nil_r in ND. exact ND. }
  rewrite L, Nat.eqb_refl.
  constructor; cbn [c_file c_lock c_order c_ws].
  - rewrite upd_length. exact (inv_len s I).
  - intros j wj Hj. destruct (Nat.eq_dec j i) as [->|Hji].
    + rewrite (upd_same _ _ _ _ Hw) in Hj. injection Hj as <-. cbn [w_done w_evs w_pos].
      rewrite phase_snoc, P. cbn [pstep]. repeat split; try tauto; try discriminate.
      * rewrite app_nil_r. symmetry. exact Ep.
    + rewrite upd_other in Hj by exact Hji.
      destruct (inv_w s I j wj Hj) as (Vp & Vh & Vo & Vz). rewrite L in Vh.
      repeat split; try tauto; try discriminate.
      intros H. apply Vh in H. congruence.
  - exact ND || (rewrite Ho; exact ND).
  - discriminate.
  - pose proof (inv_file s I) as F. rewrite L in F. destruct F as (w0 & Hw0 & F).
    rewrite Hw in Hw0. injection Hw0 as <-.
    unfold base, committed in *. cbn [c_ws c_order]. rewrite Ho in *.
    rewrite filter_app in F. rewrite filter_app, committed_frame by (intros; contradiction).
    cbn [filter] in *. rewrite (exit0_upd _ _ _ _ Hw). rewrite (exit0_at _ _ _ Hw) in F.
    cbn [w_done]. rewrite bexit_snoc. rewrite (phase_noexit (w_done w)) in F by (right; exact P).
    rewrite app_nil_r in F.
    set (b0 := old ++ concat (map ent (filter (exit0 (c_ws s)) o))) in *.
    assert (Hrun : c_file s = brun b0 (prog i)).
    { unfold brun. rewrite Ep, fold_left_app. cbn [fold_left bstep]. rewrite <- F. reflexivity. }
    assert (Hex : bexit (prog i) = Some c) by (rewrite Ep, bexit_snoc; reflexivity).
    destruct (Gb b0) as (_ & G0 & G1).
    destruct (N.eq_dec c 0) as [->|Hc].
    + cbn. rewrite map_app, concat_app. cbn [map concat]. rewrite app_nil_r, app_assoc.
      fold b0. rewrite Hrun. apply G0. exact Hex.
    + destruct c as [|pc]; [contradiction|]. rewrite app_nil_r. fold b0. rewrite Hrun.
      apply (G1 _ Hex). discriminate.
Qed.

Lemma Inv_step s i : Inv s -> Inv (cstep s i).
Proof.
  intros I. unfold cstep.
  destruct (nth_error (c_ws s) i) as [w|] eqn:Hw; [|exact I].
  destruct (w_evs w) as [|e rest] eqn:Hev; [exact I|].
  destruct (inv_w s I i w Hw) as (Wp & Wh & Wo & Wz).
  assert (Hi : (i < length spec)%nat).
  { rewrite <- (inv_len s I). apply nth_error_Some. congruence. }
  destruct (good_at i Hi) as (Gph & _ & _).
  rewrite <- Wp, Hev in Gph. unfold phase_of in Gph. rewrite fold_left_app in Gph. cbn [fold_left] in Gph.
  fold (phase_of (w_done w)) in Gph.
  assert (Hnb : pstep (phase_of (w_done w)) e <> Bad).
  { intros B. rewrite B, pstep_bad in Gph. destruct Gph; discriminate. }
  destruct (phase_of (w_done w)) eqn:P; destruct e as [b|[|]| | | | |c]; cbn [pstep] in Hnb;
    try (exfalso; apply Hnb; reflexivity).
  - apply (Inv_quiet s i w _ rest I Hw Hev); rewrite P; auto.
  - destruct (c_lock s) eqn:L; [exact I|]. apply (Inv_lock s i w rest I Hw Hev P L).
  - apply (Inv_exit_pre s i w c rest I Hw Hev P).
  - apply (Inv_quiet s i w _ rest I Hw Hev); rewrite P; auto.
  - apply (Inv_quiet s i w _ rest I Hw Hev); rewrite P; auto.
  - apply (Inv_quiet s i w _ rest I Hw Hev); rewrite P; auto.
  - apply (Inv_quiet s i w _ rest I Hw Hev); rewrite P; auto.
  - apply (Inv_exit_hold s i w c rest I Hw Hev P).
Qed.

Lemma Inv_run sched : forall s, Inv s -> Inv (crun s sched).
Proof.
  induction sched as [|i sched IH]; intros s I; [exact I|].
  cbn [crun fold_left]. apply IH. apply Inv_step. exact I.
Qed.

Definition start : cstate := cinit old (map snd spec).

(* Serialisability, at every reachable state: the file is the old content, then the whole entries of
   the writers that completed successfully, in lock order, then a prefix of the lock holder's entry. *)
Theorem conc_no_interleaving_gen : forall sched,
  let s := crun start sched in
  exists k : nat,
    c_file s = old ++ concat (map ent (committed s)) ++
               match c_lock s with None => [] | Some h => firstn k (ent h) end.
Proof.
  intros sched s. pose proof (Inv_run sched start Inv_init) as I. fold s in I.
  pose proof (inv_file s I) as F. destruct (c_lock s) as [h|] eqn:L.
  - destruct F as (w & Hw & F).
    destruct (inv_w s I h w Hw) as (Wp & _).
    assert (Hh : (h < length spec)%nat).
    { rewrite <- (inv_len s I). apply nth_error_Some. congruence. }
    destruct (good_at h Hh) as (_ & _ & Gb). destruct (Gb (base s)) as (GA & _).
    rewrite <- Wp in GA. apply all_states_at in GA. rewrite <- F in GA. destruct GA as (k & Hk).
    exists k. cbn [fst] in Hk. rewrite Hk. unfold base. rewrite <- app_assoc. reflexivity.
  - exists 0%nat. rewrite app_nil_r. exact F.
Qed.

(* the bookkeeping of the lock: acquisition order has no repetition, the holder is its last element,
   has not exited, and is not (yet) counted as committed *)
Theorem conc_lock_order_gen : forall sched,
  let s := crun start sched in
  NoDup (c_order s) /\
  forall h, c_lock s = Some h ->
    (exists o, c_order s = o ++ [h]) /\ wexit (c_ws s) h = None /\ ~ In h (committed s).
Proof.
  intros sched s. pose proof (Inv_run sched start Inv_init) as I. fold s in I.
  split; [exact (inv_nodup s I)|]. intros h L.
  pose proof (inv_file s I) as F. rewrite L in F. destruct F as (w & Hw & _).
  destruct (inv_w s I h w Hw) as (_ & Wh & _).
  assert (X : wexit (c_ws s) h = None).
  { unfold wexit. rewrite Hw. apply phase_noexit. right. apply Wh. exact L. }
  split; [exact (inv_last s I h L)|]. split; [exact X|].
  unfold committed. intros H. apply filter_In in H as [_ H]. unfold exit0 in H. rewrite X in H. discriminate.
Qed.

(* when everybody has finished: nobody holds the lock, and the file is the old content followed by
   the entries of exactly the writers that exited 0, each once, in the order they took the lock;
   a writer that exited non-zero contributes nothing *)
Theorem conc_finished_gen : forall sched,
  let s := crun start sched in
  all_finished s ->
  c_lock s = None /\
  c_file s = old ++ concat (map ent (committed s)) /\
  NoDup (committed s) /\
  forall i, In i (committed s) <-> wexit (c_ws s) i = Some 0.
Proof.
  intros sched s Fin. pose proof (Inv_run sched start Inv_init) as I. fold s in I.
  assert (Hdone : forall i w, nth_error (c_ws s) i = Some w ->
            w_done w = prog i /\ (phase_of (prog i) = DoneL \/ phase_of (prog i) = DoneN)).
  { intros i w Hw. destruct (inv_w s I i w Hw) as (Wp & _).
    rewrite (Fin w (nth_error_In _ _ Hw)), app_nil_r in Wp. split; [exact Wp|].
    assert (Hi : (i < length spec)%nat).
    { rewrite <- (inv_len s I). apply nth_error_Some. congruence. }
    exact (proj1 (good_at i Hi)). }
  assert (L : c_lock s = None).
  { destruct (c_lock s) as [h|] eqn:L; [|reflexivity]. exfalso.
    pose proof (inv_file s I) as F. rewrite L in F. destruct F as (w & Hw & _).
    destruct (inv_w s I h w Hw) as (_ & Wh & _). apply Wh in L.
    destruct (Hdone h w Hw) as (E & D). rewrite E in L. rewrite L in D. destruct D; discriminate. }
  split; [exact L|]. split.
  - pose proof (inv_file s I) as F. rewrite L in F. exact F.
  - split; [apply NoDup_filter; exact (inv_nodup s I)|].
    intros i. unfold committed. rewrite filter_In. unfold exit0. split.
    + intros [_ H]. destruct (wexit (c_ws s) i) as [[|p]|]; try discriminate. reflexivity.
    + intros H. rewrite H. split; [|reflexivity].
      unfold wexit in H. destruct (nth_error (c_ws s) i) as [w|] eqn:Hw; [|discriminate].
      destruct (inv_w s I i w Hw) as (_ & _ & Wo & _). apply Wo. right.
      destruct (Hdone i w Hw) as (E & _). rewrite E in *.
      assert (Hi : (i < length spec)%nat).
      { rewrite <- (inv_len s I). apply nth_error_Some. congruence. }
      destruct (good_at i Hi) as (_ & G0 & _). exact (G0 H).
Qed.

End Conc.

(* ---- instance: n copies of qmail-local's mailfile(), each with its own entry and fault plan ---- *)
Definition mprogs (l : list (bytes * bfaults)) : list (list bev) :=
  map (fun ef => mailfile_events (fst ef) (snd ef)) l.
Definition mspec (l : list (bytes * bfaults)) : list (bytes * list bev) :=
  map (fun ef => (fst ef, mailfile_events (fst ef) (snd ef))) l.
Definition entry_of (l : list (bytes * bfaults)) (i : nat) : bytes := nth i (map fst l) [].
Definition mstart (old : bytes) (l : list (bytes * bfaults)) : cstate := cinit old (mprogs l).

Lemma mspec_progs l : map snd (mspec l) = mprogs l.
Proof. unfold mspec, mprogs. rewrite map_map. reflexivity. Qed.
Lemma mspec_ent l : forall i, ent (mspec l) i = entry_of l i.
Proof.
  unfold ent, entry_of. induction l as [|ef l IH]; intros [|i]; cbn [mspec map nth fst]; auto.
Qed.
Lemma mspec_good l : Forall (fun ef => bf_lock (snd ef) = false) l ->
  Forall (fun ep => good_prog (fst ep) (snd ep)) (mspec l).
Proof.
  intros H. unfold mspec. apply Forall_forall. intros ep Hin.
  apply in_map_iff in Hin as (ef & <- & Hin). cbn [fst snd].
  apply mailfile_good. exact (proj1 (Forall_forall _ _) H ef Hin).
Qed.

Theorem mbox_concurrent_no_interleaving : forall old l sched,
  Forall (fun ef => bf_lock (snd ef) = false) l ->
  let s := crun (mstart old l) sched in
  exists k : nat,
    c_file s = old ++ concat (map (entry_of l) (committed s)) ++
               match c_lock s with None => [] | Some h => firstn k (entry_of l h) end.
Proof.
  intros old l sched Hl s.
  destruct (conc_no_interleaving_gen old (mspec l) (mspec_good l Hl) sched) as (k & Hk).
  unfold start in Hk. rewrite mspec_progs in Hk. fold (mstart old l) in Hk. fold s in Hk.
  exists k. rewrite Hk. rewrite (map_ext _ _ (mspec_ent l)).
  destruct (c_lock s); [rewrite mspec_ent|]; reflexivity.
Qed.
Print Assumptions mbox_concurrent_no_interleaving.

Theorem mbox_concurrent_lock_order : forall old l sched,
  Forall (fun ef => bf_lock (snd ef) = false) l ->
  let s := crun (mstart old l) sched in
  NoDup (c_order s) /\
  forall h, c_lock s = Some h ->
    (exists o, c_order s = o ++ [h]) /\ wexit (c_ws s) h = None /\ ~ In h (committed s).
Proof.
  intros old l sched Hl s.
  pose proof (conc_lock_order_gen old (mspec l) (mspec_good l Hl) sched) as H.
  unfold start in H. rewrite mspec_progs in H. exact H.
Qed.
Print Assumptions mbox_concurrent_lock_order.

Theorem mbox_concurrent_finished : forall old l sched,
  Forall (fun ef => bf_lock (snd ef) = false) l ->
  let s := crun (mstart old l) sched in
  all_finished s ->
  c_lock s = None /\
  c_file s = old ++ concat (map (entry_of l) (committed s)) /\
  NoDup (committed s) /\
  forall i, In i (committed s) <-> wexit (c_ws s) i = Some 0.
Proof.
  intros old l sched Hl s Fin.
  pose proof (conc_finished_gen old (mspec l) (mspec_good l Hl) sched) as H.
  unfold start in H. rewrite mspec_progs in H. specialize (H Fin).
  rewrite (map_ext _ _ (mspec_ent l)) in H. exact H.
Qed.
Print Assumptions mbox_concurrent_finished.

Definition all_finishedb (s : cstate) : bool :=
  forallb (fun w => match w_evs w with [] => true | _ => false end) (c_ws s).
Lemma all_finishedb_ok s : all_finishedb s = true -> all_finished s.
Proof.
  unfold all_finishedb, all_finished. intros H w Hin.
  pose proof (proj1 (forallb_forall _ _) H w Hin) as E. cbv beta in E. destruct (w_evs w); [reflexivity|discriminate].
Qed.

(* ---- non-vacuity: three writers, the second one hits a write error after 2 of its 3 bytes ---- *)
Definition bf_none : bfaults :=
  {| bf_open := false; bf_lock := false; bf_write := None; bf_read := None; bf_fsync := false |}.
Definition bf_wfail (n : nat) : bfaults :=
  {| bf_open := false; bf_lock := false; bf_write := Some n; bf_read := None; bf_fsync := false |}.
Definition ex3 : list (bytes * bfaults) := [([1; 2], bf_none); ([3; 4; 5], bf_wfail 2); ([6; 7], bf_none)].
Definition ex3_sched : list nat :=
  [0; 1; 2; 1; 1; 0; 2; 1; 1; 0; 2; 1; 1; 2; 2; 0; 2; 0; 2; 0; 2; 0; 0; 0; 0; 0]%nat.
(* what one can observe of a state: file, lock holder, lock order, committed, exit codes, events left *)
Definition cview (s : cstate) :=
  (c_file s, c_lock s, c_order s, committed s,
   map (fun w => bexit (w_done w)) (c_ws s), map (fun w => length (w_evs w)) (c_ws s)).

(* writer 1 got the lock first; writers 0 and 2 are stalled on it; 2 bytes of writer 1 are in the file *)
Example conc_ex3_mid :
  cview (crun (mstart [9] ex3) (firstn 8 ex3_sched)) =
  ([9; 3; 4], Some 1%nat, [1%nat], [], [None; None; None], [5; 2; 5]%nat).
Proof. vm_compute. reflexivity. Qed.
(* writer 1 has rolled back and exited 111; writer 2 holds the lock and has written its entry *)
Example conc_ex3_mid2 :
  cview (crun (mstart [9] ex3) (firstn 17 ex3_sched)) =
  ([9; 6; 7], Some 2%nat, [1; 2]%nat, [], [None; Some 111; None], [5; 0; 2]%nat).
Proof. vm_compute. reflexivity. Qed.
(* the end: lock order 1,2,0; the file holds old, entry 2, entry 0; nothing of writer 1 *)
Example conc_ex3_final :
  cview (crun (mstart [9] ex3) ex3_sched) =
  ([9; 6; 7; 1; 2], None, [1; 2; 0]%nat, [2; 0]%nat, [Some 0; Some 111; Some 0], [0; 0; 0]%nat).
Proof. vm_compute. reflexivity. Qed.
Example conc_ex3_finished : all_finished (crun (mstart [9] ex3) ex3_sched).
Proof. apply all_finishedb_ok. vm_compute. reflexivity. Qed.

(* ---- the lock is needed.  Two writers whose lock_ex() failed (qmail-local carries on without the
   lock, flaglocked = 0, and then skips seek_trunc): the second fails after 1 byte.  Its stray byte
   stays, and here it lands in front of the other, successful entry.  So without the hypothesis
   bf_lock = false the finished-state equation is false. ---- *)
Definition bf_nolock (wr : option nat) : bfaults :=
  {| bf_open := false; bf_lock := true; bf_write := wr; bf_read := None; bf_fsync := false |}.
Definition ex2_nolock : list (bytes * bfaults) := [([1; 2], bf_nolock None); ([3; 4], bf_nolock (Some 1%nat))].
Definition ex2_sched : list nat := [0; 1; 0; 1; 0; 1; 1; 0; 0; 1; 0; 1; 0; 1]%nat.
Example mbox_concurrent_without_lock_refuted :
  let s := crun (mstart [9] ex2_nolock) ex2_sched in
  all_finished s /\
  map (fun w => bexit (w_done w)) (c_ws s) = [Some 0; Some 111] /\
  c_file s = [9; 3; 1; 2] /\
  c_file s <> [9] ++ concat (map (entry_of ex2_nolock) (committed s)) /\
  c_file s <> [9] ++ entry_of ex2_nolock 0.
Proof.
  cbv zeta. split; [apply all_finishedb_ok; vm_compute; reflexivity|].
  vm_compute. repeat split; discriminate.
Qed.
Example mbox_concurrent_finished_without_lock_refuted :
  ~ (forall old l sched, let s := crun (mstart old l) sched in
       all_finished s -> c_file s = old ++ concat (map (entry_of l) (committed s))).
Proof.
  intros H. specialize (H [9] ex2_nolock ex2_sched).
  pose proof mbox_concurrent_without_lock_refuted as (F & _ & _ & N & _). exact (N (H F)).
Qed.

(* ================================================================== B. maildir, n deliveries *)
(* One shared maildir.  Directory entries tmp/NAME and new/NAME point to inodes; an inode has the bytes
   written so far and how many of them are fsynced.  Inode numbers are never reused.  Each delivery
   has its own NAME (time.pid.host), and, once open_excl succeeded, its own file descriptor. *)
Record inode := { i_data : bytes; i_synced : nat }.
Record mdir := { d_tmp : nat -> option nat;     (* tmp/name -> inode number *)
                 d_new : nat -> option nat;     (* new/name -> inode number *)
                 d_ino : nat -> inode;
                 d_next : nat }.                (* next unused inode number *)
Definition fset {A} (f : nat -> A) (x : nat) (v : A) : nat -> A := fun y => if Nat.eqb y x then v else f y.
Definition isSome {A} (o : option A) : bool := match o with Some _ => true | None => false end.

Record mwriter := { mw_name : nat; mw_fd : option nat;      (* inode behind this process's fd *)
                    mw_done : list mev;                     (* ghost: events performed *)
                    mw_evs : list mev }.
Record mstate := { ms_dir : mdir; ms_ws : list mwriter;
                   ms_ok : bool }.   (* false once a scheduled event demanded an impossible outcome *)

(* the effect of one event of the delivery named [x], whose fd is [fd], on the shared directory.
   None = this outcome cannot happen in this directory: open_excl cannot succeed on an existing
   tmp/x; link(tmp/x,new/x) cannot succeed if tmp/x is missing or new/x exists. *)
Definition dstep (d : mdir) (x : nat) (fd : option nat) (e : mev) : option (mdir * option nat) :=
  match e with
  | MCreateTmp true =>
    match d_tmp d x with
    | Some _ => None
    | None => Some ({| d_tmp := fset (d_tmp d) x (Some (d_next d)); d_new := d_new d;
                       d_ino := fset (d_ino d) (d_next d) {| i_data := []; i_synced := 0 |};
                       d_next := S (d_next d) |}, Some (d_next d))
    end
  | MWrite data =>
    match fd with
    | Some a => Some ({| d_tmp := d_tmp d; d_new := d_new d;
                         d_ino := fset (d_ino d) a {| i_data := i_data (d_ino d a) ++ data;
                                                     i_synced := i_synced (d_ino d a) |};
                         d_next := d_next d |}, fd)
    | None => Some (d, fd)
    end
  | MFsync true =>
    match fd with
    | Some a => Some ({| d_tmp := d_tmp d; d_new := d_new d;
                         d_ino := fset (d_ino d) a {| i_data := i_data (d_ino d a);
                                                     i_synced := length (i_data (d_ino d a)) |};
                         d_next := d_next d |}, fd)
    | None => Some (d, fd)
    end
  | MLinkNew true =>
    match d_tmp d x, d_new d x with
    | Some a, None => Some ({| d_tmp := d_tmp d; d_new := fset (d_new d) x (Some a);
                               d_ino := d_ino d; d_next := d_next d |}, fd)
    | _, _ => None
    end
  | MUnlinkTmp => Some ({| d_tmp := fset (d_tmp d) x None; d_new := d_new d;
                           d_ino := d_ino d; d_next := d_next d |}, fd)
  | _ => Some (d, fd)
  end.

Definition mcstep (s : mstate) (i : nat) : mstate :=
  match nth_error (ms_ws s) i with
  | None => s
  | Some w =>
    match mw_evs w with
    | [] => s
    | e :: rest =>
      match dstep (ms_dir s) (mw_name w) (mw_fd w) e with
      | None => {| ms_dir := ms_dir s; ms_ws := ms_ws s; ms_ok := false |}
      | Some (d', fd') =>
        {| ms_dir := d';
           ms_ws := upd (ms_ws s) i {| mw_name := mw_name w; mw_fd := fd';
                                       mw_done := mw_done w ++ [e]; mw_evs := rest |};
           ms_ok := ms_ok s |}
      end
    end
  end.
Definition mcrun (s : mstate) (sched : list nat) : mstate := fold_left mcstep sched s.

(* what delivery [w] can see of its own files through the shared directory, as a single-writer state *)
Definition mproj (d : mdir) (w : mwriter) : mfs :=
  {| m_tmp := isSome (d_tmp d (mw_name w)); m_new := isSome (d_new d (mw_name w));
     m_data := match mw_fd w with Some a => i_data (d_ino d a) | None => [] end;
     m_synced := match mw_fd w with Some a => i_synced (d_ino d a) | None => 0%nat end |}.

(* single-writer discipline on its own name: create only when neither tmp/x nor new/x exists,
   link only when tmp/x exists and new/x does not, write only while tmp/x exists *)
Definition mwf1 (s : mfs) (e : mev) : bool :=
  match e with
  | MCreateTmp true => negb (m_tmp s) && negb (m_new s)
  | MLinkNew true => m_tmp s && negb (m_new s)
  | MWrite _ => m_tmp s
  | _ => true
  end.
Fixpoint mwf (s : mfs) (evs : list mev) : bool :=
  match evs with [] => true | e :: r => mwf1 s e && mwf (mstep s e) r end.

Lemma mwf_repeat s k rest : mwf s (repeat (MCreateTmp false) k ++ rest) = mwf s rest.
Proof. induction k as [|k IH]; [reflexivity|]. cbn [repeat app mwf mwf1 andb]. exact IH. Qed.
Lemma maildir_wf content f : mwf mfs0 (maildir_events content f) = true.
Proof.
  unfold maildir_events.
  destruct (mf_chdir f); [reflexivity|]. cbn [mwf mwf1 andb]. change (mstep mfs0 (MChdir true)) with mfs0.
  destruct (mf_create_err f); [reflexivity|]. rewrite mwf_repeat.
  destruct (Nat.leb 3 (mf_create_fail f)); [reflexivity|].
  destruct (mf_write f); [reflexivity|]. destruct (mf_read f); [reflexivity|].
  destruct (mf_fsync f); [reflexivity|]. destruct (mf_close f); [reflexivity|].
  destruct (mf_link f); reflexivity.
Qed.

Lemma fset_same {A} (f : nat -> A) x v : fset f x v x = v.
Proof. unfold fset. rewrite Nat.eqb_refl. reflexivity. Qed.
Lemma fset_other {A} (f : nat -> A) x v y : y <> x -> fset f x v y = f y.
Proof. unfold fset. intros H. destruct (Nat.eqb_spec y x); [contradiction|reflexivity]. Qed.

Section Maildir.
Variable d0 : mdir.                                   (* the maildir before these deliveries *)
Variable spec : list (nat * (bytes * list mev)).      (* delivery i: its name, content, program *)
Definition names : list nat := map fst spec.
Hypothesis names_nodup : NoDup names.
Hypothesis names_fresh : forall x, In x names -> d_tmp d0 x = None /\ d_new d0 x = None.
Hypothesis progs_ok : Forall (fun t => mwf mfs0 (snd (snd t)) = true /\
                                       mprefixes_ok (fst (snd t)) mfs0 (snd (snd t)) = true) spec.

Definition minit : mstate :=
  {| ms_dir := d0;
     ms_ws := map (fun t => {| mw_name := fst t; mw_fd := None; mw_done := []; mw_evs := snd (snd t) |}) spec;
     ms_ok := true |}.

Definition mrun_of (w : mwriter) : mfs := fold_left mstep (mw_done w) mfs0.

Record WInv (d : mdir) (content : bytes) (w : mwriter) : Prop := {
  wi_proj : mproj d w = mrun_of w;
  wi_tmpfd : forall a, d_tmp d (mw_name w) = Some a -> mw_fd w = Some a;
  wi_newfd : forall a, d_new d (mw_name w) = Some a -> mw_fd w = Some a;
  wi_fd : forall a, mw_fd w = Some a -> (d_next d0 <= a < d_next d)%nat;
  wi_wf : mwf (mrun_of w) (mw_evs w) = true;
  wi_pref : mprefixes_ok content (mrun_of w) (mw_evs w) = true }.

Lemma WInv_frame d d' content w :
  d_tmp d' (mw_name w) = d_tmp d (mw_name w) -> d_new d' (mw_name w) = d_new d (mw_name w) ->
  (forall a, mw_fd w = Some a -> d_ino d' a = d_ino d a) -> (d_next d <= d_next d')%nat ->
  WInv d content w -> WInv d' content w.
Proof.
  intros Ht Hn Hi Hx [P T N F W R]. constructor; auto.
  - rewrite <- P. unfold mproj. rewrite Ht, Hn. destruct (mw_fd w) as [a|]; [rewrite (Hi a eq_refl)|]; reflexivity.
  - intros a H. rewrite Ht in H. auto.
  - intros a H. rewrite Hn in H. auto.
  - intros a H. specialize (F a H). lia.
Qed.

(* one event of a delivery that satisfies its invariant: the outcome is possible, the delivery's view
   stays its own single-writer run, and nothing outside its own name and its own inode changes *)
Definition dstep_post (d : mdir) (content : bytes) (w : mwriter) (e : mev) (rest : list mev) : Prop :=
  exists d' fd',
    dstep d (mw_name w) (mw_fd w) e = Some (d', fd') /\
    WInv d' content {| mw_name := mw_name w; mw_fd := fd'; mw_done := mw_done w ++ [e]; mw_evs := rest |} /\
    (forall y, y <> mw_name w -> d_tmp d' y = d_tmp d y /\ d_new d' y = d_new d y) /\
    (forall a, mw_fd w <> Some a -> (a < d_next d)%nat -> d_ino d' a = d_ino d a) /\
    (d_next d <= d_next d')%nat /\
    (fd' = mw_fd w \/ fd' = Some (d_next d) /\ d_next d' = S (d_next d)).

Lemma dstep_spec d content w e rest :
  (d_next d0 <= d_next d)%nat ->
  WInv d content w -> mw_evs w = e :: rest -> dstep_post d content w e rest.
Proof.
  intros Hnx [P T N F W R] Hev. rewrite Hev in W, R.
  cbn [mwf] in W. apply andb_true_iff in W as [W1 W].
  cbn [mprefixes_ok] in R. apply andb_true_iff in R as [_ R].
  assert (Hrun : forall fd', mrun_of {| mw_name := mw_name w; mw_fd := fd'; mw_done := mw_done w ++ [e]; mw_evs := rest |}
                 = mstep (mrun_of w) e).
  { intros fd'. unfold mrun_of. cbn [mw_done]. rewrite fold_left_app. reflexivity. }
  assert (Triv : mstep (mrun_of w) e = mrun_of w -> dstep d (mw_name w) (mw_fd w) e = Some (d, mw_fd w) ->
                 dstep_post d content w e rest).
  { intros Hs Hd. exists d, (mw_fd w). split; [exact Hd|]. split.
    - constructor; cbn [mw_name mw_fd mw_evs]; rewrite ?Hrun, ?Hs; auto.
      all: rewrite <- Hs; assumption.
    - repeat split; auto. }
  destruct e as [b|[|]|data|[|]|b|[|]| |c]; try (apply Triv; reflexivity).
  - (* open_excl succeeds *)
    cbn [mwf1] in W1. rewrite <- P in W1. cbn [mproj m_tmp m_new] in W1.
    apply andb_true_iff in W1 as [Wt Wn].
    destruct (d_tmp d (mw_name w)) as [a|] eqn:Et; [discriminate|].
    destruct (d_new d (mw_name w)) as [a|] eqn:En; [discriminate|].
    unfold dstep_post. cbn [dstep]. rewrite Et. eexists. eexists. split; [reflexivity|]. split.
    + constructor; cbn [mw_name mw_fd mw_evs d_tmp d_new d_ino d_next]; rewrite ?Hrun; auto.
      * rewrite <- P. unfold mproj. cbn [mw_name mw_fd mstep m_tmp m_new m_data m_synced d_tmp d_new d_ino].
        rewrite !fset_same, En. reflexivity.
      * intros a H. rewrite fset_same in H. exact H.
      * intros a H. rewrite En in H. discriminate.
      * intros a H. injection H as <-. lia.
    + cbn [d_tmp d_new d_ino d_next]. repeat split; auto.
      * apply fset_other. exact H.
      * intros a _ Ha. apply fset_other. lia.
  - (* write *)
    cbn [mwf1] in W1. rewrite <- P in W1. cbn [mproj m_tmp] in W1.
    assert (Ht : exists a, d_tmp d (mw_name w) = Some a).
    { destruct (d_tmp d (mw_name w)) as [a|]; [eauto|discriminate]. }
    destruct Ht as (a & Et).
    pose proof (T a Et) as Hfd.
    unfold dstep_post. cbn [dstep]. rewrite Hfd. eexists. eexists. split; [reflexivity|]. split.
    + constructor; cbn [mw_name mw_fd mw_evs d_tmp d_new d_ino d_next]; rewrite ?Hrun; auto.
      all: try (rewrite <- Hfd; assumption).
      rewrite <- P. unfold mproj. cbn [mw_name mw_fd mstep m_tmp m_new m_data m_synced d_tmp d_new d_ino].
      rewrite Hfd, !fset_same. reflexivity.
    + cbn [d_tmp d_new d_ino d_next]. repeat split; auto.
      intros b Hb _. apply fset_other. congruence.
  - (* fsync succeeds *)
    unfold dstep_post. cbn [dstep]. destruct (mw_fd w) as [a|] eqn:Hfd.
    + eexists. eexists. split; [reflexivity|]. split.
      * constructor; cbn [mw_name mw_fd mw_evs d_tmp d_new d_ino d_next]; rewrite ?Hrun; auto.
        rewrite <- P. unfold mproj. cbn [mw_name mw_fd mstep m_tmp m_new m_data m_synced d_tmp d_new d_ino].
        rewrite Hfd, !fset_same. reflexivity.
      * cbn [d_tmp d_new d_ino d_next]. repeat split; auto.
        intros b Hb _. apply fset_other. congruence.
    + eexists. eexists. split; [reflexivity|]. split.
      * constructor; cbn [mw_name mw_fd mw_evs]; rewrite ?Hrun; auto; try (rewrite Hfd; assumption).
        rewrite <- P. unfold mproj. cbn [mw_name mw_fd mstep m_tmp m_new m_data m_synced].
        rewrite Hfd. reflexivity.
      * repeat split; auto.
  - (* link succeeds *)
    cbn [mwf1] in W1. rewrite <- P in W1. cbn [mproj m_tmp m_new] in W1.
    apply andb_true_iff in W1 as [Wt Wn].
    assert (Ht : exists a, d_tmp d (mw_name w) = Some a).
    { destruct (d_tmp d (mw_name w)) as [a|]; [eauto|discriminate]. }
    destruct Ht as (a & Et).
    assert (En : d_new d (mw_name w) = None).
    { destruct (d_new d (mw_name w)) as [a'|]; [discriminate|reflexivity]. }
    unfold dstep_post. cbn [dstep]. rewrite Et, En. eexists. eexists. split; [reflexivity|]. split.
    + constructor; cbn [mw_name mw_fd mw_evs d_tmp d_new d_ino d_next]; rewrite ?Hrun; auto.
      * rewrite <- P. unfold mproj. cbn [mw_name mw_fd mstep m_tmp m_new m_data m_synced d_tmp d_new d_ino].
        rewrite !fset_same, Et. reflexivity.
      * intros b H. rewrite fset_same in H. injection H as <-. exact (T a Et).
    + cbn [d_tmp d_new d_ino d_next]. repeat split; auto.
      apply fset_other. exact H.
  - (* unlink tmp/x *)
    unfold dstep_post. cbn [dstep]. eexists. eexists. split; [reflexivity|]. split.
    + constructor; cbn [mw_name mw_fd mw_evs d_tmp d_new d_ino d_next]; rewrite ?Hrun; auto.
      * rewrite <- P. unfold mproj. cbn [mw_name mw_fd mstep m_tmp m_new m_data m_synced d_tmp d_new d_ino].
        rewrite !fset_same. reflexivity.
      * intros b H. rewrite fset_same in H. discriminate.
    + cbn [d_tmp d_new d_ino d_next]. repeat split; auto.
      apply fset_other. exact H.
Qed.

Record MInv (s : mstate) : Prop := {
  mi_len : length (ms_ws s) = length spec;
  mi_w : forall i w t, nth_error (ms_ws s) i = Some w -> nth_error spec i = Some t ->
           mw_name w = fst t /\ WInv (ms_dir s) (fst (snd t)) w;
  mi_fds : forall i j wi wj a, nth_error (ms_ws s) i = Some wi -> nth_error (ms_ws s) j = Some wj ->
           mw_fd wi = Some a -> mw_fd wj = Some a -> i = j;
  mi_foreign : forall y, ~ In y names ->
           d_tmp (ms_dir s) y = d_tmp d0 y /\ d_new (ms_dir s) y = d_new d0 y;
  mi_old : forall a, (a < d_next d0)%nat -> d_ino (ms_dir s) a = d_ino d0 a;
  mi_next : (d_next d0 <= d_next (ms_dir s))%nat;
  mi_ok : ms_ok s = true }.

Lemma names_distinct i j ti tj :
  nth_error spec i = Some ti -> nth_error spec j = Some tj -> fst ti = fst tj -> i = j.
Proof.
  intros Hi Hj E. apply (proj1 (NoDup_nth_error names) names_nodup).
  - unfold names. rewrite map_length. apply nth_error_Some. congruence.
  - unfold names. rewrite !nth_error_map', Hi, Hj. cbn. congruence.
Qed.
Lemma spec_at s i w : MInv s -> nth_error (ms_ws s) i = Some w -> exists t, nth_error spec i = Some t.
Proof.
  intros I Hw. destruct (nth_error spec i) as [t|] eqn:E; [eauto|]. exfalso.
  apply nth_error_None in E. rewrite <- (mi_len s I) in E.
  assert (nth_error (ms_ws s) i <> None) by congruence. apply nth_error_Some in H. lia.
Qed.

Lemma MInv_init : MInv minit.
Proof.
  constructor; cbn [minit ms_dir ms_ws ms_ok]; auto.
  - apply map_length.
  - intros i w t Hw Ht. rewrite nth_error_map', Ht in Hw. cbn in Hw. injection Hw as <-.
    cbn [mw_name]. split; [reflexivity|].
    assert (Hin : In t spec) by exact (nth_error_In _ _ Ht).
    destruct (names_fresh (fst t) (in_map fst _ _ Hin)) as (Ft & Fn).
    destruct (proj1 (Forall_forall _ _) progs_ok t Hin) as (Pw & Pp).
    constructor; unfold mrun_of; cbn [mw_name mw_fd mw_done mw_evs fold_left]; auto; try discriminate.
    + unfold mproj. cbn [mw_name mw_fd]. rewrite Ft, Fn. reflexivity.
    + intros a H. rewrite Ft in H. discriminate.
    + intros a H. rewrite Fn in H. discriminate.
  - intros i j wi wj a Hi _ Hf. rewrite nth_error_map' in Hi.
    destruct (nth_error spec i); [|discriminate]. cbn in Hi. injection Hi as <-. discriminate.
Qed.

Lemma MInv_step s i : MInv s -> MInv (mcstep s i).
Proof.
  intros I. unfold mcstep.
  destruct (nth_error (ms_ws s) i) as [w|] eqn:Hw; [|exact I].
  destruct (mw_evs w) as [|e rest] eqn:Hev; [exact I|].
  destruct (spec_at s i w I Hw) as (t & Ht).
  destruct (mi_w s I i w t Hw Ht) as (Hname & HW).
  destruct (dstep_spec _ _ w e rest (mi_next s I) HW Hev) as (d' & fd' & Hd & HW' & Hframe & Hino & Hnext & Hfd').
  rewrite Hd.
  assert (Hother : forall j wj, j <> i -> nth_error (ms_ws s) j = Some wj ->
            mw_name wj <> mw_name w /\ (forall a, mw_fd wj = Some a -> mw_fd w <> Some a /\ (a < d_next (ms_dir s))%nat)).
  { intros j wj Hji Hj. destruct (spec_at s j wj I Hj) as (tj & Htj).
    destruct (mi_w s I j wj tj Hj Htj) as (Hnj & HWj). split.
    - intros E. apply Hji. apply (names_distinct j i tj t Htj Ht). congruence.
    - intros a Ha. split; [|exact (proj2 (wi_fd _ _ _ HWj a Ha))].
      intros Hb. apply Hji. exact (mi_fds s I j i wj w a Hj Hw Ha Hb). }
  constructor; cbn [ms_dir ms_ws ms_ok].
  - rewrite upd_length. exact (mi_len s I).
  - intros j wj tj Hj Htj. destruct (Nat.eq_dec j i) as [->|Hji].
    + rewrite (upd_same _ _ _ _ Hw) in Hj. injection Hj as <-. rewrite Ht in Htj. injection Htj as <-.
      cbn [mw_name]. split; [exact Hname|exact HW'].
    + rewrite upd_other in Hj by exact Hji.
      destruct (mi_w s I j wj tj Hj Htj) as (Hnj & HWj). split; [exact Hnj|].
      destruct (Hother j wj Hji Hj) as (Hne & Hfdj).
      apply (WInv_frame (ms_dir s)); auto.
      * apply (Hframe _ Hne).
      * apply (Hframe _ Hne).
      * intros a Ha. destruct (Hfdj a Ha). apply Hino; auto.
  - intros j k wj wk a Hj Hk Ha Hb.
    destruct (Nat.eq_dec j i) as [->|Hji]; destruct (Nat.eq_dec k i) as [->|Hki]; auto.
    + rewrite (upd_same _ _ _ _ Hw) in Hj. injection Hj as <-. cbn [mw_fd] in Ha.
      rewrite upd_other in Hk by exact Hki. destruct (Hother k wk Hki Hk) as (_ & Hfk).
      destruct (Hfk a Hb) as (Hx & Hlt). destruct Hfd' as [E|[E _]]; [congruence|].
      rewrite E in Ha. injection Ha as <-. lia.
    + rewrite (upd_same _ _ _ _ Hw) in Hk. injection Hk as <-. cbn [mw_fd] in Hb.
      rewrite upd_other in Hj by exact Hji. destruct (Hother j wj Hji Hj) as (_ & Hfj).
      destruct (Hfj a Ha) as (Hx & Hlt). destruct Hfd' as [E|[E _]]; [congruence|].
      rewrite E in Hb. injection Hb as <-. lia.
    + rewrite upd_other in Hj by exact Hji. rewrite upd_other in Hk by exact Hki.
      exact (mi_fds s I j k wj wk a Hj Hk Ha Hb).
  - intros y Hy. destruct (mi_foreign s I y Hy) as (A & B).
    assert (Hne : y <> mw_name w).
    { intros ->. apply Hy. rewrite Hname. unfold names. apply in_map. exact (nth_error_In _ _ Ht). }
    destruct (Hframe y Hne) as (A' & B'). split; congruence.
  - intros a Ha. rewrite <- (mi_old s I a Ha). pose proof (mi_next s I). apply Hino; [|lia].
    intros E. pose proof (wi_fd _ _ _ HW a E). lia.
  - pose proof (mi_next s I). lia.
  - exact (mi_ok s I).
Qed.

Lemma MInv_run sched : forall s, MInv s -> MInv (mcrun s sched).
Proof.
  induction sched as [|i sched IH]; intros s I; [exact I|].
  cbn [mcrun fold_left]. apply IH. apply MInv_step. exact I.
Qed.

(* Independence.  For every interleaving: no scheduled event ever demanded an impossible outcome
   (nobody's open_excl or link is made to fail by another delivery), and what each delivery sees of its
   own files is exactly its own single-writer run [mrun] of the events it has performed. *)
Theorem maildir_conc_projection_gen : forall sched,
  let s := mcrun minit sched in
  ms_ok s = true /\
  forall i w, nth_error (ms_ws s) i = Some w -> mproj (ms_dir s) w = mrun (mw_done w).
Proof.
  intros sched s. pose proof (MInv_run sched minit MInv_init) as I. fold s in I.
  split; [exact (mi_ok s I)|]. intros i w Hw. destruct (spec_at s i w I Hw) as (t & Ht).
  destruct (mi_w s I i w t Hw Ht) as (_ & HW). exact (wi_proj _ _ _ HW).
Qed.

(* For every interleaving, every name visible in new/ is either one of ours, and then its file holds
   exactly its delivery's content, all of it fsynced; or it is a name that was there before, still
   pointing to the same inode, whose bytes nobody touched. *)
Theorem maildir_conc_visible_gen : forall sched,
  let s := mcrun minit sched in
  forall y a, d_new (ms_dir s) y = Some a ->
    (exists i t, nth_error spec i = Some t /\ y = fst t /\
                 i_data (d_ino (ms_dir s) a) = fst (snd t) /\
                 i_synced (d_ino (ms_dir s) a) = length (fst (snd t)))
    \/ (~ In y names /\ d_new d0 y = Some a /\
        ((a < d_next d0)%nat -> d_ino (ms_dir s) a = d_ino d0 a)).
Proof.
  intros sched s y a Hy. pose proof (MInv_run sched minit MInv_init) as I. fold s in I.
  destruct (in_dec Nat.eq_dec y names) as [Hin|Hout].
  - left. apply In_nth_error in Hin as (i & Hi). unfold names in Hi. rewrite nth_error_map' in Hi.
    destruct (nth_error spec i) as [t|] eqn:Ht; [|discriminate]. cbn in Hi. injection Hi as <-.
    destruct (nth_error (ms_ws s) i) as [w|] eqn:Hw.
    2:{ exfalso. apply nth_error_None in Hw. rewrite (mi_len s I) in Hw.
        assert (nth_error spec i <> None) by congruence. apply nth_error_Some in H. lia. }
    destruct (mi_w s I i w t Hw Ht) as (Hname & [P T N F W R]).
    rewrite <- Hname in Hy. pose proof (N a Hy) as Hfd.
    assert (V : visible_ok (fst (snd t)) (mrun_of w) = true).
    { destruct (mw_evs w); cbn [mprefixes_ok] in R; apply andb_true_iff in R as [R _]; exact R. }
    rewrite <- P in V. unfold visible_ok, mproj in V. cbn [m_new m_data m_synced] in V.
    rewrite Hy, Hfd in V. cbn [isSome negb orb] in V. apply andb_true_iff in V as [V1 V2].
    apply beq_eq in V1. apply Nat.eqb_eq in V2.
    exists i, t. repeat split; auto. rewrite V2, V1. reflexivity.
  - right. destruct (mi_foreign s I y Hout) as (_ & B). split; [exact Hout|]. split; [congruence|].
    exact (mi_old s I a).
Qed.

(* the same for tmp/: a foreign tmp entry is never touched (in particular never unlinked) *)
Theorem maildir_conc_foreign_gen : forall sched,
  let s := mcrun minit sched in
  forall y, ~ In y names ->
    d_tmp (ms_dir s) y = d_tmp d0 y /\ d_new (ms_dir s) y = d_new d0 y.
Proof.
  intros sched s y Hy. pose proof (MInv_run sched minit MInv_init) as I. exact (mi_foreign _ I y Hy).
Qed.

End Maildir.

(* ---- instance: n copies of qmail-local's maildir_child(), each with its own name, content, faults ---- *)
Definition mdspec (l : list (nat * (bytes * mfaults))) : list (nat * (bytes * list mev)) :=
  map (fun t => (fst t, (fst (snd t), maildir_events (fst (snd t)) (snd (snd t))))) l.
Lemma mdspec_names l : names (mdspec l) = map fst l.
Proof. unfold names, mdspec. rewrite map_map. reflexivity. Qed.
Lemma mdspec_ok l :
  Forall (fun t => mwf mfs0 (snd (snd t)) = true /\
                   mprefixes_ok (fst (snd t)) mfs0 (snd (snd t)) = true) (mdspec l).
Proof.
  apply Forall_forall. intros t Hin. apply in_map_iff in Hin as (u & <- & _). cbn [fst snd].
  split; [apply maildir_wf|apply maildir_prefixes_ok_l].
Qed.
Definition mdstart (d0 : mdir) (l : list (nat * (bytes * mfaults))) : mstate := minit d0 (mdspec l).

Theorem maildir_concurrent_independent : forall d0 l sched,
  NoDup (map fst l) ->
  (forall x, In x (map fst l) -> d_tmp d0 x = None /\ d_new d0 x = None) ->
  let s := mcrun (mdstart d0 l) sched in
  ms_ok s = true /\
  forall i w, nth_error (ms_ws s) i = Some w -> mproj (ms_dir s) w = mrun (mw_done w).
Proof.
  intros d0 l sched Hnd Hfresh. rewrite <- mdspec_names in Hnd, Hfresh.
  exact (maildir_conc_projection_gen d0 (mdspec l) Hnd Hfresh (mdspec_ok l) sched).
Qed.
Print Assumptions maildir_concurrent_independent.

Theorem maildir_concurrent_visible_complete : forall d0 l sched,
  NoDup (map fst l) ->
  (forall x, In x (map fst l) -> d_tmp d0 x = None /\ d_new d0 x = None) ->
  let s := mcrun (mdstart d0 l) sched in
  forall y a, d_new (ms_dir s) y = Some a ->
    (exists i x content f, nth_error l i = Some (x, (content, f)) /\ y = x /\
                 i_data (d_ino (ms_dir s) a) = content /\
                 i_synced (d_ino (ms_dir s) a) = length content)
    \/ (~ In y (map fst l) /\ d_new d0 y = Some a /\
        ((a < d_next d0)%nat -> d_ino (ms_dir s) a = d_ino d0 a)).
Proof.
  intros d0 l sched Hnd Hfresh s y a Hy. rewrite <- mdspec_names in *.
  destruct (maildir_conc_visible_gen d0 (mdspec l) Hnd Hfresh (mdspec_ok l) sched y a Hy)
    as [(i & t & Ht & E & D & S)|H]; [left|right; exact H].
  unfold mdspec in Ht. rewrite nth_error_map' in Ht.
  destruct (nth_error l i) as [[x [content f]]|] eqn:El; [|discriminate].
  cbn in Ht. injection Ht as <-. cbn [fst snd] in *. exists i, x, content, f. auto.
Qed.
Print Assumptions maildir_concurrent_visible_complete.

(* two deliveries, the case in the property text *)
Corollary maildir_two_deliveries : forall d0 x1 c1 f1 x2 c2 f2 sched,
  x1 <> x2 ->
  d_tmp d0 x1 = None -> d_new d0 x1 = None -> d_tmp d0 x2 = None -> d_new d0 x2 = None ->
  let s := mcrun (mdstart d0 [(x1, (c1, f1)); (x2, (c2, f2))]) sched in
  ms_ok s = true /\
  (forall a, d_new (ms_dir s) x1 = Some a ->
     i_data (d_ino (ms_dir s) a) = c1 /\ i_synced (d_ino (ms_dir s) a) = length c1) /\
  (forall a, d_new (ms_dir s) x2 = Some a ->
     i_data (d_ino (ms_dir s) a) = c2 /\ i_synced (d_ino (ms_dir s) a) = length c2).
Proof.
  intros d0 x1 c1 f1 x2 c2 f2 sched Hne T1 N1 T2 N2 s.
  assert (Hnd : NoDup (map fst [(x1, (c1, f1)); (x2, (c2, f2))])).
  { cbn. constructor; [intros [H|[]]; congruence|]. constructor; [intros []|constructor]. }
  assert (Hfresh : forall x, In x (map fst [(x1, (c1, f1)); (x2, (c2, f2))]) ->
                     d_tmp d0 x = None /\ d_new d0 x = None).
  { cbn. intros x [<-|[<-|[]]]; auto. }
  split; [exact (proj1 (maildir_concurrent_independent d0 _ sched Hnd Hfresh))|].
  split; intros a Ha;
    destruct (maildir_concurrent_visible_complete d0 _ sched Hnd Hfresh _ a Ha)
      as [(i & x & c & f & Hi & E & D & S)|(Hout & _)];
    try (exfalso; apply Hout; cbn; auto; fail);
    destruct i as [|[|i]]; cbn in Hi; try discriminate; try (destruct i; discriminate);
    injection Hi as <- <- <-; auto; congruence.
Qed.
Print Assumptions maildir_two_deliveries.

(* ---- non-vacuity: a maildir that already holds new/7, two deliveries named 100 and 200;
   delivery 200 gets EEXIST once on open_excl and later fails at fsync ---- *)
Definition mf_none : mfaults :=
  {| mf_chdir := false; mf_create_fail := 0; mf_create_err := false; mf_write := None; mf_read := None;
     mf_fsync := false; mf_close := false; mf_link := false |}.
Definition mf_fsyncfail : mfaults :=
  {| mf_chdir := false; mf_create_fail := 1; mf_create_err := false; mf_write := None; mf_read := None;
     mf_fsync := true; mf_close := false; mf_link := false |}.
Definition d_ex : mdir :=
  {| d_tmp := fun _ => None; d_new := fun y => if Nat.eqb y 7 then Some 0%nat else None;
     d_ino := fun _ => {| i_data := [42]; i_synced := 1 |}; d_next := 1 |}.
Definition exm : list (nat * (bytes * mfaults)) :=
  [(100%nat, ([1; 2; 3], mf_none)); (200%nat, ([4; 5], mf_fsyncfail))].
Definition exm_sched : list nat := [0; 1; 1; 0; 1; 0; 1; 0; 0; 1; 1; 0; 0; 0; 1; 1]%nat.
(* observable: ok flag; (tmp/x, new/x) for the listed names; all inodes (bytes, fsynced);
   per delivery (exit code, events left) *)
Definition mview (s : mstate) (xs : list nat) :=
  (ms_ok s, map (fun x => (d_tmp (ms_dir s) x, d_new (ms_dir s) x)) xs,
   map (fun a => (i_data (d_ino (ms_dir s) a), i_synced (d_ino (ms_dir s) a))) (seq 0 (d_next (ms_dir s))),
   map (fun w => (mexit (mw_done w), length (mw_evs w))) (ms_ws s)).
(* both tmp files exist and are written, only the first is fsynced, nothing new is visible yet *)
Example maildir_conc_ex_mid :
  mview (mcrun (mdstart d_ex exm) (firstn 8 exm_sched)) [7; 100; 200]%nat =
  (true, [(None, Some 0); (Some 1, None); (Some 2, None)]%nat,
   [([42], 1%nat); ([1; 2; 3], 3%nat); ([4; 5], 0%nat)], [(None, 4%nat); (None, 3%nat)]).
Proof. vm_compute. reflexivity. Qed.
(* the end: new/100 is complete and durable, delivery 200 exited 1 and left no name behind, new/7 as before *)
Example maildir_conc_ex_final :
  mview (mcrun (mdstart d_ex exm) exm_sched) [7; 100; 200]%nat =
  (true, [(None, Some 0); (None, Some 1); (None, None)]%nat,
   [([42], 1%nat); ([1; 2; 3], 3%nat); ([4; 5], 0%nat)], [(Some 0, 0%nat); (Some 1, 0%nat)]).
Proof. vm_compute. reflexivity. Qed.

(* the names must differ.  With the SAME name the fault plans "open_excl succeeds" of both deliveries
   cannot both be played: while tmp/100 exists the second open_excl cannot succeed ... *)
Definition exm_same : list (nat * (bytes * mfaults)) :=
  [(100%nat, ([1; 2; 3], mf_none)); (100%nat, ([4; 5], mf_none))].
Example maildir_same_name_create_impossible :
  ms_ok (mcrun (mdstart d_ex exm_same) [0; 0; 1; 1]%nat) = false.
Proof. vm_compute. reflexivity. Qed.
(* ... and after the first delivery has finished (tmp/100 unlinked, new/100 present) the second one can
   create and write tmp/100 again but its link cannot succeed; new/100 still is the first message *)
Example maildir_same_name_link_impossible :
  mview (mcrun (mdstart d_ex exm_same) [0; 0; 0; 0; 0; 0; 0; 0; 1; 1; 1; 1; 1; 1; 1]%nat) [7; 100]%nat =
  (false, [(None, Some 0); (Some 2, Some 1)]%nat,
   [([42], 1%nat); ([1; 2; 3], 3%nat); ([4; 5], 2%nat)], [(Some 0, 0%nat); (None, 3%nat)]).
Proof. vm_compute. reflexivity. Qed.
Example maildir_independent_without_distinct_names_refuted :
  ~ (forall d0 l sched,
       (forall x, In x (map fst l) -> d_tmp d0 x = None /\ d_new d0 x = None) ->
       ms_ok (mcrun (mdstart d0 l) sched) = true).
Proof.
  intros H. specialize (H d_ex exm_same [0; 0; 1; 1]%nat).
  rewrite maildir_same_name_create_impossible in H. 
  assert (false = true); [|discriminate]. apply H. cbn. intros x [<-|[<-|[]]]; auto.
Qed.

(* ================================================================== A'. mbox: several write() calls *)
(* mailfile() writes through a substdio buffer: an entry longer than the buffer reaches the file in
   several write() calls.  [chunked cuts evs] replaces every BWrite d by writes of consecutive pieces
   of d, cut at the given sizes.  Everything above holds for chunked programs as well. *)
Fixpoint chunks (cuts : list nat) (d : bytes) : list bytes :=
  match cuts with [] => [d] | c :: cs => firstn c d :: chunks cs (skipn c d) end.
Definition split_write (cuts : list nat) (e : bev) : list bev :=
  match e with BWrite d => map BWrite (chunks cuts d) | _ => [e] end.
Definition chunked (cuts : list nat) (evs : list bev) : list bev := flat_map (split_write cuts) evs.

Lemma pstep_chunks cuts : forall d p, fold_left pstep (map BWrite (chunks cuts d)) p = pstep p (BWrite d).
Proof.
  induction cuts as [|c cs IH]; intros d p; [reflexivity|].
  cbn [chunks map fold_left]. rewrite IH. destruct p; reflexivity.
Qed.
Lemma pstep_split cuts e p : fold_left pstep (split_write cuts e) p = pstep p e.
Proof. destruct e; try reflexivity. apply pstep_chunks. Qed.
Lemma phase_chunked cuts evs : forall p, fold_left pstep (chunked cuts evs) p = fold_left pstep evs p.
Proof.
  induction evs as [|e r IH]; intros p; [reflexivity|].
  unfold chunked in *. cbn [flat_map fold_left]. rewrite fold_left_app, pstep_split. apply IH.
Qed.
Lemma bexit_writes (ds : list bytes) acc :
  fold_left (fun acc e => match e with BExit c => Some c | _ => acc end) (map BWrite ds) acc = acc.
Proof. induction ds as [|d ds IH]; [reflexivity|]. cbn [map fold_left]. exact IH. Qed.
Lemma bexit_chunked cuts evs : bexit (chunked cuts evs) = bexit evs.
Proof.
  unfold bexit. generalize (@None N). induction evs as [|e r IH]; intros acc; [reflexivity|].
  unfold chunked in *. cbn [flat_map fold_left]. rewrite fold_left_app. rewrite <- IH. f_equal.
  destruct e; try reflexivity. apply bexit_writes.
Qed.
Lemma bstep_chunks cuts : forall d x p, fold_left bstep (map BWrite (chunks cuts d)) (x, p) = (x ++ d, p).
Proof.
  induction cuts as [|c cs IH]; intros d x p; [reflexivity|].
  cbn [chunks map fold_left bstep fst snd]. rewrite IH, <- app_assoc, firstn_skipn. reflexivity.
Qed.
Lemma bstep_split cuts e s : fold_left bstep (split_write cuts e) s = bstep s e.
Proof. destruct e; try reflexivity. destruct s as [x p]. apply bstep_chunks. Qed.
Lemma brun_chunked cuts evs : forall s, fold_left bstep (chunked cuts evs) s = fold_left bstep evs s.
Proof.
  induction evs as [|e r IH]; intros s; [reflexivity|].
  unfold chunked in *. cbn [flat_map fold_left]. rewrite fold_left_app, bstep_split. apply IH.
Qed.

Lemma all_states_head P s evs : all_states P s evs -> P s.
Proof. destruct evs; cbn [all_states]; tauto. Qed.
Lemma all_states_app P l1 : forall s l2,
  all_states P s l1 -> all_states P (fold_left bstep l1 s) l2 -> all_states P s (l1 ++ l2).
Proof.
  induction l1 as [|e l1 IH]; intros s l2 H1 H2.
  - exact H2.
  - cbn [app all_states fold_left] in *. split; [tauto|]. apply IH; tauto.
Qed.
Lemma prefix_between (base entry x d : bytes) (k k' c : nat) :
  x = base ++ firstn k entry -> x ++ d = base ++ firstn k' entry ->
  exists j : nat, x ++ firstn c d = base ++ firstn j entry.
Proof.
  intros -> H. rewrite <- app_assoc in H. apply app_inv_head in H.
  exists (Nat.min (length (firstn k entry) + c) k').
  rewrite <- app_assoc. f_equal. rewrite <- firstn_firstn, <- H. symmetry. apply firstn_app_2.
Qed.
Lemma all_states_chunks base entry cuts : forall d x p,
  (exists k : nat, x = base ++ firstn k entry) -> (exists k : nat, x ++ d = base ++ firstn k entry) ->
  all_states (fun s => exists k : nat, fst s = base ++ firstn k entry) (x, p) (map BWrite (chunks cuts d)).
Proof.
  induction cuts as [|c cs IH]; intros d x p H1 H2.
  - cbn [chunks map all_states bstep fst snd]. auto.
  - cbn [chunks map all_states bstep fst snd]. split; [exact H1|]. apply IH.
    + destruct H1 as (k & H1), H2 as (k' & H2). exact (prefix_between base entry x d k k' c H1 H2).
    + rewrite <- app_assoc, firstn_skipn. exact H2.
Qed.
Lemma all_states_chunked base entry cuts evs : forall s,
  all_states (fun s => exists k : nat, fst s = base ++ firstn k entry) s evs ->
  all_states (fun s => exists k : nat, fst s = base ++ firstn k entry) s (chunked cuts evs).
Proof.
  induction evs as [|e r IH]; intros s H; [exact H|].
  cbn [all_states] in H. destruct H as (Hs & Hr).
  unfold chunked in *. cbn [flat_map]. apply all_states_app.
  - pose proof (all_states_head _ _ _ Hr) as Hn.
    destruct e; try (cbn [split_write all_states]; auto; fail).
    destruct s as [x p]. cbn [split_write]. apply all_states_chunks; [exact Hs|exact Hn].
  - rewrite bstep_split. apply IH. exact Hr.
Qed.

Lemma good_prog_chunked cuts entry evs : good_prog entry evs -> good_prog entry (chunked cuts evs).
Proof.
  intros (G1 & G2 & G3). unfold good_prog, phase_of, brun in *.
  rewrite phase_chunked, bexit_chunked. split; [exact G1|]. split; [exact G2|].
  intros base. destruct (G3 base) as (A & B & C). rewrite brun_chunked. split; [|split; assumption].
  apply all_states_chunked. exact A.
Qed.

(* writer i: entry, fault plan, and where its writes are cut *)
Definition cprogs (l : list (bytes * bfaults * list nat)) : list (list bev) :=
  map (fun t => chunked (snd t) (mailfile_events (fst (fst t)) (snd (fst t)))) l.
Definition cspec (l : list (bytes * bfaults * list nat)) : list (bytes * list bev) :=
  map (fun t => (fst (fst t), chunked (snd t) (mailfile_events (fst (fst t)) (snd (fst t))))) l.
Definition centry_of (l : list (bytes * bfaults * list nat)) (i : nat) : bytes :=
  nth i (map (fun t => fst (fst t)) l) [].
Lemma cspec_progs l : map snd (cspec l) = cprogs l.
Proof. unfold cspec, cprogs. rewrite map_map. reflexivity. Qed.
Lemma cspec_ent l : forall i, ent (cspec l) i = centry_of l i.
Proof. unfold ent, centry_of. induction l as [|t l IH]; intros [|i]; cbn [cspec map nth fst]; auto. Qed.
Lemma cspec_good l : Forall (fun t => bf_lock (snd (fst t)) = false) l ->
  Forall (fun ep => good_prog (fst ep) (snd ep)) (cspec l).
Proof.
  intros H. unfold cspec. apply Forall_forall. intros ep Hin.
  apply in_map_iff in Hin as (t & <- & Hin). cbn [fst snd].
  apply good_prog_chunked, mailfile_good. exact (proj1 (Forall_forall _ _) H t Hin).
Qed.

Theorem mbox_concurrent_chunked_no_interleaving : forall old l sched,
  Forall (fun t => bf_lock (snd (fst t)) = false) l ->
  let s := crun (cinit old (cprogs l)) sched in
  exists k : nat,
    c_file s = old ++ concat (map (centry_of l) (committed s)) ++
               match c_lock s with None => [] | Some h => firstn k (centry_of l h) end.
Proof.
  intros old l sched Hl s.
  destruct (conc_no_interleaving_gen old (cspec l) (cspec_good l Hl) sched) as (k & Hk).
  unfold start in Hk. rewrite cspec_progs in Hk. fold s in Hk.
  exists k. rewrite Hk. rewrite (map_ext _ _ (cspec_ent l)).
  destruct (c_lock s); [rewrite cspec_ent|]; reflexivity.
Qed.
Print Assumptions mbox_concurrent_chunked_no_interleaving.

Theorem mbox_concurrent_chunked_finished : forall old l sched,
  Forall (fun t => bf_lock (snd (fst t)) = false) l ->
  let s := crun (cinit old (cprogs l)) sched in
  all_finished s ->
  c_lock s = None /\
  c_file s = old ++ concat (map (centry_of l) (committed s)) /\
  NoDup (committed s) /\
  forall i, In i (committed s) <-> wexit (c_ws s) i = Some 0.
Proof.
  intros old l sched Hl s Fin.
  pose proof (conc_finished_gen old (cspec l) (cspec_good l Hl) sched) as H.
  unfold start in H. rewrite cspec_progs in H. specialize (H Fin).
  rewrite (map_ext _ _ (cspec_ent l)) in H. exact H.
Qed.
Print Assumptions mbox_concurrent_chunked_finished.

(* with several write() calls the lock is what keeps entries apart: two deliveries whose lock_ex()
   failed, both successful (exit 0), each writing its 2-byte entry in two calls - the bytes interleave *)
Definition exc_nolock : list (bytes * bfaults * list nat) :=
  [([1; 2], bf_nolock None, [1%nat]); ([3; 4], bf_nolock None, [1%nat])].
Definition exc_sched : list nat := [0; 1; 0; 1; 0; 1; 0; 1; 0; 1; 0; 1; 0; 1]%nat.
Example mbox_concurrent_chunked_without_lock_refuted :
  cview (crun (cinit [9] (cprogs exc_nolock)) exc_sched) =
  ([9; 1; 3; 2; 4], None, [], [], [Some 0; Some 0], [0; 0]%nat).
Proof. vm_compute. reflexivity. Qed.
(* the same two deliveries and the same schedule with the lock obtained: one whole entry after the other *)
Definition exc_lock : list (bytes * bfaults * list nat) :=
  [([1; 2], bf_none, [1%nat]); ([3; 4], bf_none, [1%nat])].
Example mbox_concurrent_chunked_with_lock :
  cview (crun (cinit [9] (cprogs exc_lock)) (exc_sched ++ [1; 1; 1; 1; 1; 1]%nat)) =
  ([9; 1; 2; 3; 4], None, [0; 1]%nat, [0; 1]%nat, [Some 0; Some 0], [0; 0]%nat).
Proof. vm_compute. reflexivity. Qed.
(* mid-way: half of the holder's entry is in the file, the other delivery waits *)
Example mbox_concurrent_chunked_with_lock_mid :
  cview (crun (cinit [9] (cprogs exc_lock)) (firstn 8 exc_sched)) =
  ([9; 1], Some 0%nat, [0%nat], [], [None; None], [3; 6]%nat).
Proof. vm_compute. reflexivity. Qed.

(* ================================================================== A''. no deadlock *)
(* In every reachable state that is not finished some delivery can move (the holder never waits for the
   lock; with the lock free anybody can move), so every system of good programs can run to the end:
   the hypothesis [all_finished] of the theorems above is satisfiable from every reachable state. *)
Definition remaining (ws : list writer) : nat := fold_right (fun w n => (length (w_evs w) + n)%nat) 0%nat ws.

Lemma remaining_upd ws : forall i w w', nth_error ws i = Some w ->
  (remaining (upd ws i w') + length (w_evs w) = remaining ws + length (w_evs w'))%nat.
Proof.
  induction ws as [|h t IH]; intros [|i] w w' H; cbn in H; try discriminate.
  - injection H as ->. cbn [upd remaining fold_right]. lia.
  - cbn [upd remaining fold_right]. specialize (IH i w w' H). unfold remaining in IH. lia.
Qed.
Lemma cstep_adv s i w e rest :
  nth_error (c_ws s) i = Some w -> w_evs w = e :: rest -> (e = BLock true -> c_lock s = None) ->
  exists w', c_ws (cstep s i) = upd (c_ws s) i w' /\ w_evs w' = rest.
Proof.
  intros Hw Hev Hl. unfold cstep. rewrite Hw, Hev.
  destruct e as [b|[|]| | | | |c]; cbn [c_ws]; try (eexists; split; [reflexivity|reflexivity]).
  rewrite (Hl eq_refl). cbn [c_ws]. eexists; split; reflexivity.
Qed.
Lemma forallb_false_nth {A} (f : A -> bool) l :
  forallb f l = false -> exists i x, nth_error l i = Some x /\ f x = false.
Proof.
  induction l as [|h t IH]; intros H; [discriminate|]. cbn in H.
  destruct (f h) eqn:E.
  - destruct (IH H) as (i & x & Hi & Hx). exists (S i), x. auto.
  - exists 0%nat, h. auto.
Qed.

Section Progress.
Variable old : bytes.
Variable spec : list (bytes * list bev).
Hypothesis spec_good : Forall (fun ep => good_prog (fst ep) (snd ep)) spec.

Lemma conc_progress_gen s : Inv old spec s -> all_finishedb s = false ->
  exists i, (remaining (c_ws (cstep s i)) < remaining (c_ws s))%nat.
Proof.
  intros I Hf.
  assert (Adv : forall i w e rest, nth_error (c_ws s) i = Some w -> w_evs w = e :: rest ->
            (e = BLock true -> c_lock s = None) ->
            (remaining (c_ws (cstep s i)) < remaining (c_ws s))%nat).
  { intros i w e rest Hw Hev Hl. destruct (cstep_adv s i w e rest Hw Hev Hl) as (w' & -> & Hr).
    pose proof (remaining_upd (c_ws s) i w w' Hw) as R. rewrite Hev, Hr in R. cbn [length] in R. lia. }
  destruct (c_lock s) as [h|] eqn:L.
  - pose proof (inv_file old spec s I) as F. rewrite L in F. destruct F as (w & Hw & _).
    destruct (inv_w old spec s I h w Hw) as (Wp & Wh & _). pose proof (proj2 Wh L) as P.
    assert (Hh : (h < length spec)%nat).
    { rewrite <- (inv_len old spec s I). apply nth_error_Some. congruence. }
    destruct (good_at spec spec_good h Hh) as (Gph & _ & _).
    destruct (w_evs w) as [|e rest] eqn:Hev.
    + exfalso. rewrite app_nil_r in Wp. rewrite <- Wp, P in Gph. destruct Gph; discriminate.
    + exists h. apply (Adv h w e rest Hw Hev). intros ->. exfalso.
      rewrite <- Wp in Gph. unfold phase_of in Gph. rewrite fold_left_app in Gph.
      fold (phase_of (w_done w)) in Gph. rewrite P in Gph. cbn [fold_left pstep] in Gph.
      rewrite pstep_bad in Gph. destruct Gph; discriminate.
  - unfold all_finishedb in Hf. apply forallb_false_nth in Hf as (i & w & Hw & Hx).
    destruct (w_evs w) as [|e rest] eqn:Hev; [discriminate|].
    exists i. apply (Adv i w e rest Hw Hev). intros _. reflexivity.
Qed.

Theorem conc_can_finish_gen : forall s, Inv old spec s -> exists sched, all_finished (crun s sched).
Proof.
  intros s. remember (remaining (c_ws s)) as n eqn:Hn.
  assert (Hle : (remaining (c_ws s) <= n)%nat) by lia. clear Hn. revert s Hle.
  induction n as [|n IH]; intros s Hle I.
  - destruct (all_finishedb s) eqn:Hf; [exists []; apply all_finishedb_ok; exact Hf|].
    destruct (conc_progress_gen s I Hf) as (i & Hi). lia.
  - destruct (all_finishedb s) eqn:Hf; [exists []; apply all_finishedb_ok; exact Hf|].
    destruct (conc_progress_gen s I Hf) as (i & Hi).
    destruct (IH (cstep s i)) as (sched & Hs); [lia|apply (Inv_step old spec spec_good); exact I|].
    exists (i :: sched). exact Hs.
Qed.
End Progress.

(* from any state the n mailfile() deliveries can reach, they can all finish *)
Theorem mbox_concurrent_can_finish : forall old l sched,
  Forall (fun ef => bf_lock (snd ef) = false) l ->
  exists sched', all_finished (crun (mstart old l) (sched ++ sched')).
Proof.
  intros old l sched Hl.
  pose proof (Inv_run old (mspec l) (mspec_good l Hl) sched _ (Inv_init old (mspec l))) as I.
  destruct (conc_can_finish_gen old (mspec l) (mspec_good l Hl) _ I) as (sched' & H).
  exists sched'. unfold crun in *. rewrite fold_left_app. rewrite mspec_progs in H. exact H.
Qed.
Print Assumptions mbox_concurrent_can_finish.
