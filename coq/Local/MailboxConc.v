(* C12, the concurrent part: several qmail-local processes delivering to ONE mbox file
   (qmail-local.c mailfile(): open_append, lock_ex, seek_end/seek_cur, write..., fsync, seek_trunc on
   failure, _exit) and two deliveries into ONE maildir (maildir_child()).
   Extends Local/Mailbox.v; the single-writer facts come from Local/MailboxProofs.v. *)
From NQ Require Import Local.Mailbox Local.MailboxProofs.
From Coq Require Import Lia Permutation.
Local Open Scope N_scope.

(* ================================================================== A. mbox, n writers *)

(* ---- what one writer's program may look like: a little automaton over its events ----
   Pre   : the lock is not held (only open / lock attempt / exit may happen)
   Hold  : the lock is held (position, writes, fsync, truncate, then exit)
   DoneL : exited after having held the lock;  DoneN : exited without ever holding it
   Bad   : anything else (in particular BLock false = carrying on without the lock) *)
Inductive phase := Pre | Hold | DoneL | DoneN | Bad.
Definition pstep (p : phase) (e : bev) : phase :=
  match p, e with
  | Pre, BOpen _ => Pre
  | Pre, BLock true => Hold
  | Pre, BExit _ => DoneN
  | Hold, BPos => Hold
  | Hold, BWrite _ => Hold
  | Hold, BFsync _ => Hold
  | Hold, BTrunc => Hold
  | Hold, BExit _ => DoneL
  | _, _ => Bad
  end.
Definition phase_of (evs : list bev) : phase := fold_left pstep evs Pre.

(* a property of every state the single writer goes through *)
Fixpoint all_states (P : bytes * nat -> Prop) (s : bytes * nat) (evs : list bev) : Prop :=
  P s /\ match evs with [] => True | e :: evs' => all_states P (bstep s e) evs' end.

(* The single-writer contract the concurrency proof relies on, for a program [evs] that delivers [entry]:
   it respects the lock discipline, on its own it only ever shows base ++ (a prefix of entry),
   exit 0 means "held the lock and appended exactly entry", any other exit means "file as before". *)
Definition good_prog (entry : bytes) (evs : list bev) : Prop :=
  (phase_of evs = DoneL \/ phase_of evs = DoneN) /\
  (bexit evs = Some 0 -> phase_of evs = DoneL) /\
  forall base : bytes,
    all_states (fun s => exists k : nat, fst s = base ++ firstn k entry) (base, 0%nat) evs /\
    (bexit evs = Some 0 -> brun base evs = base ++ entry) /\
    (forall c, bexit evs = Some c -> c <> 0 -> brun base evs = base).

(* ---- the shared system ---- *)
Record writer := { w_done : list bev;      (* ghost: events already performed, oldest first *)
                   w_evs : list bev;       (* events still to perform *)
                   w_pos : nat }.          (* the value seek_cur() returned to THIS process *)
Record cstate := { c_file : bytes;         (* the one mbox file *)
                   c_lock : option nat;    (* who holds the flock *)
                   c_order : list nat;     (* ghost: the writers in the order they obtained the lock *)
                   c_ws : list writer }.

Fixpoint upd {A} (l : list A) (i : nat) (x : A) : list A :=
  match l, i with
  | [], _ => []
  | _ :: t, O => x :: t
  | h :: t, S i' => h :: upd t i' x
  end.

(* writer [i] is scheduled.  It stalls (state unchanged) when it does not exist, has finished, or
   wants the lock while somebody holds it.  Otherwise its next event acts on the shared file exactly
   as [bstep] does on (file, its own remembered position). *)
Definition cstep (s : cstate) (i : nat) : cstate :=
  match nth_error (c_ws s) i with
  | None => s
  | Some w =>
    match w_evs w with
    | [] => s
    | e :: rest =>
      let w' pos := {| w_done := w_done w ++ [e]; w_evs := rest; w_pos := pos |} in
      match e with
      | BLock true =>
        match c_lock s with
        | Some _ => s
        | None => {| c_file := c_file s; c_lock := Some i; c_order := c_order s ++ [i];
                     c_ws := upd (c_ws s) i (w' (w_pos w)) |}
        end
      | BExit _ =>
        {| c_file := c_file s;
           c_lock := match c_lock s with
                     | Some h => if Nat.eqb h i then None else Some h
                     | None => None
                     end;
           c_order := c_order s;
           c_ws := upd (c_ws s) i (w' (w_pos w)) |}
      | _ =>
        let fp := bstep (c_file s, w_pos w) e in
        {| c_file := fst fp; c_lock := c_lock s; c_order := c_order s;
           c_ws := upd (c_ws s) i (w' (snd fp)) |}
      end
    end
  end.
Definition crun (s : cstate) (sched : list nat) : cstate := fold_left cstep sched s.

Definition cinit (old : bytes) (progs : list (list bev)) : cstate :=
  {| c_file := old; c_lock := None; c_order := [];
     c_ws := map (fun p => {| w_done := []; w_evs := p; w_pos := 0%nat |}) progs |}.

Definition wexit (ws : list writer) (i : nat) : option N :=
  match nth_error ws i with Some w => bexit (w_done w) | None => None end.
Definition exit0 (ws : list writer) (i : nat) : bool :=
  match wexit ws i with Some 0 => true | _ => false end.
(* the writers that have completed successfully so far, in the order they took the lock *)
Definition committed (s : cstate) : list nat := filter (exit0 (c_ws s)) (c_order s).
Definition all_finished (s : cstate) : Prop := forall w, In w (c_ws s) -> w_evs w = [].

(* ---- small list facts ---- *)
Lemma upd_length {A} (l : list A) : forall i x, length (upd l i x) = length l.
Proof. induction l as [|h t IH]; intros [|i] x; cbn [upd length]; auto. Qed.
Lemma upd_same {A} (l : list A) : forall i x y, nth_error l i = Some y -> nth_error (upd l i x) i = Some x.
Proof. induction l as [|h t IH]; intros [|i] x y H; cbn in *; try discriminate; eauto. Qed.
Lemma upd_other {A} (l : list A) : forall i j x, j <> i -> nth_error (upd l i x) j = nth_error l j.
Proof.
  induction l as [|h t IH]; intros [|i] [|j] x H; cbn [upd nth_error]; auto; try contradiction.
Qed.

Lemma pstep_bad l : fold_left pstep l Bad = Bad.
Proof. induction l as [|e l IH]; [reflexivity|]. cbn [fold_left]. exact IH. Qed.
Lemma pstep_done l p : p = DoneL \/ p = DoneN ->
  fold_left pstep l p = DoneL \/ fold_left pstep l p = DoneN -> l = [].
Proof.
  intros Hp H. destruct l as [|e l]; [reflexivity|]. exfalso. cbn [fold_left] in H.
  assert (E : pstep p e = Bad) by (destruct Hp as [-> | ->]; destruct e; reflexivity).
  rewrite E, pstep_bad in H. destruct H; discriminate.
Qed.
Lemma phase_snoc d e : phase_of (d ++ [e]) = pstep (phase_of d) e.
Proof. unfold phase_of. rewrite fold_left_app. reflexivity. Qed.
Lemma bexit_snoc d e : bexit (d ++ [e]) = match e with BExit c => Some c | _ => bexit d end.
Proof. unfold bexit. rewrite fold_left_app. reflexivity. Qed.

(* before any exit, no exit code *)
Lemma phase_noexit d : phase_of d = Pre \/ phase_of d = Hold -> bexit d = None.
Proof.
  induction d as [|e d IH] using rev_ind; intros H; [reflexivity|].
  rewrite phase_snoc in H. rewrite bexit_snoc.
  destruct (phase_of d) eqn:P; destruct e as [b|b| | | | |c]; try destruct b; cbn in H;
    try (destruct H; discriminate); apply IH; auto.
Qed.
(* before the lock, the file and the remembered position were not touched *)
Lemma phase_pre_id d : phase_of d = Pre -> forall x, fold_left bstep d x = x.
Proof.
  induction d as [|e d IH] using rev_ind; intros H x; [reflexivity|].
  rewrite phase_snoc in H. rewrite fold_left_app. cbn [fold_left].
  destruct (phase_of d) eqn:P; destruct e as [b|b| | | | |c]; try destruct b; cbn in H; try discriminate;
    rewrite IH by reflexivity; reflexivity.
Qed.

Lemma all_states_at P p : forall s q, all_states P s (p ++ q) -> P (fold_left bstep p s).
Proof.
  induction p as [|e p IH]; intros s q H.
  - cbn [app fold_left] in *. destruct q; cbn [all_states] in H; tauto.
  - cbn [app all_states] in H. cbn [fold_left]. apply (IH _ q). tauto.
Qed.

(* ---- qmail-local's mailfile(), when it gets the lock, is a good program ---- *)
Lemma mailfile_good entry f : bf_lock f = false -> good_prog entry (mailfile_events entry f).
Proof.
  intros Hl. split; [|split; [|intros base; split; [|split]]].
  - unfold mailfile_events. rewrite Hl.
    destruct (bf_open f), (bf_write f), (bf_read f), (bf_fsync f); cbn; auto.
  - unfold mailfile_events. rewrite Hl.
    destruct (bf_open f), (bf_write f), (bf_read f), (bf_fsync f); cbn; auto; discriminate.
  - assert (T : forall d, firstn (length base) (base ++ d) = base).
    { intros d. rewrite firstn_app, Nat.sub_diag, firstn_all. cbn. apply app_nil_r. }
    assert (K0 : exists k : nat, base = base ++ firstn k entry) by (exists 0%nat; cbn; rewrite app_nil_r; reflexivity).
    assert (KA : exists k : nat, base ++ entry = base ++ firstn k entry) by (exists (length entry); rewrite firstn_all; reflexivity).
    unfold mailfile_events. rewrite Hl.
    destruct (bf_open f), (bf_write f), (bf_read f), (bf_fsync f);
      cbn [all_states bstep negb app fst snd]; rewrite ?T; repeat split; eauto.
  - apply mailfile_success_l.
  - intros c Hc Hn. exact (mailfile_rollback_l base entry f c Hl Hc Hn).
Qed.

Lemma nth_error_map' {A B} (f : A -> B) l : forall i, nth_error (map f l) i = option_map f (nth_error l i).
Proof. induction l as [|h t IH]; intros [|i]; cbn; auto. Qed.

Lemma committed_frame ws i w' order :
  (In i order -> exit0 (upd ws i w') i = exit0 ws i) ->
  filter (exit0 (upd ws i w')) order = filter (exit0 ws) order.
Proof.
  intros H. apply filter_ext_in. intros j Hj. destruct (Nat.eq_dec j i) as [->|Hne]; [auto|].
  unfold exit0, wexit. rewrite upd_other by exact Hne. reflexivity.
Qed.
Lemma exit0_upd ws i w w' : nth_error ws i = Some w ->
  exit0 (upd ws i w') i = match bexit (w_done w') with Some 0 => true | _ => false end.
Proof. intros H. unfold exit0, wexit. rewrite (upd_same _ _ _ _ H). reflexivity. Qed.
Lemma exit0_at ws i w : nth_error ws i = Some w ->
  exit0 ws i = match bexit (w_done w) with Some 0 => true | _ => false end.
Proof. intros H. unfold exit0, wexit. rewrite H. reflexivity. Qed.

Section Conc.
Variable old : bytes.
Variable spec : list (bytes * list bev).     (* writer i: the entry it delivers and its program *)
Hypothesis spec_good : Forall (fun ep => good_prog (fst ep) (snd ep)) spec.

Definition ent (i : nat) : bytes := fst (nth i spec ([], [])).
Definition prog (i : nat) : list bev := snd (nth i spec ([], [])).
Definition base (s : cstate) : bytes := old ++ concat (map ent (committed s)).

Record Inv (s : cstate) : Prop := {
  inv_len : length (c_ws s) = length spec;
  inv_w : forall i w, nth_error (c_ws s) i = Some w ->
      w_done w ++ w_evs w = prog i /\
      (phase_of (w_done w) = Hold <-> c_lock s = Some i) /\
      (In i (c_order s) <-> phase_of (w_done w) = Hold \/ phase_of (w_done w) = DoneL) /\
      (phase_of (w_done w) = Pre -> w_pos w = 0%nat);
  inv_nodup : NoDup (c_order s);
  inv_last : forall h, c_lock s = Some h -> exists o, c_order s = o ++ [h];
  inv_file : match c_lock s with
             | None => c_file s = base s
             | Some h => exists w, nth_error (c_ws s) h = Some w /\
                          (c_file s, w_pos w) = fold_left bstep (w_done w) (base s, 0%nat)
             end }.

Lemma good_at i : (i < length spec)%nat -> good_prog (ent i) (prog i).
Proof.
  intros H. unfold ent, prog.
  exact (proj1 (Forall_forall _ _) spec_good _ (nth_In spec ([], []) H)).
Qed.

Lemma Inv_init : Inv (cinit old (map snd spec)).
Proof.
  constructor; cbn [cinit c_file c_lock c_order c_ws].
  - rewrite !map_length. reflexivity.
  - intros i w H. rewrite nth_error_map', nth_error_map' in H.
    destruct (nth_error spec i) as [ep|] eqn:E; [|discriminate]. cbn in H. injection H as <-.
    cbn [w_done w_evs w_pos app]. unfold prog. rewrite (nth_error_nth _ _ _ E).
    repeat split; try discriminate; try (intros []; discriminate); try contradiction; auto.
  - constructor.
  - discriminate.
  - unfold base, committed. cbn. rewrite app_nil_r. reflexivity.
Qed.

(* a step that neither takes nor releases the lock nor exits *)
Lemma Inv_quiet s i w e rest :
  Inv s -> nth_error (c_ws s) i = Some w -> w_evs w = e :: rest ->
  phase_of (w_done w) = Pre \/ phase_of (w_done w) = Hold ->
  pstep (phase_of (w_done w)) e = phase_of (w_done w) ->
  Inv {| c_file := fst (bstep (c_file s, w_pos w) e); c_lock := c_lock s; c_order := c_order s;
         c_ws := upd (c_ws s) i {| w_done := w_done w ++ [e]; w_evs := rest;
                                   w_pos := snd (bstep (c_file s, w_pos w) e) |} |}.
Proof.
  intros I Hw Hev Hph Hst.
  destruct (inv_w s I i w Hw) as (Wp & Wh & Wo & Wz).
  assert (Hne : bexit (w_done w ++ [e]) = bexit (w_done w)).
  { rewrite bexit_snoc. destruct e; try reflexivity.
    destruct Hph as [P|P]; rewrite P in Hst; discriminate. }
  assert (Hb : forall o, filter (exit0 (upd (c_ws s) i {| w_done := w_done w ++ [e]; w_evs := rest;
                 w_pos := snd (bstep (c_file s, w_pos w) e) |})) o = filter (exit0 (c_ws s)) o).
  { intros o. apply committed_frame. intros _. rewrite (exit0_upd _ _ _ _ Hw), (exit0_at _ _ _ Hw).
    cbn [w_done]. rewrite Hne. reflexivity. }
  constructor; cbn [c_file c_lock c_order c_ws].
  - rewrite upd_length. exact (inv_len s I).
  - intros j wj Hj. destruct (Nat.eq_dec j i) as [->|Hji].
    + rewrite (upd_same _ _ _ _ Hw) in Hj. injection Hj as <-. cbn [w_done w_evs w_pos].
      rewrite phase_snoc, Hst. repeat split; try tauto.
      * rewrite <- app_assoc. cbn [app]. rewrite <- Hev. exact Wp.
      * intros P. rewrite P in Hst.
        destruct e as [b|[|]| | | | |c]; cbn in Hst; try discriminate.
        cbn [bstep snd]. exact (Wz P).
    + rewrite upd_other in Hj by exact Hji. exact (inv_w s I j wj Hj).
  - exact (inv_nodup s I).
  - exact (inv_last s I).
  - pose proof (inv_file s I) as F. unfold base, committed in *. cbn [c_ws c_order]. rewrite Hb.
    destruct (c_lock s) as [h|] eqn:L.
    + destruct F as (w0 & Hw0 & F). destruct (Nat.eq_dec h i) as [->|Hhi].
      * rewrite Hw in Hw0. injection Hw0 as <-.
        eexists. split; [apply (upd_same _ _ _ _ Hw)|]. cbn [w_done w_pos].
        rewrite fold_left_app. cbn [fold_left]. rewrite <- F. symmetry. apply surjective_pairing.
      * exists w0. rewrite upd_other by exact Hhi. split; [exact Hw0|].
        assert (P : phase_of (w_done w) = Pre).
        { destruct Hph as [P|P]; [exact P|]. apply Wh in P. congruence. }
        rewrite P in Hst. destruct e as [b|[|]| | | | |c]; cbn in Hst; try discriminate.
        cbn [bstep fst]. exact F.
    + assert (P : phase_of (w_done w) = Pre).
      { destruct Hph as [P|P]; [exact P|]. apply Wh in P. congruence. }
      rewrite P in Hst. destruct e as [b|[|]| | | | |c]; cbn in Hst; try discriminate.
      cbn [bstep fst]. exact F.
Qed.

(* taking the free lock *)
Lemma Inv_lock s i w rest :
  Inv s -> nth_error (c_ws s) i = Some w -> w_evs w = BLock true :: rest ->
  phase_of (w_done w) = Pre -> c_lock s = None ->
  Inv {| c_file := c_file s; c_lock := Some i; c_order := c_order s ++ [i];
         c_ws := upd (c_ws s) i {| w_done := w_done w ++ [BLock true]; w_evs := rest; w_pos := w_pos w |} |}.
Proof.
  intros I Hw Hev P L.
  destruct (inv_w s I i w Hw) as (Wp & Wh & Wo & Wz).
  assert (Hni : ~ In i (c_order s)).
  { intros H. apply Wo in H. rewrite P in H. destruct H; discriminate. }
  constructor; cbn [c_file c_lock c_order c_ws].
  - rewrite upd_length. exact (inv_len s I).
  - intros j wj Hj. destruct (Nat.eq_dec j i) as [->|Hji].
    + rewrite (upd_same _ _ _ _ Hw) in Hj. injection Hj as <-. cbn [w_done w_evs w_pos].
      rewrite phase_snoc, P. cbn [pstep]. repeat split; try tauto; try discriminate.
      * rewrite <- app_assoc. cbn [app]. rewrite <- Hev. exact Wp.
      * intros _. apply in_or_app. right. left. reflexivity.
    + rewrite upd_other in Hj by exact Hji.
      destruct (inv_w s I j wj Hj) as (Vp & Vh & Vo & Vz). rewrite L in Vh.
      repeat split; try tauto.
      * intros H. apply Vh in H. discriminate.
      * intros H. injection H as ->. contradiction.
      * intros H. apply in_app_or in H as [H|[H|[]]]; [tauto|]. subst. contradiction.
      * intros H. apply in_or_app. left. tauto.
  - apply (Permutation_NoDup (Permutation_cons_append (c_order s) i)).
    constructor; [exact Hni|exact (inv_nodup s I)].
  - intros h H. injection H as <-. eexists. reflexivity.
  - eexists. split; [apply (upd_same _ _ _ _ Hw)|]. cbn [w_done w_pos].
    pose proof (inv_file s I) as F. rewrite L in F.
    unfold base, committed in *. cbn [c_ws c_order].
    rewrite filter_app, committed_frame by (intros; contradiction).
    cbn [filter]. rewrite (exit0_upd _ _ _ _ Hw). cbn [w_done].
    rewrite bexit_snoc, (phase_noexit (w_done w)) by (left; exact P).
    rewrite app_nil_r, fold_left_app. cbn [fold_left].
    rewrite (phase_pre_id _ P). cbn [bstep]. rewrite (Wz P), F. reflexivity.
Qed.

(* exit of a writer that never held the lock (open failure) *)
Lemma Inv_exit_pre s i w c rest :
  Inv s -> nth_error (c_ws s) i = Some w -> w_evs w = BExit c :: rest ->
  phase_of (w_done w) = Pre ->
  Inv {| c_file := c_file s;
         c_lock := match c_lock s with Some h => if Nat.eqb h i then None else Some h | None => None end;
         c_order := c_order s;
         c_ws := upd (c_ws s) i {| w_done := w_done w ++ [BExit c]; w_evs := rest; w_pos := w_pos w |} |}.
Proof.
  intros I Hw Hev P.
  destruct (inv_w s I i w Hw) as (Wp & Wh & Wo & Wz).
  assert (Hni : ~ In i (c_order s)).
  { intros H. apply Wo in H. rewrite P in H. destruct H; discriminate. }
  assert (Hl : c_lock s <> Some i).
  { intros H. apply Wh in H. congruence. }
  assert (L : match c_lock s with Some h => if Nat.eqb h i then None else Some h | None => None end = c_lock s).
  { destruct (c_lock s) as [h|]; [|reflexivity]. destruct (Nat.eqb_spec h i) as [->|]; [contradiction|reflexivity]. }
  rewrite L.
  constructor; cbn [c_file c_lock c_order c_ws].
  - rewrite upd_length. exact (inv_len s I).
  - intros j wj Hj. destruct (Nat.eq_dec j i) as [->|Hji].
    + rewrite (upd_same _ _ _ _ Hw) in Hj. injection Hj as <-. cbn [w_done w_evs w_pos].
      rewrite phase_snoc, P. cbn [pstep]. repeat split; try tauto; try discriminate.
      * rewrite <- app_assoc. cbn [app]. rewrite <- Hev. exact Wp.
      * intros [H|H]; discriminate.
    + rewrite upd_other in Hj by exact Hji. exact (inv_w s I j wj Hj).
  - exact (inv_nodup s I).
  - exact (inv_last s I).
  - pose proof (inv_file s I) as F. unfold base, committed in *. cbn [c_ws c_order].
    rewrite committed_frame by (intros; contradiction).
    destruct (c_lock s) as [h|]; [|exact F].
    destruct F as (w0 & Hw0 & F). exists w0. rewrite upd_other by congruence. auto.
Qed.

(* exit of the lock holder: the single-writer theorems decide what is left in the file *)
Lemma Inv_exit_hold s i w c rest :
  Inv s -> nth_error (c_ws s) i = Some w -> w_evs w = BExit c :: rest ->
  phase_of (w_done w) = Hold ->
  Inv {| c_file := c_file s;
         c_lock := match c_lock s with Some h => if Nat.eqb h i then None else Some h | None => None end;
         c_order := c_order s;
         c_ws := upd (c_ws s) i {| w_done := w_done w ++ [BExit c]; w_evs := rest; w_pos := w_pos w |} |}.
Proof.
  intros I Hw Hev P.
  destruct (inv_w s I i w Hw) as (Wp & Wh & Wo & Wz).
  assert (L : c_lock s = Some i) by (apply Wh; exact P).
  assert (Hi : (i < length spec)%nat).
  { rewrite <- (inv_len s I). apply nth_error_Some. congruence. }
  destruct (good_at i Hi) as (Gph & Gx0 & Gb).
  assert (Hr : rest = []).
  { rewrite <- Wp, Hev in Gph. unfold phase_of in Gph. rewrite fold_left_app in Gph. cbn [fold_left] in Gph.
    fold (phase_of (w_done w)) in Gph. rewrite P in Gph. cbn [pstep] in Gph.
    apply (pstep_done rest DoneL); auto. }
  subst rest.
  assert (Ep : prog i = w_done w ++ [BExit c]) by (rewrite <- Wp, Hev; reflexivity).
  destruct (inv_last s I i L) as (o & Ho).
  pose proof (inv_nodup s I) as ND. rewrite Ho in ND.
  assert (Hio : ~ In i o).
  { apply NoDup_remove_2 in ND. rewrite app_nil_r in ND. exact ND. }
  rewrite L, Nat.eqb_refl.
  constructor; cbn [c_file c_lock c_order c_ws].
  - rewrite upd_length. exact (inv_len s I).
  - intros j wj Hj. destruct (Nat.eq_dec j i) as [->|Hji].
    + rewrite (upd_same _ _ _ _ Hw) in Hj. injection Hj as <-. cbn [w_done w_evs w_pos].
      rewrite phase_snoc, P. cbn [pstep]. repeat split; try tauto; try discriminate.
      * rewrite app_nil_r. symmetry. exact Ep.
    + rewrite upd_other in Hj by exact Hji.
      destruct (inv_w s I j wj Hj) as (Vp & Vh & Vo & Vz). rewrite L in Vh.
      repeat split; try tauto; try discriminate.
      intros H. apply Vh in H. congruence.
  - exact ND || (rewrite Ho; exact ND).
  - discriminate.
  - pose proof (inv_file s I) as F. rewrite L in F. destruct F as (w0 & Hw0 & F).
    rewrite Hw in Hw0. injection Hw0 as <-.
    unfold base, committed in *. cbn [c_ws c_order]. rewrite Ho in *.
    rewrite filter_app in F. rewrite filter_app, committed_frame by (intros; contradiction).
    cbn [filter] in *. rewrite (exit0_upd _ _ _ _ Hw). rewrite (exit0_at _ _ _ Hw) in F.
    cbn [w_done]. rewrite bexit_snoc. rewrite (phase_noexit (w_done w)) in F by (right; exact P).
    rewrite app_nil_r in F.
    set (b0 := old ++ concat (map ent (filter (exit0 (c_ws s)) o))) in *.
    assert (Hrun : c_file s = brun b0 (prog i)).
    { unfold brun. rewrite Ep, fold_left_app. cbn [fold_left bstep]. rewrite <- F. reflexivity. }
    assert (Hex : bexit (prog i) = Some c) by (rewrite Ep, bexit_snoc; reflexivity).
    destruct (Gb b0) as (_ & G0 & G1).
    destruct (N.eq_dec c 0) as [->|Hc].
    + cbn. rewrite map_app, concat_app. cbn [map concat]. rewrite app_nil_r, app_assoc.
      fold b0. rewrite Hrun. apply G0. exact Hex.
    + destruct c as [|pc]; [contradiction|]. rewrite app_nil_r. fold b0. rewrite Hrun.
      apply (G1 _ Hex). discriminate.
Qed.

Lemma Inv_step s i : Inv s -> Inv (cstep s i).
Proof.
  intros I. unfold cstep.
  destruct (nth_error (c_ws s) i) as [w|] eqn:Hw; [|exact I].
  destruct (w_evs w) as [|e rest] eqn:Hev; [exact I|].
  destruct (inv_w s I i w Hw) as (Wp & Wh & Wo & Wz).
  assert (Hi : (i < length spec)%nat).
  { rewrite <- (inv_len s I). apply nth_error_Some. congruence. }
  destruct (good_at i Hi) as (Gph & _ & _).
  rewrite <- Wp, Hev in Gph. unfold phase_of in Gph. rewrite fold_left_app in Gph. cbn [fold_left] in Gph.
  fold (phase_of (w_done w)) in Gph.
  assert (Hnb : pstep (phase_of (w_done w)) e <> Bad).
  { intros B. rewrite B, pstep_bad in Gph. destruct Gph; discriminate. }
  destruct (phase_of (w_done w)) eqn:P; destruct e as [b|[|]| | | | |c]; cbn [pstep] in Hnb;
    try (exfalso; apply Hnb; reflexivity).
  - apply (Inv_quiet s i w _ rest I Hw Hev); rewrite P; auto.
  - destruct (c_lock s) eqn:L; [exact I|]. apply (Inv_lock s i w rest I Hw Hev P L).
  - apply (Inv_exit_pre s i w c rest I Hw Hev P).
  - apply (Inv_quiet s i w _ rest I Hw Hev); rewrite P; auto.
  - apply (Inv_quiet s i w _ rest I Hw Hev); rewrite P; auto.
  - apply (Inv_quiet s i w _ rest I Hw Hev); rewrite P; auto.
  - apply (Inv_quiet s i w _ rest I Hw Hev); rewrite P; auto.
  - apply (Inv_exit_hold s i w c rest I Hw Hev P).
Qed.

Lemma Inv_run sched : forall s, Inv s -> Inv (crun s sched).
Proof.
  induction sched as [|i sched IH]; intros s I; [exact I|].
  cbn [crun fold_left]. apply IH. apply Inv_step. exact I.
Qed.

Definition start : cstate := cinit old (map snd spec).

(* Serialisability, at every reachable state: the file is the old content, then the whole entries of
   the writers that completed successfully, in lock order, then a prefix of the lock holder's entry. *)
Theorem conc_no_interleaving_gen : forall sched,
  let s := crun start sched in
  exists k : nat,
    c_file s = old ++ concat (map ent (committed s)) ++
               match c_lock s with None => [] | Some h => firstn k (ent h) end.
Proof.
  intros sched s. pose proof (Inv_run sched start Inv_init) as I. fold s in I.
  pose proof (inv_file s I) as F. destruct (c_lock s) as [h|] eqn:L.
  - destruct F as (w & Hw & F).
    destruct (inv_w s I h w Hw) as (Wp & _).
    assert (Hh : (h < length spec)%nat).
    { rewrite <- (inv_len s I). apply nth_error_Some. congruence. }
    destruct (good_at h Hh) as (_ & _ & Gb). destruct (Gb (base s)) as (GA & _).
    rewrite <- Wp in GA. apply all_states_at in GA. rewrite <- F in GA. destruct GA as (k & Hk).
    exists k. cbn [fst] in Hk. rewrite Hk. unfold base. rewrite <- app_assoc. reflexivity.
  - exists 0%nat. rewrite app_nil_r. exact F.
Qed.

(* the bookkeeping of the lock: acquisition order has no repetition, the holder is its last element,
   has not exited, and is not (yet) counted as committed *)
Theorem conc_lock_order_gen : forall sched,
  let s := crun start sched in
  NoDup (c_order s) /\
  forall h, c_lock s = Some h ->
    (exists o, c_order s = o ++ [h]) /\ wexit (c_ws s) h = None /\ ~ In h (committed s).
Proof.
  intros sched s. pose proof (Inv_run sched start Inv_init) as I. fold s in I.
  split; [exact (inv_nodup s I)|]. intros h L.
  pose proof (inv_file s I) as F. rewrite L in F. destruct F as (w & Hw & _).
  destruct (inv_w s I h w Hw) as (_ & Wh & _).
  assert (X : wexit (c_ws s) h = None).
  { unfold wexit. rewrite Hw. apply phase_noexit. right. apply Wh. exact L. }
  split; [exact (inv_last s I h L)|]. split; [exact X|].
  unfold committed. intros H. apply filter_In in H as [_ H]. unfold exit0 in H. rewrite X in H. discriminate.
Qed.

(* when everybody has finished: nobody holds the lock, and the file is the old content followed by
   the entries of exactly the writers that exited 0, each once, in the order they took the lock;
   a writer that exited non-zero contributes nothing *)
Theorem conc_finished_gen : forall sched,
  let s := crun start sched in
  all_finished s ->
  c_lock s = None /\
  c_file s = old ++ concat (map ent (committed s)) /\
  NoDup (committed s) /\
  forall i, In i (committed s) <-> wexit (c_ws s) i = Some 0.
Proof.
  intros sched s Fin. pose proof (Inv_run sched start Inv_init) as I. fold s in I.
  assert (Hdone : forall i w, nth_error (c_ws s) i = Some w ->
            w_done w = prog i /\ (phase_of (prog i) = DoneL \/ phase_of (prog i) = DoneN)).
  { intros i w Hw. destruct (inv_w s I i w Hw) as (Wp & _).
    rewrite (Fin w (nth_error_In _ _ Hw)), app_nil_r in Wp. split; [exact Wp|].
    assert (Hi : (i < length spec)%nat).
    { rewrite <- (inv_len s I). apply nth_error_Some. congruence. }
    exact (proj1 (good_at i Hi)). }
  assert (L : c_lock s = None).
  { destruct (c_lock s) as [h|] eqn:L; [|reflexivity]. exfalso.
    pose proof (inv_file s I) as F. rewrite L in F. destruct F as (w & Hw & _).
    destruct (inv_w s I h w Hw) as (_ & Wh & _). apply Wh in L.
    destruct (Hdone h w Hw) as (E & D). rewrite E in L. rewrite L in D. destruct D; discriminate. }
  split; [exact L|]. split.
  - pose proof (inv_file s I) as F. rewrite L in F. exact F.
  - split; [apply NoDup_filter; exact (inv_nodup s I)|].
    intros i. unfold committed. rewrite filter_In. unfold exit0. split.
    + intros [_ H]. destruct (wexit (c_ws s) i) as [[|p]|]; try discriminate. reflexivity.
    + intros H. rewrite H. split; [|reflexivity].
      unfold wexit in H. destruct (nth_error (c_ws s) i) as [w|] eqn:Hw; [|discriminate].
      destruct (inv_w s I i w Hw) as (_ & _ & Wo & _). apply Wo. right.
      destruct (Hdone i w Hw) as (E & _). rewrite E in *.
      assert (Hi : (i < length spec)%nat).
      { rewrite <- (inv_len s I). apply nth_error_Some. congruence. }
      destruct (good_at i Hi) as (_ & G0 & _). exact (G0 H).
Qed.

End Conc.

(* ---- instance: n copies of qmail-local's mailfile(), each with its own entry and fault plan ---- *)
Definition mprogs (l : list (bytes * bfaults)) : list (list bev) :=
  map (fun ef => mailfile_events (fst ef) (snd ef)) l.
Definition mspec (l : list (bytes * bfaults)) : list (bytes * list bev) :=
  map (fun ef => (fst ef, mailfile_events (fst ef) (snd ef))) l.
Definition entry_of (l : list (bytes * bfaults)) (i : nat) : bytes := nth i (map fst l) [].
Definition mstart (old : bytes) (l : list (bytes * bfaults)) : cstate := cinit old (mprogs l).

Lemma mspec_progs l : map snd (mspec l) = mprogs l.
Proof. unfold mspec, mprogs. rewrite map_map. reflexivity. Qed.
Lemma mspec_ent l : forall i, ent (mspec l) i = entry_of l i.
Proof.
  unfold ent, entry_of. induction l as [|ef l IH]; intros [|i]; cbn [mspec map nth fst]; auto.
Qed.
Lemma mspec_good l : Forall (fun ef => bf_lock (snd ef) = false) l ->
  Forall (fun ep => good_prog (fst ep) (snd ep)) (mspec l).
Proof.
  intros H. unfold mspec. apply Forall_forall. intros ep Hin.
  apply in_map_iff in Hin as (ef & <- & Hin). cbn [fst snd].
  apply mailfile_good. exact (proj1 (Forall_forall _ _) H ef Hin).
Qed.

Theorem mbox_concurrent_no_interleaving : forall old l sched,
  Forall (fun ef => bf_lock (snd ef) = false) l ->
  let s := crun (mstart old l) sched in
  exists k : nat,
    c_file s = old ++ concat (map (entry_of l) (committed s)) ++
               match c_lock s with None => [] | Some h => firstn k (entry_of l h) end.
Proof.
  intros old l sched Hl s.
  destruct (conc_no_interleaving_gen old (mspec l) (mspec_good l Hl) sched) as (k & Hk).
  unfold start in Hk. rewrite mspec_progs in Hk. fold (mstart old l) in Hk. fold s in Hk.
  exists k. rewrite Hk. rewrite (map_ext _ _ (mspec_ent l)).
  destruct (c_lock s); [rewrite mspec_ent|]; reflexivity.
Qed.
Print Assumptions mbox_concurrent_no_interleaving.

Theorem mbox_concurrent_lock_order : forall old l sched,
  Forall (fun ef => bf_lock (snd ef) = false) l ->
  let s := crun (mstart old l) sched in
  NoDup (c_order s) /\
  forall h, c_lock s = Some h ->
    (exists o, c_order s = o ++ [h]) /\ wexit (c_ws s) h = None /\ ~ In h (committed s).
Proof.
  intros old l sched Hl s.
  pose proof (conc_lock_order_gen old (mspec l) (mspec_good l Hl) sched) as H.
  unfold start in H. rewrite mspec_progs in H. exact H.
Qed.
Print Assumptions mbox_concurrent_lock_order.

Theorem mbox_concurrent_finished : forall old l sched,
  Forall (fun ef => bf_lock (snd ef) = false) l ->
  let s := crun (mstart old l) sched in
  all_finished s ->
  c_lock s = None /\
  c_file s = old ++ concat (map (entry_of l) (committed s)) /\
  NoDup (committed s) /\
  forall i, In i (committed s) <-> wexit (c_ws s) i = Some 0.
Proof.
  intros old l sched Hl s Fin.
  pose proof (conc_finished_gen old (mspec l) (mspec_good l Hl) sched) as H.
  unfold start in H. rewrite mspec_progs in H. specialize (H Fin).
  rewrite (map_ext _ _ (mspec_ent l)) in H. exact H.
Qed.
Print Assumptions mbox_concurrent_finished.

(* ---- non-vacuity: three writers, the second one hits a write error after 2 of its 3 bytes ---- *)
Definition bf_none : bfaults :=
  {| bf_open := false; bf_lock := false; bf_write := None; bf_read := None; bf_fsync := false |}.
Definition bf_wfail (n : nat) : bfaults :=
  {| bf_open := false; bf_lock := false; bf_write := Some n; bf_read := None; bf_fsync := false |}.
Definition ex3 : list (bytes * bfaults) := [([1; 2], bf_none); ([3; 4; 5], bf_wfail 2); ([6; 7], bf_none)].
Definition ex3_sched : list nat :=
  [0; 1; 2; 1; 1; 0; 2; 1; 1; 0; 2; 1; 1; 2; 2; 0; 2; 0; 2; 0; 2; 0; 0; 0; 0; 0]%nat.
(* what one can observe of a state: file, lock holder, lock order, committed, exit codes, events left *)
Definition cview (s : cstate) :=
  (c_file s, c_lock s, c_order s, committed s,
   map (fun w => bexit (w_done w)) (c_ws s), map (fun w => length (w_evs w)) (c_ws s)).

(* writer 1 got the lock first; writers 0 and 2 are stalled on it; 2 bytes of writer 1 are in the file *)
Example conc_ex3_mid :
  cview (crun (mstart [9] ex3) (firstn 8 ex3_sched)) =
  ([9; 3; 4], Some 1%nat, [1%nat], [], [None; None; None], [5; 2; 5]%nat).
Proof. vm_compute. reflexivity. Qed.
(* writer 1 has rolled back and exited 111; writer 2 holds the lock and has written its entry *)
Example conc_ex3_mid2 :
  cview (crun (mstart [9] ex3) (firstn 17 ex3_sched)) =
  ([9; 6; 7], Some 2%nat, [1; 2]%nat, [], [None; Some 111; None], [5; 0; 2]%nat).
Proof. vm_compute. reflexivity. Qed.
(* the end: lock order 1,2,0; the file holds old, entry 2, entry 0; nothing of writer 1 *)
Example conc_ex3_final :
  cview (crun (mstart [9] ex3) ex3_sched) =
  ([9; 6; 7; 1; 2], None, [1; 2; 0]%nat, [2; 0]%nat, [Some 0; Some 111; Some 0], [0; 0; 0]%nat).
Proof. vm_compute. reflexivity. Qed.
Example conc_ex3_finished : all_finished (crun (mstart [9] ex3) ex3_sched).
Proof. intros w H. vm_compute in H. repeat (destruct H as [<-|H]; [reflexivity|]). contradiction. Qed.

(* ---- the lock is needed.  Two writers whose lock_ex() failed (qmail-local carries on without the
   lock, flaglocked = 0, and then skips seek_trunc): the second fails after 1 byte.  Its stray byte
   stays, and here it lands in front of the other, successful entry.  So without the hypothesis
   bf_lock = false the finished-state equation is false. ---- *)
Definition bf_nolock (wr : option nat) : bfaults :=
  {| bf_open := false; bf_lock := true; bf_write := wr; bf_read := None; bf_fsync := false |}.
Definition ex2_nolock : list (bytes * bfaults) := [([1; 2], bf_nolock None); ([3; 4], bf_nolock (Some 1%nat))].
Definition ex2_sched : list nat := [0; 1; 0; 1; 0; 1; 1; 0; 0; 1; 0; 1; 0; 1]%nat.
Example mbox_concurrent_without_lock_refuted :
  let s := crun (mstart [9] ex2_nolock) ex2_sched in
  all_finished s /\
  map (fun w => bexit (w_done w)) (c_ws s) = [Some 0; Some 111] /\
  c_file s = [9; 3; 1; 2] /\
  c_file s <> [9] ++ concat (map (entry_of ex2_nolock) (committed s)) /\
  c_file s <> [9] ++ entry_of ex2_nolock 0.
Proof.
  cbv zeta. split; [|vm_compute; repeat split; discriminate].
  intros w H. vm_compute in H. repeat (destruct H as [<-|H]; [reflexivity|]). contradiction.
Qed.
Example mbox_concurrent_finished_without_lock_refuted :
  ~ (forall old l sched, let s := crun (mstart old l) sched in
       all_finished s -> c_file s = old ++ concat (map (entry_of l) (committed s))).
Proof.
  intros H. specialize (H [9] ex2_nolock ex2_sched).
  pose proof mbox_concurrent_without_lock_refuted as (F & _ & _ & N & _). exact (N (H F)).
Qed.
