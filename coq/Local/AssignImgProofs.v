(* The lookup on the file image written from a table equals the abstract lookup of Local/Assign.v. *)
From NQ Require Import Base.Bytes Base.Cdb Base.CdbProofs Base.CdbFast Base.CdbFastProofs Local.Assign Local.AssignImg.
Local Open Scope N_scope.

Lemma find_first_cdb_find (db : list rec) k : find_first db k = cdb_find db k.
Proof. induction db as [|[k' d] db IH]; cbn [find_first cdb_find fst snd]; [reflexivity|]. rewrite IH. reflexivity. Qed.

Lemma bytes_ok_firstn n s : bytes_ok s -> bytes_ok (firstn n s).
Proof. unfold bytes_ok. revert s; induction n as [|n IH]; intros s H; cbn [firstn]; [constructor|].
  destruct s; [constructor|]. inversion H; subst. constructor; auto. Qed.

Lemma lower_lt c : c < 256 -> lower c < 256.
Proof. unfold lower. intro H. destruct ((65 <=? c) && (c <=? 90)) eqn:E; [|exact H].
  apply andb_true_iff in E as [_ E]. apply N.leb_le in E. lia. Qed.
Lemma bytes_ok_lowers s : bytes_ok s -> bytes_ok (lowers s).
Proof. unfold bytes_ok, lowers. intro H. apply Forall_forall. intros x Hx. apply in_map_iff in Hx as [c [<- Hc]].
  apply lower_lt. rewrite Forall_forall in H. auto. Qed.

Theorem nughde_loop_img_eq db wild lower local : recs_ok db -> bytes_ok lower ->
  forall i fw, nughde_loop_img (cdb_make db) wild lower local i fw =
    match nughde_loop db wild lower local i fw with Some d => LFound d | None => LNone end.
Proof.
  intros Hdb Hl. induction i as [|i IH]; intros fw; [reflexivity|].
  cbn [nughde_loop_img nughde_loop].
  destruct (negb fw || Nat.eqb (S i) 1 || has (nth (S i - 1) lower 0) wild).
  - rewrite cdb_get_fast_eq, cdb_get_make by (try exact Hdb; apply bytes_ok_firstn; exact Hl).
    unfold get_spec. rewrite find_first_cdb_find.
    destruct (cdb_find db (firstn (S i) lower)); [reflexivity | apply IH].
  - apply IH.
Qed.

(* the file image of a compiled table answers every local part as the abstract table does *)
Theorem nughde_get_img_eq : forall db local, recs_ok db -> bytes_ok local ->
  nughde_get_img (cdb_make db) local = nughde_get db local.
Proof.
  intros db local Hdb Hl. unfold nughde_get_img, nughde_get.
  rewrite cdb_get_fast_eq, cdb_get_make by (try exact Hdb; constructor).
  unfold get_spec. rewrite find_first_cdb_find.
  destruct (cdb_find db []) as [wild|]; [|reflexivity].
  rewrite nughde_loop_img_eq; [reflexivity | exact Hdb |].
  constructor; [reflexivity|]. apply Forall_app. split; [apply bytes_ok_lowers; exact Hl | constructor; [reflexivity | constructor]].
Qed.
