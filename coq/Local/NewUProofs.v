(* qmail-newu's text parser produces, for the canonical text of a table, exactly the records the
   users/assign model (Local/Assign.v compile) is built on. *)
From NQ Require Import Base.Bytes Base.Cdb Local.NewU Local.Assign.
Local Open Scope N_scope.

Definition kind_char (k : akind) : N := match k with AExact => 61 | AWild => 43 end.
Fixpoint join_colon (fs : list bytes) : bytes :=
  match fs with [] => [] | [f] => f | f :: fs' => f ++ 58 :: join_colon fs' end.
Definition render_line (l : aline) : bytes :=
  kind_char (a_kind l) :: a_loc l ++ 58 :: join_colon (a_fields l) ++ [58; LF].
Definition render (t : list aline) : bytes := flat_map render_line t ++ [DOT; LF].

Definition plain (s : bytes) : Prop := ~ In 58 s /\ ~ In 0 s /\ ~ In LF s.
Definition line_ok (l : aline) : Prop :=
  plain (a_loc l) /\ length (a_fields l) = 6%nat /\ Forall plain (a_fields l).

Lemma getlns_line cur s rest : ~ In LF s ->
  getlns cur (s ++ LF :: rest) = (rev cur ++ s ++ [LF], true) :: getlns [] rest.
Proof.
  revert cur; induction s as [|c s IH]; intros cur Hn; cbn [getlns app].
  - rewrite N.eqb_refl. cbn [rev app]. reflexivity.
  - destruct (c =? LF) eqn:E; [apply N.eqb_eq in E; exfalso; apply Hn; left; auto|].
    rewrite IH by (intro H; apply Hn; right; exact H).
    cbn [rev]. rewrite <- app_assoc. reflexivity.
Qed.

Lemma has_false_notin x s : ~ In x s -> has x s = false.
Proof. intro H. destruct (has x s) eqn:E; [apply has_In in E; contradiction | reflexivity]. Qed.

Lemma index_of_app c s rest : ~ In c s -> index_of c (s ++ c :: rest) = Some (length s).
Proof.
  induction s as [|x s IH]; intro Hn; cbn [index_of app length].
  - rewrite N.eqb_refl. reflexivity.
  - destruct (x =? c) eqn:E; [apply N.eqb_eq in E; exfalso; apply Hn; left; auto|].
    rewrite IH by (intro H; apply Hn; right; exact H). reflexivity.
Qed.

Lemma six_fields_plain n f rest : ~ In 58 f ->
  six_fields n (f ++ rest) = match six_fields n rest with Some r => Some (f ++ r) | None => None end.
Proof.
  induction f as [|c f IH]; intro Hn; cbn [six_fields app].
  - destruct (six_fields n rest); reflexivity.
  - destruct (c =? 58) eqn:E; [apply N.eqb_eq in E; exfalso; apply Hn; left; auto|].
    rewrite IH by (intro H; apply Hn; right; exact H).
    destruct (six_fields n rest); reflexivity.
Qed.

Lemma six_fields_join fs : forall n rest, fs <> [] -> Forall plain fs -> length fs = S n ->
  six_fields (S n) (join_colon fs ++ 58 :: rest) = Some (join_nul fs).
Proof.
  induction fs as [|f fs IH]; intros n rest Hne Hp Hl; [contradiction|].
  inversion Hp as [|? ? Hf Hfs]; subst.
  destruct fs as [|g fs].
  - cbn [join_colon join_nul]. cbn [length] in Hl. injection Hl as <-.
    rewrite six_fields_plain by apply Hf. cbn [six_fields]. rewrite N.eqb_refl. rewrite app_nil_r. reflexivity.
  - cbn [length] in Hl. injection Hl as Hl. destruct n as [|n]; [discriminate|].
    change (join_colon (f :: g :: fs)) with (f ++ 58 :: join_colon (g :: fs)).
    change (join_nul (f :: g :: fs)) with (f ++ 0 :: join_nul (g :: fs)).
    rewrite <- app_assoc. rewrite six_fields_plain by apply Hf.
    cbn [app]. change (six_fields (S (S n)) (58 :: join_colon (g :: fs) ++ 58 :: rest))
      with (if 58 =? 58 then match six_fields (S n) (join_colon (g :: fs) ++ 58 :: rest) with Some r => Some (0 :: r) | None => None end
            else match six_fields (S (S n)) (join_colon (g :: fs) ++ 58 :: rest) with Some r => Some (58 :: r) | None => None end).
    rewrite N.eqb_refl. rewrite (IH n rest) by (try discriminate; try assumption; cbn [length]; congruence).
    reflexivity.
Qed.

Lemma has_app_l x a b : has x (a ++ b) = has x a || has x b.
Proof. induction a as [|y a IH]; cbn [has app]; [reflexivity|]. rewrite IH. apply orb_assoc. Qed.

Lemma plain_lowers_nz s : ~ In 0 s -> ~ In 0 (lowers s).
Proof.
  induction s as [|c s IH]; cbn [lowers map In]; [tauto|]. intros Hn [H|H].
  - unfold lower in H. destruct ((65 <=? c) && (c <=? 90)) eqn:E.
    + destruct c; [discriminate|]. lia.
    + apply Hn. left. exact H.
  - apply IH; [intro; apply Hn; right; assumption | exact H].
Qed.

(* what one rendered line contributes *)
Definition step_wild (wild : bytes) (l : aline) : bytes :=
  match a_kind l, a_loc l with
  | AWild, _ :: _ => let c := last_byte (lowers (a_loc l)) in if has c wild then wild else wild ++ [c]
  | _, _ => wild
  end.

Lemma wildchars_step t : forall wild, wildchars_of t wild =
  match t with [] => wild | l :: t' => wildchars_of t' (step_wild wild l) end.
Proof. destruct t as [|l t]; intros wild; [reflexivity|]. cbn [wildchars_of]. unfold step_wild.
  destruct (a_kind l); [reflexivity|]. destruct (a_loc l); reflexivity. Qed.

Lemma last_rev_head (s : bytes) : s <> [] -> exists r, rev s = last s 0 :: r.
Proof.
  intro H. destruct (exists_last H) as [s' [x ->]]. rewrite rev_unit, last_last. eauto.
Qed.

Lemma skip_after (k : N) (loc X : bytes) : skipn (S (S (length loc))) (k :: loc ++ 58 :: X) = X.
Proof.
  change (skipn (S (S (length loc))) (k :: loc ++ 58 :: X)) with (skipn (S (length loc)) (loc ++ 58 :: X)).
  replace (S (length loc)) with (length (loc ++ [58])) by (rewrite app_length; cbn [length]; lia).
  replace (loc ++ 58 :: X) with ((loc ++ [58]) ++ X) by (rewrite <- app_assoc; reflexivity).
  rewrite skipn_app, skipn_all, Nat.sub_diag. reflexivity.
Qed.
Lemma first_loc (k : N) (loc X : bytes) : firstn (S (length loc) - 1) (skipn 1 (k :: loc ++ 58 :: X)) = loc.
Proof.
  replace (S (length loc) - 1)%nat with (length loc) by lia.
  change (skipn 1 (k :: loc ++ 58 :: X)) with (loc ++ 58 :: X).
  rewrite firstn_app, firstn_all, Nat.sub_diag. cbn [firstn]. apply app_nil_r.
Qed.

Lemma newu_line_render wild l : line_ok l ->
  newu_line wild (render_line l) = Some ((key_of l, data_of l), step_wild wild l).
Proof.
  intros [[Hc [Hz Hl]] [Hlen Hf]].
  unfold newu_line, render_line.
  assert (Hnz : has 0 (kind_char (a_kind l) :: a_loc l ++ 58 :: join_colon (a_fields l) ++ [58; LF]) = false).
  { apply has_false_notin. intros [H|H]; [destruct (a_kind l); discriminate|].
    apply in_app_or in H as [H|H]; [contradiction|]. destruct H as [H|H]; [discriminate|].
    apply in_app_or in H as [H|H].
    - clear -H Hf. induction (a_fields l) as [|f fs IH]; [contradiction|].
      inversion Hf as [|? ? Hp Hfs]; subst. destruct fs as [|g fs].
      + cbn [join_colon] in H. apply Hp in H. exact H.
      + change (join_colon (f :: g :: fs)) with (f ++ 58 :: join_colon (g :: fs)) in H.
        apply in_app_or in H as [H|H]; [apply Hp in H; exact H|]. destruct H as [H|H]; [discriminate|]. apply IH; assumption.
    - destruct H as [H|[H|H]]; try discriminate; contradiction. }
  rewrite Hnz.
  assert (Hk : kind_char (a_kind l) =? 58 = false) by (destruct (a_kind l); reflexivity).
  change (index_of 58 (kind_char (a_kind l) :: a_loc l ++ 58 :: join_colon (a_fields l) ++ [58; LF]))
    with (if kind_char (a_kind l) =? 58 then Some O else
          match index_of 58 (a_loc l ++ 58 :: join_colon (a_fields l) ++ [58; LF]) with Some i => Some (S i) | None => None end).
  rewrite Hk, index_of_app by exact Hc.
  rewrite (skip_after (kind_char (a_kind l)) (a_loc l) (join_colon (a_fields l) ++ [58; LF])).
  rewrite (first_loc (kind_char (a_kind l)) (a_loc l) (join_colon (a_fields l) ++ [58; LF])).
  rewrite (six_fields_join (a_fields l) 5 [LF]); [| intro E; rewrite E in Hlen; discriminate | exact Hf | exact Hlen].
  unfold key_of, data_of, step_wild.
  destruct (a_kind l); cbn [kind_char].
  - change (61 =? PLUS) with false. cbv iota. reflexivity.
  - change (43 =? PLUS) with true. cbv iota.
    destruct (a_loc l) as [|c s] eqn:El.
    + reflexivity.
    + assert (Hne : lowers (c :: s) <> []) by (cbn; discriminate).
      destruct (last_rev_head _ Hne) as [r Hr]. rewrite Hr. unfold last_byte. reflexivity.
Qed.

Lemma render_line_shape l : line_ok l -> exists s, render_line l = s ++ [LF] /\ ~ In LF s /\ exists c s', s = c :: s' /\ (c =? DOT) = false.
Proof.
  intros [[Hc [Hz Hl]] [Hlen Hf]]. unfold render_line.
  exists (kind_char (a_kind l) :: a_loc l ++ 58 :: join_colon (a_fields l) ++ [58]). split; [|split].
  - cbn [app]. f_equal. rewrite <- !app_assoc. cbn [app]. f_equal. f_equal. rewrite <- app_assoc. reflexivity.
  - intros [H|H]; [destruct (a_kind l); discriminate|].
    apply in_app_or in H as [H|H]; [contradiction|]. destruct H as [H|H]; [discriminate|].
    apply in_app_or in H as [H|H].
    + clear -H Hf. induction (a_fields l) as [|f fs IH]; [contradiction|].
      inversion Hf as [|? ? Hp Hfs]; subst. destruct fs as [|g fs].
      * cbn [join_colon] in H. apply Hp in H. exact H.
      * change (join_colon (f :: g :: fs)) with (f ++ 58 :: join_colon (g :: fs)) in H.
        apply in_app_or in H as [H|H]; [apply Hp in H; exact H|]. destruct H as [H|H]; [discriminate|]. apply IH; assumption.
    + destruct H as [H|H]; [discriminate | contradiction].
  - eexists _, _. split; [reflexivity|]. destruct (a_kind l); reflexivity.
Qed.

Lemma newu_loop_render t : Forall line_ok t -> forall wild acc,
  newu_loop (getlns [] (flat_map render_line t ++ [DOT; LF])) wild acc =
  Some (rev acc ++ map (fun l => (key_of l, data_of l)) t ++ [([], wildchars_of t wild)]).
Proof.
  induction t as [|l t IH]; intros Hok wild acc.
  - cbn [flat_map app getlns]. change (DOT =? LF) with false. cbv iota. cbn [getlns]. rewrite N.eqb_refl.
    cbn [rev app newu_loop]. change (DOT =? DOT) with true. cbv iota. cbn [map app wildchars_of]. reflexivity.
  - inversion Hok as [|? ? Hl Ht]; subst.
    destruct (render_line_shape l Hl) as [s [Es [Hn [c [s' [Ec Hd]]]]]].
    cbn [flat_map]. rewrite <- app_assoc, Es, <- app_assoc. cbn [app].
    rewrite getlns_line by exact Hn. cbn [rev app newu_loop].
    rewrite Ec. cbn [app]. rewrite Hd. cbn [negb]. cbv iota.
    change (c :: s' ++ [LF]) with ((c :: s') ++ [LF]). rewrite <- Ec, <- Es.
    rewrite newu_line_render by exact Hl.
    rewrite IH by exact Ht. cbn [rev map]. rewrite <- !app_assoc. cbn [app].
    rewrite (wildchars_step (l :: t)). reflexivity.
Qed.

Theorem newu_render : forall t, Forall line_ok t -> newu (render t) = Some (compile t).
Proof.
  intros t H. unfold newu, render, compile. rewrite newu_loop_render by exact H. reflexivity.
Qed.

(* the keys qmail-newmrh writes are lower case, without trailing blanks, non-empty and not comments *)
Lemma newmrh_key_shape line k : newmrh_key line = Some k ->
  k <> [] /\ (exists t, lowers line = k ++ t /\ Forall (fun c => c = 32 \/ c = LF \/ c = 9) t) /\
  (match k with c :: _ => c <> 35 | [] => True end) /\
  (match rev k with c :: _ => c <> 32 /\ c <> LF /\ c <> 9 | [] => True end).
Proof.
  unfold newmrh_key. intro H.
  assert (Hs : forall r, exists t, r = rev t ++ strip_rev r /\ Forall (fun c => c = 32 \/ c = LF \/ c = 9) t /\
             match strip_rev r with c :: _ => c <> 32 /\ c <> LF /\ c <> 9 | [] => True end).
  { induction r as [|c r IH]; [exists []; cbn; auto|].
    cbn [strip_rev]. destruct ((c =? 32) || (c =? LF) || (c =? 9)) eqn:E.
    - destruct IH as [t [E1 [E2 E3]]]. exists (t ++ [c]). rewrite rev_unit. cbn [app]. split; [f_equal; exact E1|]. split; [|exact E3].
      apply Forall_app. split; [exact E2|]. constructor; [|constructor].
      apply orb_true_iff in E as [E|E]; [apply orb_true_iff in E as [E|E]|]; apply N.eqb_eq in E; auto.
    - exists []. cbn [rev app]. split; [reflexivity|]. split; [constructor|].
      apply orb_false_iff in E as [E E3]. apply orb_false_iff in E as [E1 E2].
      apply N.eqb_neq in E1, E2, E3. auto. }
  destruct (Hs (rev (lowers line))) as [t [E1 [E2 E3]]].
  destruct (rev (strip_rev (rev (lowers line)))) as [|c k'] eqn:Ek; [discriminate|].
  destruct (c =? 35) eqn:Ec; [discriminate|]. injection H as <-.
  split; [discriminate|]. split; [|split].
  - exists t. apply (f_equal (@rev N)) in E1. rewrite rev_involutive, rev_app_distr, rev_involutive, Ek in E1. split; assumption.
  - apply N.eqb_neq in Ec. exact Ec.
  - rewrite <- Ek, rev_involutive. exact E3.
Qed.
