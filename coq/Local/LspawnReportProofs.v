(* what qmail-send can rely on in a local delivery report, whatever the delivery child wrote *)
From NQ Require Import Local.LspawnReport.
From Coq Require Import Lia.
Local Open Scope N_scope.

Lemma cstr0_no_nul : forall s, ~ In 0 (cstr0 s).
Proof.
  induction s as [|c s IH]; cbn [cstr0]; [intros []|].
  destruct (N.eqb_spec c 0) as [->|Hc]; [intros []|]. intros [H|H]; [congruence|exact (IH H)].
Qed.
Lemma cstr0_prefix : forall s, exists r, s = cstr0 s ++ r /\ (r = [] \/ exists r', r = 0 :: r').
Proof.
  induction s as [|c s (r & IH & Hr)]; cbn [cstr0]; [exists []; split; auto|].
  destruct (N.eqb_spec c 0) as [->|Hc]; [exists (0 :: s); split; [reflexivity|right; eauto]|].
  exists r. split; [cbn [app]; f_equal; exact IH|exact Hr].
Qed.
Lemma cstr0_id : forall s, ~ In 0 s -> cstr0 s = s.
Proof.
  induction s as [|c s IH]; intros H; cbn [cstr0]; [reflexivity|].
  destruct (N.eqb_spec c 0) as [->|Hc]; [exfalso; apply H; left; reflexivity|].
  f_equal. apply IH. intros Hi. apply H. right. exact Hi.
Qed.

Lemma verdict_not_nul crashed code : lspawn_verdict crashed code <> 0.
Proof. unfold lspawn_verdict. destruct crashed; [discriminate|]. repeat (destruct (_ =? _); cbn [orb]; try discriminate). Qed.
Lemma verdict_kzd crashed code : In (lspawn_verdict crashed code) [75; 90; 68].
Proof. unfold lspawn_verdict. destruct crashed; [cbn; auto|]. repeat (destruct (_ =? _); cbn [orb]; try (cbn; auto; fail)). Qed.

Lemma fixed_text_shape code t : lspawn_fixed_text code = Some t ->
  ~ In 0 t /\ hd 0 t = lspawn_verdict false code.
Proof.
  unfold lspawn_fixed_text.
  repeat match goal with
         | |- context [N.eqb code ?k] =>
           destruct (N.eqb_spec code k) as [->|?];
           [intros H; injection H as <-; split; [vm_compute; intuition discriminate|vm_compute; reflexivity]|]
         end.
  intros H; discriminate H.
Qed.

(* the report never contains a NUL: since spawn.c ends every report with one NUL, a delivery child's output - any bytes -
   cannot start a second report or forge another delivery number *)
Theorem lspawn_report_no_nul crashed code out : ~ In 0 (lspawn_report crashed code out).
Proof.
  unfold lspawn_report. destruct crashed; [vm_compute; intuition discriminate|].
  destruct (lspawn_fixed_text code) as [t|] eqn:E; [exact (proj1 (fixed_text_shape _ _ E))|].
  intros [H|H]; [exact (verdict_not_nul _ _ H)|exact (cstr0_no_nul _ H)].
Qed.
(* its first byte is the verdict computed from the exit status alone: the child's output cannot change K/Z/D *)
Theorem lspawn_report_head crashed code out : hd 0 (lspawn_report crashed code out) = lspawn_verdict crashed code.
Proof.
  unfold lspawn_report. destruct crashed; [reflexivity|].
  destruct (lspawn_fixed_text code) as [t|] eqn:E; [exact (proj2 (fixed_text_shape _ _ E))|reflexivity].
Qed.
Theorem lspawn_report_head_kzd crashed code out : In (hd 0 (lspawn_report crashed code out)) [75; 90; 68].
Proof. rewrite lspawn_report_head. apply verdict_kzd. Qed.
(* for an ordinary exit the text is the child's output up to its first NUL - all of it when it has none *)
Theorem lspawn_report_text code out : lspawn_fixed_text code = None -> ~ In 0 out ->
  lspawn_report false code out = lspawn_verdict false code :: out.
Proof. intros E H. unfold lspawn_report. rewrite E, (cstr0_id _ H). reflexivity. Qed.
