From NQ Require Import Local.Assign.
Local Open Scope N_scope.

(* ---------------------------------------------------------------- the table as the documentation reads it *)
Fixpoint find_wild (t : list aline) (k : bytes) : option aline :=
  match t with
  | [] => None
  | l :: t' => match a_kind l with
               | AWild => if beq (lowers (a_loc l)) k then Some l else find_wild t' k
               | AExact => find_wild t' k
               end
  end.
(* the longest prefix of the address that is a wildcard entry: try lengths k, k-1, ..., 0; the first
   entry in file order among equal prefixes; the rest of the address (original case) is appended *)
Fixpoint desc (t : list aline) (local : bytes) (k : nat) : option bytes :=
  match find_wild t (firstn k (lowers local)) with
  | Some l => Some (data_of l ++ skipn k local)
  | None => match k with O => None | S k' => desc t local k' end
  end.
Definition lookup_spec (t : list aline) (local : bytes) : option bytes :=
  match find_exact t local with
  | Some d => Some d
  | None => desc t local (length local)
  end.

Definition table_ok (t : list aline) : Prop := Forall (fun l => has 0 (a_loc l) = false) t.

(* ---------------------------------------------------------------- helper facts *)
Lemma has_lowers_nul s : has 0 (lowers s) = has 0 s.
Proof.
  unfold lowers. induction s as [|c s IH]; [reflexivity|]. cbn [map has]. rewrite IH. f_equal.
  unfold lower. destruct ((65 <=? c) && (c <=? 90)) eqn:E; [|reflexivity].
  apply andb_true_iff in E as [E1 E2]. apply N.leb_le in E1.
  destruct (N.eqb_spec 0 (c + 32)); [lia|]. destruct (N.eqb_spec 0 c); [lia|reflexivity].
Qed.
Lemma has_app0 x a b : has x (a ++ b) = has x a || has x b.
Proof. induction a; cbn; [reflexivity|]. rewrite IHa. apply orb_assoc. Qed.
Lemma beq_neq_has (a b : bytes) : has 0 a = true -> has 0 b = false -> beq a b = false.
Proof.
  intros Ha Hb. destruct (beq a b) eqn:E; [|reflexivity]. apply beq_eq in E. subst. congruence.
Qed.
Lemma beq_neq_has_r (a b : bytes) : has 0 a = false -> has 0 b = true -> beq a b = false.
Proof.
  intros Ha Hb. destruct (beq a b) eqn:E; [|reflexivity]. apply beq_eq in E. subst. congruence.
Qed.
Lemma beq_cons c a b : beq (c :: a) (c :: b) = beq a b.
Proof. cbn. rewrite N.eqb_refl. reflexivity. Qed.
Lemma beq_app_r (a b s : bytes) : beq (a ++ s) (b ++ s) = beq a b.
Proof.
  destruct (beq a b) eqn:E.
  - apply beq_eq in E. subst. apply beq_eq. reflexivity.
  - destruct (beq (a ++ s) (b ++ s)) eqn:E2; [|reflexivity]. apply beq_eq in E2. apply app_inv_tail in E2. subst.
    assert (beq b b = true) by (apply beq_eq; reflexivity). congruence.
Qed.

(* ---------------------------------------------------------------- the compiled database *)
Lemma cdb_find_app_l db1 db2 k : cdb_find (db1 ++ db2) k = match cdb_find db1 k with Some d => Some d | None => cdb_find db2 k end.
Proof. induction db1 as [|[k' d] db1 IH]; cbn; [reflexivity|]. destruct (beq k' k); [reflexivity|exact IH]. Qed.

Lemma find_records_exact t local : table_ok t -> has 0 local = false ->
  cdb_find (map (fun l => (key_of l, data_of l)) t) (BANG :: lowers local ++ [0]) = find_exact t local.
Proof.
  intros Ht Hl. induction Ht as [|l t Hl0 Ht IH]; [reflexivity|].
  cbn [map cdb_find find_exact]. unfold key_of. destruct (a_kind l).
  - rewrite beq_cons, beq_app_r. destruct (beq (lowers (a_loc l)) (lowers local)); [reflexivity|exact IH].
  - rewrite beq_cons. rewrite beq_neq_has_r; [exact IH| |].
    + rewrite has_lowers_nul. exact Hl0.
    + rewrite has_app0. cbn. rewrite orb_true_r. reflexivity.
Qed.

Lemma find_records_wild t kx : table_ok t -> has 0 kx = false ->
  cdb_find (map (fun l => (key_of l, data_of l)) t) (BANG :: kx) = option_map data_of (find_wild t kx).
Proof.
  intros Ht Hk. induction Ht as [|l t Hl0 Ht IH]; [reflexivity|].
  cbn [map cdb_find find_wild]. unfold key_of. destruct (a_kind l).
  - rewrite beq_cons. rewrite beq_neq_has; [exact IH| |exact Hk].
    rewrite has_app0. cbn. rewrite orb_true_r. reflexivity.
  - rewrite beq_cons. destruct (beq (lowers (a_loc l)) kx); [reflexivity|exact IH].
Qed.

Lemma find_records_nil t : cdb_find (map (fun l => (key_of l, data_of l)) t) [] = None.
Proof. induction t as [|l t IH]; [reflexivity|]. cbn. unfold key_of. destruct (a_kind l); cbn; exact IH. Qed.

Lemma compile_wildchars t : cdb_find (compile t) [] = Some (wildchars_of t []).
Proof. unfold compile. rewrite cdb_find_app_l, find_records_nil. reflexivity. Qed.

(* qmail-newu records the (lower-cased) last character of every non-empty wildcard prefix *)
Lemma wildchars_mono t : forall acc c, has c acc = true -> has c (wildchars_of t acc) = true.
Proof.
  induction t as [|l t IH]; intros acc c H; [exact H|]. cbn [wildchars_of].
  destruct (a_kind l); [apply IH; exact H|]. destruct (a_loc l); [apply IH; exact H|].
  apply IH. destruct (has (last_byte _) acc); [exact H|]. rewrite has_app0, H. reflexivity.
Qed.
Lemma wildchars_sound_l t : forall acc l, In l t -> a_kind l = AWild -> a_loc l <> [] ->
  has (last_byte (lowers (a_loc l))) (wildchars_of t acc) = true.
Proof.
  induction t as [|l0 t IH]; intros acc l Hin Hk Hne; [contradiction|].
  destruct Hin as [->|Hin].
  - cbn [wildchars_of]. rewrite Hk. destruct (a_loc l) as [|c0 r0] eqn:El; [contradiction|].
    apply wildchars_mono. destruct (has (last_byte _) acc) eqn:E; [exact E|]. rewrite has_app0. cbn [has]. rewrite N.eqb_refl. apply orb_true_r.
  - cbn [wildchars_of]. destruct (a_kind l0); [apply IH; assumption|]. destruct (a_loc l0); apply IH; assumption.
Qed.

Lemma find_wild_in t k l : find_wild t k = Some l -> In l t /\ a_kind l = AWild /\ lowers (a_loc l) = k.
Proof.
  induction t as [|l0 t IH]; [discriminate|]. cbn. destruct (a_kind l0) eqn:Ek.
  - intros H. destruct (IH H) as (A & B & C). auto.
  - destruct (beq (lowers (a_loc l0)) k) eqn:E.
    + intros H. injection H as <-. apply beq_eq in E. auto.
    + intros H. destruct (IH H) as (A & B & C). auto.
Qed.

(* ---------------------------------------------------------------- the descending loop *)
Lemma firstn_lower_prefix local k : (k <= length local)%nat ->
  firstn (S k) (BANG :: lowers local ++ [0]) = BANG :: firstn k (lowers local).
Proof.
  intros H. cbn [firstn]. f_equal. rewrite firstn_app.
  replace (k - length (lowers local))%nat with 0%nat by (unfold lowers; rewrite map_length; lia).
  cbn. apply app_nil_r.
Qed.
Lemma has_firstn0 (s : bytes) k : has 0 s = false -> has 0 (firstn k s) = false.
Proof.
  revert k. induction s as [|c s IH]; intros k H; [destruct k; reflexivity|]. destruct k; [reflexivity|].
  cbn in H |- *. apply orb_false_iff in H as [H1 H2]. rewrite H1. cbn. apply IH. exact H2.
Qed.
Lemma last_firstn_nth (s : bytes) k : (0 < k <= length s)%nat -> last_byte (firstn k s) = nth (k - 1) s 0.
Proof.
  unfold last_byte. revert k. induction s as [|c s IH]; intros k H; [cbn in H; lia|].
  destruct k as [|k]; [lia|]. destruct k as [|k].
  - cbn. destruct s; reflexivity.
  - cbn [firstn]. replace (S (S k) - 1)%nat with (S k) by lia. cbn [nth].
    specialize (IH (S k) ltac:(cbn in H; lia)). replace (S k - 1)%nat with k in IH by lia.
    cbn [firstn] in IH. destruct s as [|c2 s]; [cbn in H; lia|]. cbn [firstn last] in *. exact IH.
Qed.

Lemma loop_wild t local : table_ok t -> has 0 local = false ->
  forall k, (k <= length local)%nat ->
  nughde_loop (compile t) (wildchars_of t []) (BANG :: lowers local ++ [0]) local (S k) true = desc t local k.
Proof.
  intros Ht Hl. induction k as [|k IH]; intros Hk.
  - cbn [nughde_loop desc]. cbn [Nat.eqb orb negb firstn].
    unfold compile. rewrite cdb_find_app_l.
    change [BANG] with (BANG :: []). rewrite (find_records_wild t [] Ht eq_refl).
    destruct (find_wild t []) as [l|]; [reflexivity|]. cbn. reflexivity.
  - cbn [nughde_loop desc]. cbn [negb orb].
    replace (S (S k) - 1)%nat with (S k) by lia.
    assert (Hkey : firstn (S (S k)) (BANG :: lowers local ++ [0]) = BANG :: firstn (S k) (lowers local)) by (apply firstn_lower_prefix; lia).
    assert (Hnf : has 0 (firstn (S k) (lowers local)) = false) by (apply has_firstn0; rewrite has_lowers_nul; exact Hl).
    assert (Hfind : cdb_find (compile t) (BANG :: firstn (S k) (lowers local)) = option_map data_of (find_wild t (firstn (S k) (lowers local)))).
    { unfold compile. rewrite cdb_find_app_l, (find_records_wild t _ Ht Hnf).
      destruct (find_wild t _); [reflexivity|]. cbn. reflexivity. }
    destruct (Nat.eqb (S (S k)) 1 || has (nth (S k) (BANG :: lowers local ++ [0]) 0) (wildchars_of t [])) eqn:Etry.
    + rewrite Hkey, Hfind. destruct (find_wild t (firstn (S k) (lowers local))) as [l|]; [reflexivity|].
      cbn [option_map]. apply IH. lia.
    + (* position skipped: then no wildcard of that exact prefix exists *)
      destruct (find_wild t (firstn (S k) (lowers local))) as [l|] eqn:Ef; [|apply IH; lia].
      exfalso. apply find_wild_in in Ef as (Hin & Hkd & Hloc).
      assert (Hne : a_loc l <> []).
      { intro E. rewrite E in Hloc. cbn in Hloc. destruct (lowers local) eqn:El; [|discriminate].
        unfold lowers in El. apply map_eq_nil in El. subst local. cbn in Hk. lia. }
      pose proof (wildchars_sound_l t [] l Hin Hkd Hne) as Hw. rewrite Hloc in Hw.
      rewrite last_firstn_nth in Hw by (unfold lowers; rewrite map_length; lia).
      replace (S k - 1)%nat with k in Hw by lia.
      apply orb_false_iff in Etry as [_ Etry]. cbn [nth] in Etry.
      rewrite app_nth1 in Etry by (unfold lowers; rewrite map_length; lia). congruence.
Qed.

Lemma nughde_loop_S db wild lower local i' fw :
  nughde_loop db wild lower local (S i') fw =
    match (if negb fw || Nat.eqb (S i') 1 || has (nth (S i' - 1) lower 0) wild then cdb_find db (firstn (S i') lower) else None) with
    | Some d => Some (if fw then d ++ skipn (S i' - 1) local else d)
    | None => nughde_loop db wild lower local i' true
    end.
Proof. reflexivity. Qed.

Lemma nughde_eq_spec_l t local : table_ok t -> has 0 local = false ->
  nughde_get (compile t) local = match lookup_spec t local with Some d => LFound d | None => LNone end.
Proof.
  intros Ht Hl. unfold nughde_get, lookup_spec. rewrite compile_wildchars.
  set (lower := BANG :: lowers local ++ [0]).
  assert (Hlen : length lower = S (S (length local))).
  { unfold lower. cbn. rewrite app_length. unfold lowers. rewrite map_length. cbn. lia. }
  rewrite Hlen. rewrite nughde_loop_S. cbn [negb orb].
  assert (Hfull : firstn (S (S (length local))) lower = lower) by (rewrite <- Hlen; apply firstn_all).
  rewrite Hfull. unfold lower at 1. unfold compile. rewrite cdb_find_app_l, (find_records_exact t local Ht Hl).
  destruct (find_exact t local) as [d|]; [reflexivity|].
  cbn [cdb_find].
  assert (Hb : beq [] (BANG :: lowers local ++ [0]) = false) by reflexivity. rewrite Hb.
  fold (compile t). unfold lower. rewrite (loop_wild t local Ht Hl (length local) (le_n _)).
  destruct (desc t local (length local)); reflexivity.
Qed.

(* ---------------------------------------------------------------- privilege drop *)
Lemma exec_only_after_drop_l uid gid f u g :
  In (PExec u g) (spawn_child uid gid f) ->
  spawn_child uid gid f = [PSetGroups g true; PSetGid g true; PSetUid u true; PExec u g] /\ u <> 0 /\
  u = uid mod 4294967296 /\ g = gid mod 4294967296.
Proof.
  unfold spawn_child.
  destruct (pf_setgroups f); [cbn; intros [H|[H|[]]]; discriminate|].
  destruct (pf_setgid f); [cbn; intros [H|[H|[H|[]]]]; discriminate|].
  destruct (pf_setuid f); [cbn; intros [H|[H|[H|[H|[]]]]]; discriminate|].
  destruct (N.eqb_spec (uid mod 4294967296) 0) as [E|E]; cbn; intros [H|[H|[H|[H|[]]]]]; try discriminate.
  injection H as <- <-. auto.
Qed.

Lemma spawn_failure_defers uid gid f c : In (PExit c) (spawn_child uid gid f) -> lspawn_verdict false c = 90.
Proof.
  unfold spawn_child.
  destruct (pf_setgroups f); [cbn; intros [H|[H|[]]]; try discriminate; injection H as <-; reflexivity|].
  destruct (pf_setgid f); [cbn; intros [H|[H|[H|[]]]]; try discriminate; injection H as <-; reflexivity|].
  destruct (pf_setuid f); [cbn; intros [H|[H|[H|[H|[]]]]]; try discriminate; injection H as <-; reflexivity|].
  destruct (uid mod 4294967296 =? 0); cbn; intros [H|[H|[H|[H|[]]]]]; try discriminate; injection H as <-; reflexivity.
Qed.

(* lookup and set-up errors (the QLX codes) defer; only qmail-local's own 100/other exit bounces *)
Lemma qlx_codes_defer : forallb (fun c => lspawn_verdict false c =? 90) [112;113;115;116;117;118;119;120;121;111;71;74;75] = true.
Proof. vm_compute. reflexivity. Qed.
Lemma crash_defers c : lspawn_verdict true c = 90.
Proof. reflexivity. Qed.

(* ---------------------------------------------------------------- password-file rules *)
Lemma userext_sound pw local : forall cut a dash ext,
  userext pw local cut = Some (a, dash, ext) ->
  ac_uid a <> 0 /\ ac_home_owner a = Some (ac_uid a) /\ exists c, (c <= cut)%nat /\ (c < USERLEN)%nat /\
    find_acct pw (lowers (firstn c local)) = Some a /\ ext = skipn (S c) local /\
    (c = length local \/ nth c local 0 = BREAKc).
Proof.
  induction cut as [|cut IH]; intros a dash ext H; cbn [userext] in H.
  - destruct (Nat.ltb 0 USERLEN && (Nat.eqb 0 (length local) || (nth 0 local 0 =? BREAKc))) eqn:E; [|discriminate].
    destruct (find_acct pw (lowers (firstn 0 local))) as [a0|] eqn:Ea; [|discriminate].
    destruct (negb (ac_uid a0 =? 0) && _) eqn:Eo; [|discriminate]. injection H as <- <- <-.
    apply andb_true_iff in Eo as [E1 E2]. apply negb_true_iff, N.eqb_neq in E1.
    destruct (ac_home_owner a0) as [o|]; [|discriminate]. apply N.eqb_eq in E2. subst o.
    apply andb_true_iff in E as [_ E]. repeat split; auto. exists 0%nat. repeat split; auto; try (unfold USERLEN; lia).
    apply orb_true_iff in E as [E|E]; [left; apply Nat.eqb_eq in E; exact E|right; apply N.eqb_eq; exact E].
  - destruct (Nat.ltb (S cut) USERLEN && (Nat.eqb (S cut) (length local) || (nth (S cut) local 0 =? BREAKc))) eqn:E.
    + destruct (find_acct pw (lowers (firstn (S cut) local))) as [a0|] eqn:Ea.
      * destruct (negb (ac_uid a0 =? 0) && _) eqn:Eo.
        -- injection H as <- <- <-.
           apply andb_true_iff in Eo as [E1 E2]. apply negb_true_iff, N.eqb_neq in E1.
           destruct (ac_home_owner a0) as [o|]; [|discriminate]. apply N.eqb_eq in E2. subst o.
           apply andb_true_iff in E as [El E]. apply Nat.ltb_lt in El. repeat split; auto. exists (S cut). repeat split; auto.
           apply orb_true_iff in E as [E|E]; [left; apply Nat.eqb_eq in E; exact E|right; apply N.eqb_eq; exact E].
        -- destruct (IH _ _ _ H) as (A & B & c & Hc & R). repeat split; auto. exists c. split; [lia|exact R].
      * destruct (IH _ _ _ H) as (A & B & c & Hc & R). repeat split; auto. exists c. split; [lia|exact R].
    + destruct (IH _ _ _ H) as (A & B & c & Hc & R). repeat split; auto. exists c. split; [lia|exact R].
Qed.

(* ---------------------------------------------------------------- what desc picks *)
Lemma desc_some t local : forall n r, desc t local n = Some r ->
  exists k l, (k <= n)%nat /\ find_wild t (firstn k (lowers local)) = Some l /\
              r = data_of l ++ skipn k local /\
              forall k', (k < k' <= n)%nat -> find_wild t (firstn k' (lowers local)) = None.
Proof.
  induction n as [|n IH]; intros r H; cbn [desc] in H.
  - destruct (find_wild t (firstn 0 (lowers local))) as [l|] eqn:E; [|discriminate].
    injection H as <-. exists 0%nat, l. repeat split; auto. intros k' Hk. lia.
  - destruct (find_wild t (firstn (S n) (lowers local))) as [l|] eqn:E.
    + injection H as <-. exists (S n), l. repeat split; auto. intros k' Hk. lia.
    + destruct (IH _ H) as (k & l & Hk & Hf & Hr & Hmax). exists k, l. repeat split; auto.
      intros k' Hk'. destruct (Nat.eq_dec k' (S n)) as [->|Hne]; [exact E|apply Hmax; lia].
Qed.
Lemma desc_none t local : forall n, desc t local n = None ->
  forall k, (k <= n)%nat -> find_wild t (firstn k (lowers local)) = None.
Proof.
  induction n as [|n IH]; intros H k Hk; cbn [desc] in H.
  - destruct (find_wild t (firstn 0 (lowers local))) eqn:E; [discriminate|]. replace k with 0%nat by lia. exact E.
  - destruct (find_wild t (firstn (S n) (lowers local))) eqn:E; [discriminate|].
    destruct (Nat.eq_dec k (S n)) as [->|Hne]; [exact E|apply IH; [exact H|lia]].
Qed.
(* first duplicate wins: find_wild/find_exact return the earliest entry in file order *)
Lemma find_wild_first t1 l t2 k : a_kind l = AWild -> lowers (a_loc l) = k ->
  (forall l', In l' t1 -> a_kind l' = AWild -> lowers (a_loc l') <> k) ->
  find_wild (t1 ++ l :: t2) k = Some l.
Proof.
  intros Hk Hl. induction t1 as [|l0 t1 IH]; intros Hno; cbn [app find_wild].
  - rewrite Hk. replace (beq (lowers (a_loc l)) k) with true; [reflexivity|]. symmetry. apply beq_eq. exact Hl.
  - destruct (a_kind l0) eqn:E0; [apply IH; intros; apply Hno; [right|]; assumption|].
    destruct (beq (lowers (a_loc l0)) k) eqn:Eb.
    + apply beq_eq in Eb. exfalso. apply (Hno l0); [left; reflexivity|exact E0|exact Eb].
    + apply IH. intros; apply Hno; [right|]; assumption.
Qed.
Lemma find_exact_first t1 l t2 local : a_kind l = AExact -> lowers (a_loc l) = lowers local ->
  (forall l', In l' t1 -> a_kind l' = AExact -> lowers (a_loc l') <> lowers local) ->
  find_exact (t1 ++ l :: t2) local = Some (data_of l).
Proof.
  intros Hk Hl. induction t1 as [|l0 t1 IH]; intros Hno; cbn [app find_exact].
  - rewrite Hk. replace (beq (lowers (a_loc l)) (lowers local)) with true; [reflexivity|]. symmetry. apply beq_eq. exact Hl.
  - destruct (a_kind l0) eqn:E0; [|apply IH; intros; apply Hno; [right|]; assumption].
    destruct (beq (lowers (a_loc l0)) (lowers local)) eqn:Eb.
    + apply beq_eq in Eb. exfalso. apply (Hno l0); [left; reflexivity|exact E0|exact Eb].
    + apply IH. intros; apply Hno; [right|]; assumption.
Qed.
Lemma find_exact_none t local : find_exact t local = None ->
  forall l, In l t -> a_kind l = AExact -> lowers (a_loc l) <> lowers local.
Proof.
  induction t as [|l0 t IH]; intros H l Hin Hk; [contradiction|]. cbn [find_exact] in H.
  destruct Hin as [->|Hin].
  - rewrite Hk in H. destruct (beq (lowers (a_loc l)) (lowers local)) eqn:Eb; [discriminate|].
    intro E. assert (beq (lowers (a_loc l)) (lowers local) = true) by (apply beq_eq; exact E). congruence.
  - destruct (a_kind l0); [destruct (beq _ _); [discriminate|]|]; apply IH; assumption.
Qed.
Lemma find_wild_none t k : find_wild t k = None ->
  forall l, In l t -> a_kind l = AWild -> lowers (a_loc l) <> k.
Proof.
  induction t as [|l0 t IH]; intros H l Hin Hk; [contradiction|]. cbn [find_wild] in H.
  destruct Hin as [->|Hin].
  - rewrite Hk in H. destruct (beq (lowers (a_loc l)) k) eqn:Eb; [discriminate|].
    intro E. assert (beq (lowers (a_loc l)) k = true) by (apply beq_eq; exact E). congruence.
  - destruct (a_kind l0); [|destruct (beq _ _); [discriminate|]]; apply IH; assumption.
Qed.

(* the getpw fallback: alias with the whole local part as extension *)
Lemma getpw_alias pw local : userext pw local (length local) = None ->
  getpw pw local = match find_acct pw s_alias with
                   | Some a => Some (ac_name a, ac_uid a, ac_gid a, ac_home a, [BREAKc], local)
                   | None => None end.
Proof. intros H. unfold getpw. rewrite H. reflexivity. Qed.
(* longest first: the cut chosen is the largest one that qualifies *)
Definition qualifies (pw : list acct) (local : bytes) (c : nat) : bool :=
  Nat.ltb c USERLEN && (Nat.eqb c (length local) || (nth c local 0 =? BREAKc)) &&
  match find_acct pw (lowers (firstn c local)) with
  | Some a => negb (ac_uid a =? 0) && (match ac_home_owner a with Some o => o =? ac_uid a | None => false end)
  | None => false end.
Lemma userext_none pw local : forall cut, userext pw local cut = None ->
  forall c, (c <= cut)%nat -> qualifies pw local c = false.
Proof.
  induction cut as [|cut IH]; intros H c Hc; cbn [userext] in H.
  - replace c with 0%nat by lia. unfold qualifies.
    destruct (Nat.ltb 0 USERLEN && _) eqn:E; [|reflexivity]. cbn [andb].
    destruct (find_acct pw _) as [a|]; [|reflexivity]. destruct (negb _ && _); [discriminate|reflexivity].
  - destruct (Nat.eq_dec c (S cut)) as [->|Hne].
    + unfold qualifies. destruct (Nat.ltb (S cut) USERLEN && _) eqn:E; [|reflexivity]. cbn [andb].
      destruct (find_acct pw _) as [a|]; [|reflexivity]. destruct (negb _ && _); [discriminate|reflexivity].
    + apply IH; [|lia]. destruct (Nat.ltb (S cut) USERLEN && _); [|exact H].
      destruct (find_acct pw _) as [a|]; [|exact H]. destruct (negb _ && _); [discriminate|exact H].
Qed.
Lemma userext_longest pw local : forall cut a dash ext, userext pw local cut = Some (a, dash, ext) ->
  exists c, (c <= cut)%nat /\ qualifies pw local c = true /\ find_acct pw (lowers (firstn c local)) = Some a /\
    ext = skipn (S c) local /\ dash = (if Nat.eqb c (length local) then [] else [BREAKc]) /\
    forall c', (c < c' <= cut)%nat -> qualifies pw local c' = false.
Proof.
  induction cut as [|cut IH]; intros a dash ext H; cbn [userext] in H.
  - exists 0%nat. unfold qualifies.
    destruct (Nat.ltb 0 USERLEN && _) eqn:E; [|discriminate]. cbn [andb].
    destruct (find_acct pw _) as [a0|]; [|discriminate]. destruct (negb _ && _) eqn:Eo; [|discriminate].
    injection H as <- <- <-. repeat split; auto. intros; lia.
  - destruct (Nat.ltb (S cut) USERLEN && (Nat.eqb (S cut) (length local) || (nth (S cut) local 0 =? BREAKc))) eqn:E.
    + destruct (find_acct pw (lowers (firstn (S cut) local))) as [a0|] eqn:Ea.
      * destruct (negb (ac_uid a0 =? 0) && _) eqn:Eo.
        -- injection H as <- <- <-. exists (S cut). unfold qualifies. rewrite E, Ea, Eo. repeat split; auto. intros; lia.
        -- destruct (IH _ _ _ H) as (c & Hc & Q & F & X & D & M). exists c. repeat split; auto.
           intros c' Hc'. destruct (Nat.eq_dec c' (S cut)) as [->|Hne]; [|apply M; lia].
           unfold qualifies. rewrite E, Ea, Eo. reflexivity.
      * destruct (IH _ _ _ H) as (c & Hc & Q & F & X & D & M). exists c. repeat split; auto.
        intros c' Hc'. destruct (Nat.eq_dec c' (S cut)) as [->|Hne]; [|apply M; lia].
        unfold qualifies. rewrite E, Ea. reflexivity.
    + destruct (IH _ _ _ H) as (c & Hc & Q & F & X & D & M). exists c. repeat split; auto.
      intros c' Hc'. destruct (Nat.eq_dec c' (S cut)) as [->|Hne]; [|apply M; lia].
      unfold qualifies. rewrite E. reflexivity.
Qed.
Lemma qualifies_nonroot_owner pw local c a : qualifies pw local c = true ->
  find_acct pw (lowers (firstn c local)) = Some a -> ac_uid a <> 0 /\ ac_home_owner a = Some (ac_uid a).
Proof.
  unfold qualifies. intros Q F. rewrite F in Q. apply andb_true_iff in Q as [_ Q].
  apply andb_true_iff in Q as [Q1 Q2]. apply negb_true_iff, N.eqb_neq in Q1. split; [exact Q1|].
  destruct (ac_home_owner a) as [o|]; [|discriminate]. apply N.eqb_eq in Q2. subst. reflexivity.
Qed.
