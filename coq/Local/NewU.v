(* qmail-newu.c: users/assign (text) -> the records of users/cdb, in the order they are written.
   qmail-newmrh.c: control/morercpthosts (text) -> the keys of control/morercpthosts.cdb.
   Together with Base/Cdb.v (cdb_make) this is the whole compiler from text to file image.  No proofs here. *)
From NQ Require Import Base.Bytes Base.Cdb.
Local Open Scope N_scope.

(* getln: pieces ending in LF, then a last piece without LF (possibly empty) *)
Fixpoint getlns (cur : bytes) (s : bytes) : list (bytes * bool) :=
  match s with
  | [] => [(rev cur, false)]
  | c :: s' => if c =? LF then (rev (LF :: cur), true) :: getlns [] s' else getlns (c :: cur) s'
  end.

Fixpoint index_of (c : N) (s : bytes) : option nat :=
  match s with
  | [] => None
  | x :: s' => if x =? c then Some O else match index_of c s' with Some i => Some (S i) | None => None end
  end.

(* the data part: the first six colons become NUL, the sixth ends it; fewer than six = format error *)
Fixpoint six_fields (n : nat) (s : bytes) : option bytes :=
  match s with
  | [] => None
  | c :: s' =>
      if c =? 58 then
        match n with
        | O => None                                  (* not reached: n counts colons still wanted, >= 1 *)
        | S O => Some []
        | S n' => match six_fields n' s' with Some r => Some (0 :: r) | None => None end
        end
      else match six_fields n s' with Some r => Some (c :: r) | None => None end
  end.

Definition PLUS : N := 43.
(* one line (with its LF): Some (key, data, new wildchars) or None = "bad format" *)
Definition newu_line (wild : bytes) (line : bytes) : option (rec * bytes) :=
  if has 0 line then None else
  match index_of 58 line with
  | None => None
  | Some O => None
  | Some i =>
      let name := lowers (firstn (i - 1) (skipn 1 line)) in
      match six_fields 6 (skipn (S i) line) with
      | None => None
      | Some data =>
          match line with
          | c :: _ =>
              if c =? PLUS then
                let wild' := match rev name with
                             | last :: _ => if has last wild then wild else wild ++ [last]
                             | [] => wild
                             end in
                Some ((33 :: name, data), wild')
              else Some ((33 :: name ++ [0], data), wild)
          | [] => None
          end
      end
  end.

Fixpoint newu_loop (ls : list (bytes * bool)) (wild : bytes) (acc : list rec) : option (list rec) :=
  match ls with
  | [] => None                                        (* not reached: getlns ends with an unterminated piece *)
  | (line, terminated) :: ls' =>
      match line with
      | c :: _ => if c =? DOT then Some (rev acc ++ [([], wild)]) else
                  if negb terminated then None else
                  match newu_line wild line with
                  | Some (r, wild') => newu_loop ls' wild' (r :: acc)
                  | None => None
                  end
      | [] => if negb terminated then None else None   (* an empty line cannot occur terminated; EOF without "." *)
      end
  end.
Definition newu (text : bytes) : option (list rec) := newu_loop (getlns [] text) [] [].
Definition newu_image (text : bytes) : option bytes := option_map cdb_make (newu text).

(* ---- qmail-newmrh ---- *)
Fixpoint strip_rev (r : bytes) : bytes :=
  match r with
  | c :: r' => if (c =? 32) || (c =? LF) || (c =? 9) then strip_rev r' else r
  | [] => []
  end.
Definition newmrh_key (line : bytes) : option bytes :=
  match rev (strip_rev (rev (lowers line))) with
  | [] => None
  | c :: k => if c =? 35 then None else Some (c :: k)
  end.
Definition newmrh_keys (text : bytes) : list bytes :=
  flat_map (fun lt => match newmrh_key (fst lt) with Some k => [k] | None => [] end) (getlns [] text).
Definition newmrh_image (text : bytes) : bytes := cdb_make (map (fun k => (k, [])) (newmrh_keys text)).
