From NQ Require Import Base.Bytes Local.DotQmail Local.Owner.
Local Open Scope N_scope.

(* a bounce and a double bounce keep their sender whatever files exist *)
Theorem marker_sender_kept : forall sender local host dash ext st,
  sender = [] \/ sender = s_dbl_ -> forward_sender sender local host dash ext st = Some sender.
Proof. intros sender local host dash ext st [-> | ->]; reflexivity. Qed.

Lemma owner_form_not_marker (local tail : bytes) : local ++ s_owner ++ tail <> [] /\ local ++ s_owner ++ tail <> s_dbl_.
Proof.
  split; intro H; apply (f_equal (@length N)) in H; rewrite !app_length in H; cbn [length s_owner s_dbl_] in H; lia.
Qed.

(* forwarding never turns an ordinary message into a bounce or a double bounce, and never the reverse:
   the marker senders are exactly preserved *)
Theorem forward_keeps_markers : forall sender local host dash ext st s',
  forward_sender sender local host dash ext st = Some s' ->
  (s' = [] <-> sender = []) /\ (s' = s_dbl_ <-> sender = s_dbl_).
Proof.
  intros sender local host dash ext st s' H. unfold forward_sender in H.
  destruct (beq sender [] || beq sender s_dbl_) eqn:E; [injection H as <-; tauto|].
  apply orb_false_iff in E as [E1 E2].
  assert (N1 : sender <> []) by (intro X; rewrite X in E1; discriminate).
  assert (N2 : sender <> s_dbl_) by (intro X; rewrite X in E2; discriminate).
  destruct (st (owner_file dash ext s_owner)); [injection H as <-; tauto | discriminate |].
  destruct (st (owner_file dash ext s_owner_default)); [| discriminate |]; injection H as <-.
  - destruct (owner_form_not_marker local ([64] ++ host)) as [M1 M2]. tauto.
  - destruct (owner_form_not_marker local ([45; 64] ++ host ++ [45; 64; 91; 93])) as [M1 M2]. tauto.
Qed.

(* the owner forms, literally *)
Theorem forward_sender_forms : forall sender local host dash ext st s',
  forward_sender sender local host dash ext st = Some s' ->
  s' = sender \/ s' = local ++ s_owner ++ [64] ++ host \/ s' = local ++ s_owner ++ [45; 64] ++ host ++ [45; 64; 91; 93].
Proof.
  intros sender local host dash ext st s' H. unfold forward_sender in H.
  destruct (beq sender [] || beq sender s_dbl_); [injection H as <-; auto|].
  destruct (st (owner_file dash ext s_owner)); [injection H as <-; auto | discriminate |].
  destruct (st (owner_file dash ext s_owner_default)); [| discriminate |]; injection H as <-; auto.
Qed.
