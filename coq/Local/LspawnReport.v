(* qmail-lspawn.c report(): the bytes written to qmail-send for one finished delivery child (after the delivery number,
   before the terminating NUL that spawn.c adds).  Model only; proofs in LspawnReportProofs.v.
   out = what the child (qmail-local and the programs it ran) wrote to its standard output, any bytes. *)
From NQ Require Export Local.Assign.
Local Open Scope N_scope.

Definition lspawn_crash_text : bytes := [90;113;109;97;105;108;45;108;111;99;97;108;32;99;114;97;115;104;101;100;46;10].     (* "Zqmail-local crashed.\n" *)
(* exit codes that produce a fixed sentence (qlx.h) *)
Definition lspawn_fixed_text (code : N) : option bytes :=
  if code =? 117 then Some [90;84;114;111;117;98;108;101;32;114;101;97;100;105;110;103;32;117;115;101;114;115;47;99;100;98;32;105;110;32;113;109;97;105;108;45;108;115;112;97;119;110;46;10] else    (* ZTrouble reading users/cdb in qmail-lspawn. *)
  if code =? 119 then Some [90;79;117;116;32;111;102;32;109;101;109;111;114;121;32;105;110;32;113;109;97;105;108;45;108;115;112;97;119;110;46;10] else    (* ZOut of memory in qmail-lspawn. *)
  if code =? 118 then Some [90;84;101;109;112;111;114;97;114;121;32;102;97;105;108;117;114;101;32;105;110;32;113;109;97;105;108;45;108;115;112;97;119;110;46;10] else    (* ZTemporary failure in qmail-lspawn. *)
  if code =? 116 then Some [90;85;110;97;98;108;101;32;116;111;32;102;105;110;100;32;97;108;105;97;115;32;117;115;101;114;33;10] else    (* ZUnable to find alias user! *)
  if code =? 113 then Some [90;78;111;116;32;97;108;108;111;119;101;100;32;116;111;32;112;101;114;102;111;114;109;32;100;101;108;105;118;101;114;105;101;115;32;97;115;32;114;111;111;116;46;10] else    (* ZNot allowed to perform deliveries as root. *)
  if code =? 112 then Some [90;73;110;116;101;114;110;97;108;32;113;109;97;105;108;45;108;115;112;97;119;110;32;98;117;103;46;10] else    (* ZInternal qmail-lspawn bug. *)
  if code =? 115 then Some [90;78;70;83;32;102;97;105;108;117;114;101;32;105;110;32;113;109;97;105;108;45;108;111;99;97;108;46;10] else    (* ZNFS failure in qmail-local. *)
  if code =? 126 then Some [68;85;110;97;98;108;101;32;116;111;32;114;117;110;32;113;109;97;105;108;45;108;111;99;97;108;46;10] else    (* DUnable to run qmail-local. *)
  if code =? 120 then Some [90;85;110;97;98;108;101;32;116;111;32;114;117;110;32;113;109;97;105;108;45;108;111;99;97;108;46;10] else    (* ZUnable to run qmail-local. *)
  if code =? 121 then Some [90;85;110;97;98;108;101;32;116;111;32;114;117;110;32;113;109;97;105;108;45;103;101;116;112;119;46;10] else    (* ZUnable to run qmail-getpw. *)
  None.
(* C string: up to the first NUL *)
Fixpoint cstr0 (s : bytes) : bytes :=
  match s with [] => [] | c :: s' => if c =? 0 then [] else c :: cstr0 s' end.
Definition lspawn_report (crashed : bool) (code : N) (out : bytes) : bytes :=
  if crashed then lspawn_crash_text else
  match lspawn_fixed_text code with
  | Some t => t
  | None => lspawn_verdict false code :: cstr0 out
  end.
