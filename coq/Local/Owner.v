(* qmail-local.c: the envelope sender of forwarded copies (ueo / $NEWSENDER): replaced by the owner address when
   .qmail<dash><ext>-owner exists, except for bounces ("") and double bounces ("#@[]").  No proofs here. *)
From NQ Require Import Base.Bytes Local.DotQmail.
Local Open Scope N_scope.

Inductive ostat := OAbsent | OTemp | OExists.          (* stat(): no such file / temporary error / there *)
Definition s_dbl_ : bytes := [35; 64; 91; 93].                                   (* "#@[]" *)
Definition s_owner : bytes := [45;111;119;110;101;114].                          (* "-owner" *)
Definition s_owner_default : bytes := s_owner ++ [45;100;101;102;97;117;108;116]. (* "-owner-default" *)
Definition owner_file (dash ext sfx : bytes) : bytes := s_qmail ++ dash ++ safeext ext ++ sfx.

(* None = temporary failure (exit 111) *)
Definition forward_sender (sender local host dash ext : bytes) (st : bytes -> ostat) : option bytes :=
  if beq sender [] || beq sender s_dbl_ then Some sender else
  match st (owner_file dash ext s_owner) with
  | OTemp => None
  | OAbsent => Some sender
  | OExists =>
      match st (owner_file dash ext s_owner_default) with
      | OTemp => None
      | OExists => Some (local ++ s_owner ++ [45; 64] ++ host ++ [45; 64; 91; 93])   (* local-owner-@host-@[] *)
      | OAbsent => Some (local ++ s_owner ++ [64] ++ host)                         (* local-owner@host *)
      end
  end.
