(* users/assign -> users/cdb (qmail-newu.c), the lookup of qmail-lspawn.c nughde_get(), the password-file
   rules of qmail-getpw.c, the privilege drop of spawn(), the report mapping (C11).  Model only.
   The constant database is abstracted to "first record with that exact key, in insertion order"
   (what cdbmss_add/cdb_seek provide); its byte layout is exercised through the real code. *)
From NQ Require Export Base.CInt.
From Coq Require Export Arith.
Local Open Scope N_scope.

Definition BANG : N := 33.
Definition COLONa : N := 58.

(* one line of users/assign *)
Inductive akind := AExact | AWild.
Record aline := { a_kind : akind; a_loc : bytes; a_fields : list bytes }.     (* user uid gid home dash ext *)

(* ---- qmail-newu: the records written, in order ---- *)
Definition key_of (l : aline) : bytes :=
  match a_kind l with
  | AExact => BANG :: lowers (a_loc l) ++ [0]
  | AWild => BANG :: lowers (a_loc l)
  end.
(* fields joined by NUL; a wildcard entry's extension gets the rest of the address appended *)
Fixpoint join_nul (fs : list bytes) : bytes :=
  match fs with [] => [] | [f] => f | f :: fs' => f ++ 0 :: join_nul fs' end.
Definition data_of (l : aline) : bytes := join_nul (a_fields l).
Definition last_byte (s : bytes) : N := last s 0.
(* characters that end some wildcard prefix (lower-cased), in first-seen order *)
Fixpoint wildchars_of (t : list aline) (acc : bytes) : bytes :=
  match t with
  | [] => acc
  | l :: t' =>
    match a_kind l, a_loc l with
    | AWild, _ :: _ => let c := last_byte (lowers (a_loc l)) in
                       wildchars_of t' (if has c acc then acc else acc ++ [c])
    | _, _ => wildchars_of t' acc
    end
  end.
Definition cdb := list (bytes * bytes).
Definition compile (t : list aline) : cdb :=
  map (fun l => (key_of l, data_of l)) t ++ [([], wildchars_of t [])].
Fixpoint cdb_find (db : cdb) (k : bytes) : option bytes :=
  match db with
  | [] => None
  | (k', d) :: db' => if beq k' k then Some d else cdb_find db' k
  end.

(* ---- nughde_get: the descending loop over key lengths ---- *)
(* lower = "!" ++ lower(local) ++ NUL ; i runs from its length down to 1 *)
Fixpoint nughde_loop (db : cdb) (wild : bytes) (lower local : bytes) (i : nat) (flagwild : bool) : option bytes :=
  match i with
  | O => None
  | S i' =>
    let try_ := negb flagwild || Nat.eqb i 1 || has (nth (i - 1) lower 0) wild in
    match (if try_ then cdb_find db (firstn i lower) else None) with
    | Some d => Some (if flagwild then d ++ skipn (i - 1) local else d)
    | None => nughde_loop db wild lower local i' true
    end
  end.
Inductive lres := LFound (nughde : bytes) | LNone | LBroken.     (* LBroken: no wildcard record -> QLX_CDB *)
Definition nughde_get (db : cdb) (local : bytes) : lres :=
  match cdb_find db [] with
  | None => LBroken
  | Some wild =>
    let lower := BANG :: lowers local ++ [0] in
    match nughde_loop db wild lower local (length lower) false with
    | Some d => LFound d
    | None => LNone
    end
  end.

(* ---- the declarative table lookup (qmail-users(5)) ---- *)
Definition pre_ci (p s : bytes) : bool := is_prefix (lowers p) (lowers s).
Fixpoint find_exact (t : list aline) (local : bytes) : option bytes :=
  match t with
  | [] => None
  | l :: t' => match a_kind l with
               | AExact => if beq (lowers (a_loc l)) (lowers local) then Some (data_of l) else find_exact t' local
               | AWild => find_exact t' local
               end
  end.
(* the longest wildcard whose prefix matches; the first one among equally long *)
Fixpoint best_wild (t : list aline) (local : bytes) (best : option aline) : option aline :=
  match t with
  | [] => best
  | l :: t' =>
    match a_kind l with
    | AWild =>
      if pre_ci (a_loc l) local then
        match best with
        | Some b => if Nat.ltb (length (a_loc b)) (length (a_loc l)) then best_wild t' local (Some l) else best_wild t' local best
        | None => best_wild t' local (Some l)
        end
      else best_wild t' local best
    | AExact => best_wild t' local best
    end
  end.
Definition assign_spec (t : list aline) (local : bytes) : option bytes :=
  match find_exact t local with
  | Some d => Some d
  | None => match best_wild t local None with
            | Some l => Some (data_of l ++ skipn (length (a_loc l)) local)
            | None => None
            end
  end.

(* ---- qmail-getpw: accounts are an oracle (lower-case name -> uid gid home; owner of home) ---- *)
Record acct := { ac_name : bytes; ac_uid : N; ac_gid : N; ac_home : bytes; ac_home_owner : option N }.
Definition USERLEN : nat := 32.
Definition find_acct (pw : list acct) (name : bytes) : option acct :=
  find (fun a => beq (ac_name a) name) pw.
Definition BREAKc : N := 45.
(* cut = length of the candidate user name, from the full local part downwards *)
Fixpoint userext (pw : list acct) (local : bytes) (cut : nat) : option (acct * bytes * bytes) :=
  let here :=
    if Nat.ltb cut USERLEN && (Nat.eqb cut (length local) || (nth cut local 0 =? BREAKc)) then
      match find_acct pw (lowers (firstn cut local)) with
      | Some a => if negb (ac_uid a =? 0) && (match ac_home_owner a with Some o => o =? ac_uid a | None => false end)
                  then Some (a, (if Nat.eqb cut (length local) then [] else [BREAKc]), skipn (S cut) local) else None
      | None => None
      end
    else None in
  match here with
  | Some r => Some r
  | None => match cut with O => None | S c' => userext pw local c' end
  end.
Definition s_alias : bytes := [97;108;105;97;115].
Definition getpw (pw : list acct) (local : bytes) : option (bytes * N * N * bytes * bytes * bytes) :=
  match userext pw local (length local) with
  | Some (a, dash, ext) => Some (ac_name a, ac_uid a, ac_gid a, ac_home a, dash, ext)
  | None => match find_acct pw s_alias with
            | Some a => Some (ac_name a, ac_uid a, ac_gid a, ac_home a, [BREAKc], local)
            | None => None                                  (* QLX_NOALIAS *)
            end
  end.

(* ---- spawn(): the child's privilege drop ---- *)
Inductive pev := PSetGroups (gid : N) (ok : bool) | PSetGid (gid : N) (ok : bool) | PSetUid (uid : N) (ok : bool)
               | PExec (uid gid : N) | PExit (code : N).
Definition QLX_USAGE : N := 112.
Definition QLX_ROOT : N := 113.
Record pfaults := { pf_setgroups : bool; pf_setgid : bool; pf_setuid : bool }.
(* uid/gid as parsed from the nughde (truncated to 32 bits by the uid_t/gid_t assignment) *)
Definition spawn_child (uid gid : N) (f : pfaults) : list pev :=
  let u := uid mod 4294967296 in let g := gid mod 4294967296 in
  if pf_setgroups f then [PSetGroups g false; PExit QLX_USAGE] else
  PSetGroups g true ::
  if pf_setgid f then [PSetGid g false; PExit QLX_USAGE] else
  PSetGid g true ::
  if pf_setuid f then [PSetUid u false; PExit QLX_USAGE] else
  PSetUid u true ::
  if u =? 0 then [PExit QLX_ROOT] else [PExec u g].

(* ---- report(): the child's exit status -> verdict byte ---- *)
Definition lspawn_verdict (crashed : bool) (code : N) : N :=
  if crashed then 90 else
  if (code =? 112) || (code =? 113) || (code =? 115) || (code =? 116) || (code =? 117) || (code =? 118)
     || (code =? 119) || (code =? 120) || (code =? 121) || (code =? 111) || (code =? 71) || (code =? 74) || (code =? 75)
  then 90
  else if code =? 0 then 75 else 68.
