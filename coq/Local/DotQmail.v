(* qmail-local.c: choice of the .qmail file, interpretation of its lines, exit codes, loop
   detection, the header lines it adds (C13).  Model only. *)
From NQ Require Export Base.Bytes.
From Coq Require Export Arith.
Local Open Scope N_scope.

Definition DASHc : N := 45.
Definition COLONc : N := 58.
Definition s_qmail : bytes := [46;113;109;97;105;108].                 (* ".qmail" *)
Definition s_default : bytes := [100;101;102;97;117;108;116].          (* "default" *)

Definition safeext (ext : bytes) : bytes := map (fun c => if lower c =? DOT then COLONc else lower c) ext.

(* qmesearch(): exact name first, then prefix-default for every dash boundary from the right
   (i = len .. 0 with i = 0 or safeext[i-1] = '-') *)
Fixpoint default_cands (dash : bytes) (sx : bytes) (i : nat) : list bytes :=
  let here := if Nat.eqb i 0 || (nth (i - 1) sx 0 =? DASHc)
              then [s_qmail ++ dash ++ firstn i sx ++ s_default] else [] in
  match i with
  | O => here
  | S i' => here ++ default_cands dash sx i'
  end.
Definition candidates (dash ext : bytes) : list bytes :=
  let sx := safeext ext in (s_qmail ++ dash ++ sx) :: default_cands dash sx (length sx).

(* what open()+fstat() finds for a candidate *)
Inductive fstatus :=
  | FAbsent                                   (* ENOENT or not a regular file: keep looking *)
  | FTemp                                     (* temporary error, EPERM, EACCES: defer *)
  | FReg (writable_by_others : bool) (xbit : bool) (content : bytes).

Inductive choice := CFile (xbit : bool) (content : bytes) | CNone | CDefer.
Fixpoint choose (files : bytes -> fstatus) (cands : list bytes) : choice :=
  match cands with
  | [] => CNone
  | c :: cs => match files c with
               | FAbsent => choose files cs
               | FTemp => CDefer
               | FReg w x content => if w then CDefer else CFile x content
               end
  end.

(* ---- the instruction lines ---- *)
Inductive action := AMaildir (p : bytes) | AMbox (p : bytes) | AProgram (cmd : bytes) | AForward (a : bytes).
(* the plan (what qmail-local -n prints, in file order); PDeferAfter = exit 111 after those lines *)
Inductive parsed := PActs (acts : list action) | PDeferAfter (acts : list action).

Fixpoint strip_blanks_rev (r : bytes) : bytes :=
  match r with c :: r' => if (c =? 32) || (c =? 9) then strip_blanks_rev r' else r | [] => [] end.
Definition strip_blanks (l : bytes) : bytes := rev (strip_blanks_rev (rev l)).
Fixpoint cstr (s : bytes) : bytes :=
  match s with [] => [] | c :: s' => if c =? 0 then [] else c :: cstr s' end.
Definition s_list : bytes := [108;105;115;116].
Definition SLASHc : N := 47.
Definition last_byte (l : bytes) : N := last l 0.

(* one instruction line, by its first character *)
Inductive instr := IBlank | IComment | IFile (a : action) | IProg (cmd : bytes) | IPlus (is_list : bool) | IFwd (a : bytes).
Definition classify_line (raw : bytes) : instr :=
  let l := strip_blanks raw in
  match l with
  | [] => IBlank
  | c :: rest =>
    if c =? 0 then IBlank
    else if c =? 35 then IComment
    else if (c =? DOT) || (c =? SLASHc) then IFile (if last_byte l =? SLASHc then AMaildir (cstr l) else AMbox (cstr l))
    else if c =? 124 then IProg (cstr rest)
    else if c =? 43 then IPlus (beq (cstr rest) s_list)
    else if c =? 38 then IFwd (cstr rest)
    else IFwd (cstr l)
  end.

Definition padd (a : list action) (p : parsed) : parsed :=
  match p with PActs r => PActs (a ++ r) | PDeferAfter r => PDeferAfter (a ++ r) end.
(* first = first line of the file; fwdonly = x bit or +list seen *)
Fixpoint parse_lines (ls : list bytes) (first : bool) (fwdonly : bool) : parsed :=
  match ls with
  | [] => PActs []
  | raw :: ls' =>
    match classify_line raw with
    | IBlank => if first then PDeferAfter [] else parse_lines ls' false fwdonly
    | IComment => parse_lines ls' false fwdonly
    | IFile a => if fwdonly then PDeferAfter [] else padd [a] (parse_lines ls' false fwdonly)
    | IProg cmd => if fwdonly then PDeferAfter [] else padd [AProgram cmd] (parse_lines ls' false fwdonly)
    | IPlus b => parse_lines ls' false (fwdonly || b)
    | IFwd a => padd [AForward a] (parse_lines ls' false fwdonly)
    end
  end.

(* the instructions: file content, or the default delivery when there is none / it is empty *)
Definition instructions (ch : choice) (aliasempty : bytes) : option (bytes * bool) :=
  match ch with
  | CDefer => None
  | CNone => Some (aliasempty, false)
  | CFile x content => match content with [] => Some (aliasempty, false) | _ => Some (content, x) end
  end.

(* ---- running the instructions ---- *)
(* outcome of the program on line k: its exit code (None = crashed); of the mailbox delivery on line k *)
Record oracle := { o_prog : nat -> option N; o_deliver : nat -> bool; o_queue : N }.   (* o_queue: 0 ok, 1 D-class, 2 other *)
Definition hard_exit (c : N) : bool :=
  (c =? 100) || (c =? 64) || (c =? 65) || (c =? 70) || (c =? 76) || (c =? 77) || (c =? 78) || (c =? 112).

Inductive step := XDeliver (a : action) | XProgram (cmd : bytes) | XForward (rcpts : list bytes).
Definition scons (x : step) (r : list step * list bytes * option N) :=
  let '(s, f, e) := r in (x :: s, f, e).
(* lines are executed as they are read; k = line number *)
Fixpoint run_lines (ls : list bytes) (first fwdonly : bool) (k : nat) (o : oracle) (fw : list bytes)
  : list step * list bytes * option N :=
  match ls with
  | [] => ([], fw, None)
  | raw :: ls' =>
    match classify_line raw with
    | IBlank => if first then ([], fw, Some 111) else run_lines ls' false fwdonly (S k) o fw
    | IComment => run_lines ls' false fwdonly (S k) o fw
    | IFile a =>
      if fwdonly then ([], fw, Some 111)
      else if o_deliver o k then scons (XDeliver a) (run_lines ls' false fwdonly (S k) o fw)
           else ([XDeliver a], fw, Some 111)
    | IProg cmd =>
      if fwdonly then ([], fw, Some 111) else
      match o_prog o k with
      | None => ([XProgram cmd], fw, Some 111)
      | Some c =>
        if c =? 0 then scons (XProgram cmd) (run_lines ls' false fwdonly (S k) o fw)
        else if c =? 99 then ([XProgram cmd], fw, None)              (* stop reading; earlier forwards still go *)
        else if hard_exit c then ([XProgram cmd], fw, Some 100)
        else ([XProgram cmd], fw, Some 111)
      end
    | IPlus b => run_lines ls' false (fwdonly || b) (S k) o fw
    | IFwd a => run_lines ls' false fwdonly (S k) o (fw ++ [a])
    end
  end.

Record cfg := {
  c_home_writable : bool; c_home_sticky : bool; c_doit : bool;
  c_dash : bytes; c_ext : bytes; c_files : bytes -> fstatus; c_aliasempty : bytes;
  c_looping : bool                       (* the header already carries this Delivered-To line *)
}.

Definition chosen_text (c : cfg) : option (bytes * bool) + N :=
  match choose (c_files c) (candidates (c_dash c) (c_ext c)) with
  | CDefer => inr 111
  | ch => match ch, c_dash c with
          | CNone, _ :: _ => inr 100                                   (* no mailbox here by that name *)
          | _, _ => inl (instructions ch (c_aliasempty c))
          end
  end.

Definition local_run (c : cfg) (o : oracle) : list step * N :=
  if c_home_writable c then ([], 111) else
  if c_home_sticky c && c_doit c then ([], 111) else
  if c_doit c && c_looping c then ([], 100) else
  match chosen_text c with
  | inr code => ([], code)
  | inl None => ([], 111)
  | inl (Some (text, x)) =>
    let '(steps, fw, e) := run_lines (split_lines text) true x 0 o [] in
    match e with
    | Some code => (steps, code)
    | None =>
      match fw with
      | [] => (steps, 0)
      | _ => (steps ++ [XForward fw], if o_queue o =? 0 then 0 else if o_queue o =? 1 then 100 else 111)
      end
    end
  end.

(* the plan printed by qmail-local -n *)
Definition local_plan (c : cfg) : parsed + N :=
  if c_home_writable c then inr 111 else
  match chosen_text c with
  | inr code => inr code
  | inl None => inr 111
  | inl (Some (text, x)) => inl (parse_lines (split_lines text) true x)
  end.

(* ---- header lines ---- *)
Definition s_dt : bytes := [68;101;108;105;118;101;114;101;100;45;84;111;58;32].     (* "Delivered-To: " *)
Definition us (s : bytes) : bytes := map (fun c => if c =? LF then 95 else c) s.
Definition dtline (local host : bytes) : bytes := us (s_dt ++ local ++ [64] ++ host) ++ [LF].
Definition s_rp : bytes := [82;101;116;117;114;110;45;80;97;116;104;58;32;60].       (* "Return-Path: <" *)
Definition rpline (quoted_sender : bytes) : bytes := us (s_rp ++ quoted_sender) ++ [62; LF].
Definition s_from : bytes := [70;114;111;109;32].
Definition s_md : bytes := [77;65;73;76;69;82;45;68;65;69;77;79;78].
Definition ufline (sender date : bytes) : bytes :=
  s_from ++ (match sender with [] => s_md
             | _ => map (fun c => if (c =? 32) || (c =? 9) || (c =? LF) then DASHc else c) sender end)
  ++ [32] ++ date.

(* bouncexf(): header lines up to the first empty line; equal to dtline => looping *)
Fixpoint looping (hdr_lines : list bytes) (dt_noLF : bytes) : bool :=
  match hdr_lines with
  | [] => false
  | l :: ls => match l with [] => false | _ => beq l dt_noLF || looping ls dt_noLF end
  end.
