(* C08 - SMTP transactions are well-sequenced and relaying is gated by policy.
   Only statements; proofs are [exact <lemma>] from Smtp/SmtpdProofs.v.
   Model (Smtp/Smtpd.v): qmail-smtpd.c command handlers (cmd_step for everything but DATA/QUIT,
   data_step for DATA), addrparse, bmfcheck, rcpthosts.c; commands.c line splitting in Base/Commands.v. *)
From NQ Require Import Smtp.Smtpd Smtp.SmtpdProofs Smtp.SessionProofs.
Local Open Scope N_scope.

(* a message is handed to the queue only inside a transaction (MAIL accepted, not ended since) with at
   least one accepted recipient, with exactly the current sender and the current recipients in order *)
Theorem data_submits_current_transaction : forall g st rest qe qtxt c sub rest',
  data_step g st rest qe qtxt = DSub c sub rest' ->
  t_seenmail st = true /\ t_rcpts st <> [] /\ u_sender sub = t_mailfrom st /\ u_rcpts sub = t_rcpts st /\
  exists body, sblast rest = Done body rest' /\ u_body sub = body.
Proof. exact data_submits_current_transaction_l. Qed.
Print Assumptions data_submits_current_transaction.

Theorem data_outside_transaction_refused : forall g st rest qe qtxt,
  t_seenmail st = false \/ t_rcpts st = [] -> data_step g st rest qe qtxt = DRefused 503.
Proof. exact data_outside_transaction_l. Qed.
Print Assumptions data_outside_transaction_refused.

(* an accepted MAIL starts a fresh transaction (recipients cleared, sender replaced, bad-sender flag
   recomputed); a MAIL refused with 555 changes nothing *)
Theorem mail_starts_transaction : forall g st arg c st',
  cmd_step g st s_mail arg = (c, st') ->
  (c = 250 /\ exists a, addrparse g arg = Some a /\ t_seenmail st' = true /\ t_mailfrom st' = a /\ t_rcpts st' = [] /\
                        t_barf st' = bmfcheck g a) \/
  (c = 555 /\ st' = st).
Proof. exact mail_effect_l. Qed.
Print Assumptions mail_starts_transaction.

(* HELO, EHLO and RSET end the transaction (so RCPT/DATA need a new MAIL, which clears the recipients);
   no verb other than RCPT adds a recipient, none other than MAIL changes the sender *)
Theorem helo_ehlo_rset_end_transaction : forall g st v arg,
  (v_is v [104;101;108;111] || v_is v [101;104;108;111] || v_is v [114;115;101;116]) = true ->
  v_is v s_rcpt = false -> v_is v s_mail = false ->
  t_seenmail (snd (cmd_step g st v arg)) = false.
Proof. exact helo_rset_end_transaction. Qed.
Print Assumptions helo_ehlo_rset_end_transaction.

Theorem other_verbs_keep_envelope : forall g st v arg,
  v_is v s_rcpt = false -> v_is v s_mail = false ->
  t_rcpts (snd (cmd_step g st v arg)) = t_rcpts st /\ t_mailfrom (snd (cmd_step g st v arg)) = t_mailfrom st /\
  (t_seenmail (snd (cmd_step g st v arg)) = t_seenmail st \/ t_seenmail (snd (cmd_step g st v arg)) = false).
Proof. exact other_effect_l. Qed.
Print Assumptions other_verbs_keep_envelope.

(* RCPT is answered 250 exactly when: inside a transaction, the address parses (<= 899 bytes), the
   sender is not on the bad-sender list, and relaying is enabled for the connection or the
   (IP-literal-substituted) address passes rcpthosts *)
Theorem rcpt_policy : forall g st arg,
  (fst (cmd_step g st s_rcpt arg) = 250 <->
   t_seenmail st = true /\ exists a, addrparse g arg = Some a /\ t_barf st = false /\
     (g_relayclient g <> None \/ rcpthosts g a = true)).
Proof. exact rcpt_policy_l. Qed.
Print Assumptions rcpt_policy.

(* an accepted RCPT appends exactly one recipient: the parsed address, with the relay suffix exactly
   when relaying is enabled; a refused RCPT changes nothing *)
Theorem rcpt_effect : forall g st arg c st',
  cmd_step g st s_rcpt arg = (c, st') ->
  (c = 250 /\ exists a, addrparse g arg = Some a /\
      st' = add_rcpt st (a ++ match g_relayclient g with Some rc => rc | None => [] end)) \/
  (c <> 250 /\ st' = st).
Proof. exact rcpt_effect_l. Qed.
Print Assumptions rcpt_effect.

Theorem address_length_limit : forall g arg a, addrparse g arg = Some a -> (length a < 900)%nat.
Proof. exact addrparse_length_l. Qed.
Print Assumptions address_length_limit.

(* rcpthosts: no list = allow; no @ = allow; otherwise the lower-cased domain itself or one of its
   suffixes starting at a dot must be listed (case-insensitively) or be in the compiled extra list *)
Theorem rcpthosts_spec : forall g addr,
  rcpthosts g addr = true <->
  g_rcpthosts g = None \/ rchr_opt addr ATc = None \/
  exists rh j sfx, g_rcpthosts g = Some rh /\ rchr_opt addr ATc = Some j /\
    In sfx (dom_suffixes true (lowers (skipn (S j) addr))) /\
    (cm_has rh sfx = true \/ In sfx (g_morercpthosts g)).
Proof. exact rcpthosts_spec_l. Qed.
Print Assumptions rcpthosts_spec.

Theorem rcpthosts_suffixes : forall d sfx,
  In sfx (dom_suffixes true d) <->
  (sfx = d /\ d <> []) \/ exists p t, d = p ++ DOT :: t /\ sfx = DOT :: t /\ p <> [].
Proof. exact dom_suffixes_spec_l. Qed.
Print Assumptions rcpthosts_suffixes.

(* ---- composition over the whole session: for EVERY input byte stream, configuration and queue outcomes ----
   [session_log] is the session function returning, besides replies and submissions, the per-command log
   (verb, argument, reply code; DATA outcomes); [session] is its projection.  The reference tracker
   [ref_step]/[ref_subs]/[ref_ok] looks at that log only (never at the model's state): MAIL answered 250 opens
   a transaction with that sender, RCPT answered 250 appends, HELO/EHLO/RSET answered 250 and a completed
   DATA discard it. *)
Theorem session_is_log_projection : forall fuel g st input qq,
  session fuel g st input qq =
  (log_codes (fst (session_log fuel g st input qq)), log_subs (fst (session_log fuel g st input qq)),
   snd (session_log fuel g st input qq)).
Proof. exact session_is_projection. Qed.
Print Assumptions session_is_log_projection.
Theorem submissions_match_reference : forall g input qq,
  let l := fst (session_log (S (length input)) g st0 input qq) in
  fst (fst (smtp_session g input qq)) = log_codes l /\
  map env_of (snd (fst (smtp_session g input qq))) = ref_subs g None l /\ ref_ok g None l = true.
Proof. exact smtp_session_submissions_match_reference. Qed.
Print Assumptions submissions_match_reference.
(* the same without a tracker: every submission is preceded in the log by a MAIL answered 250 with nothing
   in between that resets the transaction; its sender is that MAIL's address and its recipients are exactly
   the RCPTs answered 250 in between, at least one *)
Theorem submission_sequenced : forall fuel g input qq sub,
  In sub (snd (fst (session fuel g st0 input qq))) ->
  exists pre0 arg mid c post,
    fst (session_log fuel g st0 input qq) = pre0 ++ EvCmd s_mail arg 250 :: mid ++ EvDataDone c sub :: post /\
    quiet mid = true /\ u_sender sub = parsed g arg /\ u_rcpts sub = accepted_rcpts g mid /\ u_rcpts sub <> [].
Proof. exact session_submission_sequenced. Qed.
Print Assumptions submission_sequenced.

Example smtp_nonvacuous :
  let g := {| g_greeting := []; g_liphost := None; g_ipme := []; g_rcpthosts := Some [[111;107]]; g_morercpthosts := [];
              g_bmf := None; g_databytes := 0; g_relayclient := None; g_remotehost := []; g_remoteip := []; g_remoteinfo := None; g_local := [] |} in
  fst (fst (smtp_session g [77;65;73;76;32;60;97;62;10; 82;67;80;84;32;60;98;64;111;107;62;10; 82;67;80;84;32;60;98;64;110;111;62;10; 68;65;84;65;10; 46;13;10; 81;85;73;84;10] []))
  = [250; 250; 553; 354; 250; 221].
Proof. vm_compute. reflexivity. Qed.

(* ---- the tables behind "matches the configured recipient-host lists ... including the compiled extra list" ----
   The session model above tests membership in abstract lists.  The statements below are about the CONCRETE
   tables: the constmap hash table of constmap.c (Base/Constmap.v) built from control/rcpthosts and
   control/badmailfrom, and the byte image of control/morercpthosts.cdb as cdbmss.c/cdbmake_*.c write it and
   cdb_seek.c reads it (Base/Cdb.v), compiled from the text by qmail-newmrh (Local/NewU.v newmrh_image). *)
From NQ Require Base.Cdb Base.CdbProofs Base.Constmap Send.ConstmapProofs Local.NewU Smtp.RcptHosts Smtp.RcptHostsProofs.

(* the reader finds in the file the writer produced exactly the first record with the key (any number of records,
   any keys and data, file below 2^32 bytes) *)
Theorem cdb_reader_finds_what_writer_stored : forall rs key, Cdb.recs_ok rs -> Cdb.bytes_ok key ->
  Cdb.cdb_get (Cdb.cdb_make rs) key = Cdb.get_spec rs key.
Proof. exact CdbProofs.cdb_get_make. Qed.
Print Assumptions cdb_reader_finds_what_writer_stored.

(* whatever bytes the file holds (truncated, damaged, hostile): a positive answer points at a record header inside
   the file with the key's length and the key's bytes after it - garbage is never a match *)
Theorem cdb_positive_answer_is_a_stored_key : forall f key dpos dlen,
  Cdb.cdb_seek f key = Cdb.SFound dpos dlen ->
  exists poskd hdr,
    Cdb.read_at f poskd 8 = Some hdr /\
    Cdb.unpack32 (firstn 4 hdr) = Cdb.blen key /\ Cdb.unpack32 (skipn 4 hdr) = dlen /\
    dpos = poskd + 8 + Cdb.blen key /\
    (key = [] \/ Cdb.read_at f (poskd + 8) (length key) = Some key).
Proof. exact CdbProofs.seek_found_sound. Qed.
Print Assumptions cdb_positive_answer_is_a_stored_key.

(* constmap: the hash folds case exactly as the comparison does, so a lookup is case-insensitive membership *)
Theorem constmap_hash_respects_case : forall a b, ConstmapProofs.bytes_ok a -> ConstmapProofs.bytes_ok b ->
  Constmap.case_eqb a b = true -> Constmap.cm_hash a = Constmap.cm_hash b.
Proof. exact ConstmapProofs.hash_respects_case. Qed.
Print Assumptions constmap_hash_respects_case.
Theorem constmap_is_case_insensitive_membership : forall lines s, Forall ConstmapProofs.bytes_ok lines -> ConstmapProofs.bytes_ok s ->
  (match Constmap.constmap (Constmap.constmap_init lines false) s with Some _ => true | None => false end) = cm_has lines s.
Proof. exact ConstmapProofs.constmap_plain. Qed.
Print Assumptions constmap_is_case_insensitive_membership.

(* rcpthosts() on the concrete tables = the session model's membership test, and it never fails on a file
   qmail-newmrh wrote; bmfcheck() likewise *)
Theorem rcpthosts_on_concrete_tables : forall g text addr,
  g_morercpthosts g = NewU.newmrh_keys text ->
  Cdb.recs_ok (map (fun k => (k, [])) (NewU.newmrh_keys text)) ->
  (forall l, g_rcpthosts g = Some l -> Forall ConstmapProofs.bytes_ok l) -> Cdb.bytes_ok addr ->
  RcptHosts.rcpthosts_c (RcptHosts.maprh_of g) (Some (NewU.newmrh_image text)) addr =
  if rcpthosts g addr then RcptHosts.RHYes else RcptHosts.RHNo.
Proof. exact RcptHostsProofs.rcpthosts_concrete. Qed.
Print Assumptions rcpthosts_on_concrete_tables.
Theorem rcpthosts_without_compiled_list : forall g addr,
  g_morercpthosts g = [] ->
  (forall l, g_rcpthosts g = Some l -> Forall ConstmapProofs.bytes_ok l) -> Cdb.bytes_ok addr ->
  RcptHosts.rcpthosts_c (RcptHosts.maprh_of g) None addr = if rcpthosts g addr then RcptHosts.RHYes else RcptHosts.RHNo.
Proof. exact RcptHostsProofs.rcpthosts_concrete_nocdb. Qed.
Print Assumptions rcpthosts_without_compiled_list.
Theorem badmailfrom_on_concrete_table : forall g addr,
  (forall l, g_bmf g = Some l -> Forall ConstmapProofs.bytes_ok l) -> Cdb.bytes_ok addr ->
  RcptHosts.bmfcheck_c (RcptHosts.mapbmf_of g) addr = bmfcheck g addr.
Proof. exact RcptHostsProofs.bmfcheck_concrete. Qed.
Print Assumptions badmailfrom_on_concrete_table.

(* a damaged or hostile morercpthosts.cdb: "allowed" only through a table hit or a suffix literally stored in the file;
   a read error is its own answer (qmail-smtpd: 421), never "allowed" *)
Theorem rcpthosts_with_any_file : forall m f addr,
  RcptHosts.rcpthosts_c (Some m) (Some f) addr = RcptHosts.RHYes ->
  match rchr_opt addr ATc with
  | None => True
  | Some j =>
      let sfxs := dom_suffixes true (lowers (skipn (S j) addr)) in
      existsb (RcptHosts.cm_hit m) sfxs = true \/
      exists s dpos dlen, In s sfxs /\ Cdb.cdb_seek f s = Cdb.SFound dpos dlen
  end.
Proof. exact RcptHostsProofs.rcpthosts_hostile_file. Qed.
Print Assumptions rcpthosts_with_any_file.

Example concrete_tables_nonvacuous :
  let text := [109;111;114;101;46;100;111;109;10; 46;87;105;108;100;46;68;111;109;32;10] in        (* "more.dom\n.Wild.Dom \n" *)
  NewU.newmrh_keys text = [[109;111;114;101;46;100;111;109]; [46;119;105;108;100;46;100;111;109]] /\
  RcptHosts.rcpthosts_c (Some (Constmap.constmap_init [[111;107;46;100;111;109]] false)) (Some (NewU.newmrh_image text))
     [106;64;120;46;119;105;108;100;46;100;111;109] = RcptHosts.RHYes /\                                (* j@x.wild.dom *)
  RcptHosts.rcpthosts_c (Some (Constmap.constmap_init [[111;107;46;100;111;109]] false)) (Some (firstn 100 (NewU.newmrh_image text)))
     [106;64;120;46;119;105;108;100;46;100;111;109] = RcptHosts.RHErr.                                  (* truncated file *)
Proof. vm_compute. repeat split; reflexivity. Qed.
