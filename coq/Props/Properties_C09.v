(* C09 - Remote delivery verdicts are sound for every server behaviour.
   Only statements; proofs are [exact <lemma>] from Remote/RemoteSmtpProofs.v.
   Models (Remote/RemoteSmtp.v): qmail-remote.c smtpcode()/smtp() as a function of the bytes the
   server sends (their exhaustion is a disconnect), qmail-rspawn.c report(). *)
From NQ Require Import Remote.RemoteSmtp Remote.RemoteSmtpProofs.
Local Open Scope N_scope.

(* for EVERY byte stream a server can send: "K" only if greeting 220, HELO 250, MAIL < 400, at least
   one RCPT < 400 (reported r), DATA < 400, the whole message went out, and the reply after the final
   dot is < 400 *)
Theorem K_sound : forall n b script,
  r_verdict (smtp n b script) = VK ->
  b = true /\
  exists s1 s2 m s3 s4 d s5 f s6,
    smtpcode script = Some (220, s1) /\ smtpcode s1 = Some (250, s2) /\
    smtpcode s2 = Some (m, s3) /\ m < 400 /\
    snd (parse_codes n s3) = Some s4 /\ In c_r (map rep_of (fst (parse_codes n s3))) /\
    r_rcpts (smtp n b script) = map rep_of (fst (parse_codes n s3)) /\
    smtpcode s4 = Some (d, s5) /\ d < 400 /\ smtpcode s5 = Some (f, s6) /\ f < 400 /\
    r_dup (smtp n b script) = false.
Proof. exact smtp_K_sound_l. Qed.
Print Assumptions K_sound.

(* per-recipient reports are the classes of the consecutive RCPT replies, in argument order *)
Theorem rcpt_reports_in_order : forall n i s acc tr,
  let '(rc, tr', o) := rcpt_loop n i s acc tr in
  rc = acc ++ map rep_of (fst (parse_codes n s)) /\ o = snd (parse_codes n s) /\
  (length (fst (parse_codes n s)) <= n)%nat /\
  (o <> None -> length (fst (parse_codes n s)) = n).
Proof. exact rcpt_loop_spec. Qed.
Print Assumptions rcpt_reports_in_order.

Theorem rcpt_report_classes : forall c,
  (rep_of c = c_r <-> c < 400) /\ (rep_of c = c_s <-> 400 <= c < 500) /\ (rep_of c = c_h <-> 500 <= c).
Proof. exact rep_of_classes. Qed.
Print Assumptions rcpt_report_classes.

(* connection loss at any point is a temporary failure ... *)
Theorem disconnect_is_Z : forall n b script,
  has_drop (r_trace (smtp n b script)) = true -> r_verdict (smtp n b script) = VZ.
Proof. exact smtp_drop_Z_l. Qed.
Print Assumptions disconnect_is_Z.

(* ... flagged as a possible duplicate exactly when it happens after the final dot was sent *)
Theorem duplicate_flag_only_after_final_dot : forall n b script,
  r_dup (smtp n b script) = true ->
  r_verdict (smtp n b script) = VZ /\ exists t, r_trace (smtp n b script) = t ++ [SDrop PFinal].
Proof. exact smtp_dup_only_after_dot_l. Qed.
Print Assumptions duplicate_flag_only_after_final_dot.

Theorem bad_greeting_is_temporary : forall n b script g s1,
  smtpcode script = Some (g, s1) -> g <> 220 -> r_verdict (smtp n b script) = VZ.
Proof. exact smtp_greeting_l. Qed.
Print Assumptions bad_greeting_is_temporary.

Theorem mail_reply_classes : forall n b script s1 s2 m s3,
  smtpcode script = Some (220, s1) -> smtpcode s1 = Some (250, s2) -> smtpcode s2 = Some (m, s3) ->
  (500 <= m -> r_verdict (smtp n b script) = VD) /\ (400 <= m < 500 -> r_verdict (smtp n b script) = VZ).
Proof. exact smtp_mail_class_l. Qed.
Print Assumptions mail_reply_classes.

(* the spawner: for every exit status and every output *)
Theorem rspawn_never_upgrades : forall crashed ec out t,
  rspawn_report crashed ec out = c_K :: t ->
  crashed = false /\ ec = 0 /\ exists c0 o1, out = c0 :: o1 /\ c0 <> c_s /\ c0 <> c_h /\
                                     first_kzd (segs [] out) = TPos.
Proof. exact rspawn_never_upgrades_l. Qed.
Print Assumptions rspawn_never_upgrades.

Theorem rspawn_report_has_verdict : forall crashed ec out,
  exists v t, rspawn_report crashed ec out = v :: t /\ (v = c_K \/ v = c_Z \/ v = c_D).
Proof. exact rspawn_first_byte_l. Qed.
Print Assumptions rspawn_report_has_verdict.

Theorem rspawn_failure_exit_codes : forall out ec, ec <> 0 ->
  exists t, rspawn_report false ec out = (if ec =? 111 then c_Z else c_D) :: t.
Proof. exact rspawn_exit_codes_l. Qed.
Print Assumptions rspawn_failure_exit_codes.

Example K_nonvacuous :
  r_verdict (smtp 1 true [50;50;48;10; 50;53;48;45;120;10;50;53;48;32;111;10; 50;53;48;10; 50;53;48;10; 51;53;52;10; 50;53;48;10]) = VK.
Proof. vm_compute. reflexivity. Qed.

(* ---- whose exit status is reported (spawn.c, one delivery slot as a concurrent system) ----
   report() runs when the report pipe reaches end of file and is given d[i].wstat.  Remote/SpawnSlot.v models the
   spawner's loop and SIGCHLD handler against the child and the kernel, for every interleaving. *)
From NQ Require Remote.SpawnSlot Remote.SpawnSlotProofs.
Theorem every_report_carries_its_own_childs_status : forall tr s' outs,
  SpawnSlot.run true SpawnSlot.init tr = Some (s', outs) -> Forall SpawnSlot.honest outs.
Proof. exact SpawnSlotProofs.reports_honest. Qed.
Print Assumptions every_report_carries_its_own_childs_status.
Theorem one_report_per_finished_command : forall keep tr s' outs, SpawnSlot.run keep SpawnSlot.init tr = Some (s', outs) ->
  (length outs + (if SpawnSlot.used s' then 1 else 0) = length (filter (fun e => match e with SpawnSlot.ECmd => true | _ => false end) tr))%nat.
Proof. exact SpawnSlotProofs.one_report_per_command. Qed.
Print Assumptions one_report_per_finished_command.
Theorem without_the_spawners_write_end_a_stale_status_is_reported :
  exists s' outs, SpawnSlot.run false SpawnSlot.init SpawnSlotProofs.bad_trace = Some (s', outs) /\
                  existsb (fun r => negb (SpawnSlot.honestb r)) outs = true.
Proof. exact SpawnSlotProofs.without_own_write_end_refuted. Qed.
Print Assumptions without_the_spawners_write_end_a_stale_status_is_reported.
