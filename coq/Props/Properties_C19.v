(* C19 - The POP3 server shows the maildir faithfully and deletes only on request.
   Only statements; proofs are [exact <lemma>] from Pop/Pop3Proofs.v.
   Model (Pop/Pop3.v): qmail-pop3d.c after start-up, commands.c line splitting. *)
From NQ Require Import Pop.Pop3 Pop.Pop3Proofs Smtp.Codec Local.Mailbox Pop.Popup Pop.PopupProofs.
Local Open Scope N_scope.

(* RETR sends exactly the SMTP-style encoding (LF -> CRLF, leading dots stuffed, lone-dot
   terminator) of the stored file with a final newline added if missing, plus the documented extra
   blank line: for every file content *)
Theorem retr_exact : forall content, pop3_blast content 0 = rfc_encode (msg_plus content ++ [LF]).
Proof. exact retr_is_rfc_encoding_l. Qed.
Print Assumptions retr_exact.

Theorem retr_decodes_to_the_file : forall content,
  sblast (pop3_blast content 0) = Done (msg_plus content ++ [LF]) [].
Proof. exact retr_decodes_l. Qed.
Print Assumptions retr_decodes_to_the_file.

(* TOP n k: the header through the first empty line, then exactly the first k body lines *)
Theorem top_limit : forall content k,
  pop3_blast content (N.of_nat (S k)) =
  concat (map pline (top_lines (split_lines content) k)) ++ [13; 10; 46; 13; 10].
Proof. exact top_limit_l. Qed.
Print Assumptions top_limit.

(* numbering is stable for the whole session *)
Theorem numbering_stable : forall st l, s_msgs (fst (pop3_step st l)) = s_msgs st.
Proof. exact step_msgs_stable. Qed.
Print Assumptions numbering_stable.

(* an accepted message number names an existing, unmarked message; its value is that of the digit
   string modulo 2^64 (scan_ulong; the wrap is a recorded finding) *)
Theorem msgno_accepts_only_valid : forall st arg i,
  msgno st arg = MOk i ->
  (i < length (s_msgs st))%nat /\ nth i (s_deleted st) false = false /\
  N.of_nat (S i) = fst (scan_ulong arg) /\ snd (scan_ulong arg) <> 0%nat.
Proof. exact msgno_ok_l. Qed.
Print Assumptions msgno_accepts_only_valid.

(* marks change only through a successful DELE (that one message) or RSET (all cleared) *)
Theorem marks_change_only_by_dele_or_rset : forall st l,
  s_deleted (fst (pop3_step st l)) = s_deleted st \/
  (verb_of l = s_dele /\ exists i, msgno st (snd (split_command l)) = MOk i /\
                               s_deleted (fst (pop3_step st l)) = upd_bool (s_deleted st) i true) \/
  (verb_of l = s_rset /\ s_deleted (fst (pop3_step st l)) = map (fun _ => false) (s_deleted st)).
Proof. exact step_marks. Qed.
Print Assumptions marks_change_only_by_dele_or_rset.

Theorem bad_number_refused_without_effect : forall st l arg t,
  split_command l = (s_dele, arg) -> msgno st arg = MErr t ->
  pop3_step st l = (st, Reply (err_line t)).
Proof. exact dele_refused_l. Qed.
Print Assumptions bad_number_refused_without_effect.

(* nothing is removed or renamed unless QUIT is given ... *)
Theorem no_quit_no_change : forall st lines,
  Forall (fun l => verb_of l <> s_quit) lines -> snd (session st lines) = [].
Proof. exact session_no_quit. Qed.
Print Assumptions no_quit_no_change.

(* ... and QUIT unlinks exactly the marked messages *)
Theorem quit_unlinks_exactly_marked : forall ms ds f, length ds = length ms ->
  (In (QUnlink f) (quit_ops {| s_msgs := ms; s_deleted := ds; s_last := 0 |}) <->
   exists i, (i < length ms)%nat /\ nth i ds false = true /\
             p_fn (nth i ms {| p_fn := []; p_size := 0; p_content := None |}) = f).
Proof. exact quit_ops_spec. Qed.
Print Assumptions quit_unlinks_exactly_marked.

Example pop3_nonvacuous :
  session (init_state [{| p_fn := [110;101;119;47;97]; p_size := 3; p_content := Some [46;120;10] |}])
          [[68;69;76;69;32;49]; [82;83;69;84]; [68;69;76;69;32;49]; [81;85;73;84]]
  = ([43;79;75;32;13;10;43;79;75;32;13;10;43;79;75;32;13;10;43;79;75;32;13;10], [QUnlink [110;101;119;47;97]]).
Proof. vm_compute. reflexivity. Qed.
(* the recorded finding: DELE 18446744073709551617 is accepted as message 1 *)
Example msgno_wraps_refuted :
  msgno (init_state [{| p_fn := [110;101;119;47;97]; p_size := 3; p_content := None |}])
        [49;56;52;52;54;55;52;52;48;55;51;55;48;57;53;53;49;54;49;55] = MOk 0.
Proof. vm_compute. reflexivity. Qed.

(* ---- qmail-popup: the session before authentication (Pop/Popup.v) ----
   the subprogram is run only with credentials: the most recent non-empty USER argument and the PASS argument, or
   the two words of APOP, byte for byte, followed by the greeting banner *)
Theorem popup_credentials_verbatim : forall banner lines out f,
  popup_session banner ust0 lines = (out, Some f) ->
  exists pre l post user pass,
    lines = pre ++ l :: post /\ f = fd3_of user pass banner /\ user <> [] /\
    ( (fst (split_command l) = [112;97;115;115] /\ snd (split_command l) = pass /\ pass <> [] /\
       exists pre1 lu mid, pre = pre1 ++ lu :: mid /\
         fst (split_command lu) = [117;115;101;114] /\ snd (split_command lu) = user /\
         (forall x, In x mid -> fst (split_command x) <> [117;115;101;114] \/ snd (split_command x) = []))
      \/
      (fst (split_command l) = [97;112;111;112] /\ split_first_space [] (snd (split_command l)) = Some (user, pass)) ).
Proof. exact credentials_verbatim_l. Qed.
Print Assumptions popup_credentials_verbatim.
Theorem popup_no_subprogram_without_credentials : forall banner lines st,
  (forall l, In l lines -> fst (split_command l) <> [112;97;115;115] /\ fst (split_command l) <> [97;112;111;112]) ->
  snd (popup_session banner st lines) = None.
Proof. exact no_subprogram_without_credentials_l. Qed.
Print Assumptions popup_no_subprogram_without_credentials.
Theorem popup_pass_needs_user : forall banner lines,
  (forall l, In l lines -> fst (split_command l) <> [117;115;101;114] /\ fst (split_command l) <> [97;112;111;112]) ->
  snd (popup_session banner ust0 lines) = None.
Proof. exact pass_needs_user_l. Qed.
Print Assumptions popup_pass_needs_user.
(* the three fields handed over contain no NUL, so a client cannot forge a field boundary *)
Theorem popup_fields_cannot_be_forged : forall banner lines out f,
  has 0 banner = false -> popup_session banner ust0 lines = (out, Some f) ->
  exists user pass,
    f = user ++ [0] ++ pass ++ [0] ++ [60] ++ banner ++ [62; 0] /\ has 0 user = false /\ has 0 pass = false /\
    (forall u' p' b', has 0 u' = false -> has 0 p' = false -> has 0 b' = false ->
       f = fd3_of u' p' b' -> u' = user /\ p' = pass /\ b' = banner).
Proof. exact fields_cannot_be_forged_l. Qed.
Print Assumptions popup_fields_cannot_be_forged.
Theorem popup_unknown_verb_refused : forall banner st l,
  fst (split_command l) <> [117;115;101;114] -> fst (split_command l) <> [112;97;115;115] ->
  fst (split_command l) <> [97;112;111;112] -> fst (split_command l) <> [113;117;105;116] ->
  fst (split_command l) <> [110;111;111;112] ->
  popup_step banner st l = (st, UReply (u_err t_authfirst)).
Proof. exact unknown_verb_l. Qed.
Print Assumptions popup_unknown_verb_refused.
