(* C02 - Every queue entry is always in a documented state under any interleaving.
   Only statements; proofs are [exact <lemma>] from Queue/QueueSpecProofs.v.
   Queue/QueueSpec.v is a guarded automaton over the events observable from outside the real programs
   (system calls of qmail-queue, qmail-send, qmail-clean on queue files, spawner traffic, crash/restart);
   the theorems hold for EVERY event sequence it accepts - any number of injectors interleaved in any way with
   the daemon, crashes and restarts at any point.  checks/C02.py translates the system-call log of the real
   programs into these events, requires each to be accepted, and looks at the real queue directory after every
   granted step. *)
From NQ Require Import Queue.QueueSpec Queue.QueueSpecProofs.

(* every message number is in one of the five states of INTERNALS.md section 2, after any accepted history *)
Theorem documented_states : forall es s, run q0 es = Some s -> all_documented s = true.
Proof. exact documented_states_l. Qed.
Print Assumptions documented_states.

(* disappearance order: mess/n goes last ... *)
Theorem mess_is_last : forall es s e s' n, run q0 es = Some s -> step s e = Some s' ->
  f_mess (getm (q_msgs s) n) = true -> f_mess (getm (q_msgs s') n) = false ->
  let m := getm (q_msgs s) n in
  f_intd m = false /\ f_todo m = false /\ f_info m = false /\ f_local m = false /\ f_remote m = false /\ f_bounce m = false.
Proof. exact mess_is_last_l. Qed.
Print Assumptions mess_is_last.
(* ... todo/n goes only when info/n and the channel files are complete and fsynced and intd/n is gone ... *)
Theorem todo_removed_only_after_durable : forall s n s', step s (ECleanTodo n) = Some s' ->
  let m := getm (q_msgs s) n in
  f_info m = true /\ s_info m = true /\ (f_local m = true -> s_local m = true) /\
  (f_remote m = true -> s_remote m = true) /\ f_intd m = false.
Proof. exact todo_removed_only_after_durable_l. Qed.
Print Assumptions todo_removed_only_after_durable.
(* ... leftovers are collected only for a message the daemon is eliminating or one older than 36 hours, and never
   while info/n or todo/n exists *)
Theorem gc_only_when_eliminating_or_old : forall s n f old s', step s (ECleanFoop n f old) = Some s' ->
  let m := getm (q_msgs s) n in f_info m = false /\ f_todo m = false /\ (m_elim m = true \/ old = true).
Proof. exact gc_only_when_eliminating_or_old_l. Qed.
Print Assumptions gc_only_when_eliminating_or_old.
(* a second daemon does not get to act on the queue *)
Theorem second_daemon_refused : forall s a b, q_running s = true -> step s (EStart a b) = None.
Proof. exact second_daemon_refused_l. Qed.
Print Assumptions second_daemon_refused.

(* non-vacuity: a trace observed from the real programs (three recipients: K, Z then K, D; bounce; elimination) is
   accepted with every invariant true after every prefix *)
Example observed_trace_accepted :
  match run q0 real_trace with Some s => all_documented s && no_drop s && conc_ok s | None => false end = true.
Proof. vm_compute. reflexivity. Qed.
