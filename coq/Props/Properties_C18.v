(* C18 - Helpers at trust boundaries act only on validated requests.
   Only statements; proofs are [exact <lemma>] from Queue/CleanProofs.v.
   Models (Queue/Clean.v): qmail-clean.c request handling, spawn.c getcmd()/docmd(),
   qmail-send.c del_dochan(). *)
From NQ Require Import Queue.Clean Queue.CleanProofs Local.LspawnReport Local.LspawnReportProofs.
Local Open Scope N_scope.

(* qmail-clean answers every request with exactly one status byte ... *)
Theorem clean_one_status : forall split req u1 u2,
  length (snd (clean_handle split req u1 u2)) = 1%nat.
Proof. exact clean_one_status_l. Qed.
Print Assumptions clean_one_status.

(* ... changes nothing for a request it rejects ... *)
Theorem clean_reject_no_effect : forall split req u1 u2,
  snd (clean_handle split req u1 u2) = [120] -> fst (clean_handle split req u1 u2) = [].
Proof. exact clean_reject_no_effect_l. Qed.
Print Assumptions clean_reject_no_effect.

(* ... and every path it unlinks is intd/N, mess/(N mod split)/N or todo/N for the number N spelled
   by the all-digit tail of a request "foop/<digits>" or "todo/<digits>" - never any other path *)
Theorem clean_only_named_files : forall split req u1 u2 p,
  In p (fst (clean_handle split req u1 u2)) ->
  exists pre digs,
    req = pre ++ digs /\ forallb is_digit digs = true /\ digs <> [] /\
    let id := fst (scan_ulong digs) in
    (pre = s_foop /\ (p = fmtqfn s_intd id None \/ p = fmtqfn s_mess id (Some split))) \/
    (pre = s_todo /\ (p = fmtqfn s_intd id None \/ p = fmtqfn s_todo id None)).
Proof. exact clean_only_named_l. Qed.
Print Assumptions clean_only_named_files.

(* N is the decimal value of the digits modulo 2^64 (scan_ulong wraps): exact for every request
   naming a number below 2^64; the wrap for longer digit strings is a recorded finding *)
Theorem clean_number_is_decimal_value_mod_2_64 : forall digs,
  forallb is_digit digs = true -> fst (scan_ulong digs) = dec_value digs mod U64.
Proof. exact scan_ulong_value_l. Qed.
Print Assumptions clean_number_is_decimal_value_mod_2_64.

(* the spawners answer every complete delivery command with exactly one action carrying its
   delivery number (an immediate report, or a child whose exit produces the report) *)
Theorem spawn_one_report : forall nspawn used file c,
  sact_delnum (docmd nspawn used file c) = c_delnum c.
Proof. exact docmd_one_report. Qed.
Print Assumptions spawn_one_report.

(* they open only names made of digits and slashes that start with a digit (so inside
   queue/mess, no dot component, not absolute), shorter than 100 bytes *)
Theorem spawn_opens_only_numeric : forall nspawn used file c p,
  sact_path (docmd nspawn used file c) = Some p ->
  p = c_messid c /\ messid_ok_from true p = true /\ p <> [] /\ (length p < 100)%nat.
Proof. exact docmd_opens_only_numeric. Qed.
Print Assumptions spawn_opens_only_numeric.

Theorem spawn_messid_chars : forall m, messid_ok_from true m = true ->
  Forall (fun c => is_digit c = true \/ c = SLASH) m /\ (forall c t, m = c :: t -> is_digit c = true).
Proof. exact messid_ok_chars. Qed.
Print Assumptions spawn_messid_chars.

Theorem spawn_only_regular_owned : forall nspawn used file c d p,
  docmd nspawn used file c = SSpawn d p -> file p = FGood /\ used d = false /\ d < nspawn.
Proof. exact docmd_spawn_only_good. Qed.
Print Assumptions spawn_only_regular_owned.

(* the queue manager: stored reports never exceed REPORTMAX bytes, whatever the channel sends *)
Theorem send_reports_truncated : forall s,
  Forall (fun r => N.of_nat (length r) <= REPORTMAX) (reports s).
Proof. exact reports_bounded_l. Qed.
Print Assumptions send_reports_truncated.

(* out-of-range or unused delivery numbers change nothing *)
Theorem send_ignores_bad_delnum : forall conc used dying d rest,
  conc <= d \/ used d = false -> del_event conc used dying (d :: rest) = DIgnored.
Proof. exact del_ignored_l. Qed.
Print Assumptions send_ignores_bad_delnum.

(* a recipient is finished only by a well-formed K or D report (or Z once the message is dying)
   for a delivery slot that is in use *)
Theorem send_finishes_only_on_K_or_D : forall conc used dying r,
  finishes (del_event conc used dying r) = true ->
  exists d k t, r = d :: k :: t /\ d < conc /\ used d = true /\
                (k = 75 \/ k = 68 \/ (k = 90 /\ dying d = true)).
Proof. exact finishes_only_KD_l. Qed.
Print Assumptions send_finishes_only_on_K_or_D.

(* qmail-lspawn: whatever bytes the delivery child (qmail-local and the programs a user's .qmail runs) wrote, the report for
   its command contains no NUL - spawn.c ends each report with one NUL, so the child's output cannot frame a second report
   or another command's delivery number - and begins with the verdict computed from the exit status alone *)
Theorem lspawn_report_is_one_report : forall crashed code out, ~ In 0 (lspawn_report crashed code out).
Proof. exact lspawn_report_no_nul. Qed.
Print Assumptions lspawn_report_is_one_report.
Theorem lspawn_report_verdict_from_status_only : forall crashed code out,
  hd 0 (lspawn_report crashed code out) = lspawn_verdict crashed code /\ In (lspawn_verdict crashed code) [75; 90; 68].
Proof. intros. split; [apply lspawn_report_head | rewrite <- (lspawn_report_head crashed code out); apply lspawn_report_head_kzd]. Qed.
Print Assumptions lspawn_report_verdict_from_status_only.
Theorem lspawn_report_keeps_nul_free_output : forall code out, lspawn_fixed_text code = None -> ~ In 0 out ->
  lspawn_report false code out = lspawn_verdict false code :: out.
Proof. exact lspawn_report_text. Qed.
Print Assumptions lspawn_report_keeps_nul_free_output.
Example lspawn_report_nonvacuous :
  lspawn_report false 0 [100;111;110;101;10;0;7;75;102;111;114;103;101;100;10] = [75;100;111;110;101;10] /\
  lspawn_report false 100 [110;111] = [68;110;111] /\ (hd 0 (lspawn_report false 117 [75])) = 90.
Proof. repeat split; vm_compute; reflexivity. Qed.

(* before the "fix:" commit qmail-clean answered "x" and executed anyway; the repaired model
   rejects these, the witnesses are kept as regression examples *)
Example clean_rejects_nondigit_tail :
  clean_handle 23 [102;111;111;112;47;49;50;97] UOk UOk = ([], [120]) /\
  clean_handle 23 [116;111;100;111;88;55;55] UOk UOk = ([], [120]).
Proof. split; vm_compute; reflexivity. Qed.
Example clean_nonvacuous :
  clean_handle 23 [102;111;111;112;47;49;50;51] UOk UNoent =
    ([[105;110;116;100;47;49;50;51]; [109;101;115;115;47;56;47;49;50;51]], [43]).
Proof. vm_compute. reflexivity. Qed.
(* the recorded finding: a digit string >= 2^64 acts on the number modulo 2^64 *)
Example clean_wraps_refuted :
  exists digs, forallb is_digit digs = true /\ fst (scan_ulong digs) = 1 /\ dec_value digs = U64 + 1.
Proof. exists [49;56;52;52;54;55;52;52;48;55;51;55;48;57;53;53;49;54;49;55]. repeat split; vm_compute; reflexivity. Qed.
