(* C11 - Local deliveries run as exactly the user the address belongs to, never root.
   Only statements; proofs are [exact <lemma>] from Local/AssignProofs.v.
   Model (Local/Assign.v): qmail-newu.c record order and wildcard-character record, qmail-lspawn.c
   nughde_get() descending loop, qmail-getpw.c userext(), spawn() privilege drop, report() mapping.
   The cdb byte layout (hashing, probing) is abstracted to "first record with that key"; it is
   exercised through the real qmail-newu/cdb_seek by the correspondence check. *)
From NQ Require Import Local.Assign Local.AssignProofs.
Local Open Scope N_scope.

(* the compiled database returns, for every address without NUL and every table whose local parts
   have no NUL (qmail-newu cannot read one: NUL ends the field), exactly what the source table says:
   exact entry first, else the longest prefix that is a wildcard entry, the rest of the address
   appended; [lookup_spec] consults the TABLE only *)
Theorem compiled_lookup_is_table_lookup : forall t local, table_ok t -> has 0 local = false ->
  nughde_get (compile t) local = match lookup_spec t local with Some d => LFound d | None => LNone end.
Proof. exact nughde_eq_spec_l. Qed.
Print Assumptions compiled_lookup_is_table_lookup.

(* what lookup_spec means: a wildcard answer is the LONGEST matching prefix ... *)
Theorem wildcard_is_longest : forall t local n r, desc t local n = Some r ->
  exists k l, (k <= n)%nat /\ find_wild t (firstn k (lowers local)) = Some l /\
              r = data_of l ++ skipn k local /\
              forall k', (k < k' <= n)%nat -> find_wild t (firstn k' (lowers local)) = None.
Proof. exact desc_some. Qed.
Print Assumptions wildcard_is_longest.
Theorem no_wildcard_means_none_matches : forall t local n, desc t local n = None ->
  forall k, (k <= n)%nat -> forall l, In l t -> a_kind l = AWild -> lowers (a_loc l) <> firstn k (lowers local).
Proof. intros t local n H k Hk. exact (find_wild_none t _ (desc_none t local n H k Hk)). Qed.
Print Assumptions no_wildcard_means_none_matches.
(* ... the first duplicate wins, case-insensitively, for wildcard and exact entries *)
Theorem first_duplicate_wins_wild : forall t1 l t2 k, a_kind l = AWild -> lowers (a_loc l) = k ->
  (forall l', In l' t1 -> a_kind l' = AWild -> lowers (a_loc l') <> k) ->
  find_wild (t1 ++ l :: t2) k = Some l.
Proof. exact find_wild_first. Qed.
Print Assumptions first_duplicate_wins_wild.
Theorem first_duplicate_wins_exact : forall t1 l t2 local, a_kind l = AExact -> lowers (a_loc l) = lowers local ->
  (forall l', In l' t1 -> a_kind l' = AExact -> lowers (a_loc l') <> lowers local) ->
  find_exact (t1 ++ l :: t2) local = Some (data_of l).
Proof. exact find_exact_first. Qed.
Print Assumptions first_duplicate_wins_exact.
Theorem no_exact_means_none_matches : forall t local, find_exact t local = None ->
  forall l, In l t -> a_kind l = AExact -> lowers (a_loc l) <> lowers local.
Proof. exact find_exact_none. Qed.
Print Assumptions no_exact_means_none_matches.

(* a database without the wildcard-character record is reported broken (deferral), never "no such user" *)
Theorem missing_wild_record_is_error : forall db local, cdb_find db [] = None -> nughde_get db local = LBroken.
Proof. intros db local H. unfold nughde_get. rewrite H. reflexivity. Qed.
Print Assumptions missing_wild_record_is_error.

(* password-file rules: the account chosen is non-root, owns its home, belongs to the LONGEST
   user-break-extension split that qualifies, and the extension is the rest after the break *)
Theorem getpw_longest_qualifying : forall pw local cut a dash ext, userext pw local cut = Some (a, dash, ext) ->
  exists c, (c <= cut)%nat /\ qualifies pw local c = true /\ find_acct pw (lowers (firstn c local)) = Some a /\
    ext = skipn (S c) local /\ dash = (if Nat.eqb c (length local) then [] else [BREAKc]) /\
    forall c', (c < c' <= cut)%nat -> qualifies pw local c' = false.
Proof. exact userext_longest. Qed.
Print Assumptions getpw_longest_qualifying.
Theorem getpw_never_root_and_owner : forall pw local c a, qualifies pw local c = true ->
  find_acct pw (lowers (firstn c local)) = Some a -> ac_uid a <> 0 /\ ac_home_owner a = Some (ac_uid a).
Proof. exact qualifies_nonroot_owner. Qed.
Print Assumptions getpw_never_root_and_owner.
Theorem getpw_otherwise_alias : forall pw local, userext pw local (length local) = None ->
  (forall c, (c <= length local)%nat -> qualifies pw local c = false) /\
  getpw pw local = match find_acct pw s_alias with
                   | Some a => Some (ac_name a, ac_uid a, ac_gid a, ac_home a, [BREAKc], local)
                   | None => None end.
Proof. intros pw local H. split; [exact (userext_none pw local _ H)|exact (getpw_alias pw local H)]. Qed.
Print Assumptions getpw_otherwise_alias.

(* the delivery agent is executed only after setgroups, setgid and setuid to that user's ids have
   all succeeded, in that order, and never with uid 0: for every uid, gid and fault combination *)
Theorem exec_only_after_full_drop : forall uid gid f u g, In (PExec u g) (spawn_child uid gid f) ->
  spawn_child uid gid f = [PSetGroups g true; PSetGid g true; PSetUid u true; PExec u g] /\ u <> 0 /\
  u = uid mod 4294967296 /\ g = gid mod 4294967296.
Proof. exact exec_only_after_drop_l. Qed.
Print Assumptions exec_only_after_full_drop.
(* a failed set-up step or a refused root delivery is reported as a deferral ('Z'), never a bounce *)
Theorem setup_failure_defers : forall uid gid f c, In (PExit c) (spawn_child uid gid f) -> lspawn_verdict false c = 90.
Proof. exact spawn_failure_defers. Qed.
Print Assumptions setup_failure_defers.
Theorem lookup_error_codes_defer :
  forallb (fun c => lspawn_verdict false c =? 90) [112;113;115;116;117;118;119;120;121;111;71;74;75] = true /\
  forall c, lspawn_verdict true c = 90.
Proof. split; [exact qlx_codes_defer|exact crash_defers]. Qed.
Print Assumptions lookup_error_codes_defer.

(* non-vacuity: an overlapping mixed-case table; exact beats wildcard, the longer wildcard beats the
   shorter, the first duplicate wins, and the compiled lookup agrees *)
Definition ex_t : list aline :=
  [ {| a_kind := AWild;  a_loc := [74;111;101;45];     a_fields := [[97]; [49]; [49]; [47]; [45]; []] |};      (* +Joe-  *)
    {| a_kind := AWild;  a_loc := [106;111;101;45;120;45]; a_fields := [[98]; [50]; [50]; [47]; [45]; []] |};  (* +joe-x- *)
    {| a_kind := AExact; a_loc := [106;111;101;45;120;45;121]; a_fields := [[99]; [51]; [51]; [47]; []; []] |}; (* =joe-x-y *)
    {| a_kind := AWild;  a_loc := [106;111;101;45];    a_fields := [[100]; [52]; [52]; [47]; [45]; []] |} ].   (* +joe- again *)
Example ex_table_ok : table_ok ex_t.
Proof. repeat constructor. Qed.
Definition ex_d (i : nat) : bytes := data_of (nth i ex_t {| a_kind := AExact; a_loc := []; a_fields := [] |}).
Example ex_lookups :
  nughde_get (compile ex_t) [74;79;69;45;120;45;121] = LFound (ex_d 2) /\
  nughde_get (compile ex_t) [106;111;101;45;120;45;122] = LFound (ex_d 1 ++ [122]) /\
  nughde_get (compile ex_t) [106;111;101;45;113] = LFound (ex_d 0 ++ [113]) /\
  nughde_get (compile ex_t) [106;111;101] = LNone.
Proof. vm_compute. repeat split. Qed.
Example ex_drop : In (PExec 1000 100) (spawn_child 1000 100 {| pf_setgroups := false; pf_setgid := false; pf_setuid := false |})
               /\ spawn_child 0 0 {| pf_setgroups := false; pf_setgid := false; pf_setuid := false |} = [PSetGroups 0 true; PSetGid 0 true; PSetUid 0 true; PExit 113]
               /\ spawn_child 4294967296 5 {| pf_setgroups := false; pf_setgid := false; pf_setuid := false |} = [PSetGroups 5 true; PSetGid 5 true; PSetUid 0 true; PExit 113].
Proof. vm_compute. repeat split. do 3 right. left. reflexivity. Qed.

(* ---- from the text of users/assign to the bytes of users/cdb and back ----
   Local/NewU.v models qmail-newu's line parser, Base/Cdb.v the cdb writer and reader on the file image,
   Local/AssignImg.v nughde_get() on that image.  The abstraction "first record with that key" used above
   is now a theorem about the byte layout (hash tables, linear probing). *)
From NQ Require Base.Cdb Base.CdbProofs Local.NewU Local.NewUProofs Local.AssignImg Local.AssignImgProofs.
Theorem newu_parses_canonical_text : forall t, Forall NewUProofs.line_ok t -> NewU.newu (NewUProofs.render t) = Some (compile t).
Proof. exact NewUProofs.newu_render. Qed.
Print Assumptions newu_parses_canonical_text.
Theorem lookup_in_file_image_is_table_lookup : forall db local, Cdb.recs_ok db -> Cdb.bytes_ok local ->
  AssignImg.nughde_get_img (Cdb.cdb_make db) local = nughde_get db local.
Proof. exact AssignImgProofs.nughde_get_img_eq. Qed.
Print Assumptions lookup_in_file_image_is_table_lookup.
Theorem cdb_first_record_with_key : forall rs key, Cdb.recs_ok rs -> Cdb.bytes_ok key ->
  Cdb.cdb_get (Cdb.cdb_make rs) key = Cdb.get_spec rs key.
Proof. exact CdbProofs.cdb_get_make. Qed.
Print Assumptions cdb_first_record_with_key.
Example assign_text_to_image_nonvacuous :
  let t := [{| a_kind := AWild; a_loc := [74;111;101;45]; a_fields := [[106]; [53]; [54]; [47]; [45]; []] |}] in     (* +Joe-:j:5:6:/:-:: *)
  Forall NewUProofs.line_ok t /\
  option_map (fun img => AssignImg.nughde_get_img img [106;111;101;45;120]) (NewU.newu_image (NewUProofs.render t))
  = Some (LFound [106;0;53;0;54;0;47;0;45;0;120]).
Proof. split; [repeat constructor; cbn; intuition discriminate | vm_compute; reflexivity]. Qed.
