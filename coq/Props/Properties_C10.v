(* C10 - Recipients are routed and rewritten exactly by the control files.
   Only statements; proofs are [exact <lemma>] from Send/RouteProofs.v.
   Route.rewrite transcribes the index loops of qmail-send.c rewrite(); Route.route_spec states
   the rules of qmail-send(8)/addresses(5) independently (default host; percent hack repeated
   while the domain is listed; locals on the domain after the last @; then full address,
   domain, dot-suffixes from longest to shortest, catch-all; empty tag = remote; lookups
   case-insensitive). *)
From NQ Require Import Send.Route Send.RouteProofs.
Local Open Scope N_scope.

(* for every configuration and every recipient (any bytes, any number of @ and %) *)
Theorem rewrite_eq_spec : forall c recip, rewrite c recip = route_spec c recip.
Proof. exact rewrite_eq_spec_l. Qed.
Print Assumptions rewrite_eq_spec.

(* per-recipient (VERP) senders: owner-@host-@[] + box@rhost -> owner-box=rhost@host *)
Theorem senderadd_verp : forall owner host box rhost,
  ~ In AT host -> ~ In AT rhost ->
  senderadd (owner ++ AT :: host ++ s_verp) (box ++ AT :: rhost) =
  owner ++ box ++ [EQS] ++ rhost ++ [AT] ++ host.
Proof. exact senderadd_verp_l. Qed.
Print Assumptions senderadd_verp.

Example rewrite_nonvacuous :
  let c := {| envnoathost := [100]; locals := [[108]]; percenthack := [[104]];
              vdoms := [([46; 118], [116]); ([], [99])] |} in
  (* "u%x.v%h@h"  ->  percent hack twice, then wildcard .v  ->  "t-u%x.v@h"?  no: u%x.v@h has domain h *)
  rewrite c [117; 37; 120; 46; 118; 37; 104; 64; 104] = Local [116; 45; 117; 64; 120; 46; 118].
Proof. vm_compute. reflexivity. Qed.
