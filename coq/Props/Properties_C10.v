(* C10 - Recipients are routed and rewritten exactly by the control files.
   Only statements; proofs are [exact <lemma>] from Send/RouteProofs.v.
   Route.rewrite transcribes the index loops of qmail-send.c rewrite(); Route.route_spec states
   the rules of qmail-send(8)/addresses(5) independently (default host; percent hack repeated
   while the domain is listed; locals on the domain after the last @; then full address,
   domain, dot-suffixes from longest to shortest, catch-all; empty tag = remote; lookups
   case-insensitive). *)
From NQ Require Import Send.Route Send.RouteProofs Send.RouteCorollaries.
Local Open Scope N_scope.

(* for every configuration and every recipient (any bytes, any number of @ and %) *)
Theorem rewrite_eq_spec : forall c recip, rewrite c recip = route_spec c recip.
Proof. exact rewrite_eq_spec_l. Qed.
Print Assumptions rewrite_eq_spec.

(* per-recipient (VERP) senders: owner-@host-@[] + box@rhost -> owner-box=rhost@host *)
Theorem senderadd_verp : forall owner host box rhost,
  ~ In AT host -> ~ In AT rhost ->
  senderadd (owner ++ AT :: host ++ s_verp) (box ++ AT :: rhost) =
  owner ++ box ++ [EQS] ++ rhost ++ [AT] ++ host.
Proof. exact senderadd_verp_l. Qed.
Print Assumptions senderadd_verp.

(* ---- the documented rules one by one, as corollaries of rewrite = route_spec (Send/RouteCorollaries.v) ----
   pct_idle c box dom: the percent hack does not fire (domain not listed, or no % in the box part) *)
Theorem local_domain_wins : forall c box dom,
  no_at dom -> pct_idle c box dom -> cm_has (locals c) dom = true ->
  rewrite c (box ++ AT :: dom) = Local (box ++ AT :: dom).
Proof. exact local_domain_wins_l. Qed.
Print Assumptions local_domain_wins.
(* most specific virtual-domain entry first: full address, domain, dot-suffixes longest first, catch-all *)
Theorem vdom_priority : forall c box dom,
  no_at dom -> pct_idle c box dom -> cm_has (locals c) dom = false ->
  let addr := box ++ AT :: dom in
  rewrite c addr =
  match first_key c ([addr; dom] ++ dot_suffixes dom ++ [[]]) with
  | Some [] => Remote addr
  | Some x => Local (x ++ [DASH] ++ addr)
  | None => Remote addr
  end.
Proof. exact vdom_priority_l. Qed.
Print Assumptions vdom_priority.
Theorem default_host : forall c recip,
  no_at recip -> no_at (envnoathost c) -> rewrite c recip = rewrite c (recip ++ AT :: envnoathost c).
Proof. exact default_host_l. Qed.
Print Assumptions default_host.
(* one step of the percent hack: the LAST % becomes the @ when the domain is listed *)
Theorem percent_hack_step : forall c b d2 dom,
  no_at dom -> cm_has (percenthack c) dom = true -> no_pct d2 -> no_at d2 ->
  rewrite c (b ++ PCT :: d2 ++ AT :: dom) = rewrite c (b ++ AT :: d2).
Proof. exact percent_hack_l. Qed.
Print Assumptions percent_hack_step.
(* matching ignores the case of the domain *)
Theorem routing_ignores_domain_case : forall c box dom dom',
  no_at dom -> pct_idle c box dom -> lowers dom = lowers dom' ->
  exists loc pre, rewrite c (box ++ AT :: dom) = mk_route loc (pre ++ box ++ AT :: dom) /\
                  rewrite c (box ++ AT :: dom') = mk_route loc (pre ++ box ++ AT :: dom') /\
                  (pre = [] \/ exists x, x <> [] /\ pre = x ++ [DASH] /\ loc = true).
Proof. exact case_insensitive_l. Qed.
Print Assumptions routing_ignores_domain_case.

Example rewrite_nonvacuous :
  let c := {| envnoathost := [100]; locals := [[108]]; percenthack := [[104]];
              vdoms := [([46; 118], [116]); ([], [99])] |} in
  (* "u%x.v%h@h"  ->  percent hack twice, then wildcard .v  ->  "t-u%x.v@h"?  no: u%x.v@h has domain h *)
  rewrite c [117; 37; 120; 46; 118; 37; 104; 64; 104] = Local [116; 45; 117; 64; 120; 46; 118].
Proof. vm_compute. reflexivity. Qed.

(* ---- the hash table behind cm_lookup / cm_has ----
   rewrite() consults locals, percenthack and virtualdomains through constmap.c.  Base/Constmap.v models that table
   (hash with case folding, mask, chains, most recent first); what it answers is exactly the abstract maps used above. *)
From NQ Require Base.Constmap Send.ConstmapProofs.
Theorem virtualdomains_table_is_last_match_lookup : forall lines s, Forall ConstmapProofs.bytes_ok lines -> ConstmapProofs.bytes_ok s ->
  Constmap.constmap (Constmap.constmap_init lines true) s = cm_lookup (colon_entries lines) s.
Proof. exact ConstmapProofs.constmap_colon. Qed.
Print Assumptions virtualdomains_table_is_last_match_lookup.
Theorem locals_table_is_membership : forall lines s, Forall ConstmapProofs.bytes_ok lines -> ConstmapProofs.bytes_ok s ->
  (match Constmap.constmap (Constmap.constmap_init lines false) s with Some _ => true | None => false end) = cm_has lines s.
Proof. exact ConstmapProofs.constmap_plain. Qed.
Print Assumptions locals_table_is_membership.
Theorem constmap_table_size : forall num, (num < 9223372036854775808)%N ->
  exists k, Constmap.table_size num = (2 ^ k)%N /\ (64 <= Constmap.table_size num)%N /\ (num <= Constmap.table_size num)%N.
Proof. exact ConstmapProofs.table_size_pow2. Qed.
Print Assumptions constmap_table_size.
Example constmap_nonvacuous :
  Constmap.constmap (Constmap.constmap_init [[65;46;100;58;116]; [120]; [97;46;68;58;117]] true) [97;46;100] = Some [117].   (* "A.d:t", "x", "a.D:u" -> "a.d" gives "u" *)
Proof. vm_compute. reflexivity. Qed.
