(* C06 - Outbound SMTP DATA cannot be terminated or hijacked by message content.
   Only statements; every proof is [exact <lemma>] from Smtp/CodecProofs.v.
   rblast is the model of qmail-remote.c blast() (Smtp/Codec.v); it is tied to the C
   function by the correspondence check in checks/C06.py. *)
From NQ Require Import Smtp.Codec Smtp.CodecProofs.
Local Open Scope N_scope.

(* CR LF . CR LF occurs exactly once in the DATA payload (counted with the CR LF that ends
   the DATA command line), and it is its suffix: for every message, of any length. *)
Theorem enc_single_terminator : forall m out,
  rblast m = Some out ->
  occ TERM (CRLF ++ out) = 1%nat /\ exists q, CRLF ++ out = q ++ TERM.
Proof. exact rblast_single_terminator. Qed.
Print Assumptions enc_single_terminator.

(* no bare LF on the wire *)
Theorem enc_no_bare_lf : forall m out, rblast m = Some out -> no_bare_lf 0 out = true.
Proof. exact rblast_no_bare_lf. Qed.
Print Assumptions enc_no_bare_lf.

(* this package's own server (the model of qmail-smtpd.c blast(), C05) reconstructs exactly
   the lines of the message - split at LF, CR LF and bare CR - and consumes everything *)
Theorem enc_lines_own_server : forall m out,
  rblast m = Some out -> exists c, canon m = Some c /\ sblast out = Done c [].
Proof. exact rblast_roundtrip. Qed.
Print Assumptions enc_lines_own_server.

(* the only refusal is the documented one: a partial final line *)
Theorem enc_refuses_iff_partial_line : forall m, rblast m = None <-> canon m = None.
Proof. exact rblast_refuses_iff. Qed.
Print Assumptions enc_refuses_iff_partial_line.

(* byte-identical reconstruction for messages without CR *)
Theorem enc_transparent_crfree : forall m,
  cr_free m = true -> lf_terminated m = true ->
  exists out, rblast m = Some out /\ sblast out = Done m [].
Proof. exact rblast_transparent_crfree. Qed.
Print Assumptions enc_transparent_crfree.

(* the statement is false of the encoder as it was before the "fix:" commit in /repo:
   the witness is message "a\r.\nX\n" *)
Example enc_single_terminator_refuted_pre_fix :
  exists m out, renc_prefix RTop m = Some out /\ occ TERM (CRLF ++ out) = 2%nat.
Proof. exists [97; 13; 46; 10; 88; 10]. eexists. split; [vm_compute; reflexivity | vm_compute; reflexivity]. Qed.

(* non-vacuity: a message with a bare CR followed by a dot is encoded (hypothesis met) *)
Example enc_nonvacuous : rblast [97; 13; 46; 10; 88; 10] = Some [97;13;10;46;46;13;10;88;13;10;46;13;10].
Proof. vm_compute. reflexivity. Qed.
