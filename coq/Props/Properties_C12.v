(* C12 - Mailbox deliveries are complete or absent: maildir atomic, mbox rolled back.
   Only statements; proofs are [exact <lemma>] from Local/MailboxProofs.v.
   Models (Local/Mailbox.v): qmail-local.c maildir_child()/mailfile(), gfrom.c, the reader of mbox(5). *)
From NQ Require Import Local.Mailbox Local.MailboxProofs Local.MailboxConc.
Local Open Scope N_scope.

(* maildir: for every content and fault plan, at every prefix of the writer's events and every crash
   image (file cut anywhere from its fsynced prefix to its length): a name in new/ means the file
   holds exactly Return-Path ++ Delivered-To ++ message, entirely durable *)
Theorem maildir_atomic : forall content f p q k,
  maildir_events content f = p ++ q -> m_new (mrun p) = true ->
  (m_synced (mrun p) <= k <= length (m_data (mrun p)))%nat ->
  firstn k (m_data (mrun p)) = content.
Proof. exact maildir_atomic_l. Qed.
Print Assumptions maildir_atomic.

Theorem maildir_every_prefix_ok : forall content f, mprefixes_ok content mfs0 (maildir_events content f) = true.
Proof. exact maildir_prefixes_ok_l. Qed.
Print Assumptions maildir_every_prefix_ok.

(* success is reported iff the message became visible *)
Theorem maildir_success_iff_visible : forall content f,
  mexit (maildir_events content f) = Some 0 <-> m_new (mrun (maildir_events content f)) = true.
Proof. exact maildir_success_iff_l. Qed.
Print Assumptions maildir_success_iff_visible.

(* mbox: with the lock held, any failing write/read/fsync restores the previous length; success appends
   exactly the entry *)
Theorem mbox_rollback : forall old entry f c,
  bf_lock f = false -> bexit (mailfile_events entry f) = Some c -> c <> 0 ->
  brun old (mailfile_events entry f) = old.
Proof. exact mailfile_rollback_l. Qed.
Print Assumptions mbox_rollback.

Theorem mbox_success_appends : forall old entry f,
  bexit (mailfile_events entry f) = Some 0 -> brun old (mailfile_events entry f) = old ++ entry.
Proof. exact mailfile_success_l. Qed.
Print Assumptions mbox_success_appends.

(* the documented reader splits and unquotes the appended entry back to exactly the delivered message,
   for any message bytes (From_ lines, >From_ lines, NUL, no final newline, empty) and any sender
   text, leaving every earlier message as it was *)
Theorem mbox_roundtrip : forall lo x lh msg,
  Forall nolf lo -> nolf x -> Forall nolf lh ->
  forallb (fun l => negb (gfrom l)) lh = true ->
  let old := join_lines lo in
  let ufline := s_From ++ x ++ [LF] in
  let hdr := join_lines lh in
  mbox_read (old ++ mbox_entry ufline hdr msg) =
  mbox_read old ++ [(s_From ++ x, hdr ++ msg_plus msg)].
Proof. exact mbox_roundtrip_l. Qed.
Print Assumptions mbox_roundtrip.

(* ---- concurrent deliveries, for EVERY number of writers and EVERY schedule (Local/MailboxConc.v) ----
   mbox: writers share one file; flock admits one holder; a step of writer i applies its next event exactly as in
   the single-writer model (appends go to the end of the file, the roll-back truncates to the writer's own
   remembered position).  At every instant the file is the old content, then the complete entries of the writers
   that exited 0 in the order they took the lock, then a prefix of the current holder's entry: no interleaving,
   nothing of a failed writer left behind. *)
Theorem mbox_concurrent_never_interleaves : forall old l sched,
  Forall (fun ef => bf_lock (snd ef) = false) l ->
  let s := crun (mstart old l) sched in
  exists k : nat,
    c_file s = old ++ concat (map (entry_of l) (committed s)) ++
               match c_lock s with None => [] | Some h => firstn k (entry_of l h) end.
Proof. exact mbox_concurrent_no_interleaving. Qed.
Print Assumptions mbox_concurrent_never_interleaves.
Theorem mbox_concurrent_final_file : forall old l sched,
  Forall (fun ef => bf_lock (snd ef) = false) l ->
  let s := crun (mstart old l) sched in
  all_finished s ->
  c_lock s = None /\ c_file s = old ++ concat (map (entry_of l) (committed s)) /\ NoDup (committed s) /\
  forall i, In i (committed s) <-> wexit (c_ws s) i = Some 0.
Proof. exact mbox_concurrent_finished. Qed.
Print Assumptions mbox_concurrent_final_file.
Theorem mbox_concurrent_every_run_can_finish : forall old l sched,
  Forall (fun ef => bf_lock (snd ef) = false) l ->
  exists sched', all_finished (crun (mstart old l) (sched ++ sched')).
Proof. exact mbox_concurrent_can_finish. Qed.
Print Assumptions mbox_concurrent_every_run_can_finish.
(* maildir: deliveries with distinct names share tmp/ and new/; every file visible in new/ under one of their
   names is its writer's complete, fsynced content; foreign files are untouched; nobody's open_excl or link is
   made to fail by another delivery *)
Theorem maildir_concurrent_visible_is_complete : forall d0 l sched,
  NoDup (map fst l) ->
  (forall x, In x (map fst l) -> d_tmp d0 x = None /\ d_new d0 x = None) ->
  let s := mcrun (mdstart d0 l) sched in
  forall y a, d_new (ms_dir s) y = Some a ->
    (exists i x content f, nth_error l i = Some (x, (content, f)) /\ y = x /\
                 i_data (d_ino (ms_dir s) a) = content /\ i_synced (d_ino (ms_dir s) a) = length content)
    \/ (~ In y (map fst l) /\ d_new d0 y = Some a /\ ((a < d_next d0)%nat -> d_ino (ms_dir s) a = d_ino d0 a)).
Proof. exact maildir_concurrent_visible_complete. Qed.
Print Assumptions maildir_concurrent_visible_is_complete.
Theorem maildir_concurrent_deliveries_independent : forall d0 l sched,
  NoDup (map fst l) ->
  (forall x, In x (map fst l) -> d_tmp d0 x = None /\ d_new d0 x = None) ->
  let s := mcrun (mdstart d0 l) sched in
  ms_ok s = true /\ forall i w, nth_error (ms_ws s) i = Some w -> mproj (ms_dir s) w = mrun (mw_done w).
Proof. exact maildir_concurrent_independent. Qed.
Print Assumptions maildir_concurrent_deliveries_independent.

Example mbox_nonvacuous :
  mbox_read (mbox_entry [70;114;111;109;32;97;32;100;10] [82;58;120;10] [70;114;111;109;32;109;101;10;62;70;114;111;109;32;122])
  = [([70;114;111;109;32;97;32;100], [82;58;120;10;70;114;111;109;32;109;101;10;62;70;114;111;109;32;122;10])].
Proof. vm_compute. reflexivity. Qed.
