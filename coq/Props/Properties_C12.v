(* C12 - Mailbox deliveries are complete or absent: maildir atomic, mbox rolled back.
   Only statements; proofs are [exact <lemma>] from Local/MailboxProofs.v.
   Models (Local/Mailbox.v): qmail-local.c maildir_child()/mailfile(), gfrom.c, the reader of mbox(5). *)
From NQ Require Import Local.Mailbox Local.MailboxProofs.
Local Open Scope N_scope.

(* maildir: for every content and fault plan, at every prefix of the writer's events and every crash
   image (file cut anywhere from its fsynced prefix to its length): a name in new/ means the file
   holds exactly Return-Path ++ Delivered-To ++ message, entirely durable *)
Theorem maildir_atomic : forall content f p q k,
  maildir_events content f = p ++ q -> m_new (mrun p) = true ->
  (m_synced (mrun p) <= k <= length (m_data (mrun p)))%nat ->
  firstn k (m_data (mrun p)) = content.
Proof. exact maildir_atomic_l. Qed.
Print Assumptions maildir_atomic.

Theorem maildir_every_prefix_ok : forall content f, mprefixes_ok content mfs0 (maildir_events content f) = true.
Proof. exact maildir_prefixes_ok_l. Qed.
Print Assumptions maildir_every_prefix_ok.

(* success is reported iff the message became visible *)
Theorem maildir_success_iff_visible : forall content f,
  mexit (maildir_events content f) = Some 0 <-> m_new (mrun (maildir_events content f)) = true.
Proof. exact maildir_success_iff_l. Qed.
Print Assumptions maildir_success_iff_visible.

(* mbox: with the lock held, any failing write/read/fsync restores the previous length; success appends
   exactly the entry *)
Theorem mbox_rollback : forall old entry f c,
  bf_lock f = false -> bexit (mailfile_events entry f) = Some c -> c <> 0 ->
  brun old (mailfile_events entry f) = old.
Proof. exact mailfile_rollback_l. Qed.
Print Assumptions mbox_rollback.

Theorem mbox_success_appends : forall old entry f,
  bexit (mailfile_events entry f) = Some 0 -> brun old (mailfile_events entry f) = old ++ entry.
Proof. exact mailfile_success_l. Qed.
Print Assumptions mbox_success_appends.

(* the documented reader splits and unquotes the appended entry back to exactly the delivered message,
   for any message bytes (From_ lines, >From_ lines, NUL, no final newline, empty) and any sender
   text, leaving every earlier message as it was *)
Theorem mbox_roundtrip : forall lo x lh msg,
  Forall nolf lo -> nolf x -> Forall nolf lh ->
  forallb (fun l => negb (gfrom l)) lh = true ->
  let old := join_lines lo in
  let ufline := s_From ++ x ++ [LF] in
  let hdr := join_lines lh in
  mbox_read (old ++ mbox_entry ufline hdr msg) =
  mbox_read old ++ [(s_From ++ x, hdr ++ msg_plus msg)].
Proof. exact mbox_roundtrip_l. Qed.
Print Assumptions mbox_roundtrip.

Example mbox_nonvacuous :
  mbox_read (mbox_entry [70;114;111;109;32;97;32;100;10] [82;58;120;10] [70;114;111;109;32;109;101;10;62;70;114;111;109;32;122])
  = [([70;114;111;109;32;97;32;100], [82;58;120;10;70;114;111;109;32;109;101;10;62;70;114;111;109;32;122;10])].
Proof. vm_compute. reflexivity. Qed.
