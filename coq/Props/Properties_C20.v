From Coq Require Import List.
Theorem placeholder_C20 : True. Proof. exact I. Qed.
Print Assumptions placeholder_C20.
