(* C20 - No input can corrupt memory in any program of the suite (level: other).
   What is PROVED here concerns bounds-explicit models of the buffer layer and three parsers; the rest of the code
   is only executed on sanitised builds (checks/C20.py).  Only statements; proofs in Mem/*Proofs.v.
   Models: Mem/Stralloc.v (gen_allocdefs.h readyplus/ready/append, stralloc_catb.c, stralloc_opyb.c, quote.c doit:
   32-bit unsigned arithmetic with the __builtin_*_overflow guards written out; every function returns the index
   ranges it writes), Mem/TokCount.v (the counting pass of token822_parse, against the filling pass Addr/Tok.v),
   Mem/Netstr.v (qmail-qmtpd/qmqpd getlen, the QMTP recipient buffer). *)
From Coq Require Import ZArith List.
From NQ Require Import Addr.Tok Mem.TokCount Mem.TokCountProofs Mem.Stralloc Mem.StrallocProofs Mem.Netstr Mem.NetstrProofs.
Import ListNotations.

(* token822_parse: for EVERY input the first pass fails exactly when the second does, and otherwise allocates exactly
   the number of tokens and characters the second pass writes - no write beyond either array *)
Theorem token822_count_pass_is_exact : forall s : bytes,
  match count_pass s, parse s with
  | Some (nt, nc), Some ts => nt = length ts /\ nc = list_sum (map tok_chars ts)
  | None, None => True
  | _, _ => False
  end.
Proof. exact count_pass_exact. Qed.
Print Assumptions token822_count_pass_is_exact.

Local Open Scope Z_scope.
(* stralloc: for every well-formed state (len <= a < 2^32), every n < 2^32 and either outcome of the allocator:
   the result is well formed; on success every index written lies inside the (new) block, the content is the old
   content plus the n bytes, the capacity never shrinks; a length computation that would pass 2^32 is refused and
   nothing changes *)
Theorem stralloc_catb_safe : forall (x : sa) (src : list N) (n : Z) (alloc_ok : bool),
  wf x -> 0 <= n < 4294967296 ->
  let r := catb x src n alloc_ok in
  wf (r_sa r) /\
  (r_ok r = true ->
     writes_in_block r /\
     exists l : Z, l = (match s_alloc x with Some _ => s_len x | None => 0 end) /\
       r_writes r = [(l, l + n); (l + n, l + n + 1)] /\ s_len (r_sa r) = l + n /\
       s_data (r_sa r) = (match s_alloc x with Some _ => s_data x | None => [] end) ++ firstn (Z.to_nat n) src /\
       exists a' : Z, s_alloc (r_sa r) = Some a' /\ l + n + 1 <= a' < 4294967296 /\
                      (match s_alloc x with Some a => a <= a' | None => True end)) /\
  (r_ok r = false -> r_writes r = []) /\
  (r_ok r = false -> s_alloc x <> None -> r_sa r = x) /\
  (match s_alloc x with
   | Some _ => 4294967296 <= s_len x + n + 1 -> r_ok r = false /\ r_sa r = x
   | None => 4294967296 <= n + 1 -> r_ok r = false /\ r_sa r = x
   end).
Proof. exact catb_safe. Qed.
Print Assumptions stralloc_catb_safe.
Theorem stralloc_copyb_safe : forall (x : sa) (src : list N) (n : Z) (alloc_ok : bool),
  wf x -> 0 <= n < 4294967296 ->
  let r := copyb x src n alloc_ok in
  wf (r_sa r) /\
  (r_ok r = true ->
     writes_in_block r /\ r_writes r = [(0, n); (n, n + 1)] /\ s_len (r_sa r) = n /\
     s_data (r_sa r) = firstn (Z.to_nat n) src /\
     exists a' : Z, s_alloc (r_sa r) = Some a' /\ n + 1 <= a' < 4294967296 /\
                    (match s_alloc x with Some a => a <= a' | None => a' = n + 1 end)) /\
  (r_ok r = false -> r_writes r = []) /\
  (4294967296 <= n + 1 -> r_ok r = false /\ r_sa r = x) /\
  (r_ok r = false -> s_alloc x <> None -> r_sa r = x).
Proof. exact copyb_safe. Qed.
Print Assumptions stralloc_copyb_safe.
Theorem stralloc_append_safe : forall (x : sa) (c : N) (alloc_ok : bool),
  wf x ->
  let r := append x c alloc_ok in
  wf (r_sa r) /\
  (r_ok r = true ->
     writes_in_block r /\
     exists l : Z, r_writes r = [(l, l + 1)] /\ s_len (r_sa r) = l + 1 /\
                   l = (match s_alloc x with Some _ => s_len x | None => 0 end) /\
                   s_data (r_sa r) = (match s_alloc x with Some _ => s_data x | None => [] end) ++ [c]) /\
  (r_ok r = false -> r_writes r = [] /\ r_sa r = (match s_alloc x with Some _ => x | None => zero_len x end)) /\
  (match s_alloc x with Some _ => 4294967296 <= s_len x + 1 -> r_ok r = false | None => True end).
Proof. exact append_safe. Qed.
Print Assumptions stralloc_append_safe.
Theorem stralloc_readyplus_spec : forall (x : sa) (n : Z) (alloc_ok : bool),
  wf x -> 0 <= n < 4294967296 ->
  let (b, x') := readyplus x n alloc_ok in
  match s_alloc x with
  | Some a =>
    s_len x' = s_len x /\ s_data x' = s_data x /\ (b = false -> x' = x) /\
    (4294967296 <= n + s_len x -> b = false) /\
    exists a' : Z, s_alloc x' = Some a' /\ a <= a' < 4294967296 /\ (b = true -> n + s_len x' <= a')
  | None => b = alloc_ok /\ s_len x' = 0 /\ s_data x' = [] /\ s_alloc x' = (if b then Some n else None)
  end.
Proof. exact readyplus_spec. Qed.
Print Assumptions stralloc_readyplus_spec.
(* quote.c doit(): 2*len+2 is computed with overflow checks and bounds every index written *)
Theorem quote_doit_writes_fit : forall (out : sa) (src : list N) (inlen : Z) (alloc_ok : bool),
  wf out -> 0 <= inlen < 4294967296 ->
  let r := quote_doit out src inlen alloc_ok in
  wf (r_sa r) /\
  (r_ok r = true ->
     writes_in_block r /\
     exists j a' : Z, r_writes r = [(0, j)] /\ s_len (r_sa r) = j /\ s_alloc (r_sa r) = Some a' /\
       2 <= j <= 2 * inlen + 2 /\ 2 * inlen + 2 <= a' < 4294967296 /\ j = Z.of_nat (length (s_data (r_sa r)))) /\
  (r_ok r = false -> r_writes r = []) /\
  (4294967296 <= 2 * inlen + 2 -> r_ok r = false /\ r_sa r = out).
Proof. exact quote_doit_safe. Qed.
Print Assumptions quote_doit_writes_fit.

(* netstring lengths never wrap (the guard comes before the multiplication) and stay below 2^31; the QMTP recipient
   plus the RELAYCLIENT suffix and both terminators stay inside the 1000-byte buffer whenever the code accepts *)
Theorem netstring_length_never_wraps : forall inp : list Z, getlen inp = getlen_ideal_loop inp 0.
Proof. exact getlen_no_wrap. Qed.
Print Assumptions netstring_length_never_wraps.
Theorem netstring_length_bound : forall (inp : list Z) (v : Z) (rest : list Z), getlen inp = GOk v rest -> 0 <= v <= 2000000009.
Proof. exact getlen_bound. Qed.
Print Assumptions netstring_length_bound.
Theorem qmtp_recipient_buffer_safe : forall (len biglen : Z) (relayclient : option Z) (ws : list (Z * Z)),
  0 <= len < 18446744073709551616 -> 0 <= biglen <= 2000000009 ->
  match relayclient with Some l => 0 <= l < 2147483648 | None => True end ->
  rcpt_decide len biglen relayclient = RAccept ws -> forall k : Z, in_writes k ws -> 0 <= k < 1000.
Proof. exact rcpt_decide_safe. Qed.
Print Assumptions qmtp_recipient_buffer_safe.

(* ---- dns.c: the walk over a resolver response (Mem/DnsParse.v) ----
   Every index the code reads directly is returned by the model; dn_expand() is libc's and enters with its contract
   (it refuses a source outside the response and consumes only bytes inside it). *)
From NQ Require Mem.DnsParse Mem.DnsParseProofs.
Theorem dns_response_walk_reads_inside : forall buf rlen dn, DnsParseProofs.byte_buf buf -> DnsParse.dn_contract rlen dn ->
  forall k want s0 hdr rs rd,
  DnsParse.resolve_walk buf rlen dn = (Some s0, hdr) ->
  DnsParse.walk buf rlen dn true (S (Z.to_nat (DnsParse.numanswers s0))) k want s0 = (rs, rd) ->
  Forall (fun x => (0 <= x < DnsParse.HFIXEDSZ)%Z) hdr /\ Forall (DnsParseProofs.in_resp rlen) rd.
Proof. exact DnsParseProofs.response_walk_reads_inside. Qed.
Print Assumptions dns_response_walk_reads_inside.
Theorem dns_walk_ends : forall buf rlen dn fx k want fuel s rs rd, (Z.to_nat (DnsParse.numanswers s) < fuel)%nat ->
  DnsParse.walk buf rlen dn fx fuel k want s = (rs, rd) -> exists pre, rs = pre ++ [DnsParse.FEnd] \/ rs = pre ++ [DnsParse.FSoft].
Proof. exact DnsParseProofs.walk_ends. Qed.
Print Assumptions dns_walk_ends.
(* the code as it was before "fix: dns.c findip/findmx read record data past the end of the response" *)
Theorem dns_unfixed_code_reads_past_the_response :
  option_map (fun w => existsb (fun x => (23 <=? x)%Z) (snd w)) (DnsParseProofs.reads_of false) = Some true.
Proof. exact DnsParseProofs.unfixed_code_reads_past_the_response. Qed.
Print Assumptions dns_unfixed_code_reads_past_the_response.
Theorem dns_simple_names_meet_the_contract : forall buf rlen fuel, DnsParseProofs.byte_buf buf ->
  DnsParse.dn_contract rlen (fun p => DnsParse.dn_simple_from fuel buf rlen p true).
Proof. exact DnsParseProofs.dn_simple_meets_contract. Qed.
Print Assumptions dns_simple_names_meet_the_contract.

(* ---- substdio: the buffered I/O layer under every program (Mem/Substdio.v) ----
   The operating system is a script of results for the successive read/write calls (short, interrupted, failing). *)
From NQ Require Mem.Substdio Mem.SubstdioProofs.
Theorem substdio_output_is_the_put_stream : forall cap scr ops b,
  Substdio.o_run (Substdio.o_init cap scr) ops = (true, b) ->
  Substdio.o_out b ++ Substdio.o_pend b = flat_map Substdio.op_data ops.
Proof. exact SubstdioProofs.o_run_stream. Qed.
Print Assumptions substdio_output_is_the_put_stream.
Theorem substdio_output_never_invents_or_reorders : forall cap scr ops ok b,
  Substdio.o_run (Substdio.o_init cap scr) ops = (ok, b) -> exists rest, flat_map Substdio.op_data ops = Substdio.o_out b ++ rest.
Proof. exact SubstdioProofs.o_run_prefix. Qed.
Print Assumptions substdio_output_never_invents_or_reorders.
Theorem substdio_output_copies_stay_inside_the_buffer : forall cap scr ops ok b,
  Substdio.o_run (Substdio.o_init cap scr) ops = (ok, b) ->
  (length (Substdio.o_pend b) <= cap)%nat /\ Forall (fun c => (fst c + snd c <= cap)%nat) (Substdio.o_copies b).
Proof. exact SubstdioProofs.o_run_safe. Qed.
Print Assumptions substdio_output_copies_stay_inside_the_buffer.
Theorem substdio_get_hands_out_the_stream_in_order : forall b len r b', SubstdioProofs.i_ok b -> Substdio.i_get b len = (r, b') ->
  SubstdioProofs.i_ok b' /\ Substdio.i_cap b' = Substdio.i_cap b /\
  match r with
  | Some d => SubstdioProofs.i_rest b = d ++ SubstdioProofs.i_rest b' /\ (length d <= len)%nat
  | None => SubstdioProofs.i_rest b' = SubstdioProofs.i_rest b
  end.
Proof. exact SubstdioProofs.i_get_ok. Qed.
Print Assumptions substdio_get_hands_out_the_stream_in_order.
Theorem getln_lines_are_the_input : forall cap src scr sep fuel ls,
  (0 < cap)%nat -> (length src < fuel)%nat -> SubstdioProofs.no_err scr ->
  Substdio.getlns_all fuel (Substdio.i_init cap src scr) sep = (ls, true) ->
  flat_map fst ls = src /\
  Forall (fun l => snd l = true -> exists body, fst l = body ++ [sep] /\ ~ In sep body) ls.
Proof. exact SubstdioProofs.getlns_all_concat. Qed.
Print Assumptions getln_lines_are_the_input.
Theorem getln_reaches_the_end_of_input : forall cap src scr sep fuel,
  (0 < cap)%nat -> (length src < fuel)%nat -> SubstdioProofs.no_err scr ->
  exists ls, Substdio.getlns_all fuel (Substdio.i_init cap src scr) sep = (ls, true).
Proof. exact SubstdioProofs.getlns_all_total. Qed.
Print Assumptions getln_reaches_the_end_of_input.
