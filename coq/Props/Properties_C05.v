(* C05 - Inbound SMTP DATA is decoded transparently and framed only by CRLF.CRLF.
   Only statements; proofs are [exact <lemma>] from Smtp/CodecProofs.v.
   sblast is the model of qmail-smtpd.c blast() (Smtp/Codec.v), tied to the C function by
   checks/C05.py on every run. *)
From NQ Require Import Smtp.Codec Smtp.CodecProofs Smtp.CodecEqProofs.
Local Open Scope N_scope.

(* The decoder ends the message only at CR LF . CR LF: if it returns, the consumed prefix p
   (with the CR LF that ended the DATA command line in front) contains the end-of-data
   sequence exactly once, as its suffix; the rest of the stream is handed back untouched as
   the next command; and no LF in p lacks its CR. *)
Theorem dec_frames_only_at_crlf_dot_crlf : forall s b r,
  sblast s = Done b r ->
  exists p, s = p ++ r /\ occ TERM (CRLF ++ p) = 1%nat /\ (exists q, CRLF ++ p = q ++ TERM)
            /\ no_bare_lf 10 p = true.
Proof. exact sblast_framing. Qed.
Print Assumptions dec_frames_only_at_crlf_dot_crlf.

(* the decoder IS the RFC 5321 4.5.2 receiver: on every byte stream it returns what the independently
   written line-oriented reference returns - same body, same rest, same stray-newline verdict *)
Theorem dec_equals_rfc_reference : forall s b r, sblast s = Done b r <-> rfc_decode s = Done b r.
Proof. exact sblast_Done_iff. Qed.
Print Assumptions dec_equals_rfc_reference.
Theorem dec_stray_equals_rfc_reference : forall s, sblast s = Stray <-> rfc_decode s = Stray.
Proof. exact sblast_Stray_iff. Qed.
Print Assumptions dec_stray_equals_rfc_reference.
Theorem dec_equals_rfc_reference_all : forall s, sres_eqb (sblast s) (rfc_decode s) = true.
Proof. exact sblast_is_rfc_decode_l. Qed.
Print Assumptions dec_equals_rfc_reference_all.

(* conversely: input that runs out contained no terminator (nothing is ever skipped) *)
Theorem dec_needmore_has_no_terminator : forall s b,
  sblast s = NeedMore b -> occ TERM (CRLF ++ s) = 0%nat.
Proof. exact sblast_needmore. Qed.
Print Assumptions dec_needmore_has_no_terminator.

(* the 451 path is taken only at a bare LF that precedes every terminator *)
Theorem dec_stray_only_at_bare_lf : forall s,
  sblast s = Stray ->
  exists p r, s = p ++ 10 :: r /\ no_bare_lf 10 (p ++ [10]) = false /\ occ TERM (CRLF ++ p) = 0%nat.
Proof. exact sblast_stray. Qed.
Print Assumptions dec_stray_only_at_bare_lf.

(* any message (arbitrary bytes, CRs included) sent by a conforming sender decodes to itself *)
Theorem decode_encode_conforming_sender : forall m,
  lf_terminated m = true -> sblast (rfc_encode m) = Done m [].
Proof. exact sblast_rfc_encode. Qed.
Print Assumptions decode_encode_conforming_sender.

(* ... and so does everything this package's own client sends (C06's encoder) *)
Theorem decode_encode_own_client : forall m out,
  rblast m = Some out -> exists c, canon m = Some c /\ sblast out = Done c [].
Proof. exact rblast_roundtrip. Qed.
Print Assumptions decode_encode_own_client.

(* the decoder as it was before the "fix:" commit kept the dot of a line ". CR x" *)
Example dec_dot_removed_refuted_pre_fix :
  sdec_prefix S1 [46;13;120;13;10;46;13;10] = Done [46;13;120;10] [] /\
  rfc_decode [46;13;120;13;10;46;13;10] = Done [13;120;10] [] /\
  sblast [46;13;120;13;10;46;13;10] = Done [13;120;10] [].
Proof. repeat split; vm_compute; reflexivity. Qed.

Example dec_nonvacuous : sblast [46;46;97;13;10;46;13;10;81] = Done [46;97;10] [81].
Proof. vm_compute. reflexivity. Qed.
