(* C13 - Delivery instructions are interpreted as documented and loops are cut.
   Only statements; proofs are [exact <lemma>] from Local/DotQmailProofs.v.
   Model (Local/DotQmail.v): qmail-local.c checkhome, safeext/qmesearch/qmeexists, the line
   dispatcher, program exit codes, forwarding, bouncexf, the header lines. *)
From NQ Require Import Local.DotQmail Local.DotQmailProofs.
Local Open Scope N_scope.

(* the looked-up name: no dot survives (so no "." or ".." component can be formed from the
   extension), and every candidate is .qmail ++ dash ++ prefix-of-the-extension ++ ("" | "default") *)
Theorem path_confined : forall ext, has DOT (safeext ext) = false.
Proof. exact safeext_no_dot. Qed.
Print Assumptions path_confined.

Theorem search_candidates_shape : forall dash ext c,
  In c (candidates dash ext) ->
  c = s_qmail ++ dash ++ safeext ext \/
  exists j, (j <= length ext)%nat /\ c = s_qmail ++ dash ++ firstn j (safeext ext) ++ s_default.
Proof. exact candidates_shape. Qed.
Print Assumptions search_candidates_shape.

(* the file used is the first candidate, in search order, that is a regular file; every earlier one
   is absent; a temporary error or a file writable by others defers instead of skipping *)
Theorem search_order : forall files cands x content,
  choose files cands = CFile x content ->
  exists pre c post, cands = pre ++ c :: post /\ files c = FReg false x content /\
                     Forall (fun p => files p = FAbsent) pre.
Proof. exact choose_file_spec. Qed.
Print Assumptions search_order.

Theorem writable_or_unreadable_defers : forall files pre c post,
  Forall (fun p => files p = FAbsent) pre ->
  (files c = FTemp \/ exists x ct, files c = FReg true x ct) ->
  choose files (pre ++ c :: post) = CDefer.
Proof. exact choose_defers. Qed.
Print Assumptions writable_or_unreadable_defers.

Theorem unsafe_home_never_delivers : forall c o,
  c_home_writable c = true \/ (c_home_sticky c = true /\ c_doit c = true) -> local_run c o = ([], 111).
Proof. exact unsafe_home_defers. Qed.
Print Assumptions unsafe_home_never_delivers.

(* an executable .qmail (or +list) never runs a file or program instruction *)
Theorem x_bit_refuses_file_and_program : forall ls first k o fw,
  fst (fst (run_lines ls first true k o fw)) = [].
Proof. exact run_lines_forward_only. Qed.
Print Assumptions x_bit_refuses_file_and_program.

(* forwarding happens once, as the last step, and only when no earlier instruction ended the run *)
Theorem forward_last : forall c o steps code r,
  local_run c o = (steps, code) -> In (XForward r) steps ->
  exists pre, steps = pre ++ [XForward r] /\ forallb (fun s => negb (is_fwd s)) pre = true /\
              (code = 0 \/ code = 100 \/ code = 111).
Proof. exact local_run_forward_last. Qed.
Print Assumptions forward_last.

(* program exit codes: 99 stops reading (success so far), 100/64/65/70/76/77/78/112 permanent, other non-zero temporary *)
Theorem program_exit_code_map : forall raw cmd ls k o fw code,
  classify_line raw = IProg cmd -> o_prog o k = Some code -> code <> 0 ->
  run_lines (raw :: ls) false false k o fw =
  ([XProgram cmd], fw, if code =? 99 then None else if hard_exit code then Some 100 else Some 111).
Proof. exact program_exit_map. Qed.
Print Assumptions program_exit_code_map.

Theorem program_crash_is_temporary : forall raw cmd ls k o fw,
  classify_line raw = IProg cmd -> o_prog o k = None ->
  run_lines (raw :: ls) false false k o fw = ([XProgram cmd], fw, Some 111).
Proof. exact program_crash_defers. Qed.
Print Assumptions program_crash_is_temporary.

Theorem blank_first_line_is_refused : forall ls raw x k o fw,
  classify_line raw = IBlank -> run_lines (raw :: ls) true x k o fw = ([], fw, Some 111).
Proof. exact blank_first_line_defers. Qed.
Print Assumptions blank_first_line_is_refused.

(* a message already carrying this Delivered-To line is bounced before anything is delivered *)
Theorem loop_cut : forall c o,
  c_home_writable c = false -> c_home_sticky c = false -> c_doit c = true -> c_looping c = true ->
  local_run c o = ([], 100).
Proof. exact loop_cut_l. Qed.
Print Assumptions loop_cut.

(* hostile envelope addresses cannot add header lines: each generated line has exactly one LF, its last byte *)
Theorem no_header_injection_delivered_to : forall local host, exists x, dtline local host = x ++ [LF] /\ has LF x = false.
Proof. exact dtline_one_lf. Qed.
Print Assumptions no_header_injection_delivered_to.
Theorem no_header_injection_return_path : forall q, exists x, rpline q = x ++ [LF] /\ has LF x = false.
Proof. exact rpline_one_lf. Qed.
Print Assumptions no_header_injection_return_path.
Theorem no_header_injection_from_line : forall sender d, has LF d = false ->
  has LF (ufline sender (d ++ [LF])) = true /\ exists x, ufline sender (d ++ [LF]) = x ++ [LF] /\ has LF x = false.
Proof. exact ufline_one_lf. Qed.
Print Assumptions no_header_injection_from_line.

Example candidates_nonvacuous :
  candidates [45] [65;46;98;45;99] =
  [[46;113;109;97;105;108;45;97;58;98;45;99]; [46;113;109;97;105;108;45;97;58;98;45;100;101;102;97;117;108;116];
   [46;113;109;97;105;108;45;100;101;102;97;117;108;116]].
Proof. vm_compute. reflexivity. Qed.
