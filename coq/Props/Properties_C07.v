(* C07 - Network daemons acknowledge a message if and only if exactly it was queued.
   Only statements; proofs are [exact <lemma>] from Smtp/SmtpdProofs.v and Smtp/QmtpdProofs.v.
   "queued" = the queue program was handed a complete envelope (u_complete / k_complete / q_complete)
   and exited 0; C01 proves what qmail-queue does with complete and incomplete envelopes. *)
From NQ Require Import Smtp.Smtpd Smtp.SmtpdProofs Smtp.Qmtpd Smtp.QmtpdProofs.
Local Open Scope N_scope.

(* SMTP: 250 after DATA iff the envelope was completed and the queue program reported success ... *)
Theorem smtp_ack_iff_committed : forall g st rest qe qtxt c sub rest',
  data_step g st rest qe qtxt = DSub c sub rest' ->
  (c = 250 <-> u_complete sub = true /\ qq_class qe qtxt false = QOk).
Proof. exact data_ack_iff_l. Qed.
Print Assumptions smtp_ack_iff_committed.

(* ... the envelope is completed iff fewer than 100 hop fields and the decoded body within databytes ... *)
Theorem smtp_limits : forall g st rest qe qtxt c sub rest',
  data_step g st rest qe qtxt = DSub c sub rest' ->
  (u_complete sub = true <->
   hops (firstn (length rest - length rest') rest) < MAXHOPS /\
   (g_databytes g = 0 \/ N.of_nat (length (u_body sub)) <= g_databytes g)).
Proof. exact data_limits_l. Qed.
Print Assumptions smtp_limits.

(* ... and what is handed over is the decoded body with exactly the acknowledged sender and recipients *)
Theorem smtp_submission_exact : forall g st rest qe qtxt c sub rest',
  data_step g st rest qe qtxt = DSub c sub rest' ->
  t_seenmail st = true /\ t_rcpts st <> [] /\ u_sender sub = t_mailfrom st /\ u_rcpts sub = t_rcpts st /\
  exists body, sblast rest = Done body rest' /\ u_body sub = body.
Proof. exact data_submits_current_transaction_l. Qed.
Print Assumptions smtp_submission_exact.

(* a queue failure with the error flag set is never success *)
Theorem failed_envelope_never_acknowledged : forall e t, qq_class e t true <> QOk.
Proof. exact qq_class_flagerr. Qed.
Print Assumptions failed_envelope_never_acknowledged.

(* QMTP: a package's recipients get "K" iff the envelope was completed and the queue program succeeded *)
Theorem qmtp_ack_iff_committed : forall g s qe qtxt p rest,
  qmtp_package g s qe qtxt = Got p rest ->
  (k_verdict p = MK <-> k_complete p = true /\ qq_class qe qtxt false = QOk).
Proof. exact qmtp_ack_iff_l. Qed.
Print Assumptions qmtp_ack_iff_committed.

(* every recipient passed to the queue is the client's NUL-free address (+ relay suffix), shorter than
   1000 bytes and - without RELAYCLIENT - allowed by rcpthosts *)
Theorem qmtp_accepted_recipients_ok : forall g s qe qtxt p rest a,
  qmtp_package g s qe qtxt = Got p rest -> In (a, RNone) (k_rcpts p) -> acc_ok g a.
Proof. exact qmtp_accepted_ok_l. Qed.
Print Assumptions qmtp_accepted_recipients_ok.

Theorem qmtp_complete_has_recipient : forall g s qe qtxt p rest,
  qmtp_package g s qe qtxt = Got p rest -> k_complete p = true -> exists a, In (a, RNone) (k_rcpts p).
Proof. exact qmtp_complete_has_rcpt_l. Qed.
Print Assumptions qmtp_complete_has_recipient.

(* QMQP *)
Theorem qmqp_ack_iff_committed : forall inner qe qtxt o,
  qmqp_inner inner qe qtxt = Some o ->
  (q_verdict o = MK <-> q_complete o = true /\ qq_class qe qtxt false = QOk).
Proof. exact qmqp_ack_iff_l. Qed.
Print Assumptions qmqp_ack_iff_committed.

(* the Received field: peer-controlled strings contribute only safe characters (or the replacement '?')
   and never a line break *)
Theorem received_safe : forall s, forallb (fun c => issafe c || (c =? 63)) (safe s) = true.
Proof. exact safe_is_safe. Qed.
Print Assumptions received_safe.
Theorem received_no_injected_newline : forall s, has LF (safe s) = false.
Proof. exact safe_no_lf. Qed.
Print Assumptions received_no_injected_newline.

Example qmtp_nonvacuous :
  let g := {| g_greeting := []; g_liphost := None; g_ipme := []; g_rcpthosts := None; g_morercpthosts := [];
              g_bmf := None; g_databytes := 0; g_relayclient := None; g_remotehost := []; g_remoteip := []; g_remoteinfo := None; g_local := [] |} in
  match qmtp_package g [51;58;10;104;105;44; 49;58;115;44; 52;58;49;58;114;44;44] 0 [] with
  | Got p rest => k_verdict p = MK /\ k_body p = [104;105] /\ rest = []
  | _ => False
  end.
Proof. vm_compute. auto. Qed.
