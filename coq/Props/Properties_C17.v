(* C17 - Address quoting and parsing agree; header recipients become the envelope.
   Only statements; proofs are [exact <lemma>] from Addr/QuoteProofs.v, Addr/TokProofs.v.
   Models: Addr/Quote.v (quote.c, qmail-remote.c addrmangle), Smtp/Smtpd.v addrparse (qmail-smtpd.c),
   Addr/Tok.v (token822.c), Addr/Inject822.v (qmail-inject.c rw*, doheaderfield; hfield.c; headerbody.c). *)
From NQ Require Import Addr.Quote Addr.Tok Addr.Inject822 Smtp.Smtpd Addr.QuoteProofs Addr.TokProofs Addr.GrammarProofs Addr.GroupProofs.
Local Open Scope N_scope.

(* SMTP: for EVERY local part l (any bytes), every domain of ordinary domain characters and every server
   configuration, what qmail-remote puts between "<" and ">" is parsed back by qmail-smtpd to the
   identical address (p is whatever precedes the bracket, e.g. "FROM:") *)
Theorem smtp_quote_roundtrip : forall g p l d,
  has 60 p = false -> dom_ok d -> (length l + length d + 2 <= 900)%nat ->
  addrparse g (p ++ [60] ++ addrmangle (l ++ [64] ++ d) ++ [62]) = Some (l ++ [64] ++ d).
Proof. exact smtp_quote_roundtrip_l. Qed.
Print Assumptions smtp_quote_roundtrip.

(* header: quote2 then token822_parse gives tokens that unquote to the identical address and form one
   simple address (no two words adjacent, only words, dots and @) ... *)
Theorem header_quote_roundtrip : forall l d, dom_ok d -> d <> [] ->
  exists ts, parse (quote2 (l ++ [64] ++ d)) = Some ts /\ unquote ts = l ++ [64] ++ d /\ simple_addr ts.
Proof. exact header_quote_roundtrip_l. Qed.
Print Assumptions header_quote_roundtrip.
(* ... which token822_addrlist hands to its callback as exactly one address, whatever the callback *)
Theorem addrlist_single_address : forall (cb : list tok -> list tok) (n c : tok) ts, simple_addr ts ->
  addrlist cb (n :: c :: ts) = (Some (n :: c :: rev (cb (rev ts))), [cb (rev ts)]).
Proof. exact addrlist_simple_l. Qed.
Print Assumptions addrlist_single_address.
Theorem header_address_roundtrip : forall l d n c, dom_ok d -> d <> [] ->
  exists ts, parse (quote2 (l ++ [64] ++ d)) = Some ts /\
    snd (addrlist (fun a => a) (n :: c :: ts)) = [rev ts] /\ addr_string (rev ts) = l ++ [64] ++ d.
Proof. exact header_address_roundtrip_l. Qed.
Print Assumptions header_address_roundtrip.

(* address LISTS (token level; commas between items, no groups - hence _partial): for every list of
   items, each a plain address with comments anywhere or "phrase <anything but '<'>" (the empty <> included),
   token822_addrlist hands the callback exactly the items' addresses, right to left, and rebuilds the field
   with each address replaced by what the callback returned; for every callback *)
Theorem addrlist_grammar_partial : forall cb n c its, its <> [] -> Forall item_ok its ->
  addrlist cb (n :: c :: render its)
  = (Some (n :: c :: render_new cb its), map (fun it => cb (item_addr it)) (rev its)).
Proof. exact addrlist_grammar_out_l. Qed.
Print Assumptions addrlist_grammar_partial.
(* the same with commas missing wherever two words meet or after a '>' *)
Theorem addrlist_grammar_missing_commas_partial : forall cb n c first rest,
  item_ok first -> Forall item_ok (map snd rest) -> seps_ok first rest ->
  exists out, addrlist cb (n :: c :: render2 first rest)
              = (Some out, map (fun it => cb (item_addr it)) (rev (first :: map snd rest))).
Proof. exact addrlist_grammar_nocomma_l. Qed.
Print Assumptions addrlist_grammar_missing_commas_partial.

(* the full address-list grammar with GROUPS  (name: mailbox, ...;  possibly empty), entries separated by commas: the
   callback sees exactly all mailboxes, members of groups included, right to left; the field is rebuilt with the
   group syntax kept and each address replaced by the callback's result *)
Theorem addrlist_grammar_with_groups : forall cb n c es, Forall entry_ok es ->
  addrlist cb (n :: c :: render_entries es)
  = (Some (n :: c :: render_entries_new cb es), map cb (rev (flat_map entry_addrs es))).
Proof. exact groups_out_l. Qed.
Print Assumptions addrlist_grammar_with_groups.
(* unbalanced group syntax is a parse error (the field is then left as it was) *)
Theorem group_colon_without_semicolon_is_an_error : forall cb n c l its, Forall item_ok its ->
  fst (addrlist cb (n :: c :: l ++ TColon :: render its)) = None.
Proof. exact colon_without_semi. Qed.
Print Assumptions group_colon_without_semicolon_is_an_error.

(* rewriting: a fully qualified address is left alone; a lone box name gets the default host, then the
   plus-domain and default-domain rules in that order *)
Theorem rwgeneric_fully_qualified_unchanged : forall c a,
  existsb is_at a = true -> before_at is_dot a = true -> head_dot_or_at a = false ->
  is_at (last_tok a) = false -> plus_head a = false -> rwgeneric c a = a.
Proof. exact rwgeneric_fq_id_l. Qed.
Print Assumptions rwgeneric_fully_qualified_unchanged.
Theorem rwgeneric_lone_box_gets_default_host : forall c a,
  existsb is_at a = false -> a <> [] -> head_dot a = false ->
  rwgeneric c a = rwnodot c (rwplus c (rev (c_defaulthost c) ++ a)).
Proof. exact rwgeneric_defaulthost_l. Qed.
Print Assumptions rwgeneric_lone_box_gets_default_host.

(* Bcc and Resent-Bcc never reach the message; every field that is not an address field (and not
   Content-Length, not a deleted Message-ID) is kept byte for byte and feeds no envelope list *)
Theorem bcc_removed : forall c fl st h st', doheaderfield c fl st h = Some st' ->
  (hfield_known h = H_BCC \/ hfield_known h = H_R_BCC) -> i_saved st' = i_saved st.
Proof. exact bcc_removed_l. Qed.
Print Assumptions bcc_removed.
Theorem other_fields_kept : forall c fl st h st', doheaderfield c fl st h = Some st' ->
  kind_of (hfield_known h) = FNone -> hfield_known h <> H_CONTENTLENGTH ->
  (f_delmessid fl && Nat.eqb (hfield_known h) H_MESSAGEID = false) ->
  i_saved st' = i_saved st ++ [h] /\ i_hr st' = i_hr st /\ i_hrr st' = i_hrr st.
Proof. exact other_fields_kept_l. Qed.
Print Assumptions other_fields_kept.

(* non-vacuity and the recorded finding (a comment inside <...> defeats route stripping) on the model *)
Example ex_roundtrip :
  let l := [34; 92; 32; 64; 46] in let d := [97; 46; 98] in
  dom_ok d /\ quote_need l = true /\
  addrparse {| g_greeting := []; g_liphost := Some [120]; g_ipme := []; g_rcpthosts := None; g_morercpthosts := [];
               g_bmf := None; g_databytes := 0; g_relayclient := None; g_remotehost := []; g_remoteip := [];
               g_remoteinfo := None; g_local := [] |}
            ([70;82;79;77;58;60] ++ addrmangle (l ++ [64] ++ d) ++ [62]) = Some (l ++ [64] ++ d).
Proof. vm_compute. repeat split. Qed.
Definition ex_cfg : icfg := {| c_defaulthost := [TAt; TAtom [100;104]]; c_defaultdomain := [TDot; TAtom [100;100]]; c_plusdomain := [TDot; TAtom [112]] |}.
(* "To: <(c)@r:a@b.c>" : the envelope gets "@r:a@b.c" *)
Example comment_in_angle_defeats_route_stripping_refuted :
  option_map (fun ts => map addr_string (snd (addrlist (rwgeneric ex_cfg) ts)))
             (parse [84;111;58;60;40;99;41;64;114;58;97;64;98;46;99;62]) = Some [[64;114;58;97;64;98;46;99]].
Proof. vm_compute. reflexivity. Qed.
Example route_stripped_without_comment :
  option_map (fun ts => map addr_string (snd (addrlist (rwgeneric ex_cfg) ts)))
             (parse [84;111;58;60;64;114;58;97;64;98;46;99;62]) = Some [[97;64;98;46;99]].
Proof. vm_compute. reflexivity. Qed.
