(* C01 - Queue acceptance is all-or-nothing and durable.
   Only statements; proofs are [exact <lemma>] from Queue/InjectProofs.v.
   Model: Queue/Inject.v, the event sequence of qmail-queue.c main() for every message, envelope,
   fault plan (which call fails, how far a failing write got) and stopping point. *)
From NQ Require Import Queue.Inject Queue.InjectProofs.
Local Open Scope N_scope.

(* For every input and every fault plan, at EVERY prefix of the program's file-system events (the
   points at which the process can be killed, its 24-hour alarm can fire, or the machine can
   stop) and every crash image of that prefix (each file cut anywhere between its fsynced prefix
   and its length): if todo/N exists then mess/N holds exactly Received-line ++ message, todo/N holds
   exactly the header and the well-formed envelope, and both are entirely durable. *)
Theorem qq_commit_complete : forall i f p q k1 k2,
  qq_events i f = p ++ q -> crash_ok (run p) k1 k2 -> n_todo (run p) = true ->
  exists data, parse_env (q_env i) = EnvOk data /\
    d_mess (crash_image (run p) k1 k2) = q_received i ++ q_msg i /\
    d_env (crash_image (run p) k1 k2) = q_hdr i ++ data /\
    n_mess (run p) = true.
Proof. exact qq_commit_complete_l. Qed.
Print Assumptions qq_commit_complete.

(* the same for the executable form used as oracle on real traces, which also states that every
   intermediate file pattern is S1-S4 of INTERNALS.md or a lone/leading pid file *)
Theorem qq_every_prefix_ok : forall i f, prefixes_ok i fs0 (qq_events i f) = true.
Proof. exact qq_prefixes_ok_l. Qed.
Print Assumptions qq_every_prefix_ok.

Theorem qq_exit0_implies_committed : forall i f,
  exit_code (qq_events i f) = Some 0 -> n_todo (run (qq_events i f)) = true.
Proof. exact qq_exit0_committed_l. Qed.
Print Assumptions qq_exit0_implies_committed.

(* a failure exit decided by the program: the message was never visible, at no prefix *)
Theorem qq_failure_invisible : forall i f c p q,
  exit_code (qq_events i f) = Some c -> c <> 0 -> qq_events i f = p ++ q -> n_todo (run p) = false.
Proof. exact qq_failure_invisible_l. Qed.
Print Assumptions qq_failure_invisible.

(* documented exit codes: 0 / 54 (EOF anywhere) / 91 (wrong record letter) / 11 (address too long) *)
Theorem qq_exit_codes : forall i,
  exit_code (qq_events i no_faults) =
  Some (match parse_env (q_env i) with EnvOk _ => 0 | EnvEOF _ => 54 | EnvBadLetter _ => 91 | EnvTooLong _ => 11 end).
Proof. exact qq_exit_codes_l. Qed.
Print Assumptions qq_exit_codes.

Theorem qq_fault_codes : forall i f c, exit_code (qq_events i f) = Some c ->
  c = 0 \/ c = 11 \/ c = 53 \/ c = 54 \/ c = 63 \/ c = 64 \/ c = 65 \/ c = 66 \/ c = 91.
Proof. exact qq_fault_codes_l. Qed.
Print Assumptions qq_fault_codes.

(* the envelope grammar: F sender NUL (T recipient NUL)* NUL with NUL-free addresses of at most
   1002 bytes is accepted and copied exactly; 1003 bytes are refused *)
Theorem envelope_wellformed_accepted : forall sender rs junk,
  addr_ok sender = true -> forallb addr_ok rs = true ->
  parse_env (enc_env sender rs ++ 0 :: junk) = EnvOk (enc_env sender rs).
Proof. exact parse_env_wf. Qed.
Print Assumptions envelope_wellformed_accepted.

Theorem envelope_1003_refused : forall a rest,
  has 0 a = false -> length a = ADDR -> parse_env (c_F :: a ++ rest) = EnvTooLong (c_F :: a).
Proof. exact parse_env_sender_too_long. Qed.
Print Assumptions envelope_1003_refused.

Theorem qq_alarm_first : forall i f, exists rest, qq_events i f = EvAlarm :: rest.
Proof. exact qq_alarm_first_l. Qed.
Print Assumptions qq_alarm_first.

Example qq_nonvacuous :
  let i := {| q_received := [82; 10]; q_msg := [104; 105; 10]; q_hdr := [117; 48; 0; 112; 49; 0];
              q_env := [70; 97; 0; 84; 98; 0; 0] |} in
  n_todo (run (qq_events i no_faults)) = true /\ exit_code (qq_events i no_faults) = Some 0 /\
  d_env (run (qq_events i no_faults)) = [117; 48; 0; 112; 49; 0; 70; 97; 0; 84; 98; 0].
Proof. repeat split; vm_compute; reflexivity. Qed.
