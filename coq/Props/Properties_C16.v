(* C16 - New mail wakes the daemon: no lost trigger, no busy loop.
   Only statements; proofs are [exact <lemma>] from Send/TriggerProofs.v.
   Model (Send/Trigger.v): qmail-queue's tail (link into todo/, then triggerpull: open-write-close of the
   FIFO) and qmail-send's todo_do (select; trigger_set = close + reopen; opendir; readdir...) as two
   programs interleaved under an arbitrary schedule by any number of injectors, over a FIFO with the
   semantics measured on this kernel; the select timeout arithmetic of main().  The order of calls in
   the two programs is compared with the order observed in the real binaries by checks/C16.py on every
   run, which also drives the real processes through gate-scheduled interleavings. *)
From NQ Require Import Send.Trigger Send.TriggerProofs.

(* for every number of injections (distinct ids), every schedule (late readdir entries included): whenever
   the daemon is blocked in select, every injection that has completed has been taken out of todo/ ... *)
Theorem daemon_blocks_only_when_all_taken : forall ids ms, NoDup ids ->
  let s := run real_dprog real_iprog (init real_dprog ids) ms in
  d_step real_dprog s = None ->
  forall j, In j (t_injs s) -> inj_finished real_iprog j = true -> mem (i_id j) (t_todo s) = false.
Proof. exact daemon_blocks_only_when_all_taken_l. Qed.
Print Assumptions daemon_blocks_only_when_all_taken.

(* ... and from every reachable state the daemon left alone (periodic rescan disabled) takes every completed
   injection within a number of its own steps linear in the directory size: no wake-up is ever lost *)
Theorem no_lost_wakeup : forall ids ms, NoDup ids ->
  lost real_dprog real_iprog (run real_dprog real_iprog (init real_dprog ids) ms) = false.
Proof. exact no_lost_wakeup_l. Qed.
Print Assumptions no_lost_wakeup.

(* the order of the steps is what makes it true: re-arming after the scan, or signalling before publishing,
   loses a wake-up (the same interpreter, the two orders swapped) *)
Example rearm_after_scan_loses_wakeup_refuted :
  lost dprog_rearm_after_scan real_iprog
       (run dprog_rearm_after_scan real_iprog (init dprog_rearm_after_scan [7]) [MDaemon; MInj 0; MInj 0; MInj 0; MInj 0]) = true.
Proof. exact rearm_after_scan_refuted. Qed.
Example signal_before_publish_loses_wakeup_refuted :
  lost real_dprog iprog_signal_before_publish
       (run real_dprog iprog_signal_before_publish (init real_dprog [7]) [MInj 0; MInj 0; MInj 0; MDaemon; MDaemon; MDaemon; MInj 0]) = true.
Proof. exact signal_before_publish_refuted. Qed.

(* non-vacuity: two injections and a daemon, a schedule in which the second injection lands in the middle of
   the scan; both are taken *)
Example two_injections_taken :
  let s := run real_dprog real_iprog (init real_dprog [7; 8])
               [MDaemon; MDaemon; MDaemon; MDaemon; MInj 0; MInj 0; MInj 0; MInj 0; MDaemon; MDaemon; MDaemon; MDaemon;
                MInj 1; MInj 1; MDaemon; MInj 1; MInj 1; MDaemon; MDaemon; MDaemon; MDaemon; MDaemon; MDaemon; MDaemon; MDaemon] in
  t_todo s = [] /\ length (t_done s) = 2%nat.
Proof. vm_compute. split; reflexivity. Qed.

(* the select timeout: zero exactly when there is work to do now; otherwise at least 2 s (never a busy loop),
   never past the earliest due time (plus the one-second fuzz), and exactly that *)
Local Open Scope Z_scope.
Theorem timeout_zero_iff_work : forall x, 0 <= recent x -> timeout x = 0 <-> work_now x = true.
Proof. exact timeout_zero_iff_work_l. Qed.
Print Assumptions timeout_zero_iff_work.
Theorem timeout_positive_when_idle : forall x, 0 <= recent x ->
  work_now x = false -> 2 <= timeout x <= SLEEP_FOREVER + SLEEP_FUZZ.
Proof. exact timeout_positive_when_idle_l. Qed.
Print Assumptions timeout_positive_when_idle.
Theorem timeout_not_past_due : forall x, 0 <= recent x ->
  work_now x = false -> forall d, In d (due_times x) -> recent x + timeout x - SLEEP_FUZZ <= d.
Proof. exact timeout_not_past_due_l. Qed.
Print Assumptions timeout_not_past_due.
Theorem timeout_exact : forall x, 0 <= recent x ->
  work_now x = false ->
  timeout x = fold_left Z.min (due_times x) (recent x + SLEEP_FOREVER) - recent x + SLEEP_FUZZ.
Proof. exact timeout_exact_l. Qed.
Print Assumptions timeout_exact.

