(* C04 - Finished recipients are never retried; at most one attempt in flight.
   Only statements; proofs are [exact <lemma>] from Queue/QueueSpecProofs.v (see Properties_C02.v for the model). *)
From NQ Require Import Queue.QueueSpec Queue.QueueSpecProofs.

(* after ANY accepted history: attempts in flight per channel never exceed the effective limit, at most one per
   record and per slot, none for a finished record *)
Theorem concurrency_invariant : forall es s, run q0 es = Some s -> conc_ok s = true.
Proof. exact conc_ok_l. Qed.
Print Assumptions concurrency_invariant.

(* once a record's completion mark is written no delivery command for it is ever accepted again - later in the same
   run, after a clean restart or after a crash (ECrash/EStart may occur in es2) - unless a NEW message takes the number *)
Theorem finished_never_retried : forall es1 n c i es2 s, run q0 (es1 ++ EMark n c i :: es2) = Some s ->
  (forall p, ~ In (EInjMess p n) es2) -> forall c' d, c' = c -> ~ In (ECmd c' d n i) es2.
Proof. exact finished_never_retried_l. Qed.
Print Assumptions finished_never_retried.

Example retry_after_mark_is_rejected :
  match run q0 [EStart 4 4; EInjMess 1 2; EInjIntd 1 2; EInjCommit 1 2 2 false; ECreate 2 Info; ECreate 2 Local; ESync 2 Info; ESync 2 Local;
                ERecs 2 2 0; ECleanIntd 2; ECleanTodo 2; ECmd 0 0 2 0; ERep 0 0 VK; EMark 2 0 0; ECrash; EStart 4 4] with
  | Some s => match step s (ECmd 0 0 2 0), step s (ECmd 0 0 2 1) with None, Some _ => true | _, _ => false end
  | None => false end = true.
Proof. vm_compute. reflexivity. Qed.
