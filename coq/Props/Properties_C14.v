(* C14 - Bounces go back once, to the sender, and can neither loop nor be forged.
   Only statements; proofs are [exact <lemma>] from Send/RouteProofs.v.
   Models (Send/Route.v): qmail-send.c addbounce() text, stripvdomprepend(), injectbounce()'s
   choice of envelope. *)
From NQ Require Import Send.Route Send.RouteProofs Send.RouteCorollaries.
Local Open Scope N_scope.

(* pstarts LF LF t counts the paragraph starts of t: non-LF bytes directly after a blank line
   (or at the very beginning).  Whatever bytes the failure report contains - blank lines,
   "<victim>:" lines, 8-bit, any length - one recipient yields exactly one paragraph ... *)
Theorem paragraph_one : forall recip report, pstarts LF LF (addbounce_text recip report) = 1%nat.
Proof. exact bounce_para_one_l. Qed.
Print Assumptions paragraph_one.

(* ... which begins "<recipient>:" (LF in the address shown as _) and ends with a blank line ... *)
Theorem paragraph_head : forall recip report, exists rest,
  addbounce_text recip report =
  [LT_] ++ map (fun c => if c =? LF then USCORE else c) recip ++ [GT_; COLON; LF] ++ rest.
Proof. exact bounce_para_head_l. Qed.
Print Assumptions paragraph_head.

Theorem paragraph_ends_blank : forall recip report, exists u, addbounce_text recip report = u ++ [LF; LF].
Proof. exact bounce_para_ends_l. Qed.
Print Assumptions paragraph_ends_blank.

(* ... so a notice naming n failed recipients has exactly n paragraphs: report text cannot forge more *)
Theorem paragraph_integrity : forall items : list (bytes * bytes),
  pstarts LF LF (concat (map (fun it => addbounce_text (fst it) (snd it)) items)) = length items.
Proof. exact bounce_paragraphs_l. Qed.
Print Assumptions paragraph_integrity.

(* every notice has a strictly smaller generation than the message it reports on
   (ordinary 2, bounce 1, double bounce 0): chains have length <= 2 and cannot loop *)
Theorem bounce_rank_decreases : forall dbt sender s',
  plan_sender (bounce_plan dbt sender) = Some s' -> (rank s' < rank sender)%nat.
Proof. exact bounce_rank_decreases_l. Qed.
Print Assumptions bounce_rank_decreases.

(* single bounce: empty envelope sender, to the original sender with any VERP suffix removed;
   double bounce: sender #@[], to the configured postmaster address; a failing double bounce is discarded *)
Theorem bounce_envelope : forall dbt sender,
  let s := verp_base sender in
  (s = s_dbl -> bounce_plan dbt sender = BDiscard) /\
  (s = [] -> bounce_plan dbt sender = BDouble s_dbl dbt) /\
  (s <> s_dbl -> s <> [] -> bounce_plan dbt sender = BSingle [] s).
Proof. exact bounce_envelope_l. Qed.
Print Assumptions bounce_envelope.

Theorem verp_sender_gets_bounce_at_base : forall base, verp_base (base ++ s_verp) = base.
Proof. exact verp_base_strips. Qed.
Print Assumptions verp_sender_gets_bounce_at_base.

Example paragraph_nonvacuous :
  addbounce_text [114; 10; 64; 120] [98; 10; 10; 10; 60; 118; 62; 58; 10; 10] =
  [60;114;95;64;120;62;58;10; 98;10;47;47;60;118;62;58;10;10; 10].
Proof. vm_compute. reflexivity. Qed.

(* the recipient named in the notice is the address with the virtual-domain tag removed: exactly when the tag came
   from a domain, wildcard or catch-all entry.  (A full-address entry is NOT undone: recorded finding
   bounce:full-address-vdom-prefix-kept, witnessed below.) *)
Theorem strip_undoes_virtual_domain_tag : forall c box dom x,
  no_at dom -> pct_idle c box dom ->
  cm_lookup (vdoms c) (box ++ AT :: dom) = None ->
  let addr := box ++ AT :: dom in
  rewrite c addr = Local (x ++ [DASH] ++ addr) ->
  stripvdomprepend c (x ++ [DASH] ++ addr) = addr.
Proof. exact strip_roundtrip_l. Qed.
Print Assumptions strip_undoes_virtual_domain_tag.
Theorem strip_roundtrip_exactly_when : forall c box dom x,
  no_at dom -> x <> [] ->
  (stripvdomprepend c (x ++ [DASH] ++ box ++ AT :: dom) = box ++ AT :: dom <-> first_key c (dom_keys dom) = Some x).
Proof. exact strip_roundtrip_iff_l. Qed.
Print Assumptions strip_roundtrip_exactly_when.
Example full_address_entry_prefix_kept_refuted :
  let c := {| envnoathost := []; locals := []; percenthack := []; vdoms := [([97;64;98], [117])] |} in      (* a@b:u *)
  rewrite c [97;64;98] = Local [117;45;97;64;98] /\ stripvdomprepend c [117;45;97;64;98] = [117;45;97;64;98].
Proof. vm_compute. split; reflexivity. Qed.

(* ---- the markers survive forwarding (qmail-local.c: the envelope sender of forwarded copies) ----
   Loop freedom is a property of the whole chain: a double bounce forwarded by a local alias must still be
   recognisable as one when the forward fails. *)
From NQ Require Local.Owner Local.OwnerProofs.
Theorem forwarded_bounce_keeps_its_sender : forall sender local host dash ext st,
  sender = [] \/ sender = Owner.s_dbl_ -> Owner.forward_sender sender local host dash ext st = Some sender.
Proof. exact OwnerProofs.marker_sender_kept. Qed.
Print Assumptions forwarded_bounce_keeps_its_sender.
Theorem forwarding_neither_makes_nor_unmakes_a_bounce : forall sender local host dash ext st s',
  Owner.forward_sender sender local host dash ext st = Some s' ->
  (s' = [] <-> sender = []) /\ (s' = Owner.s_dbl_ <-> sender = Owner.s_dbl_).
Proof. exact OwnerProofs.forward_keeps_markers. Qed.
Print Assumptions forwarding_neither_makes_nor_unmakes_a_bounce.
Theorem forward_sender_is_original_or_owner : forall sender local host dash ext st s',
  Owner.forward_sender sender local host dash ext st = Some s' ->
  s' = sender \/ s' = local ++ Owner.s_owner ++ [64%N] ++ host \/ s' = local ++ Owner.s_owner ++ [45%N; 64%N] ++ host ++ [45%N; 64%N; 91%N; 93%N].
Proof. exact OwnerProofs.forward_sender_forms. Qed.
Print Assumptions forward_sender_is_original_or_owner.
