(* C15 - Retries back off quadratically, expire with the queue lifetime, earliest first.
   Only statements; proofs are [exact <lemma>] from Send/SchedProofs.v and Send/PrioqProofs.v.
   Models: Send/Sched.v (qmail-send.c squareroot/nextretry/flagdying/pqfinish/pqstart, prioq.c). *)
From Coq Require Import Permutation.
From NQ Require Import Send.Sched Send.SchedProofs Send.PrioqProofs.
Local Open Scope Z_scope.

(* squareroot() is the exact integer square root for every age 0 .. 2^32-1 (loop invariant,
   not a sweep), and its result fits 16 bits *)
Theorem squareroot_exact : forall x, 0 <= x < 2 ^ 32 ->
  squareroot x * squareroot x <= x /\ x < (squareroot x + 1) * (squareroot x + 1) /\
  0 <= squareroot x < 2 ^ 16.
Proof. exact squareroot_exact_l. Qed.
Print Assumptions squareroot_exact.

(* the retry time is birth + (floor(sqrt(age)) + 10|20)^2 and lies strictly in the future *)
Theorem nextretry_future : forall birth recent c,
  birth <= recent -> recent - birth < 2 ^ 32 ->
  recent < nextretry birth recent c /\
  nextretry birth recent c =
    birth + (squareroot (recent - birth) + chanskip c) * (squareroot (recent - birth) + chanskip c).
Proof. exact nextretry_future_l. Qed.
Print Assumptions nextretry_future.

Theorem dying_iff_older_than_lifetime : forall birth recent lifetime,
  flagdying birth recent lifetime = true <-> recent - birth > lifetime.
Proof. exact flagdying_spec. Qed.
Print Assumptions dying_iff_older_than_lifetime.

(* priority queue: for EVERY sequence of insertions and deletions, of any length, the array is
   a heap, so its head is a minimum of the contents (due messages are served earliest first) *)
Theorem prioq_heap_inv : forall ops, heap_ok (fold_left pq_step ops []).
Proof. exact (fun ops => pq_reachable_heap ops [] heap_nil). Qed.
Print Assumptions prioq_heap_inv.

Theorem prioq_min_is_min : forall l e,
  heap_ok l -> pq_min l = Some e -> In e l /\ forall x, In x l -> (key e <= key x).
Proof. exact pq_min_is_min. Qed.
Print Assumptions prioq_min_is_min.

(* contents = inserted minus deleted: insert adds exactly the element, delmin removes exactly
   the head *)
Theorem prioq_insert_multiset : forall l pe,
  heap_ok l -> heap_ok (pq_insert l pe) /\ Permutation (pq_insert l pe) (pe :: l).
Proof. exact pq_insert_ok. Qed.
Print Assumptions prioq_insert_multiset.

Theorem prioq_delmin_multiset : forall l,
  heap_ok l -> l <> [] -> heap_ok (pq_delmin l) /\ Permutation (get l 0 :: pq_delmin l) l.
Proof. exact pq_delmin_ok. Qed.
Print Assumptions prioq_delmin_multiset.

(* the schedule survives a clean stop and start: what pqfinish wrote is what pqstart reads *)
Theorem restart_preserves_due : forall s fs c id t,
  NoDup (map skey s) -> In (c, id, t) s -> lookup fs c id <> None ->
  lookup (pqstart (pqfinish s fs)) c id = Some t.
Proof. exact restart_preserves_due_l. Qed.
Print Assumptions restart_preserves_due.

Example squareroot_nonvacuous : squareroot 4294967295 = 65535 /\ nextretry 1000 2000 1 = 3601.
Proof. split; vm_compute; reflexivity. Qed.
Example prioq_nonvacuous :
  pq_min (fold_left pq_step [PIns (5, 1%N); PIns (3, 2%N); PIns (9, 3%N); PDel] []) = Some (5, 1%N).
Proof. vm_compute. reflexivity. Qed.
