(* C03 - No accepted recipient is ever dropped: delivered or bounced.
   Only statements; proofs are [exact <lemma>] from Queue/QueueSpecProofs.v (see Properties_C02.v for the model). *)
From NQ Require Import Queue.QueueSpec Queue.QueueSpecProofs.

(* after ANY accepted history - any reports in any order, crashes and restarts anywhere - every accepted recipient
   is still to do in an existing channel file of an intact message (info and mess present), or was reported
   delivered, or its failure is noted in an existing bounce file of an intact message, or was named in a bounce
   that was queued, or was dropped with a failing double bounce (the documented exception) *)
Theorem no_drop_invariant : forall es s, run q0 es = Some s -> no_drop s = true.
Proof. exact no_drop_l. Qed.
Print Assumptions no_drop_invariant.

(* a record is overwritten with D only after a K or D report for an attempt on exactly that record ... *)
Theorem mark_needs_report : forall s n c i s', step s (EMark n c i) = Some s' ->
  exists o, In o (q_owed s) /\ owed_for o n c i = true /\ (o_v o = VK \/ o_v o = VD).
Proof. exact mark_needs_report_l. Qed.
Print Assumptions mark_needs_report.
Theorem owed_reports_are_K_or_D_for_live_records : forall es s o, run q0 es = Some s -> In o (q_owed s) ->
  (o_v o = VK \/ o_v o = VD) /\ msg_ref (getm (q_msgs s) (o_msg o)) (o_chan o) (o_idx o).
Proof. exact owed_only_K_or_D_l. Qed.
Print Assumptions owed_reports_are_K_or_D_for_live_records.
(* ... a temporary failure or a garbled report changes no message and creates no obligation *)
Theorem tempfail_or_garbage_changes_nothing : forall s c d v s', step s (ERep c d v) = Some s' ->
  v = VZ \/ v = VGarbage -> q_msgs s' = q_msgs s /\ q_owed s' = q_owed s.
Proof. exact tempfail_or_garbage_changes_nothing_l. Qed.
Print Assumptions tempfail_or_garbage_changes_nothing.
(* the message leaves the queue (info/n removed) only when every recipient is delivered, bounced or discarded *)
Theorem info_removed_only_when_all_settled : forall es s n s', run q0 es = Some s ->
  step s (EUnlinkInfo n) = Some s' -> m_have_recs (getm (q_msgs s) n) = true ->
  forall c r, In c [0; 1] -> In r (recs_of (getm (q_msgs s) n) c) ->
  r_k r = true \/ r_bounced r = true \/ r_discarded r = true.
Proof. exact info_removed_only_when_all_settled_l. Qed.
Print Assumptions info_removed_only_when_all_settled.
