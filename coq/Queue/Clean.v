(* Trust-boundary helpers (C18), model only:
   qmail-clean.c main loop body, spawn.c getcmd()/docmd() validation, qmail-send.c del_dochan(). *)
From NQ Require Export Base.CInt.
Local Open Scope N_scope.

(* ------------------------------------------------------------------ qmail-clean *)
Inductive ures := UOk | UNoent | UFail.          (* result of unlink(): 0, ENOENT, other error *)

Definition s_foop : bytes := [102;111;111;112;47].       (* "foop/" *)
Definition s_todo : bytes := [116;111;100;111;47].       (* "todo/" *)
Definition s_intd : bytes := [105;110;116;100;47].       (* "intd/" *)
Definition s_mess : bytes := [109;101;115;115;47].       (* "mess/" *)
Definition SLASH : N := 47.

Definition fmtqfn (dir : bytes) (id : N) (split : option N) : bytes :=
  dir ++ (match split with Some sp => fmt_ulong (id mod sp) ++ [SLASH] | None => [] end) ++ fmt_ulong id.

(* req = the request without its terminating NUL (getln splits at the first NUL, so req is
   NUL-free); u1, u2 = what the two unlink() calls return if they are made.
   Result: (paths passed to unlink, in order; bytes written to the status pipe). *)
Definition clean_handle (split : N) (req : bytes) (u1 u2 : ures) : list bytes * bytes :=
  let len := S (length req) in                        (* line.len counts the NUL *)
  if Nat.ltb len 7 || Nat.ltb 100 len then ([], [120]) else
  if negb (forallb is_digit (skipn 5 req)) then ([], [120]) else
  let (id, n) := scan_ulong (skipn 5 req) in
  if Nat.eqb n 0 then ([], [120]) else
  let go (p1 p2 : bytes) :=
    match u1 with
    | UFail => ([p1], [33])
    | _ => match u2 with UFail => ([p1; p2], [33]) | _ => ([p1; p2], [43]) end
    end in
  if beq (firstn 5 req) s_foop then go (fmtqfn s_intd id None) (fmtqfn s_mess id (Some split))
  else if beq (firstn 5 req) s_todo then go (fmtqfn s_intd id None) (fmtqfn s_todo id None)
  else ([], [120]).

(* the request stream: requests end at NUL; an unterminated tail is not a request *)
Fixpoint split_nul (cur : bytes) (s : bytes) : list bytes :=
  match s with
  | [] => []
  | c :: s' => if c =? 0 then rev cur :: split_nul [] s' else split_nul (c :: cur) s'
  end.

(* ------------------------------------------------------------------ spawn.c *)
(* one delivery command = delnum byte, messid NUL, sender NUL, recipient NUL *)
Record cmd := { c_delnum : N; c_messid : bytes; c_sender : bytes; c_recip : bytes }.

Fixpoint take_nul (cur : bytes) (s : bytes) : option (bytes * bytes) :=
  match s with
  | [] => None
  | c :: s' => if c =? 0 then Some (rev cur, s') else take_nul (c :: cur) s'
  end.

(* fuel = length of the stream (every command consumes at least 4 bytes) *)
Fixpoint parse_cmds (fuel : nat) (s : bytes) : list cmd :=
  match fuel with
  | O => []
  | S f =>
    match s with
    | [] => []
    | d :: s1 =>
      match take_nul [] s1 with
      | None => []
      | Some (m, s2) =>
        match take_nul [] s2 with
        | None => []
        | Some (sn, s3) =>
          match take_nul [] s3 with
          | None => []
          | Some (r, s4) => {| c_delnum := d; c_messid := m; c_sender := sn; c_recip := r |} :: parse_cmds f s4
          end
        end
      end
    end
  end.

(* what the file named by messid turns out to be *)
Inductive fkind := FAbsent | FNotRegular | FWrongOwner | FGood.
Inductive sact :=
  | SErr (delnum : N) (verdict : N)            (* immediate report: delnum, 'Z' or 'D' + text, NUL *)
  | SOpenErr (delnum : N) (path : bytes) (verdict : N)   (* opened (or tried) path, then refused *)
  | SSpawn (delnum : N) (path : bytes).        (* child started on that file; one report at its exit *)

Definition messid_char_ok (first : bool) (c : N) : bool :=
  is_digit c || (negb first && (c =? SLASH)).
Fixpoint messid_ok_from (first : bool) (m : bytes) : bool :=
  match m with [] => true | c :: m' => messid_char_ok first c && messid_ok_from false m' end.

Definition docmd (nspawn : N) (used : N -> bool) (file : bytes -> fkind) (c : cmd) : sact :=
  let d := c_delnum c in
  if nspawn <=? d then SErr d 90 else
  if used d then SErr d 90 else
  if negb (messid_ok_from true (c_messid c)) then SErr d 68 else
  if Nat.ltb 100 (S (length (c_messid c))) then SErr d 68 else
  match c_messid c with [] => SErr d 68 | _ =>
    if negb (has 64 (c_recip c)) then SErr d 68 else
    match file (c_messid c) with
    | FAbsent => SOpenErr d (c_messid c) 90
    | FNotRegular => SOpenErr d (c_messid c) 90
    | FWrongOwner => SOpenErr d (c_messid c) 90
    | FGood => SSpawn d (c_messid c)
    end
  end.

(* ------------------------------------------------------------------ del_dochan *)
Definition REPORTMAX : N := 10000.

(* dline accumulation with the clamp: returns the completed reports (each a byte list whose
   first byte is the delivery number, without the terminating NUL; at most REPORTMAX bytes) *)
Fixpoint reports_from (dline : bytes) (dlen : N) (s : bytes) : list bytes :=
  match s with
  | [] => []
  | ch :: s' =>
    (* append then clamp: a byte beyond REPORTMAX is dropped *)
    let (dline1, dlen1) := if dlen <? REPORTMAX then (ch :: dline, dlen + 1) else (dline, dlen) in
    if (ch =? 0) && (1 <? dlen1)
    then rev_append dline [] :: reports_from [] 0 s'   (* = rev dline, linear time *)
    else reports_from dline1 dlen1 s'
  end.
Definition reports (s : bytes) : list bytes := reports_from [] 0 s.

Inductive verdict := VK | VZ | VD | VMangled.
Inductive devent :=
  | DIgnored                                   (* out of range / unused slot: no state change *)
  | DReport (delnum : N) (v : verdict) (text : bytes).
(* "I'm not going to try again; this message has been in the queue too long.\n" *)
Definition DYING_TEXT : bytes :=
  [73;39;109;32;110;111;116;32;103;111;105;110;103;32;116;111;32;116;114;121;32;97;103;97;105;110;59;32;116;104;105;115;32;109;101;115;115;97;103;101;32;104;97;115;32;98;101;101;110;32;105;110;32;116;104;101;32;113;117;101;117;101;32;116;111;111;32;108;111;110;103;46;10].
(* a deferral for a message that is too old becomes a failure with that sentence appended; the code removes the
   terminating NUL with --len first, which for a report clamped at REPORTMAX (whose NUL was cut off) is its last byte *)
Definition dying_text (r text : bytes) : bytes :=
  (if N.of_nat (length r) =? REPORTMAX then removelast text else text) ++ DYING_TEXT.
Definition del_event (conc : N) (used : N -> bool) (dying : N -> bool) (r : bytes) : devent :=
  match r with
  | [] => DIgnored
  | d :: rest =>
    if (conc <=? d) || negb (used d) then DIgnored else
    match rest with
    | [] => DReport d VMangled []
    | k :: text =>
      if k =? 75 then DReport d VK text
      else if k =? 90 then (if dying d then DReport d VD (dying_text r text) else DReport d VZ text)
      else if k =? 68 then DReport d VD text
      else DReport d VMangled text
    end
  end.
(* only K and D finish a recipient *)
Definition finishes (e : devent) : bool :=
  match e with DReport _ VK _ | DReport _ VD _ => true | _ => false end.
