From Coq Require Import Arith.
From NQ Require Import Queue.Clean.
Local Open Scope N_scope.

(* ------------------------------------------------------------------ qmail-clean *)
Lemma clean_one_status_l split req u1 u2 : length (snd (clean_handle split req u1 u2)) = 1%nat.
Proof.
  unfold clean_handle.
  destruct (_ || _); [reflexivity|]. destruct (negb _); [reflexivity|].
  destruct (scan_ulong _) as [id n]. destruct (Nat.eqb n 0); [reflexivity|].
  destruct (beq _ s_foop); [destruct u1, u2; reflexivity|].
  destruct (beq _ s_todo); [destruct u1, u2; reflexivity|reflexivity].
Qed.

Lemma clean_reject_no_effect_l split req u1 u2 :
  snd (clean_handle split req u1 u2) = [120] -> fst (clean_handle split req u1 u2) = [].
Proof.
  unfold clean_handle.
  destruct (_ || _); [reflexivity|]. destruct (negb _); [reflexivity|].
  destruct (scan_ulong _) as [id n]. destruct (Nat.eqb n 0); [reflexivity|].
  destruct (beq _ s_foop); [destruct u1, u2; cbn; intro H; discriminate|].
  destruct (beq _ s_todo); [destruct u1, u2; cbn; intro H; discriminate|reflexivity].
Qed.

Lemma clean_only_named_l split req u1 u2 p :
  In p (fst (clean_handle split req u1 u2)) ->
  exists pre digs,
    req = pre ++ digs /\ forallb is_digit digs = true /\ digs <> [] /\
    let id := fst (scan_ulong digs) in
    (pre = s_foop /\ (p = fmtqfn s_intd id None \/ p = fmtqfn s_mess id (Some split))) \/
    (pre = s_todo /\ (p = fmtqfn s_intd id None \/ p = fmtqfn s_todo id None)).
Proof.
  unfold clean_handle.
  destruct (_ || _) eqn:El; [contradiction|].
  destruct (forallb is_digit (skipn 5 req)) eqn:Ed; cbn [negb]; [|contradiction].
  destruct (scan_ulong (skipn 5 req)) as [id n] eqn:Es. destruct (Nat.eqb n 0); [contradiction|].
  assert (Hne : skipn 5 req <> []).
  { apply orb_false_iff in El as [El _]. apply Nat.ltb_ge in El.
    intro E. assert (length (skipn 5 req) = 0%nat) by (rewrite E; reflexivity).
    rewrite skipn_length in H. lia. }
  assert (Hid : fst (scan_ulong (skipn 5 req)) = id) by (rewrite Es; reflexivity).
  destruct (beq (firstn 5 req) s_foop) eqn:Ef.
  - apply beq_eq in Ef. intros Hin. exists s_foop, (skipn 5 req).
    split; [rewrite <- Ef; symmetry; apply firstn_skipn|]. split; [exact Ed|]. split; [exact Hne|].
    cbv zeta. rewrite Hid. left. split; [reflexivity|].
    destruct u1, u2; cbn in Hin; intuition.
  - destruct (beq (firstn 5 req) s_todo) eqn:Et; [|contradiction].
    apply beq_eq in Et. intros Hin. exists s_todo, (skipn 5 req).
    split; [rewrite <- Et; symmetry; apply firstn_skipn|]. split; [exact Ed|]. split; [exact Hne|].
    cbv zeta. rewrite Hid. right. split; [reflexivity|].
    destruct u1, u2; cbn in Hin; intuition.
Qed.

(* the number acted on is the decimal number spelled in the request, modulo 2^64 *)
Lemma scan_from_value s : forall acc pos,
  forallb is_digit s = true ->
  fst (scan_from s acc pos) = dec_value_from s acc mod U64 \/ s = [].
Proof.
  induction s as [|c s IH]; intros acc pos H; [right; reflexivity|left].
  cbn in H. apply andb_true_iff in H as [Hc Hs].
  cbn [scan_from dec_value_from]. rewrite Hc.
  destruct s as [|c' s'].
  - cbn. reflexivity.
  - destruct (IH ((acc * 10 + (c - 48)) mod U64) (S pos) Hs) as [E|E]; [|discriminate].
    rewrite E. clear E IH.
    (* dec_value_from is affine in acc modulo U64 *)
    assert (G : forall t a b, a mod U64 = b mod U64 -> dec_value_from t a mod U64 = dec_value_from t b mod U64).
    { induction t as [|d t IHt]; intros a b Hab; cbn; [exact Hab|].
      destruct (is_digit d); [|exact Hab]. apply IHt.
      rewrite (N.add_mod (a * 10)), (N.add_mod (b * 10)) by (unfold U64; lia).
      rewrite (N.mul_mod a), (N.mul_mod b) by (unfold U64; lia). rewrite Hab. reflexivity. }
    apply G. rewrite N.mod_mod by (unfold U64; lia). reflexivity.
Qed.

Lemma scan_ulong_value_l digs :
  forallb is_digit digs = true -> fst (scan_ulong digs) = dec_value digs mod U64.
Proof.
  intros H. unfold scan_ulong, dec_value.
  destruct (scan_from_value digs 0 0%nat H) as [E|E]; [exact E|subst; reflexivity].
Qed.

(* ------------------------------------------------------------------ spawn *)
Definition sact_delnum (a : sact) : N :=
  match a with SErr d _ => d | SOpenErr d _ _ => d | SSpawn d _ => d end.
Definition sact_path (a : sact) : option bytes :=
  match a with SErr _ _ => None | SOpenErr _ p _ => Some p | SSpawn _ p => Some p end.

Lemma docmd_one_report nspawn used file c : sact_delnum (docmd nspawn used file c) = c_delnum c.
Proof.
  unfold docmd. destruct (nspawn <=? _); [reflexivity|]. destruct (used _); [reflexivity|].
  destruct (negb (messid_ok_from _ _)); [reflexivity|]. destruct (Nat.ltb _ _); [reflexivity|].
  destruct (c_messid c); [reflexivity|]. destruct (negb (has _ _)); [reflexivity|].
  destruct (file _); reflexivity.
Qed.

Lemma docmd_opens_only_numeric nspawn used file c p :
  sact_path (docmd nspawn used file c) = Some p ->
  p = c_messid c /\ messid_ok_from true p = true /\ p <> [] /\ (length p < 100)%nat.
Proof.
  unfold docmd. destruct (nspawn <=? _); [discriminate|]. destruct (used _); [discriminate|].
  destruct (messid_ok_from true (c_messid c)) eqn:Em; cbn [negb]; [|discriminate].
  destruct (Nat.ltb_spec 100 (S (length (c_messid c)))) as [|Hl]; [discriminate|].
  destruct (c_messid c) as [|m0 mt] eqn:Ec; [discriminate|]. destruct (negb (has _ _)); [discriminate|].
  intros H. assert (p = m0 :: mt) by (destruct (file _); cbn in H; congruence). subst p.
  repeat split; try assumption; try discriminate; cbn in Hl |- *; lia.
Qed.

Lemma docmd_spawn_only_good nspawn used file c d p :
  docmd nspawn used file c = SSpawn d p -> file p = FGood /\ used d = false /\ d < nspawn.
Proof.
  unfold docmd. destruct (N.leb_spec nspawn (c_delnum c)) as [|Hlt]; [discriminate|].
  destruct (used (c_delnum c)) eqn:Eu; [discriminate|].
  destruct (negb (messid_ok_from _ _)); [discriminate|]. destruct (Nat.ltb _ _); [discriminate|].
  destruct (c_messid c) as [|m0 mt] eqn:Ec; [discriminate|]. destruct (negb (has _ _)); [discriminate|].
  destruct (file (m0 :: mt)) eqn:Ef; intro HH; try discriminate. injection HH as <- <-. auto.
Qed.

(* only digits and, after the first character, slashes: no dot, no leading slash *)
Lemma messid_ok_forall m : forall f, messid_ok_from f m = true ->
  Forall (fun c => is_digit c = true \/ c = SLASH) m.
Proof.
  induction m as [|c m IH]; intros f H; constructor.
  - cbn in H. apply andb_true_iff in H as [H _]. unfold messid_char_ok in H.
    apply orb_true_iff in H as [H|H]; [left; exact H|right]. apply andb_true_iff in H as [_ H]. apply N.eqb_eq in H. exact H.
  - cbn in H. apply andb_true_iff in H as [_ H]. exact (IH false H).
Qed.
Lemma messid_ok_chars m : messid_ok_from true m = true ->
  Forall (fun c => is_digit c = true \/ c = SLASH) m /\ (forall c t, m = c :: t -> is_digit c = true).
Proof.
  intros H. split; [exact (messid_ok_forall m true H)|].
  intros c t ->. cbn in H. apply andb_true_iff in H as [H _]. unfold messid_char_ok in H.
  cbn in H. rewrite orb_false_r in H. exact H.
Qed.

(* ------------------------------------------------------------------ del_dochan *)
Lemma reports_from_bounded s : forall dline dlen,
  dlen = N.of_nat (length dline) -> dlen <= REPORTMAX ->
  Forall (fun r => N.of_nat (length r) <= REPORTMAX) (reports_from dline dlen s).
Proof.
  induction s as [|ch s IH]; intros dline dlen Hl Hb; cbn [reports_from]; [constructor|].
  destruct (N.ltb_spec dlen REPORTMAX) as [Hlt|Hge].
  - destruct ((ch =? 0) && (1 <? dlen + 1)).
    + constructor; [rewrite rev_append_rev, app_nil_r, rev_length; lia|]. apply IH; [reflexivity|unfold REPORTMAX; lia].
    + apply IH; [cbn [length]; lia|lia].
  - destruct ((ch =? 0) && (1 <? dlen)).
    + constructor; [rewrite rev_append_rev, app_nil_r, rev_length; lia|]. apply IH; [reflexivity|unfold REPORTMAX; lia].
    + apply IH; assumption.
Qed.
Lemma reports_bounded_l s : Forall (fun r => N.of_nat (length r) <= REPORTMAX) (reports s).
Proof. apply reports_from_bounded; [reflexivity|unfold REPORTMAX; lia]. Qed.

Lemma del_ignored_l conc used dying d rest :
  conc <= d \/ used d = false -> del_event conc used dying (d :: rest) = DIgnored.
Proof.
  intros H. cbn. destruct (N.leb_spec conc d); [reflexivity|].
  destruct H as [H|H]; [lia|]. rewrite H. reflexivity.
Qed.

Lemma finishes_only_KD_l conc used dying r :
  finishes (del_event conc used dying r) = true ->
  exists d k t, r = d :: k :: t /\ d < conc /\ used d = true /\
                (k = 75 \/ k = 68 \/ (k = 90 /\ dying d = true)).
Proof.
  destruct r as [|d [|k t]]; cbn; try discriminate.
  - destruct (_ || _); discriminate.
  - destruct (N.leb_spec conc d); [discriminate|]. destruct (used d) eqn:Eu; [|discriminate]. cbn.
    destruct (N.eqb_spec k 75); [intros _; exists d, k, t; auto 8|].
    destruct (N.eqb_spec k 90).
    + destruct (dying d) eqn:Ed; [intros _; exists d, k, t; auto 10|discriminate].
    + destruct (N.eqb_spec k 68); [intros _; exists d, k, t; auto 10|discriminate].
Qed.
