(* The queue as a guarded automaton over the events that can be observed from outside the real programs
   (system calls of qmail-queue, qmail-send, qmail-clean on queue files; delivery commands and reports on
   the spawner channels; daemon crash and restart).  Model only (C02, C03, C04).

   [step] is partial: an event whose guard fails is NOT something the documented design (INTERNALS.md 2-6)
   allows at that point.  The theorems (QueueSpecProofs.v) say that every event sequence accepted by [step]
   keeps the documented-state, no-drop and no-retry invariants; checks/C02..C04 translate the system-call
   log of the real programs into events and require every one of them to be accepted, and evaluate the same
   invariants directly on the real queue directory. *)
From Coq Require Export List Arith Bool Lia.
Export ListNotations.

Inductive file := Mess | Intd | Todo | Info | Local | Remote | Bounce.
Inductive verdict := VK | VZ | VD | VGarbage.
Definition chan := nat.                                   (* 0 local, 1 remote *)
Definition chan_file (c : chan) : file := match c with O => Local | _ => Remote end.

Inductive ev :=
  (* qmail-queue, process p *)
  | EInjMess (p n : nat)                       (* link pid/x mess/n ; n is the inode *)
  | EInjIntd (p n : nat)                       (* create intd/n *)
  | EInjCommit (p n : nat) (nrcpt : nat) (dbl : bool)
                                               (* link intd/n todo/n ; number of recipients ; sender is the double-bounce address *)
  | EInjAbort (p n : nat) (f : file)           (* cleanup() after a failure: unlink intd/n, then mess/n *)
  (* qmail-send preprocessing a todo entry (S4) *)
  | EPreUnlink (n : nat) (f : file)            (* unlink info/local/remote left from an earlier attempt *)
  | ECreate (n : nat) (f : file)               (* create info/local/remote *)
  | ESync (n : nat) (f : file)                 (* its content is complete and fsynced *)
  | ERecs (n : nat) (nloc nrem : nat)          (* number of records written to local/n and remote/n (read by the check) *)
  | ECleanIntd (n : nat)                       (* qmail-clean: unlink intd/n on request *)
  | ECleanTodo (n : nat)                       (* qmail-clean: unlink todo/n on request: S4 -> S5 *)
  (* deliveries *)
  | ECmd (c : chan) (d : nat) (n : nat) (i : nat)     (* delivery command for record i of channel file c, slot d *)
  | ERep (c : chan) (d : nat) (v : verdict)           (* report for slot d as the daemon parses it *)
  | ENote (n : nat) (c : chan) (i : nat)              (* failure paragraph for that record appended to bounce/n *)
  | EMark (n : nat) (c : chan) (i : nat)              (* record overwritten with D *)
  | EUnlinkChan (n : nat) (c : chan)
  (* bounces and elimination *)
  | EBounceQueued (n : nat)                    (* the bounce for n was committed to the queue by the daemon's qmail-queue *)
  | EBounceDiscard (n : nat)                   (* documented exception: failing double bounce is dropped *)
  | EUnlinkBounce (n : nat)
  | EUnlinkInfo (n : nat)                      (* S5 -> S2 *)
  | ECleanFoop (n : nat) (f : file) (old : bool)     (* qmail-clean: unlink intd/n then mess/n; old = mess/n is older than OSSIFIED *)
  (* the daemon as a process *)
  | ECrash                                     (* qmail-send (and qmail-clean) die at this instant *)
  | EStart (lim0 lim1 : nat).                  (* a daemon starts: effective concurrency per channel *)

Inductive rstat := RTodo | RDone.
Record rec := { r_stat : rstat; r_k : bool; r_noted : bool; r_pending : bool; r_bounced : bool; r_discarded : bool }.
(* r_k: reported delivered ; r_noted: a failure paragraph was written ; r_pending: ... into the bounce file that
   exists now and is not yet queued ; r_bounced: named in a bounce that was queued ; r_discarded: dropped with a
   failing double bounce *)
Definition rec0 : rec := {| r_stat := RTodo; r_k := false; r_noted := false; r_pending := false; r_bounced := false; r_discarded := false |}.

Record msg := {
  f_mess : bool; f_intd : bool; f_todo : bool; f_info : bool; f_local : bool; f_remote : bool; f_bounce : bool;
  s_info : bool; s_local : bool; s_remote : bool;        (* synced *)
  m_owner : option nat;          (* injector still constructing it *)
  m_nrcpt : nat; m_dbl : bool;   (* accepted at commit *)
  m_recs : list (list rec);      (* per channel, once the record counts are known *)
  m_have_recs : bool;
  m_elim : bool                  (* the daemon unlinked info/n and is about to ask the cleaner *)
}.
Definition msg0 : msg :=
  {| f_mess := false; f_intd := false; f_todo := false; f_info := false; f_local := false; f_remote := false; f_bounce := false;
     s_info := false; s_local := false; s_remote := false; m_owner := None; m_nrcpt := 0; m_dbl := false;
     m_recs := [[]; []]; m_have_recs := false; m_elim := false |}.

(* an outstanding delivery attempt *)
Record att := { a_chan : chan; a_slot : nat; a_msg : nat; a_idx : nat }.
(* a report received and not yet acted upon *)
Record owed := { o_msg : nat; o_chan : chan; o_idx : nat; o_v : verdict }.

Record qst := {
  q_msgs : list (nat * msg);
  q_running : bool;
  q_lim : list nat;              (* effective concurrency per channel *)
  q_att : list att;
  q_owed : list owed
}.
Definition q0 : qst := {| q_msgs := []; q_running := false; q_lim := [0; 0]; q_att := []; q_owed := [] |}.

Fixpoint getm (l : list (nat * msg)) (n : nat) : msg :=
  match l with [] => msg0 | (k, m) :: l' => if Nat.eqb k n then m else getm l' n end.
Fixpoint setm (l : list (nat * msg)) (n : nat) (m : msg) : list (nat * msg) :=
  match l with
  | [] => [(n, m)]
  | (k, x) :: l' => if Nat.eqb k n then (n, m) :: l' else (k, x) :: setm l' n m
  end.

Definition has_file (m : msg) (f : file) : bool :=
  match f with Mess => f_mess m | Intd => f_intd m | Todo => f_todo m | Info => f_info m
             | Local => f_local m | Remote => f_remote m | Bounce => f_bounce m end.
Definition set_file (m : msg) (f : file) (b : bool) : msg :=
  {| f_mess := (match f with Mess => b | _ => f_mess m end); f_intd := (match f with Intd => b | _ => f_intd m end);
     f_todo := (match f with Todo => b | _ => f_todo m end); f_info := (match f with Info => b | _ => f_info m end);
     f_local := (match f with Local => b | _ => f_local m end); f_remote := (match f with Remote => b | _ => f_remote m end);
     f_bounce := (match f with Bounce => b | _ => f_bounce m end);
     s_info := (match f with Info => false | _ => s_info m end); s_local := (match f with Local => false | _ => s_local m end);
     s_remote := (match f with Remote => false | _ => s_remote m end);
     m_owner := m_owner m; m_nrcpt := m_nrcpt m; m_dbl := m_dbl m; m_recs := m_recs m; m_have_recs := m_have_recs m; m_elim := m_elim m |}.
Definition set_sync (m : msg) (f : file) : msg :=
  {| f_mess := f_mess m; f_intd := f_intd m; f_todo := f_todo m; f_info := f_info m; f_local := f_local m; f_remote := f_remote m;
     f_bounce := f_bounce m;
     s_info := (match f with Info => true | _ => s_info m end); s_local := (match f with Local => true | _ => s_local m end);
     s_remote := (match f with Remote => true | _ => s_remote m end);
     m_owner := m_owner m; m_nrcpt := m_nrcpt m; m_dbl := m_dbl m; m_recs := m_recs m; m_have_recs := m_have_recs m; m_elim := m_elim m |}.
Definition set_meta (m : msg) (owner : option nat) (nrcpt : nat) (dbl : bool) (recs : list (list rec)) (have : bool) (elim : bool) : msg :=
  {| f_mess := f_mess m; f_intd := f_intd m; f_todo := f_todo m; f_info := f_info m; f_local := f_local m; f_remote := f_remote m;
     f_bounce := f_bounce m; s_info := s_info m; s_local := s_local m; s_remote := s_remote m;
     m_owner := owner; m_nrcpt := nrcpt; m_dbl := dbl; m_recs := recs; m_have_recs := have; m_elim := elim |}.
Definition set_recs (m : msg) (recs : list (list rec)) : msg :=
  set_meta m (m_owner m) (m_nrcpt m) (m_dbl m) recs (m_have_recs m) (m_elim m).

Definition is_S1 (m : msg) : bool := negb (f_mess m || f_intd m || f_todo m || f_info m || f_local m || f_remote m || f_bounce m).
Definition documented (m : msg) : bool :=
  is_S1 m
  || (f_mess m && negb (f_todo m) && negb (f_info m) && negb (f_local m) && negb (f_remote m) && negb (f_bounce m))   (* S2, S3 *)
  || (f_mess m && f_todo m && negb (f_bounce m))                                                                     (* S4 *)
  || (f_mess m && negb (f_intd m) && negb (f_todo m) && f_info m).                                                   (* S5 *)

Definition recs_of (m : msg) (c : chan) : list rec := nth c (m_recs m) [].
Fixpoint upd {A} (l : list A) (i : nat) (x : A) : list A :=
  match l, i with [], _ => [] | _ :: t, O => x :: t | h :: t, S k => h :: upd t k x end.
Definition upd_rec (m : msg) (c : chan) (i : nat) (r : rec) : msg :=
  set_recs m (upd (m_recs m) c (upd (recs_of m c) i r)).
Definition map_recs (m : msg) (f : rec -> rec) : msg := set_recs m (map (map f) (m_recs m)).

Definition att_eqb (a : att) (c : chan) (d : nat) : bool := Nat.eqb (a_chan a) c && Nat.eqb (a_slot a) d.
Definition att_for (a : att) (n : nat) (c : chan) (i : nat) : bool := Nat.eqb (a_msg a) n && Nat.eqb (a_chan a) c && Nat.eqb (a_idx a) i.
Definition owed_for (o : owed) (n : nat) (c : chan) (i : nat) : bool := Nat.eqb (o_msg o) n && Nat.eqb (o_chan o) c && Nat.eqb (o_idx o) i.
Definition is_vk (v : verdict) := match v with VK => true | _ => false end.
Definition is_vd (v : verdict) := match v with VD => true | _ => false end.
Definition all_done (l : list rec) : bool := forallb (fun r => match r_stat r with RDone => true | RTodo => false end) l.
Definition no_pending (m : msg) : bool := forallb (forallb (fun r => negb (r_pending r))) (m_recs m).

Definition upd_msg (s : qst) (n : nat) (m : msg) : qst :=
  {| q_msgs := setm (q_msgs s) n m; q_running := q_running s; q_lim := q_lim s; q_att := q_att s; q_owed := q_owed s |}.

(* None = the event is not allowed here *)
Definition step (s : qst) (e : ev) : option qst :=
  match e with
  | EInjMess p n =>
    let m := getm (q_msgs s) n in
    if is_S1 m then Some (upd_msg s n (set_meta (set_file m Mess true) (Some p) 0 false [[]; []] false false)) else None
  | EInjIntd p n =>
    let m := getm (q_msgs s) n in
    match m_owner m with
    | Some q => if Nat.eqb p q && f_mess m && negb (f_intd m) && negb (f_todo m) then Some (upd_msg s n (set_file m Intd true)) else None
    | None => None
    end
  | EInjCommit p n k dbl =>
    let m := getm (q_msgs s) n in
    match m_owner m with
    | Some q => if Nat.eqb p q && f_mess m && f_intd m && negb (f_todo m) && negb (f_info m) && negb (f_local m) && negb (f_remote m)
                then Some (upd_msg s n (set_meta (set_file m Todo true) None k dbl [[]; []] false false)) else None
    | None => None
    end
  | EInjAbort p n f =>
    let m := getm (q_msgs s) n in
    match m_owner m with
    | Some q =>
      if Nat.eqb p q && negb (f_todo m) then
        match f with
        | Intd => if f_intd m then Some (upd_msg s n (set_file m Intd false)) else None
        | Mess => if f_mess m && negb (f_intd m)
                  then Some (upd_msg s n (set_meta (set_file m Mess false) None 0 false [[]; []] false false)) else None
        | _ => None
        end
      else None
    | None => None
    end
  | EPreUnlink n f =>
    let m := getm (q_msgs s) n in
    if q_running s && f_todo m && has_file m f && (match f with Info | Local | Remote => true | _ => false end)
    then Some (upd_msg s n (set_meta (set_file m f false) (m_owner m) (m_nrcpt m) (m_dbl m) [[]; []] false false)) else None
  | ECreate n f =>
    let m := getm (q_msgs s) n in
    if q_running s && f_todo m && f_mess m && negb (has_file m f) && (match f with Info | Local | Remote => true | _ => false end)
    then Some (upd_msg s n (set_file m f true)) else None
  | ESync n f =>
    let m := getm (q_msgs s) n in
    if q_running s && has_file m f then Some (upd_msg s n (set_sync m f)) else None
  | ERecs n a b =>
    let m := getm (q_msgs s) n in
    if q_running s && f_todo m && f_info m && negb (m_have_recs m) && Nat.eqb (a + b) (m_nrcpt m)
       && Bool.eqb (f_local m) (negb (Nat.eqb a 0)) && Bool.eqb (f_remote m) (negb (Nat.eqb b 0))
    then Some (upd_msg s n (set_meta m (m_owner m) (m_nrcpt m) (m_dbl m) [repeat rec0 a; repeat rec0 b] true false)) else None
  | ECleanIntd n =>
    let m := getm (q_msgs s) n in
    (* on the daemon's request, after preprocessing: everything needed later is durable *)
    if q_running s && f_todo m && f_intd m && f_info m && s_info m && m_have_recs m
       && (negb (f_local m) || s_local m) && (negb (f_remote m) || s_remote m)
    then Some (upd_msg s n (set_file m Intd false)) else None
  | ECleanTodo n =>
    let m := getm (q_msgs s) n in
    if q_running s && f_todo m && negb (f_intd m) && f_info m && s_info m && m_have_recs m
       && (negb (f_local m) || s_local m) && (negb (f_remote m) || s_remote m)
    then Some (upd_msg s n (set_file m Todo false)) else None
  | ECmd c d n i =>
    let m := getm (q_msgs s) n in
    match nth_error (recs_of m c) i with
    | Some r =>
      if q_running s && Nat.ltb c 2 && f_mess m && f_info m && negb (f_todo m) && has_file m (chan_file c) && m_have_recs m
         && (match r_stat r with RTodo => true | RDone => false end)
         && negb (existsb (fun a => att_for a n c i) (q_att s))
         && negb (existsb (fun o => owed_for o n c i) (q_owed s))
         && negb (existsb (fun a => att_eqb a c d) (q_att s))
         && Nat.ltb d (nth c (q_lim s) 0)
         && Nat.ltb (length (filter (fun a => Nat.eqb (a_chan a) c) (q_att s))) (nth c (q_lim s) 0)
      then Some {| q_msgs := q_msgs s; q_running := true; q_lim := q_lim s;
                   q_att := {| a_chan := c; a_slot := d; a_msg := n; a_idx := i |} :: q_att s; q_owed := q_owed s |}
      else None
    | None => None
    end
  | ERep c d v =>
    match find (fun a => att_eqb a c d) (q_att s) with
    | Some a =>
      if q_running s then
        Some {| q_msgs := q_msgs s; q_running := true; q_lim := q_lim s;
                q_att := filter (fun x => negb (att_eqb x c d)) (q_att s);
                q_owed := (if is_vk v || is_vd v then [{| o_msg := a_msg a; o_chan := c; o_idx := a_idx a; o_v := v |}] else []) ++ q_owed s |}
      else None
    | None => None
    end
  | ENote n c i =>
    let m := getm (q_msgs s) n in
    match nth_error (recs_of m c) i with
    | Some r =>
      if q_running s && f_mess m && f_info m && negb (f_todo m)
         && existsb (fun o => owed_for o n c i && is_vd (o_v o)) (q_owed s)
      then Some (upd_msg s n (upd_rec (set_file m Bounce true) c i
                  {| r_stat := r_stat r; r_k := r_k r; r_noted := true; r_pending := true; r_bounced := r_bounced r; r_discarded := r_discarded r |}))
      else None
    | None => None
    end
  | EMark n c i =>
    let m := getm (q_msgs s) n in
    match nth_error (recs_of m c) i with
    | Some r =>
      let k := existsb (fun o => owed_for o n c i && is_vk (o_v o)) (q_owed s) in
      let dd := existsb (fun o => owed_for o n c i && is_vd (o_v o)) (q_owed s) && r_noted r && r_pending r in
      if q_running s && has_file m (chan_file c) && (k || dd)
      then Some {| q_msgs := setm (q_msgs s) n (upd_rec m c i
                       {| r_stat := RDone; r_k := r_k r || k; r_noted := r_noted r; r_pending := r_pending r; r_bounced := r_bounced r; r_discarded := r_discarded r |});
                   q_running := true; q_lim := q_lim s; q_att := q_att s;
                   q_owed := filter (fun o => negb (owed_for o n c i)) (q_owed s) |}
      else None
    | None => None
    end
  | EUnlinkChan n c =>
    let m := getm (q_msgs s) n in
    if q_running s && Nat.ltb c 2 && has_file m (chan_file c) && f_info m && negb (f_todo m) && all_done (recs_of m c)
       && negb (existsb (fun a => Nat.eqb (a_msg a) n && Nat.eqb (a_chan a) c) (q_att s))
       && negb (existsb (fun o => Nat.eqb (o_msg o) n && Nat.eqb (o_chan o) c) (q_owed s))
    then Some (upd_msg s n (set_file m (chan_file c) false)) else None
  | EBounceQueued n =>
    let m := getm (q_msgs s) n in
    if q_running s && f_bounce m && f_info m && f_mess m && negb (f_todo m) && negb (f_local m) && negb (f_remote m)
    then Some (upd_msg s n (map_recs m (fun r =>
            {| r_stat := r_stat r; r_k := r_k r; r_noted := r_noted r; r_pending := false;
               r_bounced := r_bounced r || r_pending r; r_discarded := r_discarded r |}))) else None
  | EBounceDiscard n =>
    let m := getm (q_msgs s) n in
    if q_running s && f_bounce m && f_info m && m_dbl m && negb (f_todo m) && negb (f_local m) && negb (f_remote m)
    then Some (upd_msg s n (map_recs m (fun r =>
            {| r_stat := r_stat r; r_k := r_k r; r_noted := r_noted r; r_pending := false;
               r_bounced := r_bounced r; r_discarded := r_discarded r || r_pending r |}))) else None
  | EUnlinkBounce n =>
    let m := getm (q_msgs s) n in
    if q_running s && f_bounce m && no_pending m then Some (upd_msg s n (set_file m Bounce false)) else None
  | EUnlinkInfo n =>
    let m := getm (q_msgs s) n in
    if q_running s && f_info m && negb (f_todo m) && negb (f_local m) && negb (f_remote m) && negb (f_bounce m)
    then Some (upd_msg s n (set_meta (set_file m Info false) (m_owner m) (m_nrcpt m) (m_dbl m) (m_recs m) (m_have_recs m) true)) else None
  | ECleanFoop n f old =>
    let m := getm (q_msgs s) n in
    if q_running s && negb (f_info m) && negb (f_todo m) && negb (f_local m) && negb (f_remote m) && negb (f_bounce m)
       && (m_elim m || (old && match m_owner m with None => true | Some _ => true end)) then
      match f with
      | Intd => if f_intd m then Some (upd_msg s n (set_file m Intd false)) else None
      | Mess => if f_mess m && negb (f_intd m) then Some (upd_msg s n (set_meta (set_file m Mess false) None 0 false [[]; []] false false)) else None
      | _ => None
      end
    else None
  | ECrash =>
    Some {| q_msgs := map (fun km => (fst km, set_meta (snd km) (m_owner (snd km)) (m_nrcpt (snd km)) (m_dbl (snd km))
                                               (m_recs (snd km)) (m_have_recs (snd km)) false)) (q_msgs s);
            q_running := false; q_lim := q_lim s; q_att := []; q_owed := [] |}
  | EStart a b =>
    if q_running s then None       (* lock/sendmutex: a second daemon must not act on the queue *)
    else Some {| q_msgs := q_msgs s; q_running := true; q_lim := [a; b]; q_att := []; q_owed := [] |}
  end.

Fixpoint run (s : qst) (es : list ev) : option qst :=
  match es with
  | [] => Some s
  | e :: es' => match step s e with Some s' => run s' es' | None => None end
  end.
(* index of the first rejected event *)
Fixpoint first_reject (s : qst) (es : list ev) (k : nat) : option nat * qst :=
  match es with
  | [] => (None, s)
  | e :: es' => match step s e with Some s' => first_reject s' es' (S k) | None => (Some k, s) end
  end.

(* ------------------------------------------------------------------ what the properties say *)
(* C02: every message number is in a documented state *)
Definition all_documented (s : qst) : bool := forallb (fun km => documented (snd km)) (q_msgs s).
(* C03: an accepted recipient (a record) is still to do in an existing channel file of an intact message, or was
   delivered, or its failure is noted in an existing bounce file of an intact message, or was bounced, or was
   dropped with a failing double bounce *)
Definition rec_ok (m : msg) (c : chan) (r : rec) : bool :=
  (match r_stat r with RTodo => has_file m (chan_file c) && f_info m && f_mess m | RDone => false end)
  || r_k r
  || (r_pending r && f_bounce m && f_info m && f_mess m)
  || r_bounced r || r_discarded r.
Definition msg_no_drop (m : msg) : bool :=
  if m_have_recs m
  then forallb (fun c => forallb (rec_ok m c) (recs_of m c)) [0; 1]
       && Nat.eqb (length (recs_of m 0) + length (recs_of m 1)) (m_nrcpt m)
  else (* accepted but not yet (durably) preprocessed: the envelope in todo/ still carries every recipient *)
       match m_owner m with Some _ => true | None => is_S1 m || negb (f_todo m || f_info m) || (f_todo m && f_mess m) end.
Definition no_drop (s : qst) : bool := forallb (fun km => msg_no_drop (snd km)) (q_msgs s).
(* C04: attempts in flight respect the concurrency limit, at most one per record, none for a finished record *)
Definition att_ok (s : qst) (a : att) : bool :=
  match nth_error (recs_of (getm (q_msgs s) (a_msg a)) (a_chan a)) (a_idx a) with
  | Some r => match r_stat r with RTodo => true | RDone => false end
  | None => false
  end.
Fixpoint nodup_att (l : list att) : bool :=
  match l with
  | [] => true
  | a :: l' => negb (existsb (fun b => att_for b (a_msg a) (a_chan a) (a_idx a)) l')
               && negb (existsb (fun b => att_eqb b (a_chan a) (a_slot a)) l') && nodup_att l'
  end.
Definition conc_ok (s : qst) : bool :=
  forallb (fun c => Nat.leb (length (filter (fun a => Nat.eqb (a_chan a) c) (q_att s))) (nth c (q_lim s) 0)) [0; 1]
  && forallb (att_ok s) (q_att s) && nodup_att (q_att s).
