(* qmail-queue.c main(): model of the queue-injection program as the sequence of file-system
   events it performs, for every input, every fault and every stopping point (C01).
   Model only.

   Abstraction (stated in DESIGN.md): adjacent write()s to one descriptor are merged into one
   append event (write chunking depends on the sizes read() returns); a failing write phase is
   described by how many bytes reached the file before the error; the Received: line is an
   opaque byte string; directory operations are synchronous; file data is durable up to the
   last fsync. *)
From NQ Require Export Base.Bytes.
From Coq Require Export Arith.
Local Open Scope N_scope.

Definition ADDR : nat := 1003.
Definition c_F : N := 70.
Definition c_T : N := 84.

(* ------------------------------------------------------------------ the envelope reader *)
Inductive ares := AddrOk (a : bytes) (rest : bytes)   (* a ends with its NUL *)
                | AddrEOF (a : bytes) | AddrLong (a : bytes).
(* for (len = 0; len < ADDR; ++len) { get ch; put ch; if (!ch) break; }  if (len >= ADDR) die(11) *)
Fixpoint read_addr (n : nat) (s : bytes) (acc : bytes) : ares :=
  match n with
  | O => AddrLong (rev acc)
  | S n' => match s with
            | [] => AddrEOF (rev acc)
            | c :: s' => if c =? 0 then AddrOk (rev (c :: acc)) s' else read_addr n' s' (c :: acc)
            end
  end.

(* what was handed to the output buffer, and how reading ended *)
Inductive envres := EnvOk (data : bytes) | EnvEOF (data : bytes)
                  | EnvBadLetter (data : bytes) | EnvTooLong (data : bytes).
Fixpoint read_rcpts (fuel : nat) (s : bytes) (acc : bytes) : envres :=
  match fuel with
  | O => EnvEOF acc
  | S f =>
    match s with
    | [] => EnvEOF acc
    | c :: s1 =>
      if c =? 0 then EnvOk acc
      else if negb (c =? c_T) then EnvBadLetter acc
      else match read_addr ADDR s1 [] with
           | AddrOk a rest => read_rcpts f rest (acc ++ c_T :: a)
           | AddrEOF a => EnvEOF (acc ++ c_T :: a)
           | AddrLong a => EnvTooLong (acc ++ c_T :: a)
           end
    end
  end.
Definition parse_env (env : bytes) : envres :=
  match env with
  | [] => EnvEOF []
  | c :: s1 =>
    if negb (c =? c_F) then EnvBadLetter []
    else match read_addr ADDR s1 [] with
         | AddrOk a rest => read_rcpts (S (length rest)) rest (c_F :: a)
         | AddrEOF a => EnvEOF (c_F :: a)
         | AddrLong a => EnvTooLong (c_F :: a)
         end
  end.

(* the documented envelope grammar: F sender NUL (T recipient NUL)* NUL *)
Definition enc_env (sender : bytes) (rcpts : list bytes) : bytes :=
  c_F :: sender ++ 0 :: concat (map (fun r => c_T :: r ++ [0]) rcpts).
Definition addr_ok (a : bytes) : bool := negb (has 0 a) && Nat.ltb (length a) ADDR.

(* ------------------------------------------------------------------ events and faults *)
Inductive ev :=
  | EvAlarm
  | EvCreatePid (ok : bool)
  | EvLinkMess (ok : bool)
  | EvUnlinkPid (ok : bool)
  | EvWriteMess (data : bytes)
  | EvFsyncMess (ok : bool)
  | EvCreateIntd (ok : bool)
  | EvWriteIntd (data : bytes)
  | EvFsyncIntd (ok : bool)
  | EvLinkTodo (ok : bool)
  | EvTruncIntd | EvUnlinkIntd (ok : bool)
  | EvTruncMess | EvUnlinkMess (ok : bool)
  | EvTrigger
  | EvExit (code : N).

Record qin := { q_received : bytes; q_msg : bytes; q_hdr : bytes; q_env : bytes }.

Record faults := {
  f_pid_fail : nat;               (* how many open_excl(pid/...) attempts fail *)
  f_link_mess : bool; f_unlink_pid : bool;
  f_mess_write : option nat;      (* write error on mess/N after that many bytes reached the file *)
  f_msg_read : option nat;        (* read error on fd 0 after that many message bytes (bytes already flushed: all of them) *)
  f_fsync_mess : bool; f_create_intd : bool;
  f_intd_write : option nat;      (* write error on intd/N after that many bytes reached the file *)
  f_intd_flushed : nat;           (* on the exits without cleanup (91, 11): bytes of the envelope copy that had left the buffer *)
  f_fsync_intd : bool; f_link_todo : bool;
  f_unlink_intd : bool; f_unlink_mess : bool
}.

Definition cleanup (made_intd : bool) (f : faults) : list ev :=
  (if made_intd then
     EvTruncIntd :: EvUnlinkIntd (negb (f_unlink_intd f)) ::
     (if f_unlink_intd f then [] else [EvTruncMess; EvUnlinkMess (negb (f_unlink_mess f))])
   else [EvTruncMess; EvUnlinkMess (negb (f_unlink_mess f))]).

Definition env_data (r : envres) : bytes :=
  match r with EnvOk d => d | EnvEOF d => d | EnvBadLetter d => d | EnvTooLong d => d end.

Definition envelope_phase (i : qin) (f : faults) : list ev :=
  let r := parse_env (q_env i) in
  let full := q_hdr i ++ env_data r in
  match f_intd_write f with
  | Some n =>
    (* a failing write (at whatever flush it happens, also while an over-long or malformed envelope
       is still being copied): die_write() *)
    EvWriteIntd (firstn n full) :: cleanup true f ++ [EvExit 53]
  | None =>
    match r with
    | EnvOk _ =>
      EvWriteIntd full ::
      if f_fsync_intd f then EvFsyncIntd false :: cleanup true f ++ [EvExit 53]
      else EvFsyncIntd true ::
           if f_link_todo f then [EvLinkTodo false; EvExit 66]
           else [EvLinkTodo true; EvTrigger; EvExit 0]
    | EnvEOF _ =>
      (* die_read(): cleanup; the content is truncated away, so only the length matters *)
      EvWriteIntd (firstn (f_intd_flushed f) full) :: cleanup true f ++ [EvExit 54]
    | EnvBadLetter _ => [EvWriteIntd (firstn (f_intd_flushed f) full); EvExit 91]
    | EnvTooLong _ => [EvWriteIntd (firstn (f_intd_flushed f) full); EvExit 11]
    end
  end.

Definition qq_events (i : qin) (f : faults) : list ev :=
  EvAlarm ::
  repeat (EvCreatePid false) (Nat.min (f_pid_fail f) 9) ++
  if Nat.leb 9 (f_pid_fail f) then [EvExit 63] else
  EvCreatePid true ::
  if f_link_mess f then [EvLinkMess false; EvExit 64] else
  EvLinkMess true ::
  if f_unlink_pid f then [EvUnlinkPid false; EvExit 63] else
  EvUnlinkPid true ::
  let body := q_received i ++ q_msg i in
  match f_mess_write f with
  | Some n => EvWriteMess (firstn n body) :: cleanup false f ++ [EvExit 53]
  | None =>
    match f_msg_read f with
    | Some n => EvWriteMess (firstn n body) :: cleanup false f ++ [EvExit 54]
    | None =>
      EvWriteMess body ::
      if f_fsync_mess f then EvFsyncMess false :: cleanup false f ++ [EvExit 53]
      else EvFsyncMess true ::
           if f_create_intd f then [EvCreateIntd false; EvExit 65]
           else EvCreateIntd true :: envelope_phase i f
    end
  end.

(* ------------------------------------------------------------------ the files of one message *)
Record fs := {
  n_pid : bool; n_mess : bool; n_intd : bool; n_todo : bool;    (* which names exist *)
  d_mess : bytes; s_mess : nat;                                (* message inode: data, durable prefix *)
  d_env : bytes; s_env : nat                                   (* envelope inode (intd and todo are hard links) *)
}.
Definition fs0 : fs := {| n_pid := false; n_mess := false; n_intd := false; n_todo := false;
                          d_mess := []; s_mess := 0; d_env := []; s_env := 0 |}.

Definition step (s : fs) (e : ev) : fs :=
  match e with
  | EvCreatePid true => {| n_pid := true; n_mess := n_mess s; n_intd := n_intd s; n_todo := n_todo s;
                           d_mess := []; s_mess := 0; d_env := d_env s; s_env := s_env s |}
  | EvLinkMess true => {| n_pid := n_pid s; n_mess := true; n_intd := n_intd s; n_todo := n_todo s;
                          d_mess := d_mess s; s_mess := s_mess s; d_env := d_env s; s_env := s_env s |}
  | EvUnlinkPid true => {| n_pid := false; n_mess := n_mess s; n_intd := n_intd s; n_todo := n_todo s;
                           d_mess := d_mess s; s_mess := s_mess s; d_env := d_env s; s_env := s_env s |}
  | EvWriteMess d => {| n_pid := n_pid s; n_mess := n_mess s; n_intd := n_intd s; n_todo := n_todo s;
                        d_mess := d_mess s ++ d; s_mess := s_mess s; d_env := d_env s; s_env := s_env s |}
  | EvFsyncMess true => {| n_pid := n_pid s; n_mess := n_mess s; n_intd := n_intd s; n_todo := n_todo s;
                           d_mess := d_mess s; s_mess := length (d_mess s); d_env := d_env s; s_env := s_env s |}
  | EvCreateIntd true => {| n_pid := n_pid s; n_mess := n_mess s; n_intd := true; n_todo := n_todo s;
                            d_mess := d_mess s; s_mess := s_mess s; d_env := []; s_env := 0 |}
  | EvWriteIntd d => {| n_pid := n_pid s; n_mess := n_mess s; n_intd := n_intd s; n_todo := n_todo s;
                        d_mess := d_mess s; s_mess := s_mess s; d_env := d_env s ++ d; s_env := s_env s |}
  | EvFsyncIntd true => {| n_pid := n_pid s; n_mess := n_mess s; n_intd := n_intd s; n_todo := n_todo s;
                           d_mess := d_mess s; s_mess := s_mess s; d_env := d_env s; s_env := length (d_env s) |}
  | EvLinkTodo true => {| n_pid := n_pid s; n_mess := n_mess s; n_intd := n_intd s; n_todo := true;
                          d_mess := d_mess s; s_mess := s_mess s; d_env := d_env s; s_env := s_env s |}
  | EvTruncIntd => {| n_pid := n_pid s; n_mess := n_mess s; n_intd := n_intd s; n_todo := n_todo s;
                      d_mess := d_mess s; s_mess := s_mess s; d_env := []; s_env := 0 |}
  | EvUnlinkIntd true => {| n_pid := n_pid s; n_mess := n_mess s; n_intd := false; n_todo := n_todo s;
                            d_mess := d_mess s; s_mess := s_mess s; d_env := d_env s; s_env := s_env s |}
  | EvTruncMess => {| n_pid := n_pid s; n_mess := n_mess s; n_intd := n_intd s; n_todo := n_todo s;
                      d_mess := []; s_mess := 0; d_env := d_env s; s_env := s_env s |}
  | EvUnlinkMess true => {| n_pid := n_pid s; n_mess := false; n_intd := n_intd s; n_todo := n_todo s;
                            d_mess := d_mess s; s_mess := s_mess s; d_env := d_env s; s_env := s_env s |}
  | _ => s
  end.
Definition run (evs : list ev) : fs := fold_left step evs fs0.

(* what a machine crash may leave: names as they are, each file cut anywhere between its durable
   prefix and its current length *)
Definition crash_image (s : fs) (k1 k2 : nat) : fs :=
  {| n_pid := n_pid s; n_mess := n_mess s; n_intd := n_intd s; n_todo := n_todo s;
     d_mess := firstn k1 (d_mess s); s_mess := s_mess s; d_env := firstn k2 (d_env s); s_env := s_env s |}.
Definition crash_ok (s : fs) (k1 k2 : nat) : Prop :=
  (s_mess s <= k1 <= length (d_mess s))%nat /\ (s_env s <= k2 <= length (d_env s))%nat.

(* the documented states of INTERNALS.md as file-existence patterns (info/local/remote/bounce are
   never created by qmail-queue): S1 nothing; S2 mess; S3 mess+intd; S4 mess+intd+todo; plus the
   transient pid file (alone, or next to mess before it is unlinked) *)
Definition pattern_ok (s : fs) : bool :=
  match n_pid s, n_mess s, n_intd s, n_todo s with
  | false, false, false, false => true      (* S1 *)
  | true, false, false, false => true       (* pid file only *)
  | true, true, false, false => true        (* pid + mess (about to unlink pid) *)
  | false, true, false, false => true       (* S2 *)
  | false, true, true, false => true        (* S3 *)
  | false, true, true, true => true         (* S4 *)
  | _, _, _, _ => false
  end.

Definition exit_code (evs : list ev) : option N :=
  fold_left (fun acc e => match e with EvExit c => Some c | _ => acc end) evs None.

(* executable oracle for one observed event prefix (used on real traces): if the todo name exists,
   message and envelope are complete and durable *)
Definition committed_ok (i : qin) (s : fs) : bool :=
  negb (n_todo s) ||
  (match parse_env (q_env i) with
   | EnvOk data => beq (d_env s) (q_hdr i ++ data) && Nat.eqb (s_env s) (length (d_env s))
   | _ => false
   end
   && beq (d_mess s) (q_received i ++ q_msg i) && Nat.eqb (s_mess s) (length (d_mess s))
   && n_mess s).
Fixpoint prefixes_ok (i : qin) (s : fs) (evs : list ev) : bool :=
  committed_ok i s && pattern_ok s &&
  match evs with [] => true | e :: evs' => prefixes_ok i (step s e) evs' end.
