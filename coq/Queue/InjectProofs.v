From NQ Require Import Queue.Inject.
Local Open Scope N_scope.

Lemma beq_refl b : beq b b = true.
Proof. apply beq_eq. reflexivity. Qed.

(* ---------------------------------------------------------------- envelope grammar *)
Lemma read_addr_ok n : forall a acc rest,
  has 0 a = false -> (length a < n)%nat ->
  read_addr n (a ++ 0 :: rest) acc = AddrOk (rev acc ++ a ++ [0]) rest.
Proof.
  induction n as [|n IH]; intros a acc rest Hz Hl; [lia|].
  destruct a as [|c a]; cbn [app read_addr].
  - reflexivity.
  - cbn in Hz. apply orb_false_iff in Hz as [Hc Hz].
    assert (Hc' : (c =? 0) = false) by (rewrite N.eqb_sym; exact Hc). rewrite Hc'.
    rewrite IH by (try assumption; cbn in Hl; lia).
    cbn [rev]. rewrite <- !app_assoc. reflexivity.
Qed.

Lemma read_addr_long n : forall a acc rest,
  has 0 a = false -> length a = n -> read_addr n (a ++ rest) acc = AddrLong (rev acc ++ a).
Proof.
  induction n as [|n IH]; intros a acc rest Hz Hl.
  - destruct a; [|discriminate]. cbn. rewrite app_nil_r. reflexivity.
  - destruct a as [|c a]; [discriminate|]. cbn [app read_addr].
    cbn in Hz. apply orb_false_iff in Hz as [Hc Hz].
    assert (Hc' : (c =? 0) = false) by (rewrite N.eqb_sym; exact Hc). rewrite Hc'.
    rewrite IH by (try assumption; cbn in Hl; lia). cbn [rev]. rewrite <- app_assoc. reflexivity.
Qed.

Definition rcpts_enc (rs : list bytes) : bytes := concat (map (fun r => c_T :: r ++ [0]) rs).

Lemma read_rcpts_ok rs : forall fuel acc junk,
  forallb addr_ok rs = true -> (length (rcpts_enc rs ++ 0%N :: junk) < fuel)%nat ->
  read_rcpts fuel (rcpts_enc rs ++ 0 :: junk) acc = EnvOk (acc ++ rcpts_enc rs).
Proof.
  induction rs as [|r rs IH]; intros fuel acc junk Hok Hf.
  - destruct fuel; [cbn in Hf; lia|]. cbn. rewrite app_nil_r. reflexivity.
  - destruct fuel; [cbn in Hf; lia|].
    cbn in Hok. apply andb_true_iff in Hok as [Hr Hrs].
    unfold addr_ok in Hr. apply andb_true_iff in Hr as [Hz Hl].
    apply negb_true_iff in Hz. apply Nat.ltb_lt in Hl.
    unfold rcpts_enc. cbn [map concat]. fold (rcpts_enc rs).
    cbn [app read_rcpts]. change (c_T =? 0) with false. cbn [negb]. rewrite N.eqb_refl. cbn [negb].
    rewrite <- !app_assoc. cbn [app].
    rewrite (read_addr_ok ADDR r [] (rcpts_enc rs ++ 0 :: junk) Hz Hl). cbn [rev app].
    rewrite IH; [f_equal; repeat (rewrite <- app_assoc; cbn [app]); reflexivity | exact Hrs |].
    unfold rcpts_enc in Hf. cbn [map concat] in Hf. fold (rcpts_enc rs) in Hf.
    rewrite !app_length in Hf. cbn [length] in Hf. rewrite !app_length in Hf. cbn [length] in Hf.
    rewrite app_length. cbn [length]. lia.
Qed.

Lemma parse_env_wf sender rs junk :
  addr_ok sender = true -> forallb addr_ok rs = true ->
  parse_env (enc_env sender rs ++ 0 :: junk) = EnvOk (enc_env sender rs).
Proof.
  intros Hs Hrs. unfold addr_ok in Hs. apply andb_true_iff in Hs as [Hz Hl].
  apply negb_true_iff in Hz. apply Nat.ltb_lt in Hl.
  unfold enc_env, parse_env. cbn [app]. rewrite N.eqb_refl. cbn [negb].
  fold (rcpts_enc rs). rewrite <- !app_assoc. cbn [app].
  rewrite (read_addr_ok ADDR sender [] _ Hz Hl). cbn [rev app].
  rewrite read_rcpts_ok; [f_equal; cbn [app]; f_equal; rewrite <- app_assoc; reflexivity | exact Hrs | lia].
Qed.

Lemma parse_env_sender_too_long a rest :
  has 0 a = false -> length a = ADDR -> parse_env (c_F :: a ++ rest) = EnvTooLong (c_F :: a).
Proof.
  intros Hz Hl. unfold parse_env. rewrite N.eqb_refl. cbn [negb].
  rewrite (read_addr_long ADDR a [] rest Hz Hl). reflexivity.
Qed.

Lemma parse_env_bad_first c rest : c <> c_F -> parse_env (c :: rest) = EnvBadLetter [].
Proof. intros H. unfold parse_env. apply N.eqb_neq in H. rewrite H. reflexivity. Qed.

(* ---------------------------------------------------------------- all prefixes, all faults *)
Lemma step_failed_pid s : step s (EvCreatePid false) = s.
Proof. reflexivity. Qed.

Lemma prefixes_ok_repeat i s k rest :
  prefixes_ok i s (repeat (EvCreatePid false) k ++ rest) = true <-> prefixes_ok i s rest = true.
Proof.
  induction k as [|k IH]; [reflexivity|].
  cbn [repeat app prefixes_ok]. rewrite step_failed_pid.
  destruct rest as [|e rest'].
  - cbn [prefixes_ok] in *. rewrite app_nil_r in *.
    destruct (committed_ok i s && pattern_ok s) eqn:E; cbn; [|tauto].
    rewrite IH. tauto.
  - cbn [prefixes_ok] in IH |- *.
    destruct (committed_ok i s && pattern_ok s) eqn:E; cbn; [|tauto].
    rewrite IH. cbn. tauto.
Qed.

Ltac crunch :=
  repeat (cbn [prefixes_ok step app cleanup negb andb orb committed_ok pattern_ok fs0
               n_pid n_mess n_intd n_todo d_mess s_mess d_env s_env];
          rewrite ?beq_refl, ?Nat.eqb_refl, ?app_nil_l; try reflexivity).

Lemma qq_prefixes_ok_l i f : prefixes_ok i fs0 (qq_events i f) = true.
Proof.
  unfold qq_events, envelope_phase, cleanup. cbn [prefixes_ok step]. 
  change (committed_ok i fs0 && pattern_ok fs0) with true. cbn [andb].
  apply prefixes_ok_repeat.
  destruct (Nat.leb 9 (f_pid_fail f)); [crunch|].
  destruct (f_link_mess f); [crunch|].
  destruct (f_unlink_pid f); [crunch|].
  destruct (f_mess_write f) as [n|]; [destruct (f_unlink_mess f); crunch|].
  destruct (f_msg_read f) as [n2|]; [destruct (f_unlink_mess f); crunch|].
  destruct (f_fsync_mess f); [destruct (f_unlink_mess f); crunch|].
  destruct (f_create_intd f); [crunch|].
  destruct (f_intd_write f) as [n3|]; [destruct (f_unlink_intd f), (f_unlink_mess f); crunch|].
  destruct (parse_env (q_env i)) as [data|data|data|data] eqn:Ep; cbn [env_data].
  - destruct (f_fsync_intd f); [destruct (f_unlink_intd f), (f_unlink_mess f); crunch|].
    destruct (f_link_todo f); crunch; rewrite ?Ep; crunch.
  - destruct (f_unlink_intd f), (f_unlink_mess f); crunch.
  - crunch.
  - crunch.
Qed.

(* ---------------------------------------------------------------- consequences *)
Lemma prefixes_ok_at i p : forall s q,
  prefixes_ok i s (p ++ q) = true ->
  committed_ok i (fold_left step p s) = true /\ pattern_ok (fold_left step p s) = true.
Proof.
  induction p as [|e p IH]; intros s q H.
  - cbn [app fold_left]. destruct q; cbn [prefixes_ok] in H;
      repeat (apply andb_true_iff in H as [H ?]); auto.
  - cbn [app prefixes_ok] in H. apply andb_true_iff in H as [_ H]. cbn [fold_left]. exact (IH _ _ H).
Qed.

Lemma firstn_between (l : bytes) k : (length l <= k <= length l)%nat -> firstn k l = l.
Proof. intros H. apply firstn_all2. lia. Qed.

Lemma qq_commit_complete_l i f p q k1 k2 :
  qq_events i f = p ++ q -> crash_ok (run p) k1 k2 -> n_todo (run p) = true ->
  exists data, parse_env (q_env i) = EnvOk data /\
    d_mess (crash_image (run p) k1 k2) = q_received i ++ q_msg i /\
    d_env (crash_image (run p) k1 k2) = q_hdr i ++ data /\
    n_mess (run p) = true.
Proof.
  intros E [C1 C2] Ht.
  pose proof (qq_prefixes_ok_l i f) as H. rewrite E in H.
  destruct (prefixes_ok_at i p fs0 q H) as [Hc _]. fold (run p) in Hc.
  unfold committed_ok in Hc. rewrite Ht in Hc. cbn [negb orb] in Hc.
  destruct (parse_env (q_env i)) as [data| | |]; try discriminate.
  repeat (apply andb_true_iff in Hc as [Hc ?]).
  exists data. split; [reflexivity|].
  apply beq_eq in H2. apply beq_eq in Hc. apply Nat.eqb_eq in H1. apply Nat.eqb_eq in H3.
  cbn [crash_image d_mess d_env].
  rewrite firstn_between by lia. rewrite firstn_between by lia. auto.
Qed.

Lemma fold_exit_repeat k acc rest :
  fold_left (fun acc e => match e with EvExit c => Some c | _ => acc end) (repeat (EvCreatePid false) k ++ rest) acc =
  fold_left (fun acc e => match e with EvExit c => Some c | _ => acc end) rest acc.
Proof. induction k; cbn; auto. Qed.
Lemma run_repeat k rest s : fold_left step (repeat (EvCreatePid false) k ++ rest) s = fold_left step rest s.
Proof. induction k; cbn; auto. Qed.
Lemma in_repeat_link k rest : In (EvLinkTodo true) (repeat (EvCreatePid false) k ++ rest) -> In (EvLinkTodo true) rest.
Proof. induction k; cbn; [auto|]. intros [H|H]; [discriminate|auto]. Qed.

Ltac qq_split i f :=
  try unfold qq_events; try unfold envelope_phase; try unfold cleanup;
  destruct (Nat.leb 9 (f_pid_fail f));
  [|destruct (f_link_mess f);
    [|destruct (f_unlink_pid f);
      [|destruct (f_mess_write f) as [?n|];
        [destruct (f_unlink_mess f)|destruct (f_msg_read f) as [?n|];
          [destruct (f_unlink_mess f)|destruct (f_fsync_mess f);
            [destruct (f_unlink_mess f)|destruct (f_create_intd f);
              [|destruct (f_intd_write f) as [?n|];
                [destruct (f_unlink_intd f), (f_unlink_mess f)
                |destruct (parse_env (q_env i)) as [?data|?data|?data|?data] eqn:?Ep; cbn [env_data];
                  [destruct (f_fsync_intd f);
                    [destruct (f_unlink_intd f), (f_unlink_mess f)|destruct (f_link_todo f)]
                  |destruct (f_unlink_intd f), (f_unlink_mess f)| | ]]]]]]]]].

(* success is reported only after the commit ... *)
Lemma qq_exit0_committed_l i f :
  exit_code (qq_events i f) = Some 0 -> n_todo (run (qq_events i f)) = true.
Proof.
  unfold exit_code, run. cbn [fold_left].
  qq_split i f; cbn [fold_left app] ; rewrite fold_exit_repeat, run_repeat; cbn; intro H; try discriminate; reflexivity.
Qed.

(* ... and a failure decided by the program means the message never became visible *)
Lemma no_link_no_todo evs : forall s, ~ In (EvLinkTodo true) evs -> n_todo s = false -> n_todo (fold_left step evs s) = false.
Proof.
  induction evs as [|e evs IH]; intros s Hn Hs; [exact Hs|]. cbn [fold_left]. apply IH.
  - intro H. apply Hn. right. exact H.
  - destruct e as [| [] | [] | [] | | [] | [] | | [] | [] | | [] | | [] | | ]; cbn; try exact Hs.
    exfalso. apply Hn. left. reflexivity.
Qed.

Lemma qq_link_implies_exit0 i f : In (EvLinkTodo true) (qq_events i f) -> exit_code (qq_events i f) = Some 0.
Proof.
  unfold exit_code, qq_events. cbn [fold_left In]. intros [H|H]; [discriminate|]. revert H.
  qq_split i f; intro H; apply in_repeat_link in H; rewrite fold_exit_repeat;
    cbn in H |- *; repeat (destruct H as [H|H]; try discriminate); try contradiction; reflexivity.
Qed.

Lemma qq_failure_invisible_l i f c p q :
  exit_code (qq_events i f) = Some c -> c <> 0 -> qq_events i f = p ++ q -> n_todo (run p) = false.
Proof.
  intros He Hc E. apply no_link_no_todo; [|reflexivity].
  intro Hin. assert (In (EvLinkTodo true) (qq_events i f)) by (rewrite E; apply in_or_app; left; exact Hin).
  apply qq_link_implies_exit0 in H. congruence.
Qed.

(* exit codes of the fault-free program, by how reading the envelope ends *)
Definition no_faults : faults :=
  {| f_pid_fail := 0; f_link_mess := false; f_unlink_pid := false; f_mess_write := None; f_msg_read := None;
     f_fsync_mess := false; f_create_intd := false; f_intd_write := None; f_intd_flushed := 0;
     f_fsync_intd := false; f_link_todo := false; f_unlink_intd := false; f_unlink_mess := false |}.
Lemma qq_exit_codes_l i :
  exit_code (qq_events i no_faults) =
  Some (match parse_env (q_env i) with EnvOk _ => 0 | EnvEOF _ => 54 | EnvBadLetter _ => 91 | EnvTooLong _ => 11 end).
Proof.
  unfold exit_code, qq_events, envelope_phase, no_faults. cbn.
  destruct (parse_env (q_env i)); reflexivity.
Qed.

(* every failing call is reported with its documented code (first fault wins) *)
Lemma qq_fault_codes_l i f c : exit_code (qq_events i f) = Some c ->
  c = 0 \/ c = 11 \/ c = 53 \/ c = 54 \/ c = 63 \/ c = 64 \/ c = 65 \/ c = 66 \/ c = 91.
Proof.
  unfold exit_code, qq_events. cbn [fold_left].
  qq_split i f; rewrite fold_exit_repeat; cbn; intro H; injection H as <-; auto 12.
Qed.

Lemma qq_alarm_first_l i f : exists rest, qq_events i f = EvAlarm :: rest.
Proof. unfold qq_events. eexists. reflexivity. Qed.
