(* Proofs about the queue automaton Queue/QueueSpec.v (C02, C03, C04).
   Structure: interface lemmas for the helper functions (getm/setm, upd, recs_of/upd_rec/map_recs); a
   message-local invariant [MInv] (its file/owner part [files_ok] is a boolean decided by case analysis
   [files_tac]; records: [rokw], [cnt], [pend_ok]) with one lemma per event constructor ([mi_E...]); a state
   invariant [Inv] (all messages MInv; every attempt in flight and every owed report refers ([msg_ref]) to an RTodo
   record in an existing channel file of a message in S5; no record has both; attempts pairwise distinct in record
   and slot; per-channel count within the limit; owed verdicts are K or D) with one preservation lemma per event
   constructor ([pres_E...]), [step_Inv], [run_Inv]; then the numbered theorems.  A guard change in [step] breaks
   at most the two lemmas of that constructor (plus [marked_step]/[mess_is_last_step], which are tactic-driven). *)
From NQ Require Import Queue.QueueSpec.

(* ------------------------------------------------------------------ small tactics *)
Ltac bsplit :=
  repeat match goal with
  | H : andb _ _ = true |- _ => apply andb_true_iff in H; destruct H
  | H : negb _ = true |- _ => apply negb_true_iff in H
  | H : negb _ = false |- _ => apply negb_false_iff in H
  end.

(* ------------------------------------------------------------------ getm / setm *)
Lemma getm_setm_eq : forall l n m, getm (setm l n m) n = m.
Proof.
  induction l as [|[k x] l IH]; intros n m; simpl.
  - rewrite Nat.eqb_refl; reflexivity.
  - destruct (Nat.eqb k n) eqn:E; simpl.
    + rewrite Nat.eqb_refl; reflexivity.
    + rewrite E; apply IH.
Qed.

Lemma getm_setm_neq : forall l n m k, k <> n -> getm (setm l n m) k = getm l k.
Proof.
  induction l as [|[j x] l IH]; intros n m k Hk; simpl.
  - destruct (Nat.eqb n k) eqn:E; [apply Nat.eqb_eq in E; congruence | reflexivity].
  - destruct (Nat.eqb j n) eqn:E; simpl.
    + apply Nat.eqb_eq in E; subst j.
      destruct (Nat.eqb n k) eqn:E2; [apply Nat.eqb_eq in E2; congruence | reflexivity].
    + destruct (Nat.eqb j k); [reflexivity | apply IH; exact Hk].
Qed.

Lemma getm_setm : forall l n m k, getm (setm l n m) k = if Nat.eqb k n then m else getm l k.
Proof.
  intros l n m k. destruct (Nat.eqb k n) eqn:E.
  - apply Nat.eqb_eq in E; subst; apply getm_setm_eq.
  - apply Nat.eqb_neq in E; apply getm_setm_neq; exact E.
Qed.

Lemma Forall_setm : forall (P : msg -> Prop) l n m,
  Forall (fun km => P (snd km)) l -> P m -> Forall (fun km => P (snd km)) (setm l n m).
Proof.
  intros P l n m HF Hm. induction l as [|[k x] l IH]; simpl.
  - constructor; [exact Hm | constructor].
  - inversion HF as [|? ? Hx Hl]; subst. destruct (Nat.eqb k n).
    + constructor; [exact Hm | exact Hl].
    + constructor; [exact Hx | apply IH; exact Hl].
Qed.

Lemma getm_Forall : forall (P : msg -> Prop) l n,
  Forall (fun km => P (snd km)) l -> P msg0 -> P (getm l n).
Proof.
  intros P l n HF H0. induction l as [|[k x] l IH]; simpl.
  - exact H0.
  - inversion HF as [|? ? Hx Hl]; subst. destruct (Nat.eqb k n); [exact Hx | apply IH; exact Hl].
Qed.

Definition crash_msg (m : msg) : msg :=
  set_meta m (m_owner m) (m_nrcpt m) (m_dbl m) (m_recs m) (m_have_recs m) false.
Definition crash_msgs (l : list (nat * msg)) : list (nat * msg) :=
  map (fun km => (fst km, crash_msg (snd km))) l.

Lemma getm_crash : forall l n, getm (crash_msgs l) n = crash_msg (getm l n).
Proof.
  induction l as [|[k x] l IH]; intros n; simpl.
  - reflexivity.
  - destruct (Nat.eqb k n); [reflexivity | apply IH].
Qed.

Lemma Forall_crash : forall (P : msg -> Prop) l,
  (forall m, P m -> P (crash_msg m)) ->
  Forall (fun km => P (snd km)) l -> Forall (fun km => P (snd km)) (crash_msgs l).
Proof.
  intros P l HP HF. induction HF as [|[k x] l Hx Hl IH]; simpl; constructor.
  - simpl. apply HP. exact Hx.
  - exact IH.
Qed.

(* ------------------------------------------------------------------ upd, recs_of, upd_rec, map_recs *)
Lemma length_upd : forall A (l : list A) i x, length (upd l i x) = length l.
Proof. induction l as [|h t IH]; intros [|i] x; simpl; auto. Qed.

Lemma nth_error_upd_eq : forall A (l : list A) i x y, nth_error l i = Some y -> nth_error (upd l i x) i = Some x.
Proof. induction l as [|h t IH]; intros [|i] x y H; simpl in *; try discriminate; eauto. Qed.

Lemma nth_error_upd_neq : forall A (l : list A) i j x, i <> j -> nth_error (upd l i x) j = nth_error l j.
Proof.
  induction l as [|h t IH]; intros [|i] [|j] x H; simpl; auto; try congruence.
Qed.

Lemma In_upd : forall A (l : list A) i x y, In y (upd l i x) -> y = x \/ In y l.
Proof.
  induction l as [|h t IH]; intros i x y H.
  - destruct i; simpl in H; destruct H.
  - destruct i as [|i]; simpl in H.
    + destruct H as [H|H]; [left; auto | right; right; exact H].
    + destruct H as [H|H]; [right; left; exact H|].
      destruct (IH _ _ _ H) as [H1|H1]; [left; exact H1 | right; right; exact H1].
Qed.

Lemma nth_upd_same : forall (l : list (list rec)) c i r,
  nth c (upd l c (upd (nth c l []) i r)) [] = upd (nth c l []) i r.
Proof.
  induction l as [|h t IH]; intros [|c] i r; simpl; auto; destruct i; reflexivity.
Qed.

Lemma nth_upd_other : forall A (l : list A) c c' x d, c <> c' -> nth c' (upd l c x) d = nth c' l d.
Proof.
  induction l as [|h t IH]; intros [|c] [|c'] x d H; simpl; auto; try congruence.
Qed.

Lemma recs_of_upd_rec_eq : forall m c i r, recs_of (upd_rec m c i r) c = upd (recs_of m c) i r.
Proof. intros. unfold recs_of, upd_rec, set_recs, set_meta; simpl. apply nth_upd_same. Qed.

Lemma recs_of_upd_rec_neq : forall m c i r c', c <> c' -> recs_of (upd_rec m c i r) c' = recs_of m c'.
Proof. intros. unfold recs_of, upd_rec, set_recs, set_meta; simpl. apply nth_upd_other; assumption. Qed.

Lemma recs_of_map_recs : forall m f c, recs_of (map_recs m f) c = map f (recs_of m c).
Proof.
  intros. unfold recs_of, map_recs, set_recs, set_meta; simpl.
  apply (map_nth (map f) (m_recs m) [] c).
Qed.

Lemma recs_of_In : forall m c r, In r (recs_of m c) -> In (recs_of m c) (m_recs m).
Proof.
  intros m c r H. unfold recs_of in *. destruct (nth_in_or_default c (m_recs m) []) as [Hin|Hd]; auto.
  rewrite Hd in H. destruct H.
Qed.

Lemma In_upd_recs : forall (ll : list (list rec)) c i r l x,
  In l (upd ll c (upd (nth c ll []) i r)) -> In x l -> x = r \/ exists l0, In l0 ll /\ In x l0.
Proof.
  intros ll c i r l x Hl Hx. apply In_upd in Hl. destruct Hl as [Hl|Hl].
  - subst l. apply In_upd in Hx. destruct Hx as [Hx|Hx]; auto.
    right. exists (nth c ll []). split; auto.
    destruct (nth_in_or_default c ll []) as [Hin|Hd]; auto. rewrite Hd in Hx. destruct Hx.
  - right. exists l. auto.
Qed.

(* nth_error of a record after upd_rec *)
Lemma nth_error_upd_rec : forall m c i r c' i',
  nth_error (recs_of (upd_rec m c i r) c') i' =
  if Nat.eqb c c' && Nat.eqb i i'
  then (match nth_error (recs_of m c) i with Some _ => Some r | None => None end)
  else nth_error (recs_of m c') i'.
Proof.
  intros. destruct (Nat.eqb c c') eqn:Ec; simpl.
  - apply Nat.eqb_eq in Ec; subst c'. rewrite recs_of_upd_rec_eq.
    destruct (Nat.eqb i i') eqn:Ei.
    + apply Nat.eqb_eq in Ei; subst i'. destruct (nth_error (recs_of m c) i) eqn:E.
      * eapply nth_error_upd_eq; eauto.
      * apply nth_error_None in E. apply nth_error_None. rewrite length_upd. exact E.
    + apply Nat.eqb_neq in Ei. apply nth_error_upd_neq; exact Ei.
  - apply Nat.eqb_neq in Ec. rewrite recs_of_upd_rec_neq; auto.
Qed.

(* ------------------------------------------------------------------ the message-local invariant *)
(* files, owner and m_have_recs only: decided by brute force over the booleans *)
Definition own_ok (m : msg) : bool :=
  match m_owner m with
  | None => true
  | Some _ => f_mess m && negb (f_todo m) && negb (f_info m) && negb (f_local m) && negb (f_remote m)
              && negb (f_bounce m) && negb (m_have_recs m)
  end.
Definition have_ok (m : msg) : bool :=
  (negb (f_info m) || f_todo m || m_have_recs m)                 (* S5 -> the records are known *)
  && (negb (m_have_recs m) || negb (f_todo m) || f_info m).      (* records known in S4 -> info exists *)
Definition files_ok (m : msg) : bool := documented m && own_ok m && have_ok m.

(* like rec_ok, but while todo/n exists (S4) info/n need not exist: todo/n still carries the recipient.  This weaker
   form is inductive whether or not ERecs requires info/n; the ERecs guard [f_info m] enters only through the second
   conjunct of [have_ok] (records known in S4 -> info exists), with which rec_okw gives rec_ok (MInv_rec_ok). *)
Definition rec_okw (m : msg) (c : chan) (r : rec) : Prop :=
  (r_stat r = RTodo /\ has_file m (chan_file c) = true /\ (f_info m = true \/ f_todo m = true) /\ f_mess m = true)
  \/ r_k r = true
  \/ (r_pending r = true /\ f_bounce m = true /\ f_info m = true /\ f_mess m = true)
  \/ r_bounced r = true \/ r_discarded r = true.
Definition rokw (m : msg) : Prop := forall c, c < 2 -> forall r, In r (recs_of m c) -> rec_okw m c r.
Definition cnt (m : msg) : Prop := length (recs_of m 0) + length (recs_of m 1) = m_nrcpt m.
Definition pend_ok (m : msg) : Prop :=
  forall l r, In l (m_recs m) -> In r l -> r_pending r = true -> f_bounce m = true.

Record MInv (m : msg) : Prop := {
  mi_files : files_ok m = true;
  mi_rok : m_have_recs m = true -> rokw m;
  mi_cnt : m_have_recs m = true -> cnt m;
  mi_pend : pend_ok m }.

Ltac prune := try (solve [intros; discriminate]).
Ltac files_tac m :=
  intros; bsplit;
  repeat match goal with H : context [m] |- _ => revert H end;
  unfold files_ok, documented, is_S1, own_ok, have_ok, has_file; simpl;
  destruct (m_owner m); prune;
  destruct (f_todo m); prune; destruct (f_info m); prune; destruct (f_mess m); prune;
  destruct (f_intd m); prune; destruct (f_local m); prune; destruct (f_remote m); prune;
  destruct (f_bounce m); prune; destruct (m_have_recs m); prune;
  simpl; intros; try reflexivity; try discriminate; try congruence; auto;
  repeat split; try reflexivity; try discriminate; try congruence; auto.

Lemma rec_ok_iff : forall m c r, rec_ok m c r = true <->
  (r_stat r = RTodo /\ has_file m (chan_file c) = true /\ f_info m = true /\ f_mess m = true)
  \/ r_k r = true
  \/ (r_pending r = true /\ f_bounce m = true /\ f_info m = true /\ f_mess m = true)
  \/ r_bounced r = true \/ r_discarded r = true.
Proof.
  intros m c r. unfold rec_ok. destruct (r_stat r);
  rewrite ?orb_true_iff, ?andb_true_iff; intuition (try discriminate; try congruence).
Qed.

Lemma chan_file_lt2 : forall c, c < 2 -> chan_file c = Local /\ c = 0 \/ chan_file c = Remote /\ c = 1.
Proof. intros [|[|c]] H; simpl; auto. lia. Qed.

(* facts decided by files_ok *)
Lemma fo_bounce_S5 : forall m, files_ok m = true -> f_bounce m = true ->
  f_info m = true /\ f_mess m = true /\ f_todo m = false /\ m_owner m = None.
Proof. intros m. files_tac m. Qed.
Lemma fo_todo_S4 : forall m, files_ok m = true -> f_todo m = true ->
  f_mess m = true /\ f_bounce m = false /\ m_owner m = None.
Proof. intros m. files_tac m. Qed.
Lemma fo_info : forall m, files_ok m = true -> f_info m = true ->
  f_mess m = true /\ m_owner m = None /\ (f_todo m = false -> m_have_recs m = true /\ f_intd m = false).
Proof. intros m. files_tac m. Qed.
Lemma fo_owner : forall m p, files_ok m = true -> m_owner m = Some p ->
  f_mess m = true /\ f_todo m = false /\ f_info m = false /\ f_local m = false /\ f_remote m = false /\
  f_bounce m = false /\ m_have_recs m = false.
Proof. intros m p. files_tac m. Qed.
Lemma fo_documented : forall m, files_ok m = true -> documented m = true.
Proof. intros m H. unfold files_ok in H. bsplit. assumption. Qed.
Lemma fo_msg0 : files_ok msg0 = true.
Proof. reflexivity. Qed.
Lemma fo_have_todo : forall m, files_ok m = true -> m_have_recs m = true -> f_todo m = true -> f_info m = true.
Proof. intros m. files_tac m. Qed.

Lemma MInv_msg0 : MInv msg0.
Proof.
  split; try (simpl; discriminate). reflexivity.
  intros l r Hl Hr. simpl in Hl. destruct Hl as [<-|[<-|[]]]; destruct Hr.
Qed.

(* a message whose records were reset *)
Lemma MInv_reset : forall m, files_ok m = true -> m_have_recs m = false -> m_recs m = [[]; []] -> MInv m.
Proof.
  intros m Hf Hh Hr. split; try (rewrite Hh; discriminate). exact Hf.
  intros l r Hl Hrl. rewrite Hr in Hl. simpl in Hl. destruct Hl as [<-|[<-|[]]]; destruct Hrl.
Qed.

(* the files relevant to rec_okw only grow, the records stay *)
Definition files_le (m m' : msg) : Prop :=
  (f_local m = true -> f_local m' = true) /\ (f_remote m = true -> f_remote m' = true) /\
  (f_info m = true \/ f_todo m = true -> f_info m' = true \/ f_todo m' = true) /\
  (f_info m = true -> f_info m' = true) /\ (f_mess m = true -> f_mess m' = true) /\
  (f_bounce m = true -> f_bounce m' = true).

Lemma has_chan_le : forall m m' c, files_le m m' -> c < 2 ->
  has_file m (chan_file c) = true -> has_file m' (chan_file c) = true.
Proof.
  intros m m' c Hle Hc H. unfold files_le in Hle.
  destruct (chan_file_lt2 c Hc) as [[E _]|[E _]]; rewrite E in *; simpl in *; tauto.
Qed.

Lemma rec_okw_le : forall m m' c r, files_le m m' -> c < 2 -> rec_okw m c r -> rec_okw m' c r.
Proof.
  intros m m' c r Hle Hc H. pose proof (has_chan_le m m' c Hle Hc) as Hch.
  unfold files_le in Hle. unfold rec_okw in *. tauto.
Qed.

Lemma rokw_le : forall m m', files_le m m' -> m_recs m' = m_recs m -> rokw m -> rokw m'.
Proof.
  intros m m' Hle Hr H c Hc r Hin. unfold recs_of in Hin. rewrite Hr in Hin.
  eapply rec_okw_le; eauto.
Qed.

Lemma MInv_files : forall m m', MInv m -> files_ok m' = true -> files_le m m' ->
  m_recs m' = m_recs m -> m_have_recs m' = m_have_recs m -> m_nrcpt m' = m_nrcpt m -> MInv m'.
Proof.
  intros m m' [Hf Hr Hc Hp] Hf' Hle Hrecs Hhave Hn. split.
  - exact Hf'.
  - rewrite Hhave. intros Hh. eapply rokw_le; eauto.
  - rewrite Hhave. intros Hh. unfold cnt, recs_of in *. rewrite Hrecs, Hn. auto.
  - intros l r Hl Hrl Hpe. rewrite Hrecs in Hl. destruct Hle as (_&_&_&_&_&Hb). apply Hb. eapply Hp; eauto.
Qed.

Ltac files_le_tac := unfold files_le; simpl; tauto.

(* records: upd_rec *)
Lemma rec_okw_upd_rec : forall m c i r c0 r0, rec_okw (upd_rec m c i r) c0 r0 <-> rec_okw m c0 r0.
Proof. intros. unfold rec_okw. destruct (chan_file c0); simpl; tauto. Qed.

Lemma rokw_upd_rec : forall m c i r, rokw m -> (c < 2 -> rec_okw m c r) -> rokw (upd_rec m c i r).
Proof.
  intros m c i r H Hr c0 Hc0 r0 Hin. apply rec_okw_upd_rec.
  destruct (Nat.eq_dec c c0) as [->|Hne].
  - rewrite recs_of_upd_rec_eq in Hin. apply In_upd in Hin. destruct Hin as [->|Hin]; auto.
  - rewrite recs_of_upd_rec_neq in Hin by exact Hne. auto.
Qed.

Lemma cnt_upd_rec : forall m c i r, cnt m -> cnt (upd_rec m c i r).
Proof.
  intros m c i r H. unfold cnt in *.
  assert (HL : forall c0, length (recs_of (upd_rec m c i r) c0) = length (recs_of m c0)).
  { intros c0. destruct (Nat.eq_dec c c0) as [->|Hne].
    - rewrite recs_of_upd_rec_eq. apply length_upd.
    - rewrite recs_of_upd_rec_neq by exact Hne. reflexivity. }
  rewrite !HL. exact H.
Qed.

Lemma pend_ok_upd_rec : forall m c i r, pend_ok m -> (r_pending r = true -> f_bounce m = true) ->
  pend_ok (upd_rec m c i r).
Proof.
  intros m c i r H Hr l x Hl Hx Hp. change (f_bounce m = true).
  unfold upd_rec, set_recs, set_meta in Hl; simpl in Hl. unfold recs_of in Hl.
  destruct (In_upd_recs _ _ _ _ _ _ Hl Hx) as [->|[l0 [Hl0 Hx0]]]; eauto.
Qed.

Lemma MInv_upd_rec : forall m c i r, MInv m -> (m_have_recs m = true -> c < 2 -> rec_okw m c r) ->
  (r_pending r = true -> f_bounce m = true) -> MInv (upd_rec m c i r).
Proof.
  intros m c i r [Hf Hr Hc Hp] H1 H2. split.
  - exact Hf.
  - intros Hh. apply rokw_upd_rec; auto.
  - intros Hh. apply cnt_upd_rec; auto.
  - apply pend_ok_upd_rec; auto.
Qed.

(* records: map_recs with a function that keeps r_stat and r_k and only turns r_pending into r_bounced or r_discarded *)
Definition settles (g : rec -> rec) : Prop :=
  forall r, r_stat (g r) = r_stat r /\ r_k (g r) = r_k r /\ r_pending (g r) = false /\
            (r_pending r = true \/ r_bounced r = true \/ r_discarded r = true ->
             r_bounced (g r) = true \/ r_discarded (g r) = true).

Lemma MInv_map_recs : forall m g, MInv m -> settles g -> MInv (map_recs m g).
Proof.
  intros m g [Hf Hr Hc Hp] Hg. split.
  - exact Hf.
  - intros Hh c Hc2 r' Hin. rewrite recs_of_map_recs in Hin. apply in_map_iff in Hin.
    destruct Hin as [r [<- Hin]]. specialize (Hr Hh c Hc2 r Hin). destruct (Hg r) as (Hs&Hk&Hpe&Hb).
    unfold rec_okw in *. change (has_file (map_recs m g) (chan_file c)) with (has_file m (chan_file c)).
    change (f_info (map_recs m g)) with (f_info m). change (f_todo (map_recs m g)) with (f_todo m).
    change (f_mess (map_recs m g)) with (f_mess m). change (f_bounce (map_recs m g)) with (f_bounce m).
    rewrite Hs, Hk. tauto.
  - intros Hh. specialize (Hc Hh). unfold cnt in *. rewrite !recs_of_map_recs, !map_length. exact Hc.
  - intros l r Hl Hrl Hpe. unfold map_recs, set_recs, set_meta in Hl; simpl in Hl.
    apply in_map_iff in Hl. destruct Hl as [l0 [<- Hl0]]. apply in_map_iff in Hrl.
    destruct Hrl as [r0 [<- Hr0]]. destruct (Hg r0) as (_&_&Hpf&_). congruence.
Qed.

(* ------------------------------------------------------------------ MInv, one lemma per event *)
Lemma mi_EInjMess : forall m p, is_S1 m = true ->
  MInv (set_meta (set_file m Mess true) (Some p) 0 false [[]; []] false false).
Proof.
  intros m p G. apply MInv_reset; try reflexivity. revert G. files_tac m.
Qed.

Lemma mi_EInjIntd : forall m p q, MInv m -> m_owner m = Some q ->
  Nat.eqb p q && f_mess m && negb (f_intd m) && negb (f_todo m) = true ->
  MInv (set_file m Intd true).
Proof.
  intros m p q HI Ho G. apply (MInv_files m); try reflexivity; try files_le_tac; try exact HI.
  pose proof (mi_files m HI) as Hf. revert Hf Ho G. files_tac m.
Qed.

Lemma mi_EInjCommit : forall m p q k dbl, MInv m -> m_owner m = Some q ->
  Nat.eqb p q && f_mess m && f_intd m && negb (f_todo m) && negb (f_info m) && negb (f_local m) && negb (f_remote m) = true ->
  MInv (set_meta (set_file m Todo true) None k dbl [[]; []] false false).
Proof.
  intros m p q k dbl HI Ho G. apply MInv_reset; try reflexivity.
  pose proof (mi_files m HI) as Hf. revert Hf Ho G. files_tac m.
Qed.

Lemma mi_EInjAbort_Intd : forall m p q, MInv m -> m_owner m = Some q ->
  Nat.eqb p q && negb (f_todo m) = true -> f_intd m = true ->
  MInv (set_file m Intd false).
Proof.
  intros m p q HI Ho G G2. apply (MInv_files m); try reflexivity; try files_le_tac; try exact HI.
  pose proof (mi_files m HI) as Hf. revert Hf Ho G G2. files_tac m.
Qed.

Lemma mi_EInjAbort_Mess : forall m p q, MInv m -> m_owner m = Some q ->
  Nat.eqb p q && negb (f_todo m) = true -> f_mess m && negb (f_intd m) = true ->
  MInv (set_meta (set_file m Mess false) None 0 false [[]; []] false false).
Proof.
  intros m p q HI Ho G G2. apply MInv_reset; try reflexivity.
  pose proof (mi_files m HI) as Hf. revert Hf Ho G G2. files_tac m.
Qed.

Lemma mi_EPreUnlink : forall m f (run : bool), MInv m ->
  run && f_todo m && has_file m f && (match f with Info | Local | Remote => true | _ => false end) = true ->
  MInv (set_meta (set_file m f false) (m_owner m) (m_nrcpt m) (m_dbl m) [[]; []] false false).
Proof.
  intros m f run HI G. apply MInv_reset; try reflexivity.
  pose proof (mi_files m HI) as Hf. revert Hf G. destruct f; files_tac m.
Qed.

Lemma mi_ECreate : forall m f (run : bool), MInv m ->
  run && f_todo m && f_mess m && negb (has_file m f) && (match f with Info | Local | Remote => true | _ => false end) = true ->
  MInv (set_file m f true).
Proof.
  intros m f run HI G. apply (MInv_files m); try reflexivity; try exact HI.
  - pose proof (mi_files m HI) as Hf. revert Hf G. destruct f; files_tac m.
  - bsplit. destruct f; try discriminate; files_le_tac.
Qed.

Lemma mi_ESync : forall m f, MInv m -> MInv (set_sync m f).
Proof.
  intros m f HI. apply (MInv_files m); try reflexivity; try files_le_tac; try exact HI.
  exact (mi_files m HI).
Qed.

Lemma In_repeat_rec0 : forall a r, In r (repeat rec0 a) -> r = rec0 /\ Nat.eqb a 0 = false.
Proof.
  intros a r H. split. eapply repeat_spec; eauto. destruct a; [destruct H | reflexivity].
Qed.

Lemma mi_ERecs : forall m a b (run : bool), MInv m ->
  run && f_todo m && f_info m && negb (m_have_recs m) && Nat.eqb (a + b) (m_nrcpt m)
    && Bool.eqb (f_local m) (negb (Nat.eqb a 0)) && Bool.eqb (f_remote m) (negb (Nat.eqb b 0)) = true ->
  MInv (set_meta m (m_owner m) (m_nrcpt m) (m_dbl m) [repeat rec0 a; repeat rec0 b] true false).
Proof.
  intros m a b run HI G. pose proof (mi_files m HI) as Hf. bsplit.
  repeat match goal with H : Bool.eqb _ _ = true |- _ => apply eqb_prop in H end.
  destruct (fo_todo_S4 m Hf) as (Hmess&_&_); [assumption|].
  split.
  - revert Hf. files_tac m.
  - intros _ c Hc r Hin. left.
    destruct c as [|[|c]]; [| |lia]; unfold recs_of in Hin; simpl in Hin;
      apply In_repeat_rec0 in Hin; destruct Hin as [-> Hz]; simpl; repeat split; auto.
    + rewrite Hz in *; simpl in *; assumption.
    + rewrite Hz in *; simpl in *; assumption.
  - intros _. unfold cnt, recs_of; simpl. rewrite !repeat_length.
    apply Nat.eqb_eq. assumption.
  - intros l r Hl Hr Hp. simpl in Hl. destruct Hl as [<-|[<-|[]]];
      apply In_repeat_rec0 in Hr; destruct Hr as [-> _]; discriminate Hp.
Qed.

Lemma mi_ECleanIntd : forall m (run : bool), MInv m ->
  run && f_todo m && f_intd m && f_info m && s_info m && m_have_recs m
    && (negb (f_local m) || s_local m) && (negb (f_remote m) || s_remote m) = true ->
  MInv (set_file m Intd false).
Proof.
  intros m run HI G. apply (MInv_files m); try reflexivity; try files_le_tac; try exact HI.
  pose proof (mi_files m HI) as Hf. revert Hf G. files_tac m.
Qed.

Lemma mi_ECleanTodo : forall m (run : bool), MInv m ->
  run && f_todo m && negb (f_intd m) && f_info m && s_info m && m_have_recs m
    && (negb (f_local m) || s_local m) && (negb (f_remote m) || s_remote m) = true ->
  MInv (set_file m Todo false).
Proof.
  intros m run HI G. apply (MInv_files m); try reflexivity; try exact HI.
  - pose proof (mi_files m HI) as Hf. revert Hf G. files_tac m.
  - bsplit. unfold files_le; simpl. tauto.
Qed.

Lemma mi_ENote : forall m c i r (run ex : bool), MInv m -> nth_error (recs_of m c) i = Some r ->
  run && f_mess m && f_info m && negb (f_todo m) && ex = true ->
  MInv (upd_rec (set_file m Bounce true) c i
          {| r_stat := r_stat r; r_k := r_k r; r_noted := true; r_pending := true; r_bounced := r_bounced r; r_discarded := r_discarded r |}).
Proof.
  intros m c i r run ex HI Hn G.
  assert (HI' : MInv (set_file m Bounce true)).
  { apply (MInv_files m); try reflexivity; try files_le_tac; try exact HI.
    pose proof (mi_files m HI) as Hf. revert Hf G. files_tac m. }
  bsplit. apply MInv_upd_rec; try exact HI'.
  - intros _ _. right; right; left. simpl. tauto.
  - reflexivity.
Qed.

Lemma mi_EMark : forall m c i r (k dd0 : bool), MInv m -> nth_error (recs_of m c) i = Some r ->
  (k || dd0 && r_noted r && r_pending r) = true ->
  MInv (upd_rec m c i
          {| r_stat := RDone; r_k := r_k r || k; r_noted := r_noted r; r_pending := r_pending r; r_bounced := r_bounced r; r_discarded := r_discarded r |}).
Proof.
  intros m c i r k dd0 HI Hn G. pose proof (mi_files m HI) as Hf.
  assert (Hin : In r (recs_of m c)) by (eapply nth_error_In; eauto).
  assert (Hpb : r_pending r = true -> f_bounce m = true).
  { intros Hp. eapply (mi_pend m HI); eauto. eapply recs_of_In; eauto. }
  apply MInv_upd_rec; try exact HI; [|exact Hpb].
  intros Hh Hc. unfold rec_okw; simpl.
  apply orb_true_iff in G. destruct G as [->|G].
  - right; left. apply orb_true_r.
  - bsplit. right; right; left.
    destruct (fo_bounce_S5 m Hf) as (?&?&?&?); auto.
Qed.

Lemma all_done_spec : forall l r, all_done l = true -> In r l -> r_stat r = RDone.
Proof.
  intros l r H Hin. unfold all_done in H. rewrite forallb_forall in H. specialize (H r Hin).
  destruct (r_stat r); [discriminate | reflexivity].
Qed.

Lemma mi_EUnlinkChan : forall m c (run ex1 ex2 : bool), MInv m ->
  run && Nat.ltb c 2 && has_file m (chan_file c) && f_info m && negb (f_todo m) && all_done (recs_of m c) && ex1 && ex2 = true ->
  MInv (set_file m (chan_file c) false).
Proof.
  intros m c run ex1 ex2 HI G. pose proof (mi_files m HI) as Hf.
  assert (Hf' : files_ok (set_file m (chan_file c) false) = true).
  { bsplit. assert (Hc : c < 2) by (apply Nat.ltb_lt; assumption).
    destruct (chan_file_lt2 c Hc) as [[E _]|[E _]]; rewrite E in *; revert Hf; files_tac m. }
  bsplit.
  assert (Hc : c < 2) by (apply Nat.ltb_lt; assumption).
  split.
  - exact Hf'.
  - change (m_have_recs (set_file m (chan_file c) false)) with (m_have_recs m). intros Hh c0 Hc0 r Hin.
    change (recs_of (set_file m (chan_file c) false) c0) with (recs_of m c0) in Hin.
    pose proof (mi_rok m HI Hh c0 Hc0 r Hin) as Hok. unfold rec_okw in *.
    destruct Hok as [(Hs&Hch&Hit&Hm)|Hok].
    + destruct (Nat.eq_dec c0 c) as [->|Hne].
      * rewrite (all_done_spec _ _ ltac:(eassumption) Hin) in Hs. discriminate Hs.
      * left. destruct (chan_file_lt2 c Hc) as [[E ->]|[E ->]], (chan_file_lt2 c0 Hc0) as [[E0 ->]|[E0 ->]];
          try congruence; rewrite E, E0 in *; simpl in *; tauto.
    + right. destruct (chan_file_lt2 c Hc) as [[E _]|[E _]]; rewrite E; simpl; tauto.
  - intros Hh. exact (mi_cnt m HI Hh).
  - intros l r Hl Hr Hp. pose proof (mi_pend m HI l r Hl Hr Hp) as Hb.
    destruct (chan_file_lt2 c Hc) as [[E _]|[E _]]; rewrite E; simpl; exact Hb.
Qed.

Lemma settles_queued : settles (fun r =>
  {| r_stat := r_stat r; r_k := r_k r; r_noted := r_noted r; r_pending := false;
     r_bounced := r_bounced r || r_pending r; r_discarded := r_discarded r |}).
Proof.
  intros r; simpl. repeat split. rewrite orb_true_iff. tauto.
Qed.
Lemma settles_discard : settles (fun r =>
  {| r_stat := r_stat r; r_k := r_k r; r_noted := r_noted r; r_pending := false;
     r_bounced := r_bounced r; r_discarded := r_discarded r || r_pending r |}).
Proof.
  intros r; simpl. repeat split. rewrite orb_true_iff. tauto.
Qed.

Lemma no_pending_spec : forall m l r, no_pending m = true -> In l (m_recs m) -> In r l -> r_pending r = false.
Proof.
  intros m l r H Hl Hr. unfold no_pending in H. rewrite forallb_forall in H. specialize (H l Hl).
  rewrite forallb_forall in H. specialize (H r Hr). apply negb_true_iff in H. exact H.
Qed.

Lemma mi_EUnlinkBounce : forall m (run : bool), MInv m -> run && f_bounce m && no_pending m = true ->
  MInv (set_file m Bounce false).
Proof.
  intros m run HI G. pose proof (mi_files m HI) as Hf.
  assert (Hf' : files_ok (set_file m Bounce false) = true) by (revert Hf G; files_tac m).
  bsplit. split.
  - exact Hf'.
  - change (m_have_recs (set_file m Bounce false)) with (m_have_recs m). intros Hh c0 Hc0 r Hin.
    change (recs_of (set_file m Bounce false) c0) with (recs_of m c0) in Hin.
    pose proof (mi_rok m HI Hh c0 Hc0 r Hin) as Hok.
    assert (Hnp : r_pending r = false).
    { eapply no_pending_spec; eauto. eapply recs_of_In; eauto. }
    unfold rec_okw in *. destruct (chan_file_lt2 c0 Hc0) as [[E _]|[E _]]; rewrite E in *;
      simpl in *; rewrite Hnp in *; intuition (try discriminate; try congruence).
  - intros Hh. exact (mi_cnt m HI Hh).
  - intros l r Hl Hr Hp. change (m_recs (set_file m Bounce false)) with (m_recs m) in Hl.
    rewrite (no_pending_spec m l r) in Hp by assumption. discriminate Hp.
Qed.

Lemma mi_EUnlinkInfo : forall m (run : bool), MInv m ->
  run && f_info m && negb (f_todo m) && negb (f_local m) && negb (f_remote m) && negb (f_bounce m) = true ->
  MInv (set_meta (set_file m Info false) (m_owner m) (m_nrcpt m) (m_dbl m) (m_recs m) (m_have_recs m) true).
Proof.
  intros m run HI G. pose proof (mi_files m HI) as Hf.
  set (m' := set_meta _ _ _ _ _ _ _).
  assert (Hf' : files_ok m' = true) by (subst m'; revert Hf G; files_tac m).
  bsplit. split.
  - exact Hf'.
  - change (m_have_recs m') with (m_have_recs m). intros Hh c0 Hc0 r Hin.
    change (recs_of m' c0) with (recs_of m c0) in Hin.
    pose proof (mi_rok m HI Hh c0 Hc0 r Hin) as Hok. unfold rec_okw in *.
    destruct (chan_file_lt2 c0 Hc0) as [[E _]|[E _]]; rewrite E in *; subst m'; simpl in *;
      intuition congruence.
  - intros Hh. exact (mi_cnt m HI Hh).
  - intros l r Hl Hr Hp. change (m_recs m') with (m_recs m) in Hl. exact (mi_pend m HI l r Hl Hr Hp).
Qed.

Lemma mi_ECleanFoop_Intd : forall m (g : bool), MInv m ->
  g && negb (f_info m) && negb (f_todo m) && negb (f_local m) && negb (f_remote m) && negb (f_bounce m) = true ->
  f_intd m = true -> MInv (set_file m Intd false).
Proof.
  intros m g HI G G2. apply (MInv_files m); try reflexivity; try files_le_tac; try exact HI.
  pose proof (mi_files m HI) as Hf. revert Hf G G2. files_tac m.
Qed.

Lemma mi_ECleanFoop_Mess : forall m (g : bool), MInv m ->
  g && negb (f_info m) && negb (f_todo m) && negb (f_local m) && negb (f_remote m) && negb (f_bounce m) = true ->
  f_mess m && negb (f_intd m) = true ->
  MInv (set_meta (set_file m Mess false) None 0 false [[]; []] false false).
Proof.
  intros m g HI G G2. apply MInv_reset; try reflexivity.
  pose proof (mi_files m HI) as Hf. revert Hf G G2. files_tac m.
Qed.

Lemma mi_crash : forall m, MInv m -> MInv (crash_msg m).
Proof.
  intros m HI. apply (MInv_files m); try reflexivity; try files_le_tac; try exact HI.
  exact (mi_files m HI).
Qed.

(* ------------------------------------------------------------------ the state invariant *)
Definition att_in (s : qst) (n : nat) (c : chan) (i : nat) : Prop :=
  exists a, In a (q_att s) /\ att_for a n c i = true.
Definition owed_in (s : qst) (n : nat) (c : chan) (i : nat) : Prop :=
  exists o, In o (q_owed s) /\ owed_for o n c i = true.
(* what an attempt in flight or a report not yet acted upon refers to: a record still to do, in an existing
   channel file of a message in S5 *)
Definition msg_ref (m : msg) (c : chan) (i : nat) : Prop :=
  c < 2 /\ f_info m = true /\ f_todo m = false /\ has_file m (chan_file c) = true /\
  exists r, nth_error (recs_of m c) i = Some r /\ r_stat r = RTodo.

Record Inv (s : qst) : Prop := {
  inv_msgs : Forall (fun km => MInv (snd km)) (q_msgs s);
  inv_ref : forall n c i, att_in s n c i \/ owed_in s n c i -> msg_ref (getm (q_msgs s) n) c i;
  inv_excl : forall n c i, att_in s n c i -> owed_in s n c i -> False;
  inv_nodup : nodup_att (q_att s) = true;
  inv_lim : forall c, length (filter (fun a => Nat.eqb (a_chan a) c) (q_att s)) <= nth c (q_lim s) 0;
  inv_owedv : forall o, In o (q_owed s) -> o_v o = VK \/ o_v o = VD }.

Lemma Inv_getm : forall s n, Inv s -> MInv (getm (q_msgs s) n).
Proof. intros s n HI. apply getm_Forall. exact (inv_msgs s HI). exact MInv_msg0. Qed.

Lemma Inv_q0 : Inv q0.
Proof.
  split; simpl.
  - constructor.
  - intros n c i [[a [[] _]]|[o [[] _]]].
  - intros n c i [a [[] _]].
  - reflexivity.
  - intros [|[|c]]; simpl; lia.
  - intros o [].
Qed.

Lemma att_for_spec : forall a n c i, att_for a n c i = true <-> a_msg a = n /\ a_chan a = c /\ a_idx a = i.
Proof. intros. unfold att_for. rewrite !andb_true_iff, !Nat.eqb_eq. tauto. Qed.
Lemma owed_for_spec : forall o n c i, owed_for o n c i = true <-> o_msg o = n /\ o_chan o = c /\ o_idx o = i.
Proof. intros. unfold owed_for. rewrite !andb_true_iff, !Nat.eqb_eq. tauto. Qed.
Lemma att_eqb_spec : forall a c d, att_eqb a c d = true <-> a_chan a = c /\ a_slot a = d.
Proof. intros. unfold att_eqb. rewrite !andb_true_iff, !Nat.eqb_eq. tauto. Qed.

Lemma existsb_false_In : forall A (f : A -> bool) l x, existsb f l = false -> In x l -> f x = false.
Proof.
  intros A f l x H Hin. destruct (f x) eqn:E; auto.
  assert (existsb f l = true) by (apply existsb_exists; eauto). congruence.
Qed.

Lemma nodup_att_In_eq : forall l a b, nodup_att l = true -> In a l -> In b l ->
  att_for b (a_msg a) (a_chan a) (a_idx a) = true -> a = b.
Proof.
  induction l as [|x l IH]; intros a b Hn Ha Hb Hf; [destruct Ha|].
  simpl in Hn. bsplit. destruct Ha as [->|Ha], Hb as [->|Hb]; auto.
  - rewrite (existsb_false_In _ _ _ b ltac:(eassumption) Hb) in Hf. discriminate Hf.
  - apply att_for_spec in Hf. destruct Hf as (Hq1&Hq2&Hq3).
    assert (Hf' : att_for a (a_msg b) (a_chan b) (a_idx b) = true) by (apply att_for_spec; auto).
    rewrite (existsb_false_In _ _ _ a ltac:(eassumption) Ha) in Hf'. discriminate Hf'.
Qed.

Lemma existsb_filter_false : forall A (f p : A -> bool) l, existsb f l = false -> existsb f (filter p l) = false.
Proof.
  intros A f p l H. destruct (existsb f (filter p l)) eqn:E; auto.
  apply existsb_exists in E. destruct E as [x [Hx Hfx]]. apply filter_In in Hx. destruct Hx as [Hx _].
  rewrite (existsb_false_In _ f l x H Hx) in Hfx. discriminate Hfx.
Qed.

Lemma nodup_att_filter : forall p l, nodup_att l = true -> nodup_att (filter p l) = true.
Proof.
  intros p. induction l as [|x l IH]; intros Hn; simpl; auto.
  simpl in Hn. bsplit. destruct (p x); simpl; auto.
  rewrite !existsb_filter_false by assumption. simpl. auto.
Qed.

Lemma length_filter_filter : forall A (q p : A -> bool) l, length (filter q (filter p l)) <= length (filter q l).
Proof.
  intros A q p. induction l as [|x l IH]; simpl; auto.
  destruct (p x); simpl; destruct (q x); simpl; lia.
Qed.

(* an event that only replaces message n *)
Lemma Inv_upd_msg : forall s n m', Inv s -> MInv m' ->
  (forall c i, att_in s n c i \/ owed_in s n c i -> msg_ref (getm (q_msgs s) n) c i -> msg_ref m' c i) ->
  Inv (upd_msg s n m').
Proof.
  intros s n m' HI Hm' Href. split.
  - simpl. apply Forall_setm; [exact (inv_msgs s HI) | exact Hm'].
  - intros k c i Hin. change (att_in s k c i \/ owed_in s k c i) in Hin. simpl. rewrite getm_setm.
    pose proof (inv_ref s HI k c i Hin) as Hr.
    destruct (Nat.eqb k n) eqn:E; [apply Nat.eqb_eq in E; subst k; auto | exact Hr].
  - exact (inv_excl s HI).
  - exact (inv_nodup s HI).
  - exact (inv_lim s HI).
  - exact (inv_owedv s HI).
Qed.

Lemma msg_ref_upd_rec : forall m c i r r' c0 i0, msg_ref m c0 i0 -> nth_error (recs_of m c) i = Some r ->
  (r_stat r' = r_stat r \/ ~ (c = c0 /\ i = i0)) -> msg_ref (upd_rec m c i r') c0 i0.
Proof.
  intros m c i r r' c0 i0 (Hc&Hi&Ht&Hch&r0&Hn&Hs) Hnr Hor.
  split; [exact Hc|]. split; [exact Hi|]. split; [exact Ht|].
  split; [destruct (chan_file c0); exact Hch|].
  rewrite nth_error_upd_rec. destruct (Nat.eqb c c0 && Nat.eqb i i0) eqn:E.
  - bsplit. repeat match goal with H : Nat.eqb _ _ = true |- _ => apply Nat.eqb_eq in H end. subst c0 i0.
    rewrite Hnr. exists r'. split; auto. destruct Hor as [->|Hor]; [congruence | tauto].
  - exists r0. auto.
Qed.

Lemma msg_ref_map_recs : forall m g c0 i0, (forall r, r_stat (g r) = r_stat r) -> msg_ref m c0 i0 -> msg_ref (map_recs m g) c0 i0.
Proof.
  intros m g c0 i0 Hg (Hc&Hi&Ht&Hch&r0&Hn&Hs).
  split; [exact Hc|]. split; [exact Hi|]. split; [exact Ht|].
  split; [destruct (chan_file c0); exact Hch|].
  rewrite recs_of_map_recs. exists (g r0). split; [apply map_nth_error; exact Hn | rewrite Hg; exact Hs].
Qed.

Lemma msg_ref_chan : forall m c i, msg_ref m c i -> f_local m = true \/ f_remote m = true.
Proof.
  intros m c i (Hc&_&_&Hch&_). destruct (chan_file_lt2 c Hc) as [[E _]|[E _]]; rewrite E in Hch; simpl in Hch; auto.
Qed.

Ltac start_step Hs := unfold step in Hs; cbv zeta in Hs.
Lemma msg_ref_S1 : forall m c i, is_S1 m = true -> msg_ref m c i -> False.
Proof.
  intros m c i G (_&Hi&_). unfold is_S1 in G. rewrite Hi in G.
  destruct (f_mess m), (f_intd m), (f_todo m); discriminate G.
Qed.
Lemma msg_ref_owner : forall m c i p, files_ok m = true -> m_owner m = Some p -> msg_ref m c i -> False.
Proof.
  intros m c i p Hf Ho (_&Hi&_). destruct (fo_owner m p Hf Ho) as (_&_&Hi'&_). congruence.
Qed.
(* the guard facts in the context contradict msg_ref m c i *)
Ltac ref_contra m :=
  let Hr := fresh "Hr" in
  intros ? ? _ Hr; fold m in Hr; exfalso; pose proof (msg_ref_chan _ _ _ Hr); destruct Hr as (?&?&?&?&?);
  bsplit; intuition congruence.

(* ------------------------------------------------------------------ preservation, one lemma per event *)
Lemma pres_EInjMess : forall s p n s', step s (EInjMess p n) = Some s' -> Inv s -> Inv s'.
Proof.
  intros s p n s' Hs HI. start_step Hs. set (m := getm (q_msgs s) n) in *.
  destruct (is_S1 m) eqn:G; [|discriminate Hs]. injection Hs as <-.
  apply Inv_upd_msg; [exact HI | apply mi_EInjMess; exact G |].
  intros c i _ Hr. exfalso. exact (msg_ref_S1 _ _ _ G Hr).
Qed.

Lemma pres_EInjIntd : forall s p n s', step s (EInjIntd p n) = Some s' -> Inv s -> Inv s'.
Proof.
  intros s p n s' Hs HI. start_step Hs. pose proof (Inv_getm s n HI) as Hm. set (m := getm (q_msgs s) n) in *.
  destruct (m_owner m) as [q|] eqn:Ho; [|discriminate Hs].
  match type of Hs with (if ?g then _ else _) = _ => destruct g eqn:G; [|discriminate Hs] end. injection Hs as <-.
  apply Inv_upd_msg; [exact HI | eapply mi_EInjIntd; eauto |].
  intros c i _ Hr. exfalso. exact (msg_ref_owner _ _ _ _ (mi_files m Hm) Ho Hr).
Qed.

Lemma pres_EInjCommit : forall s p n k dbl s', step s (EInjCommit p n k dbl) = Some s' -> Inv s -> Inv s'.
Proof.
  intros s p n k dbl s' Hs HI. start_step Hs. pose proof (Inv_getm s n HI) as Hm. set (m := getm (q_msgs s) n) in *.
  destruct (m_owner m) as [q|] eqn:Ho; [|discriminate Hs].
  match type of Hs with (if ?g then _ else _) = _ => destruct g eqn:G; [|discriminate Hs] end. injection Hs as <-.
  apply Inv_upd_msg; [exact HI | eapply mi_EInjCommit; eauto |].
  intros c i _ Hr. exfalso. exact (msg_ref_owner _ _ _ _ (mi_files m Hm) Ho Hr).
Qed.

Lemma pres_EInjAbort : forall s p n f s', step s (EInjAbort p n f) = Some s' -> Inv s -> Inv s'.
Proof.
  intros s p n f s' Hs HI. start_step Hs. pose proof (Inv_getm s n HI) as Hm. set (m := getm (q_msgs s) n) in *.
  destruct (m_owner m) as [q|] eqn:Ho; [|discriminate Hs].
  match type of Hs with (if ?g then _ else _) = _ => destruct g eqn:G; [|discriminate Hs] end.
  destruct f; try discriminate Hs.
  - match type of Hs with (if ?g then _ else _) = _ => destruct g eqn:G2; [|discriminate Hs] end. injection Hs as <-.
    apply Inv_upd_msg; [exact HI | eapply mi_EInjAbort_Mess; eauto |].
    intros c i _ Hr. exfalso. exact (msg_ref_owner _ _ _ _ (mi_files m Hm) Ho Hr).
  - match type of Hs with (if ?g then _ else _) = _ => destruct g eqn:G2; [|discriminate Hs] end. injection Hs as <-.
    apply Inv_upd_msg; [exact HI | eapply mi_EInjAbort_Intd; eauto |].
    intros c i _ Hr. exfalso. exact (msg_ref_owner _ _ _ _ (mi_files m Hm) Ho Hr).
Qed.

Ltac grd Hs G := match type of Hs with (if ?g then _ else _) = _ => destruct g eqn:G; [|discriminate Hs] end.

Lemma pres_EPreUnlink : forall s n f s', step s (EPreUnlink n f) = Some s' -> Inv s -> Inv s'.
Proof.
  intros s n f s' Hs HI. start_step Hs. pose proof (Inv_getm s n HI) as Hm. set (m := getm (q_msgs s) n) in *.
  grd Hs G. injection Hs as <-.
  apply Inv_upd_msg; [exact HI | eapply mi_EPreUnlink; eauto |]. ref_contra m.
Qed.

Lemma pres_ECreate : forall s n f s', step s (ECreate n f) = Some s' -> Inv s -> Inv s'.
Proof.
  intros s n f s' Hs HI. start_step Hs. pose proof (Inv_getm s n HI) as Hm. set (m := getm (q_msgs s) n) in *.
  grd Hs G. injection Hs as <-.
  apply Inv_upd_msg; [exact HI | eapply mi_ECreate; eauto |]. ref_contra m.
Qed.

Lemma pres_ESync : forall s n f s', step s (ESync n f) = Some s' -> Inv s -> Inv s'.
Proof.
  intros s n f s' Hs HI. start_step Hs. pose proof (Inv_getm s n HI) as Hm. set (m := getm (q_msgs s) n) in *.
  grd Hs G. injection Hs as <-.
  apply Inv_upd_msg; [exact HI | apply mi_ESync; exact Hm |].
  intros c i _ Hr. fold m in Hr. destruct Hr as (H1&H2&H3&H4&H5).
  split; [exact H1|]. split; [exact H2|]. split; [exact H3|]. split; [|exact H5].
  destruct (chan_file c); exact H4.
Qed.

Lemma pres_ERecs : forall s n a b s', step s (ERecs n a b) = Some s' -> Inv s -> Inv s'.
Proof.
  intros s n a b s' Hs HI. start_step Hs. pose proof (Inv_getm s n HI) as Hm. set (m := getm (q_msgs s) n) in *.
  grd Hs G. injection Hs as <-.
  apply Inv_upd_msg; [exact HI | eapply mi_ERecs; eauto |]. ref_contra m.
Qed.

Lemma pres_ECleanIntd : forall s n s', step s (ECleanIntd n) = Some s' -> Inv s -> Inv s'.
Proof.
  intros s n s' Hs HI. start_step Hs. pose proof (Inv_getm s n HI) as Hm. set (m := getm (q_msgs s) n) in *.
  grd Hs G. injection Hs as <-.
  apply Inv_upd_msg; [exact HI | eapply mi_ECleanIntd; eauto |]. ref_contra m.
Qed.

Lemma pres_ECleanTodo : forall s n s', step s (ECleanTodo n) = Some s' -> Inv s -> Inv s'.
Proof.
  intros s n s' Hs HI. start_step Hs. pose proof (Inv_getm s n HI) as Hm. set (m := getm (q_msgs s) n) in *.
  grd Hs G. injection Hs as <-.
  apply Inv_upd_msg; [exact HI | eapply mi_ECleanTodo; eauto |]. ref_contra m.
Qed.

Lemma msg_ref_same : forall m m' c i, f_info m' = f_info m -> f_todo m' = f_todo m ->
  f_local m' = f_local m -> f_remote m' = f_remote m -> m_recs m' = m_recs m ->
  msg_ref m c i -> msg_ref m' c i.
Proof.
  intros m m' c i E1 E2 E3 E4 E5 (H1&H2&H3&H4&H5).
  split; [exact H1|]. split; [congruence|]. split; [congruence|]. split.
  - destruct (chan_file_lt2 c H1) as [[E _]|[E _]]; rewrite E in *; simpl in *; congruence.
  - unfold recs_of in *. rewrite E5. exact H5.
Qed.

Lemma pres_ECmd : forall s c d n i s', step s (ECmd c d n i) = Some s' -> Inv s -> Inv s'.
Proof.
  intros s c d n i s' Hs HI. start_step Hs. set (m := getm (q_msgs s) n) in *.
  destruct (nth_error (recs_of m c) i) as [r|] eqn:Hn; [|discriminate Hs].
  grd Hs G. injection Hs as <-. bsplit.
  repeat match goal with H : Nat.ltb _ _ = true |- _ => apply Nat.ltb_lt in H end.
  assert (Href : msg_ref m c i).
  { split; [assumption|]. split; [assumption|]. split; [assumption|]. split; [assumption|].
    exists r. split; [exact Hn|]. destruct (r_stat r); [reflexivity | discriminate]. }
  split; simpl.
  - exact (inv_msgs s HI).
  - intros n0 c0 i0 [[a [[<-|Ha] Hf]]|Ho].
    + apply att_for_spec in Hf. simpl in Hf. destruct Hf as (<-&<-&<-). exact Href.
    + apply (inv_ref s HI). left. exists a. auto.
    + apply (inv_ref s HI). right. exact Ho.
  - intros n0 c0 i0 [a [[<-|Ha] Hf]] [o [Ho Hfo]].
    + apply att_for_spec in Hf. simpl in Hf. destruct Hf as (<-&<-&<-).
      rewrite (existsb_false_In _ _ _ o ltac:(eassumption) Ho) in Hfo. discriminate Hfo.
    + apply (inv_excl s HI n0 c0 i0); [exists a | exists o]; auto.
  - repeat (apply andb_true_iff; split); try (apply negb_true_iff; assumption). exact (inv_nodup s HI).
  - intros c0. pose proof (inv_lim s HI c0) as Hl. destruct (Nat.eqb c c0) eqn:E; simpl; [|exact Hl].
    apply Nat.eqb_eq in E. subst c0. lia.
  - exact (inv_owedv s HI).
Qed.

Lemma pres_ERep : forall s c d v s', step s (ERep c d v) = Some s' -> Inv s -> Inv s'.
Proof.
  intros s c d v s' Hs HI. start_step Hs.
  destruct (find (fun a => att_eqb a c d) (q_att s)) as [a|] eqn:Hfind; [|discriminate Hs].
  destruct (q_running s) eqn:Hrun; [|discriminate Hs]. injection Hs as <-.
  apply find_some in Hfind. destruct Hfind as [Ha Haeq].
  assert (Hac : a_chan a = c) by (apply att_eqb_spec in Haeq; tauto).
  assert (Hsub : forall n0 c0 i0, att_in {| q_msgs := q_msgs s; q_running := true; q_lim := q_lim s;
                   q_att := filter (fun x => negb (att_eqb x c d)) (q_att s);
                   q_owed := (if is_vk v || is_vd v then [{| o_msg := a_msg a; o_chan := c; o_idx := a_idx a; o_v := v |}] else []) ++ q_owed s |} n0 c0 i0 ->
                 exists b, In b (q_att s) /\ att_eqb b c d = false /\ att_for b n0 c0 i0 = true).
  { intros n0 c0 i0 [b [Hb Hf]]. simpl in Hb. apply filter_In in Hb. destruct Hb as [Hb Hne].
    apply negb_true_iff in Hne. exists b. auto. }
  assert (Hown : forall n0 c0 i0 o, In o ((if is_vk v || is_vd v then [{| o_msg := a_msg a; o_chan := c; o_idx := a_idx a; o_v := v |}] else []) ++ q_owed s) ->
                 owed_for o n0 c0 i0 = true ->
                 In o (q_owed s) \/ (n0 = a_msg a /\ c0 = a_chan a /\ i0 = a_idx a /\ o_v o = v /\ is_vk v || is_vd v = true)).
  { intros n0 c0 i0 o Ho Hf. apply in_app_or in Ho. destruct Ho as [Ho|Ho]; [|left; exact Ho].
    destruct (is_vk v || is_vd v) eqn:Ekd; [|destruct Ho]. destruct Ho as [<-|[]].
    apply owed_for_spec in Hf. simpl in Hf. right. intuition congruence. }
  split; simpl.
  - exact (inv_msgs s HI).
  - intros n0 c0 i0 [Hin|[o [Ho Hf]]].
    + apply Hsub in Hin. destruct Hin as [b (Hb&_&Hf)]. apply (inv_ref s HI). left. exists b. auto.
    + destruct (Hown _ _ _ _ Ho Hf) as [Hold|(->&->&->&_)].
      * apply (inv_ref s HI). right. exists o. auto.
      * apply (inv_ref s HI). left. exists a. split; [exact Ha|]. apply att_for_spec. auto.
  - intros n0 c0 i0 Hin [o [Ho Hf]]. apply Hsub in Hin. destruct Hin as [b (Hb&Hne&Hfb)].
    destruct (Hown _ _ _ _ Ho Hf) as [Hold|(->&->&->&_)].
    + apply (inv_excl s HI n0 c0 i0); [exists b | exists o]; auto.
    + pose proof (nodup_att_In_eq _ a b (inv_nodup s HI) Ha Hb Hfb) as E. subst b. congruence.
  - apply nodup_att_filter. exact (inv_nodup s HI).
  - intros c0. eapply Nat.le_trans; [apply length_filter_filter | exact (inv_lim s HI c0)].
  - intros o Ho. apply in_app_or in Ho. destruct Ho as [Ho|Ho]; [|exact (inv_owedv s HI o Ho)].
    destruct (is_vk v || is_vd v) eqn:Ekd; [|destruct Ho]. destruct Ho as [<-|[]]. simpl.
    destruct v; simpl in Ekd; auto; discriminate Ekd.
Qed.

Lemma pres_ENote : forall s n c i s', step s (ENote n c i) = Some s' -> Inv s -> Inv s'.
Proof.
  intros s n c i s' Hs HI. start_step Hs. pose proof (Inv_getm s n HI) as Hm. set (m := getm (q_msgs s) n) in *.
  destruct (nth_error (recs_of m c) i) as [r|] eqn:Hn; [|discriminate Hs].
  grd Hs G. injection Hs as <-.
  apply Inv_upd_msg; [exact HI | eapply mi_ENote; eauto |].
  intros c0 i0 _ Hr. fold m in Hr.
  apply (msg_ref_upd_rec (set_file m Bounce true) c i r).
  - apply (msg_ref_same m); try reflexivity. exact Hr.
  - exact Hn.
  - left. reflexivity.
Qed.

Lemma pres_EMark : forall s n c i s', step s (EMark n c i) = Some s' -> Inv s -> Inv s'.
Proof.
  intros s n c i s' Hs HI. start_step Hs. pose proof (Inv_getm s n HI) as Hm. set (m := getm (q_msgs s) n) in *.
  destruct (nth_error (recs_of m c) i) as [r|] eqn:Hn; [|discriminate Hs].
  grd Hs G. injection Hs as <-.
  apply andb_true_iff in G. destruct G as [G Gk]. apply andb_true_iff in G. destruct G as [Grun Gch].
  assert (Hin_owed : owed_in s n c i).
  { apply orb_true_iff in Gk. destruct Gk as [Gk|Gk].
    - apply existsb_exists in Gk. destruct Gk as [o [Ho Hf]]. bsplit. exists o. auto.
    - bsplit. match goal with H : existsb _ _ = true |- _ => apply existsb_exists in H; destruct H as [o [Ho Hf]] end.
      bsplit. exists o. auto. }
  assert (Hsub : forall o n0 c0 i0, In o (filter (fun o => negb (owed_for o n c i)) (q_owed s)) ->
            owed_for o n0 c0 i0 = true -> In o (q_owed s) /\ ~ (n0 = n /\ c0 = c /\ i0 = i)).
  { intros o n0 c0 i0 Ho Hf. apply filter_In in Ho. destruct Ho as [Ho Hne]. split; [exact Ho|].
    intros (->&->&->). rewrite Hf in Hne. discriminate Hne. }
  split; simpl.
  - apply Forall_setm; [exact (inv_msgs s HI) | eapply mi_EMark; eauto].
  - intros n0 c0 i0 Hin.
    assert (Hold : (att_in s n0 c0 i0 \/ owed_in s n0 c0 i0) /\ ~ (n0 = n /\ c0 = c /\ i0 = i)).
    { destruct Hin as [Hin|[o [Ho Hf]]].
      - split; [left; exact Hin|]. intros (->&->&->). exact (inv_excl s HI n c i Hin Hin_owed).
      - destruct (Hsub _ _ _ _ Ho Hf) as [Ho' Hne]. split; [right; exists o; auto | exact Hne]. }
    destruct Hold as [Hold Hne]. pose proof (inv_ref s HI n0 c0 i0 Hold) as Hr.
    rewrite getm_setm. destruct (Nat.eqb n0 n) eqn:E; [|exact Hr].
    apply Nat.eqb_eq in E. subst n0. fold m in Hr.
    eapply msg_ref_upd_rec; eauto. right. intros [-> ->]. apply Hne. auto.
  - intros n0 c0 i0 Hin [o [Ho Hf]]. destruct (Hsub _ _ _ _ Ho Hf) as [Ho' _].
    apply (inv_excl s HI n0 c0 i0 Hin). exists o. auto.
  - exact (inv_nodup s HI).
  - exact (inv_lim s HI).
  - intros o Ho. apply filter_In in Ho. destruct Ho as [Ho _]. exact (inv_owedv s HI o Ho).
Qed.

Lemma pres_EUnlinkChan : forall s n c s', step s (EUnlinkChan n c) = Some s' -> Inv s -> Inv s'.
Proof.
  intros s n c s' Hs HI. start_step Hs. pose proof (Inv_getm s n HI) as Hm. set (m := getm (q_msgs s) n) in *.
  grd Hs G. injection Hs as <-.
  apply Inv_upd_msg; [exact HI | eapply mi_EUnlinkChan; eauto |].
  intros c0 i0 Hin Hr. fold m in Hr. bsplit.
  assert (Hne : c0 <> c).
  { intros ->. destruct Hin as [[a [Ha Hf]]|[o [Ho Hf]]].
    - apply att_for_spec in Hf. destruct Hf as (Hq1&Hq2&_).
      match goal with H : existsb _ (q_att s) = false |- _ => pose proof (existsb_false_In _ _ _ a H Ha) as Hx end.
      simpl in Hx. rewrite Hq1, Hq2, !Nat.eqb_refl in Hx. discriminate Hx.
    - apply owed_for_spec in Hf. destruct Hf as (Hq1&Hq2&_).
      match goal with H : existsb _ (q_owed s) = false |- _ => pose proof (existsb_false_In _ _ _ o H Ho) as Hx end.
      simpl in Hx. rewrite Hq1, Hq2, !Nat.eqb_refl in Hx. discriminate Hx. }
  assert (Hc : c < 2) by (apply Nat.ltb_lt; assumption).
  destruct Hr as (R1&R2&R3&R4&R5).
  assert (Hfile : forall b, f_info (set_file m (chan_file c) b) = f_info m /\ f_todo (set_file m (chan_file c) b) = f_todo m).
  { intros b. destruct (chan_file_lt2 c Hc) as [[E _]|[E _]]; rewrite E; simpl; auto. }
  destruct (Hfile false) as [E1 E2].
  split; [exact R1|]. split; [congruence|]. split; [congruence|]. split; [|exact R5].
  destruct (chan_file_lt2 c Hc) as [[E ->]|[E ->]], (chan_file_lt2 c0 R1) as [[E0 ->]|[E0 ->]];
    try congruence; rewrite E, E0 in *; simpl in *; assumption.
Qed.

Lemma pres_EBounceQueued : forall s n s', step s (EBounceQueued n) = Some s' -> Inv s -> Inv s'.
Proof.
  intros s n s' Hs HI. start_step Hs. pose proof (Inv_getm s n HI) as Hm. set (m := getm (q_msgs s) n) in *.
  grd Hs G. injection Hs as <-.
  apply Inv_upd_msg; [exact HI | apply MInv_map_recs; [exact Hm | exact settles_queued] |].
  intros c0 i0 _ Hr. fold m in Hr. apply msg_ref_map_recs; [reflexivity | exact Hr].
Qed.

Lemma pres_EBounceDiscard : forall s n s', step s (EBounceDiscard n) = Some s' -> Inv s -> Inv s'.
Proof.
  intros s n s' Hs HI. start_step Hs. pose proof (Inv_getm s n HI) as Hm. set (m := getm (q_msgs s) n) in *.
  grd Hs G. injection Hs as <-.
  apply Inv_upd_msg; [exact HI | apply MInv_map_recs; [exact Hm | exact settles_discard] |].
  intros c0 i0 _ Hr. fold m in Hr. apply msg_ref_map_recs; [reflexivity | exact Hr].
Qed.

Lemma pres_EUnlinkBounce : forall s n s', step s (EUnlinkBounce n) = Some s' -> Inv s -> Inv s'.
Proof.
  intros s n s' Hs HI. start_step Hs. pose proof (Inv_getm s n HI) as Hm. set (m := getm (q_msgs s) n) in *.
  grd Hs G. injection Hs as <-.
  apply Inv_upd_msg; [exact HI | eapply mi_EUnlinkBounce; eauto |].
  intros c0 i0 _ Hr. fold m in Hr. apply (msg_ref_same m); try reflexivity. exact Hr.
Qed.

Lemma pres_EUnlinkInfo : forall s n s', step s (EUnlinkInfo n) = Some s' -> Inv s -> Inv s'.
Proof.
  intros s n s' Hs HI. start_step Hs. pose proof (Inv_getm s n HI) as Hm. set (m := getm (q_msgs s) n) in *.
  grd Hs G. injection Hs as <-.
  apply Inv_upd_msg; [exact HI | eapply mi_EUnlinkInfo; eauto |]. ref_contra m.
Qed.

Lemma pres_ECleanFoop : forall s n f old s', step s (ECleanFoop n f old) = Some s' -> Inv s -> Inv s'.
Proof.
  intros s n f old s' Hs HI. start_step Hs. pose proof (Inv_getm s n HI) as Hm. set (m := getm (q_msgs s) n) in *.
  grd Hs G. apply andb_true_iff in G. destruct G as [G Gel].
  destruct f; try discriminate Hs.
  - grd Hs G2. injection Hs as <-.
    apply Inv_upd_msg; [exact HI | eapply mi_ECleanFoop_Mess; eauto |]. ref_contra m.
  - grd Hs G2. injection Hs as <-.
    apply Inv_upd_msg; [exact HI | eapply mi_ECleanFoop_Intd; eauto |]. ref_contra m.
Qed.

Lemma pres_ECrash : forall s s', step s ECrash = Some s' -> Inv s -> Inv s'.
Proof.
  intros s s' Hs HI. start_step Hs. injection Hs as <-. split; simpl.
  - apply (Forall_crash MInv (q_msgs s) mi_crash). exact (inv_msgs s HI).
  - intros n c i [[a [[] _]]|[o [[] _]]].
  - intros n c i [a [[] _]].
  - reflexivity.
  - intros c. lia.
  - intros o [].
Qed.

Lemma pres_EStart : forall s a b s', step s (EStart a b) = Some s' -> Inv s -> Inv s'.
Proof.
  intros s a b s' Hs HI. start_step Hs. destruct (q_running s); [discriminate Hs|]. injection Hs as <-.
  split; simpl.
  - exact (inv_msgs s HI).
  - intros n c i [[x [[] _]]|[o [[] _]]].
  - intros n c i [x [[] _]].
  - reflexivity.
  - intros c. lia.
  - intros o [].
Qed.

Theorem step_Inv : forall s e s', step s e = Some s' -> Inv s -> Inv s'.
Proof.
  intros s e s' Hs HI. destruct e.
  - eapply pres_EInjMess; eauto.
  - eapply pres_EInjIntd; eauto.
  - eapply pres_EInjCommit; eauto.
  - eapply pres_EInjAbort; eauto.
  - eapply pres_EPreUnlink; eauto.
  - eapply pres_ECreate; eauto.
  - eapply pres_ESync; eauto.
  - eapply pres_ERecs; eauto.
  - eapply pres_ECleanIntd; eauto.
  - eapply pres_ECleanTodo; eauto.
  - eapply pres_ECmd; eauto.
  - eapply pres_ERep; eauto.
  - eapply pres_ENote; eauto.
  - eapply pres_EMark; eauto.
  - eapply pres_EUnlinkChan; eauto.
  - eapply pres_EBounceQueued; eauto.
  - eapply pres_EBounceDiscard; eauto.
  - eapply pres_EUnlinkBounce; eauto.
  - eapply pres_EUnlinkInfo; eauto.
  - eapply pres_ECleanFoop; eauto.
  - eapply pres_ECrash; eauto.
  - eapply pres_EStart; eauto.
Qed.

Lemma run_Inv_from : forall es s s', Inv s -> run s es = Some s' -> Inv s'.
Proof.
  induction es as [|e es IH]; intros s s' HI Hr; cbn [run] in Hr.
  - injection Hr as <-. exact HI.
  - destruct (step s e) as [s1|] eqn:Hs; [|discriminate Hr].
    eapply IH; [eapply step_Inv; eauto | exact Hr].
Qed.

Theorem run_Inv : forall es s, run q0 es = Some s -> Inv s.
Proof. intros es s Hr. eapply run_Inv_from; [exact Inv_q0 | exact Hr]. Qed.

(* ================================================================== 1. C02: documented states *)
Lemma Inv_In_MInv : forall s km, Inv s -> In km (q_msgs s) -> MInv (snd km).
Proof.
  intros s km HI Hin. pose proof (inv_msgs s HI) as HF. rewrite Forall_forall in HF. exact (HF km Hin).
Qed.

Theorem documented_states_l : forall es s, run q0 es = Some s -> all_documented s = true.
Proof.
  intros es s Hr. pose proof (run_Inv es s Hr) as HI. unfold all_documented. apply forallb_forall.
  intros km Hin. apply fo_documented. exact (mi_files _ (Inv_In_MInv s km HI Hin)).
Qed.
Print Assumptions documented_states_l.

(* ================================================================== 7. C02: direct guard facts *)
Lemma todo_removed_only_after_durable_l : forall s n s', step s (ECleanTodo n) = Some s' ->
  let m := getm (q_msgs s) n in
  f_info m = true /\ s_info m = true /\ (f_local m = true -> s_local m = true) /\
  (f_remote m = true -> s_remote m = true) /\ f_intd m = false.
Proof.
  intros s n s' Hs m. start_step Hs. fold m in Hs. grd Hs G. bsplit.
  repeat match goal with H : orb _ _ = true |- _ => apply orb_true_iff in H end.
  repeat split; try assumption.
  - intros Hl. match goal with H : negb (f_local m) = true \/ _ |- _ => destruct H as [H|H]; [rewrite Hl in H; discriminate H | exact H] end.
  - intros Hl. match goal with H : negb (f_remote m) = true \/ _ |- _ => destruct H as [H|H]; [rewrite Hl in H; discriminate H | exact H] end.
Qed.

Lemma gc_only_when_eliminating_or_old_l : forall s n f old s', step s (ECleanFoop n f old) = Some s' ->
  let m := getm (q_msgs s) n in
  f_info m = false /\ f_todo m = false /\ (m_elim m = true \/ old = true).
Proof.
  intros s n f old s' Hs m. start_step Hs. fold m in Hs. grd Hs G.
  apply andb_true_iff in G. destruct G as [G Gel]. bsplit.
  repeat split; try assumption.
  apply orb_true_iff in Gel. destruct Gel as [Gel|Gel]; [left; exact Gel | right].
  apply andb_true_iff in Gel. tauto.
Qed.

Lemma second_daemon_refused_l : forall s a b, q_running s = true -> step s (EStart a b) = None.
Proof. intros s a b H. unfold step. rewrite H. reflexivity. Qed.
Print Assumptions todo_removed_only_after_durable_l.
Print Assumptions gc_only_when_eliminating_or_old_l.
Print Assumptions second_daemon_refused_l.

(* generic inversion of an accepted step of a known event constructor *)
Ltac step_inv Hs :=
  start_step Hs;
  repeat match type of Hs with
  | (match ?x with _ => _ end) = Some _ => destruct x eqn:?; try discriminate Hs
  end;
  injection Hs as <-.

Lemma crash_msgs_eq : forall s, 
  map (fun km => (fst km, set_meta (snd km) (m_owner (snd km)) (m_nrcpt (snd km)) (m_dbl (snd km))
                                   (m_recs (snd km)) (m_have_recs (snd km)) false)) (q_msgs s) = crash_msgs (q_msgs s).
Proof. reflexivity. Qed.

(* 7d: mess/n is the last file of a message to go *)
Lemma mess_is_last_step : forall s e s' n, Inv s -> step s e = Some s' ->
  f_mess (getm (q_msgs s) n) = true -> f_mess (getm (q_msgs s') n) = false ->
  let m := getm (q_msgs s) n in
  f_intd m = false /\ f_todo m = false /\ f_info m = false /\ f_local m = false /\ f_remote m = false /\ f_bounce m = false.
Proof.
  intros s e s' n HI Hs Hb Ha m. pose proof (mi_files _ (Inv_getm s n HI)) as Hf. fold m in Hf, Hb.
  destruct e; step_inv Hs; simpl in Ha;
    try (rewrite crash_msgs_eq, getm_crash in Ha; simpl in Ha);
    try rewrite getm_setm in Ha;
    try (match type of Ha with context [Nat.eqb n ?k] => destruct (Nat.eqb n k) eqn:E; [apply Nat.eqb_eq in E; subst k|] end);
    repeat match goal with H : context [getm (q_msgs s) n] |- _ => progress fold m in H end;
    try (simpl in Ha; congruence).
  all: try (match goal with f : file |- _ => destruct f; simpl in Ha; try congruence end).
  all: try (match goal with c : chan |- _ => destruct c; simpl in Ha; try congruence end).
  all: bsplit; try discriminate.
  all: try (match goal with H : m_owner ?mm = Some ?q, Hf' : files_ok ?mm = true |- _ =>
              destruct (fo_owner mm q Hf' H) as (?&?&?&?&?&?&?) end).
  all: repeat split; assumption.
Qed.

Lemma run_app : forall es1 es2 s, run s (es1 ++ es2) = match run s es1 with Some s1 => run s1 es2 | None => None end.
Proof.
  induction es1 as [|e es1 IH]; intros es2 s; simpl; [reflexivity|].
  destruct (step s e); [apply IH | reflexivity].
Qed.

Theorem mess_is_last_l : forall es s e s' n, run q0 es = Some s -> step s e = Some s' ->
  f_mess (getm (q_msgs s) n) = true -> f_mess (getm (q_msgs s') n) = false ->
  let m := getm (q_msgs s) n in
  f_intd m = false /\ f_todo m = false /\ f_info m = false /\ f_local m = false /\ f_remote m = false /\ f_bounce m = false.
Proof. intros es s e s' n Hr. apply mess_is_last_step. exact (run_Inv es s Hr). Qed.
Print Assumptions mess_is_last_l.

(* ================================================================== 5. C03: a record is only finished on a K or D report *)
Lemma mark_needs_report_l : forall s n c i s', step s (EMark n c i) = Some s' ->
  exists o, In o (q_owed s) /\ owed_for o n c i = true /\ (o_v o = VK \/ o_v o = VD).
Proof.
  intros s n c i s' Hs. start_step Hs. set (m := getm (q_msgs s) n) in *.
  destruct (nth_error (recs_of m c) i) as [r|]; [|discriminate Hs]. grd Hs G.
  apply andb_true_iff in G. destruct G as [_ Gk]. apply orb_true_iff in Gk. destruct Gk as [Gk|Gk].
  - apply existsb_exists in Gk. destruct Gk as [o [Ho Hf]]. bsplit. exists o. split; [exact Ho|]. split; [assumption|].
    left. destruct (o_v o); try discriminate. reflexivity.
  - apply andb_true_iff in Gk. destruct Gk as [Gk _]. apply andb_true_iff in Gk. destruct Gk as [Gk _].
    apply existsb_exists in Gk. destruct Gk as [o [Ho Hf]]. bsplit. exists o. split; [exact Ho|]. split; [assumption|].
    right. destruct (o_v o); try discriminate. reflexivity.
Qed.

Lemma tempfail_or_garbage_changes_nothing_l : forall s c d v s', step s (ERep c d v) = Some s' ->
  v = VZ \/ v = VGarbage -> q_msgs s' = q_msgs s /\ q_owed s' = q_owed s.
Proof.
  intros s c d v s' Hs Hv. step_inv Hs. simpl. destruct Hv as [-> | ->]; simpl; auto.
Qed.

(* entries of q_owed only come from a K or D report for an attempt that was in flight in that slot *)
Lemma owed_origin_l : forall s e s' o, step s e = Some s' -> In o (q_owed s') ->
  In o (q_owed s) \/
  exists c d a, e = ERep c d (o_v o) /\ (o_v o = VK \/ o_v o = VD) /\ In a (q_att s) /\ a_chan a = c /\ a_slot a = d /\
                o_msg o = a_msg a /\ o_chan o = c /\ o_idx o = a_idx a.
Proof.
  intros s e s' o Hs Hin.
  destruct e; step_inv Hs; simpl in Hin; try (left; exact Hin); try (destruct Hin).
  - (* ERep *)
    apply in_app_or in Hin. destruct Hin as [Hin|Hin]; [|left; exact Hin].
    match goal with H : find _ _ = Some ?a |- _ => apply find_some in H; destruct H as [Ha Haeq]; apply att_eqb_spec in Haeq end.
    destruct (is_vk v || is_vd v) eqn:Ekd; [|destruct Hin]. destruct Hin as [<-|[]]. simpl.
    right. eexists _, _, _. split; [reflexivity|]. split; [destruct v; simpl in Ekd; auto; discriminate Ekd|].
    split; [exact Ha|]. tauto.
  - (* EMark *)
    apply filter_In in Hin. left. tauto.
Qed.

(* with the invariant: every entry of q_owed carries K or D and refers to a record still to do *)
Theorem owed_only_K_or_D_l : forall es s o, run q0 es = Some s -> In o (q_owed s) ->
  (o_v o = VK \/ o_v o = VD) /\ msg_ref (getm (q_msgs s) (o_msg o)) (o_chan o) (o_idx o).
Proof.
  intros es s o Hr Hin. pose proof (run_Inv es s Hr) as HI. split; [exact (inv_owedv s HI o Hin)|].
  apply (inv_ref s HI). right. exists o. split; [exact Hin|]. apply owed_for_spec. auto.
Qed.
Print Assumptions mark_needs_report_l.
Print Assumptions tempfail_or_garbage_changes_nothing_l.
Print Assumptions owed_origin_l.
Print Assumptions owed_only_K_or_D_l.

(* ================================================================== 3. C04: concurrency *)
Theorem conc_ok_l : forall es s, run q0 es = Some s -> conc_ok s = true.
Proof.
  intros es s Hr. pose proof (run_Inv es s Hr) as HI. unfold conc_ok.
  apply andb_true_iff; split; [apply andb_true_iff; split|].
  - simpl. rewrite !andb_true_iff. repeat split; apply Nat.leb_le; apply (inv_lim s HI).
  - apply forallb_forall. intros a Ha. unfold att_ok.
    assert (Href : msg_ref (getm (q_msgs s) (a_msg a)) (a_chan a) (a_idx a)).
    { apply (inv_ref s HI). left. exists a. split; [exact Ha|]. apply att_for_spec. auto. }
    destruct Href as (_&_&_&_&r&Hn&Hst). rewrite Hn, Hst. reflexivity.
  - exact (inv_nodup s HI).
Qed.
Print Assumptions conc_ok_l.

(* ================================================================== 2. C03: no recipient is dropped *)
Lemma fo_nohave : forall m, files_ok m = true -> m_have_recs m = false -> m_owner m = None ->
  is_S1 m || negb (f_todo m || f_info m) || (f_todo m && f_mess m) = true.
Proof. intros m. files_tac m. Qed.

Lemma MInv_rec_ok : forall m c r, MInv m -> m_have_recs m = true -> c < 2 -> In r (recs_of m c) -> rec_ok m c r = true.
Proof.
  intros m c r HI Hh Hc Hin. apply rec_ok_iff. pose proof (mi_rok m HI Hh c Hc r Hin) as Hok.
  pose proof (fo_have_todo m (mi_files m HI) Hh) as Hti. unfold rec_okw in Hok. tauto.
Qed.

Lemma MInv_no_drop : forall m, MInv m -> msg_no_drop m = true.
Proof.
  intros m HI. unfold msg_no_drop. destruct (m_have_recs m) eqn:Hh.
  - apply andb_true_iff; split.
    + simpl. rewrite !andb_true_iff. repeat split; apply forallb_forall; intros r Hin;
        apply MInv_rec_ok; auto.
    + apply Nat.eqb_eq. exact (mi_cnt m HI Hh).
  - destruct (m_owner m) eqn:Ho; [reflexivity|]. apply fo_nohave; auto. exact (mi_files m HI).
Qed.

Theorem no_drop_l : forall es s, run q0 es = Some s -> no_drop s = true.
Proof.
  intros es s Hr. pose proof (run_Inv es s Hr) as HI. unfold no_drop. apply forallb_forall.
  intros km Hin. apply MInv_no_drop. exact (Inv_In_MInv s km HI Hin).
Qed.
Print Assumptions no_drop_l.

(* ================================================================== 6. C03: info/n is removed only when every recipient is settled *)
Theorem info_removed_only_when_all_settled_l : forall es s n s', run q0 es = Some s ->
  step s (EUnlinkInfo n) = Some s' -> m_have_recs (getm (q_msgs s) n) = true ->
  forall c r, In c [0; 1] -> In r (recs_of (getm (q_msgs s) n) c) ->
  r_k r = true \/ r_bounced r = true \/ r_discarded r = true.
Proof.
  intros es s n s' Hr Hs Hh c r Hc Hin. pose proof (Inv_getm s n (run_Inv es s Hr)) as Hm.
  start_step Hs. set (m := getm (q_msgs s) n) in *. grd Hs G. bsplit.
  assert (Hc2 : c < 2) by (simpl in Hc; lia).
  pose proof (mi_rok m Hm Hh c Hc2 r Hin) as Hok. unfold rec_okw in Hok.
  destruct (chan_file_lt2 c Hc2) as [[E _]|[E _]]; rewrite E in Hok; simpl in Hok; intuition congruence.
Qed.
Print Assumptions info_removed_only_when_all_settled_l.
(* S5 always knows its records, so the hypothesis m_have_recs is automatic on reachable states *)
Lemma unlink_info_have_recs : forall es s n s', run q0 es = Some s -> step s (EUnlinkInfo n) = Some s' ->
  m_have_recs (getm (q_msgs s) n) = true.
Proof.
  intros es s n s' Hr Hs. pose proof (Inv_getm s n (run_Inv es s Hr)) as Hm.
  start_step Hs. set (m := getm (q_msgs s) n) in *. grd Hs G. bsplit.
  destruct (fo_info m (mi_files m Hm)) as (_&_&Hhave); [assumption|]. apply Hhave. assumption.
Qed.

(* ================================================================== 4. C04: a finished record is never retried *)
(* persistent part of the state of message n once record i of channel c is marked: no injector owns n, todo/n is
   gone, and the record - as long as it exists - is RDone *)
Definition marked (m : msg) (c : chan) (i : nat) : Prop :=
  m_owner m = None /\ f_todo m = false /\ forall r, nth_error (recs_of m c) i = Some r -> r_stat r = RDone.

Lemma marked_reset : forall m c i, m_owner m = None -> f_todo m = false -> m_recs m = [[]; []] -> marked m c i.
Proof.
  intros m c i Ho Ht Hr. split; [exact Ho|]. split; [exact Ht|]. intros r Hn. unfold recs_of in Hn. rewrite Hr in Hn.
  destruct c as [|[|[|c]]]; destruct i; simpl in Hn; discriminate Hn.
Qed.

Lemma marked_same : forall m m' c i, m_owner m' = m_owner m -> f_todo m' = f_todo m -> m_recs m' = m_recs m ->
  marked m c i -> marked m' c i.
Proof.
  intros m m' c i E1 E2 E3 (H1&H2&H3). split; [congruence|]. split; [congruence|].
  unfold recs_of in *. rewrite E3. exact H3.
Qed.

Lemma marked_upd_rec : forall m c i c0 i0 r r', marked m c i -> nth_error (recs_of m c0) i0 = Some r ->
  (r_stat r' = r_stat r \/ r_stat r' = RDone) -> marked (upd_rec m c0 i0 r') c i.
Proof.
  intros m c i c0 i0 r r' (H1&H2&H3) Hn Hst. split; [exact H1|]. split; [exact H2|].
  intros x Hx. rewrite nth_error_upd_rec in Hx. destruct (Nat.eqb c0 c && Nat.eqb i0 i) eqn:E.
  - bsplit. repeat match goal with H : Nat.eqb _ _ = true |- _ => apply Nat.eqb_eq in H end. subst c0 i0.
    rewrite Hn in Hx. injection Hx as <-. destruct Hst as [Hst|Hst]; [|exact Hst]. rewrite Hst. exact (H3 r Hn).
  - exact (H3 x Hx).
Qed.

Lemma marked_map_recs : forall m c i g, (forall r, r_stat (g r) = r_stat r) -> marked m c i -> marked (map_recs m g) c i.
Proof.
  intros m c i g Hg (H1&H2&H3). split; [exact H1|]. split; [exact H2|].
  intros x Hx. rewrite recs_of_map_recs, nth_error_map in Hx.
  destruct (nth_error (recs_of m c) i) as [r|] eqn:Hn; simpl in Hx; [|discriminate Hx].
  injection Hx as <-. rewrite Hg. exact (H3 r eq_refl).
Qed.

Lemma marked_step : forall s e s' n c i, step s e = Some s' -> (forall p, e <> EInjMess p n) ->
  marked (getm (q_msgs s) n) c i ->
  marked (getm (q_msgs s') n) c i /\ forall d, e <> ECmd c d n i.
Proof.
  intros s e s' n c i Hs Hne HM.
  assert (Hcmd : forall c0 d0 n0 i0, e = ECmd c0 d0 n0 i0 -> forall d, e <> ECmd c d n i).
  { intros c0 d0 n0 i0 -> d Heq. injection Heq as -> -> -> ->. step_inv Hs. bsplit.
    destruct HM as (_&_&HM3).
    match goal with H : nth_error _ _ = Some ?r |- _ => rewrite (HM3 r H) in * end. discriminate. }
  split; [|destruct e; try (intros dd Heq; discriminate Heq); eapply Hcmd; reflexivity].
  clear Hcmd. set (m := getm (q_msgs s) n) in *.
  destruct e; step_inv Hs; simpl;
    try (rewrite crash_msgs_eq, getm_crash);
    try rewrite getm_setm;
    try (match goal with |- context [Nat.eqb n ?k] => destruct (Nat.eqb n k) eqn:E; [apply Nat.eqb_eq in E; subst k|exact HM] end);
    repeat match goal with H : context [getm (q_msgs s) n] |- _ => progress fold m in H end;
    fold m; try exact HM;
    try (exfalso; eapply Hne; reflexivity);
    try (exfalso; destruct HM as (HM1&HM2&_); bsplit; congruence);
    try (apply (marked_same m); [reflexivity | try reflexivity | reflexivity | exact HM]).
  all: try (match goal with f : file |- _ => destruct f; try discriminate; reflexivity end).
  - (* ENote *) eapply marked_upd_rec; [apply (marked_same m); try reflexivity; exact HM | eassumption | left; reflexivity].
  - (* EMark *) eapply marked_upd_rec; [exact HM | eassumption | right; reflexivity].
  - (* EUnlinkChan *) destruct c0; reflexivity.
  - (* EBounceQueued *) apply marked_map_recs; [reflexivity | exact HM].
  - (* EBounceDiscard *) apply marked_map_recs; [reflexivity | exact HM].
  - (* ECleanFoop Mess *) apply marked_reset; try reflexivity. simpl. destruct HM as (_&HM2&_). exact HM2.
Qed.

Lemma marked_after_mark : forall s n c i s', Inv s -> step s (EMark n c i) = Some s' ->
  marked (getm (q_msgs s') n) c i.
Proof.
  intros s n c i s' HI Hs.
  destruct (mark_needs_report_l s n c i s' Hs) as [o (Ho&Hf&_)].
  assert (Href : msg_ref (getm (q_msgs s) n) c i) by (apply (inv_ref s HI); right; exists o; auto).
  pose proof (mi_files _ (Inv_getm s n HI)) as Hfo.
  step_inv Hs. simpl. rewrite getm_setm_eq. set (m := getm (q_msgs s) n) in *.
  destruct Href as (_&Hi&Ht&_). destruct (fo_info m Hfo Hi) as (_&Ho'&_).
  split; [exact Ho'|]. split; [exact Ht|].
  intros x Hx. rewrite nth_error_upd_rec, !Nat.eqb_refl in Hx. simpl in Hx.
  match goal with H : nth_error (recs_of m c) i = Some _ |- _ => rewrite H in Hx end.
  injection Hx as <-. reflexivity.
Qed.

Lemma marked_run : forall es2 s s' n c i, run s es2 = Some s' -> (forall p, ~ In (EInjMess p n) es2) ->
  marked (getm (q_msgs s) n) c i -> forall d, ~ In (ECmd c d n i) es2.
Proof.
  induction es2 as [|e es2 IH]; intros s s' n c i Hr Hno HM d Hin; [destruct Hin|].
  cbn [run] in Hr. destruct (step s e) as [s1|] eqn:Hs; [|discriminate Hr].
  assert (Hne : forall p, e <> EInjMess p n) by (intros p ->; apply (Hno p); left; reflexivity).
  destruct (marked_step s e s1 n c i Hs Hne HM) as [HM1 Hnc].
  destruct Hin as [->|Hin]; [exact (Hnc d eq_refl)|].
  apply (IH s1 s' n c i Hr) with (d := d); [|exact HM1|exact Hin].
  intros p Hp. apply (Hno p). right. exact Hp.
Qed.

(* stronger than asked: no side condition about EPreUnlink is needed (todo/n cannot come back without a new
   EInjMess for n), crashes and restarts may occur in es2 *)
Theorem finished_never_retried_l : forall es1 n c i es2 s,
  run q0 (es1 ++ EMark n c i :: es2) = Some s ->
  (forall p, ~ In (EInjMess p n) es2) ->
  forall c' d, c' = c -> ~ In (ECmd c' d n i) es2.
Proof.
  intros es1 n c i es2 s Hr Hno c' d ->. rewrite run_app in Hr.
  destruct (run q0 es1) as [s1|] eqn:Hr1; [|discriminate Hr]. cbn [run] in Hr.
  destruct (step s1 (EMark n c i)) as [s2|] eqn:Hs; [|discriminate Hr].
  eapply marked_run; [exact Hr | exact Hno |].
  eapply marked_after_mark; [exact (run_Inv es1 s1 Hr1) | exact Hs].
Qed.
Print Assumptions finished_never_retried_l.

(* the statement with the (superfluous) EPreUnlink side condition *)
Corollary finished_never_retried_pre_l : forall es1 n c i es2 s,
  run q0 (es1 ++ EMark n c i :: es2) = Some s ->
  (forall p, ~ In (EInjMess p n) es2) -> (forall f, ~ In (EPreUnlink n f) es2) ->
  forall c' d, c' = c -> ~ In (ECmd c' d n i) es2.
Proof. intros es1 n c i es2 s Hr Hno _. eapply finished_never_retried_l; eauto. Qed.
Print Assumptions finished_never_retried_pre_l.

(* ================================================================== 8. non-vacuity: a trace of the real programs *)
Definition real_trace : list ev :=
  [EStart 4 4; EInjMess 1 2; EInjIntd 1 2; EInjCommit 1 2 3 false; ECreate 2 Info; ECreate 2 Local; ECreate 2 Remote;
   ESync 2 Info; ESync 2 Local; ESync 2 Remote; ERecs 2 2 1; ECleanIntd 2; ECleanTodo 2;
   ECmd 0 0 2 0; ECmd 1 0 2 0; ECmd 0 1 2 1; ERep 0 0 VK; ERep 0 1 VZ; EMark 2 0 0; ERep 1 0 VD; ENote 2 1 0; EMark 2 1 0;
   EUnlinkChan 2 1; ECmd 0 0 2 1; ERep 0 0 VK; EMark 2 0 1; EUnlinkChan 2 0;
   EInjMess 3 4; EInjIntd 3 4; EInjCommit 3 4 1 false; EBounceQueued 2; EUnlinkBounce 2; EUnlinkInfo 2; ECleanFoop 2 Mess false;
   ECreate 4 Info; ECreate 4 Remote; ESync 4 Info; ESync 4 Remote; ERecs 4 0 1; ECleanIntd 4; ECleanTodo 4;
   ECmd 1 0 4 0; ERep 1 0 VK; EMark 4 1 0; EUnlinkChan 4 1; EUnlinkInfo 4; ECleanFoop 4 Mess false; ECrash].

Example real_trace_accepted :
  match run q0 real_trace with
  | Some s => all_documented s && no_drop s && conc_ok s
  | None => false
  end = true.
Proof. vm_compute. reflexivity. Qed.

(* every prefix of it satisfies the invariants as well, and a retry after the mark is rejected *)
Example real_trace_prefixes :
  forallb (fun k => match run q0 (firstn k real_trace) with
                    | Some s => all_documented s && no_drop s && conc_ok s
                    | None => false end) (seq 0 (S (length real_trace))) = true.
Proof. vm_compute. reflexivity. Qed.

(* after EMark 2 0 0 a new attempt for that record is rejected, one for the record that got Z is accepted *)
Example retry_after_mark_rejected :
  run q0 (firstn 19 real_trace ++ [ECmd 0 0 2 0]) = None /\
  (if run q0 (firstn 19 real_trace ++ [ECmd 0 0 2 1]) then true else false) = true.
Proof. split; vm_compute; reflexivity. Qed.
Print Assumptions real_trace_accepted.
Print Assumptions real_trace_prefixes.
Print Assumptions retry_after_mark_rejected.
