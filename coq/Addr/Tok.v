(* token822.c: token822_parse, token822_unquote, token822_unparse, token822_addrlist.  Model only (C17).
   The tokenizer is written as a byte-at-a-time machine; token822_addrlist as a token-at-a-time machine
   over the REVERSED token list (the C walks a pointer from the last token to the third). *)
From NQ Require Export Addr.Quote.
Local Open Scope N_scope.

Inductive tok :=
  | TAtom (s : bytes) | TQuote (s : bytes) | TLiteral (s : bytes) | TComment (s : bytes)
  | TComma | TAt | TDot | TLeft | TRight | TSemi | TColon.

Definition atomok (c : N) : bool :=
  negb ((c =? 32) || (c =? 9) || (c =? 13) || (c =? 10) || (c =? 40) || (c =? 91) || (c =? 34)
        || (c =? 60) || (c =? 62) || (c =? 59) || (c =? 58) || (c =? 64) || (c =? 44) || (c =? 46)).
(* atomcheck(): chars are signed, so bytes >= 128 are "< 32" *)
Definition atom_bad (c : N) : bool := (c <? 32) || (126 <? c) || (c =? 41) || (c =? 93) || (c =? 92).
Definition mk_atom (racc : bytes) : tok :=
  let s := rev_append racc [] in if existsb atom_bad s then TQuote s else TAtom s.

Inductive lex :=
  | LTop
  | LComment (level : nat) (racc : bytes) (esc : bool)      (* level = nesting depth - 1 *)
  | LQuote (racc : bytes) (esc : bool)
  | LLiteral (racc : bytes) (esc : bool)
  | LAtom (racc : bytes) (esc : bool).

(* one byte at top level; None = token822_parse returns 0 *)
Definition top_step (out : list tok) (c : N) : option (list tok * lex) :=
  if c =? 46 then Some (TDot :: out, LTop) else
  if c =? 44 then Some (TComma :: out, LTop) else
  if c =? 64 then Some (TAt :: out, LTop) else
  if c =? 60 then Some (TLeft :: out, LTop) else
  if c =? 62 then Some (TRight :: out, LTop) else
  if c =? 58 then Some (TColon :: out, LTop) else
  if c =? 59 then Some (TSemi :: out, LTop) else
  if (c =? 32) || (c =? 9) || (c =? 13) || (c =? 10) then Some (out, LTop) else
  if (c =? 41) || (c =? 93) then None else
  if c =? 40 then Some (out, LComment 0 [] false) else
  if c =? 34 then Some (out, LQuote [] false) else
  if c =? 91 then Some (out, LLiteral [] false) else
  if c =? 92 then Some (out, LAtom [] true) else Some (out, LAtom [c] false).

Definition lex_step (st : list tok * lex) (c : N) : option (list tok * lex) :=
  let (out, l) := st in
  match l with
  | LTop => top_step out c
  | LComment lv racc esc =>
    if esc then Some (out, LComment lv (c :: racc) false) else
    if c =? 40 then Some (out, LComment (S lv) racc false) else
    if c =? 41 then match lv with O => Some (TComment (rev_append racc []) :: out, LTop)
                                | S lv' => Some (out, LComment lv' racc false) end else
    if c =? 92 then Some (out, LComment lv racc true) else Some (out, LComment lv (c :: racc) false)
  | LQuote racc esc =>
    if esc then Some (out, LQuote (c :: racc) false) else
    if c =? 34 then Some (TQuote (rev_append racc []) :: out, LTop) else
    if c =? 92 then Some (out, LQuote racc true) else Some (out, LQuote (c :: racc) false)
  | LLiteral racc esc =>
    if esc then Some (out, LLiteral (c :: racc) false) else
    if c =? 93 then Some (TLiteral (rev_append racc []) :: out, LTop) else
    if c =? 92 then Some (out, LLiteral racc true) else Some (out, LLiteral (c :: racc) false)
  | LAtom racc esc =>
    if esc then Some (out, LAtom (c :: racc) false) else
    if atomok c then (if c =? 92 then Some (out, LAtom racc true) else Some (out, LAtom (c :: racc) false))
    else top_step (mk_atom racc :: out) c
  end.
Fixpoint lex_run (st : list tok * lex) (s : bytes) : option (list tok * lex) :=
  match s with
  | [] => Some st
  | c :: s' => match lex_step st c with Some st' => lex_run st' s' | None => None end
  end.
(* end of input: an unterminated comment/quote/literal (or an escape with nothing after it inside one)
   is a parse error; an atom simply ends (a trailing backslash is dropped) *)
Definition lex_end (st : list tok * lex) : option (list tok) :=
  match snd st with
  | LTop => Some (rev_append (fst st) [])
  | LAtom racc _ => Some (rev_append (mk_atom racc :: fst st) [])
  | _ => None
  end.
Definition parse (s : bytes) : option (list tok) :=
  match lex_run ([], LTop) s with Some st => lex_end st | None => None end.

(* ---- token822_unquote ---- *)
Definition unq1 (t : tok) : bytes :=
  match t with
  | TAtom s | TQuote s => s
  | TLiteral s => 91 :: s ++ [93]
  | TComment _ => []
  | TComma => [44] | TAt => [64] | TDot => [46] | TLeft => [60] | TRight => [62] | TSemi => [59] | TColon => [58]
  end.
Definition unquote (ts : list tok) : bytes := flat_map unq1 ts.

(* ---- token822_unparse ---- *)
Inductive tclass := KNone | KWord | KComma | KColon | KLeft | KOther.
Definition class_of (t : tok) : tclass :=
  match t with
  | TAtom _ | TQuote _ | TLiteral _ | TComment _ => KWord
  | TComma => KComma | TColon => KColon | TLeft => KLeft | _ => KOther
  end.
Definition needspace (t1 t2 : tclass) : bool :=
  match t1, t2 with
  | KNone, _ => false
  | KColon, _ => true
  | KComma, _ => true
  | _, KLeft => true
  | KWord, KWord => true
  | _, _ => false
  end.
Definition uesc (c : N) : bytes :=
  if (c =? 34) || (c =? 91) || (c =? 93) || (c =? 40) || (c =? 41) || (c =? 92) || (c =? 13) || (c =? 10)
  then [92; c] else [c].
Definition unp1 (t : tok) : bytes :=
  match t with
  | TAtom s => flat_map uesc s
  | TQuote s => 34 :: flat_map uesc s ++ [34]
  | TLiteral s => 91 :: flat_map uesc s ++ [93]
  | TComment s => 40 :: flat_map uesc s ++ [41]
  | TComma => [44] | TAt => [64] | TDot => [46] | TLeft => [60] | TRight => [62] | TSemi => [59] | TColon => [58]
  end.
(* output buffer so far, start of the current line, position of the pending fold *)
Record ust := { u_out : bytes; u_lineb : nat; u_linee : option nat }.
(* the NSUW macro *)
Definition nsuw (linelen : nat) (u : ust) : ust :=
  let s := length (u_out u) in
  match u_linee u with
  | Some e =>
    if Nat.eqb linelen 0 || Nat.leb (s - u_lineb u) linelen
    then {| u_out := firstn e (u_out u) ++ skipn (e + 2) (u_out u) ++ [10; 32]; u_lineb := u_lineb u; u_linee := Some (s - 2)%nat |}
    else {| u_out := u_out u ++ [10; 32]; u_lineb := S e; u_linee := Some s |}
  | None => {| u_out := u_out u ++ [10; 32]; u_lineb := u_lineb u; u_linee := Some s |}
  end.
Fixpoint unparse_loop (linelen : nat) (ts : list tok) (last : tclass) (u : ust) : ust :=
  match ts with
  | [] => u
  | t :: ts' =>
    let k := class_of t in
    let u1 := {| u_out := u_out u ++ (if needspace last k then [32] else []) ++ unp1 t; u_lineb := u_lineb u; u_linee := u_linee u |} in
    let u2 := match t with TComma => nsuw linelen u1 | _ => u1 end in
    unparse_loop linelen ts' k u2
  end.
Definition unparse (ts : list tok) (linelen : nat) : bytes :=
  let u := nsuw linelen (unparse_loop linelen ts KNone {| u_out := []; u_lineb := 0; u_linee := None |}) in
  removelast (u_out u).

(* ---- token822_addrlist ---- *)
Inductive amode :=
  | MNormal
  | MGroupName          (* after ':' : copying out until the next comma (inclusive) *)
  | MAngle              (* after '>' : collecting the address until '<' *)
  | MPhrase.            (* after '<' : copying the phrase out *)
Record ast := { a_out : list tok;          (* taout, in append order (i.e. reversed w.r.t. the final result) *)
                a_addr : list tok;         (* taaddr, in append order (right-to-left token order) *)
                a_ingroup : bool; a_wordok : bool; a_mode : amode;
                a_calls : list (list tok) }.   (* what the callback returned, most recent first *)

Section Addrlist.
Variable cb : list tok -> list tok.        (* the callback rewrites taaddr in place; it always returns 1 in qmail-inject *)

Definition gotaddr (a : ast) : ast :=
  let r := cb (a_addr a) in
  {| a_out := a_out a ++ r; a_addr := []; a_ingroup := a_ingroup a; a_wordok := a_wordok a; a_mode := a_mode a;
     a_calls := r :: a_calls a |}.
Definition flush (a : ast) : ast := match a_addr a with [] => a | _ => gotaddr a end.
Definition app_out (a : ast) (ts : list tok) : ast :=
  {| a_out := a_out a ++ ts; a_addr := a_addr a; a_ingroup := a_ingroup a; a_wordok := a_wordok a; a_mode := a_mode a; a_calls := a_calls a |}.
Definition flushcomma (a : ast) : ast := match a_addr a with [] => a | _ => app_out (gotaddr a) [TComma] end.
Definition addrleft (a : ast) (t : tok) : ast :=
  {| a_out := a_out a; a_addr := a_addr a ++ [t]; a_ingroup := a_ingroup a; a_wordok := a_wordok a; a_mode := a_mode a; a_calls := a_calls a |}.
Definition set_flags (a : ast) (ingroup wordok : bool) (m : amode) : ast :=
  {| a_out := a_out a; a_addr := a_addr a; a_ingroup := ingroup; a_wordok := wordok; a_mode := m; a_calls := a_calls a |}.

Definition phrase_tok (t : tok) : bool :=
  match t with TComment _ | TAtom _ | TQuote _ | TAt | TDot => true | _ => false end.

(* the switch at the top of the main loop; (state, false) = return 0 with the callbacks made so far *)
Definition normal_step (a : ast) (t : tok) : ast * bool :=
  match t with
  | TSemi => let a1 := flushcomma a in
             if a_ingroup a1 then (a1, false) else (app_out (set_flags a1 true true MNormal) [t], true)
  | TColon => let a1 := flush a in
              if a_ingroup a1 then (app_out (set_flags a1 false (a_wordok a1) MGroupName) [t], true) else (a1, false)
  | TRight => let a1 := flushcomma a in (app_out (set_flags a1 (a_ingroup a1) (a_wordok a1) MAngle) [t], true)
  | TAtom _ | TQuote _ | TLiteral _ =>
    let a1 := if a_wordok a then a else flushcomma a in
    (addrleft (set_flags a1 (a_ingroup a1) false MNormal) t, true)
  | TComment _ => (app_out a [t], true)
  | TComma => let a1 := flush a in (app_out (set_flags a1 (a_ingroup a1) true MNormal) [t], true)
  | _ => (addrleft (set_flags a (a_ingroup a) true MNormal) t, true)
  end.

Definition addr_step (a : ast) (t : tok) : ast * bool :=
  match a_mode a with
  | MNormal => normal_step a t
  | MGroupName =>
    (* while (t >= beginning && t->type != COMMA) OUTLEFT; if (t >= beginning) OUTLEFT; wordok = 1 *)
    match t with
    | TComma => (app_out (set_flags a (a_ingroup a) true MNormal) [t], true)
    | _ => (app_out a [t], true)
    end
  | MAngle =>
    match t with
    | TLeft => let a1 := gotaddr a in (app_out (set_flags a1 (a_ingroup a1) (a_wordok a1) MPhrase) [t], true)
    | _ => (addrleft a t, true)
    end
  | MPhrase =>
    if phrase_tok t then (app_out a [t], true)
    else normal_step (set_flags a (a_ingroup a) false MNormal) t
  end.
Fixpoint addr_run (a : ast) (rts : list tok) : ast * bool :=
  match rts with
  | [] => (a, true)
  | t :: rts' => match addr_step a t with (a', true) => addr_run a' rts' | r => r end
  end.
(* result: the rewritten token list (None = return 0) and the callback results in call order; the
   callbacks made before a failure count (they append to qmail-inject's envelope lists) *)
Definition addrlist (ts : list tok) : option (list tok) * list (list tok) :=
  let a0 := {| a_out := []; a_addr := []; a_ingroup := false; a_wordok := true; a_mode := MNormal; a_calls := [] |} in
  match addr_run a0 (rev (skipn 2 ts)) with
  | (a, false) => (None, rev (a_calls a))
  | (a, true) =>
    match a_mode a with
    | MAngle => (None, rev (a_calls (gotaddr a)))             (* '>' without '<': gotaddr is still called, then return 0 *)
    | _ => let a' := flush a in (Some (rev (a_out a' ++ rev (firstn 2 ts))), rev (a_calls a'))
    end
  end.
End Addrlist.
