(* C17: token822_addrlist on a comma-separated list of addresses (no groups): the callback is called
   exactly once per item, right to left, with the item's address. *)
From NQ Require Import Addr.Tok Addr.Inject822 Addr.TokProofs.
Local Open Scope N_scope.

Inductive item :=
  | IPlain (addr : list tok)                       (* addr-spec, possibly with comments around/inside *)
  | IAngle (phrase : list tok) (addr : list tok).  (* phrase <addr> ; addr may be EMPTY (<>) and may contain anything but TLeft *)
Definition is_comment (t : tok) := match t with TComment _ => true | _ => false end.
(* tokens of one item as they stand in the field *)
Definition item_toks (it : item) : list tok :=
  match it with IPlain a => a | IAngle p a => p ++ [TLeft] ++ a ++ [TRight] end.
(* the address the callback must see (callback order = right to left): comments of a plain address are not part of it *)
Definition item_addr (it : item) : list tok :=
  match it with IPlain a => rev (filter (fun t => negb (is_comment t)) a) | IAngle _ a => rev a end.
Definition item_ok (it : item) : Prop :=
  match it with
  | IPlain a => simple_addr (filter (fun t => negb (is_comment t)) a) /\ forallb (fun t => addr_tok t || is_comment t) a = true
  | IAngle p a => forallb phrase_tok p = true /\ forallb (fun t => match t with TLeft => false | _ => true end) a = true
  end.
Fixpoint render (its : list item) : list tok :=
  match its with [] => [] | [it] => item_toks it | it :: its' => item_toks it ++ TComma :: render its' end.

Notation nc := (fun t : tok => negb (is_comment t)) (only parsing).
Notation notleft := (fun t : tok => match t with TLeft => false | _ => true end) (only parsing).

(* ---------------------------------------------------------------- comma-joined token lists *)
Fixpoint join (ls : list (list tok)) : list tok :=
  match ls with [] => [] | [l] => l | l :: ls' => l ++ TComma :: join ls' end.
Lemma join_cons2 l l2 ls : join (l :: l2 :: ls) = l ++ TComma :: join (l2 :: ls).
Proof. reflexivity. Qed.
Lemma join_snoc ls : forall l, ls <> [] -> join (ls ++ [l]) = join ls ++ TComma :: l.
Proof.
  induction ls as [|l0 ls IH]; intros l Hne; [contradiction|].
  destruct ls as [|l1 ls1]; [reflexivity|].
  change ((l0 :: l1 :: ls1) ++ [l]) with (l0 :: l1 :: (ls1 ++ [l])).
  rewrite (join_cons2 l0 l1 (ls1 ++ [l])), (join_cons2 l0 l1 ls1).
  change (l1 :: ls1 ++ [l]) with ((l1 :: ls1) ++ [l]). rewrite IH by discriminate.
  rewrite <- app_assoc. reflexivity.
Qed.
Lemma rev_join ls : rev (join ls) = join (map (@rev tok) (rev ls)).
Proof.
  induction ls as [|l ls IH]; [reflexivity|]. destruct ls as [|l2 ls2]; [reflexivity|].
  rewrite join_cons2, rev_app_distr.
  change (rev (l :: l2 :: ls2)) with (rev (l2 :: ls2) ++ [l]). rewrite map_app. cbn [map].
  rewrite join_snoc.
  - rewrite <- IH. change (rev (TComma :: join (l2 :: ls2))) with (rev (join (l2 :: ls2)) ++ [TComma]).
    rewrite <- app_assoc. reflexivity.
  - intros H. apply map_eq_nil in H. apply (f_equal (@length (list tok))) in H. rewrite rev_length in H. discriminate H.
Qed.
Lemma render_join its : render its = join (map item_toks its).
Proof.
  induction its as [|it its IH]; [reflexivity|]. destruct its as [|it2 its2]; [reflexivity|].
  change (render (it :: it2 :: its2)) with (item_toks it ++ TComma :: render (it2 :: its2)). rewrite IH. reflexivity.
Qed.
Lemma filter_rev_l {A} (f : A -> bool) (s : list A) : filter f (rev s) = rev (filter f s).
Proof.
  induction s as [|x s IH]; [reflexivity|]. cbn [rev filter]. rewrite filter_app, IH. cbn [filter].
  destruct (f x); [reflexivity|]. apply app_nil_r.
Qed.

(* ---------------------------------------------------------------- the machine *)
Definition St (o acc : list tok) (w : bool) (m : amode) (calls : list (list tok)) : ast :=
  {| a_out := o; a_addr := acc; a_ingroup := false; a_wordok := w; a_mode := m; a_calls := calls |}.

Section Machine.
Variable cb : list tok -> list tok.

Lemma addr_run_app x : forall a y,
  addr_run cb a (x ++ y) = match addr_run cb a x with (a', true) => addr_run cb a' y | r => r end.
Proof.
  induction x as [|t x IH]; intros a y; [reflexivity|]. cbn [app addr_run].
  destruct (addr_step cb a t) as [a1 [|]]; [apply IH|reflexivity].
Qed.

(* wordok after a run of address tokens: set by the last one *)
Fixpoint wend (w : bool) (l : list tok) : bool := match l with [] => w | t :: l' => wend (negb (is_word t)) l' end.

(* a plain address with comments, collected in MNormal *)
Lemma plain_run : forall rts o acc w calls,
  forallb (fun t => addr_tok t || is_comment t) rts = true ->
  no_adj (negb w) (filter nc rts) = true ->
  addr_run cb (St o acc w MNormal calls) rts
  = (St (o ++ filter is_comment rts) (acc ++ filter nc rts) (wend w (filter nc rts)) MNormal calls, true).
Proof.
  induction rts as [|t rts IH]; intros o acc w calls Hall Hadj.
  - cbn [filter wend]. rewrite !app_nil_r. reflexivity.
  - cbn [forallb] in Hall. apply andb_true_iff in Hall as [Ht Hall]. cbn [filter] in Hadj |- *.
    destruct (is_comment t) eqn:Ec; cbn [negb] in Hadj |- *.
    + destruct t as [s|s|s|s| | | | | | |]; try discriminate Ec.
      cbn [addr_run].
      change (addr_step cb (St o acc w MNormal calls) (TComment s)) with (St (o ++ [TComment s]) acc w MNormal calls, true).
      cbv beta iota. rewrite (IH (o ++ [TComment s]) acc w calls Hall Hadj), <- app_assoc. reflexivity.
    + rewrite orb_false_r in Ht.
      cbn [no_adj] in Hadj. apply andb_true_iff in Hadj as [Hw Hadj]. apply negb_true_iff in Hw.
      assert (Hstep : addr_step cb (St o acc w MNormal calls) t = (St o (acc ++ [t]) (negb (is_word t)) MNormal calls, true)).
      { destruct t as [s|s|s|s| | | | | | |]; try discriminate Ht; try reflexivity;
          (cbn [is_word] in Hw; rewrite andb_true_r in Hw; apply negb_false_iff in Hw; subst w; reflexivity). }
      rewrite <- (negb_involutive (is_word t)) in Hadj.
      cbn [addr_run wend]. rewrite Hstep, (IH o (acc ++ [t]) (negb (is_word t)) calls Hall Hadj), <- app_assoc. reflexivity.
Qed.

(* between '>' and '<' (right to left) everything is collected *)
Lemma angle_run : forall rts o acc w calls, forallb notleft rts = true ->
  addr_run cb (St o acc w MAngle calls) rts = (St o (acc ++ rts) w MAngle calls, true).
Proof.
  induction rts as [|t rts IH]; intros o acc w calls Hall.
  - rewrite app_nil_r. reflexivity.
  - cbn [forallb] in Hall. apply andb_true_iff in Hall as [Ht Hall]. cbn [addr_run].
    assert (Hstep : addr_step cb (St o acc w MAngle calls) t = (St o (acc ++ [t]) w MAngle calls, true)).
    { destruct t as [s|s|s|s| | | | | | |]; try discriminate Ht; reflexivity. }
    rewrite Hstep, (IH o (acc ++ [t]) w calls Hall), <- app_assoc. reflexivity.
Qed.

(* the phrase left of '<' is copied out *)
Lemma phrase_run : forall rts o w calls, forallb phrase_tok rts = true ->
  addr_run cb (St o [] w MPhrase calls) rts = (St (o ++ rts) [] w MPhrase calls, true).
Proof.
  induction rts as [|t rts IH]; intros o w calls Hall.
  - rewrite app_nil_r. reflexivity.
  - cbn [forallb] in Hall. apply andb_true_iff in Hall as [Ht Hall]. cbn [addr_run].
    assert (Hstep : addr_step cb (St o [] w MPhrase calls) t = (St (o ++ [t]) [] w MPhrase calls, true)).
    { unfold addr_step. cbn [St a_mode]. rewrite Ht. reflexivity. }
    rewrite Hstep, (IH (o ++ [t]) w calls Hall), <- app_assoc. reflexivity.
Qed.

(* what one item contributes to taout (append order, i.e. right to left) *)
Definition item_out (it : item) : list tok :=
  match it with
  | IPlain a => filter is_comment (rev a) ++ cb (item_addr it)
  | IAngle p a => TRight :: cb (rev a) ++ TLeft :: rev p
  end.
(* the state after an item has been read, before the comma to its left or the end of the field *)
Definition post (it : item) (o : list tok) (calls : list (list tok)) (a' : ast) : Prop :=
  match it with
  | IPlain a => item_addr it <> [] /\ exists w', a' = St (o ++ filter is_comment (rev a)) (item_addr it) w' MNormal calls
  | IAngle p a => a' = St (o ++ item_out it) [] true MPhrase (cb (rev a) :: calls)
  end.

Lemma item_run it o calls : item_ok it ->
  exists a', addr_run cb (St o [] true MNormal calls) (rev (item_toks it)) = (a', true) /\ post it o calls a'.
Proof.
  destruct it as [a|p a]; cbn [item_ok item_toks].
  - intros ((Hall & Hadj & Hne) & Hac).
    assert (Hrun := plain_run (rev a) o [] true calls (forallb_rev _ _ Hac)).
    rewrite (filter_rev_l (fun t : tok => negb (is_comment t)) a) in Hrun.
    specialize (Hrun (no_adj_rev _ Hadj)). cbn [app] in Hrun.
    rewrite Hrun. eexists. split; [reflexivity|]. cbn [post item_addr]. split.
    + intros H. apply Hne. rewrite <- (rev_involutive (filter _ a)), H. reflexivity.
    + eexists. reflexivity.
  - intros (Hp & Ha).
    rewrite !rev_app_distr. cbn [rev app]. rewrite <- app_assoc. cbn [app].
    cbn [addr_run].
    change (addr_step cb (St o [] true MNormal calls) TRight) with (St (o ++ [TRight]) [] true MAngle calls, true).
    cbv beta iota. rewrite addr_run_app, (angle_run (rev a) _ [] true calls (forallb_rev _ _ Ha)). cbn [app addr_run].
    change (addr_step cb (St (o ++ [TRight]) (rev a) true MAngle calls) TLeft)
      with (St (((o ++ [TRight]) ++ cb (rev a)) ++ [TLeft]) [] true MPhrase (cb (rev a) :: calls), true).
    cbv beta iota. rewrite (phrase_run (rev p) _ true _ (forallb_rev _ _ Hp)).
    eexists. split; [reflexivity|]. cbn [post item_out]. rewrite <- !app_assoc. reflexivity.
Qed.

Lemma flush_ne a : a_addr a <> [] -> flush cb a = gotaddr cb a.
Proof. unfold flush. destruct (a_addr a); [contradiction|reflexivity]. Qed.

Lemma comma_step it o calls a' : post it o calls a' ->
  addr_step cb a' TComma = (St (o ++ item_out it ++ [TComma]) [] true MNormal (cb (item_addr it) :: calls), true).
Proof.
  destruct it as [a|p a]; cbn [post].
  - intros (Hne & w' & ->). unfold addr_step. cbn [St a_mode]. unfold normal_step. rewrite flush_ne by exact Hne.
    unfold gotaddr, set_flags, app_out, St. cbn [a_out a_addr a_ingroup a_wordok a_mode a_calls item_out].
    rewrite <- !app_assoc. reflexivity.
  - intros ->. cbn [item_addr].
    transitivity (St ((o ++ item_out (IAngle p a)) ++ [TComma]) [] true MNormal (cb (rev a) :: calls), true); [reflexivity|].
    rewrite <- app_assoc. reflexivity.
Qed.

Lemma final_step it o calls a' : post it o calls a' ->
  a_mode a' <> MAngle /\ a_out (flush cb a') = o ++ item_out it /\ a_calls (flush cb a') = cb (item_addr it) :: calls.
Proof.
  destruct it as [a|p a]; cbn [post].
  - intros (Hne & w' & ->). split; [discriminate|]. rewrite flush_ne by exact Hne.
    unfold gotaddr, St. cbn [a_out a_addr a_calls item_out]. rewrite <- app_assoc. split; reflexivity.
  - intros ->. split; [discriminate|]. split; reflexivity.
Qed.

(* items in processing order (right to left) *)
Lemma run_items : forall ris, ris <> [] -> Forall item_ok ris -> forall o calls,
  exists a', addr_run cb (St o [] true MNormal calls) (join (map (fun it => rev (item_toks it)) ris)) = (a', true)
    /\ a_mode a' <> MAngle
    /\ a_out (flush cb a') = o ++ join (map item_out ris)
    /\ a_calls (flush cb a') = rev (map (fun it => cb (item_addr it)) ris) ++ calls.
Proof.
  induction ris as [|it ris IH]; intros Hne Hok o calls; [contradiction|].
  apply Forall_cons_iff in Hok as [Hit Hok].
  destruct (item_run it o calls Hit) as (a1 & Hrun1 & Hpost).
  destruct ris as [|it2 ris2].
  - exists a1. cbn [map join rev app]. split; [exact Hrun1|]. exact (final_step it o calls a1 Hpost).
  - cbn [map]. rewrite !join_cons2. rewrite addr_run_app, Hrun1. cbn [addr_run]. rewrite (comma_step it o calls a1 Hpost).
    destruct (IH ltac:(discriminate) Hok (o ++ item_out it ++ [TComma]) (cb (item_addr it) :: calls))
      as (a' & Hrun & Hm & Ho & Hc).
    exists a'. split; [exact Hrun|]. split; [exact Hm|]. split.
    + rewrite Ho. cbn [map]. rewrite <- !app_assoc. reflexivity.
    + rewrite Hc. cbn [map rev]. rewrite <- !app_assoc. reflexivity.
Qed.

(* one item as it stands in the rewritten field: the (rewritten) address first, a plain address's comments after it *)
Definition item_new (it : item) : list tok :=
  match it with
  | IPlain a => rev (cb (item_addr it)) ++ filter is_comment a
  | IAngle p a => p ++ [TLeft] ++ rev (cb (rev a)) ++ [TRight]
  end.
Lemma rev_item_out it : rev (item_out it) = item_new it.
Proof.
  destruct it as [a|p a]; cbn [item_out item_new].
  - rewrite rev_app_distr, filter_rev_l, rev_involutive. reflexivity.
  - cbn [rev]. rewrite rev_app_distr. cbn [rev]. rewrite rev_involutive, <- !app_assoc. reflexivity.
Qed.
End Machine.

(* ---------------------------------------------------------------- the theorems *)
(* the rewritten field *)
Definition render_new (cb : list tok -> list tok) (its : list item) : list tok := join (map (item_new cb) its).

Theorem addrlist_grammar_out_l : forall cb n c its, its <> [] -> Forall item_ok its ->
  addrlist cb (n :: c :: render its)
  = (Some (n :: c :: render_new cb its), map (fun it => cb (item_addr it)) (rev its)).
Proof.
  intros cb n c its Hne Hok. unfold addrlist. cbn [skipn firstn].
  assert (Hrev : rev (render its) = join (map (fun it => rev (item_toks it)) (rev its))).
  { rewrite render_join, rev_join, <- map_rev, map_map. reflexivity. }
  assert (Hne' : rev its <> []).
  { intros H. apply Hne. rewrite <- (rev_involutive its), H. reflexivity. }
  destruct (run_items cb (rev its) Hne' (Forall_rev Hok) [] []) as (a' & Hrun & Hm & Ho & Hc).
  fold (St [] [] true MNormal []). rewrite Hrev, Hrun.
  assert (Hres : (let af := flush cb a' in (Some (rev (a_out af ++ rev [n; c])), rev (a_calls af)))
                 = (Some (n :: c :: render_new cb its), map (fun it => cb (item_addr it)) (rev its))).
  { cbv zeta. rewrite Ho, Hc, app_nil_r, rev_involutive. cbn [app]. rewrite rev_app_distr. cbn [rev app].
    rewrite rev_join, <- map_rev, rev_involutive, map_map. unfold render_new.
    rewrite (map_ext _ _ (rev_item_out cb)). reflexivity. }
  destruct (a_mode a'); [exact Hres|exact Hres|contradiction|exact Hres].
Qed.
Print Assumptions addrlist_grammar_out_l.

Theorem addrlist_grammar_partial_l : forall cb n c its, its <> [] -> Forall item_ok its ->
  exists out, addrlist cb (n :: c :: render its) = (Some out, map (fun it => cb (item_addr it)) (rev its)).
Proof.
  intros cb n c its Hne Hok. exists (n :: c :: render_new cb its). apply addrlist_grammar_out_l; assumption.
Qed.
Print Assumptions addrlist_grammar_partial_l.

(* ---------------------------------------------------------------- non-vacuity *)
(*   a (x) @b , P <c@d> , <>     *)
Definition ex_its : list item :=
  [IPlain [TAtom [97]; TComment [120]; TAt; TAtom [98]];
   IAngle [TAtom [80]] [TAtom [99]; TAt; TAtom [100]];
   IAngle [] []].
Example ex_ok : Forall item_ok ex_its.
Proof.
  unfold ex_its. repeat apply Forall_cons; try apply Forall_nil.
  - cbn. split; [split; [reflexivity|split; [reflexivity|discriminate]]|reflexivity].
  - split; reflexivity.
  - split; reflexivity.
Qed.
Example ex_run :
  addrlist (fun a => a) (TAtom [84; 111] :: TColon :: render ex_its)
  = (Some (TAtom [84; 111] :: TColon :: render_new (fun a => a) ex_its),
     map (fun it => item_addr it) (rev ex_its))
  /\ map (fun it => item_addr it) (rev ex_its) = [[]; [TAtom [100]; TAt; TAtom [99]]; [TAtom [98]; TAt; TAtom [97]]]
  /\ render_new (fun a => a) ex_its
     = [TAtom [97]; TAt; TAtom [98]; TComment [120]; TComma; TAtom [80]; TLeft; TAtom [99]; TAt; TAtom [100]; TRight;
        TComma; TLeft; TRight].
Proof. split; [|split]; vm_compute; reflexivity. Qed.
Example ex_thm : exists out, addrlist (fun a => a) (TAtom [84; 111] :: TColon :: render ex_its)
                             = (Some out, map (fun it => item_addr it) (rev ex_its)).
Proof. apply (addrlist_grammar_partial_l (fun a => a)); [discriminate|exact ex_ok]. Qed.

(* ---------------------------------------------------------------- missing commas *)
(* Items may also follow one another without a comma.  The machine still splits them when the left item is
   an angle address, or when both are plain, the left one ends with a word and the right one begins with a
   word (comments aside).  (A plain item directly left of an angle item would be read as its phrase.) *)
Definition begins_word (a : list tok) : bool := hw (filter nc a).
Definition ends_word (a : list tok) : bool := hw (filter nc (rev a)).
Definition sep_ok (l r : item) : bool :=
  match l, r with
  | IAngle _ _, _ => true
  | IPlain a, IPlain b => ends_word a && begins_word b
  | IPlain _, IAngle _ _ => false
  end.
(* the items after the first, each with "a comma stands before it" *)
Fixpoint rtail (rest : list (bool * item)) : list tok :=
  match rest with
  | [] => []
  | (comma, it) :: r => (if comma then [TComma] else []) ++ item_toks it ++ rtail r
  end.
Definition render2 (first : item) (rest : list (bool * item)) : list tok := item_toks first ++ rtail rest.
Fixpoint seps_ok (l : item) (rest : list (bool * item)) : Prop :=
  match rest with
  | [] => True
  | (comma, r) :: rest' => (comma = true \/ sep_ok l r = true) /\ seps_ok r rest'
  end.

Lemma render2_all_commas it its : render (it :: its) = render2 it (map (fun x => (true, x)) its).
Proof.
  revert it. induction its as [|it2 its IH]; intros it.
  - unfold render2. cbn [render map rtail]. rewrite app_nil_r. reflexivity.
  - change (render (it :: it2 :: its)) with (item_toks it ++ TComma :: render (it2 :: its)).
    rewrite IH. reflexivity.
Qed.

Lemma wend_snoc l : forall w t, wend w (l ++ [t]) = negb (is_word t).
Proof. induction l as [|x l IH]; intros w t; [reflexivity|]. cbn [app wend]. apply IH. Qed.
Lemma wend_rev w x : x <> [] -> wend w (rev x) = negb (hw x).
Proof. destruct x as [|t x]; [contradiction|]. intros _. cbn [rev hw]. apply wend_snoc. Qed.

Section Machine2.
Variable cb : list tok -> list tok.

(* states between items: not in a group, not inside <>, nothing pending while copying a phrase *)
Definition okstate (a : ast) : Prop :=
  a_ingroup a = false /\ (a_mode a = MNormal \/ (a_mode a = MPhrase /\ a_addr a = [])).
(* the state allows the item to its left to be read as a separate item *)
Definition canstart (a : ast) (it : item) : Prop :=
  match it with
  | IAngle _ _ => True
  | IPlain x => a_mode a = MNormal /\
                ((a_addr a = [] /\ a_wordok a = true) \/ (a_addr a <> [] /\ a_wordok a = false /\ ends_word x = true))
  end.
Definition kind (it : item) (a' : ast) : Prop :=
  match it with
  | IPlain y => a_mode a' = MNormal /\ a_addr a' <> [] /\ a_wordok a' = negb (begins_word y)
  | IAngle _ _ => True
  end.

Lemma comma_step2 a : okstate a ->
  exists o1, addr_step cb a TComma = (St o1 [] true MNormal (a_calls (flush cb a)), true).
Proof.
  destruct a as [o acc ig w m calls]. unfold okstate. cbn [a_ingroup a_mode a_addr].
  intros (-> & [-> | [-> ->]]).
  - destruct acc as [|t0 r0]; eexists; reflexivity.
  - eexists; reflexivity.
Qed.

Lemma tright_step a : okstate a ->
  exists o1 w1, addr_step cb a TRight = (St o1 [] w1 MAngle (a_calls (flush cb a)), true).
Proof.
  destruct a as [o acc ig w m calls]. unfold okstate. cbn [a_ingroup a_mode a_addr].
  intros (-> & [-> | [-> ->]]).
  - destruct acc as [|t0 r0]; eexists; eexists; reflexivity.
  - eexists; eexists; reflexivity.
Qed.

(* a plain address read while another one is pending and wordok = 0: the first word flushes it *)
Lemma plain_run_flush accR calls : accR <> [] -> forall rts o,
  forallb (fun t => addr_tok t || is_comment t) rts = true ->
  hw (filter nc rts) = true -> no_adj false (filter nc rts) = true ->
  exists o', addr_run cb (St o accR false MNormal calls) rts
             = (St o' (filter nc rts) (wend false (filter nc rts)) MNormal (cb accR :: calls), true).
Proof.
  intros HaccR. induction rts as [|t rts IH]; intros o Hall Hhw Hadj; [discriminate Hhw|].
  cbn [forallb] in Hall. apply andb_true_iff in Hall as [Ht Hall]. cbn [filter] in Hhw, Hadj |- *.
  destruct (is_comment t) eqn:Ec; cbn [negb] in Hhw, Hadj |- *.
  - destruct t as [s|s|s|s| | | | | | |]; try discriminate Ec.
    destruct (IH (o ++ [TComment s]) Hall Hhw Hadj) as (o' & Hrun). exists o'.
    cbn [addr_run].
    change (addr_step cb (St o accR false MNormal calls) (TComment s)) with (St (o ++ [TComment s]) accR false MNormal calls, true).
    cbv beta iota. exact Hrun.
  - cbn [hw] in Hhw. cbn [no_adj] in Hadj. rewrite Hhw in Hadj. cbn [andb negb] in Hadj.
    destruct accR as [|x0 r0]; [contradiction|].
    assert (Hstep : addr_step cb (St o (x0 :: r0) false MNormal calls) t
                    = (St ((o ++ cb (x0 :: r0)) ++ [TComma]) [t] false MNormal (cb (x0 :: r0) :: calls), true)).
    { destruct t as [s|s|s|s| | | | | | |]; try discriminate Hhw; reflexivity. }
    eexists. cbn [addr_run wend]. rewrite Hstep, Hhw. cbn [negb].
    rewrite (plain_run cb rts _ [t] false _ Hall Hadj). reflexivity.
Qed.

Lemma item_run2 it a : item_ok it -> okstate a -> canstart a it ->
  exists a', addr_run cb a (rev (item_toks it)) = (a', true) /\ okstate a' /\ kind it a'
             /\ a_calls (flush cb a') = cb (item_addr it) :: a_calls (flush cb a).
Proof.
  destruct it as [y|p x]; cbn [item_ok item_toks canstart kind item_addr].
  - intros ((Hall & Hadj & Hne) & Hac) Hok (Hm & Hst).
    assert (Hne' : rev (filter nc y) <> []).
    { intros H. apply Hne. rewrite <- (rev_involutive (filter _ y)), H. reflexivity. }
    assert (Hadj' : no_adj false (filter nc (rev y)) = true) by (rewrite filter_rev_l; apply no_adj_rev; exact Hadj).
    destruct a as [o acc ig w m calls]. destruct Hok as (Hig & _). cbn [a_ingroup a_mode a_addr a_wordok] in *. subst ig m.
    destruct Hst as [(-> & ->) | (Hacc & -> & Hends)].
    + fold (St o [] true MNormal calls).
      rewrite (plain_run cb (rev y) o [] true calls (forallb_rev _ _ Hac) Hadj'). cbn [app].
      rewrite (filter_rev_l (fun t : tok => negb (is_comment t)) y).
      eexists. split; [reflexivity|]. split; [split; [reflexivity|left; reflexivity]|]. split.
      * split; [reflexivity|]. split; [exact Hne'|]. unfold St. cbn [a_wordok]. apply wend_rev. exact Hne.
      * rewrite flush_ne by exact Hne'. reflexivity.
    + fold (St o acc false MNormal calls).
      destruct (plain_run_flush acc calls Hacc (rev y) o (forallb_rev _ _ Hac) Hends Hadj') as (o' & Hrun).
      rewrite Hrun. rewrite (filter_rev_l (fun t : tok => negb (is_comment t)) y).
      eexists. split; [reflexivity|]. split; [split; [reflexivity|left; reflexivity]|]. split.
      * split; [reflexivity|]. split; [exact Hne'|]. unfold St. cbn [a_wordok]. apply wend_rev. exact Hne.
      * rewrite flush_ne by exact Hne'. rewrite (flush_ne cb (St o acc false MNormal calls)) by exact Hacc. reflexivity.
  - intros (Hp & Hx) Hok _.
    rewrite !rev_app_distr. cbn [rev app]. rewrite <- app_assoc. cbn [app].
    destruct (tright_step a Hok) as (o1 & w1 & Hstep). cbn [addr_run]. rewrite Hstep.
    rewrite addr_run_app, (angle_run cb (rev x) o1 [] w1 _ (forallb_rev _ _ Hx)). cbn [app addr_run].
    change (addr_step cb (St o1 (rev x) w1 MAngle (a_calls (flush cb a))) TLeft)
      with (St ((o1 ++ cb (rev x)) ++ [TLeft]) [] w1 MPhrase (cb (rev x) :: a_calls (flush cb a)), true).
    cbv beta iota. rewrite (phrase_run cb (rev p) _ w1 _ (forallb_rev _ _ Hp)).
    eexists. split; [reflexivity|]. split; [split; [reflexivity|right; split; reflexivity]|]. split; [exact I|reflexivity].
Qed.

Lemma rev_rtail_cons b it r :
  rev (rtail ((b, it) :: r)) = rev (rtail r) ++ rev (item_toks it) ++ (if b then [TComma] else []).
Proof.
  cbn [rtail]. rewrite !rev_app_distr, <- app_assoc. destruct b; reflexivity.
Qed.

(* everything to the right of item [l] has been read *)
Lemma run_tail : forall rest l, Forall item_ok (map snd rest) -> seps_ok l rest ->
  exists a', addr_run cb (St [] [] true MNormal []) (rev (rtail rest)) = (a', true) /\ okstate a' /\ canstart a' l
             /\ a_calls (flush cb a') = map (fun it => cb (item_addr it)) (map snd rest).
Proof.
  induction rest as [|[b it] r IH]; intros l Hok Hsep.
  - eexists. split; [reflexivity|]. split; [split; [reflexivity|left; reflexivity]|]. split; [|reflexivity].
    destruct l as [x|p x]; [|exact I]. split; [reflexivity|]. left. split; reflexivity.
  - cbn [map snd] in Hok. apply Forall_cons_iff in Hok as [Hit Hok]. cbn [seps_ok] in Hsep. destruct Hsep as [Hb Hsep].
    destruct (IH it Hok Hsep) as (a1 & Hrun1 & Hok1 & Hcan1 & Hc1).
    destruct (item_run2 it a1 Hit Hok1 Hcan1) as (a2 & Hrun2 & Hok2 & Hk2 & Hc2).
    rewrite rev_rtail_cons, addr_run_app, Hrun1, addr_run_app, Hrun2.
    cbn [map snd]. rewrite <- Hc1, <- Hc2.
    destruct b.
    + destruct (comma_step2 a2 Hok2) as (o3 & Hstep). cbn [addr_run]. rewrite Hstep.
      eexists. split; [reflexivity|]. split; [split; [reflexivity|left; reflexivity]|]. split; [|reflexivity].
      destruct l as [x|p x]; [|exact I]. split; [reflexivity|]. left. split; reflexivity.
    + cbn [addr_run]. exists a2. split; [reflexivity|]. split; [exact Hok2|]. split; [|reflexivity].
      destruct Hb as [Hb|Hb]; [discriminate Hb|].
      destruct l as [x|p x]; [|exact I]. destruct it as [y|q y]; [|discriminate Hb].
      cbn [sep_ok] in Hb. apply andb_true_iff in Hb as [Hx Hy]. destruct Hk2 as (Hm & Hne & Hw).
      split; [exact Hm|]. right. split; [exact Hne|]. split; [|exact Hx]. rewrite Hw, Hy. reflexivity.
Qed.
End Machine2.

Theorem addrlist_grammar_nocomma_l : forall cb n c first rest,
  item_ok first -> Forall item_ok (map snd rest) -> seps_ok first rest ->
  exists out, addrlist cb (n :: c :: render2 first rest)
              = (Some out, map (fun it => cb (item_addr it)) (rev (first :: map snd rest))).
Proof.
  intros cb n c first rest Hf Hok Hsep. unfold addrlist. cbn [skipn firstn].
  destruct (run_tail cb rest first Hok Hsep) as (a1 & Hrun1 & Hok1 & Hcan1 & Hc1).
  destruct (item_run2 cb first a1 Hf Hok1 Hcan1) as (a2 & Hrun2 & Hok2 & _ & Hc2).
  unfold render2. rewrite rev_app_distr, addr_run_app. fold (St [] [] true MNormal []). rewrite Hrun1, Hrun2.
  assert (Hcalls : rev (a_calls (flush cb a2)) = map (fun it => cb (item_addr it)) (rev (first :: map snd rest))).
  { rewrite Hc2, Hc1, map_rev. reflexivity. }
  destruct Hok2 as (_ & [Hm | (Hm & _)]); rewrite Hm; rewrite Hcalls; eexists; reflexivity.
Qed.
Print Assumptions addrlist_grammar_nocomma_l.

(*   a@b (x) c@d , P <e@f> g@h , <> <i>     (three commas missing) *)
Definition ex2_first : item := IPlain [TAtom [97]; TAt; TAtom [98]].
Definition ex2_rest : list (bool * item) :=
  [(false, IPlain [TComment [120]; TAtom [99]; TAt; TAtom [100]]);
   (true, IAngle [TAtom [80]] [TAtom [101]; TAt; TAtom [102]]);
   (false, IPlain [TAtom [103]; TAt; TAtom [104]]);
   (true, IAngle [] []);
   (false, IAngle [] [TAtom [105]])].
Example ex2_ok : item_ok ex2_first /\ Forall item_ok (map snd ex2_rest) /\ seps_ok ex2_first ex2_rest.
Proof.
  split; [|split].
  - cbn. split; [split; [reflexivity|split; [reflexivity|discriminate]]|reflexivity].
  - unfold ex2_rest. cbn [map snd]. repeat apply Forall_cons; try apply Forall_nil.
    + cbn. split; [split; [reflexivity|split; [reflexivity|discriminate]]|reflexivity].
    + split; reflexivity.
    + cbn. split; [split; [reflexivity|split; [reflexivity|discriminate]]|reflexivity].
    + split; reflexivity.
    + split; reflexivity.
  - unfold ex2_first, ex2_rest. cbn [seps_ok].
    repeat split; try (right; vm_compute; reflexivity); try (left; reflexivity).
Qed.
Example ex2_run :
  snd (addrlist (fun a => a) (TAtom [84; 111] :: TColon :: render2 ex2_first ex2_rest))
  = [[TAtom [105]]; []; [TAtom [104]; TAt; TAtom [103]]; [TAtom [102]; TAt; TAtom [101]]; [TAtom [100]; TAt; TAtom [99]];
     [TAtom [98]; TAt; TAtom [97]]]
  /\ map (fun it => item_addr it) (rev (ex2_first :: map snd ex2_rest))
     = [[TAtom [105]]; []; [TAtom [104]; TAt; TAtom [103]]; [TAtom [102]; TAt; TAtom [101]]; [TAtom [100]; TAt; TAtom [99]];
        [TAtom [98]; TAt; TAtom [97]]].
Proof. split; vm_compute; reflexivity. Qed.
(* the excluded shape is really different: a plain address directly left of an angle address is its phrase *)
Example ex2_excluded :
  snd (addrlist (fun a => a) (TAtom [84; 111] :: TColon ::
        render2 (IPlain [TAtom [97]; TAt; TAtom [98]]) [(false, IAngle [] [TAtom [99]])]))
  = [[TAtom [99]]].
Proof. vm_compute. reflexivity. Qed.
