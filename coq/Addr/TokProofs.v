(* C17: token822 (parse / unquote / addrlist) and qmail-inject's header handling: theorems. *)
From NQ Require Import Addr.Tok Addr.Inject822 Addr.QuoteProofs.
Local Open Scope N_scope.

Definition is_word (t : tok) : bool := match t with TAtom _ | TQuote _ | TLiteral _ => true | _ => false end.
Definition addr_tok (t : tok) : bool := match t with TAtom _ | TQuote _ | TLiteral _ | TAt | TDot => true | _ => false end.
Fixpoint no_adj (prev_word : bool) (ts : list tok) : bool :=   (* no two word tokens adjacent *)
  match ts with [] => true | t :: ts' => negb (prev_word && is_word t) && no_adj (is_word t) ts' end.
Definition simple_addr (ts : list tok) : Prop := forallb addr_tok ts = true /\ no_adj false ts = true /\ ts <> [].

(* ---------------------------------------------------------------- no_adj and reversal *)
Definition hw (ts : list tok) : bool := match ts with [] => false | t :: _ => is_word t end.
Lemma no_adj_split b ts : no_adj b ts = no_adj false ts && negb (b && hw ts).
Proof.
  destruct ts as [|t ts]; [destruct b; reflexivity|]. cbn [no_adj hw].
  destruct b, (is_word t); cbn [andb negb]; rewrite ?andb_true_r, ?andb_false_r; reflexivity.
Qed.
Lemma no_adj_weaken b ts : no_adj b ts = true -> no_adj false ts = true.
Proof. rewrite no_adj_split. intros H. apply andb_true_iff in H as [H _]. exact H. Qed.
Lemma no_adj_rev_append ts : forall acc, no_adj false ts = true -> no_adj false acc = true -> hw ts && hw acc = false ->
  no_adj false (rev_append ts acc) = true.
Proof.
  induction ts as [|t ts IH]; intros acc Hts Hacc Hh; [exact Hacc|].
  cbn [rev_append]. cbn [no_adj andb negb] in Hts. rewrite no_adj_split in Hts. apply andb_true_iff in Hts as [Hts Ht].
  apply negb_true_iff in Ht. cbn [hw] in Hh. apply IH.
  - exact Hts.
  - cbn [no_adj andb negb]. rewrite no_adj_split, Hacc, Hh. reflexivity.
  - cbn [hw]. rewrite andb_comm. exact Ht.
Qed.
Lemma no_adj_rev ts : no_adj false ts = true -> no_adj false (rev ts) = true.
Proof.
  intros H. rewrite rev_alt. apply no_adj_rev_append; [exact H|reflexivity|]. apply andb_false_r.
Qed.
Lemma forallb_rev {A} (f : A -> bool) (s : list A) : forallb f s = true -> forallb f (rev s) = true.
Proof.
  intros H. apply forallb_forall. intros x Hx. apply in_rev in Hx. revert x Hx. apply forallb_forall. exact H.
Qed.

(* ---------------------------------------------------------------- (b) addrlist on a simple address *)
Definition mkst (acc : list tok) (w : bool) : ast :=
  {| a_out := []; a_addr := acc; a_ingroup := false; a_wordok := w; a_mode := MNormal; a_calls := [] |}.

Lemma run_simple (cb : list tok -> list tok) : forall rts acc w,
  forallb addr_tok rts = true -> no_adj (negb w) rts = true ->
  exists w', addr_run cb (mkst acc w) rts = (mkst (acc ++ rts) w', true).
Proof.
  induction rts as [|t rts IH]; intros acc w Hall Hadj.
  - exists w. rewrite app_nil_r. reflexivity.
  - cbn [forallb] in Hall. apply andb_true_iff in Hall as [Ht Hall].
    cbn [no_adj] in Hadj. apply andb_true_iff in Hadj as [Hw Hadj]. apply negb_true_iff in Hw.
    assert (Hstep : exists w1, addr_step cb (mkst acc w) t = (mkst (acc ++ [t]) w1, true) /\ negb w1 = is_word t).
    { destruct t as [s|s|s|s| | | | | | |]; try discriminate Ht;
        try (exists true; split; reflexivity);
        (cbn [is_word] in Hw; rewrite andb_true_r in Hw; apply negb_false_iff in Hw; subst w;
         exists false; split; reflexivity). }
    destruct Hstep as (w1 & Hstep & Hw1).
    cbn [addr_run]. rewrite Hstep. rewrite <- Hw1 in Hadj.
    destruct (IH (acc ++ [t]) w1 Hall Hadj) as (w' & Hrun). exists w'. rewrite Hrun, <- app_assoc. reflexivity.
Qed.

Theorem addrlist_simple_l : forall (cb : list tok -> list tok) (n c : tok) ts, simple_addr ts ->
  addrlist cb (n :: c :: ts) = (Some (n :: c :: rev (cb (rev ts))), [cb (rev ts)]).
Proof.
  intros cb n c ts (Hall & Hadj & Hne). unfold addrlist. cbn [skipn firstn].
  destruct (run_simple cb (rev ts) [] true (forallb_rev _ _ Hall) (no_adj_rev _ Hadj)) as (w' & Hrun).
  fold (mkst [] true). rewrite Hrun. cbn [app mkst a_mode]. unfold flush. cbn [a_addr].
  destruct (rev ts) as [|t0 r0] eqn:Er.
  - exfalso. apply Hne. rewrite <- (rev_involutive ts), Er. reflexivity.
  - unfold gotaddr. cbn [a_out a_addr a_calls app rev]. rewrite rev_app_distr. reflexivity.
Qed.
Print Assumptions addrlist_simple_l.

(* ---------------------------------------------------------------- (a) the tokenizer on quote2's output *)
Lemma okch_eqb c k : okch k = false -> okch c = true -> (c =? k) = false.
Proof. intros Hk Hc. apply N.eqb_neq. exact (okch_neq c k Hk Hc). Qed.

Lemma top_step_dot out : top_step out 46 = Some (TDot :: out, LTop).
Proof. reflexivity. Qed.
Lemma top_step_at out : top_step out 64 = Some (TAt :: out, LTop).
Proof. reflexivity. Qed.
Lemma top_step_dq out : top_step out 34 = Some (out, LQuote [] false).
Proof. reflexivity. Qed.
Lemma top_step_ok out c : okch c = true -> c <> 46 -> top_step out c = Some (out, LAtom [c] false).
Proof.
  intros H Hne. unfold top_step. rewrite (proj2 (N.eqb_neq c 46) Hne).
  rewrite (okch_eqb c 44 eq_refl H), (okch_eqb c 64 eq_refl H), (okch_eqb c 60 eq_refl H), (okch_eqb c 62 eq_refl H),
    (okch_eqb c 58 eq_refl H), (okch_eqb c 59 eq_refl H), (okch_eqb c 32 eq_refl H), (okch_eqb c 9 eq_refl H),
    (okch_eqb c 13 eq_refl H), (okch_eqb c 10 eq_refl H), (okch_eqb c 41 eq_refl H), (okch_eqb c 93 eq_refl H),
    (okch_eqb c 40 eq_refl H), (okch_eqb c 34 eq_refl H), (okch_eqb c 91 eq_refl H), (okch_eqb c 92 eq_refl H).
  reflexivity.
Qed.
Lemma atomok_ok c : okch c = true -> c <> 46 -> atomok c = true.
Proof.
  intros H Hne. unfold atomok. rewrite (proj2 (N.eqb_neq c 46) Hne).
  rewrite (okch_eqb c 32 eq_refl H), (okch_eqb c 9 eq_refl H), (okch_eqb c 13 eq_refl H), (okch_eqb c 10 eq_refl H),
    (okch_eqb c 40 eq_refl H), (okch_eqb c 91 eq_refl H), (okch_eqb c 34 eq_refl H), (okch_eqb c 60 eq_refl H),
    (okch_eqb c 62 eq_refl H), (okch_eqb c 59 eq_refl H), (okch_eqb c 58 eq_refl H), (okch_eqb c 64 eq_refl H),
    (okch_eqb c 44 eq_refl H).
  reflexivity.
Qed.

Lemma lex_run_app a : forall st b,
  lex_run st (a ++ b) = match lex_run st a with Some st' => lex_run st' b | None => None end.
Proof.
  induction a as [|c a IH]; intros st b; [reflexivity|]. cbn [app lex_run].
  destruct (lex_step st c) as [st'|]; [apply IH|reflexivity].
Qed.

Lemma unquote_app a b : unquote (a ++ b) = unquote a ++ unquote b.
Proof. unfold unquote. apply flat_map_app. Qed.
Lemma unq1_mk_atom racc : unq1 (mk_atom racc) = rev racc.
Proof. unfold mk_atom. rewrite <- rev_alt. destruct (existsb atom_bad (rev racc)); reflexivity. Qed.
Lemma is_word_mk_atom racc : is_word (mk_atom racc) = true.
Proof. unfold mk_atom. destruct (existsb atom_bad _); reflexivity. Qed.
Lemma addr_tok_mk_atom racc : addr_tok (mk_atom racc) = true.
Proof. unfold mk_atom. destruct (existsb atom_bad _); reflexivity. Qed.

(* states reached while reading okch bytes and '@' after a non-word token *)
Definition lx_ok (lx : lex) : bool := match lx with LTop => true | LAtom _ false => true | _ => false end.
Definition rd (st : list tok * lex) : bytes :=
  unquote (rev (fst st)) ++ match snd st with LAtom racc _ => rev racc | _ => [] end.
Definition good (st : list tok * lex) : Prop :=
  lx_ok (snd st) = true /\ forallb addr_tok (fst st) = true /\ no_adj true (fst st) = true.

Lemma good_step st c : good st -> okch c || (c =? 64) = true ->
  exists st', lex_step st c = Some st' /\ good st' /\ rd st' = rd st ++ [c].
Proof.
  destruct st as [out lx]. intros (Hlx & Hall & Hadj) Hc. cbn [fst snd] in Hlx, Hall, Hadj.
  assert (Hpush : forall t, addr_tok t = true -> is_word t = false -> unq1 t = [c] ->
            exists st', Some (t :: out, LTop) = Some st' /\ good st' /\ rd st' = rd (out, LTop) ++ [c]).
  { intros t Ht Hw Hu. exists (t :: out, LTop). split; [reflexivity|]. split.
    - unfold good. cbn [fst snd lx_ok forallb no_adj]. rewrite Ht, Hall, Hw. cbn [andb negb].
      split; [reflexivity|]. split; [reflexivity|]. exact (no_adj_weaken _ _ Hadj).
    - unfold rd. cbn [fst snd rev]. rewrite !app_nil_r, unquote_app. unfold unquote at 2. cbn [flat_map].
      rewrite Hu. reflexivity. }
  assert (Hpush2 : forall racc t, addr_tok t = true -> is_word t = false -> unq1 t = [c] ->
            exists st', Some (t :: mk_atom racc :: out, LTop) = Some st' /\ good st' /\ rd st' = rd (out, LAtom racc false) ++ [c]).
  { intros racc t Ht Hw Hu. exists (t :: mk_atom racc :: out, LTop). split; [reflexivity|]. split.
    - unfold good. cbn [fst snd lx_ok forallb no_adj]. rewrite Ht, Hall, Hw, addr_tok_mk_atom, is_word_mk_atom, Hadj. 
      cbn [andb negb]. split; [reflexivity|]. split; reflexivity.
    - unfold rd. cbn [fst snd rev]. rewrite app_nil_r, !unquote_app, <- !app_assoc. f_equal.
      unfold unquote. cbn [flat_map]. rewrite Hu, unq1_mk_atom, !app_nil_r. reflexivity. }
  destruct (N.eqb_spec c 64) as [E64|N64].
  { subst c. destruct lx as [| | | |racc esc]; try discriminate Hlx.
    - cbn [lex_step]. rewrite top_step_at. apply Hpush; reflexivity.
    - destruct esc; [discriminate Hlx|]. cbn [lex_step]. change (atomok 64) with false. cbn iota. rewrite top_step_at.
      apply Hpush2; reflexivity. }
  rewrite orb_false_r in Hc.
  destruct (N.eqb_spec c 46) as [E46|N46].
  { subst c. destruct lx as [| | | |racc esc]; try discriminate Hlx.
    - cbn [lex_step]. rewrite top_step_dot. apply Hpush; reflexivity.
    - destruct esc; [discriminate Hlx|]. cbn [lex_step]. change (atomok 46) with false. cbn iota. rewrite top_step_dot.
      apply Hpush2; reflexivity. }
  destruct lx as [| | | |racc esc]; try discriminate Hlx.
  - cbn [lex_step]. rewrite (top_step_ok out c Hc N46). exists (out, LAtom [c] false). split; [reflexivity|]. split.
    + unfold good. cbn [fst snd lx_ok]. auto.
    + unfold rd. cbn [fst snd rev app]. rewrite app_nil_r. reflexivity.
  - destruct esc; [discriminate Hlx|]. cbn [lex_step]. rewrite (atomok_ok c Hc N46), (okch_eqb c 92 eq_refl Hc).
    exists (out, LAtom (c :: racc) false). split; [reflexivity|]. split.
    + unfold good. cbn [fst snd lx_ok]. auto.
    + unfold rd. cbn [fst snd rev]. rewrite app_assoc. reflexivity.
Qed.

Lemma good_run s : forall st, good st -> forallb (fun c => okch c || (c =? 64)) s = true ->
  exists st', lex_run st s = Some st' /\ good st' /\ rd st' = rd st ++ s.
Proof.
  induction s as [|c s IH]; intros st Hg Hs.
  - exists st. rewrite app_nil_r. auto.
  - cbn [forallb] in Hs. apply andb_true_iff in Hs as [Hc Hs].
    destruct (good_step st c Hg Hc) as (st1 & Hstep & Hg1 & Hrd1).
    destruct (IH st1 Hg1 Hs) as (st' & Hrun & Hg' & Hrd').
    exists st'. cbn [lex_run]. rewrite Hstep. split; [exact Hrun|]. split; [exact Hg'|].
    rewrite Hrd', Hrd1, <- app_assoc. reflexivity.
Qed.

Lemma good_end st : good st ->
  exists ts, lex_end st = Some ts /\ unquote ts = rd st /\ forallb addr_tok ts = true /\ no_adj false ts = true.
Proof.
  destruct st as [out lx]. intros (Hlx & Hall & Hadj). cbn [fst snd] in Hlx, Hall, Hadj.
  destruct lx as [| | | |racc esc]; try discriminate Hlx.
  - exists (rev out). unfold lex_end, rd. cbn [fst snd]. rewrite <- rev_alt, app_nil_r.
    split; [reflexivity|]. split; [reflexivity|]. split; [apply forallb_rev, Hall|].
    apply no_adj_rev. exact (no_adj_weaken _ _ Hadj).
  - exists (rev (mk_atom racc :: out)). unfold lex_end, rd. cbn [fst snd]. rewrite <- rev_alt.
    split; [reflexivity|]. split; [|split].
    + cbn [rev]. rewrite unquote_app. unfold unquote at 2. cbn [flat_map]. rewrite unq1_mk_atom, app_nil_r. reflexivity.
    + apply forallb_rev. cbn [forallb]. rewrite addr_tok_mk_atom, Hall. reflexivity.
    + apply no_adj_rev. cbn [no_adj andb negb]. rewrite is_word_mk_atom. exact Hadj.
Qed.

(* inside the quoted string written by quote() *)
Lemma lex_quoted l : forall out racc r,
  lex_run (out, LQuote racc false) (flat_map qesc l ++ r) = lex_run (out, LQuote (rev_append l racc) false) r.
Proof.
  induction l as [|c l IH]; intros out racc r; [reflexivity|]. cbn [flat_map rev_append]. rewrite <- app_assoc.
  unfold qesc at 1. destruct ((c =? CR) || (c =? LF) || (c =? DQ) || (c =? BSL)) eqn:E.
  - unfold BSL. cbn [app lex_run lex_step]. change (92 =? 34) with false. change (92 =? 92) with true. cbn iota. apply IH.
  - apply orb_false_iff in E as [E Hb]. apply orb_false_iff in E as [_ Hq]. unfold DQ in Hq. unfold BSL in Hb.
    cbn [app lex_run lex_step]. rewrite Hq, Hb. apply IH.
Qed.

Lemma ok_or_at_dom d : dom_ok d -> forallb (fun c => okch c || (c =? 64)) d = true.
Proof. apply forallb_imp. intros x Hx. rewrite Hx. reflexivity. Qed.

Lemma quote2_at l d : dom_ok d -> quote2 (l ++ [64] ++ d) = quote l ++ 64 :: d.
Proof.
  intros Hd. unfold quote2. cbn [app]. destruct (l ++ 64 :: d) as [|x0 s0] eqn:Es.
  - destruct l; discriminate Es.
  - rewrite <- Es. rewrite (rchr_at_app l d (okch_has 64 d eq_refl Hd)), firstn_len, skipn_len. reflexivity.
Qed.

Theorem header_quote_roundtrip_l : forall l d, dom_ok d -> d <> [] ->
  exists ts, parse (quote2 (l ++ [64] ++ d)) = Some ts /\ unquote ts = l ++ [64] ++ d /\ simple_addr ts.
Proof.
  intros l d Hd _. rewrite (quote2_at l d Hd). unfold parse.
  assert (Hmain : exists st, lex_run ([], LTop) (quote l ++ 64 :: d) = Some st /\ good st /\ rd st = l ++ 64 :: d).
  { unfold quote. destruct (quote_need l) eqn:E.
    - unfold doit, DQ. cbn [app lex_run lex_step]. rewrite top_step_dq, <- app_assoc, lex_quoted.
      cbn [app lex_run lex_step]. change (34 =? 34) with true. cbn iota. cbn [lex_step]. rewrite top_step_at.
      rewrite <- !rev_alt, rev_involutive.
      assert (Hg : good ([TAt; TQuote l], LTop)) by (repeat split).
      destruct (good_run d _ Hg (ok_or_at_dom d Hd)) as (st & Hrun & Hg' & Hrd).
      exists st. split; [exact Hrun|]. split; [exact Hg'|]. rewrite Hrd. unfold rd, unquote. cbn [fst snd rev app flat_map unq1].
      rewrite !app_nil_r, <- app_assoc. reflexivity.
    - apply quote_need_false in E as [Hok _].
      assert (Hg : good ([], LTop)) by (repeat split).
      assert (Hs : forallb (fun c => okch c || (c =? 64)) (l ++ 64 :: d) = true).
      { rewrite forallb_app. rewrite (ok_or_at_dom l Hok). cbn [forallb andb]. rewrite (ok_or_at_dom d Hd). reflexivity. }
      destruct (good_run _ _ Hg Hs) as (st & Hrun & Hg' & Hrd).
      exists st. split; [exact Hrun|]. split; [exact Hg'|]. rewrite Hrd. reflexivity. }
  destruct Hmain as (st & Hrun & Hg & Hrd). rewrite Hrun.
  destruct (good_end st Hg) as (ts & Hend & Hu & Hall & Hadj).
  exists ts. split; [exact Hend|]. split; [rewrite Hu; exact Hrd|]. split; [exact Hall|]. split; [exact Hadj|].
  intros ->. rewrite Hrd in Hu. destruct l; discriminate Hu.
Qed.
Print Assumptions header_quote_roundtrip_l.

(* ---------------------------------------------------------------- (c) header address round trip *)
Theorem header_address_roundtrip_l : forall l d n c, dom_ok d -> d <> [] ->
  exists ts, parse (quote2 (l ++ [64] ++ d)) = Some ts /\
    snd (addrlist (fun a => a) (n :: c :: ts)) = [rev ts] /\ addr_string (rev ts) = l ++ [64] ++ d.
Proof.
  intros l d n c Hd Hne. destruct (header_quote_roundtrip_l l d Hd Hne) as (ts & Hp & Hu & Hs).
  exists ts. split; [exact Hp|]. split.
  - rewrite (addrlist_simple_l (fun a => a) n c ts Hs). reflexivity.
  - unfold addr_string. rewrite rev_involutive. exact Hu.
Qed.
Print Assumptions header_address_roundtrip_l.

(* ---------------------------------------------------------------- (d) doheaderfield *)
Lemma kind_none h : kind_of h = FNone ->
  Nat.eqb h H_FROM = false /\ Nat.eqb h H_RETURNPATH = false /\ Nat.eqb h H_BCC = false /\ Nat.eqb h H_R_BCC = false.
Proof.
  intros H.
  split; [|split; [|split]].
  - destruct (Nat.eqb_spec h H_FROM) as [E|_]; [subst h; vm_compute in H; discriminate H|reflexivity].
  - destruct (Nat.eqb_spec h H_RETURNPATH) as [E|_]; [subst h; vm_compute in H; discriminate H|reflexivity].
  - destruct (Nat.eqb_spec h H_BCC) as [E|_]; [subst h; vm_compute in H; discriminate H|reflexivity].
  - destruct (Nat.eqb_spec h H_R_BCC) as [E|_]; [subst h; vm_compute in H; discriminate H|reflexivity].
Qed.

Theorem bcc_removed_l : forall c fl st h st', doheaderfield c fl st h = Some st' ->
  (hfield_known h = H_BCC \/ hfield_known h = H_R_BCC) -> i_saved st' = i_saved st.
Proof.
  intros c fl st h st' H Hb. unfold doheaderfield in H.
  assert (Hdrop : Nat.eqb (hfield_known h) H_BCC || Nat.eqb (hfield_known h) H_R_BCC || Nat.eqb (hfield_known h) H_RETURNPATH
                  || Nat.eqb (hfield_known h) H_CONTENTLENGTH = true).
  { destruct Hb as [E|E]; rewrite E; reflexivity. }
  rewrite Hdrop in H. clear Hdrop.
  destruct ((f_delfrom fl && Nat.eqb (hfield_known h) H_FROM) || (f_delmessid fl && Nat.eqb (hfield_known h) H_MESSAGEID)
            || (f_delsender fl && Nat.eqb (hfield_known h) H_RETURNPATH)).
  { injection H as <-. reflexivity. }
  destruct (Nat.eqb (hfield_known h) 0 && negb (hfield_valid h)); [discriminate H|].
  destruct (kind_of (hfield_known h));
    try (injection H as <-; reflexivity);
    (destruct (parse h) as [ts|];
     [destruct (addrlist (rwgeneric c) ts) as [[out|] calls]|];
     try discriminate H; injection H as <-; reflexivity).
Qed.
Print Assumptions bcc_removed_l.

Theorem other_fields_kept_l : forall c fl st h st', doheaderfield c fl st h = Some st' ->
  kind_of (hfield_known h) = FNone -> hfield_known h <> H_CONTENTLENGTH ->
  (f_delmessid fl && Nat.eqb (hfield_known h) H_MESSAGEID = false) ->
  i_saved st' = i_saved st ++ [h] /\ i_hr st' = i_hr st /\ i_hrr st' = i_hrr st.
Proof.
  intros c fl st h st' H Hk Hcl Hm. unfold doheaderfield in H.
  destruct (kind_none _ Hk) as (Hfrom & Hrp & Hbcc & Hrbcc).
  rewrite Hk, Hm, Hfrom, Hrp, Hbcc, Hrbcc, (proj2 (Nat.eqb_neq _ _) Hcl), !andb_false_r in H. cbn [orb] in H.
  destruct (Nat.eqb (hfield_known h) 0 && negb (hfield_valid h)); [discriminate H|].
  injection H as <-. cbn [i_saved i_hr i_hrr]. rewrite !app_nil_r. auto.
Qed.
Print Assumptions other_fields_kept_l.

(* the remaining components are untouched as well *)
Theorem other_fields_kept_full_l : forall c fl st h st', doheaderfield c fl st h = Some st' ->
  kind_of (hfield_known h) = FNone -> hfield_known h <> H_CONTENTLENGTH ->
  (f_delmessid fl && Nat.eqb (hfield_known h) H_MESSAGEID = false) ->
  i_tocc st' = i_tocc st /\ i_sender st' = i_sender st /\
  i_seen st' = (if Nat.eqb (hfield_known h) 0 then i_seen st else hfield_known h :: i_seen st).
Proof.
  intros c fl st h st' H Hk Hcl Hm. unfold doheaderfield in H.
  destruct (kind_none _ Hk) as (Hfrom & Hrp & Hbcc & Hrbcc).
  rewrite Hk, Hm, Hfrom, Hrp, Hbcc, Hrbcc, (proj2 (Nat.eqb_neq _ _) Hcl), !andb_false_r in H. cbn [orb] in H.
  destruct (Nat.eqb (hfield_known h) 0 && negb (hfield_valid h)); [discriminate H|].
  injection H as <-. cbn [i_tocc i_sender i_seen]. rewrite !app_nil_r. auto.
Qed.
Print Assumptions other_fields_kept_full_l.

(* ---------------------------------------------------------------- (e) rwgeneric *)
(* everything after the two special cases at the top of rwgeneric *)
Definition rwbody (c : icfg) (a : list tok) : list tok :=
  let a1 := rwroute a in match a1 with [] => [] | _ =>
  let a2 := rwextradot a1 in match a2 with [] => [] | _ =>
  let a3 := rwextraat a2 in match a3 with [] => [] | _ =>
  rwnodot c (rwplus c (rwnoat c a3)) end end end.
(* the "@[]" shape that rwgeneric leaves alone *)
Definition hack_shape (a : list tok) : bool :=
  match a with TLiteral [] :: TAt :: _ => true | _ => false end.
Lemma rwgeneric_body c a : a <> [] -> rwgeneric c a = if hack_shape a then a else rwbody c a.
Proof.
  intros Hne. destruct a as [|t a']; [contradiction|].
  destruct t as [s|s|s|s| | | | | | |]; try reflexivity.
  destruct s as [|x s]; [|reflexivity].
  destruct a' as [|t2 a'']; [reflexivity|].
  destruct t2 as [s2|s2|s2|s2| | | | | | |]; reflexivity.
Qed.

Definition plus_head (a : list tok) : bool :=
  match a with
  | TAtom s :: _ => match rev s with x :: _ => x =? 43 | [] => false end
  | _ => false
  end.
Definition head_dot_or_at (a : list tok) : bool := match a with t :: _ => is_dot t || is_at t | [] => false end.
Definition head_dot (a : list tok) : bool := match a with t :: _ => is_dot t | [] => false end.
Definition last_tok (a : list tok) : tok := last a TDot.

Lemma rev_last (a : list tok) : a <> [] -> rev a = last_tok a :: rev (removelast a).
Proof.
  intros Hne. rewrite (app_removelast_last TDot Hne) at 1. rewrite rev_app_distr. reflexivity.
Qed.
Lemma rwroute_id a : is_at (last_tok a) = false -> rwroute a = a.
Proof.
  intros H. destruct a as [|t a']; [reflexivity|]. unfold rwroute.
  rewrite (rev_last (t :: a')) by discriminate. rewrite H. reflexivity.
Qed.
Lemma rwplus_id c a : plus_head a = false -> rwplus c a = a.
Proof.
  intros H. destruct a as [|t a']; [reflexivity|]. destruct t as [s|s|s|s| | | | | | |]; try reflexivity.
  cbn [rwplus plus_head] in *. destruct (rev s) as [|x r]; [reflexivity|]. rewrite H. reflexivity.
Qed.
Lemma no_at_last a : a <> [] -> existsb is_at a = false -> is_at (last_tok a) = false.
Proof.
  unfold last_tok. induction a as [|t a IH]; [contradiction|]. intros _ H. cbn [existsb] in H.
  apply orb_false_iff in H as [Ht Ha]. destruct a as [|t2 a2]; [exact Ht|].
  change (last (t :: t2 :: a2) TDot) with (last (t2 :: a2) TDot). apply IH; [discriminate|exact Ha].
Qed.

(* a fully-qualified address passes through rwgeneric unchanged.  [a] is in callback order (textually last
   token first): it has an '@'; scanning from the textual end a '.' is met before the first '@'; it does not
   end (textually) in '.' or '@'; it does not begin (textually) with '@', i.e. no source route; and its
   textually last token is not an atom ending in '+'. *)
Theorem rwgeneric_fq_id_l : forall c a,
  existsb is_at a = true -> before_at is_dot a = true -> head_dot_or_at a = false ->
  is_at (last_tok a) = false -> plus_head a = false ->
  rwgeneric c a = a.
Proof.
  intros c a Hat Hdot Hhead Hlast Hplus.
  assert (Hne : a <> []) by (intros ->; discriminate Hat).
  rewrite (rwgeneric_body c a Hne). destruct (hack_shape a); [reflexivity|].
  unfold rwbody. rewrite (rwroute_id a Hlast).
  destruct a as [|t a']; [contradiction|].
  cbn [head_dot_or_at] in Hhead. apply orb_false_iff in Hhead as [Hd Ha].
  cbn [rwextradot]. rewrite Hd. cbn [rwextraat]. rewrite Ha.
  unfold rwnoat. rewrite Hat. rewrite (rwplus_id c _ Hplus). unfold rwnodot. rewrite Hdot. reflexivity.
Qed.
Print Assumptions rwgeneric_fq_id_l.

(* the "@[]" shape is returned unchanged whatever else holds *)
Theorem rwgeneric_hack_id_l : forall c a, hack_shape a = true -> rwgeneric c a = a.
Proof.
  intros c a H. assert (Hne : a <> []) by (intros ->; discriminate H).
  rewrite (rwgeneric_body c a Hne), H. reflexivity.
Qed.
Print Assumptions rwgeneric_hack_id_l.

(* the default-host rule: no '@' at all *)
Theorem rwgeneric_defaulthost_l : forall c a,
  existsb is_at a = false -> a <> [] -> head_dot a = false ->
  rwgeneric c a = rwnodot c (rwplus c (rev (c_defaulthost c) ++ a)).
Proof.
  intros c a Hat Hne Hd. rewrite (rwgeneric_body c a Hne).
  assert (Hh : hack_shape a = false).
  { destruct a as [|t a']; [reflexivity|]. destruct t as [s|s|s|s| | | | | | |]; try reflexivity.
    destruct s as [|x s]; [|reflexivity]. destruct a' as [|t2 a'']; [reflexivity|].
    destruct t2 as [s2|s2|s2|s2| | | | | | |]; try reflexivity. discriminate Hat. }
  rewrite Hh. unfold rwbody. rewrite (rwroute_id a (no_at_last a Hne Hat)).
  destruct a as [|t a']; [contradiction|].
  cbn [head_dot] in Hd. assert (Ha : is_at t = false).
  { cbn [existsb] in Hat. apply orb_false_iff in Hat as [Ht _]. exact Ht. }
  cbn [rwextradot]. rewrite Hd. cbn [rwextraat]. rewrite Ha.
  unfold rwnoat. rewrite Hat. reflexivity.
Qed.
Print Assumptions rwgeneric_defaulthost_l.
