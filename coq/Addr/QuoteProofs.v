(* C17: what qmail-remote sends in MAIL FROM:<...> / RCPT TO:<...> (addrmangle = quote() of the local
   part) is read back by qmail-smtpd's addrparse as exactly the original address. *)
From NQ Require Import Addr.Quote Smtp.Smtpd.
Local Open Scope N_scope.

Definition dom_ok (d : bytes) : Prop := forallb okch d = true.

(* ---------------------------------------------------------------- generic list facts *)
Lemma skipn_S_len {A} (p : list A) x r : skipn (S (length p)) (p ++ x :: r) = r.
Proof. induction p as [|a p IH]; [reflexivity|]. cbn [length app]. exact IH. Qed.
Lemma skipn_len {A} (p r : list A) : skipn (length p) (p ++ r) = r.
Proof. induction p as [|a p IH]; [reflexivity|]. cbn [length app skipn]. exact IH. Qed.
Lemma firstn_len {A} (p r : list A) : firstn (length p) (p ++ r) = p.
Proof. induction p as [|a p IH]; [reflexivity|]. cbn [length app firstn]. rewrite IH. reflexivity. Qed.
Lemma forallb_imp {A} (f g : A -> bool) (s : list A) :
  (forall x, f x = true -> g x = true) -> forallb f s = true -> forallb g s = true.
Proof.
  intros Hfg. induction s as [|a s IH]; [reflexivity|]. cbn [forallb]. intros H.
  apply andb_true_iff in H as [Ha Hs]. rewrite (Hfg a Ha), (IH Hs). reflexivity.
Qed.

(* ---------------------------------------------------------------- the ok[] table *)
Lemma okch_neq c x : okch x = false -> okch c = true -> c <> x.
Proof. intros Hx Hc E. subst c. congruence. Qed.
Lemma okch_has x d : okch x = false -> forallb okch d = true -> has x d = false.
Proof.
  intros Hx. induction d as [|c d IH]; [reflexivity|]. cbn [forallb has]. intros H.
  apply andb_true_iff in H as [Hc Hd]. rewrite (IH Hd).
  destruct (N.eqb_spec x c) as [E|E]; [|reflexivity]. subst c. congruence.
Qed.

(* bytes that copy_addr (terminator '>', outside quotes) copies unchanged *)
Definition plain (c : N) : bool := negb (c =? 62) && negb (c =? 92) && negb (c =? 34).
Lemma okch_plain c : okch c = true -> plain c = true.
Proof.
  intros H. unfold plain.
  destruct (N.eqb_spec c 62) as [E|_]; [exfalso; revert E; apply okch_neq; [reflexivity|exact H]|].
  destruct (N.eqb_spec c 92) as [E|_]; [exfalso; revert E; apply okch_neq; [reflexivity|exact H]|].
  destruct (N.eqb_spec c 34) as [E|_]; [exfalso; revert E; apply okch_neq; [reflexivity|exact H]|].
  reflexivity.
Qed.

Lemma quote_need_false s : quote_need s = false -> forallb okch s = true /\ s <> [].
Proof.
  destruct s as [|c s]; [discriminate|]. unfold quote_need. intros H.
  apply orb_false_iff in H as [H _]. apply orb_false_iff in H as [H _]. apply orb_false_iff in H as [H _].
  apply negb_false_iff in H. split; [exact H|discriminate].
Qed.

(* ---------------------------------------------------------------- the last '@' *)
Lemma rchr_at_none d : has 64 d = false -> rchr_at d = None.
Proof.
  induction d as [|c d IH]; [reflexivity|]. cbn [has rchr_at]. intros H.
  apply orb_false_iff in H as [Hc Hd]. rewrite (IH Hd). unfold ATq. rewrite N.eqb_sym, Hc. reflexivity.
Qed.
Lemma rchr_at_app l d : has 64 d = false -> rchr_at (l ++ 64 :: d) = Some (length l).
Proof.
  intros H. induction l as [|c l IH].
  - cbn [app rchr_at length]. rewrite (rchr_at_none d H). reflexivity.
  - cbn [app rchr_at length]. rewrite IH. reflexivity.
Qed.
Lemma rchr_opt_at s : rchr_opt s ATc = rchr_at s.
Proof. induction s as [|c s IH]; [reflexivity|]. cbn [rchr_opt rchr_at]. rewrite IH. reflexivity. Qed.
Lemma chr_opt_app p r : has 60 p = false -> chr_opt (p ++ 60 :: r) 60 = Some (length p).
Proof.
  induction p as [|c p IH]; [reflexivity|]. cbn [has app chr_opt length]. intros H.
  apply orb_false_iff in H as [Hc Hp]. rewrite N.eqb_sym, Hc, (IH Hp). reflexivity.
Qed.

(* ---------------------------------------------------------------- addrmangle *)
Theorem addrmangle_noat_l : forall s, rchr_at s = None -> addrmangle s = s.
Proof. intros s H. unfold addrmangle. rewrite H. reflexivity. Qed.

Lemma addrmangle_at l d : dom_ok d -> addrmangle (l ++ [64] ++ d) = quote l ++ 64 :: d.
Proof.
  intros Hd. unfold addrmangle. cbn [app].
  rewrite (rchr_at_app l d (okch_has 64 d eq_refl Hd)).
  rewrite firstn_len, skipn_S_len. reflexivity.
Qed.

(* ---------------------------------------------------------------- copy_addr *)
Lemma copy_plain s r : forallb plain s = true -> copy_addr (s ++ 62 :: r) 62 false false = s.
Proof.
  induction s as [|c s IH].
  - intros _. reflexivity.
  - cbn [forallb]. intros H. apply andb_true_iff in H as [Hc Hs]. unfold plain in Hc.
    apply andb_true_iff in Hc as [Hc H34]. apply andb_true_iff in Hc as [H62 H92].
    apply negb_true_iff in H34, H62, H92.
    cbn [app copy_addr]. rewrite H62, H92, H34. cbn [negb andb]. rewrite (IH Hs). reflexivity.
Qed.
Lemma copy_dq s q : copy_addr (34 :: s) 62 false q = copy_addr s 62 false (negb q).
Proof. destruct q; reflexivity. Qed.
Lemma copy_quoted l r term : copy_addr (flat_map qesc l ++ r) term false true = l ++ copy_addr r term false true.
Proof.
  induction l as [|c l IH]; [reflexivity|]. cbn [flat_map]. rewrite <- app_assoc. unfold qesc at 1.
  destruct ((c =? CR) || (c =? LF) || (c =? DQ) || (c =? BSL)) eqn:E.
  - unfold BSL. cbn [app copy_addr negb andb]. rewrite N.eqb_refl. rewrite IH. reflexivity.
  - apply orb_false_iff in E as [E Hb]. apply orb_false_iff in E as [_ Hq]. unfold DQ in Hq. unfold BSL in Hb.
    cbn [app copy_addr negb andb]. rewrite Hb, Hq, IH. reflexivity.
Qed.

Lemma quote_head l : exists c q, quote l = c :: q /\ c <> 64.
Proof.
  unfold quote. destruct (quote_need l) eqn:E.
  - exists DQ, (flat_map qesc l ++ [DQ]). split; [reflexivity|discriminate].
  - apply quote_need_false in E as [Hok Hne]. destruct l as [|c l]; [contradiction|].
    exists c, l. split; [reflexivity|]. cbn [forallb] in Hok. apply andb_true_iff in Hok as [Hc _].
    apply (okch_neq c 64 eq_refl Hc).
Qed.

Lemma plain_dom d : dom_ok d -> forallb plain (64 :: d) = true.
Proof. intros Hd. cbn [forallb]. rewrite (forallb_imp okch plain d okch_plain Hd). reflexivity. Qed.

Lemma copy_quote l d : dom_ok d -> copy_addr (quote l ++ 64 :: d ++ [62]) 62 false false = l ++ 64 :: d.
Proof.
  intros Hd. unfold quote. destruct (quote_need l) eqn:E.
  - unfold doit, DQ. cbn [app]. rewrite copy_dq. cbn [negb]. rewrite <- app_assoc, copy_quoted. f_equal.
    cbn [app]. rewrite copy_dq. cbn [negb].
    change (64 :: d ++ [62]) with ((64 :: d) ++ 62 :: []). apply copy_plain, plain_dom, Hd.
  - apply quote_need_false in E as [Hok _].
    replace (l ++ 64 :: d ++ [62]) with ((l ++ 64 :: d) ++ 62 :: []) by (rewrite <- app_assoc; reflexivity).
    apply copy_plain. rewrite forallb_app, (forallb_imp okch plain l okch_plain Hok). apply plain_dom, Hd.
Qed.

Lemma scanbracket_dom d : dom_ok d -> ip_scanbracket d = None.
Proof.
  intros Hd. destruct d as [|c d]; [reflexivity|]. cbn [ip_scanbracket].
  unfold dom_ok in Hd. cbn [forallb] in Hd. apply andb_true_iff in Hd as [Hc _].
  destruct (N.eqb_spec c 91) as [E|_]; [|reflexivity].
  exfalso. revert E. apply (okch_neq c 91 eq_refl Hc).
Qed.

(* ---------------------------------------------------------------- the round trip *)
Theorem smtp_quote_roundtrip_l : forall g p l d,
  has 60 p = false -> dom_ok d -> (length l + length d + 2 <= 900)%nat ->
  addrparse g (p ++ [60] ++ addrmangle (l ++ [64] ++ d) ++ [62]) = Some (l ++ [64] ++ d).
Proof.
  intros g p l d Hp Hd Hlen. rewrite (addrmangle_at l d Hd). unfold addrparse.
  cbn [app]. rewrite (chr_opt_app p _ Hp), skipn_S_len. rewrite <- app_assoc. cbn [app].
  assert (Ha2 : forall X : bytes, X = quote l ++ 64 :: d ++ [62] ->
            match X with c :: _ => if c =? ATc then skip_route X else X | [] => X end = X).
  { intros X EX. destruct (quote_head l) as (c & q & Eq & Hc). rewrite Eq in EX. cbn [app] in EX.
    rewrite EX. destruct (N.eqb_spec c ATc) as [E|_]; [contradiction|reflexivity]. }
  rewrite (Ha2 _ eq_refl). clear Ha2.
  rewrite (copy_quote l d Hd).
  assert (Hlip : match g_liphost g with
                 | None => l ++ 64 :: d
                 | Some lh =>
                   match rchr_opt (l ++ 64 :: d) ATc with
                   | None => l ++ 64 :: d
                   | Some i =>
                     match ip_scanbracket (skipn (S i) (l ++ 64 :: d)) with
                     | Some (ip, []) => if existsb (fun me => beq me ip) (g_ipme g) then firstn (S i) (l ++ 64 :: d) ++ lh else l ++ 64 :: d
                     | _ => l ++ 64 :: d
                     end
                   end
                 end = l ++ 64 :: d).
  { destruct (g_liphost g) as [lh|]; [|reflexivity].
    rewrite rchr_opt_at, (rchr_at_app l d (okch_has 64 d eq_refl Hd)), skipn_S_len, (scanbracket_dom d Hd). reflexivity. }
  rewrite Hlip.
  destruct (Nat.ltb_spec 900 (S (length (l ++ 64 :: d)))) as [H|H]; [|reflexivity].
  rewrite app_length in H. cbn [length] in H. lia.
Qed.
Print Assumptions smtp_quote_roundtrip_l.
Print Assumptions addrmangle_noat_l.
