(* quote.c: quote_need/quote/quote2; qmail-remote.c addrmangle.  Model only (C17). *)
From NQ Require Export Base.Bytes.
From Coq Require Export Arith.
Local Open Scope N_scope.

Definition DQ : N := 34.
Definition BSL : N := 92.
Definition ATq : N := 64.

(* the ok[] table of quote.c, as ranges *)
Definition okch (c : N) : bool :=
  (c =? 33) || ((35 <=? c) && (c <=? 39)) || (c =? 42) || (c =? 43) || ((45 <=? c) && (c <=? 57))
  || (c =? 61) || (c =? 63) || ((65 <=? c) && (c <=? 90)) || ((94 <=? c) && (c <=? 126)).

Fixpoint dotdot (s : bytes) : bool :=
  match s with
  | a :: ((b :: _) as s') => ((a =? DOT) && (b =? DOT)) || dotdot s'
  | _ => false
  end.
Definition quote_need (s : bytes) : bool :=
  match s with
  | [] => true
  | c :: _ => negb (forallb okch s) || (c =? DOT) || (last s 0 =? DOT) || dotdot s
  end.
Definition qesc (c : N) : bytes :=
  if (c =? CR) || (c =? LF) || (c =? DQ) || (c =? BSL) then [BSL; c] else [c].
Definition doit (s : bytes) : bytes := DQ :: flat_map qesc s ++ [DQ].
Definition quote (s : bytes) : bytes := if quote_need s then doit s else s.

(* index of the last '@' *)
Fixpoint rchr_at (s : bytes) : option nat :=
  match s with
  | [] => None
  | x :: s' => match rchr_at s' with
               | Some i => Some (S i)
               | None => if x =? ATq then Some 0%nat else None
               end
  end.
(* quote2(): s is a C string *)
Definition quote2 (s : bytes) : bytes :=
  match s with
  | [] => []
  | _ => match rchr_at s with
         | None => quote s
         | Some j => quote (firstn j s) ++ skipn j s
         end
  end.
(* qmail-remote.c addrmangle() *)
Definition addrmangle (s : bytes) : bytes :=
  match rchr_at s with
  | None => s
  | Some j => quote (firstn j s) ++ [ATq] ++ skipn (S j) s
  end.
