(* C17: token822_addrlist on address lists WITH RFC 822 groups  ( phrase : mailbox, mailbox, ... ; ).
   The callback is called exactly once per mailbox, members of groups included, right to left; the group
   syntax is copied to the output unchanged, every address is replaced by what the callback returned.

   The machine copies a group's display name token by token until the next TComma (or the start of the
   range), so the exact class of names for which it behaves is: ANY token list without a TComma (it may be
   empty and may even contain ':', ';', '<', '>').  RFC 822 phrases (words and comments) are in that class. *)
From NQ Require Import Addr.Tok Addr.Inject822 Addr.TokProofs Addr.GrammarProofs.
Local Open Scope N_scope.

Inductive entry :=
  | EItem (it : item)
  | EGroup (name : list tok) (members : list item).      (* name : members ;   (members may be []) *)

Notation notcomma := (fun t : tok => match t with TComma => false | _ => true end) (only parsing).

(* tokens of one entry as they stand in the field *)
Definition entry_toks (e : entry) : list tok :=
  match e with
  | EItem it => item_toks it
  | EGroup name ms => name ++ [TColon] ++ render ms ++ [TSemi]
  end.
(* the addresses the callback must see, left to right *)
Definition entry_addrs (e : entry) : list (list tok) :=
  match e with EItem it => [item_addr it] | EGroup _ ms => map item_addr ms end.
Definition entry_ok (e : entry) : Prop :=
  match e with
  | EItem it => item_ok it
  | EGroup name ms => forallb notcomma name = true /\ Forall item_ok ms
  end.
(* entries separated by commas *)
Definition render_entries (es : list entry) : list tok := join (map entry_toks es).

Lemma render_entries_cons2 e e2 es :
  render_entries (e :: e2 :: es) = entry_toks e ++ TComma :: render_entries (e2 :: es).
Proof. reflexivity. Qed.
Lemma render_entries_items its : render_entries (map EItem its) = render its.
Proof. unfold render_entries. rewrite map_map, render_join. reflexivity. Qed.

(* an RFC 822 phrase (words and comments) is an admissible group name *)
Lemma phrase_name_ok name : forallb (fun t => is_word t || is_comment t) name = true -> forallb notcomma name = true.
Proof.
  induction name as [|t name IH]; [reflexivity|]. cbn [forallb]. intros H. apply andb_true_iff in H as [Ht H].
  rewrite (IH H). destruct t; try discriminate Ht; reflexivity.
Qed.

(* the rewritten entry *)
Definition entry_new (cb : list tok -> list tok) (e : entry) : list tok :=
  match e with
  | EItem it => item_new cb it
  | EGroup name ms => name ++ [TColon] ++ render_new cb ms ++ [TSemi]
  end.
Definition render_entries_new (cb : list tok -> list tok) (es : list entry) : list tok := join (map (entry_new cb) es).

(* ---------------------------------------------------------------- the machine, any value of ingroup *)
Definition Sg (g : bool) (o acc : list tok) (w : bool) (m : amode) (calls : list (list tok)) : ast :=
  {| a_out := o; a_addr := acc; a_ingroup := g; a_wordok := w; a_mode := m; a_calls := calls |}.

Section GMachine.
Variable cb : list tok -> list tok.

Lemma plain_run_g g : forall rts o acc w calls,
  forallb (fun t => addr_tok t || is_comment t) rts = true ->
  no_adj (negb w) (filter nc rts) = true ->
  addr_run cb (Sg g o acc w MNormal calls) rts
  = (Sg g (o ++ filter is_comment rts) (acc ++ filter nc rts) (wend w (filter nc rts)) MNormal calls, true).
Proof.
  induction rts as [|t rts IH]; intros o acc w calls Hall Hadj.
  - cbn [filter wend]. rewrite !app_nil_r. reflexivity.
  - cbn [forallb] in Hall. apply andb_true_iff in Hall as [Ht Hall]. cbn [filter] in Hadj |- *.
    destruct (is_comment t) eqn:Ec; cbn [negb] in Hadj |- *.
    + destruct t as [s|s|s|s| | | | | | |]; try discriminate Ec.
      cbn [addr_run].
      change (addr_step cb (Sg g o acc w MNormal calls) (TComment s)) with (Sg g (o ++ [TComment s]) acc w MNormal calls, true).
      cbv beta iota. rewrite (IH (o ++ [TComment s]) acc w calls Hall Hadj), <- app_assoc. reflexivity.
    + rewrite orb_false_r in Ht.
      cbn [no_adj] in Hadj. apply andb_true_iff in Hadj as [Hw Hadj]. apply negb_true_iff in Hw.
      assert (Hstep : addr_step cb (Sg g o acc w MNormal calls) t = (Sg g o (acc ++ [t]) (negb (is_word t)) MNormal calls, true)).
      { destruct t as [s|s|s|s| | | | | | |]; try discriminate Ht; try reflexivity;
          (cbn [is_word] in Hw; rewrite andb_true_r in Hw; apply negb_false_iff in Hw; subst w; reflexivity). }
      rewrite <- (negb_involutive (is_word t)) in Hadj.
      cbn [addr_run wend]. rewrite Hstep, (IH o (acc ++ [t]) (negb (is_word t)) calls Hall Hadj), <- app_assoc. reflexivity.
Qed.

Lemma angle_run_g g : forall rts o acc w calls, forallb notleft rts = true ->
  addr_run cb (Sg g o acc w MAngle calls) rts = (Sg g o (acc ++ rts) w MAngle calls, true).
Proof.
  induction rts as [|t rts IH]; intros o acc w calls Hall.
  - rewrite app_nil_r. reflexivity.
  - cbn [forallb] in Hall. apply andb_true_iff in Hall as [Ht Hall]. cbn [addr_run].
    assert (Hstep : addr_step cb (Sg g o acc w MAngle calls) t = (Sg g o (acc ++ [t]) w MAngle calls, true)).
    { destruct t as [s|s|s|s| | | | | | |]; try discriminate Ht; reflexivity. }
    rewrite Hstep, (IH o (acc ++ [t]) w calls Hall), <- app_assoc. reflexivity.
Qed.

Lemma phrase_run_g g : forall rts o w calls, forallb phrase_tok rts = true ->
  addr_run cb (Sg g o [] w MPhrase calls) rts = (Sg g (o ++ rts) [] w MPhrase calls, true).
Proof.
  induction rts as [|t rts IH]; intros o w calls Hall.
  - rewrite app_nil_r. reflexivity.
  - cbn [forallb] in Hall. apply andb_true_iff in Hall as [Ht Hall]. cbn [addr_run].
    assert (Hstep : addr_step cb (Sg g o [] w MPhrase calls) t = (Sg g (o ++ [t]) [] w MPhrase calls, true)).
    { unfold addr_step. cbn [Sg a_mode]. rewrite Ht. reflexivity. }
    rewrite Hstep, (IH (o ++ [t]) w calls Hall), <- app_assoc. reflexivity.
Qed.

(* the group's display name: everything but a comma is copied out *)
Lemma name_run g : forall rts o w calls, forallb notcomma rts = true ->
  addr_run cb (Sg g o [] w MGroupName calls) rts = (Sg g (o ++ rts) [] w MGroupName calls, true).
Proof.
  induction rts as [|t rts IH]; intros o w calls Hall.
  - rewrite app_nil_r. reflexivity.
  - cbn [forallb] in Hall. apply andb_true_iff in Hall as [Ht Hall]. cbn [addr_run].
    assert (Hstep : addr_step cb (Sg g o [] w MGroupName calls) t = (Sg g (o ++ [t]) [] w MGroupName calls, true)).
    { destruct t as [s|s|s|s| | | | | | |]; try discriminate Ht; reflexivity. }
    rewrite Hstep, (IH (o ++ [t]) w calls Hall), <- app_assoc. reflexivity.
Qed.

(* states between the items of a list (ingroup = g): not inside <>, nothing pending while copying a phrase *)
Definition mstate (g : bool) (a : ast) : Prop :=
  a_ingroup a = g /\ (a_mode a = MNormal \/ (a_mode a = MPhrase /\ a_addr a = [])).

Lemma item_run_g it g o calls : item_ok it ->
  exists a', addr_run cb (Sg g o [] true MNormal calls) (rev (item_toks it)) = (a', true) /\ mstate g a'
             /\ a_out (flush cb a') = o ++ item_out cb it /\ a_calls (flush cb a') = cb (item_addr it) :: calls.
Proof.
  destruct it as [a|p a]; cbn [item_ok item_toks].
  - intros ((Hall & Hadj & Hne) & Hac).
    assert (Hrun := plain_run_g g (rev a) o [] true calls (forallb_rev _ _ Hac)).
    rewrite (filter_rev_l (fun t : tok => negb (is_comment t)) a) in Hrun.
    specialize (Hrun (no_adj_rev _ Hadj)). cbn [app] in Hrun.
    rewrite Hrun. eexists. split; [reflexivity|].
    assert (Hne' : rev (filter (fun t : tok => negb (is_comment t)) a) <> []).
    { intros H. apply Hne. rewrite <- (rev_involutive (filter _ a)), H. reflexivity. }
    split; [split; [reflexivity|left; reflexivity]|].
    rewrite flush_ne by exact Hne'. unfold gotaddr, Sg. cbn [a_out a_addr a_calls item_out item_addr].
    rewrite <- app_assoc. split; reflexivity.
  - intros (Hp & Ha).
    rewrite !rev_app_distr. cbn [rev app]. rewrite <- app_assoc. cbn [app].
    cbn [addr_run].
    change (addr_step cb (Sg g o [] true MNormal calls) TRight) with (Sg g (o ++ [TRight]) [] true MAngle calls, true).
    cbv beta iota. rewrite addr_run_app, (angle_run_g g (rev a) _ [] true calls (forallb_rev _ _ Ha)). cbn [app addr_run].
    change (addr_step cb (Sg g (o ++ [TRight]) (rev a) true MAngle calls) TLeft)
      with (Sg g (((o ++ [TRight]) ++ cb (rev a)) ++ [TLeft]) [] true MPhrase (cb (rev a) :: calls), true).
    cbv beta iota. rewrite (phrase_run_g g (rev p) _ true _ (forallb_rev _ _ Hp)).
    eexists. split; [reflexivity|]. split; [split; [reflexivity|right; split; reflexivity]|].
    split; [|reflexivity]. unfold flush, Sg. cbn [a_addr a_out item_out]. rewrite <- !app_assoc. reflexivity.
Qed.

(* the three boundary tokens, read in a state between items *)
Lemma comma_step_g g a : mstate g a ->
  addr_step cb a TComma = (Sg g (a_out (flush cb a) ++ [TComma]) [] true MNormal (a_calls (flush cb a)), true).
Proof.
  destruct a as [o acc ig w m calls]. unfold mstate. cbn [a_ingroup a_mode a_addr].
  intros (-> & [-> | [-> ->]]).
  - destruct acc as [|t0 r0]; reflexivity.
  - reflexivity.
Qed.
(* ':' inside a group: flush the leftmost member, leave the group, start copying the name *)
Lemma colon_step_in a : mstate true a ->
  exists w, addr_step cb a TColon = (Sg false (a_out (flush cb a) ++ [TColon]) [] w MGroupName (a_calls (flush cb a)), true).
Proof.
  destruct a as [o acc ig w m calls]. unfold mstate. cbn [a_ingroup a_mode a_addr].
  intros (-> & [-> | [-> ->]]).
  - destruct acc as [|t0 r0]; eexists; reflexivity.
  - eexists; reflexivity.
Qed.
(* ':' outside a group and ';' inside one: return 0 *)
Lemma colon_step_out a : mstate false a -> snd (addr_step cb a TColon) = false.
Proof.
  destruct a as [o acc ig w m calls]. unfold mstate. cbn [a_ingroup a_mode a_addr].
  intros (-> & [-> | [-> ->]]).
  - destruct acc as [|t0 r0]; reflexivity.
  - reflexivity.
Qed.
Lemma semi_step_in a : mstate true a -> snd (addr_step cb a TSemi) = false.
Proof.
  destruct a as [o acc ig w m calls]. unfold mstate. cbn [a_ingroup a_mode a_addr].
  intros (-> & [-> | [-> ->]]).
  - destruct acc as [|t0 r0]; reflexivity.
  - reflexivity.
Qed.

(* items in processing order (right to left); the list may be empty *)
Lemma items_run_g g : forall ris, Forall item_ok ris -> forall o calls,
  exists a', addr_run cb (Sg g o [] true MNormal calls) (join (map (fun it => rev (item_toks it)) ris)) = (a', true)
    /\ mstate g a'
    /\ a_out (flush cb a') = o ++ join (map (item_out cb) ris)
    /\ a_calls (flush cb a') = rev (map (fun it => cb (item_addr it)) ris) ++ calls.
Proof.
  induction ris as [|it ris IH]; intros Hok o calls.
  - eexists. split; [reflexivity|]. split; [split; [reflexivity|left; reflexivity]|].
    cbn [map join rev app]. rewrite app_nil_r. split; reflexivity.
  - apply Forall_cons_iff in Hok as [Hit Hok].
    destruct (item_run_g it g o calls Hit) as (a1 & Hrun1 & Hst1 & Ho1 & Hc1).
    destruct ris as [|it2 ris2].
    + exists a1. cbn [map join rev app]. split; [exact Hrun1|]. split; [exact Hst1|]. split; [exact Ho1|exact Hc1].
    + cbn [map]. rewrite !join_cons2. rewrite addr_run_app, Hrun1. cbn [addr_run]. rewrite (comma_step_g g a1 Hst1).
      destruct (IH Hok (a_out (flush cb a1) ++ [TComma]) (a_calls (flush cb a1))) as (a' & Hrun & Hm & Ho & Hc).
      exists a'. split; [exact Hrun|]. split; [exact Hm|]. split.
      * rewrite Ho, Ho1. cbn [map]. rewrite <- !app_assoc. reflexivity.
      * rewrite Hc, Hc1. cbn [map rev]. rewrite <- !app_assoc. reflexivity.
Qed.

(* ---------------------------------------------------------------- entries *)
(* what one entry contributes to taout (append order, i.e. right to left) *)
Definition entry_out (e : entry) : list tok :=
  match e with
  | EItem it => item_out cb it
  | EGroup name ms => TSemi :: join (map (item_out cb) (rev ms)) ++ TColon :: rev name
  end.
(* states between entries: outside any group; a group's name may still be being copied *)
Definition estate (a : ast) : Prop :=
  a_ingroup a = false /\
  (a_mode a = MNormal \/ (a_mode a = MPhrase /\ a_addr a = []) \/ (a_mode a = MGroupName /\ a_addr a = [])).

Lemma rev_render ms : rev (render ms) = join (map (fun it => rev (item_toks it)) (rev ms)).
Proof. rewrite render_join, rev_join, <- map_rev, map_map. reflexivity. Qed.

Lemma rev_group_toks name ms :
  rev (entry_toks (EGroup name ms)) = TSemi :: rev (render ms) ++ TColon :: rev name.
Proof.
  cbn [entry_toks]. rewrite !rev_app_distr. cbn [rev app]. rewrite <- app_assoc. reflexivity.
Qed.

Lemma entry_run e o calls : entry_ok e ->
  exists a', addr_run cb (Sg false o [] true MNormal calls) (rev (entry_toks e)) = (a', true) /\ estate a'
             /\ a_out (flush cb a') = o ++ entry_out e /\ a_calls (flush cb a') = map cb (entry_addrs e) ++ calls.
Proof.
  destruct e as [it|name ms]; cbn [entry_ok].
  - intros Hit. destruct (item_run_g it false o calls Hit) as (a1 & Hrun1 & (Hg & Hm) & Ho1 & Hc1).
    exists a1. split; [exact Hrun1|]. split.
    + split; [exact Hg|]. destruct Hm as [Hm|Hm]; [left; exact Hm|right; left; exact Hm].
    + split; [exact Ho1|exact Hc1].
  - intros (Hname & Hms).
    rewrite rev_group_toks, rev_render. cbn [addr_run].
    change (addr_step cb (Sg false o [] true MNormal calls) TSemi) with (Sg true (o ++ [TSemi]) [] true MNormal calls, true).
    cbv beta iota.
    destruct (items_run_g true (rev ms) (Forall_rev Hms) (o ++ [TSemi]) calls) as (a1 & Hrun1 & Hst1 & Ho1 & Hc1).
    rewrite addr_run_app, Hrun1. cbn [addr_run].
    destruct (colon_step_in a1 Hst1) as (w & Hstep). rewrite Hstep, Ho1, Hc1.
    rewrite (name_run false (rev name) _ w _ (forallb_rev _ _ Hname)).
    eexists. split; [reflexivity|]. split; [split; [reflexivity|right; right; split; reflexivity]|].
    unfold flush, Sg. cbn [a_addr a_out a_calls entry_out entry_addrs]. split.
    + rewrite <- !app_assoc. reflexivity.
    + rewrite <- map_rev, rev_involutive, map_map. reflexivity.
Qed.

(* the comma between two entries: for a group it is the one that ends the copy of the name *)
Lemma comma_step_e a : estate a ->
  addr_step cb a TComma = (Sg false (a_out (flush cb a) ++ [TComma]) [] true MNormal (a_calls (flush cb a)), true).
Proof.
  destruct a as [o acc ig w m calls]. unfold estate. cbn [a_ingroup a_mode a_addr].
  intros (-> & [-> | [[-> ->] | [-> ->]]]).
  - destruct acc as [|t0 r0]; reflexivity.
  - reflexivity.
  - reflexivity.
Qed.

(* entries in processing order (right to left) *)
Lemma entries_run : forall res, Forall entry_ok res -> forall o calls,
  exists a', addr_run cb (Sg false o [] true MNormal calls) (join (map (fun e => rev (entry_toks e)) res)) = (a', true)
    /\ estate a'
    /\ a_out (flush cb a') = o ++ join (map entry_out res)
    /\ a_calls (flush cb a') = map cb (flat_map entry_addrs (rev res)) ++ calls.
Proof.
  induction res as [|e res IH]; intros Hok o calls.
  - eexists. split; [reflexivity|]. split; [split; [reflexivity|left; reflexivity]|].
    cbn [map join rev flat_map app]. rewrite app_nil_r. split; reflexivity.
  - apply Forall_cons_iff in Hok as [He Hok].
    destruct (entry_run e o calls He) as (a1 & Hrun1 & Hst1 & Ho1 & Hc1).
    destruct res as [|e2 res2].
    + exists a1. cbn [map join rev app flat_map]. rewrite app_nil_r.
      split; [exact Hrun1|]. split; [exact Hst1|]. split; [exact Ho1|exact Hc1].
    + cbn [map]. rewrite !join_cons2. rewrite addr_run_app, Hrun1. cbn [addr_run]. rewrite (comma_step_e a1 Hst1).
      destruct (IH Hok (a_out (flush cb a1) ++ [TComma]) (a_calls (flush cb a1))) as (a' & Hrun & Hm & Ho & Hc).
      exists a'. split; [exact Hrun|]. split; [exact Hm|]. split.
      * rewrite Ho, Ho1. cbn [map]. rewrite <- !app_assoc. reflexivity.
      * rewrite Hc, Hc1. change (rev (e :: e2 :: res2)) with (rev (e2 :: res2) ++ [e]).
        rewrite flat_map_app, map_app. cbn [flat_map]. rewrite app_nil_r, <- app_assoc. reflexivity.
Qed.

Lemma rev_entry_out e : rev (entry_out e) = entry_new cb e.
Proof.
  destruct e as [it|name ms]; cbn [entry_out entry_new].
  - apply rev_item_out.
  - cbn [rev]. rewrite rev_app_distr. cbn [rev]. rewrite rev_involutive, rev_join, <- map_rev, rev_involutive, map_map.
    rewrite (map_ext _ _ (rev_item_out cb)). unfold render_new. rewrite <- !app_assoc. reflexivity.
Qed.

(* a failing step ends the run *)
Lemma addr_run_fail x t y a a1 a2 :
  addr_run cb a x = (a1, true) -> addr_step cb a1 t = (a2, false) -> addr_run cb a (x ++ t :: y) = (a2, false).
Proof. intros Hx Ht. rewrite addr_run_app, Hx. cbn [addr_run]. rewrite Ht. reflexivity. Qed.
End GMachine.

(* ---------------------------------------------------------------- the theorems *)
Lemma rev_render_entries es : rev (render_entries es) = join (map (fun e => rev (entry_toks e)) (rev es)).
Proof. unfold render_entries. rewrite rev_join, <- map_rev, map_map. reflexivity. Qed.

(* the list of entries may even be empty *)
Theorem groups_out_l : forall cb n c es, Forall entry_ok es ->
  addrlist cb (n :: c :: render_entries es)
  = (Some (n :: c :: render_entries_new cb es), map cb (rev (flat_map entry_addrs es))).
Proof.
  intros cb n c es Hok. unfold addrlist. cbn [skipn firstn].
  destruct (entries_run cb (rev es) (Forall_rev Hok) [] []) as (a' & Hrun & (_ & Hm) & Ho & Hc).
  fold (Sg false [] [] true MNormal []). rewrite rev_render_entries, Hrun.
  assert (Hres : (let af := flush cb a' in (Some (rev (a_out af ++ rev [n; c])), rev (a_calls af)))
                 = (Some (n :: c :: render_entries_new cb es), map cb (rev (flat_map entry_addrs es)))).
  { cbv zeta. rewrite Ho, Hc, app_nil_r, rev_involutive. cbn [app]. rewrite rev_app_distr. cbn [rev app].
    rewrite rev_join, <- (map_rev (entry_out cb)), rev_involutive, map_map, map_rev. unfold render_entries_new.
    rewrite (map_ext _ _ (rev_entry_out cb)). reflexivity. }
  destruct Hm as [Hm | [[Hm _] | [Hm _]]]; rewrite Hm; exact Hres.
Qed.
Print Assumptions groups_out_l.

Theorem groups_l : forall cb n c es, es <> [] -> Forall entry_ok es ->
  exists out, addrlist cb (n :: c :: render_entries es) = (Some out, map cb (rev (flat_map entry_addrs es))).
Proof.
  intros cb n c es _ Hok. exists (n :: c :: render_entries_new cb es). apply groups_out_l. exact Hok.
Qed.
Print Assumptions groups_l.

(* the old theorem is the special case "no groups" *)
Corollary groups_out_items : forall cb n c its, Forall item_ok its ->
  addrlist cb (n :: c :: render its) = (Some (n :: c :: render_new cb its), map (fun it => cb (item_addr it)) (rev its)).
Proof.
  intros cb n c its Hok.
  assert (Hok' : Forall entry_ok (map EItem its)).
  { apply Forall_forall. intros e He. apply in_map_iff in He as (it & <- & Hin). exact (proj1 (Forall_forall _ _) Hok it Hin). }
  assert (Hfm : flat_map entry_addrs (map EItem its) = map item_addr its).
  { clear Hok Hok'. induction its as [|it its IH]; [reflexivity|]. cbn [map flat_map entry_addrs app]. rewrite IH. reflexivity. }
  rewrite <- render_entries_items, (groups_out_l cb n c _ Hok'), Hfm. unfold render_entries_new, render_new.
  rewrite <- (map_rev item_addr), !map_map. reflexivity.
Qed.

(* ---------------------------------------------------------------- syntax errors *)
(* a ':' with a well-formed list of items (possibly empty) but no ';' to its right, whatever stands to its left *)
Theorem colon_without_semi : forall cb n c l its, Forall item_ok its ->
  fst (addrlist cb (n :: c :: l ++ TColon :: render its)) = None.
Proof.
  intros cb n c l its Hok. unfold addrlist. cbn [skipn].
  destruct (items_run_g cb false (rev its) (Forall_rev Hok) [] []) as (a1 & Hrun1 & Hst1 & _ & _).
  assert (Hrev : rev (l ++ TColon :: render its) = rev (render its) ++ TColon :: rev l).
  { rewrite rev_app_distr. cbn [rev]. rewrite <- app_assoc. reflexivity. }
  rewrite Hrev, rev_render. fold (Sg false [] [] true MNormal []).
  destruct (addr_step cb a1 TColon) as [a2 b] eqn:Hstep.
  assert (Hb := colon_step_out cb a1 Hst1). rewrite Hstep in Hb. cbn [snd] in Hb. subst b.
  rewrite (addr_run_fail cb _ TColon (rev l) _ a1 a2 Hrun1 Hstep). reflexivity.
Qed.
(* two ';' with a well-formed list of items (possibly empty) but no ':' between them, whatever stands to the left *)
Theorem semi_semi : forall cb n c l its, Forall item_ok its ->
  fst (addrlist cb (n :: c :: l ++ TSemi :: render its ++ [TSemi])) = None.
Proof.
  intros cb n c l its Hok. unfold addrlist. cbn [skipn].
  destruct (items_run_g cb true (rev its) (Forall_rev Hok) [TSemi] []) as (a1 & Hrun1 & Hst1 & _ & _).
  assert (Hrev : rev (l ++ TSemi :: render its ++ [TSemi]) = TSemi :: rev (render its) ++ TSemi :: rev l).
  { rewrite rev_app_distr. cbn [rev]. rewrite rev_app_distr. cbn [rev app]. rewrite <- app_assoc. reflexivity. }
  rewrite Hrev, rev_render. cbn [addr_run].
  change (addr_step cb _ TSemi) with (Sg true [TSemi] [] true MNormal [], true) at 1. cbv beta iota.
  destruct (addr_step cb a1 TSemi) as [a2 b] eqn:Hstep.
  assert (Hb := semi_step_in cb a1 Hst1). rewrite Hstep in Hb. cbn [snd] in Hb. subst b.
  rewrite (addr_run_fail cb _ TSemi (rev l) _ a1 a2 Hrun1 Hstep). reflexivity.
Qed.
Print Assumptions colon_without_semi.
Print Assumptions semi_semi.

(* ---------------------------------------------------------------- non-vacuity *)
(*   To: a@b, grp: c@d, E <e@f>;, empty:;, g@h   *)
Definition gx_addr (x y : N) : list tok := [TAtom [x]; TAt; TAtom [y]].
Definition gx_es : list entry :=
  [EItem (IPlain (gx_addr 97 98));
   EGroup [TAtom [103; 114; 112]] [IPlain (gx_addr 99 100); IAngle [TAtom [69]] (gx_addr 101 102)];
   EGroup [TAtom [101; 109; 112; 116; 121]] [];
   EItem (IPlain (gx_addr 103 104))].
Example gx_ok : Forall entry_ok gx_es.
Proof.
  assert (Hp : forall x y, item_ok (IPlain (gx_addr x y))).
  { intros x y. cbn. split; [split; [reflexivity|split; [reflexivity|discriminate]]|reflexivity]. }
  unfold gx_es. repeat apply Forall_cons; try apply Forall_nil; cbn [entry_ok].
  - apply Hp.
  - split; [reflexivity|]. repeat apply Forall_cons; try apply Forall_nil; [apply Hp|split; reflexivity].
  - split; [reflexivity|apply Forall_nil].
  - apply Hp.
Qed.
Example gx_render :
  render_entries gx_es
  = gx_addr 97 98 ++ [TComma; TAtom [103; 114; 112]; TColon] ++ gx_addr 99 100 ++ [TComma; TAtom [69]; TLeft] ++ gx_addr 101 102
    ++ [TRight; TSemi; TComma; TAtom [101; 109; 112; 116; 121]; TColon; TSemi; TComma] ++ gx_addr 103 104.
Proof. vm_compute. reflexivity. Qed.
Example gx_run :
  addrlist (fun a => a) (TAtom [84; 111] :: TColon :: render_entries gx_es)
  = (Some (TAtom [84; 111] :: TColon :: render_entries gx_es),
     [[TAtom [104]; TAt; TAtom [103]]; [TAtom [102]; TAt; TAtom [101]]; [TAtom [100]; TAt; TAtom [99]]; [TAtom [98]; TAt; TAtom [97]]])
  /\ map (fun a : list tok => a) (rev (flat_map entry_addrs gx_es))
     = [[TAtom [104]; TAt; TAtom [103]]; [TAtom [102]; TAt; TAtom [101]]; [TAtom [100]; TAt; TAtom [99]]; [TAtom [98]; TAt; TAtom [97]]].
Proof. split; vm_compute; reflexivity. Qed.
Example gx_thm : exists out, addrlist (fun a => a) (TAtom [84; 111] :: TColon :: render_entries gx_es)
                             = (Some out, map (fun a => a) (rev (flat_map entry_addrs gx_es))).
Proof. apply (groups_l (fun a => a)); [discriminate|exact gx_ok]. Qed.

(* a group as the leftmost and as the rightmost entry, two adjacent groups, an empty name, a name of odd tokens *)
Example gx_edges :
  snd (addrlist (fun a => a) (TAtom [84; 111] :: TColon :: render_entries
        [EGroup [TAtom [49]] [IPlain (gx_addr 97 98)]; EGroup [] [IPlain (gx_addr 99 100)];
         EGroup [TLeft; TSemi; TColon; TRight; TAt] [IPlain (gx_addr 101 102)]]))
  = [[TAtom [102]; TAt; TAtom [101]]; [TAtom [100]; TAt; TAtom [99]]; [TAtom [98]; TAt; TAtom [97]]].
Proof. vm_compute. reflexivity. Qed.
(* the errors *)
Example gx_err1 : addrlist (fun a => a) (TAtom [84; 111] :: TColon :: [TAtom [49]; TColon] ++ gx_addr 99 100)
                  = (None, [[TAtom [100]; TAt; TAtom [99]]]).
Proof. vm_compute. reflexivity. Qed.
Example gx_err2 : addrlist (fun a => a) (TAtom [84; 111] :: TColon :: gx_addr 99 100 ++ [TSemi; TComma] ++ gx_addr 97 98 ++ [TSemi])
                  = (None, [[TAtom [98]; TAt; TAtom [97]]]).
Proof. vm_compute. reflexivity. Qed.
(* outside the grammar: without the comma, an address directly left of a group is swallowed by the name copy
   ( a@b grp: c@d;  -> the callback only sees c@d ) *)
Example gx_excluded :
  snd (addrlist (fun a => a) (TAtom [84; 111] :: TColon :: gx_addr 97 98 ++ [TAtom [49]; TColon] ++ gx_addr 99 100 ++ [TSemi]))
  = [[TAtom [100]; TAt; TAtom [99]]].
Proof. vm_compute. reflexivity. Qed.
