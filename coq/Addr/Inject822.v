(* qmail-inject.c: rwgeneric and friends, doheaderfield, the envelope derivation; hfield.c; headerbody.c.
   Model only (C17).  Addresses handed to the rw* functions are token lists in the callback's order:
   right to left (element 0 is the textually LAST token). *)
From NQ Require Export Addr.Tok.
Local Open Scope N_scope.

(* ---- hfield.c ---- *)
Definition hnames : list bytes :=
  [[117;110;107;110;111;119;110;45;104;101;97;100;101;114]   (* 0 unknown-header *);
   [115;101;110;100;101;114]   (* 1 sender *);
   [102;114;111;109]   (* 2 from *);
   [114;101;112;108;121;45;116;111]   (* 3 reply-to *);
   [116;111]   (* 4 to *);
   [99;99]   (* 5 cc *);
   [98;99;99]   (* 6 bcc *);
   [100;97;116;101]   (* 7 date *);
   [109;101;115;115;97;103;101;45;105;100]   (* 8 message-id *);
   [115;117;98;106;101;99;116]   (* 9 subject *);
   [114;101;115;101;110;116;45;115;101;110;100;101;114]   (* 10 resent-sender *);
   [114;101;115;101;110;116;45;102;114;111;109]   (* 11 resent-from *);
   [114;101;115;101;110;116;45;114;101;112;108;121;45;116;111]   (* 12 resent-reply-to *);
   [114;101;115;101;110;116;45;116;111]   (* 13 resent-to *);
   [114;101;115;101;110;116;45;99;99]   (* 14 resent-cc *);
   [114;101;115;101;110;116;45;98;99;99]   (* 15 resent-bcc *);
   [114;101;115;101;110;116;45;100;97;116;101]   (* 16 resent-date *);
   [114;101;115;101;110;116;45;109;101;115;115;97;103;101;45;105;100]   (* 17 resent-message-id *);
   [114;101;116;117;114;110;45;114;101;99;101;105;112;116;45;116;111]   (* 18 return-receipt-to *);
   [101;114;114;111;114;115;45;116;111]   (* 19 errors-to *);
   [97;112;112;97;114;101;110;116;108;121;45;116;111]   (* 20 apparently-to *);
   [114;101;99;101;105;118;101;100]   (* 21 received *);
   [114;101;116;117;114;110;45;112;97;116;104]   (* 22 return-path *);
   [100;101;108;105;118;101;114;101;100;45;116;111]   (* 23 delivered-to *);
   [99;111;110;116;101;110;116;45;108;101;110;103;116;104]   (* 24 content-length *);
   [99;111;110;116;101;110;116;45;116;121;112;101]   (* 25 content-type *);
   [99;111;110;116;101;110;116;45;116;114;97;110;115;102;101;114;45;101;110;99;111;100;105;110;103]   (* 26 content-transfer-encoding *);
   [110;111;116;105;99;101;45;114;101;113;117;101;115;116;101;100;45;117;112;111;110;45;100;101;108;105;118;101;114;121;45;116;111]   (* 27 notice-requested-upon-delivery-to *);
   [109;97;105;108;45;102;111;108;108;111;119;117;112;45;116;111]   (* 28 mail-followup-to *)].
Definition H_SENDER := 1%nat. Definition H_FROM := 2%nat. Definition H_REPLYTO := 3%nat. Definition H_TO := 4%nat.
Definition H_CC := 5%nat. Definition H_BCC := 6%nat. Definition H_DATE := 7%nat. Definition H_MESSAGEID := 8%nat.
Definition H_R_SENDER := 10%nat. Definition H_R_FROM := 11%nat. Definition H_R_REPLYTO := 12%nat. Definition H_R_TO := 13%nat.
Definition H_R_CC := 14%nat. Definition H_R_BCC := 15%nat. Definition H_R_DATE := 16%nat. Definition H_R_MESSAGEID := 17%nat.
Definition H_RETURNRECEIPTTO := 18%nat. Definition H_ERRORSTO := 19%nat. Definition H_APPARENTLYTO := 20%nat.
Definition H_RETURNPATH := 22%nat. Definition H_CONTENTLENGTH := 24%nat. Definition H_MAILFOLLOWUPTO := 28%nat.

(* hmatch(): name in lower case; each letter matches itself or its upper case; then blanks, then a colon *)
Fixpoint after_name (s : bytes) : bool :=
  match s with
  | [] => false
  | c :: s' => if c =? 58 then true else if (c =? 32) || (c =? 9) then after_name s' else false
  end.
Fixpoint hmatch (s t : bytes) : bool :=
  match t with
  | [] => after_name s
  | ch :: t' => match s with
                | [] => false
                | x :: s' => if (ch =? x) || (negb (ch =? 45) && (32 <=? ch) && (ch - 32 =? x)) then hmatch s' t' else false
                end
  end.
Fixpoint hknown_from (i : nat) (names : list bytes) (s : bytes) : nat :=
  match names with
  | [] => 0%nat
  | t :: names' => if hmatch s t then i else hknown_from (S i) names' s
  end.
Definition hfield_known (s : bytes) : nat := hknown_from 1 (tl hnames) s.

Fixpoint take_to_colon (s : bytes) : option bytes :=
  match s with
  | [] => None
  | c :: s' => if c =? 58 then Some [] else match take_to_colon s' with Some p => Some (c :: p) | None => None end
  end.
Fixpoint strip_blanks_rev (r : bytes) : bytes :=
  match r with c :: r' => if (c =? 32) || (c =? 9) then strip_blanks_rev r' else r | [] => [] end.
(* chars are signed: ch <= 32 also rejects bytes >= 128 *)
Definition hfield_valid (s : bytes) : bool :=
  match take_to_colon s with
  | None => false
  | Some p => match strip_blanks_rev (rev p) with
              | [] => false
              | name => forallb (fun c => (32 <? c) && (c <? 127)) name
              end
  end.

(* ---- headerbody.c: the fields handed to dohf, and the body blocks handed to dobl ---- *)
Definition s_FromSp : bytes := [70;114;111;109;32].
Definition s_mboxline : bytes := [77;66;79;88;45;76;105;110;101;58;32].
Definition flushf (cur : option bytes) : list bytes := match cur with Some l => [l] | None => [] end.
Fixpoint hb (lines : list bytes) (cur : option bytes) : list bytes * list bytes :=
  match lines with
  | [] => (flushf cur, [])
  | nl :: rest =>
    let cont := match cur, nl with Some _, c :: _ => (c =? 32) || (c =? 9) | _, _ => false end in
    if cont then hb rest (match cur with Some l => Some (l ++ nl) | None => None end) else
    let fs := flushf cur in
    if Nat.eqb (length nl) 1 then (fs, nl :: rest) else
    if is_prefix s_FromSp nl then let (f, b) := hb rest (Some (s_mboxline ++ nl)) in (fs ++ f, b) else
    if hfield_valid nl then let (f, b) := hb rest (Some nl) in (fs ++ f, b) else
    (fs, [LF] :: nl :: rest)
  end.
(* getsa(): lines end in LF; an unterminated last line gets one *)
Definition msg_lines (msg : bytes) : list bytes := map (fun l => l ++ [LF]) (split_lines msg).
Definition headerbody (msg : bytes) : list bytes * list bytes := hb (msg_lines msg) None.

(* ---- the rw* functions ---- *)
Record icfg := { c_defaulthost : list tok; c_defaultdomain : list tok; c_plusdomain : list tok }.   (* parse "@host", ".dom", ".plus" *)
Definition is_at (t : tok) := match t with TAt => true | _ => false end.
Definition is_dot (t : tok) := match t with TDot => true | _ => false end.
Definition is_colon (t : tok) := match t with TColon => true | _ => false end.
Definition is_lit (t : tok) := match t with TLiteral _ => true | _ => false end.
Fixpoint drop_through_colon (f : list tok) : list tok :=
  match f with [] => [] | t :: f' => if is_colon t then f' else drop_through_colon f' end.
Definition rwroute (a : list tok) : list tok :=
  match rev a with
  | t :: _ => if is_at t then rev (drop_through_colon (rev a)) else a
  | [] => a
  end.
Definition rwextradot (a : list tok) : list tok := match a with t :: a' => if is_dot t then a' else a | [] => a end.
Definition rwextraat (a : list tok) : list tok := match a with t :: a' => if is_at t then a' else a | [] => a end.
Definition rwnoat (c : icfg) (a : list tok) : list tok := if existsb is_at a then a else rev (c_defaulthost c) ++ a.
Definition rwplus (c : icfg) (a : list tok) : list tok :=
  match a with
  | TAtom s :: a' => match rev s with
                     | x :: r => if x =? 43 then rev (c_plusdomain c) ++ TAtom (rev r) :: a' else a
                     | [] => a
                     end
  | _ => a
  end.
(* scanning from the textual end up to the first '@' *)
Fixpoint before_at (p : tok -> bool) (a : list tok) : bool :=
  match a with [] => false | t :: a' => if p t then true else if is_at t then false else before_at p a' end.
(* the C tests DOT before AT in one loop and LITERAL before AT in the next: a token that is both cannot exist *)
Definition rwnodot (c : icfg) (a : list tok) : list tok :=
  if before_at is_dot a then a else if before_at is_lit a then a else rev (c_defaultdomain c) ++ a.
Definition rwgeneric (c : icfg) (a : list tok) : list tok :=
  match a with
  | [] => []
  | TLiteral [] :: TAt :: _ => a
  | _ =>
    let a1 := rwroute a in match a1 with [] => [] | _ =>
    let a2 := rwextradot a1 in match a2 with [] => [] | _ =>
    let a3 := rwextraat a2 in match a3 with [] => [] | _ =>
    rwnodot c (rwplus c (rwnoat c a3)) end end end
  end.
(* the address string the envelope gets: token822_unquote of the re-reversed tokens *)
Definition addr_string (a : list tok) : bytes := unquote (rev a).

(* ---- doheaderfield ---- *)
Record iflags := { f_delsender : bool; f_delfrom : bool; f_delmessid : bool; f_hackrecip : bool }.
Record ist := { i_hr : list bytes; i_hrr : list bytes; i_tocc : list bytes; i_sender : option bytes;
                i_seen : list nat; i_saved : list bytes }.
Inductive fkind := FTocc | FHr | FHrr | FReturn | FSender | FNone.
Definition kind_of (h : nat) : fkind :=
  if Nat.eqb h H_TO || Nat.eqb h H_CC then FTocc else
  if Nat.eqb h H_BCC || Nat.eqb h H_APPARENTLYTO then FHr else
  if Nat.eqb h H_R_TO || Nat.eqb h H_R_CC || Nat.eqb h H_R_BCC then FHrr else
  if Nat.eqb h H_RETURNPATH then FReturn else
  if Nat.eqb h H_SENDER || Nat.eqb h H_FROM || Nat.eqb h H_REPLYTO || Nat.eqb h H_RETURNRECEIPTTO || Nat.eqb h H_ERRORSTO
     || Nat.eqb h H_R_SENDER || Nat.eqb h H_R_FROM || Nat.eqb h H_R_REPLYTO then FSender else FNone.
Definition LINELEN : nat := 80.
Definition s_hack : bytes := [45;64;91;93].
(* Some st = continue; None = qmail-inject exits 100 (invalid field / unparsable address field) *)
Definition doheaderfield (c : icfg) (fl : iflags) (st : ist) (h : bytes) : option ist :=
  let ht := hfield_known h in
  if (f_delfrom fl && Nat.eqb ht H_FROM) || (f_delmessid fl && Nat.eqb ht H_MESSAGEID) || (f_delsender fl && Nat.eqb ht H_RETURNPATH)
  then Some st else
  if Nat.eqb ht 0 && negb (hfield_valid h) then None else
  let seen := if Nat.eqb ht 0 then i_seen st else ht :: i_seen st in
  let k := kind_of ht in
  let mayfail := match k with FTocc | FHr | FHrr => true | _ => false end in
  let step (h' : bytes) (addrs : list (list tok)) : ist :=
    let strs := map addr_string addrs in
    let drop := Nat.eqb ht H_BCC || Nat.eqb ht H_R_BCC || Nat.eqb ht H_RETURNPATH || Nat.eqb ht H_CONTENTLENGTH in
    {| i_hr := i_hr st ++ (match k with FTocc | FHr => strs | _ => [] end);
       i_hrr := i_hrr st ++ (match k with FHrr => strs | _ => [] end);
       i_tocc := i_tocc st ++ (match k with FTocc => strs | _ => [] end);
       i_sender := match k, i_sender st, strs with
                   | FReturn, None, s :: _ => Some (s ++ if f_hackrecip fl then s_hack else [])
                   | _, s, _ => s end;
       i_seen := seen;
       i_saved := if drop then i_saved st else i_saved st ++ [h'] |} in
  match k with
  | FNone => Some (step h [])
  | _ =>
    match parse h with
    | None => if mayfail then Some (step h []) else None
    | Some ts =>
      match addrlist (rwgeneric c) ts with
      | (Some out, calls) => Some (step (unparse out LINELEN) calls)
      | (None, calls) => if mayfail then Some (step h calls) else None
      end
    end
  end.
Fixpoint dofields (c : icfg) (fl : iflags) (st : ist) (hs : list bytes) : option ist :=
  match hs with
  | [] => Some st
  | h :: hs' => match doheaderfield c fl st h with Some st' => dofields c fl st' hs' | None => None end
  end.
Definition ist0 (sender : option bytes) : ist :=
  {| i_hr := []; i_hrr := []; i_tocc := []; i_sender := sender; i_seen := []; i_saved := [] |}.

(* dorecip() and -f: a command-line address *)
Definition arg_addr (c : icfg) (s : bytes) : option bytes :=
  match parse (quote2 s) with
  | Some ts => Some (addr_string (rwgeneric c (rev ts)))
  | None => None
  end.

Definition seen (st : ist) (h : nat) : bool := existsb (Nat.eqb h) (i_seen st).
Definition flagresent (st : ist) : bool :=
  seen st H_R_SENDER || seen st H_R_FROM || seen st H_R_REPLYTO || seen st H_R_TO || seen st H_R_CC || seen st H_R_BCC
  || seen st H_R_DATE || seen st H_R_MESSAGEID.

(* strategy: use the arguments / use the header *)
Record irun := { r_args : list bytes; r_use_args : bool; r_use_header : bool; r_from : option bytes }.
Inductive ires :=
  | IOk (sender : option bytes) (rcpts : list bytes) (saved : list bytes) (body : list bytes) (seen_ : list nat)
  | IPerm.           (* exit 100 *)
Fixpoint map_opt {A B} (f : A -> option B) (l : list A) : option (list B) :=
  match l with
  | [] => Some []
  | x :: l' => match f x, map_opt f l' with Some y, Some ys => Some (y :: ys) | _, _ => None end
  end.
Definition inject (c : icfg) (fl : iflags) (r : irun) (msg : bytes) : ires :=
  match (match r_from r with Some f => match arg_addr c f with Some s => Some (Some s) | None => None end | None => Some None end) with
  | None => IPerm
  | Some sender0 =>
    match (if r_use_args r then map_opt (arg_addr c) (r_args r) else Some []) with
    | None => IPerm
    | Some reciplist =>
      let (fields, body) := headerbody msg in
      match dofields c fl (ist0 sender0) fields with
      | None => IPerm
      | Some st =>
        IOk (i_sender st)
            (reciplist ++ (if r_use_header r then (if flagresent st then i_hrr st else i_hr st) else []))
            (i_saved st) body (i_seen st)
      end
    end
  end.
