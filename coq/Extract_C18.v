From Coq Require Extraction ExtrOcamlBasic.
From NQ Require Import Queue.Clean Local.LspawnReport.
Extraction Language OCaml.
Extraction "extracted_C18.ml" clean_handle split_nul parse_cmds docmd reports del_event finishes
  scan_ulong fmt_ulong dec_value messid_ok_from lspawn_report.
