From Coq Require Extraction ExtrOcamlBasic.
From NQ Require Import Local.DotQmail Local.Owner.
Extraction Language OCaml.
Extraction "extracted_C13.ml" candidates local_run local_plan dtline rpline ufline looping safeext forward_sender owner_file s_owner s_owner_default.
