From Coq Require Extraction ExtrOcamlBasic.
From NQ Require Import Base.MiniC gen.CGen.
Extraction Language OCaml.
Extraction "extracted_GEN.ml" C_cm_hash.run C_cdb_hash.run C_cdbmake_hashadd.run C_cdb_unpack.run C_cdbmake_pack.run C_case_diffb.run C_case_lowerb.run
  C_byte_chr.run C_byte_rchr.run C_str_chr.run C_str_rchr.run C_scan_ulong.run C_scan_8long.run C_fmt_ulong.run C_fmt_uint0.run C_fmt_str.run
  C_byte_copy.run C_byte_copyr.run C_byte_zero.run C_str_start.run C_case_diffs.run C_case_starts.run C_squareroot.run C_ip_scan.run C_ip_scanbracket.run C_ip_fmt.run C_quote_doit.run
  K_scan_ulong.run K_ip_scanbracket.run K_quote_doit.run K_byte_chr.run K_str_chr.run K_case_diffb.run K_fmt_ulong.run K_fmt_str.run K_byte_copy.run K_cm_hash.run
  C_quote_need.run K_quote_need.run C_nextretry.run C_needspace.run C_atomok.run C_issafe.run C_hmatch.run C_atomcheck.run C_striptrailingwhitespace.run
  C_rblast.run C_sblast.run C_smtpcode.run C_getlen.run
  C_rreport.run K_rreport.run C_lreport.run K_lreport.run C_safeput.run K_safeput.run C_fmtqfn.run K_fmtqfn.run C_addrparse.run K_addrparse.run C_clean_main.run
  C_substdio_flush.run C_substdio_bput.run C_substdio_put.run C_substdio_putflush.run K_substdio_flush.run K_substdio_bput.run K_substdio_put.run K_substdio_putflush.run
  C_substdio_get.run K_substdio_get.run C_substdio_feed.run.
