From Coq Require Extraction ExtrOcamlBasic.
From NQ Require Import Local.Mailbox.
Extraction Language OCaml.
Extraction "extracted_C12.ml" maildir_events mprefixes_ok mfs0 mrun mexit maildir_parent mbox_entry mbox_read msg_plus
  mailfile_events brun bexit gfrom.
