(* The inbound decoder of qmail-smtpd.c (sblast) equals the RFC 5321 4.5.2 reference
   receiver (rfc_decode) on every byte stream.

   Simulation: the machine state [st] is related to the reference's reversed current line
   [cur]; in S3/S4 the machine has consumed one CR that the reference (which looks two bytes
   ahead for CR LF) has not consumed yet ([pre st]).  The machine emits eagerly, so [em st cur]
   is the part of the current line's output it has already written. *)
From NQ Require Import Smtp.Codec Smtp.CodecProofs.
Local Open Scope N_scope.

(* ------------------------------------------------------------------ result relation *)
Definition sim (o : bytes) (a b : sres) : Prop :=
  match a, b with
  | Done x r, Done y q => o ++ x = y /\ r = q
  | Stray, Stray => True
  | NeedMore _, NeedMore _ => True
  | _, _ => False
  end.

Lemma sim_prepend_l o p a b : sim (o ++ p) a b -> sim o (prepend p a) b.
Proof.
  destruct a as [x r| |x], b as [y q| |y]; cbn [sim prepend]; try exact (fun H => H).
  intros [Hxy Hrq]. split; [rewrite app_assoc; exact Hxy | exact Hrq].
Qed.

Lemma sim_prepend_nil_l o a b : sim o a b -> sim o (prepend [] a) b.
Proof. intros Hs. apply sim_prepend_l. rewrite app_nil_r. exact Hs. Qed.

Lemma sim_prepend_both p q a b : sim [] a b -> sim p (prepend q a) (prepend (p ++ q) b).
Proof.
  destruct a as [x r| |x], b as [y t| |y]; cbn [sim prepend]; try exact (fun H => H).
  intros [Hxy Hrt]. cbn [app] in Hxy. subst y.
  split; [rewrite app_assoc; reflexivity | exact Hrt].
Qed.

Lemma sim_eq o o' a b : o = o' -> sim o' a b -> sim o a b.
Proof. intros -> Hs. exact Hs. Qed.

(* ------------------------------------------------------------------ unfolding rfc_dec *)
Lemma rfc_dec_nil cur : rfc_dec cur [] = if has LF cur then Stray else NeedMore [].
Proof. reflexivity. Qed.

Lemma rfc_dec_notCR cur c s : (c =? 13) = false -> rfc_dec cur (c :: s) = rfc_dec (c :: cur) s.
Proof.
  intros Hc. destruct s as [|d s]; [reflexivity|].
  cbn [rfc_dec]. unfold CR. rewrite Hc. reflexivity.
Qed.

Lemma rfc_dec_CR_notLF cur d s :
  (d =? 10) = false -> rfc_dec cur (13 :: d :: s) = rfc_dec (13 :: cur) (d :: s).
Proof.
  intros Hd. cbn [rfc_dec]. unfold LF. rewrite Hd, andb_false_r. reflexivity.
Qed.

Lemma rfc_dec_CR_LF cur s :
  rfc_dec cur (13 :: 10 :: s) =
  if has LF cur then Stray
  else if beq cur [DOT] then Done [] s
  else prepend (unstuff (rev cur) ++ [LF]) (rfc_dec [] s).
Proof. reflexivity. Qed.

Lemma rfc_dec_CR_end cur : has LF cur = false -> rfc_dec cur [13] = NeedMore [].
Proof.
  intros Hl. cbn [rfc_dec has]. unfold LF in *. rewrite Hl. reflexivity.
Qed.

(* once a bare LF is in the current line the reference can only answer Stray *)
Lemma rfc_dec_hasLF s : forall cur, has LF cur = true -> rfc_dec cur s = Stray.
Proof.
  induction s as [|c s IH]; intros cur Hl.
  - rewrite rfc_dec_nil, Hl. reflexivity.
  - assert (Hl' : has LF (c :: cur) = true)
      by (cbn [has]; rewrite Hl; apply orb_true_r).
    destruct s as [|d s]; [exact (IH (c :: cur) Hl')|].
    cbn [rfc_dec].
    destruct ((c =? CR) && (d =? LF)); [rewrite Hl; reflexivity | exact (IH (c :: cur) Hl')].
Qed.

Lemma rfc_dec_LF cur s : rfc_dec cur (10 :: s) = Stray.
Proof.
  rewrite rfc_dec_notCR by reflexivity.
  apply rfc_dec_hasLF. reflexivity.
Qed.

(* ------------------------------------------------------------------ small facts *)
Lemma unstuff_snoc l x : (l <> [] \/ (x =? 46) = false) -> unstuff (l ++ [x]) = unstuff l ++ [x].
Proof.
  intros Hx. destruct l as [|c l].
  - destruct Hx as [Hl|Hx]; [contradiction Hl; reflexivity|].
    cbn [app unstuff]. unfold DOT. rewrite Hx. reflexivity.
  - cbn [app unstuff]. destruct (c =? DOT); reflexivity.
Qed.

Lemma has_LF_cons x cur : (x =? 10) = false -> has LF cur = false -> has LF (x :: cur) = false.
Proof.
  intros Hx Hl. cbn [has]. rewrite Hl. unfold LF. rewrite N.eqb_sym, Hx. reflexivity.
Qed.

Lemma beq_DOT_false cur : cur <> [DOT] -> beq cur [DOT] = false.
Proof.
  intros Hn. destruct (beq cur [DOT]) eqn:E; [|reflexivity].
  apply beq_eq in E. contradiction.
Qed.

Lemma rev_nonnil (l : bytes) : l <> [] -> rev l <> [].
Proof.
  intros Hl Hr. apply Hl. rewrite <- (rev_involutive l), Hr. reflexivity.
Qed.

Lemma classify4 ch :
  (ch = 13 /\ classify ch = cCR) \/ (ch = 10 /\ classify ch = cLF) \/
  (ch = 46 /\ classify ch = cDOT) \/
  (classify ch = cOTH /\ (ch =? 13) = false /\ (ch =? 10) = false /\ (ch =? 46) = false).
Proof. exact (classify_cases ch). Qed.

(* ------------------------------------------------------------------ the invariant *)
Definition pre (st : sst) : bytes := match st with S3 | S4 => [13] | _ => [] end.

Definition em (st : sst) (cur : bytes) : bytes :=
  match st with S0 | S4 => unstuff (rev cur) | _ => [] end.

Definition R (st : sst) (cur : bytes) : Prop :=
  match st with
  | S1 => cur = []
  | S2 | S3 => cur = [46]
  | S4 => has LF cur = false /\ cur <> [DOT]
  | S0 => has LF cur = false /\ cur <> [] /\ cur <> [DOT]
  end.

Lemma R_noLF st cur : R st cur -> has LF cur = false.
Proof.
  destruct st; cbn [R]; intros HR.
  - exact (proj1 HR).
  - subst cur. reflexivity.
  - subst cur. reflexivity.
  - subst cur. reflexivity.
  - exact (proj1 HR).
Qed.

Ltac cases ch Hcl Hcr Hlf Hdot :=
  destruct (classify4 ch) as [[-> Hcl]|[[-> Hcl]|[[-> Hcl]|[Hcl [Hcr [Hlf Hdot]]]]]].

Lemma sim_main s : forall st cur,
  R st cur -> sim (em st cur) (sdec st s) (rfc_dec cur (pre st ++ s)).
Proof.
  induction s as [|ch s IH]; intros st cur HR.
  - (* end of input *)
    pose proof (R_noLF st cur HR) as Hl.
    destruct st; cbn [pre app sdec];
      rewrite ?rfc_dec_nil, ?(rfc_dec_CR_end cur Hl), ?Hl; exact I.
  - destruct st; cbn [R] in HR; cbn [pre app sdec em]; unfold sstep.
    + (* S0 *)
      destruct HR as (Hl & Hne & Hnd).
      cases ch Hcl Hcr Hlf Hdot; rewrite Hcl.
      * (* CR *) apply sim_prepend_nil_l. exact (IH S4 cur (conj Hl Hnd)).
      * (* LF *) rewrite rfc_dec_LF. exact I.
      * (* DOT *)
        rewrite rfc_dec_notCR by reflexivity. apply sim_prepend_l.
        rewrite <- unstuff_snoc by (left; apply rev_nonnil; exact Hne).
        apply (IH S0 (46 :: cur)). cbn [R].
        split; [apply has_LF_cons; [reflexivity | exact Hl]|].
        split; [discriminate|].
        intros Heq. injection Heq as Heq. contradiction.
      * (* other *)
        rewrite rfc_dec_notCR by exact Hcr. apply sim_prepend_l.
        rewrite <- unstuff_snoc by (left; apply rev_nonnil; exact Hne).
        apply (IH S0 (ch :: cur)). cbn [R].
        split; [apply has_LF_cons; [exact Hlf | exact Hl]|].
        split; [discriminate|].
        intros Heq. injection Heq as _ Heq. contradiction.
    + (* S1 *)
      subst cur.
      cases ch Hcl Hcr Hlf Hdot; rewrite Hcl.
      * apply sim_prepend_nil_l. apply (IH S4 []). cbn [R]. split; [reflexivity | discriminate].
      * rewrite rfc_dec_LF. exact I.
      * rewrite rfc_dec_notCR by reflexivity. apply sim_prepend_nil_l.
        apply (IH S2 [46]). reflexivity.
      * rewrite rfc_dec_notCR by exact Hcr. apply sim_prepend_l. cbn [app].
        assert (He : [ch] = em S0 [ch])
          by (cbn [em rev app unstuff]; unfold DOT; rewrite Hdot; reflexivity).
        apply (sim_eq _ _ _ _ He). apply (IH S0 [ch]). cbn [R].
        split; [apply has_LF_cons; [exact Hlf | reflexivity]|].
        split; [discriminate|].
        intros Heq. injection Heq as Heq. subst ch. discriminate.
    + (* S2 *)
      subst cur.
      cases ch Hcl Hcr Hlf Hdot; rewrite Hcl.
      * apply sim_prepend_nil_l. apply (IH S3 [46]). reflexivity.
      * rewrite rfc_dec_LF. exact I.
      * rewrite rfc_dec_notCR by reflexivity. apply sim_prepend_l. cbn [app].
        apply (IH S0 [46; 46]). cbn [R].
        split; [reflexivity|]. split; discriminate.
      * rewrite rfc_dec_notCR by exact Hcr. apply sim_prepend_l. cbn [app].
        assert (He : [ch] = em S0 [ch; 46]) by reflexivity.
        apply (sim_eq _ _ _ _ He). apply (IH S0 [ch; 46]). cbn [R].
        split; [apply has_LF_cons; [exact Hlf | reflexivity]|]. split; discriminate.
    + (* S3 *)
      subst cur.
      cases ch Hcl Hcr Hlf Hdot; rewrite Hcl.
      * rewrite rfc_dec_CR_notLF by reflexivity. apply sim_prepend_l. cbn [app].
        apply (IH S4 [13; 46]). cbn [R]. split; [reflexivity | discriminate].
      * rewrite rfc_dec_CR_LF. cbn. split; reflexivity.
      * rewrite rfc_dec_CR_notLF by reflexivity. rewrite rfc_dec_notCR by reflexivity.
        apply sim_prepend_l. cbn [app].
        apply (IH S0 [46; 13; 46]). cbn [R].
        split; [reflexivity|]. split; discriminate.
      * rewrite rfc_dec_CR_notLF by exact Hlf. rewrite rfc_dec_notCR by exact Hcr.
        apply sim_prepend_l. cbn [app].
        assert (He : [CR; ch] = em S0 [ch; 13; 46]) by reflexivity.
        apply (sim_eq _ _ _ _ He). apply (IH S0 [ch; 13; 46]). cbn [R].
        split; [apply has_LF_cons; [exact Hlf | reflexivity]|]. split; discriminate.
    + (* S4 *)
      destruct HR as (Hl & Hnd).
      cases ch Hcl Hcr Hlf Hdot; rewrite Hcl.
      * (* CR *)
        rewrite rfc_dec_CR_notLF by reflexivity. apply sim_prepend_l.
        rewrite <- unstuff_snoc by (right; reflexivity).
        apply (IH S4 (13 :: cur)). cbn [R].
        split; [apply has_LF_cons; [reflexivity | exact Hl]|].
        intros Heq. injection Heq as Heq _. discriminate.
      * (* LF: end of line *)
        rewrite rfc_dec_CR_LF, Hl, (beq_DOT_false cur Hnd).
        apply sim_prepend_both. exact (IH S1 [] eq_refl).
      * (* DOT *)
        rewrite rfc_dec_CR_notLF by reflexivity. rewrite rfc_dec_notCR by reflexivity.
        apply sim_prepend_l.
        assert (He : unstuff (rev cur) ++ [CR; 46] = em S0 (46 :: 13 :: cur)).
        { cbn [em rev]. rewrite unstuff_snoc.
          - rewrite unstuff_snoc by (right; reflexivity). rewrite <- app_assoc. reflexivity.
          - left. intros Heq. apply app_eq_nil in Heq as [_ Heq]. discriminate. }
        apply (sim_eq _ _ _ _ He). apply (IH S0 (46 :: 13 :: cur)). cbn [R].
        split; [apply has_LF_cons; [reflexivity | apply has_LF_cons; [reflexivity | exact Hl]]|].
        split; discriminate.
      * (* other *)
        rewrite rfc_dec_CR_notLF by exact Hlf. rewrite rfc_dec_notCR by exact Hcr.
        apply sim_prepend_l.
        assert (He : unstuff (rev cur) ++ [CR; ch] = em S0 (ch :: 13 :: cur)).
        { cbn [em rev]. rewrite unstuff_snoc.
          - rewrite unstuff_snoc by (right; reflexivity). rewrite <- app_assoc. reflexivity.
          - left. intros Heq. apply app_eq_nil in Heq as [_ Heq]. discriminate. }
        apply (sim_eq _ _ _ _ He). apply (IH S0 (ch :: 13 :: cur)). cbn [R].
        split; [apply has_LF_cons; [exact Hlf | apply has_LF_cons; [reflexivity | exact Hl]]|].
        split; discriminate.
Qed.

(* ------------------------------------------------------------------ top-level statements *)
Lemma sblast_sim s : sim [] (sblast s) (rfc_decode s).
Proof. exact (sim_main s S1 [] eq_refl). Qed.

Lemma beq_refl l : beq l l = true.
Proof. apply beq_eq. reflexivity. Qed.

Theorem sblast_is_rfc_decode_l : forall s, sres_eqb (sblast s) (rfc_decode s) = true.
Proof.
  intros s. pose proof (sblast_sim s) as Hs.
  destruct (sblast s) as [x r| |x], (rfc_decode s) as [y q| |y]; cbn [sim] in Hs;
    try contradiction; try reflexivity.
  destruct Hs as [Hxy Hrq]. cbn [app] in Hxy. subst y q.
  cbn [sres_eqb]. rewrite !beq_refl. reflexivity.
Qed.

Theorem sblast_Done_iff : forall s b r, sblast s = Done b r <-> rfc_decode s = Done b r.
Proof.
  intros s b r. pose proof (sblast_sim s) as Hs.
  destruct (sblast s) as [x t| |x], (rfc_decode s) as [y q| |y]; cbn [sim] in Hs;
    try contradiction; try (split; intros Hd; discriminate Hd).
  destruct Hs as [Hxy Htq]. cbn [app] in Hxy. subst y q. split; intros Hd; exact Hd.
Qed.

Theorem sblast_Stray_iff : forall s, sblast s = Stray <-> rfc_decode s = Stray.
Proof.
  intros s. pose proof (sblast_sim s) as Hs.
  destruct (sblast s) as [x t| |x], (rfc_decode s) as [y q| |y]; cbn [sim] in Hs;
    try contradiction; split; intros Hd; try discriminate Hd; reflexivity.
Qed.

Theorem sblast_NeedMore_iff : forall s,
  (exists b, sblast s = NeedMore b) <-> (exists b, rfc_decode s = NeedMore b).
Proof.
  intros s. pose proof (sblast_sim s) as Hs.
  destruct (sblast s) as [x t| |x], (rfc_decode s) as [y q| |y]; cbn [sim] in Hs;
    try contradiction; split; intros [b Hd]; try discriminate Hd.
  - exists y. reflexivity.
  - exists x. reflexivity.
Qed.

Print Assumptions sblast_is_rfc_decode_l.
Print Assumptions sblast_Done_iff.
Print Assumptions sblast_Stray_iff.
Print Assumptions sblast_NeedMore_iff.
