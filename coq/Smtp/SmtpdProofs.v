From NQ Require Import Smtp.Smtpd.
Local Open Scope N_scope.

Definition s_rcpt : bytes := [114;99;112;116].
Definition s_mail : bytes := [109;97;105;108].

Lemma v_is_refl v : v_is v v = true.
Proof. unfold v_is. apply beq_eq. reflexivity. Qed.

(* ---------------------------------------------------------------- RCPT policy *)
Lemma rcpt_policy_l g st arg :
  (fst (cmd_step g st s_rcpt arg) = 250 <->
   t_seenmail st = true /\ exists a, addrparse g arg = Some a /\ t_barf st = false /\
     (g_relayclient g <> None \/ rcpthosts g a = true)).
Proof.
  unfold cmd_step. change (v_is s_rcpt [114;99;112;116]) with true. cbn [negb].
  destruct (t_seenmail st); cbn [negb].
  2:{ split; [discriminate|]. intros [H _]. discriminate. }
  destruct (addrparse g arg) as [a|].
  2:{ split; [discriminate|]. intros [_ (a & H & _)]. discriminate. }
  destruct (t_barf st).
  { split; [discriminate|]. intros [_ (a' & _ & H & _)]. discriminate. }
  destruct (g_relayclient g) as [rc|].
  - split; [intros _; split; [reflexivity|]; exists a; repeat split; left; discriminate|reflexivity].
  - destruct (rcpthosts g a) eqn:E.
    + split; [intros _; split; [reflexivity|]; exists a; repeat split; right; exact E|reflexivity].
    + split; [discriminate|]. intros [_ (a' & Ha & _ & [H|H])]; [contradiction|]. injection Ha as <-. congruence.
Qed.

(* what an accepted RCPT appends: the parsed address (local IP literal already replaced), plus the
   relay suffix exactly when relaying is enabled for the connection; a refused one changes nothing *)
Lemma rcpt_effect_l g st arg c st' :
  cmd_step g st s_rcpt arg = (c, st') ->
  (c = 250 /\ exists a, addrparse g arg = Some a /\
      st' = add_rcpt st (a ++ match g_relayclient g with Some rc => rc | None => [] end)) \/
  (c <> 250 /\ st' = st).
Proof.
  unfold cmd_step. change (v_is s_rcpt [114;99;112;116]) with true. cbn [negb].
  destruct (t_seenmail st); cbn [negb]; [|intros H; injection H as <- <-; right; split; [discriminate|reflexivity]].
  destruct (addrparse g arg) as [a|]; [|intros H; injection H as <- <-; right; split; [discriminate|reflexivity]].
  destruct (t_barf st); [intros H; injection H as <- <-; right; split; [discriminate|reflexivity]|].
  destruct (g_relayclient g) as [rc|].
  - intros H; injection H as <- <-. left. split; [reflexivity|]. exists a. auto.
  - destruct (rcpthosts g a); intros H; injection H as <- <-.
    + left. split; [reflexivity|]. exists a. rewrite app_nil_r. auto.
    + right. split; [discriminate|reflexivity].
Qed.

(* an accepted MAIL starts a fresh transaction; a refused one (555) changes nothing *)
Lemma mail_effect_l g st arg c st' :
  cmd_step g st s_mail arg = (c, st') ->
  (c = 250 /\ exists a, addrparse g arg = Some a /\ t_seenmail st' = true /\ t_mailfrom st' = a /\ t_rcpts st' = [] /\
                        t_barf st' = bmfcheck g a) \/
  (c = 555 /\ st' = st).
Proof.
  unfold cmd_step. change (v_is s_mail [114;99;112;116]) with false. change (v_is s_mail [109;97;105;108]) with true. cbn iota.
  destruct (addrparse g arg) as [a|]; intros H; injection H as <- <-; [left|right]; auto.
  split; [reflexivity|]. exists a. auto.
Qed.

(* the other verbs never add a recipient or change the sender; HELO, EHLO, RSET end the transaction *)
Lemma other_effect_l g st v arg :
  v_is v s_rcpt = false -> v_is v s_mail = false ->
  t_rcpts (snd (cmd_step g st v arg)) = t_rcpts st /\ t_mailfrom (snd (cmd_step g st v arg)) = t_mailfrom st /\
  (t_seenmail (snd (cmd_step g st v arg)) = t_seenmail st \/ t_seenmail (snd (cmd_step g st v arg)) = false).
Proof.
  intros H1 H2. unfold cmd_step. unfold s_rcpt, s_mail in *. rewrite H1, H2.
  destruct (v_is v [104;101;108;111] || v_is v [101;104;108;111]); [cbn; auto|].
  destruct (v_is v [114;115;101;116]); [cbn; auto|].
  destruct (v_is v [104;101;108;112]); [cbn; auto|].
  destruct (v_is v [110;111;111;112]); [cbn; auto|].
  destruct (v_is v [118;114;102;121]); cbn; auto.
Qed.
Lemma helo_rset_end_transaction g st v arg :
  (v_is v [104;101;108;111] || v_is v [101;104;108;111] || v_is v [114;115;101;116]) = true ->
  v_is v s_rcpt = false -> v_is v s_mail = false ->
  t_seenmail (snd (cmd_step g st v arg)) = false.
Proof.
  intros H H1 H2. unfold cmd_step. unfold s_rcpt, s_mail in *. rewrite H1, H2.
  destruct (v_is v [104;101;108;111] || v_is v [101;104;108;111]); [reflexivity|].
  cbn [orb] in H. rewrite H. reflexivity.
Qed.

(* ---------------------------------------------------------------- DATA *)
(* a message is handed to the queue only inside a transaction with at least one accepted recipient,
   with exactly the current sender and recipients; afterwards the transaction is over *)
Lemma data_submits_current_transaction_l g st rest qe qtxt c sub rest' :
  data_step g st rest qe qtxt = DSub c sub rest' ->
  t_seenmail st = true /\ t_rcpts st <> [] /\ u_sender sub = t_mailfrom st /\ u_rcpts sub = t_rcpts st /\
  exists body, sblast rest = Done body rest' /\ u_body sub = body.
Proof.
  unfold data_step. destruct (t_seenmail st); cbn [negb]; [|discriminate].
  destruct (t_rcpts st) as [|r0 rs] eqn:Er; [discriminate|].
  destruct (sblast rest) as [body r'| |]; try discriminate.
  intros H. injection H as <- <- <-. cbn. repeat split; try discriminate. exists body. auto.
Qed.
Lemma data_outside_transaction_l g st rest qe qtxt :
  t_seenmail st = false \/ t_rcpts st = [] -> data_step g st rest qe qtxt = DRefused 503.
Proof.
  unfold data_step. intros [H|H]; rewrite H; [reflexivity|]. destruct (t_seenmail st); reflexivity.
Qed.

(* acknowledgement (250) iff the envelope was completed and the queue program reported success *)
Lemma qq_class_flagerr e t : qq_class e t true <> QOk.
Proof.
  unfold qq_class. repeat (match goal with |- context [if ?b then _ else _] => destruct b end); try discriminate.
  destruct t as [|c0 t0]; [discriminate|]. destruct (c0 =? 68); discriminate.
Qed.

Lemma data_ack_iff_l g st rest qe qtxt c sub rest' :
  data_step g st rest qe qtxt = DSub c sub rest' ->
  (c = 250 <-> u_complete sub = true /\ qq_class qe qtxt false = QOk).
Proof.
  unfold data_step. destruct (t_seenmail st); cbn [negb]; [|discriminate].
  destruct (t_rcpts st) as [|r0 rs]; [discriminate|].
  destruct (sblast rest) as [body r'| |]; try discriminate.
  intros H. injection H as <- <- <-. cbn [u_complete].
  destruct (MAXHOPS <=? hops (firstn (length rest - length r') rest)) eqn:E1;
  destruct (negb (g_databytes g =? 0) && (g_databytes g <? N.of_nat (length body))) eqn:E2; cbn [negb andb].
  - pose proof (qq_class_flagerr qe qtxt). destruct (qq_class qe qtxt true); [contradiction| |]; split; try discriminate; intros [H' _]; discriminate.
  - pose proof (qq_class_flagerr qe qtxt). destruct (qq_class qe qtxt true); [contradiction| |]; split; try discriminate; intros [H' _]; discriminate.
  - pose proof (qq_class_flagerr qe qtxt). destruct (qq_class qe qtxt true); [contradiction| |]; split; try discriminate; intros [H' _]; discriminate.
  - destruct (qq_class qe qtxt false); split; try discriminate; auto; intros [_ H']; discriminate.
Qed.

(* size and hop limits *)
Lemma data_limits_l g st rest qe qtxt c sub rest' :
  data_step g st rest qe qtxt = DSub c sub rest' ->
  (u_complete sub = true <->
   hops (firstn (length rest - length rest') rest) < MAXHOPS /\
   (g_databytes g = 0 \/ N.of_nat (length (u_body sub)) <= g_databytes g)).
Proof.
  unfold data_step. destruct (t_seenmail st); cbn [negb]; [|discriminate].
  destruct (t_rcpts st) as [|r0 rs]; [discriminate|].
  destruct (sblast rest) as [body r'| |]; try discriminate.
  intros H. injection H as <- <- <-. cbn [u_complete u_body].
  destruct (N.leb_spec MAXHOPS (hops (firstn (length rest - length r') rest))); cbn [negb andb].
  - split; [discriminate|]. intros [H1 _]. lia.
  - destruct (N.eqb_spec (g_databytes g) 0) as [E|E]; cbn [negb andb].
    + split; auto.
    + destruct (N.ltb_spec (g_databytes g) (N.of_nat (length body))); cbn.
      * split; [discriminate|]. intros [_ [H1|H1]]; [contradiction|lia].
      * split; auto.
Qed.

(* ---------------------------------------------------------------- address length, rcpthosts *)
Lemma addrparse_length_l g arg a : addrparse g arg = Some a -> (length a < 900)%nat.
Proof.
  unfold addrparse.
  destruct (match chr_opt arg 60 with Some i => _ | None => _ end) as [term a1].
  match goal with |- context [if Nat.ltb 900 (S (length ?x)) then _ else _] => set (ad := x) end.
  destruct (Nat.ltb_spec 900 (S (length ad))) as [|Hle]; [discriminate|]. intros HH. injection HH as <-. lia.
Qed.

Lemma dom_suffixes_false d : forall sfx,
  In sfx (dom_suffixes false d) <-> exists p t, d = p ++ DOT :: t /\ sfx = DOT :: t.
Proof.
  induction d as [|c d IH]; intros sfx.
  - cbn. split; [contradiction|]. intros (p & t & H & _). destruct p; discriminate.
  - cbn [dom_suffixes orb]. rewrite in_app_iff, IH. split.
    + intros [H|(p & t & -> & ->)].
      * destruct (N.eqb_spec c DOT) as [->|]; [|contradiction]. destruct H as [<-|[]]. exists [], d. auto.
      * exists (c :: p), t. auto.
    + intros (p & t & Hd & ->). destruct p as [|c' p].
      * cbn in Hd. injection Hd as -> ->. left. rewrite N.eqb_refl. left. reflexivity.
      * cbn in Hd. injection Hd as -> ->. right. exists p, t. auto.
Qed.

(* the suffixes tried: the whole domain, and every suffix that starts at a dot *)
Lemma dom_suffixes_spec_l d sfx :
  In sfx (dom_suffixes true d) <->
  (sfx = d /\ d <> []) \/ exists p t, d = p ++ DOT :: t /\ sfx = DOT :: t /\ p <> [].
Proof.
  destruct d as [|c d]; [cbn; split; [contradiction|]; intros [[_ H]|(p & t & H & _)]; [contradiction|destruct p; discriminate]|].
  cbn [dom_suffixes orb]. rewrite in_app_iff, dom_suffixes_false. split.
  - intros [[<-|[]]|(p & t & -> & ->)].
    + left. split; [reflexivity|discriminate].
    + right. exists (c :: p), t. repeat split. discriminate.
  - intros [[-> _]|(p & t & Hd & -> & Hp)]; [left; left; reflexivity|].
    destruct p as [|c' p]; [contradiction|]. cbn in Hd. injection Hd as -> ->. right. exists p, t. auto.
Qed.

Lemma rcpthosts_spec_l g addr :
  rcpthosts g addr = true <->
  g_rcpthosts g = None \/ rchr_opt addr ATc = None \/
  exists rh j sfx, g_rcpthosts g = Some rh /\ rchr_opt addr ATc = Some j /\
    In sfx (dom_suffixes true (lowers (skipn (S j) addr))) /\
    (cm_has rh sfx = true \/ In sfx (g_morercpthosts g)).
Proof.
  unfold rcpthosts. destruct (g_rcpthosts g) as [rh|]; [|split; auto].
  destruct (rchr_opt addr ATc) as [j|]; [|split; auto].
  rewrite orb_true_iff, !existsb_exists. split.
  - intros [(sfx & Hin & Hc)|(sfx & Hin & Hc)]; right; right; exists rh, j, sfx; repeat split; auto.
    right. apply existsb_exists in Hc as (k & Hk & E). apply beq_eq in E. subst k. exact Hk.
  - intros [H|[H|(rh' & j' & sfx & E1 & E2 & Hin & Hc)]]; try discriminate.
    injection E1 as <-. injection E2 as <-. destruct Hc as [Hc|Hc]; [left|right]; exists sfx; split; auto.
    apply existsb_exists. exists sfx. split; [exact Hc|apply beq_eq; reflexivity].
Qed.
