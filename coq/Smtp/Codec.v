(* SMTP DATA codecs: model only (no proofs here, so it extracts even if a proof breaks).

   renc / rblast   : qmail-remote.c blast()   (outbound encoder, C06)
   sdec / sblast   : qmail-smtpd.c  blast()   (inbound decoder,  C05) + hop counter
   rfc_dec         : reference receiver of RFC 5321 4.5.2 written independently
   rfc_encode      : reference (conforming) sender
   canon           : "the lines of m": m split at LF, CR LF and bare CR

   The *_prefix variants transcribe the code as it was before the fix: commits
   (F1 qmail-remote.c, F3 qmail-smtpd.c); they are kept only for the refuted-witness
   examples. *)
From NQ Require Export Base.Bytes.
Local Open Scope N_scope.

Inductive cls := cCR | cLF | cDOT | cOTH.
Definition classify (c : N) : cls :=
  if c =? 13 then cCR else if c =? 10 then cLF else if c =? 46 then cDOT else cOTH.

(* ---------------------------------------------------------------- outbound encoder *)
(* RTop: top of the outer for(;;), about to read the first byte of a line
   RIn : inside while (ch != '\n'), a data byte was just written, about to read the next
   RCr : ch was CR, about to read the byte after it *)
Inductive rst := RTop | RIn | RCr.

(* the test at the top of the while loop, applied to a byte just read *)
Definition wt (ch : N) : bytes * rst :=
  match classify ch with
  | cLF => ([CR; LF], RTop)
  | cCR => ([], RCr)
  | _ => ([ch], RIn)
  end.

Definition rtop (ch : N) : bytes * rst :=
  let (o, s) := wt ch in ((if ch =? DOT then [DOT] else []) ++ o, s).

Definition rstep (st : rst) (ch : N) : bytes * rst :=
  match st with
  | RTop => rtop ch
  | RIn => wt ch
  | RCr => if ch =? LF then ([CR; LF], RTop)
           else let (o, s) := rtop ch in (CR :: LF :: o, s)
  end.

Fixpoint renc (st : rst) (m : bytes) : option bytes :=
  match m with
  | [] => match st with
          | RTop => Some [DOT; CR; LF]
          | RIn => None                              (* perm_partialline *)
          | RCr => Some [CR; LF; DOT; CR; LF]        (* CR at EOF ends the line *)
          end
  | ch :: m' => let (o, s) := rstep st ch in
                match renc s m' with Some r => Some (o ++ r) | None => None end
  end.
Definition rblast (m : bytes) : option bytes := renc RTop m.

(* before "fix: dot-stuff and re-scan the byte after a bare CR" *)
Definition rstep_prefix (st : rst) (ch : N) : bytes * rst :=
  match st with
  | RTop => rtop ch
  | RIn => wt ch
  | RCr => if ch =? LF then ([CR; LF], RTop) else ([CR; LF; ch], RIn)
  end.
Fixpoint renc_prefix (st : rst) (m : bytes) : option bytes :=
  match m with
  | [] => match st with RTop => Some [DOT; CR; LF] | RIn => None | RCr => Some [CR; LF; DOT; CR; LF] end
  | ch :: m' => let (o, s) := rstep_prefix st ch in
                match renc_prefix s m' with Some r => Some (o ++ r) | None => None end
  end.

(* the lines of a message, joined by LF; None iff the last line is unterminated *)
Inductive cst := KTop | KIn | KCr.
Fixpoint canon_from (st : cst) (m : bytes) : option bytes :=
  match m with
  | [] => match st with KTop => Some [] | KIn => None | KCr => Some [LF] end
  | ch :: m' =>
    match classify ch with
    | cLF => option_map (cons LF) (canon_from KTop m')
    | cCR => match st with
             | KCr => option_map (cons LF) (canon_from KCr m')
             | _ => canon_from KCr m'
             end
    | _ => match st with
           | KCr => option_map (fun r => LF :: ch :: r) (canon_from KIn m')
           | _ => option_map (cons ch) (canon_from KIn m')
           end
    end
  end.
Definition canon (m : bytes) := canon_from KTop m.

(* ---------------------------------------------------------------- inbound decoder *)
Inductive sst := S0 | S1 | S2 | S3 | S4.
Inductive sact := Emit (o : bytes) (s : sst) | AStray | ADone.

Definition sstep (st : sst) (ch : N) : sact :=
  match st, classify ch with
  | S0, cLF => AStray
  | S0, cCR => Emit [] S4
  | S0, _ => Emit [ch] S0
  | S1, cLF => AStray
  | S1, cDOT => Emit [] S2
  | S1, cCR => Emit [] S4
  | S1, _ => Emit [ch] S0
  | S2, cLF => AStray
  | S2, cCR => Emit [] S3
  | S2, _ => Emit [ch] S0
  | S3, cLF => ADone
  | S3, cCR => Emit [CR] S4
  | S3, _ => Emit [CR; ch] S0
  | S4, cLF => Emit [LF] S1
  | S4, cCR => Emit [CR] S4
  | S4, _ => Emit [CR; ch] S0
  end.

Inductive sres := Done (body rest : bytes) | Stray | NeedMore (body : bytes).

Definition prepend (o : bytes) (r : sres) : sres :=
  match r with
  | Done b rest => Done (o ++ b) rest
  | Stray => Stray
  | NeedMore b => NeedMore (o ++ b)
  end.

Fixpoint sdec (st : sst) (s : bytes) : sres :=
  match s with
  | [] => NeedMore []
  | ch :: s' => match sstep st ch with
                | Emit o st' => prepend o (sdec st' s')
                | AStray => Stray
                | ADone => Done [] s'
                end
  end.
Definition sblast (s : bytes) : sres := sdec S1 s.

(* before "fix: qmail-smtpd blast() removes the leading dot of a line starting . CR" *)
Definition sstep_prefix (st : sst) (ch : N) : sact :=
  match st, classify ch with
  | S3, cLF => ADone
  | S3, cCR => Emit [DOT; CR] S4
  | S3, _ => Emit [DOT; CR; ch] S0
  | _, _ => sstep st ch
  end.
Fixpoint sdec_prefix (st : sst) (s : bytes) : sres :=
  match s with
  | [] => NeedMore []
  | ch :: s' => match sstep_prefix st ch with
                | Emit o st' => prepend o (sdec_prefix st' s')
                | AStray => Stray
                | ADone => Done [] s'
                end
  end.

(* hop counter of blast(): a function of the raw bytes consumed (terminator included) *)
Record hst := { h_hops : N; h_inh : bool; h_pos : nat; h_x : bool; h_y : bool; h_z : bool }.
Definition hinit := {| h_hops := 0; h_inh := true; h_pos := 0; h_x := true; h_y := true; h_z := true |}.
Definition received_lc : bytes := [114;101;99;101;105;118;101;100].          (* "received" *)
Definition delivered_lc : bytes := [100;101;108;105;118;101;114;101;100].    (* "delivered" *)
Definition match_ci (tbl : bytes) (pos : nat) (ch : N) : bool :=
  match nth_error tbl pos with
  | Some c => (ch =? c) || (ch =? c - 32)
  | None => false
  end.
Definition hstep (h : hst) (ch : N) : hst :=
  if negb (h_inh h) then h else
  let h1 :=
    if Nat.ltb (h_pos h) 9 then
      let pos := h_pos h in
      let z := h_z h && match_ci delivered_lc pos ch in
      let hops1 := if z && Nat.eqb pos 8 then h_hops h + 1 else h_hops h in
      let x := if Nat.ltb pos 8 then h_x h && match_ci received_lc pos ch else h_x h in
      let hops2 := if x && Nat.eqb pos 7 then hops1 + 1 else hops1 in
      let y := if Nat.ltb pos 2 then h_y h && (ch =? nth pos [CR; LF] 0) else h_y h in
      let inh := if y && Nat.eqb pos 1 then false else true in
      {| h_hops := hops2; h_inh := inh; h_pos := S pos; h_x := x; h_y := y; h_z := z |}
    else h in
  if ch =? LF
  then {| h_hops := h_hops h1; h_inh := h_inh h1; h_pos := 0; h_x := true; h_y := true; h_z := true |}
  else h1.
Definition hops (raw : bytes) : N := h_hops (fold_left hstep raw hinit).

(* ---------------------------------------------------------------- RFC 5321 reference *)
Definition unstuff (l : bytes) : bytes :=
  match l with
  | c :: l' => if c =? DOT then l' else l
  | [] => []
  end.

(* [cur] is the current line, reversed.  Lines end at CR LF; the line "." ends the data;
   an LF inside a line (not preceded by CR) is a stray newline. *)
Fixpoint rfc_dec (cur : bytes) (s : bytes) : sres :=
  match s with
  | [] => if has LF cur then Stray else NeedMore []
  | c :: s' =>
    match s' with
    | d :: s'' =>
      if (c =? CR) && (d =? LF) then
        if has LF cur then Stray
        else if beq cur [DOT] then Done [] s''
        else prepend (unstuff (rev cur) ++ [LF]) (rfc_dec [] s'')
      else rfc_dec (c :: cur) s'
    | [] => rfc_dec (c :: cur) s'
    end
  end.
Definition rfc_decode (s : bytes) : sres := rfc_dec [] s.

(* conforming sender: m must be empty or LF-terminated; every line is sent with CR LF and
   a line starting with a dot gets one more *)
Fixpoint rfc_enc (atstart : bool) (m : bytes) : bytes :=
  match m with
  | [] => [DOT; CR; LF]
  | c :: m' =>
    if c =? LF then CR :: LF :: rfc_enc true m'
    else (if atstart && (c =? DOT) then [DOT] else []) ++ c :: rfc_enc false m'
  end.
Definition rfc_encode (m : bytes) : bytes := rfc_enc true m.

Definition lf_terminated (m : bytes) : bool := ends_lf true m.

(* ---------------------------------------------------------------- oracles *)
Definition TERM : bytes := [CR; LF; DOT; CR; LF].
Definition CRLF : bytes := [CR; LF].

Fixpoint no_bare_lf (prev : N) (s : bytes) : bool :=
  match s with
  | [] => true
  | c :: s' => (if c =? LF then prev =? CR else true) && no_bare_lf c s'
  end.

(* CRLF-delimited lines of a string; (lines, unterminated tail) *)
Fixpoint split_crlf (cur : bytes) (s : bytes) : list bytes * bytes :=
  match s with
  | [] => ([], rev cur)
  | c :: s' =>
    match s' with
    | d :: s'' =>
      if (c =? CR) && (d =? LF) then
        let (ls, t) := split_crlf [] s'' in (rev cur :: ls, t)
      else split_crlf (c :: cur) s'
    | [] => split_crlf (c :: cur) s'
    end
  end.

Definition line_stuffed (l : bytes) : bool :=
  negb (is_prefix [DOT] l) || is_prefix [DOT; DOT] l.
Definition line_clean (l : bytes) : bool := negb (has CR l) && negb (has LF l).

Definition stuffed_ok (out : bytes) : bool :=
  match split_crlf [] out with
  | (ls, []) =>
    match rev ls with
    | last :: body => beq last [DOT] && forallb line_stuffed body && forallb line_clean body
    | [] => false
    end
  | _ => false
  end.

Definition sres_eqb (a b : sres) : bool :=
  match a, b with
  | Done x r, Done y q => beq x y && beq r q
  | Stray, Stray => true
  | NeedMore _, NeedMore _ => true
  | _, _ => false
  end.

Definition cr_free (m : bytes) : bool := negb (has CR m).

(* everything C06 demands of the bytes [out] transmitted for message [m] *)
Definition sent_ok (o c : bytes) : bool :=
  Nat.eqb (occ TERM (CRLF ++ o)) 1 && is_suffix TERM (CRLF ++ o)
  && no_bare_lf 0 o && stuffed_ok o
  && sres_eqb (rfc_decode o) (Done c []) && sres_eqb (sblast o) (Done c []).

Definition ok_C06 (m : bytes) (out : option bytes) : bool :=
  match out, canon m with
  | None, None => true
  | None, Some _ => negb (lf_terminated m)   (* refusing is tolerated only for a message not ending in LF *)
  | Some o, Some c => sent_ok o c && (if cr_free m then beq c m else true)
  | Some o, None => match canon (m ++ [LF]) with Some c => sent_ok o c | None => false end
  end.

(* everything C05 demands of the decoder's result [r] on stream [s] *)
Definition framing_ok (s : bytes) (r : sres) : bool :=
  match r with
  | Done b rest =>
    let consumed := firstn (length s - length rest) s in
    beq (consumed ++ rest) s && is_suffix TERM (CRLF ++ consumed)
    && Nat.eqb (occ TERM (CRLF ++ consumed)) 1
  | NeedMore _ => Nat.eqb (occ TERM (CRLF ++ s)) 0 || negb (sres_eqb (rfc_decode s) (NeedMore []))
  | Stray => true
  end.
Definition ok_C05 (s : bytes) (r : sres) : bool :=
  sres_eqb r (rfc_decode s) && framing_ok s r.
