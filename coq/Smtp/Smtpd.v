(* qmail-smtpd.c: the SMTP session (commands.c dispatch, addrparse, bmfcheck, rcpthosts.c, smtp_data,
   received.c) and the qmail.c client library's verdict classes.  Model only (C07, C08). *)
From NQ Require Export Base.Commands Base.CInt Smtp.Codec.
From Coq Require Export Arith.
Local Open Scope N_scope.

Definition ci_eq (a b : bytes) : bool := beq (lowers a) (lowers b).
Definition cm_has (keys : list bytes) (key : bytes) : bool := existsb (fun k => ci_eq k key) keys.

Fixpoint rchr_opt (s : bytes) (c : N) : option nat :=
  match s with
  | [] => None
  | x :: s' => match rchr_opt s' c with
               | Some i => Some (S i)
               | None => if x =? c then Some 0%nat else None
               end
  end.
Fixpoint chr_opt (s : bytes) (c : N) : option nat :=
  match s with [] => None | x :: s' => if x =? c then Some 0%nat else option_map S (chr_opt s' c) end.

Definition ATc : N := 64.
(* ---- ip_scanbracket: "[a.b.c.d]" with each octet scan_ulong truncated to a byte *)
Definition scan_octet (s : bytes) : option (N * bytes) :=
  let (u, n) := scan_ulong s in if Nat.eqb n 0 then None else Some (u mod 256, skipn n s).
Definition scan_dot (s : bytes) : option bytes := match s with c :: s' => if c =? DOT then Some s' else None | [] => None end.
Definition ip_scanbracket (s : bytes) : option (list N * bytes) :=
  match s with
  | c :: s0 => if negb (c =? 91) then None else
    match scan_octet s0 with None => None | Some (a, s1) =>
    match scan_dot s1 with None => None | Some s1' =>
    match scan_octet s1' with None => None | Some (b, s2) =>
    match scan_dot s2 with None => None | Some s2' =>
    match scan_octet s2' with None => None | Some (cc, s3) =>
    match scan_dot s3 with None => None | Some s3' =>
    match scan_octet s3' with None => None | Some (d, s4) =>
    match s4 with e :: rest => if e =? 93 then Some ([a; b; cc; d], rest) else None | [] => None end
    end end end end end end end
  | [] => None
  end.

Record scfg := {
  g_greeting : bytes; g_liphost : option bytes; g_ipme : list (list N);
  g_rcpthosts : option (list bytes); g_morercpthosts : list bytes;
  g_bmf : option (list bytes); g_databytes : N; g_relayclient : option bytes;
  g_remotehost : bytes; g_remoteip : bytes; g_remoteinfo : option bytes; g_local : bytes
}.

Fixpoint drop_sp (s : bytes) : bytes := match s with c :: s' => if c =? 32 then drop_sp s' else s | [] => [] end.
Fixpoint skip_route (s : bytes) : bytes :=          (* skip through the first colon *)
  match s with [] => [] | c :: s' => if c =? 58 then s' else skip_route s' end.
Fixpoint copy_addr (s : bytes) (term : N) (esc quoted : bool) : bytes :=
  match s with
  | [] => []
  | ch :: s' =>
    if esc then ch :: copy_addr s' term false quoted
    else if negb quoted && (ch =? term) then []
    else if ch =? 92 then copy_addr s' term true quoted
    else if ch =? 34 then copy_addr s' term false (negb quoted)
    else ch :: copy_addr s' term false quoted
  end.

(* arg is a C string (no NUL); result None = 555 syntax error *)
Definition addrparse (g : scfg) (arg : bytes) : option bytes :=
  let (term, a1) :=
    match chr_opt arg 60 with
    | Some i => (62, skipn (S i) arg)
    | None => let a := match chr_opt arg 58 with Some k => skipn (S k) arg | None => [] end in (32, drop_sp a)
    end in
  let a2 := match a1 with c :: _ => if c =? ATc then skip_route a1 else a1 | [] => a1 end in
  let addr := copy_addr a2 term false false in
  let addr :=
    match g_liphost g with
    | None => addr
    | Some lh =>
      match rchr_opt addr ATc with
      | None => addr
      | Some i =>
        match ip_scanbracket (skipn (S i) addr) with
        | Some (ip, []) => if existsb (fun me => beq me ip) (g_ipme g) then firstn (S i) addr ++ lh else addr
        | _ => addr
        end
      end
    end in
  if Nat.ltb 900 (S (length addr)) then None else Some addr.

Definition bmfcheck (g : scfg) (addr : bytes) : bool :=
  match g_bmf g with
  | None => false
  | Some l => cm_has l addr ||
              match rchr_opt addr ATc with Some j => cm_has l (skipn j addr) | None => false end
  end.

(* rcpthosts(): every suffix of the lower-cased domain that starts at position 0 or at a dot *)
Fixpoint dom_suffixes (first : bool) (d : bytes) : list bytes :=
  match d with
  | [] => []
  | c :: d' => (if first || (c =? DOT) then [d] else []) ++ dom_suffixes false d'
  end.
Definition rcpthosts (g : scfg) (addr : bytes) : bool :=
  match g_rcpthosts g with
  | None => true
  | Some rh =>
    match rchr_opt addr ATc with
    | None => true
    | Some j =>
      let d := lowers (skipn (S j) addr) in
      existsb (fun sfx => cm_has rh sfx) (dom_suffixes true d) ||
      existsb (fun sfx => existsb (fun k => beq k sfx) (g_morercpthosts g)) (dom_suffixes true d)
    end
  end.

(* ---- received.c ---- *)
Definition issafe (c : N) : bool :=
  (c =? 46) || (c =? 64) || (c =? 37) || (c =? 43) || (c =? 47) || (c =? 61) || (c =? 58) || (c =? 45)
  || ((97 <=? c) && (c <=? 122)) || ((65 <=? c) && (c <=? 90)) || ((48 <=? c) && (c <=? 57)) || (c =? 91) || (c =? 93).
Definition safe (s : bytes) : bytes := map (fun c => if issafe c then c else 63) s.
Definition s_recv_from : bytes := [82;101;99;101;105;118;101;100;58;32;102;114;111;109;32].      (* "Received: from " *)
(* everything up to the date *)
Definition received_prefix (protocol : bytes) (g : scfg) (helo : option bytes) : bytes :=
  s_recv_from ++ safe (g_remotehost g) ++
  (match helo with Some h => [32;40;72;69;76;79;32] ++ safe h ++ [41] | None => [] end) ++
  [32; 40] ++ (match g_remoteinfo g with Some i => safe i ++ [64] | None => [] end) ++ safe (g_remoteip g) ++
  [41; 10; 32; 32; 98; 121; 32] ++ safe (g_local g) ++ [32;119;105;116;104;32] ++ protocol ++ [59; 32].

(* ---- qmail_close(): class of the queue program's exit status (82: custom text decides) ---- *)
Inductive qclass := QOk | QD | QZ.
Definition qq_class (exitcode : N) (custom : bytes) (flagerr : bool) : qclass :=
  if (exitcode =? 115) || (exitcode =? 11) || (exitcode =? 31) then QD
  else if exitcode =? 0 then (if flagerr then QZ else QOk)
  else if (exitcode =? 82) && Nat.ltb 2 (length custom) then (match custom with c :: _ => if c =? 68 then QD else QZ | [] => QZ end)
  else if (exitcode =? 51) || (exitcode =? 52) || (exitcode =? 53) || (exitcode =? 54) || (exitcode =? 55) || (exitcode =? 56)
       || (exitcode =? 61) || (exitcode =? 62) || (exitcode =? 63) || (exitcode =? 64) || (exitcode =? 65) || (exitcode =? 66)
       || (exitcode =? 71) || (exitcode =? 72) || (exitcode =? 73) || (exitcode =? 74) || (exitcode =? 81) || (exitcode =? 91) || (exitcode =? 120) then QZ
  else if (11 <=? exitcode) && (exitcode <=? 40) then QD else QZ.

(* ---- the session ---- *)
Definition MAXHOPS : N := 100.
Record sst := { t_seenmail : bool; t_barf : bool; t_mailfrom : bytes; t_rcpts : list bytes; t_helo : option bytes }.
(* what was handed to the queue program by one DATA *)
Record submission := { u_helo : option bytes; u_body : bytes; u_sender : bytes; u_rcpts : list bytes;
                       u_complete : bool;      (* the envelope was completed (no qmail_fail) *)
                       u_qexit : N }.
(* reply lines are identified by their code; texts are compared by the harness *)

Definition v_is (v : bytes) (s : list N) : bool := beq v s.
Definition fakehelo (g : scfg) (arg : bytes) : option bytes :=
  if ci_eq (g_remotehost g) arg then None else Some arg.

Definition set_seen (st : sst) (b : bool) : sst :=
  {| t_seenmail := b; t_barf := t_barf st; t_mailfrom := t_mailfrom st; t_rcpts := t_rcpts st; t_helo := t_helo st |}.
Definition add_rcpt (st : sst) (a : bytes) : sst :=
  {| t_seenmail := true; t_barf := t_barf st; t_mailfrom := t_mailfrom st; t_rcpts := t_rcpts st ++ [a]; t_helo := t_helo st |}.

(* every command except DATA and QUIT: reply code and new state *)
Definition cmd_step (g : scfg) (st : sst) (v arg : bytes) : N * sst :=
  if v_is v [114;99;112;116] then                                                       (* rcpt *)
    if negb (t_seenmail st) then (503, st) else
    match addrparse g arg with
    | None => (555, st)
    | Some a =>
      if t_barf st then (553, st) else
      match g_relayclient g with
      | Some rc => (250, add_rcpt st (a ++ rc))
      | None => if rcpthosts g a then (250, add_rcpt st a) else (553, st)
      end
    end
  else if v_is v [109;97;105;108] then                                                  (* mail *)
    match addrparse g arg with
    | None => (555, st)
    | Some a => (250, {| t_seenmail := true; t_barf := bmfcheck g a; t_mailfrom := a; t_rcpts := []; t_helo := t_helo st |})
    end
  else if v_is v [104;101;108;111] || v_is v [101;104;108;111] then                       (* helo / ehlo *)
    (250, {| t_seenmail := false; t_barf := t_barf st; t_mailfrom := t_mailfrom st; t_rcpts := t_rcpts st; t_helo := fakehelo g arg |})
  else if v_is v [114;115;101;116] then (250, set_seen st false)                          (* rset *)
  else if v_is v [104;101;108;112] then (214, st)
  else if v_is v [110;111;111;112] then (250, st)
  else if v_is v [118;114;102;121] then (252, st)
  else (502, st).

Inductive data_result :=
  | DRefused (code : N)                         (* 503: no transaction *)
  | DGone (codes : list N)                      (* client vanished or bare LF: session over *)
  | DSub (code : N) (sub : submission) (rest : bytes).

(* DATA: rest = the client's bytes after the DATA line; (qe, qtxt) = what the queue program will answer *)
Definition data_step (g : scfg) (st : sst) (rest : bytes) (qe : N) (qtxt : bytes) : data_result :=
  if negb (t_seenmail st) then DRefused 503 else
  match t_rcpts st with
  | [] => DRefused 503
  | _ =>
    match sblast rest with
    | NeedMore _ => DGone [354]
    | Stray => DGone [354; 451]
    | Done body rest' =>
      let consumed := firstn (length rest - length rest') rest in
      let toomany := MAXHOPS <=? hops consumed in
      let toobig := negb (g_databytes g =? 0) && (g_databytes g <? N.of_nat (length body)) in
      let complete := negb toomany && negb toobig in
      let sub := {| u_helo := t_helo st; u_body := body; u_sender := t_mailfrom st; u_rcpts := t_rcpts st; u_complete := complete; u_qexit := qe |} in
      let code := match qq_class qe qtxt (negb complete) with
                  | QOk => 250
                  | cls => if toomany then 554 else if toobig then 552 else match cls with QD => 554 | _ => 451 end
                  end in
      DSub code sub rest'
    end
  end.

(* qq: exit codes the queue program will give to successive DATA commands (custom text for 82) *)
Fixpoint session (fuel : nat) (g : scfg) (st : sst) (input : bytes) (qq : list (N * bytes)) : list N * list submission * option N :=
  match fuel with
  | O => ([], [], None)
  | S f =>
    match take_line input with
    | None => ([], [], Some 1)                       (* EOF / disconnect: die_read *)
    | Some (line, rest) =>
      let (v, arg) := split_command line in
      if v_is v [100;97;116;97] then                                                       (* data *)
        let '(qe, qtxt, qq') := match qq with (e, t) :: q' => (e, t, q') | [] => (0, [], []) end in
        match data_step g st rest qe qtxt with
        | DRefused c => let '(rs, ss, e) := session f g st rest qq in (c :: rs, ss, e)
        | DGone cs => (cs, [], Some 1)
        | DSub c sub rest' => let '(rs, ss, e) := session f g (set_seen st false) rest' qq' in (354 :: c :: rs, sub :: ss, e)
        end
      else if v_is v [113;117;105;116] then ([221], [], Some 0)                              (* quit *)
      else let (c, st') := cmd_step g st v arg in
           let '(rs, ss, e) := session f g st' rest qq in (c :: rs, ss, e)
    end
  end.
Definition st0 : sst := {| t_seenmail := false; t_barf := false; t_mailfrom := []; t_rcpts := []; t_helo := None |}.
Definition smtp_session (g : scfg) (input : bytes) (qq : list (N * bytes)) := session (S (length input)) g st0 input qq.
