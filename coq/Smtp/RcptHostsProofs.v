(* The concrete tables answer exactly as the abstract membership tests of the session model (Smtp/Smtpd.v). *)
From NQ Require Import Base.Bytes Base.Cdb Base.CdbProofs Base.CdbFast Base.CdbFastProofs Base.Constmap Local.NewU Smtp.Smtpd Smtp.RcptHosts.
From NQ Require Send.Route Send.ConstmapProofs.
Local Open Scope N_scope.

Lemma cm_has_same l s : Smtpd.cm_has l s = Route.cm_has l s.
Proof. reflexivity. Qed.

Lemma cm_hit_has lines s : Forall ConstmapProofs.bytes_ok lines -> ConstmapProofs.bytes_ok s ->
  cm_hit (constmap_init lines false) s = Smtpd.cm_has lines s.
Proof. intros Hl Hs. unfold cm_hit. rewrite cm_has_same. apply ConstmapProofs.constmap_plain; assumption. Qed.

Lemma existsb_ext_in {A} (f g : A -> bool) l : (forall x, In x l -> f x = g x) -> existsb f l = existsb g l.
Proof. induction l as [|x l IH]; intro H; cbn [existsb]; [reflexivity|].
  rewrite (H x) by (left; reflexivity). rewrite IH by (intros y Hy; apply H; right; exact Hy). reflexivity. Qed.

Lemma dom_suffixes_ok first d : bytes_ok d -> forall s, In s (dom_suffixes first d) -> bytes_ok s.
Proof.
  revert first; induction d as [|c d IH]; intros first Hd s Hs; [contradiction|].
  cbn [dom_suffixes] in Hs. apply in_app_or in Hs as [Hs|Hs].
  - destruct (first || (c =? DOT)); [|contradiction]. destruct Hs as [<-|[]]. exact Hd.
  - inversion Hd; subst. eapply IH; eauto.
Qed.

Lemma bytes_ok_skipn n s : bytes_ok s -> bytes_ok (skipn n s).
Proof. unfold bytes_ok. revert s; induction n as [|n IH]; intros s H; [exact H|]. destruct s; [constructor|]. inversion H; subst. apply IH. assumption. Qed.
Lemma lower_lt c : c < 256 -> lower c < 256.
Proof. unfold lower. intro H. destruct ((65 <=? c) && (c <=? 90)) eqn:E; [|exact H].
  apply andb_true_iff in E as [_ E]. apply N.leb_le in E. lia. Qed.
Lemma bytes_ok_lowers s : bytes_ok s -> bytes_ok (lowers s).
Proof. unfold bytes_ok, lowers. intro H. apply Forall_forall. intros x Hx. apply in_map_iff in Hx as [c [<- Hc]].
  apply lower_lt. rewrite Forall_forall in H. auto. Qed.

(* what cdb_seek answers on a file the writer produced *)
Lemma seek_make rs key : recs_ok rs -> bytes_ok key ->
  match cdb_seek (cdb_make rs) key with
  | SErr => False
  | SNone => find_first rs key = None
  | SFound _ _ => find_first rs key <> None
  end.
Proof.
  intros Hr Hk. pose proof (cdb_get_make rs key Hr Hk) as H. unfold cdb_get, get_spec in H.
  destruct (cdb_seek (cdb_make rs) key) as [| |dpos dlen].
  - destruct (find_first rs key); discriminate.
  - destruct (find_first rs key); [discriminate | reflexivity].
  - destruct (find_first rs key); [discriminate|].
    destruct (dlen =? 0); [discriminate|]. destruct (read_at (cdb_make rs) dpos (N.to_nat dlen)); discriminate.
Qed.

Lemma find_first_keys ks key : (find_first (map (fun k => (k, [])) ks) key <> None) <-> existsb (fun k => beq k key) ks = true.
Proof.
  induction ks as [|k ks IH]; cbn [map find_first existsb fst snd]; [split; [intro H; contradiction | discriminate]|].
  destruct (beq k key); cbn [orb]; [split; [reflexivity | discriminate]|]. exact IH.
Qed.

Lemma seek_first_make ks sfxs : recs_ok (map (fun k => (k, [])) ks) -> (forall s, In s sfxs -> bytes_ok s) ->
  seek_first (cdb_make (map (fun k => (k, [])) ks)) sfxs =
  if existsb (fun sfx => existsb (fun k => beq k sfx) ks) sfxs then RHYes else RHNo.
Proof.
  intros Hr. induction sfxs as [|s r IH]; intro Hs; cbn [seek_first existsb]; [reflexivity|]. rewrite cdb_seek_fast_eq.
  pose proof (seek_make _ s Hr (Hs s (or_introl eq_refl))) as H.
  destruct (cdb_seek (cdb_make (map (fun k => (k, [])) ks)) s) as [| |dpos dlen].
  - contradiction.
  - assert (E : existsb (fun k => beq k s) ks = false).
    { destruct (existsb (fun k => beq k s) ks) eqn:E; [|reflexivity]. apply find_first_keys in E. contradiction. }
    rewrite E. cbn [orb]. apply IH. intros x Hx. apply Hs. right. exact Hx.
  - apply find_first_keys in H. rewrite H. reflexivity.
Qed.

(* REQUIRED: with the tables built from the configuration and the extra list compiled by qmail-newmrh,
   rcpthosts() on the concrete tables never fails and answers as the session model's membership test *)
Theorem rcpthosts_concrete : forall g text addr,
  g_morercpthosts g = newmrh_keys text ->
  recs_ok (map (fun k => (k, [])) (newmrh_keys text)) ->
  (forall l, g_rcpthosts g = Some l -> Forall ConstmapProofs.bytes_ok l) -> bytes_ok addr ->
  rcpthosts_c (maprh_of g) (Some (newmrh_image text)) addr = if Smtpd.rcpthosts g addr then RHYes else RHNo.
Proof.
  intros g text addr Hm Hr Hl Ha. unfold rcpthosts_c, maprh_of, Smtpd.rcpthosts.
  destruct (g_rcpthosts g) as [rh|] eqn:Erh; cbn [option_map]; [|reflexivity].
  destruct (rchr_opt addr ATc) as [j|]; [|reflexivity].
  set (d := lowers (skipn (S j) addr)).
  assert (Hd : bytes_ok d) by (apply bytes_ok_lowers, bytes_ok_skipn; exact Ha).
  rewrite (existsb_ext_in (cm_hit (constmap_init rh false)) (fun sfx => Smtpd.cm_has rh sfx)).
  2:{ intros s Hs. apply cm_hit_has; [apply Hl; reflexivity | eapply dom_suffixes_ok; eauto]. }
  destruct (existsb (fun sfx => Smtpd.cm_has rh sfx) (dom_suffixes true d)); cbn [orb]; [reflexivity|].
  unfold newmrh_image. rewrite seek_first_make by (try exact Hr; apply dom_suffixes_ok; exact Hd).
  rewrite Hm. reflexivity.
Qed.

(* without the compiled list (file absent) *)
Theorem rcpthosts_concrete_nocdb : forall g addr,
  g_morercpthosts g = [] ->
  (forall l, g_rcpthosts g = Some l -> Forall ConstmapProofs.bytes_ok l) -> bytes_ok addr ->
  rcpthosts_c (maprh_of g) None addr = if Smtpd.rcpthosts g addr then RHYes else RHNo.
Proof.
  intros g addr Hm Hl Ha. unfold rcpthosts_c, maprh_of, Smtpd.rcpthosts.
  destruct (g_rcpthosts g) as [rh|] eqn:Erh; cbn [option_map]; [|reflexivity].
  destruct (rchr_opt addr ATc) as [j|]; [|reflexivity].
  set (d := lowers (skipn (S j) addr)).
  assert (Hd : bytes_ok d) by (apply bytes_ok_lowers, bytes_ok_skipn; exact Ha).
  rewrite (existsb_ext_in (cm_hit (constmap_init rh false)) (fun sfx => Smtpd.cm_has rh sfx)).
  2:{ intros s Hs. apply cm_hit_has; [apply Hl; reflexivity | eapply dom_suffixes_ok; eauto]. }
  rewrite Hm.
  destruct (existsb (fun sfx => Smtpd.cm_has rh sfx) (dom_suffixes true d)); cbn [orb]; [reflexivity|].
  induction (dom_suffixes true d) as [|x l IH]; [reflexivity | exact IH].
Qed.

(* whatever bytes morercpthosts.cdb holds: a positive answer from the file means a suffix of the domain is
   literally stored in it as a record key (seek_found_sound); an unreadable file is an error, never a match *)
Theorem rcpthosts_hostile_file : forall m f addr,
  rcpthosts_c (Some m) (Some f) addr = RHYes ->
  match rchr_opt addr ATc with
  | None => True
  | Some j =>
      let sfxs := dom_suffixes true (lowers (skipn (S j) addr)) in
      existsb (cm_hit m) sfxs = true \/
      exists s dpos dlen, In s sfxs /\ cdb_seek f s = SFound dpos dlen
  end.
Proof.
  intros m f addr H. unfold rcpthosts_c in H. destruct (rchr_opt addr ATc) as [j|]; [|exact I].
  cbv zeta. destruct (existsb (cm_hit m) (dom_suffixes true (lowers (skipn (S j) addr)))); [left; reflexivity|]. right.
  induction (dom_suffixes true (lowers (skipn (S j) addr))) as [|s r IH]; cbn [seek_first] in H; [discriminate|]. rewrite cdb_seek_fast_eq in H.
  destruct (cdb_seek f s) as [| |dpos dlen] eqn:E; [discriminate| |].
  - destruct (IH H) as [s' [dp [dl [Hin Hs]]]]. exists s', dp, dl. split; [right; exact Hin | exact Hs].
  - exists s, dpos, dlen. split; [left; reflexivity | exact E].
Qed.

Theorem bmfcheck_concrete : forall g addr,
  (forall l, g_bmf g = Some l -> Forall ConstmapProofs.bytes_ok l) -> bytes_ok addr ->
  bmfcheck_c (mapbmf_of g) addr = Smtpd.bmfcheck g addr.
Proof.
  intros g addr Hl Ha. unfold bmfcheck_c, mapbmf_of, Smtpd.bmfcheck.
  destruct (g_bmf g) as [l|] eqn:E; cbn [option_map]; [|reflexivity].
  rewrite cm_hit_has by (try (apply Hl; reflexivity); exact Ha).
  destruct (rchr_opt addr ATc) as [j|]; [|reflexivity].
  rewrite cm_hit_has by (try (apply Hl; reflexivity); apply bytes_ok_skipn; exact Ha). reflexivity.
Qed.
