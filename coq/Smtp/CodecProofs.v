(* Lemmas about the codec models. *)
From NQ Require Import Smtp.Codec.
Local Open Scope N_scope.

Lemma classify_cases ch :
  (ch = 13 /\ classify ch = cCR) \/ (ch = 10 /\ classify ch = cLF) \/
  (ch = 46 /\ classify ch = cDOT) \/
  (classify ch = cOTH /\ (ch =? 13) = false /\ (ch =? 10) = false /\ (ch =? 46) = false).
Proof.
  unfold classify.
  destruct (ch =? 13) eqn:E1; [apply N.eqb_eq in E1; auto|].
  destruct (ch =? 10) eqn:E2; [apply N.eqb_eq in E2; auto|].
  destruct (ch =? 46) eqn:E3; [apply N.eqb_eq in E3; auto 6|].
  right; right; right; auto.
Qed.

Ltac cls ch :=
  let H := fresh "Hc" in
  destruct (classify_cases ch) as [[-> H]|[[-> H]|[[-> H]|[H [? [? ?]]]]]].

(* ------------------------------------------------------------------------------------ *)
(* the package's own server decodes the client's encoding to the lines of the message   *)

Definition kst (st : rst) : cst := match st with RTop => KTop | RIn => KIn | RCr => KCr end.
Definition compat (st : rst) (d : sst) : Prop :=
  match st with RTop => d = S1 | RIn => d = S0 | RCr => d = S0 \/ d = S1 end.

Definition dec_rel (d : sst) (o : option bytes) (c : option bytes) : Prop :=
  match o, c with
  | Some out, Some cc => sdec d out = Done cc []
  | None, None => True
  | _, _ => False
  end.

Lemma prepend_Done o b r : prepend o (Done b r) = Done (o ++ b) r.
Proof. reflexivity. Qed.

Lemma renc_decodes m : forall st d, compat st d -> dec_rel d (renc st m) (canon_from (kst st) m).
Proof.
  induction m as [|ch m IH]; intros st d Hc.
  - destruct st; simpl in *; subst; try exact I; try reflexivity.
    destruct Hc; subst; reflexivity.
  - cbn [renc canon_from].
    cls ch.
    + (* CR *)
      destruct st; simpl in Hc; cbn.
      * subst d. specialize (IH RCr S1 (or_intror eq_refl)). cbn in IH.
        unfold dec_rel in *. destruct (renc RCr m), (canon_from KCr m); auto.
      * subst d. specialize (IH RCr S0 (or_introl eq_refl)). cbn in IH.
        unfold dec_rel in *. destruct (renc RCr m), (canon_from KCr m); auto.
      * specialize (IH RCr S1 (or_intror eq_refl)). cbn in IH.
        unfold dec_rel in *. destruct (renc RCr m), (canon_from KCr m); cbn; auto.
        destruct Hc; subst d; cbn; rewrite IH; reflexivity.
    + (* LF *)
      specialize (IH RTop S1 eq_refl). cbn in IH. unfold dec_rel in *.
      destruct st; simpl in Hc; cbn;
        destruct (renc RTop m), (canon_from KTop m); cbn; auto;
        try (subst d; cbn; rewrite IH; reflexivity).
      destruct Hc; subst d; cbn; rewrite IH; reflexivity.
    + (* DOT *)
      specialize (IH RIn S0 eq_refl). cbn in IH. unfold dec_rel in *.
      destruct st; simpl in Hc; cbn;
        destruct (renc RIn m), (canon_from KIn m); cbn; auto;
        try (subst d; cbn; rewrite IH; reflexivity).
      destruct Hc; subst d; cbn; rewrite IH; reflexivity.
    + (* other *)
      specialize (IH RIn S0 eq_refl). cbn in IH. unfold dec_rel in *.
      unfold rstep, rtop, wt, CR, LF, DOT in *. rewrite ?Hc0, ?H, ?H0, ?H1.
      destruct st; simpl in Hc; [ | | destruct Hc]; subst d; cbn;
        destruct (renc RIn m), (canon_from KIn m); cbn; auto;
        repeat (try unfold sstep; rewrite ?Hc0; cbn); rewrite IH; reflexivity.
Qed.

(* ------------------------------------------------------------------------------------ *)
(* framing: the decoder stops exactly at the first CR LF . CR LF of CRLF ++ stream       *)

Definition ctx (st : sst) : bytes :=
  match st with
  | S0 => [] | S1 => [13; 10] | S2 => [13; 10; 46] | S3 => [13; 10; 46; 13] | S4 => [13]
  end.

Ltac suffix_witness q Hq :=
  first [ exists q; cbn; rewrite <- Hq; reflexivity
        | eexists (_ :: q); cbn; rewrite <- Hq; reflexivity
        | eexists (_ :: _ :: q); cbn; rewrite <- Hq; reflexivity
        | eexists (_ :: _ :: _ :: q); cbn; rewrite <- Hq; reflexivity
        | eexists (_ :: _ :: _ :: _ :: q); cbn; rewrite <- Hq; reflexivity
        | eexists (_ :: _ :: _ :: _ :: _ :: q); cbn; rewrite <- Hq; reflexivity ].

Lemma sdec_Done_framing s : forall st b r,
  sdec st s = Done b r ->
  exists p, s = p ++ r /\ occ TERM (ctx st ++ p) = 1%nat /\ exists q, ctx st ++ p = q ++ TERM.
Proof.
  unfold TERM, CR, LF, DOT.
  induction s as [|ch s IH]; intros st b r H; [discriminate|].
  cbn [sdec] in H.
  destruct (sstep st ch) as [o st'| |] eqn:Es.
  - destruct (sdec st' s) eqn:E; cbn in H; try discriminate. injection H as <- <-.
    apply IH in E as (p' & -> & Hocc & q & Hq). exists (ch :: p'). split; [reflexivity|].
    unfold sstep in Es.
    destruct st; cls ch; rewrite ?Hc in Es; cbn in Es; try discriminate; injection Es as <- <-;
      cbn in Hocc, Hq |- *; rewrite ?H, ?H0, ?H1; cbn; (split; [exact Hocc | suffix_witness q Hq]).
  - discriminate.
  - injection H as <- <-. exists [ch]. unfold sstep in Es.
    destruct st; cls ch; rewrite ?Hc in Es; try discriminate.
    split; [reflexivity|split; [reflexivity|exists []; reflexivity]].
Qed.

Lemma sdec_NeedMore_noterm s : forall st b,
  sdec st s = NeedMore b -> occ TERM (ctx st ++ s) = 0%nat.
Proof.
  unfold TERM, CR, LF, DOT.
  induction s as [|ch s IH]; intros st b H.
  - destruct st; reflexivity.
  - cbn [sdec] in H.
    destruct (sstep st ch) as [o st'| |] eqn:Es; try discriminate.
    destruct (sdec st' s) eqn:E; cbn in H; try discriminate.
    apply IH in E. unfold sstep in Es.
    destruct st; cls ch; rewrite ?Hc in Es; cbn in Es; try discriminate; injection Es as <- <-;
      cbn in E |- *; rewrite ?H0, ?H1, ?H2; cbn; exact E.
Qed.

(* ------------------------------------------------------------------------------------ *)
Lemma renc_no_bare_lf m : forall st out p, renc st m = Some out -> no_bare_lf p out = true.
Proof.
  unfold CR, LF, DOT.
  induction m as [|ch m IH]; intros st out p H.
  - destruct st; cbn in H; try discriminate; injection H as <-; cbn;
      destruct (p =? 13); reflexivity.
  - cbn [renc] in H.
    destruct (rstep st ch) as [o s'] eqn:Es.
    destruct (renc s' m) as [r|] eqn:Er; [|discriminate]. injection H as <-.
    assert (IH' := fun p => IH s' r p Er).
    unfold rstep, rtop, wt, CR, LF, DOT in Es.
    destruct st; cls ch; rewrite ?Hc in Es; cbn in Es; rewrite ?H, ?H0, ?H1 in Es; cbn in Es;
      injection Es as <- <-; cbn; unfold LF, CR; rewrite ?H, ?H0, ?H1, ?IH'; cbn; unfold LF, CR; rewrite ?H, ?H0, ?H1;
      repeat match goal with |- context [if ?x =? 10 then _ else _] => destruct (x =? 10) end;
      rewrite ?andb_true_r; auto; destruct (p =? 13); auto.
Qed.

Lemma canon_from_crfree m : forall st,
  st <> KCr -> cr_free m = true ->
  canon_from st m = if ends_lf (match st with KTop => true | _ => false end) m then Some m else None.
Proof.
  unfold cr_free, CR, LF.
  induction m as [|ch m IH]; intros st Hst Hcr.
  - destruct st; try reflexivity. contradiction.
  - cbn [has] in Hcr. apply negb_true_iff, orb_false_iff in Hcr as [Hc1 Hc2].
    cbn [canon_from ends_lf].
    assert (Hm : negb (has 13 m) = true) by (rewrite Hc2; reflexivity).
    cls ch; rewrite ?Hc; [cbn in Hc1; discriminate| | |].
    + rewrite IH; [|discriminate|exact Hm]. cbn.
      destruct (ends_lf true m); reflexivity.
    + rewrite (IH KIn); [|discriminate|exact Hm]. cbn.
      destruct st; try contradiction; destruct (ends_lf false m); reflexivity.
    + rewrite (IH KIn); [|discriminate|exact Hm]. unfold LF. rewrite H0.
      destruct st; try contradiction; destruct (ends_lf false m); reflexivity.
Qed.

(* ------------------------------------------------------------------------------------ *)
(* top-level statements about the outbound encoder *)

Lemma rblast_roundtrip m out :
  rblast m = Some out -> exists c, canon m = Some c /\ sblast out = Done c [].
Proof.
  intros H. pose proof (renc_decodes m RTop S1 eq_refl) as R.
  unfold rblast in H. unfold dec_rel in R. rewrite H in R. unfold canon.
  cbn [kst] in R. destruct (canon_from KTop m) as [c|]; [|contradiction].
  exists c. split; [reflexivity | exact R].
Qed.

Lemma rblast_refuses_iff m : rblast m = None <-> canon m = None.
Proof.
  pose proof (renc_decodes m RTop S1 eq_refl) as R. unfold dec_rel, rblast, canon in *.
  cbn [kst] in R. destruct (renc RTop m), (canon_from KTop m); split; intro; try discriminate; try contradiction; reflexivity.
Qed.

Lemma rblast_single_terminator m out :
  rblast m = Some out ->
  occ TERM (CRLF ++ out) = 1%nat /\ exists q, CRLF ++ out = q ++ TERM.
Proof.
  intros H. destruct (rblast_roundtrip m out H) as (c & _ & Hd).
  apply sdec_Done_framing in Hd as (p & Hp & Hocc & Hq).
  rewrite app_nil_r in Hp. subst p. exact (conj Hocc Hq).
Qed.

Lemma rblast_no_bare_lf m out : rblast m = Some out -> no_bare_lf 0 out = true.
Proof. intros H. exact (renc_no_bare_lf m RTop out 0 H). Qed.

Lemma rblast_transparent_crfree m :
  cr_free m = true -> lf_terminated m = true ->
  exists out, rblast m = Some out /\ sblast out = Done m [].
Proof.
  intros Hcr Hlf.
  pose proof (canon_from_crfree m KTop ltac:(discriminate) Hcr) as Hc.
  unfold lf_terminated in Hlf. cbn beta iota in Hc. rewrite Hlf in Hc.
  destruct (rblast m) as [out|] eqn:E.
  - exists out. split; [reflexivity|].
    destruct (rblast_roundtrip m out E) as (c & Hc' & Hd). unfold canon in Hc'. congruence.
  - apply rblast_refuses_iff in E. unfold canon in E. congruence.
Qed.

(* ------------------------------------------------------------------------------------ *)
(* inbound decoder: a bare LF is never accepted; conforming senders round-trip *)

Definition prevb (st : sst) : N := match st with S3 | S4 => 13 | _ => 0 end.

Lemma nbl_ext p q s : (p =? 13) = (q =? 13) -> no_bare_lf p s = no_bare_lf q s.
Proof. destruct s as [|c s]; [reflexivity|]. cbn. unfold CR. intros ->. reflexivity. Qed.

Ltac nbl_close Hp :=
  first [ exact Hp
        | match goal with |- no_bare_lf ?x _ = _ =>
            rewrite (nbl_ext x 0); [exact Hp | cbn; try assumption; reflexivity] end
        | match goal with |- no_bare_lf ?x _ = _ =>
            rewrite (nbl_ext x 13); [exact Hp | cbn; try assumption; reflexivity] end ].

Lemma sdec_Done_no_bare_lf s : forall st b r,
  sdec st s = Done b r -> exists p, s = p ++ r /\ no_bare_lf (prevb st) p = true.
Proof.
  unfold CR, LF, DOT.
  induction s as [|ch s IH]; intros st b r H; [discriminate|].
  cbn [sdec] in H.
  destruct (sstep st ch) as [o st'| |] eqn:Es.
  - destruct (sdec st' s) eqn:E; cbn in H; try discriminate. injection H as <- <-.
    apply IH in E as (p' & -> & Hp). exists (ch :: p'). split; [reflexivity|].
    unfold sstep in Es.
    destruct st; cls ch; rewrite ?Hc in Es; cbn in Es; try discriminate; injection Es as <- <-;
      cbn in Hp |- *; unfold LF, CR; rewrite ?H, ?H0, ?H1; cbn; nbl_close Hp.
  - discriminate.
  - injection H as <- <-. exists [ch]. unfold sstep in Es.
    destruct st; cls ch; rewrite ?Hc in Es; try discriminate.
    split; reflexivity.
Qed.

Lemma sdec_Stray_bare_lf s : forall st,
  sdec st s = Stray ->
  exists p r, s = p ++ 10 :: r /\ no_bare_lf (prevb st) (p ++ [10]) = false /\
              occ TERM (ctx st ++ p) = 0%nat.
Proof.
  unfold TERM, CR, LF, DOT.
  induction s as [|ch s IH]; intros st H; [discriminate|].
  cbn [sdec] in H.
  destruct (sstep st ch) as [o st'| |] eqn:Es.
  - destruct (sdec st' s) eqn:E; cbn in H; try discriminate.
    apply IH in E as (p' & r & -> & Hp & Hocc). exists (ch :: p'), r. split; [reflexivity|].
    unfold sstep in Es.
    destruct st; cls ch; rewrite ?Hc in Es; cbn in Es; try discriminate; injection Es as <- <-;
      cbn in Hp, Hocc |- *; unfold LF, CR; rewrite ?H0, ?H1, ?H2; cbn; (split; [nbl_close Hp | exact Hocc]).
  - exists [], s. unfold sstep in Es.
    destruct st; cls ch; rewrite ?Hc in Es; try discriminate; (split; [reflexivity|split; reflexivity]).
  - discriminate.
Qed.

Lemma sdec_rfc_enc m :
  (ends_lf true m = true -> sdec S1 (rfc_enc true m) = Done m []) /\
  (ends_lf false m = true -> sdec S0 (rfc_enc false m) = Done m []) /\
  (ends_lf false m = true -> sdec S4 (rfc_enc false m) = Done (13 :: m) []).
Proof.
  unfold CR, LF, DOT.
  induction m as [|c m (IH1 & IH0 & IH4)].
  - repeat split; intro H; try discriminate; reflexivity.
  - cbn [ends_lf rfc_enc]. unfold LF, DOT, CR.
    cls c; rewrite ?H, ?H0, ?H1; cbn; unfold sstep; rewrite ?Hc; cbn.
    + repeat split; intro E; rewrite ?(IH4 E); reflexivity.
    + repeat split; intro E; rewrite ?(IH1 E); reflexivity.
    + repeat split; intro E; rewrite ?(IH0 E); reflexivity.
    + repeat split; intro E; rewrite ?(IH0 E); reflexivity.
Qed.

Lemma sblast_framing s b r :
  sblast s = Done b r ->
  exists p, s = p ++ r /\ occ TERM (CRLF ++ p) = 1%nat /\ (exists q, CRLF ++ p = q ++ TERM)
            /\ no_bare_lf 10 p = true.
Proof.
  intros H. destruct (sdec_Done_framing s S1 b r H) as (p & Hp & Ho & Hq).
  destruct (sdec_Done_no_bare_lf s S1 b r H) as (p' & Hp' & Hn).
  assert (p = p') by (apply (app_inv_tail r); congruence). subst p'.
  exists p. repeat split; try assumption.
  rewrite (nbl_ext 10 0); [exact Hn | reflexivity].
Qed.

Lemma sblast_needmore s b : sblast s = NeedMore b -> occ TERM (CRLF ++ s) = 0%nat.
Proof. exact (sdec_NeedMore_noterm s S1 b). Qed.

Lemma sblast_stray s :
  sblast s = Stray ->
  exists p r, s = p ++ 10 :: r /\ no_bare_lf 10 (p ++ [10]) = false /\ occ TERM (CRLF ++ p) = 0%nat.
Proof.
  intros H. destruct (sdec_Stray_bare_lf s S1 H) as (p & r & Hs & Hn & Ho).
  exists p, r. repeat split; try assumption.
  rewrite (nbl_ext 10 0); [exact Hn | reflexivity].
Qed.

Lemma sblast_rfc_encode m : lf_terminated m = true -> sblast (rfc_encode m) = Done m [].
Proof. exact (proj1 (sdec_rfc_enc m)). Qed.
