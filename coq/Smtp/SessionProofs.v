(* C08, composition over the command list.
   The per-handler theorems (Smtp/SmtpdProofs.v) speak about one cmd_step / data_step.  Here they are
   composed over the whole [session] loop: the session is replayed as a log of externally visible
   events (command verb, argument, reply code(s), and what was handed to the queue program), and an
   independent reference tracker that looks ONLY at that log (never at the model state [sst]) predicts
   the envelope of every submission. *)
From NQ Require Import Smtp.Smtpd Smtp.SmtpdProofs.
Local Open Scope N_scope.

(* ---------------------------------------------------------------- the log *)
Inductive event :=
  | EvCmd (v arg : bytes) (code : N)          (* any verb except DATA and QUIT: one reply *)
  | EvQuit                                    (* 221 *)
  | EvDataRefused (code : N)                  (* DATA answered without 354 *)
  | EvDataGone (codes : list N)               (* DATA answered 354, client vanished / bare LF: nothing handed over, session over *)
  | EvDataDone (code : N) (sub : submission). (* DATA answered 354, message read to the end, handed to the queue, final code *)

Definition s_data : bytes := [100;97;116;97].
Definition s_quit : bytes := [113;117;105;116].
Definition s_helo : bytes := [104;101;108;111].
Definition s_ehlo : bytes := [101;104;108;111].
Definition s_rset : bytes := [114;115;101;116].

(* twin of [session] that returns the event log instead of the bare reply codes *)
Fixpoint session_log (fuel : nat) (g : scfg) (st : sst) (input : bytes) (qq : list (N * bytes)) : list event * option N :=
  match fuel with
  | O => ([], None)
  | S f =>
    match take_line input with
    | None => ([], Some 1)
    | Some (line, rest) =>
      let (v, arg) := split_command line in
      if v_is v s_data then
        let '(qe, qtxt, qq') := match qq with (e, t) :: q' => (e, t, q') | [] => (0, [], []) end in
        match data_step g st rest qe qtxt with
        | DRefused c => let (l, e) := session_log f g st rest qq in (EvDataRefused c :: l, e)
        | DGone cs => ([EvDataGone cs], Some 1)
        | DSub c sub rest' => let (l, e) := session_log f g (set_seen st false) rest' qq' in (EvDataDone c sub :: l, e)
        end
      else if v_is v s_quit then ([EvQuit], Some 0)
      else let (c, st') := cmd_step g st v arg in
           let (l, e) := session_log f g st' rest qq in (EvCmd v arg c :: l, e)
    end
  end.

Definition ev_codes (ev : event) : list N :=
  match ev with
  | EvCmd _ _ c => [c]
  | EvQuit => [221]
  | EvDataRefused c => [c]
  | EvDataGone cs => cs
  | EvDataDone c _ => [354; c]
  end.
Definition ev_subs (ev : event) : list submission :=
  match ev with EvDataDone _ sub => [sub] | _ => [] end.
Definition log_codes (l : list event) : list N := flat_map ev_codes l.
Definition log_subs (l : list event) : list submission := flat_map ev_subs l.

(* [session] is exactly the projection of [session_log]: same replies, same submissions, same exit *)
Theorem session_is_projection : forall fuel g st input qq,
  session fuel g st input qq =
  (log_codes (fst (session_log fuel g st input qq)),
   log_subs (fst (session_log fuel g st input qq)),
   snd (session_log fuel g st input qq)).
Proof.
  induction fuel as [|f IH]; intros g st input qq; [reflexivity|].
  cbn [session session_log].
  destruct (take_line input) as [[line rest]|]; [|reflexivity].
  destruct (split_command line) as [v arg].
  change [100;97;116;97] with s_data. change [113;117;105;116] with s_quit.
  destruct (v_is v s_data).
  - destruct (match qq with (e, t) :: q' => (e, t, q') | [] => (0, [], []) end) as [[qe qtxt] qq'].
    destruct (data_step g st rest qe qtxt) as [c|cs|c sub rest'].
    + rewrite (IH g st rest qq). destruct (session_log f g st rest qq) as [l e]. reflexivity.
    + cbn. rewrite app_nil_r. reflexivity.
    + rewrite (IH g (set_seen st false) rest' qq'). destruct (session_log f g (set_seen st false) rest' qq') as [l e]. reflexivity.
  - destruct (v_is v s_quit); [reflexivity|].
    destruct (cmd_step g st v arg) as [c st'].
    rewrite (IH g st' rest qq). destruct (session_log f g st' rest qq) as [l e]. reflexivity.
Qed.

(* ---------------------------------------------------------------- the reference tracker *)
(* The address a handler stores for an accepted command, as stated by mail_effect_l / rcpt_effect_l:
   the parsed address, for RCPT followed by the relay suffix when relaying is enabled. *)
Definition parsed (g : scfg) (arg : bytes) : bytes := match addrparse g arg with Some a => a | None => [] end.
Definition relay_suffix (g : scfg) : bytes := match g_relayclient g with Some rc => rc | None => [] end.

Definition env := option (bytes * list bytes).     (* open transaction: sender, accepted recipients *)

Definition ref_step (g : scfg) (s : env) (ev : event) : env :=
  match ev with
  | EvCmd v arg c =>
    if c =? 250 then
      if beq v s_mail then Some (parsed g arg, [])
      else if beq v s_rcpt then
        match s with Some (m, rs) => Some (m, rs ++ [parsed g arg ++ relay_suffix g]) | None => None end
      else if beq v s_helo || beq v s_ehlo || beq v s_rset then None
      else s
    else s
  | EvDataDone _ _ => None
  | _ => s
  end.

(* what the reference expects to be handed over, one entry per completed DATA *)
Fixpoint ref_subs (g : scfg) (s : env) (l : list event) : list (bytes * list bytes) :=
  match l with
  | [] => []
  | ev :: l' =>
    match ev with
    | EvDataDone _ _ => match s with Some (m, rs) => [(m, rs)] | None => [] end
    | _ => []
    end ++ ref_subs g (ref_step g s ev) l'
  end.

Definition in_transaction_with_rcpt (s : env) : bool :=
  match s with Some (_, _ :: _) => true | _ => false end.

(* sequencing conditions on a log, stated purely on the log and the tracker state:
   - a DATA is answered 354 exactly in a transaction with at least one accepted recipient
     (otherwise it is answered 503);
   - a RCPT is answered 503 exactly outside a transaction (so never 250 outside one);
   - a MAIL is answered 250 or 555; HELO/EHLO/RSET are always answered 250;
   - a completed DATA hands over a non-empty recipient list. *)
Definition ev_ok (s : env) (ev : event) : bool :=
  match ev with
  | EvCmd v arg c =>
    if beq v s_rcpt then Bool.eqb (c =? 503) (match s with None => true | Some _ => false end)
    else if beq v s_mail then (c =? 250) || (c =? 555)
    else if beq v s_helo || beq v s_ehlo || beq v s_rset then c =? 250
    else negb (c =? 503)
  | EvQuit => true
  | EvDataRefused c => (c =? 503) && negb (in_transaction_with_rcpt s)
  | EvDataGone cs => in_transaction_with_rcpt s && match cs with c :: _ => c =? 354 | [] => false end
  | EvDataDone _ sub => in_transaction_with_rcpt s && match u_rcpts sub with [] => false | _ => true end
  end.
Fixpoint ref_ok (g : scfg) (s : env) (l : list event) : bool :=
  match l with
  | [] => true
  | ev :: l' => ev_ok s ev && ref_ok g (ref_step g s ev) l'
  end.

(* ---------------------------------------------------------------- the simulation *)
(* how the model state corresponds to the tracker state (used only in the proof) *)
Definition rel (st : sst) (s : env) : Prop :=
  match s with
  | None => t_seenmail st = false
  | Some (m, rs) => t_seenmail st = true /\ t_mailfrom st = m /\ t_rcpts st = rs
  end.

Lemma rel_st0 : rel st0 None.
Proof. reflexivity. Qed.

Lemma cmd_step_rel g st s v arg c st' :
  rel st s -> cmd_step g st v arg = (c, st') ->
  rel st' (ref_step g s (EvCmd v arg c)) /\ ev_ok s (EvCmd v arg c) = true.
Proof.
  intros Hrel. unfold cmd_step, ref_step, ev_ok. unfold v_is.
  change [114;99;112;116] with s_rcpt. change [109;97;105;108] with s_mail.
  change [104;101;108;111] with s_helo. change [101;104;108;111] with s_ehlo. change [114;115;101;116] with s_rset.
  destruct (beq v s_rcpt) eqn:Ercpt.
  { (* rcpt *)
    assert (Hnm : beq v s_mail = false).
    { apply beq_eq in Ercpt. subst v. reflexivity. }
    rewrite Hnm.
    destruct s as [[m rs]|]; cbn [rel] in Hrel.
    - destruct Hrel as (Hs & Hm & Hr). rewrite Hs. cbn [negb].
      unfold parsed, relay_suffix.
      destruct (addrparse g arg) as [a|]; [|intros H; injection H as <- <-; split; [cbn; auto|reflexivity]].
      destruct (t_barf st); [intros H; injection H as <- <-; split; [cbn; auto|reflexivity]|].
      destruct (g_relayclient g) as [rc|].
      + intros H; injection H as <- <-. split; [|reflexivity].
        change (250 =? 250) with true. cbn iota. cbn [rel add_rcpt t_seenmail t_mailfrom t_rcpts]. rewrite Hr. auto.
      + destruct (rcpthosts g a); intros H; injection H as <- <-.
        * split; [|reflexivity].
          change (250 =? 250) with true. cbn iota. cbn [rel add_rcpt t_seenmail t_mailfrom t_rcpts]. rewrite Hr, app_nil_r. auto.
        * split; [cbn; auto|reflexivity].
    - rewrite Hrel. cbn [negb]. intros H; injection H as <- <-. split; [exact Hrel|reflexivity]. }
  destruct (beq v s_mail) eqn:Email.
  { (* mail *)
    cbv iota. unfold parsed. destruct (addrparse g arg) as [a|]; intros H; injection H as <- <-.
    - split; [|reflexivity]. change (250 =? 250) with true. cbn iota. cbn. auto.
    - split; [|reflexivity]. change (555 =? 250) with false. cbn iota. exact Hrel. }
  destruct (beq v s_helo || beq v s_ehlo) eqn:Ehelo.
  { cbv iota. intros H; injection H as <- <-. cbn [orb]. split; reflexivity. }
  cbn [orb]. cbv iota.
  destruct (beq v s_rset) eqn:Erset.
  { cbv iota. intros H; injection H as <- <-. split; reflexivity. }
  cbv iota.
  destruct (beq v [104;101;108;112]); [intros H; injection H as <- <-; split; [exact Hrel|reflexivity]|].
  destruct (beq v [110;111;111;112]); [intros H; injection H as <- <-; split; [exact Hrel|reflexivity]|].
  destruct (beq v [118;114;102;121]); intros H; injection H as <- <-; split; try exact Hrel; reflexivity.
Qed.

Lemma rel_in_transaction st s : rel st s ->
  in_transaction_with_rcpt s = t_seenmail st && match t_rcpts st with [] => false | _ => true end.
Proof.
  destruct s as [[m rs]|]; cbn [rel].
  - intros (-> & _ & ->). destruct rs; reflexivity.
  - intros ->. reflexivity.
Qed.

Definition env_of (sub : submission) : bytes * list bytes := (u_sender sub, u_rcpts sub).

Lemma data_step_rel g st s rest qe qtxt : rel st s ->
  match data_step g st rest qe qtxt with
  | DRefused c => ev_ok s (EvDataRefused c) = true
  | DGone cs => ev_ok s (EvDataGone cs) = true
  | DSub c sub _ => ev_ok s (EvDataDone c sub) = true /\ s = Some (env_of sub)
  end.
Proof.
  intros Hrel. pose proof (rel_in_transaction st s Hrel) as Hin.
  unfold data_step, ev_ok. rewrite Hin.
  destruct (t_seenmail st) eqn:Hs; cbn [negb andb]; [|reflexivity].
  destruct (t_rcpts st) as [|r0 rs] eqn:Hr; [reflexivity|].
  destruct (sblast rest) as [body rest'| |]; try reflexivity.
  cbn [u_rcpts]. split; [reflexivity|].
  destruct s as [[m rs']|]; cbn [rel] in Hrel.
  - destruct Hrel as (_ & <- & Hr'). unfold env_of. cbn [u_sender u_rcpts]. congruence.
  - congruence.
Qed.

(* ---------------------------------------------------------------- the composition theorem *)
Theorem session_log_matches_reference : forall fuel g st input qq s,
  rel st s ->
  let l := fst (session_log fuel g st input qq) in
  map env_of (log_subs l) = ref_subs g s l /\ ref_ok g s l = true.
Proof.
  induction fuel as [|f IH]; intros g st input qq s Hrel; [split; reflexivity|].
  cbn [session_log].
  destruct (take_line input) as [[line rest]|]; [|split; reflexivity].
  destruct (split_command line) as [v arg].
  destruct (v_is v s_data).
  - destruct (match qq with (e, t) :: q' => (e, t, q') | [] => (0, [], []) end) as [[qe qtxt] qq'].
    pose proof (data_step_rel g st s rest qe qtxt Hrel) as Hd.
    destruct (data_step g st rest qe qtxt) as [c|cs|c sub rest'].
    + specialize (IH g st rest qq s Hrel). destruct (session_log f g st rest qq) as [l e].
      cbn [fst] in *. destruct IH as [IH1 IH2]. cbn [ref_subs ref_ok ref_step log_subs flat_map ev_subs app] in *.
      rewrite Hd, IH2. split; [exact IH1|reflexivity].
    + cbn [fst ref_subs ref_ok ref_step log_subs flat_map ev_subs app map]. rewrite Hd. split; reflexivity.
    + destruct Hd as [Hok Hs].
      assert (Hrel' : rel (set_seen st false) None) by reflexivity.
      specialize (IH g (set_seen st false) rest' qq' None Hrel').
      destruct (session_log f g (set_seen st false) rest' qq') as [l e].
      cbn [fst] in *. destruct IH as [IH1 IH2]. cbn [ref_subs ref_ok ref_step log_subs flat_map ev_subs app map] in *.
      rewrite Hok, IH2. split; [|reflexivity]. rewrite Hs. change (env_of sub) with (u_sender sub, u_rcpts sub). cbv iota. cbn [app]. f_equal. exact IH1.
  - destruct (v_is v s_quit); [split; reflexivity|].
    destruct (cmd_step g st v arg) as [c st'] eqn:Ec.
    destruct (cmd_step_rel g st s v arg c st' Hrel Ec) as [Hrel' Hok].
    specialize (IH g st' rest qq _ Hrel').
    destruct (session_log f g st' rest qq) as [l e].
    cbn [fst] in *. destruct IH as [IH1 IH2].
    cbn [ref_subs ref_ok log_subs flat_map ev_subs app]. rewrite Hok, IH2. split; [exact IH1|reflexivity].
Qed.

(* the same, for the real model function [session] started in the initial state: the submissions it
   returns carry, in order, exactly the envelopes the reference computes from the log *)
Theorem session_submissions_match_reference : forall fuel g input qq,
  let l := fst (session_log fuel g st0 input qq) in
  fst (fst (session fuel g st0 input qq)) = log_codes l /\
  map env_of (snd (fst (session fuel g st0 input qq))) = ref_subs g None l /\
  ref_ok g None l = true.
Proof.
  intros fuel g input qq l. rewrite session_is_projection. cbn [fst snd]. split; [reflexivity|].
  exact (session_log_matches_reference fuel g st0 input qq None rel_st0).
Qed.

Corollary smtp_session_submissions_match_reference : forall g input qq,
  let l := fst (session_log (S (length input)) g st0 input qq) in
  fst (fst (smtp_session g input qq)) = log_codes l /\
  map env_of (snd (fst (smtp_session g input qq))) = ref_subs g None l /\
  ref_ok g None l = true.
Proof. intros g input qq. exact (session_submissions_match_reference (S (length input)) g input qq). Qed.

(* ---------------------------------------------------------------- declarative reading of the tracker *)
(* The tracker is itself characterised declaratively, so that the theorem can be read without it:
   a completed DATA at position [pre ++ _ :: post] of the log has, earlier in the log, a MAIL answered
   250 followed by a stretch [mid] that contains no MAIL/HELO/EHLO/RSET answered 250 and no completed
   DATA; its sender is the address of that MAIL and its recipients are exactly the RCPTs answered 250
   in [mid], in order, and there is at least one. *)
Definition ref_run (g : scfg) (s : env) (l : list event) : env := fold_left (ref_step g) l s.

Definition is_reset (ev : event) : bool :=
  match ev with
  | EvCmd v _ c => (c =? 250) && (beq v s_mail || beq v s_helo || beq v s_ehlo || beq v s_rset)
  | EvDataDone _ _ => true
  | _ => false
  end.
Definition quiet (mid : list event) : bool := forallb (fun ev => negb (is_reset ev)) mid.
Definition rcpt_of (g : scfg) (ev : event) : list bytes :=
  match ev with
  | EvCmd v arg c => if (c =? 250) && beq v s_rcpt then [parsed g arg ++ relay_suffix g] else []
  | _ => []
  end.
Definition accepted_rcpts (g : scfg) (mid : list event) : list bytes := flat_map (rcpt_of g) mid.

Lemma ref_run_snoc g s l ev : ref_run g s (l ++ [ev]) = ref_step g (ref_run g s l) ev.
Proof. unfold ref_run. rewrite fold_left_app. reflexivity. Qed.

Lemma quiet_snoc mid ev : quiet mid = true -> is_reset ev = false -> quiet (mid ++ [ev]) = true.
Proof. intros Hq He. unfold quiet. rewrite forallb_app. fold (quiet mid). rewrite Hq. cbn. rewrite He. reflexivity. Qed.

Lemma accepted_snoc g mid ev : accepted_rcpts g (mid ++ [ev]) = accepted_rcpts g mid ++ rcpt_of g ev.
Proof. unfold accepted_rcpts. rewrite flat_map_app. cbn. rewrite app_nil_r. reflexivity. Qed.

Lemma ref_run_some g : forall pre m rs,
  ref_run g None pre = Some (m, rs) ->
  exists pre0 arg mid, pre = pre0 ++ EvCmd s_mail arg 250 :: mid /\ quiet mid = true /\
      m = parsed g arg /\ rs = accepted_rcpts g mid.
Proof.
  induction pre as [|ev pre IH] using rev_ind; intros m rs H; [discriminate|].
  rewrite ref_run_snoc in H.
  (* an event that leaves the tracker unchanged, is not a reset and adds no recipient *)
  assert (Hkeep : ref_step g (ref_run g None pre) ev = ref_run g None pre -> is_reset ev = false -> rcpt_of g ev = [] ->
                  exists pre0 arg mid, pre ++ [ev] = pre0 ++ EvCmd s_mail arg 250 :: mid /\ quiet mid = true /\
      m = parsed g arg /\ rs = accepted_rcpts g mid).
  { intros E Hr Hc. rewrite E in H. destruct (IH m rs H) as (pre0 & arg & mid & -> & Hq & -> & ->).
    exists pre0, arg, (mid ++ [ev]). rewrite <- app_assoc. cbn [app]. repeat split.
    - apply quiet_snoc; assumption.
    - rewrite accepted_snoc, Hc, app_nil_r. reflexivity. }
  destruct ev as [v arg c| |c|cs|c sub]; try (apply Hkeep; reflexivity).
  2:{ discriminate. }
  cbn [ref_step is_reset rcpt_of] in *.
  destruct (c =? 250) eqn:Ec; [|apply Hkeep; reflexivity].
  apply N.eqb_eq in Ec. subst c. cbn [andb] in *.
  destruct (beq v s_mail) eqn:Em.
  { apply beq_eq in Em. subst v. injection H as <- <-. exists pre, arg, []. repeat split. }
  destruct (beq v s_rcpt) eqn:Er.
  { apply beq_eq in Er. subst v.
    destruct (ref_run g None pre) as [[m0 rs0]|] eqn:E0; [|discriminate]. injection H as <- <-.
    destruct (IH m0 rs0 eq_refl) as (pre0 & arg0 & mid & -> & Hq & -> & ->).
    exists pre0, arg0, (mid ++ [EvCmd s_rcpt arg 250]). rewrite <- app_assoc. cbn [app]. repeat split.
    - apply quiet_snoc; [assumption|reflexivity].
    - rewrite accepted_snoc. reflexivity. }
  cbn [orb] in *.
  destruct (beq v s_helo || beq v s_ehlo || beq v s_rset) eqn:Eh; [discriminate|].
  apply Hkeep; reflexivity.
Qed.

(* position-wise reading of [ref_subs]/[ref_ok] *)
Lemma ref_at_done g : forall pre s l c sub post,
  map env_of (log_subs l) = ref_subs g s l -> ref_ok g s l = true ->
  l = pre ++ EvDataDone c sub :: post ->
  ref_run g s pre = Some (env_of sub) /\ u_rcpts sub <> [].
Proof.
  induction pre as [|ev pre IH]; intros s l c sub post Hm Hk ->.
  - cbn [app ref_ok ev_ok log_subs flat_map ev_subs map ref_subs] in *.
    apply andb_prop in Hk as [Hk _]. apply andb_prop in Hk as [Hin Hne].
    destruct s as [[m rs]|]; [|discriminate]. cbn [app] in Hm. injection Hm as Hm1 Hm2 _.
    split; [unfold env_of; cbn; congruence|]. destruct (u_rcpts sub); [discriminate|discriminate].
  - cbn [app ref_ok log_subs flat_map ref_subs] in *. apply andb_prop in Hk as [Hev Hk].
    change (ref_run g s (ev :: pre)) with (ref_run g (ref_step g s ev) pre).
    apply (IH (ref_step g s ev) (pre ++ EvDataDone c sub :: post) c sub post); [|exact Hk|reflexivity].
    destruct ev as [v arg c0| |c0|cs|c0 sub0]; try exact Hm.
    cbn [ev_ok] in Hev. apply andb_prop in Hev as [Hin _].
    destruct s as [[m rs]|]; [|discriminate]. cbn [ev_subs app map] in Hm. injection Hm as _ _ Hm. exact Hm.
Qed.

Lemma ref_at_gone g : forall pre s l cs post,
  ref_ok g s l = true -> l = pre ++ EvDataGone cs :: post ->
  in_transaction_with_rcpt (ref_run g s pre) = true /\ hd 0 cs = 354.
Proof.
  induction pre as [|ev pre IH]; intros s l cs post Hk ->.
  - cbn [app ref_ok ev_ok] in Hk. apply andb_prop in Hk as [Hk _]. apply andb_prop in Hk as [Hin Hc].
    split; [exact Hin|]. destruct cs as [|c0 cs]; [discriminate|]. apply N.eqb_eq in Hc. exact Hc.
  - cbn [app ref_ok] in Hk. apply andb_prop in Hk as [_ Hk].
    change (ref_run g s (ev :: pre)) with (ref_run g (ref_step g s ev) pre).
    apply (IH (ref_step g s ev) (pre ++ EvDataGone cs :: post) cs post); [exact Hk|reflexivity].
Qed.

(* C08, declaratively, for every input, configuration and queue behaviour: every message handed to the
   queue by [session] comes from a DATA that is preceded in the same session by a MAIL answered 250
   and, after it, only by commands that are neither MAIL/HELO/EHLO/RSET answered 250 nor a completed
   DATA; the envelope sender is that MAIL's address and the envelope recipients are exactly the RCPTs
   answered 250 in between, in order, at least one. *)
Theorem session_submission_sequenced : forall fuel g input qq sub,
  In sub (snd (fst (session fuel g st0 input qq))) ->
  exists pre0 arg mid c post,
    fst (session_log fuel g st0 input qq) = pre0 ++ EvCmd s_mail arg 250 :: mid ++ EvDataDone c sub :: post /\
      quiet mid = true /\
      u_sender sub = parsed g arg /\ u_rcpts sub = accepted_rcpts g mid /\ u_rcpts sub <> [].
Proof.
  intros fuel g input qq sub Hin. rewrite session_is_projection in Hin. cbn [fst snd] in Hin.
  destruct (session_log_matches_reference fuel g st0 input qq None rel_st0) as [Hm Hk].
  set (l := fst (session_log fuel g st0 input qq)) in *.
  unfold log_subs in Hin. apply in_flat_map in Hin as (ev & Hev & Hsub).
  destruct ev as [v arg c| |c|cs|c sub0]; try contradiction. destruct Hsub as [->|[]].
  apply in_split in Hev as (pre & post & Hl).
  destruct (ref_at_done g pre None l c sub post Hm Hk Hl) as [Hrun Hne].
  destruct (ref_run_some g pre _ _ Hrun) as (pre0 & arg & mid & -> & Hq & Hs & Hr).
  exists pre0, arg, mid, c, post. rewrite Hl, <- app_assoc. cbn [app]. repeat split; assumption.
Qed.

(* the same for a DATA that was answered 354 but not completed (client vanished, bare LF) *)
Theorem session_data354_sequenced : forall fuel g input qq pre cs post,
  fst (session_log fuel g st0 input qq) = pre ++ EvDataGone cs :: post ->
  hd 0 cs = 354 /\
  exists pre0 arg mid, pre = pre0 ++ EvCmd s_mail arg 250 :: mid /\ quiet mid = true /\ accepted_rcpts g mid <> [].
Proof.
  intros fuel g input qq pre cs post Hl.
  destruct (session_log_matches_reference fuel g st0 input qq None rel_st0) as [_ Hk].
  destruct (ref_at_gone g pre None _ cs post Hk Hl) as [Hin Hc]. split; [exact Hc|].
  destruct (ref_run g None pre) as [[m rs]|] eqn:Hrun; [|discriminate].
  destruct (ref_run_some g pre m rs Hrun) as (pre0 & arg & mid & -> & Hq & _ & Hr).
  exists pre0, arg, mid. repeat split; [assumption|]. rewrite <- Hr. destruct rs; [discriminate|discriminate].
Qed.

(* ---------------------------------------------------------------- non-vacuity *)
(* A pipelined session with three transactions: the first has a rejected RCPT (553: not in
   rcpthosts), the second is aborted by RSET (the following DATA and RCPT get 503 and its
   recipient e@ok is never delivered to), the third has two accepted recipients. *)
Module SessionExample.
  Import Ascii String.
  Fixpoint bs (s : string) : list N :=
    match s with EmptyString => [] | String a s' => N_of_ascii a :: bs s' end.
  Definition ln (s : string) : list N := bs s ++ [10].
  Definition crlf (s : string) : list N := bs s ++ [13; 10].
  Definition g0 : scfg :=
    {| g_greeting := []; g_liphost := None; g_ipme := []; g_rcpthosts := Some [bs "ok"]; g_morercpthosts := [];
       g_bmf := None; g_databytes := 0; g_relayclient := None; g_remotehost := []; g_remoteip := [];
       g_remoteinfo := None; g_local := [] |}.
  Definition input0 : list N :=
    ln "MAIL FROM:<a@x>" ++ ln "RCPT TO:<b@ok>" ++ ln "RCPT TO:<c@no>" ++ ln "DATA" ++ crlf "hi" ++ crlf "." ++
    ln "MAIL FROM:<d@x>" ++ ln "RCPT TO:<e@ok>" ++ ln "RSET" ++ ln "DATA" ++ ln "RCPT TO:<f@ok>" ++
    ln "MAIL FROM:<g@x>" ++ ln "RCPT TO:<h@ok>" ++ ln "RCPT TO:<i@ok>" ++ ln "DATA" ++ crlf "yo" ++ crlf "." ++
    ln "QUIT".

  Example session_two_transactions :
    fst (fst (smtp_session g0 input0 [])) =
      [250; 250; 553; 354; 250;   250; 250; 250; 503; 503;   250; 250; 250; 354; 250;   221] /\
    map env_of (snd (fst (smtp_session g0 input0 []))) =
      [(bs "a@x", [bs "b@ok"]); (bs "g@x", [bs "h@ok"; bs "i@ok"])] /\
    ref_subs g0 None (fst (session_log (S (List.length input0)) g0 st0 input0 [])) =
      [(bs "a@x", [bs "b@ok"]); (bs "g@x", [bs "h@ok"; bs "i@ok"])] /\
    snd (smtp_session g0 input0 []) = Some 0.
  Proof. vm_compute. repeat split. Qed.

  (* the tracker on a hand-written log, no model involved: relay suffix appended, RCPT outside a
     transaction ignored, HELO discards the open transaction *)
  Example tracker_alone :
    let g := {| g_greeting := []; g_liphost := None; g_ipme := []; g_rcpthosts := None; g_morercpthosts := [];
                g_bmf := None; g_databytes := 0; g_relayclient := Some (bs "@relay"); g_remotehost := [];
                g_remoteip := []; g_remoteinfo := None; g_local := [] |} in
    ref_run g None [EvCmd s_rcpt (bs "TO:<z>") 250;
                    EvCmd s_mail (bs "FROM:<a>") 250; EvCmd s_rcpt (bs "TO:<b>") 250;
                    EvCmd s_helo (bs "h") 250;
                    EvCmd s_mail (bs "FROM:<c>") 250; EvCmd s_rcpt (bs "TO:<d>") 250; EvCmd s_rcpt (bs "TO:<e>") 553;
                    EvCmd s_rcpt (bs "<f>") 250]
    = Some (bs "c", [bs "d@relay"; bs "f@relay"]).
  Proof. vm_compute. reflexivity. Qed.
End SessionExample.

Print Assumptions session_is_projection.
Print Assumptions session_log_matches_reference.
Print Assumptions session_submissions_match_reference.
Print Assumptions smtp_session_submissions_match_reference.
Print Assumptions session_submission_sequenced.
Print Assumptions session_data354_sequenced.
