(* C08, composition over the command list.
   The per-handler theorems (Smtp/SmtpdProofs.v) speak about one cmd_step / data_step.  Here they are
   composed over the whole [session] loop: the session is replayed as a log of externally visible
   events (command verb, argument, reply code(s), and what was handed to the queue program), and an
   independent reference tracker that looks ONLY at that log (never at the model state [sst]) predicts
   the envelope of every submission. *)
From NQ Require Import Smtp.Smtpd Smtp.SmtpdProofs.
Local Open Scope N_scope.

(* ---------------------------------------------------------------- the log *)
Inductive event :=
  | EvCmd (v arg : bytes) (code : N)          (* any verb except DATA and QUIT: one reply *)
  | EvQuit                                    (* 221 *)
  | EvDataRefused (code : N)                  (* DATA answered without 354 *)
  | EvDataGone (codes : list N)               (* DATA answered 354, client vanished / bare LF: nothing handed over, session over *)
  | EvDataDone (code : N) (sub : submission). (* DATA answered 354, message read to the end, handed to the queue, final code *)

Definition s_data : bytes := [100;97;116;97].
Definition s_quit : bytes := [113;117;105;116].
Definition s_helo : bytes := [104;101;108;111].
Definition s_ehlo : bytes := [101;104;108;111].
Definition s_rset : bytes := [114;115;101;116].

(* twin of [session] that returns the event log instead of the bare reply codes *)
Fixpoint session_log (fuel : nat) (g : scfg) (st : sst) (input : bytes) (qq : list (N * bytes)) : list event * option N :=
  match fuel with
  | O => ([], None)
  | S f =>
    match take_line input with
    | None => ([], Some 1)
    | Some (line, rest) =>
      let (v, arg) := split_command line in
      if v_is v s_data then
        let '(qe, qtxt, qq') := match qq with (e, t) :: q' => (e, t, q') | [] => (0, [], []) end in
        match data_step g st rest qe qtxt with
        | DRefused c => let (l, e) := session_log f g st rest qq in (EvDataRefused c :: l, e)
        | DGone cs => ([EvDataGone cs], Some 1)
        | DSub c sub rest' => let (l, e) := session_log f g (set_seen st false) rest' qq' in (EvDataDone c sub :: l, e)
        end
      else if v_is v s_quit then ([EvQuit], Some 0)
      else let (c, st') := cmd_step g st v arg in
           let (l, e) := session_log f g st' rest qq in (EvCmd v arg c :: l, e)
    end
  end.

Definition ev_codes (ev : event) : list N :=
  match ev with
  | EvCmd _ _ c => [c]
  | EvQuit => [221]
  | EvDataRefused c => [c]
  | EvDataGone cs => cs
  | EvDataDone c _ => [354; c]
  end.
Definition ev_subs (ev : event) : list submission :=
  match ev with EvDataDone _ sub => [sub] | _ => [] end.
Definition log_codes (l : list event) : list N := flat_map ev_codes l.
Definition log_subs (l : list event) : list submission := flat_map ev_subs l.

(* [session] is exactly the projection of [session_log]: same replies, same submissions, same exit *)
Theorem session_is_projection : forall fuel g st input qq,
  session fuel g st input qq =
  (log_codes (fst (session_log fuel g st input qq)),
   log_subs (fst (session_log fuel g st input qq)),
   snd (session_log fuel g st input qq)).
Proof.
  induction fuel as [|f IH]; intros g st input qq; [reflexivity|].
  cbn [session session_log].
  destruct (take_line input) as [[line rest]|]; [|reflexivity].
  destruct (split_command line) as [v arg].
  change [100;97;116;97] with s_data. change [113;117;105;116] with s_quit.
  destruct (v_is v s_data).
  - destruct (match qq with (e, t) :: q' => (e, t, q') | [] => (0, [], []) end) as [[qe qtxt] qq'].
    destruct (data_step g st rest qe qtxt) as [c|cs|c sub rest'].
    + rewrite (IH g st rest qq). destruct (session_log f g st rest qq) as [l e]. reflexivity.
    + cbn. rewrite app_nil_r. reflexivity.
    + rewrite (IH g (set_seen st false) rest' qq'). destruct (session_log f g (set_seen st false) rest' qq') as [l e]. reflexivity.
  - destruct (v_is v s_quit); [reflexivity|].
    destruct (cmd_step g st v arg) as [c st'].
    rewrite (IH g st' rest qq). destruct (session_log f g st' rest qq) as [l e]. reflexivity.
Qed.

(* ---------------------------------------------------------------- the reference tracker *)
(* The address a handler stores for an accepted command, as stated by mail_effect_l / rcpt_effect_l:
   the parsed address, for RCPT followed by the relay suffix when relaying is enabled. *)
Definition parsed (g : scfg) (arg : bytes) : bytes := match addrparse g arg with Some a => a | None => [] end.
Definition relay_suffix (g : scfg) : bytes := match g_relayclient g with Some rc => rc | None => [] end.

Definition env := option (bytes * list bytes).     (* open transaction: sender, accepted recipients *)

Definition ref_step (g : scfg) (s : env) (ev : event) : env :=
  match ev with
  | EvCmd v arg c =>
    if c =? 250 then
      if beq v s_mail then Some (parsed g arg, [])
      else if beq v s_rcpt then
        match s with Some (m, rs) => Some (m, rs ++ [parsed g arg ++ relay_suffix g]) | None => None end
      else if beq v s_helo || beq v s_ehlo || beq v s_rset then None
      else s
    else s
  | EvDataDone _ _ => None
  | _ => s
  end.

(* what the reference expects to be handed over, one entry per completed DATA *)
Fixpoint ref_subs (g : scfg) (s : env) (l : list event) : list (bytes * list bytes) :=
  match l with
  | [] => []
  | ev :: l' =>
    match ev with
    | EvDataDone _ _ => match s with Some (m, rs) => [(m, rs)] | None => [] end
    | _ => []
    end ++ ref_subs g (ref_step g s ev) l'
  end.

Definition in_transaction_with_rcpt (s : env) : bool :=
  match s with Some (_, _ :: _) => true | _ => false end.

(* sequencing conditions on a log, stated purely on the log and the tracker state:
   - a DATA is answered 354 exactly in a transaction with at least one accepted recipient
     (otherwise it is answered 503);
   - a RCPT is answered 503 exactly outside a transaction (so never 250 outside one);
   - a MAIL is answered 250 or 555; HELO/EHLO/RSET are always answered 250;
   - a completed DATA hands over a non-empty recipient list. *)
Definition ev_ok (s : env) (ev : event) : bool :=
  match ev with
  | EvCmd v arg c =>
    if beq v s_rcpt then Bool.eqb (c =? 503) (match s with None => true | Some _ => false end)
    else if beq v s_mail then (c =? 250) || (c =? 555)
    else if beq v s_helo || beq v s_ehlo || beq v s_rset then c =? 250
    else negb (c =? 503)
  | EvQuit => true
  | EvDataRefused c => (c =? 503) && negb (in_transaction_with_rcpt s)
  | EvDataGone cs => in_transaction_with_rcpt s && match cs with c :: _ => c =? 354 | [] => false end
  | EvDataDone _ sub => in_transaction_with_rcpt s && match u_rcpts sub with [] => false | _ => true end
  end.
Fixpoint ref_ok (g : scfg) (s : env) (l : list event) : bool :=
  match l with
  | [] => true
  | ev :: l' => ev_ok s ev && ref_ok g (ref_step g s ev) l'
  end.

(* ---------------------------------------------------------------- the simulation *)
(* how the model state corresponds to the tracker state (used only in the proof) *)
Definition rel (st : sst) (s : env) : Prop :=
  match s with
  | None => t_seenmail st = false
  | Some (m, rs) => t_seenmail st = true /\ t_mailfrom st = m /\ t_rcpts st = rs
  end.

Lemma rel_st0 : rel st0 None.
Proof. reflexivity. Qed.

Lemma v_is_beq v s : v_is v s = beq v s.
Proof. reflexivity. Qed.

Lemma cmd_step_rel g st s v arg c st' :
  rel st s -> cmd_step g st v arg = (c, st') ->
  rel st' (ref_step g s (EvCmd v arg c)) /\ ev_ok s (EvCmd v arg c) = true.
Proof.
  intros Hrel. unfold cmd_step, ref_step, ev_ok. unfold v_is.
  change [114;99;112;116] with s_rcpt. change [109;97;105;108] with s_mail.
  change [104;101;108;111] with s_helo. change [101;104;108;111] with s_ehlo. change [114;115;101;116] with s_rset.
  destruct (beq v s_rcpt) eqn:Ercpt.
  { (* rcpt *)
    assert (Hnm : beq v s_mail = false).
    { apply beq_eq in Ercpt. subst v. reflexivity. }
    rewrite Hnm.
    destruct s as [[m rs]|]; cbn [rel] in Hrel.
    - destruct Hrel as (Hs & Hm & Hr). rewrite Hs. cbn [negb].
      unfold parsed, relay_suffix.
      destruct (addrparse g arg) as [a|]; [|intros H; injection H as <- <-; split; [cbn; auto|reflexivity]].
      destruct (t_barf st); [intros H; injection H as <- <-; split; [cbn; auto|reflexivity]|].
      destruct (g_relayclient g) as [rc|].
      + intros H; injection H as <- <-. split; [|reflexivity].
        change (250 =? 250) with true. cbn iota. cbn [rel add_rcpt t_seenmail t_mailfrom t_rcpts]. rewrite Hr. auto.
      + destruct (rcpthosts g a); intros H; injection H as <- <-.
        * split; [|reflexivity].
          change (250 =? 250) with true. cbn iota. cbn [rel add_rcpt t_seenmail t_mailfrom t_rcpts]. rewrite Hr, app_nil_r. auto.
        * split; [cbn; auto|reflexivity].
    - rewrite Hrel. cbn [negb]. intros H; injection H as <- <-. split; [exact Hrel|reflexivity]. }
  destruct (beq v s_mail) eqn:Email.
  { (* mail *)
    cbv iota. unfold parsed. destruct (addrparse g arg) as [a|]; intros H; injection H as <- <-.
    - split; [|reflexivity]. change (250 =? 250) with true. cbn iota. cbn. auto.
    - split; [|reflexivity]. change (555 =? 250) with false. cbn iota. exact Hrel. }
  destruct (beq v s_helo || beq v s_ehlo) eqn:Ehelo.
  { cbv iota. intros H; injection H as <- <-. cbn [orb]. split; reflexivity. }
  cbn [orb]. cbv iota.
  destruct (beq v s_rset) eqn:Erset.
  { cbv iota. intros H; injection H as <- <-. split; reflexivity. }
  cbv iota.
  destruct (beq v [104;101;108;112]); [intros H; injection H as <- <-; split; [exact Hrel|reflexivity]|].
  destruct (beq v [110;111;111;112]); [intros H; injection H as <- <-; split; [exact Hrel|reflexivity]|].
  destruct (beq v [118;114;102;121]); intros H; injection H as <- <-; split; try exact Hrel; reflexivity.
Qed.

Lemma rel_in_transaction st s : rel st s ->
  in_transaction_with_rcpt s = t_seenmail st && match t_rcpts st with [] => false | _ => true end.
Proof.
  destruct s as [[m rs]|]; cbn [rel].
  - intros (-> & _ & ->). destruct rs; reflexivity.
  - intros ->. reflexivity.
Qed.

Definition env_of (sub : submission) : bytes * list bytes := (u_sender sub, u_rcpts sub).

Lemma data_step_rel g st s rest qe qtxt : rel st s ->
  match data_step g st rest qe qtxt with
  | DRefused c => ev_ok s (EvDataRefused c) = true
  | DGone cs => ev_ok s (EvDataGone cs) = true
  | DSub c sub _ => ev_ok s (EvDataDone c sub) = true /\ s = Some (env_of sub)
  end.
Proof.
  intros Hrel. pose proof (rel_in_transaction st s Hrel) as Hin.
  unfold data_step, ev_ok. rewrite Hin.
  destruct (t_seenmail st) eqn:Hs; cbn [negb andb]; [|reflexivity].
  destruct (t_rcpts st) as [|r0 rs] eqn:Hr; [reflexivity|].
  destruct (sblast rest) as [body rest'| |]; try reflexivity.
  cbn [u_rcpts]. split; [reflexivity|].
  destruct s as [[m rs']|]; cbn [rel] in Hrel.
  - destruct Hrel as (_ & <- & Hr'). unfold env_of. cbn [u_sender u_rcpts]. congruence.
  - congruence.
Qed.

(* ---------------------------------------------------------------- the composition theorem *)
Theorem session_log_matches_reference : forall fuel g st input qq s,
  rel st s ->
  let l := fst (session_log fuel g st input qq) in
  map env_of (log_subs l) = ref_subs g s l /\ ref_ok g s l = true.
Proof.
  induction fuel as [|f IH]; intros g st input qq s Hrel; [split; reflexivity|].
  cbn [session_log].
  destruct (take_line input) as [[line rest]|]; [|split; reflexivity].
  destruct (split_command line) as [v arg].
  destruct (v_is v s_data).
  - destruct (match qq with (e, t) :: q' => (e, t, q') | [] => (0, [], []) end) as [[qe qtxt] qq'].
    pose proof (data_step_rel g st s rest qe qtxt Hrel) as Hd.
    destruct (data_step g st rest qe qtxt) as [c|cs|c sub rest'].
    + specialize (IH g st rest qq s Hrel). destruct (session_log f g st rest qq) as [l e].
      cbn [fst] in *. destruct IH as [IH1 IH2]. cbn [ref_subs ref_ok ref_step log_subs flat_map ev_subs app] in *.
      rewrite Hd, IH2. split; [exact IH1|reflexivity].
    + cbn [fst ref_subs ref_ok ref_step log_subs flat_map ev_subs app map]. rewrite Hd. split; reflexivity.
    + destruct Hd as [Hok Hs].
      assert (Hrel' : rel (set_seen st false) None) by reflexivity.
      specialize (IH g (set_seen st false) rest' qq' None Hrel').
      destruct (session_log f g (set_seen st false) rest' qq') as [l e].
      cbn [fst] in *. destruct IH as [IH1 IH2]. cbn [ref_subs ref_ok ref_step log_subs flat_map ev_subs app map] in *.
      rewrite Hok, IH2. split; [|reflexivity]. rewrite Hs. unfold env_of at 2. cbn [app]. f_equal. exact IH1.
  - destruct (v_is v s_quit); [split; reflexivity|].
    destruct (cmd_step g st v arg) as [c st'] eqn:Ec.
    destruct (cmd_step_rel g st s v arg c st' Hrel Ec) as [Hrel' Hok].
    specialize (IH g st' rest qq _ Hrel').
    destruct (session_log f g st' rest qq) as [l e].
    cbn [fst] in *. destruct IH as [IH1 IH2].
    cbn [ref_subs ref_ok log_subs flat_map ev_subs app]. rewrite Hok, IH2. split; [exact IH1|reflexivity].
Qed.

(* the same, for the real model function [session] started in the initial state: the submissions it
   returns carry, in order, exactly the envelopes the reference computes from the log *)
Theorem session_submissions_match_reference : forall fuel g input qq,
  let l := fst (session_log fuel g st0 input qq) in
  fst (fst (session fuel g st0 input qq)) = log_codes l /\
  map env_of (snd (fst (session fuel g st0 input qq))) = ref_subs g None l /\
  ref_ok g None l = true.
Proof.
  intros fuel g input qq l. rewrite session_is_projection. cbn [fst snd]. split; [reflexivity|].
  exact (session_log_matches_reference fuel g st0 input qq None rel_st0).
Qed.

Corollary smtp_session_submissions_match_reference : forall g input qq,
  let l := fst (session_log (S (length input)) g st0 input qq) in
  fst (fst (smtp_session g input qq)) = log_codes l /\
  map env_of (snd (fst (smtp_session g input qq))) = ref_subs g None l /\
  ref_ok g None l = true.
Proof. intros g input qq. exact (session_submissions_match_reference (S (length input)) g input qq). Qed.

Print Assumptions session_is_projection.
Print Assumptions session_log_matches_reference.
Print Assumptions session_submissions_match_reference.
Print Assumptions smtp_session_submissions_match_reference.
