(* qmail-qmtpd.c and qmail-qmqpd.c: netstring framing, limits, replies (C07).  Model only.
   Both are functions of the byte stream the client sends; its exhaustion is a disconnect (exit 0,
   nothing further is written).  The QMTP reply stream returned here is what the daemon GENERATES;
   its output buffer is flushed before each network read and at a clean end of input, so on exit 100/111
   a tail of it may never reach the client (the correspondence check accounts for that). *)
From NQ Require Export Smtp.Smtpd.
Local Open Scope N_scope.

Inductive rd (A : Type) := Got (a : A) (rest : bytes) | Eof | Bad | Res.
Arguments Got {A}. Arguments Eof {A}. Arguments Bad {A}. Arguments Res {A}.

Definition BIG : N := 200000000.
(* getlen(): digits up to ':' *)
Fixpoint getlen (fuel : nat) (s : bytes) (len : N) : rd N :=
  match fuel with
  | O => Eof
  | S f =>
    match s with
    | [] => Eof
    | ch :: s' =>
      if ch =? 58 then Got len s'
      else if BIG <? len then Res
      else if (ch <? 48) || (57 <? ch) then Bad
      else getlen f s' ((10 * len + (ch - 48)) mod U64)
    end
  end.
Definition getcomma (s : bytes) : rd unit :=
  match s with [] => Eof | ch :: s' => if ch =? 44 then Got tt s' else Bad end.
(* take exactly n bytes *)
Fixpoint take (n : nat) (s : bytes) (acc : bytes) : rd bytes :=
  match n with
  | O => Got (rev acc) s
  | S n' => match s with [] => Eof | c :: s' => take n' s' (c :: acc) end
  end.

(* DOS mode body: CR LF -> LF, lone CR kept; n = bytes of the netstring still to read *)
Fixpoint dos_body (n : nat) (s : bytes) (pendingcr : bool) (acc : bytes) : rd bytes :=
  match n with
  | O => Got (rev (if pendingcr then CR :: acc else acc)) s
  | S n' =>
    match s with
    | [] => Eof
    | ch :: s' =>
      if pendingcr then
        if ch =? LF then dos_body n' s' false (LF :: acc)
        else if ch =? CR then dos_body n' s' true (CR :: acc)
        else dos_body n' s' false (ch :: CR :: acc)
      else if ch =? CR then dos_body n' s' true acc
      else dos_body n' s' false (ch :: acc)
    end
  end.

Inductive rfail := RNone | RTooLong | RNul | RDenied.
(* recipient netstrings inside the outer one: (recipient with relay suffix, failure kind) list *)
Definition schar (ch : N) : N := if ch <? 128 then ch + U64 - 48 else ch + U64 - 256 - 48.    (* (signed char) - '0' as unsigned long *)
Fixpoint inner_len (fuel : nat) (s : bytes) (biglen len : N) : rd (N * N) :=
  match fuel with
  | O => Eof
  | S f =>
    if biglen =? 0 then Bad else
    match s with
    | [] => Eof
    | ch :: s' =>
      if ch =? 58 then Got (len, biglen - 1) s'
      else if BIG <? len then Res
      else inner_len f s' (biglen - 1) ((10 * len + schar ch) mod U64)
    end
  end.
Fixpoint rcpt_list (fuel : nat) (g : scfg) (s : bytes) (biglen : N) (acc : list (bytes * rfail)) : rd (list (bytes * rfail)) :=
  match fuel with
  | O => Eof
  | S f =>
    if biglen =? 0 then Got (rev acc) s else
    match inner_len (S (length s)) s biglen 0 with
    | Eof => Eof | Bad => Bad | Res => Res
    | Got (len, big1) s1 =>
      if big1 <=? len then Bad else
      let rclen := match g_relayclient g with Some rc => N.of_nat (length rc) | None => 0 end in
      match take (N.to_nat len) s1 [] with
      | Eof => Eof | Bad => Bad | Res => Res
      | Got a s2 =>
        let kind :=
          if 1000 <=? len + rclen then RTooLong
          else match g_relayclient g with
               | Some _ => if has 0 a then RNul else RNone
               | None => if rcpthosts g a then (if has 0 a then RNul else RNone) else RDenied   (* 'D' overwrites 'N' *)
               end in
        let full := a ++ match g_relayclient g with Some rc => rc | None => [] end in
        match getcomma s2 with
        | Eof => Eof | Bad => Bad | Res => Res
        | Got _ s3 => rcpt_list f g s3 (big1 - (len + 1)) ((full, kind) :: acc)
        end
      end
    end
  end.

Definition netstr (b : bytes) : bytes := fmt_ulong (N.of_nat (length b)) ++ [58] ++ b ++ [44].
Definition r_denied : bytes := [68;115;111;114;114;121;44;32;116;104;97;116;32;100;111;109;97;105;110;32;105;115;110;39;116;32;105;110;32;109;121;32;108;105;115;116;32;111;102;32;97;108;108;111;119;101;100;32;114;99;112;116;104;111;115;116;115;32;40;35;53;46;55;46;49;41].
Definition r_cant : bytes := [68;115;111;114;114;121;44;32;73;32;99;97;110;39;116;32;104;97;110;100;108;101;32;116;104;97;116;32;114;101;99;105;112;105;101;110;116;32;40;35;53;46;49;46;51;41].

(* verdict for the accepted recipients of one package: None = "Kok <time> qp <pid>" *)
Inductive mverdict := MK | MFail (text_class : N).     (* 68 = D..., 90 = Z... *)

Record package := { k_body : bytes; k_sender : bytes; k_rcpts : list (bytes * rfail);
                    k_complete : bool; k_verdict : mverdict }.

(* the verdict computed at the end of a package, as a function of its three flags *)
Definition pkg_verdict (senderok toobig complete : bool) (qe : N) (qtxt : bytes) : mverdict :=
  if negb senderok then MFail 68 else if toobig then MFail 68
  else match qq_class qe qtxt (negb complete) with QOk => MK | QD => MFail 68 | QZ => MFail 90 end.

(* one package; qe/qtxt = exit status / custom text the queue program will give *)
Definition qmtp_package (g : scfg) (s : bytes) (qe : N) (qtxt : bytes) : rd package :=
  match getlen (S (length s)) s 0 with
  | Eof => Eof | Bad => Bad | Res => Res
  | Got len s1 =>
    if len =? 0 then Bad else
    match s1 with
    | [] => Eof
    | ch :: s2 =>
      if negb ((ch =? 10) || (ch =? 13)) then Bad else
      let n := N.to_nat (len - 1) in
      let bodyr := if ch =? 13 then dos_body n s2 false [] else take n s2 [] in
      match bodyr with
      | Eof => Eof | Bad => Bad | Res => Res
      | Got body s3 =>
        let toobig := negb (g_databytes g =? 0) &&
                      (if ch =? 13 then g_databytes g <? N.of_nat (length body) else g_databytes g <? len - 1) in
        match getcomma s3 with
        | Eof => Eof | Bad => Bad | Res => Res
        | Got _ s4 =>
          match getlen (S (length s4)) s4 0 with
          | Eof => Eof | Bad => Bad | Res => Res
          | Got slen s5 =>
            match take (N.to_nat slen) s5 [] with
            | Eof => Eof | Bad => Bad | Res => Res
            | Got sraw s6 =>
              let senderok := negb (1000 <=? slen) && negb (has 0 sraw) in
              let sender := if 1000 <=? slen then [] else cstr sraw in
              match getcomma s6 with
              | Eof => Eof | Bad => Bad | Res => Res
              | Got _ s7 =>
                match getlen (S (length s7)) s7 0 with
                | Eof => Eof | Bad => Bad | Res => Res
                | Got biglen s8 =>
                  match rcpt_list (S (length s8)) g s8 biglen [] with
                  | Eof => Eof | Bad => Bad | Res => Res
                  | Got rc s9 =>
                    match getcomma s9 with
                    | Eof => Eof | Bad => Bad | Res => Res
                    | Got _ s10 =>
                      let bother := existsb (fun r => match snd r with RNone => true | _ => false end) rc in
                      let complete := negb toobig && senderok && bother in
                      let v := pkg_verdict senderok toobig complete qe qtxt in
                      Got {| k_body := body; k_sender := sender; k_rcpts := rc; k_complete := complete; k_verdict := v |} s10
                    end
                  end
                end
              end
            end
          end
        end
      end
    end
  end.

(* ---------------------------------------------------------------- QMQP *)
(* the whole input is one netstring: message netstring, sender netstring, recipient netstrings *)
Fixpoint qbufs (fuel : nat) (s : bytes) (acc : list (bytes * bool)) : list (bytes * bool) * bool :=
  (* (address, ok) list and whether the framing was well-formed to the end *)
  match fuel with
  | O => (rev acc, false)
  | S f =>
    match s with
    | [] => (rev acc, true)
    | _ =>
      match getlen (S (length s)) s 0 with
      | Got len s1 =>
        match take (N.to_nat len) s1 [] with
        | Got a s2 => match getcomma s2 with
                      | Got _ s3 => qbufs f s3 ((if 1000 <=? len then [] else a, negb (1000 <=? len) && negb (has 0 a)) :: acc)
                      | _ => (rev acc, false)
                      end
        | _ => (rev acc, false)
        end
      | _ => (rev acc, false)
      end
    end
  end.
Record qmqp_out := { q_framing_ok : bool; q_body : bytes; q_sender : bytes; q_rcpts : list bytes;
                     q_complete : bool; q_verdict : mverdict }.
Definition qmqp_verdict (allok : bool) (qe : N) (qtxt : bytes) : mverdict :=
  if negb allok then MFail 68
  else match qq_class qe qtxt false with QOk => MK | QD => MFail 68 | QZ => MFail 90 end.
(* inner = the content of the outer netstring (the daemon refuses to read beyond it) *)
Definition qmqp_inner (inner : bytes) (qe : N) (qtxt : bytes) : option qmqp_out :=
  match getlen (S (length inner)) inner 0 with
  | Got len s1 =>
    match take (N.to_nat len) s1 [] with
    | Got body s2 =>
      match getcomma s2 with
      | Got _ s3 =>
        let '(bufs, wf) := qbufs (S (length s3)) s3 [] in
        if negb wf then None else
        match bufs with
        | [] => None                                        (* no sender netstring: runs out of bytes -> exit 100 *)
        | (sender, sok) :: rc =>
          let allok := sok && forallb snd rc in
          let v := qmqp_verdict allok qe qtxt in
          Some {| q_framing_ok := true; q_body := body; q_sender := if sok then sender else []; q_rcpts := map fst rc;
                  q_complete := allok; q_verdict := v |}
        end
      | _ => None
      end
    | _ => None
    end
  | _ => None
  end.
