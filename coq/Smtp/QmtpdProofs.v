From NQ Require Import Smtp.Qmtpd Smtp.SmtpdProofs.
Local Open Scope N_scope.

Ltac break_match_hyp H :=
  repeat match type of H with
         | context [match ?x with _ => _ end] => let E := fresh "E" in destruct x eqn:E; try discriminate
         | context [if ?b then _ else _] => let E := fresh "E" in destruct b eqn:E; try discriminate
         end.

Lemma pkg_verdict_K senderok toobig bother qe qtxt :
  let complete := negb toobig && senderok && bother in
  pkg_verdict senderok toobig complete qe qtxt = MK <-> complete = true /\ qq_class qe qtxt false = QOk.
Proof.
  cbv zeta. unfold pkg_verdict.
  destruct senderok, toobig, bother; cbn [negb andb]; try (split; [discriminate|intros [H _]; discriminate]).
  - destruct (qq_class qe qtxt false); split; try discriminate; auto. intros [_ H]; discriminate. intros [_ H]; discriminate.
  - pose proof (qq_class_flagerr qe qtxt) as F. destruct (qq_class qe qtxt true); [contradiction| |]; split; try discriminate; intros [H _]; discriminate.
Qed.

(* ---------------------------------------------------------------- QMTP *)
Lemma qmtp_ack_iff_l g s qe qtxt p rest :
  qmtp_package g s qe qtxt = Got p rest ->
  (k_verdict p = MK <-> k_complete p = true /\ qq_class qe qtxt false = QOk).
Proof.
  unfold qmtp_package. intros H. break_match_hyp H.
  all: injection H as <- <-; cbn [k_verdict k_complete].
  all: apply pkg_verdict_K.
Qed.

(* an accepted recipient is the client's NUL-free address (plus the relay suffix), shorter than 1000 bytes,
   and - without RELAYCLIENT - allowed by rcpthosts *)
Definition rc_suffix (g : scfg) : bytes := match g_relayclient g with Some rc => rc | None => [] end.
Definition acc_ok (g : scfg) (a : bytes) : Prop :=
  exists x, a = x ++ rc_suffix g /\ has 0 x = false /\ (length a < 1000)%nat /\
            (g_relayclient g = None -> rcpthosts g x = true).

Lemma take_length n : forall s acc r rest, take n s acc = Got r rest -> length r = (length acc + n)%nat.
Proof.
  induction n as [|n IHn]; intros s0 acc0 r rest0 H; cbn in H.
  - injection H as <- <-. rewrite rev_length. lia.
  - destruct s0; [discriminate|]. apply IHn in H. cbn in H. lia.
Qed.

Lemma rcpt_list_accepted fuel g : forall s biglen acc rc rest a,
  rcpt_list fuel g s biglen acc = Got rc rest ->
  (forall x, In (x, RNone) acc -> acc_ok g x) ->
  In (a, RNone) rc -> acc_ok g a.
Proof.
  induction fuel as [|f IH]; intros s biglen acc rc rest a H Hacc Hin; [discriminate|].
  cbn [rcpt_list] in H.
  destruct (biglen =? 0).
  - injection H as <- <-. apply Hacc. apply in_rev. exact Hin.
  - destruct (inner_len _ s biglen 0) as [[len big1] s1| | |]; try discriminate.
    destruct (big1 <=? len); [discriminate|].
    destruct (take (N.to_nat len) s1 []) as [x s2| | |] eqn:Et; try discriminate.
    destruct (getcomma s2) as [u s3| | |]; try discriminate.
    eapply IH; [exact H| |exact Hin].
    intros y Hy. destruct Hy as [Hy|Hy]; [|apply Hacc; exact Hy].
    injection Hy as Hy1 Hy2.
    assert (Lx : length x = N.to_nat len) by (apply take_length in Et; cbn in Et; lia).
    unfold acc_ok, rc_suffix.
    destruct (N.leb_spec 1000 (len + match g_relayclient g with Some rc0 => N.of_nat (length rc0) | None => 0 end)) as [|Hlt]; [discriminate|].
    destruct (g_relayclient g) as [rcl|] eqn:Er.
    + destruct (has 0 x) eqn:Hz; [discriminate|]. exists x. subst y. rewrite app_length.
      repeat split; try assumption; try lia. intros; discriminate.
    + destruct (rcpthosts g x) eqn:Erh; [|discriminate]. destruct (has 0 x) eqn:Hz; [discriminate|].
      exists x. subst y. rewrite app_nil_r. rewrite app_nil_r in *. repeat split; try assumption; try lia. intros _; exact Erh.
Qed.

Lemma qmtp_accepted_ok_l g s qe qtxt p rest a :
  qmtp_package g s qe qtxt = Got p rest -> In (a, RNone) (k_rcpts p) -> acc_ok g a.
Proof.
  unfold qmtp_package. intros H. break_match_hyp H.
  all: injection H as <- <-; cbn [k_rcpts]; intros Hin.
  all: match goal with Hr : rcpt_list _ _ _ _ [] = Got _ _ |- _ =>
         exact (rcpt_list_accepted _ _ _ _ _ _ _ a Hr (fun x Hx => match Hx with end) Hin) end.
Qed.

(* a complete envelope needs an accepted recipient *)
Lemma qmtp_complete_has_rcpt_l g s qe qtxt p rest :
  qmtp_package g s qe qtxt = Got p rest -> k_complete p = true -> exists a, In (a, RNone) (k_rcpts p).
Proof.
  unfold qmtp_package. intros H. break_match_hyp H.
  all: injection H as <- <-; cbn [k_complete k_rcpts]; intros Hc.
  all: apply andb_true_iff in Hc as [_ Hc]; apply existsb_exists in Hc as ([aa kk] & Hin0 & Hk0); destruct kk; try discriminate.
  all: exists aa; exact Hin0.
Qed.

(* ---------------------------------------------------------------- QMQP *)
Lemma qmqp_verdict_K allok qe qtxt : qmqp_verdict allok qe qtxt = MK <-> allok = true /\ qq_class qe qtxt false = QOk.
Proof.
  unfold qmqp_verdict. destruct allok; cbn [negb].
  - destruct (qq_class qe qtxt false); split; try discriminate; auto; intros [_ H]; discriminate.
  - split; [discriminate|intros [H _]; discriminate].
Qed.
Lemma qmqp_ack_iff_l inner qe qtxt o :
  qmqp_inner inner qe qtxt = Some o ->
  (q_verdict o = MK <-> q_complete o = true /\ qq_class qe qtxt false = QOk).
Proof.
  unfold qmqp_inner. intros H. break_match_hyp H.
  all: injection H as <-; cbn [q_verdict q_complete]; apply qmqp_verdict_K.
Qed.

(* ---------------------------------------------------------------- the Received field *)
Lemma safe_is_safe s : forallb (fun c => issafe c || (c =? 63)) (safe s) = true.
Proof.
  unfold safe. induction s as [|c s IH]; [reflexivity|]. cbn [map forallb]. rewrite IH, andb_true_r.
  destruct (issafe c) eqn:E; [rewrite E; reflexivity|]. rewrite orb_true_iff. right. reflexivity.
Qed.
Lemma safe_no_lf s : has LF (safe s) = false.
Proof.
  unfold safe. induction s as [|c s IH]; [reflexivity|]. cbn [map has]. rewrite IH, orb_false_r.
  destruct (issafe c) eqn:E; [|reflexivity].
  destruct (N.eqb_spec LF c) as [<-|]; [discriminate|reflexivity].
Qed.
