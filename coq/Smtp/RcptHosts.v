(* rcpthosts.c and bmfcheck() of qmail-smtpd.c on the CONCRETE tables: the constmap hash table built from
   control/rcpthosts / control/badmailfrom (Base/Constmap.v) and the byte image of control/morercpthosts.cdb
   (Base/Cdb.v).  A cdb read error is its own result (qmail-smtpd: die_control, 421).  No proofs here. *)
From NQ Require Import Base.Bytes Base.Cdb Base.CdbFast Base.Constmap Local.NewU Smtp.Smtpd.
Local Open Scope N_scope.

Inductive rhres := RHErr | RHNo | RHYes.

Definition cm_hit (m : cmap) (s : bytes) : bool := match constmap m s with Some _ => true | None => false end.

(* the second loop of rcpthosts(): the first suffix with a non-zero cdb_seek result decides *)
Fixpoint seek_first (f : bytes) (sfxs : list bytes) : rhres :=
  match sfxs with
  | [] => RHNo
  | s :: r => match cdb_seek_fast f s with          (* = cdb_seek f s, Base/CdbFastProofs.v *)
              | SErr => RHErr
              | SFound _ _ => RHYes
              | SNone => seek_first f r
              end
  end.

(* maprh: Some table when control/rcpthosts exists; mrh: Some image when morercpthosts.cdb could be opened *)
Definition rcpthosts_c (maprh : option cmap) (mrh : option bytes) (addr : bytes) : rhres :=
  match maprh with
  | None => RHYes
  | Some m =>
    match rchr_opt addr ATc with
    | None => RHYes
    | Some j =>
      let d := lowers (skipn (S j) addr) in
      if existsb (cm_hit m) (dom_suffixes true d) then RHYes
      else match mrh with None => RHNo | Some f => seek_first f (dom_suffixes true d) end
    end
  end.

Definition bmfcheck_c (mapbmf : option cmap) (addr : bytes) : bool :=
  match mapbmf with
  | None => false
  | Some m => cm_hit m addr ||
              match rchr_opt addr ATc with Some j => cm_hit m (skipn j addr) | None => false end
  end.

(* the tables as qmail-smtpd's setup builds them from the session configuration *)
Definition maprh_of (g : scfg) : option cmap := option_map (fun l => constmap_init l false) (g_rcpthosts g).
Definition mapbmf_of (g : scfg) : option cmap := option_map (fun l => constmap_init l false) (g_bmf g).
