(* token822.c: the FIRST (counting) pass of token822_parse.  Model only (C20).
   The first pass walks sa->s[0..salen) with an index i and computes numtoks and numchars; then exactly
   numtoks tokens and numchars bytes are allocated and the second pass (Addr/Tok.v: parse) fills them with
   no further bounds checks ("assert: < salen").  The model keeps the C loop structure: an outer for loop
   whose body is a switch, with one inner loop per bracketed construct and the do-while atom loop.  The
   index i is represented by the suffix sa->s[i..salen) (so "++i >= salen" is "the suffix after the head is
   empty").  numtoks/numchars/level are C ints; they are bounded by salen (an int), so they never wrap and
   are modelled by nat. *)
From NQ Require Import Addr.Tok.
Local Open Scope N_scope.

(* case '(' : level = 1; while (level) { if (++i >= salen) return 0; switch (s[i]) { ... } }
   [s] is the suffix AFTER position i.  Result: None = return 0, Some (suffix after the closing paren, numchars) *)
Fixpoint comment_loop (level : nat) (s : bytes) (nc : nat) : option (bytes * nat) :=
  match s with
  | [] => None                                                (* ++i >= salen *)
  | c :: s' =>
    if c =? 40 then comment_loop (S level) s' nc               (* ++level *)
    else if c =? 41 then                                        (* --level; while (level) *)
      let level' := Nat.pred level in
      if Nat.eqb level' 0 then Some (s', nc) else comment_loop level' s' nc
    else if c =? 92 then                                        (* if (++i >= salen) return 0; fall through *)
      match s' with
      | [] => None
      | _ :: s'' => comment_loop level s'' (S nc)
      end
    else comment_loop level s' (S nc)                          (* default: ++numchars *)
  end.

(* case '"' and case '[' : the same loop with closing character '"' resp. ']' (level goes 1 -> 0) *)
Fixpoint delim_loop (close : N) (s : bytes) (nc : nat) : option (bytes * nat) :=
  match s with
  | [] => None
  | c :: s' =>
    if c =? close then Some (s', nc)                           (* --level *)
    else if c =? 92 then
      match s' with
      | [] => None
      | _ :: s'' => delim_loop close s'' (S nc)
      end
    else delim_loop close s' (S nc)
  end.

(* default: do { if (s[i] == '\\') if (++i >= salen) break; ++numchars; if (++i >= salen) break; }
            while (atomok(s[i]));  --i;
   [s] is the suffix starting AT position i (non-empty on entry).  Result: the suffix at which the outer
   for loop continues (after its ++i) and numchars.  The atom loop never fails. *)
Fixpoint atom_loop (s : bytes) (nc : nat) : bytes * nat :=
  match s with
  | [] => ([], nc)
  | c :: s' =>
    if c =? 92 then
      match s' with
      | [] => ([], nc)                                         (* ++i >= salen: break, nothing counted *)
      | _ :: s'' =>
        match s'' with                                          (* ++numchars; if (++i >= salen) break *)
        | [] => ([], S nc)
        | d :: _ => if atomok d then atom_loop s'' (S nc) else (s'', S nc)
        end
      end
    else
      match s' with
      | [] => ([], S nc)
      | d :: _ => if atomok d then atom_loop s' (S nc) else (s', S nc)
      end
  end.

Definition is_special (c : N) : bool :=
  (c =? 46) || (c =? 44) || (c =? 64) || (c =? 60) || (c =? 62) || (c =? 58) || (c =? 59).
Definition is_space (c : N) : bool := (c =? 32) || (c =? 9) || (c =? 13) || (c =? 10).

(* the outer for loop; fuel only bounds the number of iterations (each consumes at least one byte) *)
Fixpoint count_loop (fuel : nat) (s : bytes) (nt nc : nat) : option (nat * nat) :=
  match fuel with
  | O => None
  | S fuel' =>
    match s with
    | [] => Some (nt, nc)
    | c :: s' =>
      if is_special c then count_loop fuel' s' (S nt) nc
      else if is_space c then count_loop fuel' s' nt nc
      else if (c =? 41) || (c =? 93) then None
      else if c =? 40 then
        match comment_loop 1 s' nc with
        | None => None
        | Some (rest, nc') => count_loop fuel' rest (S nt) nc'
        end
      else if c =? 34 then
        match delim_loop 34 s' nc with
        | None => None
        | Some (rest, nc') => count_loop fuel' rest (S nt) nc'
        end
      else if c =? 91 then
        match delim_loop 93 s' nc with
        | None => None
        | Some (rest, nc') => count_loop fuel' rest (S nt) nc'
        end
      else
        let (rest, nc') := atom_loop s nc in count_loop fuel' rest (S nt) nc'
    end
  end.

(* Some (numtoks, numchars), or None when the first pass returns 0 *)
Definition count_pass (s : bytes) : option (nat * nat) := count_loop (S (length s)) s 0 0.

(* what the second pass stores for one token: t->slen bytes in buf *)
Definition tok_chars (t : tok) : nat :=
  match t with
  | TAtom s | TQuote s | TLiteral s | TComment s => length s
  | _ => 0
  end.
Definition toks_chars (ts : list tok) : nat := list_sum (map tok_chars ts).

(* the statement "the allocation sizes are exactly what the second pass writes", as a boolean *)
Definition count_agrees (s : bytes) : bool :=
  match count_pass s, parse s with
  | Some (nt, nc), Some ts => Nat.eqb nt (length ts) && Nat.eqb nc (toks_chars ts)
  | None, None => true
  | _, _ => false
  end.
