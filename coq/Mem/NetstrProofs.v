(* C20: netstring lengths never wrap 2^64 and never index outside char buf[1000]. *)
From NQ Require Import Base.Bytes Mem.Netstr.
From Coq Require Import ZArith Lia.
Local Open Scope Z_scope.
Ltac Zify.zify_post_hook ::= Z.div_mod_to_equations.

Definition in_writes (k : Z) (ws : list (Z * Z)) : Prop :=
  exists lo hi : Z, In (lo, hi) ws /\ lo <= k < hi.

(* ---- getlen ---- *)
(* the accumulator never exceeds 2000000009, so 10 * len + digit never wraps: the machine loop equals the
   loop computed in unbounded integers, and the returned value is at most 2000000009 *)
Lemma getlen_loop_sim : forall (inp : list Z) (len : Z), 0 <= len <= 2000000009 ->
  getlen_loop inp len = getlen_ideal_loop inp len /\
  forall (v : Z) (rest : list Z), getlen_loop inp len = GOk v rest -> 0 <= v <= 2000000009.
Proof.
  induction inp as [|ch r IH]; intros len Hlen; cbn [getlen_loop getlen_ideal_loop].
  - split; [reflexivity | discriminate].
  - destruct (ch =? 58) eqn:E58.
    { split; [reflexivity|]. intros v rest H. injection H as <- _. exact Hlen. }
    destruct (200000000 <? len) eqn:Ebig.
    { split; [reflexivity | discriminate]. }
    apply Z.ltb_ge in Ebig.
    destruct ((ch <? 48) || (57 <? ch)) eqn:Edig.
    { split; [reflexivity | discriminate]. }
    apply Bool.orb_false_iff in Edig. destruct Edig as [E1 E2].
    apply Z.ltb_ge in E1. apply Z.ltb_ge in E2.
    unfold M64. rewrite (Z.mod_small (10 * len + (ch - 48))) by lia.
    apply IH. lia.
Qed.

Theorem getlen_no_wrap : forall inp : list Z, getlen inp = getlen_ideal_loop inp 0.
Proof. intro inp. apply (getlen_loop_sim inp 0). lia. Qed.
Print Assumptions getlen_no_wrap.

Theorem getlen_bound : forall (inp : list Z) (v : Z) (rest : list Z),
  getlen inp = GOk v rest -> 0 <= v <= 2000000009.
Proof. intros inp v rest H. exact (proj2 (getlen_loop_sim inp 0 ltac:(lia)) v rest H). Qed.
Print Assumptions getlen_bound.

(* the bound is attained ("2000000009:"), and one more is refused ("2000000010:") *)
Example getlen_bound_tight : getlen [50;48;48;48;48;48;48;48;48;57;58] = GOk 2000000009 [].
Proof. vm_compute. reflexivity. Qed.
Example getlen_refuses : getlen [50;48;48;48;48;48;48;48;49;48;58] = GResources.
Proof. vm_compute. reflexivity. Qed.

(* so the int loop counters (for (i = 0; i < len; ++i)) stay below INT_MAX *)
Corollary getlen_fits_int : forall (inp : list Z) (v : Z) (rest : list Z),
  getlen inp = GOk v rest -> v < 2147483647.
Proof. intros inp v rest H. pose proof (getlen_bound inp v rest H). lia. Qed.

(* ---- the recipient loop ---- *)
(* without the digit check the accumulator CAN wrap: "/:" yields 2^64 - 1 ... *)
Example rcpt_len_wraps : rcpt_len [47; 58] 10 0 = ROk 18446744073709551615 8 [].
Proof. vm_compute. reflexivity. Qed.
(* ... which the following len >= biglen test rejects *)
Example rcpt_len_wrap_rejected : rcpt_decide 18446744073709551615 8 (Some 5) = RBad.
Proof. vm_compute. reflexivity. Qed.

Lemma rcpt_len_range : forall (inp : list Z) (biglen len : Z),
  0 <= biglen -> 0 <= len < 18446744073709551616 ->
  forall (v b : Z) (rest : list Z), rcpt_len inp biglen len = ROk v b rest ->
  0 <= v < 18446744073709551616 /\ 0 <= b < biglen.
Proof.
  induction inp as [|ch r IH]; intros biglen len Hb Hlen v b rest H; cbn [rcpt_len] in H.
  - destruct (biglen =? 0); discriminate.
  - destruct (biglen =? 0) eqn:E0; [discriminate|]. apply Z.eqb_neq in E0.
    destruct (ch =? 58).
    { injection H as <- <- _. lia. }
    destruct (200000000 <? len); [discriminate|].
    apply IH in H; [lia | lia | unfold M64; apply Z.mod_pos_bound; lia].
Qed.

(* MAIN: whatever len the parser produced (even a wrapped one), if biglen is a value bounded like a getlen
   result and the code takes the accepting branch, every index stored into char buf[1000] is in range *)
Theorem rcpt_decide_safe : forall (len biglen : Z) (relayclient : option Z) (ws : list (Z * Z)),
  0 <= len < 18446744073709551616 -> 0 <= biglen <= 2000000009 ->
  match relayclient with Some l => 0 <= l < 2147483648 | None => True end ->
  rcpt_decide len biglen relayclient = RAccept ws ->
  forall k : Z, in_writes k ws -> 0 <= k < 1000.
Proof.
  intros len biglen relayclient ws Hlen Hbig Hrl H k Hk. unfold rcpt_decide, M64 in H.
  destruct (biglen <=? len) eqn:E1; [discriminate|]. apply Z.leb_gt in E1.
  destruct relayclient as [l|].
  - rewrite (Z.mod_small (len + l)) in H by lia.
    destruct (1000 <=? len + l) eqn:E2; [discriminate|]. apply Z.leb_gt in E2.
    injection H as <-. destruct Hk as [lo [hi [Hin Hr]]]. cbn [app In] in Hin.
    destruct Hin as [Hin|[Hin|[Hin|[]]]]; injection Hin as <- <-; lia.
  - rewrite Z.add_0_r, (Z.mod_small len) in H by lia.
    destruct (1000 <=? len) eqn:E2; [discriminate|]. apply Z.leb_gt in E2.
    injection H as <-. destruct Hk as [lo [hi [Hin Hr]]]. cbn [app In] in Hin.
    destruct Hin as [Hin|[Hin|[]]]; injection Hin as <- <-; lia.
Qed.
Print Assumptions rcpt_decide_safe.

(* end to end for one recipient: biglen from getlen (or any later, smaller value), len from the inline parser *)
Corollary rcpt_step_safe : forall (inp : list Z) (biglen v b : Z) (rest : list Z) (relayclient : option Z)
                                  (ws : list (Z * Z)),
  0 <= biglen <= 2000000009 ->
  match relayclient with Some l => 0 <= l < 2147483648 | None => True end ->
  rcpt_len inp biglen 0 = ROk v b rest ->
  rcpt_decide v b relayclient = RAccept ws ->
  (forall k : Z, in_writes k ws -> 0 <= k < 1000) /\ 0 <= b - (v + 1) < biglen.
Proof.
  intros inp biglen v b rest relayclient ws Hbig Hrl Hl Hd.
  destruct (rcpt_len_range inp biglen 0 ltac:(lia) ltac:(lia) v b rest Hl) as [Hv Hb].
  split.
  - apply (rcpt_decide_safe v b relayclient ws Hv ltac:(lia) Hrl Hd).
  - unfold rcpt_decide in Hd. destruct (b <=? v) eqn:E; [discriminate|]. apply Z.leb_gt in E. lia.
Qed.
Print Assumptions rcpt_step_safe.

(* the guard is necessary: with biglen unconstrained a wrapped len + relayclientlen would be accepted *)
Example rcpt_decide_needs_biglen_bound :
  rcpt_decide 18446744073709551611 18446744073709551612 (Some 5)
  = RAccept [(0, 18446744073709551611); (18446744073709551611, 18446744073709551612);
             (18446744073709551611, 18446744073709551617)].
Proof. vm_compute. reflexivity. Qed.

(* ---- sender address / getaddr ---- *)
Theorem addr_writes_safe : forall len : Z, 0 <= len ->
  forall k : Z, in_writes k (addr_writes len) -> 0 <= k < 1000.
Proof.
  intros len Hlen k [lo [hi [Hin Hr]]]. unfold addr_writes in Hin.
  destruct (1000 <=? len) eqn:E.
  - destruct Hin as [Hin|[]]; injection Hin as <- <-; lia.
  - apply Z.leb_gt in E. destruct Hin as [Hin|[Hin|[]]]; injection Hin as <- <-; lia.
Qed.
Print Assumptions addr_writes_safe.
