From NQ Require Import Base.Bytes Mem.DnsParse.
From Coq Require Import ZArith Lia.
Local Open Scope Z_scope.

Definition byte_buf (buf : Z -> Z) : Prop := forall p, 0 <= buf p < 256.
Definition in_resp (rlen : Z) (x : Z) : Prop := 0 <= x < rlen.

Lemma getshort_range buf p : byte_buf buf -> 0 <= getshort buf p < 65536.
Proof. intro H. unfold getshort. pose proof (H p). pose proof (H (p + 1)). lia. Qed.

Section Safe.
  Variables (buf : Z -> Z) (rlen : Z) (dn : Z -> option Z).
  Hypothesis Hb : byte_buf buf.
  Hypothesis Hdn : dn_contract rlen dn.

  Lemma find_safe k want s r s' rd :
    0 <= pos s -> find buf rlen dn true k want s = (r, s', rd) ->
    Forall (in_resp rlen) rd /\ pos s <= pos s' /\ numanswers s' <= numanswers s /\
    (r <> FEnd -> numanswers s' = numanswers s - 1).
  Proof.
    intros Hp H. unfold find in H.
    destruct (numanswers s <=? 0) eqn:En; [injection H as <- <- <-; repeat split; try constructor; try lia; congruence|].
    destruct (pos s =? rlen) eqn:Ee; [injection H as <- <- <-; cbn; repeat split; try constructor; lia|].
    destruct (dn (pos s)) as [i|] eqn:Ed; [|injection H as <- <- <-; cbn; repeat split; try constructor; lia].
    destruct (Hdn _ _ Ed) as [Hp1 [Hi Hpi]].
    destruct (rlen - (pos s + i) <? 10) eqn:E10; [injection H as <- <- <-; cbn; repeat split; try constructor; lia|].
    apply Z.ltb_ge in E10.
    pose proof (getshort_range buf (pos s + i + 8) Hb) as Hl.
    assert (Hrd : Forall (in_resp rlen) [pos s + i; pos s + i + 1; pos s + i + 8; pos s + i + 9])
      by (repeat constructor; unfold in_resp; lia).
    cbv zeta in H.
    Ltac fin := cbn [pos numanswers]; repeat split; try lia; try congruence; try (repeat constructor; unfold in_resp; lia).
    destruct (getshort buf (pos s + i) =? want).
    - destruct k.
      + destruct (dn (pos s + i + 10)); injection H as <- <- <-; fin.
      + destruct (getshort buf (pos s + i + 8) <? 4) eqn:E4; [injection H as <- <- <-; fin|].
        cbn [andb] in H. destruct (rlen - (pos s + i + 10) <? 4) eqn:E5; [injection H as <- <- <-; fin|].
        apply Z.ltb_ge in E5. injection H as <- <- <-. cbn [app]. fin.
      + destruct (getshort buf (pos s + i + 8) <? 3) eqn:E4; [injection H as <- <- <-; fin|].
        cbn [andb] in H. destruct (rlen - (pos s + i + 10) <? 3) eqn:E5; [injection H as <- <- <-; fin|].
        apply Z.ltb_ge in E5.
        destruct (dn (pos s + i + 10 + 2)); injection H as <- <- <-; cbn [app]; fin.
    - injection H as <- <- <-. fin.
  Qed.

  Lemma walk_safe k want : forall fuel s rs rd, 0 <= pos s ->
    walk buf rlen dn true fuel k want s = (rs, rd) -> Forall (in_resp rlen) rd.
  Proof.
    induction fuel as [|f IH]; intros s rs rd Hp H; cbn [walk] in H; [injection H as <- <-; constructor|].
    destruct (find buf rlen dn true k want s) as [[r s'] rd0] eqn:Ef.
    destruct (find_safe _ _ _ _ _ _ Hp Ef) as [Hr [Hp' _]].
    destruct r.
    - injection H as <- <-. exact Hr.
    - injection H as <- <-. exact Hr.
    - destruct (walk buf rlen dn true f k want s') as [rs1 rd1] eqn:Ew. injection H as <- <-.
      apply Forall_app. split; [exact Hr | eapply IH; [|exact Ew]; lia].
    - destruct (walk buf rlen dn true f k want s') as [rs1 rd1] eqn:Ew. injection H as <- <-.
      apply Forall_app. split; [exact Hr | eapply IH; [|exact Ew]; lia].
  Qed.

  Lemma skip_questions_pos : forall n p q, 0 <= p -> skip_questions rlen dn n p = Some q -> p <= q.
  Proof.
    induction n as [|n IH]; intros p q Hp H; cbn [skip_questions] in H; [injection H as <-; lia|].
    destruct (dn p) as [i|] eqn:Ed; [|discriminate]. destruct (Hdn _ _ Ed) as [_ [Hi _]].
    destruct (rlen - (p + i) <? QFIXEDSZ); [discriminate|]. apply IH in H; unfold QFIXEDSZ in *; lia.
  Qed.

  (* REQUIRED: the whole walk after resolve(): every index read directly lies inside the response, the header fields
     are read below HFIXEDSZ, and the loop ends after at most the announced number of answers *)
  Theorem response_walk_reads_inside : forall k want s0 hdr rs rd,
    resolve_walk buf rlen dn = (Some s0, hdr) ->
    walk buf rlen dn true (S (Z.to_nat (numanswers s0))) k want s0 = (rs, rd) ->
    Forall (fun x => 0 <= x < HFIXEDSZ) hdr /\ Forall (in_resp rlen) rd.
  Proof.
    intros k want s0 hdr rs rd Hr Hw. unfold resolve_walk in Hr.
    destruct (skip_questions rlen dn (Z.to_nat (getshort buf 4)) HFIXEDSZ) as [p|] eqn:Es; [|discriminate].
    injection Hr as <- <-. split; [repeat constructor; unfold HFIXEDSZ; lia|].
    eapply walk_safe; [|exact Hw]. cbn. apply skip_questions_pos in Es; unfold HFIXEDSZ in *; lia.
  Qed.
End Safe.

(* the loop always ends: after numanswers calls the next one returns 2 *)
Lemma walk_ends buf rlen dn fx k want : forall fuel s rs rd, (Z.to_nat (numanswers s) < fuel)%nat ->
  walk buf rlen dn fx fuel k want s = (rs, rd) -> exists pre, rs = pre ++ [FEnd] \/ rs = pre ++ [FSoft].
Proof.
  induction fuel as [|f IH]; intros s rs rd Hf H; [lia|]. cbn [walk] in H.
  destruct (find buf rlen dn fx k want s) as [[r s'] rd0] eqn:Ef.
  assert (Hn : r = FEnd \/ r = FSoft \/ (numanswers s' = numanswers s - 1 /\ 0 < numanswers s)).
  { unfold find in Ef. destruct (numanswers s <=? 0) eqn:En; [injection Ef as <- <- <-; auto|]. apply Z.leb_gt in En.
    destruct (pos s =? rlen); [injection Ef as <- <- <-; auto|].
    destruct (dn (pos s)); [|injection Ef as <- <- <-; auto].
    destruct (rlen - (pos s + z) <? 10); [injection Ef as <- <- <-; auto|]. cbv zeta in Ef.
    destruct (getshort buf (pos s + z) =? want); [|injection Ef as <- <- <-; cbn; auto].
    destruct k.
    - destruct (dn (pos s + z + 10)); injection Ef as <- <- <-; cbn; auto.
    - destruct (getshort buf (pos s + z + 8) <? 4); [injection Ef as <- <- <-; auto|].
      destruct (fx && (rlen - (pos s + z + 10) <? 4)); injection Ef as <- <- <-; cbn; auto.
    - destruct (getshort buf (pos s + z + 8) <? 3); [injection Ef as <- <- <-; auto|].
      destruct (fx && (rlen - (pos s + z + 10) <? 3)); [injection Ef as <- <- <-; auto|].
      destruct (dn (pos s + z + 10 + 2)); injection Ef as <- <- <-; cbn; auto. }
  destruct r.
  - injection H as <- <-. exists []. auto.
  - injection H as <- <-. exists []. auto.
  - destruct Hn as [X|[X|[Hn1 Hn2]]]; try discriminate.
    destruct (walk buf rlen dn fx f k want s') as [rs1 rd1] eqn:Ew. injection H as <- <-.
    destruct (IH s' rs1 rd1) as [pre [E|E]]; [lia | exact Ew | |]; exists (FSkip :: pre); rewrite E; auto.
  - destruct Hn as [X|[X|[Hn1 Hn2]]]; try discriminate.
    destruct (walk buf rlen dn fx f k want s') as [rs1 rd1] eqn:Ew. injection H as <- <-.
    destruct (IH s' rs1 rd1) as [pre [E|E]]; [lia | exact Ew | |]; exists (FGot :: pre); rewrite E; auto.
Qed.

(* the concrete dn_expand stand-in of the correspondence check meets the contract *)
Local Opaque Z.add Z.mul Z.sub.
Lemma dn_simple_from_contract buf rlen : byte_buf buf -> forall fuel p a i,
  dn_simple_from fuel buf rlen p a = Some i -> 0 <= p < rlen /\ 1 <= i /\ p + i <= rlen.
Proof.
  intros Hb. induction fuel as [|f IH]; intros p a i H; cbn [dn_simple_from] in H; [discriminate|].
  destruct ((p <? 0) || (rlen <=? p)) eqn:E; [discriminate|]. apply Bool.orb_false_iff in E as [E1 E2].
  apply Z.ltb_ge in E1. apply Z.leb_gt in E2.
  destruct (buf p =? 0) eqn:E0; [injection H as <-; lia|].
  destruct (192 <=? buf p) eqn:E192.
  - destruct (a && (p + 1 <? rlen)) eqn:Ea; [|discriminate]. apply Bool.andb_true_iff in Ea as [_ Ea]. apply Z.ltb_lt in Ea.
    destruct (256 * (buf p - 192) + buf (p + 1) <? p); [|discriminate].
    destruct (dn_simple_from f buf rlen (256 * (buf p - 192) + buf (p + 1)) false); [|discriminate]. injection H as <-. lia.
  - destruct (64 <=? buf p); [discriminate|].
    destruct (dn_simple_from f buf rlen (p + 1 + buf p) a) as [j|] eqn:Ej; [|discriminate]. injection H as <-.
    apply IH in Ej. pose proof (Hb p). apply Z.eqb_neq in E0. lia.
Qed.
(* stated for every fuel; dn_simple is the instance with dn_fuel *)
Theorem dn_simple_meets_contract : forall buf rlen fuel, byte_buf buf -> dn_contract rlen (fun p => dn_simple_from fuel buf rlen p true).
Proof. intros buf rlen fuel Hb p i H. eapply dn_simple_from_contract; eassumption. Qed.
Local Transparent Z.add Z.mul Z.sub.

(* the code before the repair: an A record announced at the very end of the response is read past the end *)
Definition old_buf (p : Z) : Z :=
  (* 12 header bytes (qdcount 0, ancount 1), then: root name, type A (1), class, ttl, rdlength 4 - and no data *)
  nth (Z.to_nat p) [0;0;0;0; 0;0; 0;1; 0;0;0;0;  0; 0;1; 0;1; 0;0;0;0; 0;4] 0.
Definition reads_of (fx : bool) : option (list fres * list Z) :=
  match fst (resolve_walk old_buf 23 (dn_simple old_buf 23)) with
  | Some s0 => Some (walk old_buf 23 (dn_simple old_buf 23) fx 2 KIp 1 s0)
  | None => None
  end.
Theorem unfixed_code_reads_past_the_response :
  option_map (fun w => existsb (fun x => 23 <=? x) (snd w)) (reads_of false) = Some true.
Proof. vm_compute. reflexivity. Qed.
Example fixed_code_on_the_same_response :
  option_map (fun w => (fst w, existsb (fun x => 23 <=? x) (snd w))) (reads_of true) = Some ([FSoft], false).
Proof. vm_compute. reflexivity. Qed.
