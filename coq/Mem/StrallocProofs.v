(* C20: memory safety of the stralloc growth functions and of quote.c doit(): every index written lies
   inside the allocated block, unsigned overflow of the size computations is refused, capacities only grow
   and contents/lengths are preserved. *)
From NQ Require Import Base.Bytes Mem.Stralloc.
From Coq Require Import ZArith Lia.
Local Open Scope Z_scope.
Ltac Zify.zify_post_hook ::= Z.div_mod_to_equations.

(* the data-structure invariant: a non-NULL stralloc has 0 <= len <= a < 2^32; nothing is assumed about
   len while s == NULL *)
Definition wf (x : sa) : Prop :=
  match s_alloc x with
  | Some a => 0 <= s_len x <= a /\ a < 4294967296
  | None => True
  end.

(* k is one of the indices written *)
Definition in_writes (k : Z) (ws : list (Z * Z)) : Prop :=
  exists lo hi : Z, In (lo, hi) ws /\ lo <= k < hi.
(* all writes fall inside the block of the resulting state *)
Definition writes_in_block (r : res) : Prop :=
  exists a : Z, s_alloc (r_sa r) = Some a /\ forall k : Z, in_writes k (r_writes r) -> 0 <= k < a.

(* ---- readyplus_internal ---- *)
Lemma rpi_some : forall (x : sa) (a n p : Z) (alloc_ok b : bool) (x' : sa),
  s_alloc x = Some a -> 0 <= s_len x <= a /\ a < 4294967296 -> 0 <= n < 4294967296 -> 0 <= p < 4294967296 ->
  readyplus_internal x n p alloc_ok = (b, x') ->
  s_len x' = s_len x /\ s_data x' = s_data x /\
  (b = false -> x' = x) /\
  (4294967296 <= n + p -> b = false) /\
  exists a' : Z, s_alloc x' = Some a' /\ a <= a' < 4294967296 /\ (b = true -> n + p <= a').
Proof.
  intros x a n p alloc_ok b x' Hs Hwf Hn Hp H.
  unfold readyplus_internal, add_ov, mul_ov, M32 in H. rewrite Hs in H.
  destruct (4294967296 <=? n + p) eqn:E1.
  { apply Z.leb_le in E1. injection H as <- <-. repeat split; try reflexivity.
    exists a. split; [exact Hs|]. split; [lia | discriminate]. }
  apply Z.leb_gt in E1. rewrite (Z.mod_small (n + p)) in H by lia.
  destruct (n + p <=? a) eqn:E2.
  { apply Z.leb_le in E2. injection H as <- <-. repeat split; try reflexivity; try discriminate; try lia.
    exists a. split; [exact Hs|]. split; [lia | intros _; exact E2]. }
  apply Z.leb_gt in E2.
  assert (Hsm : ((n + p) / 8 + 30) mod 4294967296 = (n + p) / 8 + 30) by (apply Z.mod_small; lia).
  rewrite Hsm in H.
  destruct (4294967296 <=? n + p + ((n + p) / 8 + 30)) eqn:E3.
  { injection H as <- <-. repeat split; try reflexivity; try discriminate; try lia.
    exists a. split; [exact Hs|]. split; [lia | discriminate]. }
  apply Z.leb_gt in E3. rewrite (Z.mod_small (n + p + ((n + p) / 8 + 30))) in H by lia.
  rewrite Z.mul_1_r in H.
  destruct (4294967296 <=? n + p + ((n + p) / 8 + 30)) eqn:E4.
  { apply Z.leb_le in E4. lia. }
  destruct alloc_ok.
  - injection H as <- <-. unfold with_alloc; cbn [s_len s_data s_alloc].
    repeat split; try reflexivity; try discriminate; try lia.
    exists (n + p + ((n + p) / 8 + 30)). split; [reflexivity|]. split; [lia | intros _; lia].
  - injection H as <- <-. repeat split; try reflexivity; try discriminate; try lia.
    exists a. split; [exact Hs|]. split; [lia | discriminate].
Qed.

Lemma rpi_none : forall (x : sa) (n p : Z) (alloc_ok : bool),
  s_alloc x = None -> 0 <= n < 4294967296 ->
  readyplus_internal x n p alloc_ok = (alloc_ok, if alloc_ok then with_alloc (zero_len x) n else zero_len x).
Proof.
  intros x n p alloc_ok Hs Hn. unfold readyplus_internal, mul_ov, M32. rewrite Hs.
  rewrite Z.mul_1_r. destruct (4294967296 <=? n) eqn:E; [apply Z.leb_le in E; lia|].
  destruct alloc_ok; reflexivity.
Qed.

(* (1) well-formedness is preserved *)
Theorem readyplus_internal_wf : forall (x : sa) (n p : Z) (alloc_ok : bool),
  wf x -> 0 <= n < 4294967296 -> (s_alloc x <> None -> 0 <= p < 4294967296) ->
  wf (snd (readyplus_internal x n p alloc_ok)).
Proof.
  intros x n p alloc_ok Hwf Hn Hp. unfold wf in Hwf.
  destruct (s_alloc x) as [a|] eqn:Hs.
  - destruct (readyplus_internal x n p alloc_ok) as [b x'] eqn:H.
    destruct (rpi_some x a n p alloc_ok b x' Hs Hwf Hn (Hp ltac:(discriminate)) H)
      as [Hlen [_ [_ [_ [a' [Ha' [Hge _]]]]]]].
    cbn [snd]. unfold wf. rewrite Ha', Hlen. lia.
  - rewrite (rpi_none x n p alloc_ok Hs Hn). cbn [snd].
    destruct alloc_ok; unfold wf, with_alloc, zero_len; cbn [s_alloc s_len]; [lia|]. rewrite Hs. exact I.
Qed.

Lemma wf_len_range : forall x : sa, wf x -> s_alloc x <> None -> 0 <= s_len x < 4294967296.
Proof. intros x Hwf Hs. unfold wf in Hwf. destruct (s_alloc x); [lia | contradiction]. Qed.

Theorem readyplus_wf : forall (x : sa) (n : Z) (alloc_ok : bool),
  wf x -> 0 <= n < 4294967296 -> wf (snd (readyplus x n alloc_ok)).
Proof.
  intros x n alloc_ok Hwf Hn. apply readyplus_internal_wf; [exact Hwf | exact Hn | apply wf_len_range; exact Hwf].
Qed.

Theorem ready_wf : forall (x : sa) (n : Z) (alloc_ok : bool),
  wf x -> 0 <= n < 4294967296 -> wf (snd (ready x n alloc_ok)).
Proof. intros x n alloc_ok Hwf Hn. apply readyplus_internal_wf; [exact Hwf | exact Hn | lia]. Qed.

(* (3)+(4) for readyplus / ready.  Non-NULL branch: len and contents are never touched; on failure the whole
   structure is unchanged; an overflowing n + len is refused; on success the capacity is >= n + len, never
   shrinks and stays < 2^32.  NULL branch: len := 0, and on success the capacity is exactly n. *)
Theorem readyplus_spec : forall (x : sa) (n : Z) (alloc_ok : bool),
  wf x -> 0 <= n < 4294967296 ->
  let (b, x') := readyplus x n alloc_ok in
  match s_alloc x with
  | Some a =>
    s_len x' = s_len x /\ s_data x' = s_data x /\
    (b = false -> x' = x) /\
    (4294967296 <= n + s_len x -> b = false) /\
    exists a' : Z, s_alloc x' = Some a' /\ a <= a' < 4294967296 /\ (b = true -> n + s_len x' <= a')
  | None =>
    b = alloc_ok /\ s_len x' = 0 /\ s_data x' = [] /\
    s_alloc x' = (if b then Some n else None)
  end.
Proof.
  intros x n alloc_ok Hwf Hn. unfold readyplus.
  destruct (readyplus_internal x n (s_len x) alloc_ok) as [b x'] eqn:H.
  unfold wf in Hwf. destruct (s_alloc x) as [a|] eqn:Hs.
  - destruct (rpi_some x a n (s_len x) alloc_ok b x' Hs Hwf Hn ltac:(lia) H)
      as [Hlen [Hdata [Hfail [Hov [a' [Ha' [Hge Hcap]]]]]]].
    rewrite Hlen. repeat split; try assumption. exists a'. repeat split; try assumption; lia.
  - rewrite (rpi_none x n _ alloc_ok Hs Hn) in H. injection H as <- <-.
    destruct alloc_ok; unfold with_alloc, zero_len; cbn [s_alloc s_len s_data]; rewrite ?Hs; repeat split.
Qed.

Theorem ready_spec : forall (x : sa) (n : Z) (alloc_ok : bool),
  wf x -> 0 <= n < 4294967296 ->
  let (b, x') := ready x n alloc_ok in
  match s_alloc x with
  | Some a =>
    s_len x' = s_len x /\ s_data x' = s_data x /\
    (b = false -> x' = x) /\
    exists a' : Z, s_alloc x' = Some a' /\ a <= a' < 4294967296 /\ (b = true -> n <= a')
  | None =>
    b = alloc_ok /\ s_len x' = 0 /\ s_data x' = [] /\
    s_alloc x' = (if b then Some n else None)
  end.
Proof.
  intros x n alloc_ok Hwf Hn. unfold ready.
  destruct (readyplus_internal x n 0 alloc_ok) as [b x'] eqn:H.
  unfold wf in Hwf. destruct (s_alloc x) as [a|] eqn:Hs.
  - destruct (rpi_some x a n 0 alloc_ok b x' Hs Hwf Hn ltac:(lia) H)
      as [Hlen [Hdata [Hfail [Hov [a' [Ha' [Hge Hcap]]]]]]].
    repeat split; try assumption. exists a'. split; [exact Ha'|]. split; [lia|]. intro Hb. specialize (Hcap Hb). lia.
  - rewrite (rpi_none x n _ alloc_ok Hs Hn) in H. injection H as <- <-.
    destruct alloc_ok; unfold with_alloc, zero_len; cbn [s_alloc s_len s_data]; rewrite ?Hs; repeat split.
Qed.

Print Assumptions readyplus_wf.
Print Assumptions ready_wf.
Print Assumptions readyplus_spec.
Print Assumptions ready_spec.

(* uniform corollary: after a successful readyplus/ready the block has room for n more bytes after len *)
Corollary readyplus_room : forall (x : sa) (n : Z) (alloc_ok : bool) (x' : sa),
  wf x -> 0 <= n < 4294967296 -> readyplus x n alloc_ok = (true, x') ->
  exists a' : Z, s_alloc x' = Some a' /\ 0 <= s_len x' /\ s_len x' + n <= a' < 4294967296.
Proof.
  intros x n alloc_ok x' Hwf Hn H. pose proof (readyplus_spec x n alloc_ok Hwf Hn) as S. rewrite H in S.
  unfold wf in Hwf. destruct (s_alloc x) as [a|].
  - destruct S as [Hlen [_ [_ [_ [a' [Ha' [Hge Hcap]]]]]]]. exists a'. specialize (Hcap eq_refl). repeat split; try assumption; lia.
  - destruct S as [_ [Hlen [_ Ha']]]. exists n. rewrite Hlen. repeat split; try assumption; lia.
Qed.

Corollary ready_room : forall (x : sa) (n : Z) (alloc_ok : bool) (x' : sa),
  wf x -> 0 <= n < 4294967296 -> ready x n alloc_ok = (true, x') ->
  exists a' : Z, s_alloc x' = Some a' /\ n <= a' < 4294967296 /\ 0 <= s_len x' <= a'.
Proof.
  intros x n alloc_ok x' Hwf Hn H. pose proof (ready_spec x n alloc_ok Hwf Hn) as S. rewrite H in S.
  pose proof (ready_wf x n alloc_ok Hwf Hn) as W. rewrite H in W. cbn [snd] in W. unfold wf in W.
  unfold wf in Hwf. destruct (s_alloc x) as [a|].
  - destruct S as [Hlen [_ [_ [a' [Ha' [Hge Hcap]]]]]]. exists a'. specialize (Hcap eq_refl). rewrite Ha' in W.
    repeat split; try assumption; lia.
  - destruct S as [_ [Hlen [_ Ha']]]. exists n. rewrite Ha' in W. repeat split; try assumption; lia.
Qed.

(* ---- append ---- *)
Theorem append_safe : forall (x : sa) (c : N) (alloc_ok : bool),
  wf x ->
  let r := append x c alloc_ok in
  wf (r_sa r) /\
  (r_ok r = true ->
     writes_in_block r /\
     exists l : Z, r_writes r = [(l, l + 1)] /\ s_len (r_sa r) = l + 1 /\
                   l = (match s_alloc x with Some _ => s_len x | None => 0 end) /\
                   s_data (r_sa r) = (match s_alloc x with Some _ => s_data x | None => [] end) ++ [c]) /\
  (r_ok r = false -> r_writes r = [] /\
     r_sa r = (match s_alloc x with Some _ => x | None => zero_len x end)) /\
  (match s_alloc x with Some _ => 4294967296 <= s_len x + 1 -> r_ok r = false | None => True end).
Proof.
  intros x c alloc_ok Hwf r. subst r. unfold append.
  pose proof (readyplus_spec x 1 alloc_ok Hwf ltac:(lia)) as S.
  pose proof (readyplus_wf x 1 alloc_ok Hwf ltac:(lia)) as W.
  destruct (readyplus x 1 alloc_ok) as [b x1] eqn:H. cbn [snd] in W.
  destruct b; cbn [negb].
  - destruct (readyplus_room x 1 alloc_ok x1 Hwf ltac:(lia) H) as [a' [Ha' [Hl0 Hroom]]].
    cbn [r_ok r_sa r_writes s_len s_alloc s_data]. unfold M32.
    rewrite (Z.mod_small (s_len x1 + 1)) by lia.
    split; [unfold wf; cbn [s_alloc s_len]; rewrite Ha'; lia|].
    split.
    + intros _. split.
      * exists a'. cbn [r_sa s_alloc r_writes]. split; [exact Ha'|].
        intros k [lo [hi [Hin Hk]]]. destruct Hin as [Hin|[]]. injection Hin as <- <-. lia.
      * exists (s_len x1). split; [reflexivity|]. split; [reflexivity|].
        destruct (s_alloc x) as [a|].
        -- destruct S as [Hlen [Hdata _]]. rewrite Hlen, Hdata. split; reflexivity.
        -- destruct S as [_ [Hlen [Hdata _]]]. rewrite Hlen, Hdata. split; reflexivity.
    + split; [discriminate|]. destruct (s_alloc x) as [a|]; [|exact I].
      destruct S as [_ [_ [_ [Hov _]]]]. intro Hbig. specialize (Hov ltac:(lia)). discriminate.
  - unfold fail; cbn [r_ok r_sa r_writes]. split; [exact W|]. split; [discriminate|].
    split.
    + intros _. split; [reflexivity|].
      destruct (s_alloc x) as [a|] eqn:Hs.
      * destruct S as [_ [_ [Hfail _]]]. exact (Hfail eq_refl).
      * unfold readyplus in H. rewrite (rpi_none x 1 _ alloc_ok Hs ltac:(lia)) in H.
        injection H as -> <-. reflexivity.
    + destruct (s_alloc x); [reflexivity | exact I].
Qed.
Print Assumptions append_safe.

(* ---- copyb ---- *)
Theorem copyb_safe : forall (x : sa) (src : list N) (n : Z) (alloc_ok : bool),
  wf x -> 0 <= n < 4294967296 ->
  let r := copyb x src n alloc_ok in
  wf (r_sa r) /\
  (r_ok r = true ->
     writes_in_block r /\
     r_writes r = [(0, n); (n, n + 1)] /\ s_len (r_sa r) = n /\
     s_data (r_sa r) = firstn (Z.to_nat n) src /\
     exists a' : Z, s_alloc (r_sa r) = Some a' /\ n + 1 <= a' < 4294967296 /\
                    (match s_alloc x with Some a => a <= a' | None => a' = n + 1 end)) /\
  (r_ok r = false -> r_writes r = []) /\
  (4294967296 <= n + 1 -> r_ok r = false /\ r_sa r = x) /\
  (r_ok r = false -> s_alloc x <> None -> r_sa r = x).
Proof.
  intros x src n alloc_ok Hwf Hn r. subst r. unfold copyb, add_ov, M32.
  destruct (4294967296 <=? n + 1) eqn:E1.
  { unfold fail; cbn [r_ok r_sa r_writes]. split; [exact Hwf|]. split; [discriminate|].
    split; [reflexivity|]. split; [split; reflexivity | reflexivity]. }
  apply Z.leb_gt in E1. rewrite (Z.mod_small (n + 1)) by lia.
  pose proof (ready_spec x (n + 1) alloc_ok Hwf ltac:(lia)) as S.
  pose proof (ready_wf x (n + 1) alloc_ok Hwf ltac:(lia)) as W.
  destruct (ready x (n + 1) alloc_ok) as [b x1] eqn:H. cbn [snd] in W.
  destruct b; cbn [negb].
  - destruct (ready_room x (n + 1) alloc_ok x1 Hwf ltac:(lia) H) as [a' [Ha' [Hroom Hl]]].
    cbn [r_ok r_sa r_writes s_len s_alloc s_data].
    split; [unfold wf; cbn [s_alloc s_len]; rewrite Ha'; lia|].
    split.
    + intros _. split.
      * exists a'. cbn [r_sa s_alloc r_writes]. split; [exact Ha'|].
        intros k [lo [hi [Hin Hk]]]. destruct Hin as [Hin|[Hin|[]]]; injection Hin as <- <-; lia.
      * split; [reflexivity|]. split; [reflexivity|]. split; [reflexivity|].
        exists a'. split; [exact Ha'|]. split; [lia|].
        destruct (s_alloc x) as [a|].
        -- destruct S as [_ [_ [_ [a2 [Ha2 [Hge _]]]]]]. rewrite Ha' in Ha2. injection Ha2 as <-. lia.
        -- destruct S as [_ [_ [_ Ha2]]]. rewrite Ha' in Ha2. injection Ha2 as ->. reflexivity.
    + split; [discriminate|]. split; [lia | discriminate].
  - unfold fail; cbn [r_ok r_sa r_writes]. split; [exact W|]. split; [discriminate|].
    split; [reflexivity|]. split; [lia|].
    intros _ Hnn. destruct (s_alloc x) as [a|]; [|contradiction].
    destruct S as [_ [_ [Hfail _]]]. exact (Hfail eq_refl).
Qed.
Print Assumptions copyb_safe.

(* ---- catb ---- *)
Theorem catb_safe : forall (x : sa) (src : list N) (n : Z) (alloc_ok : bool),
  wf x -> 0 <= n < 4294967296 ->
  let r := catb x src n alloc_ok in
  wf (r_sa r) /\
  (r_ok r = true ->
     writes_in_block r /\
     exists l : Z, l = (match s_alloc x with Some _ => s_len x | None => 0 end) /\
       r_writes r = [(l, l + n); (l + n, l + n + 1)] /\ s_len (r_sa r) = l + n /\
       s_data (r_sa r) = (match s_alloc x with Some _ => s_data x | None => [] end) ++ firstn (Z.to_nat n) src /\
       exists a' : Z, s_alloc (r_sa r) = Some a' /\ l + n + 1 <= a' < 4294967296 /\
                      (match s_alloc x with Some a => a <= a' | None => True end)) /\
  (r_ok r = false -> r_writes r = []) /\
  (r_ok r = false -> s_alloc x <> None -> r_sa r = x) /\
  (match s_alloc x with
   | Some _ => 4294967296 <= s_len x + n + 1 -> r_ok r = false /\ r_sa r = x
   | None => 4294967296 <= n + 1 -> r_ok r = false /\ r_sa r = x
   end).
Proof.
  intros x src n alloc_ok Hwf Hn r. subst r. unfold catb.
  destruct (s_alloc x) as [a|] eqn:Hs.
  2:{ pose proof (copyb_safe x src n alloc_ok Hwf Hn) as C. cbv zeta in C. rewrite Hs in C.
      destruct C as [C1 [C2 [C3 [C4 C5]]]].
      split; [exact C1|]. split.
      - intro Hok. destruct (C2 Hok) as [Hw [Hwr [Hlen [Hdata [a' [Ha' [Hcap Heq]]]]]]].
        split; [exact Hw|]. exists 0. split; [reflexivity|]. split; [exact Hwr|]. split; [lia|].
        split; [exact Hdata|]. exists a'. split; [exact Ha'|]. split; [lia | exact I].
      - split; [exact C3|]. split; [intros _ Hc; contradiction | exact C4]. }
  unfold add_ov, M32.
  assert (Hwf' : 0 <= s_len x <= a /\ a < 4294967296) by (unfold wf in Hwf; rewrite Hs in Hwf; exact Hwf).
  destruct (4294967296 <=? n + 1) eqn:E1.
  { unfold fail; cbn [r_ok r_sa r_writes]. split; [exact Hwf|]. split; [discriminate|].
    split; [reflexivity|]. split; [reflexivity|]. intros _. split; reflexivity. }
  apply Z.leb_gt in E1. rewrite (Z.mod_small (n + 1)) by lia.
  pose proof (readyplus_spec x (n + 1) alloc_ok Hwf ltac:(lia)) as S. rewrite Hs in S.
  pose proof (readyplus_wf x (n + 1) alloc_ok Hwf ltac:(lia)) as W.
  destruct (readyplus x (n + 1) alloc_ok) as [b x1] eqn:H. cbn [snd] in W.
  destruct S as [Hlen [Hdata [Hfail [Hov [a' [Ha' [Hge Hcap]]]]]]].
  destruct b; cbn [negb].
  - specialize (Hcap eq_refl).
    cbn [r_ok r_sa r_writes s_len s_alloc s_data].
    rewrite (Z.mod_small (s_len x1 + n)) by lia. rewrite Hlen, Hdata.
    split; [unfold wf; cbn [s_alloc s_len]; rewrite Ha'; lia|].
    split.
    + intros _. split.
      * exists a'. cbn [r_sa s_alloc r_writes]. split; [exact Ha'|].
        intros k [lo [hi [Hin Hk]]]. destruct Hin as [Hin|[Hin|[]]]; injection Hin as <- <-; lia.
      * exists (s_len x). split; [reflexivity|]. split; [reflexivity|]. split; [reflexivity|].
        split; [reflexivity|]. exists a'. split; [exact Ha'|]. split; lia.
    + split; [discriminate|]. split; [discriminate|].
      intro Hbig. specialize (Hov ltac:(lia)). discriminate.
  - rewrite (Hfail eq_refl). unfold fail; cbn [r_ok r_sa r_writes]. split; [exact Hwf|]. split; [discriminate|].
    split; [reflexivity|]. split; [reflexivity|]. intros _. split; reflexivity.
Qed.
Print Assumptions catb_safe.

(* ---- quote.c doit() ---- *)
Lemma quote_size_spec : forall inlen : Z, 0 <= inlen < 4294967296 ->
  quote_size inlen = if 4294967296 <=? 2 * inlen + 2 then None else Some (2 * inlen + 2).
Proof.
  intros inlen Hn. unfold quote_size, mul_ov, add_ov, M32.
  destruct (4294967296 <=? inlen * 2) eqn:E1.
  { apply Z.leb_le in E1. destruct (4294967296 <=? 2 * inlen + 2) eqn:E; [reflexivity | apply Z.leb_gt in E; lia]. }
  apply Z.leb_gt in E1. rewrite (Z.mod_small (inlen * 2)) by lia.
  destruct (4294967296 <=? inlen * 2 + 2) eqn:E2.
  { apply Z.leb_le in E2. destruct (4294967296 <=? 2 * inlen + 2) eqn:E; [reflexivity | apply Z.leb_gt in E; lia]. }
  apply Z.leb_gt in E2. rewrite (Z.mod_small (inlen * 2 + 2)) by lia.
  destruct (4294967296 <=? 2 * inlen + 2) eqn:E; [apply Z.leb_le in E; lia|]. f_equal. lia.
Qed.

Lemma quote_loop_bound : forall (src : list N) (j : Z),
  j + Z.of_nat (length src) <= quote_loop src j <= j + 2 * Z.of_nat (length src).
Proof.
  induction src as [|c r IH]; intro j; cbn [quote_loop length].
  - lia.
  - destruct (quote_esc c); [specialize (IH (j + 2)) | specialize (IH (j + 1))]; lia.
Qed.

Lemma quote_loop_length : forall (src : list N) (j : Z),
  quote_loop src j = j + Z.of_nat (length (quote_bytes src)).
Proof.
  induction src as [|c r IH]; intro j; cbn [quote_loop quote_bytes].
  - cbn [length]. lia.
  - destruct (quote_esc c); rewrite IH; cbn [length]; lia.
Qed.

Theorem quote_doit_safe : forall (out : sa) (src : list N) (inlen : Z) (alloc_ok : bool),
  wf out -> 0 <= inlen < 4294967296 ->
  let r := quote_doit out src inlen alloc_ok in
  wf (r_sa r) /\
  (r_ok r = true ->
     writes_in_block r /\
     exists j a' : Z, r_writes r = [(0, j)] /\ s_len (r_sa r) = j /\ s_alloc (r_sa r) = Some a' /\
       2 <= j <= 2 * inlen + 2 /\ 2 * inlen + 2 <= a' < 4294967296 /\
       j = Z.of_nat (length (s_data (r_sa r)))) /\
  (r_ok r = false -> r_writes r = []) /\
  (4294967296 <= 2 * inlen + 2 -> r_ok r = false /\ r_sa r = out).
Proof.
  intros out src inlen alloc_ok Hwf Hn r. subst r. unfold quote_doit.
  rewrite (quote_size_spec inlen Hn).
  destruct (4294967296 <=? 2 * inlen + 2) eqn:E1.
  { unfold fail; cbn [r_ok r_sa r_writes]. split; [exact Hwf|]. split; [discriminate|].
    split; [reflexivity|]. intros _. split; reflexivity. }
  apply Z.leb_gt in E1.
  pose proof (ready_wf out (2 * inlen + 2) alloc_ok Hwf ltac:(lia)) as W.
  destruct (ready out (2 * inlen + 2) alloc_ok) as [b x1] eqn:H. cbn [snd] in W.
  destruct b; cbn [negb].
  - destruct (ready_room out (2 * inlen + 2) alloc_ok x1 Hwf ltac:(lia) H) as [a' [Ha' [Hroom Hl]]].
    cbn [r_ok r_sa r_writes s_len s_alloc s_data].
    pose proof (quote_loop_bound (firstn (Z.to_nat inlen) src) 1) as B.
    pose proof (firstn_le_length (Z.to_nat inlen) src) as L.
    set (body := firstn (Z.to_nat inlen) src) in *.
    assert (HL : Z.of_nat (length body) <= inlen) by lia.
    split; [unfold wf; cbn [s_alloc s_len]; rewrite Ha'; lia|].
    split.
    + intros _. split.
      * exists a'. cbn [r_sa s_alloc r_writes]. split; [exact Ha'|].
        intros k [lo [hi [Hin Hk]]]. destruct Hin as [Hin|[]]; injection Hin as <- <-; lia.
      * exists (quote_loop body 1 + 1), a'. split; [reflexivity|]. split; [reflexivity|]. split; [exact Ha'|].
        split; [lia|]. split; [lia|].
        rewrite quote_loop_length. cbn [length]. rewrite app_length. cbn [length]. lia.
    + split; [discriminate|]. intro Hbig. lia.
  - unfold fail; cbn [r_ok r_sa r_writes]. split; [exact W|]. split; [discriminate|].
    split; [reflexivity|]. intro Hbig. lia.
Qed.
Print Assumptions quote_doit_safe.

(* j and i are C ints in doit(): all values taken by j (up to its final value 2*len+2 at most) fit in a
   signed 32-bit int when sain->len <= 2^30 - 2.  For larger inputs (possible only with a source string of
   1 GiB or more) the unsigned size check passes but j++ may exceed INT_MAX. *)
Theorem quote_doit_int_index : forall (out : sa) (src : list N) (inlen : Z) (alloc_ok : bool),
  wf out -> 0 <= inlen <= 1073741822 ->
  forall k : Z, in_writes k (r_writes (quote_doit out src inlen alloc_ok)) -> 0 <= k < 2147483647.
Proof.
  intros out src inlen alloc_ok Hwf Hn k Hk.
  pose proof (quote_doit_safe out src inlen alloc_ok Hwf ltac:(lia)) as S. cbv zeta in S.
  destruct S as [_ [Hok [Hfail _]]].
  destruct (r_ok (quote_doit out src inlen alloc_ok)) eqn:E.
  - destruct (Hok eq_refl) as [_ [j [a' [Hw [_ [_ [Hj _]]]]]]]. rewrite Hw in Hk.
    destruct Hk as [lo [hi [[Hin|[]] Hr]]]. injection Hin as <- <-. lia.
  - rewrite (Hfail eq_refl) in Hk. destruct Hk as [lo [hi [[] _]]].
Qed.
Print Assumptions quote_doit_int_index.

(* ---- executable sanity checks of the model ---- *)
Definition sa0 : sa := {| s_alloc := None; s_len := 77; s_data := [] |}.
Definition sa10 : sa := {| s_alloc := Some 10; s_len := 10; s_data := [1;2;3;4;5;6;7;8;9;10]%N |}.
Example ex_catb_grow : let r := catb sa10 [65;66;67;68;69]%N 5 true in
  (r_ok r, s_alloc (r_sa r), s_len (r_sa r), r_writes r) = (true, Some 48, 15, [(10, 15); (15, 16)]).
Proof. vm_compute. reflexivity. Qed.
Example ex_catb_null : let r := catb sa0 [65;66;67]%N 3 true in
  (r_ok r, s_alloc (r_sa r), s_len (r_sa r), r_writes r) = (true, Some 4, 3, [(0, 3); (3, 4)]).
Proof. vm_compute. reflexivity. Qed.
Example ex_catb_overflow :
  let x := {| s_alloc := Some 4294967295; s_len := 4294967290; s_data := [] |} in
  let r := catb x [] 5 true in (r_ok r, r_sa r, r_writes r) = (false, x, []).
Proof. vm_compute. reflexivity. Qed.
Example ex_readyplus_null_fail : readyplus sa0 5 false = (false, {| s_alloc := None; s_len := 0; s_data := [] |}).
Proof. vm_compute. reflexivity. Qed.
Example ex_quote_overflow : quote_size 2147483647 = None /\ quote_size 2147483646 = Some 4294967294.
Proof. vm_compute. split; reflexivity. Qed.
