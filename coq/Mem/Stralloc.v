(* gen_allocdefs.h (GEN_ALLOC_readyplus / ready / append instantiated for stralloc: type = char,
   sizeof(type) = 1, base = 30), stralloc_catb.c, stralloc_opyb.c, and the size computation of quote.c doit().
   Model only (C20).  Bounds-explicit: capacities, lengths and indices are Z; unsigned int arithmetic is
   written with explicit mod 2^32; every function that stores into sa->s reports the index ranges it writes.
   malloc/realloc may fail: their outcome is the oracle argument [alloc_ok] (each function below performs at
   most one allocation per call). *)
From NQ Require Import Base.Bytes.
From Coq Require Import ZArith.
Local Open Scope Z_scope.

Definition M32 : Z := 4294967296.                       (* 2^32: unsigned int is 32 bits *)

(* __builtin_add_overflow / __builtin_mul_overflow on unsigned int: (overflowed?, wrapped result) *)
Definition add_ov (a b : Z) : bool * Z := (M32 <=? a + b, (a + b) mod M32).
Definition mul_ov (a b : Z) : bool * Z := (M32 <=? a * b, (a * b) mod M32).

(* typedef struct stralloc { char *s; unsigned int len; unsigned int a; } *)
Record sa := { s_alloc : option Z;      (* None: s == NULL.  Some a: s points to a block of a bytes *)
               s_len : Z;               (* len; not trusted by the C code while s == NULL *)
               s_data : list N }.       (* the bytes s[0..len) *)

Definition with_alloc (x : sa) (a : Z) : sa := {| s_alloc := Some a; s_len := s_len x; s_data := s_data x |}.
Definition zero_len (x : sa) : sa := {| s_alloc := s_alloc x; s_len := 0; s_data := [] |}.

(* static int stralloc_readyplus_internal(stralloc *x, unsigned int n, unsigned int pluslen) *)
Definition readyplus_internal (x : sa) (n pluslen : Z) (alloc_ok : bool) : bool * sa :=
  match s_alloc x with
  | Some a =>                                            (* if (x->s) *)
    let (ov1, n1) := add_ov n pluslen in                 (* __builtin_add_overflow(n, pluslen, &n) *)
    if ov1 then (false, x) else
    if n1 <=? a then (true, x) else                      (* if (n <= x->a) return 1 *)
    let (ov2, nnum) := add_ov n1 ((n1 / 8 + 30) mod M32) in   (* add_overflow(n, (n >> 3) + base, &nnum) *)
    if ov2 then (false, x) else
    let (ov3, nlen) := mul_ov nnum 1 in                  (* mul_overflow(nnum, sizeof(char), &nlen) *)
    if ov3 then (false, x) else
    if alloc_ok then (true, with_alloc x nnum)           (* realloc(x->s, nlen): contents kept; x->a = nnum *)
    else (false, x)                                      (* realloc failed: old block still valid *)
  | None =>
    let x0 := zero_len x in                              (* x->len = 0 *)
    let (ov, nlen) := mul_ov n 1 in                      (* mul_overflow(n, sizeof(char), &nlen) *)
    if ov then (false, x0) else
    if alloc_ok then (true, with_alloc x0 n)             (* x->s = alloc(nlen); x->a = n *)
    else (false, x0)
  end.

Definition readyplus (x : sa) (n : Z) (alloc_ok : bool) : bool * sa :=
  readyplus_internal x n (s_len x) alloc_ok.
Definition ready (x : sa) (n : Z) (alloc_ok : bool) : bool * sa :=
  readyplus_internal x n 0 alloc_ok.

(* result of a function that stores into sa->s: success flag, new state, and the index ranges written,
   each (lo, hi) meaning the indices lo <= k < hi, in program order *)
Record res := { r_ok : bool; r_sa : sa; r_writes : list (Z * Z) }.
Definition fail (x : sa) : res := {| r_ok := false; r_sa := x; r_writes := [] |}.

(* int stralloc_append(stralloc *x, char *i): if (!readyplus(x,1)) return 0; x->s[x->len++] = *i; return 1 *)
Definition append (x : sa) (c : N) (alloc_ok : bool) : res :=
  let (ok, x1) := readyplus x 1 alloc_ok in
  if negb ok then fail x1 else
  {| r_ok := true;
     r_sa := {| s_alloc := s_alloc x1; s_len := (s_len x1 + 1) mod M32; s_data := s_data x1 ++ [c] |};
     r_writes := [(s_len x1, s_len x1 + 1)] |}.

(* int stralloc_copyb(sa, s, n): the source is s[0..n) = firstn n src *)
Definition copyb (x : sa) (src : list N) (n : Z) (alloc_ok : bool) : res :=
  let (ov, i) := add_ov n 1 in                           (* __builtin_add_overflow(n, 1, &i) *)
  if ov then fail x else
  let (ok, x1) := ready x i alloc_ok in
  if negb ok then fail x1 else
  {| r_ok := true;
     r_sa := {| s_alloc := s_alloc x1; s_len := n; s_data := firstn (Z.to_nat n) src |};
     r_writes := [(0, n); (n, n + 1)] |}.                (* byte_copy(sa->s,n,s); sa->s[n] = 'Z' *)

(* int stralloc_catb(sa, s, n) *)
Definition catb (x : sa) (src : list N) (n : Z) (alloc_ok : bool) : res :=
  match s_alloc x with
  | None => copyb x src n alloc_ok                       (* if (!sa->s) return stralloc_copyb(sa,s,n) *)
  | Some _ =>
    let (ov, i) := add_ov n 1 in
    if ov then fail x else
    let (ok, x1) := readyplus x i alloc_ok in
    if negb ok then fail x1 else
    let len' := (s_len x1 + n) mod M32 in                (* sa->len += n *)
    {| r_ok := true;
       r_sa := {| s_alloc := s_alloc x1; s_len := len'; s_data := s_data x1 ++ firstn (Z.to_nat n) src |};
       r_writes := [(s_len x1, s_len x1 + n); (len', len' + 1)] |}   (* byte_copy(sa->s + sa->len,n,s); sa->s[sa->len] = 'Z' *)
  end.

(* ---- quote.c doit(): nlen = 2 * sain->len + 2 with overflow checks, stralloc_ready(saout, nlen), then
   the bytes are stored at saout->s[j++] with j running from 0 ---- *)
Definition quote_size (inlen : Z) : option Z :=
  let (ov1, nlen) := mul_ov inlen 2 in                   (* __builtin_mul_overflow(sain->len, 2, &nlen) || *)
  if ov1 then None else
  let (ov2, nlen2) := add_ov nlen 2 in                   (* __builtin_add_overflow(nlen, 2, &nlen) *)
  if ov2 then None else Some nlen2.

Definition quote_esc (c : N) : bool := ((c =? 13) || (c =? 10) || (c =? 34) || (c =? 92))%N.
(* the for loop: j after processing the source bytes (j is a C int; here unbounded, see the proofs) *)
Fixpoint quote_loop (src : list N) (j : Z) : Z :=
  match src with
  | [] => j
  | c :: r => quote_loop r (if quote_esc c then j + 2 else j + 1)
  end.
Fixpoint quote_bytes (src : list N) : list N :=
  match src with
  | [] => []
  | c :: r => if quote_esc c then 92%N :: c :: quote_bytes r else c :: quote_bytes r
  end.

Definition quote_doit (out : sa) (src : list N) (inlen : Z) (alloc_ok : bool) : res :=
  match quote_size inlen with
  | None => fail out
  | Some nlen =>
    let (ok, x1) := ready out nlen alloc_ok in
    if negb ok then fail x1 else
    let body := firstn (Z.to_nat inlen) src in
    let j := quote_loop body 1 + 1 in                    (* j = 0; s[j++] = '"'; loop; s[j++] = '"' *)
    {| r_ok := true;
       r_sa := {| s_alloc := s_alloc x1; s_len := j; s_data := 34%N :: quote_bytes body ++ [34%N] |};
       r_writes := [(0, j)] |}
  end.
