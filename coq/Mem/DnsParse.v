(* dns.c: the walk over a resolver response - resolve() skipping the question section, findname()/findip()/findmx()
   stepping through the answer records - written with explicit indices into the response buffer.  Every byte the code
   reads is reported, so that "no read outside the response" is a statement about the returned list.  (C20; the
   missing length test of findip/findmx was repaired in "fix: dns.c findip/findmx ..." - [fixed] = false is the old code.)
   dn_expand() is libc's; it enters as a function [dn] of the position with its documented contract.  No proofs here. *)
From NQ Require Import Base.Bytes.
From Coq Require Import ZArith.
Local Open Scope Z_scope.

Section Dns.
  Variable buf : Z -> Z.           (* the byte at an index of response.buf *)
  Variable rlen : Z.               (* responselen: responseend = response.buf + rlen *)
  Variable dn : Z -> option Z.     (* dn_expand(response.buf, responseend, response.buf + p, name, MAXDNAME): bytes consumed, or -1 *)
  Variable fixed : bool.

  Record dstate := { pos : Z; numanswers : Z }.
  Inductive fres := FSoft | FEnd | FSkip | FGot.        (* DNS_SOFT, 2, 0, 1 *)
  Inductive fkind := KName | KIp | KMx.
  Definition getshort (p : Z) : Z := 256 * buf p + buf (p + 1).
  Definition QFIXEDSZ : Z := 4.
  Definition HFIXEDSZ : Z := 12.

  (* one call of findname / findip / findmx: result, new state, the indices read directly (not through dn_expand) *)
  Definition find (k : fkind) (want : Z) (s : dstate) : fres * dstate * list Z :=
    if numanswers s <=? 0 then (FEnd, s, []) else
    let s1 := {| pos := pos s; numanswers := numanswers s - 1 |} in
    if pos s =? rlen then (FSoft, s1, []) else
    match dn (pos s) with
    | None => (FSoft, s1, [])
    | Some i =>
        let p := pos s + i in
        if rlen - p <? 10 then (FSoft, {| pos := p; numanswers := numanswers s - 1 |}, []) else
        let rrtype := getshort p in
        let rrdlen := getshort (p + 8) in
        let rd := [p; p + 1; p + 8; p + 9] in
        let p10 := p + 10 in
        let after := {| pos := p10 + rrdlen; numanswers := numanswers s - 1 |} in
        let here := {| pos := p10; numanswers := numanswers s - 1 |} in
        if rrtype =? want then
          match k with
          | KName => match dn p10 with None => (FSoft, here, rd) | Some _ => (FGot, after, rd) end
          | KIp =>
              if rrdlen <? 4 then (FSoft, here, rd) else
              if fixed && (rlen - p10 <? 4) then (FSoft, here, rd) else
              (FGot, after, rd ++ [p10; p10 + 1; p10 + 2; p10 + 3])
          | KMx =>
              if rrdlen <? 3 then (FSoft, here, rd) else
              if fixed && (rlen - p10 <? 3) then (FSoft, here, rd) else
              match dn (p10 + 2) with
              | None => (FSoft, here, rd ++ [p10; p10 + 1])
              | Some _ => (FGot, after, rd ++ [p10; p10 + 1])
              end
          end
        else (FSkip, after, rd)
    end.

  (* resolve(): after the header, skip qdcount questions; None = DNS_SOFT.  Header fields are read at fixed offsets
     below HFIXEDSZ whatever rlen is (the buffer itself is never smaller than PACKETSZ+1). *)
  Fixpoint skip_questions (n : nat) (p : Z) : option Z :=
    match n with
    | O => Some p
    | S n' => match dn p with
              | None => None
              | Some i => if rlen - (p + i) <? QFIXEDSZ then None else skip_questions n' (p + i + QFIXEDSZ)
              end
    end.
  Definition resolve_walk : option dstate * list Z :=
    let hdr := [2; 4; 5; 6; 7] in
    match skip_questions (Z.to_nat (getshort 4)) HFIXEDSZ with
    | None => (None, hdr)
    | Some p => (Some {| pos := p; numanswers := getshort 6 |}, hdr)
    end.

  (* the caller's loop: while ((r = find(...)) != 2) ...; fuel = the number of answers announced *)
  Fixpoint walk (fuel : nat) (k : fkind) (want : Z) (s : dstate) : list fres * list Z :=
    match fuel with
    | O => ([], [])
    | S f =>
        let '(r, s', rd) := find k want s in
        match r with
        | FEnd => ([FEnd], rd)
        | FSoft => ([FSoft], rd)
        | _ => let (rs, rds) := walk f k want s' in (r :: rs, rd ++ rds)
        end
    end.
End Dns.

(* the contract of dn_expand that the index safety rests on: it refuses a source outside [0, rlen) and, when it
   succeeds, the bytes it consumed lie inside the response *)
Definition dn_contract (rlen : Z) (dn : Z -> option Z) : Prop :=
  forall p i, dn p = Some i -> 0 <= p < rlen /\ 1 <= i /\ p + i <= rlen.

(* a concrete dn_expand for the correspondence check: uncompressed labels ending in the root label, or ending in one
   compression pointer to an earlier such name; everything else is refused.  (libc accepts more; the check only
   generates names of this shape.) *)
Fixpoint dn_simple_from (fuel : nat) (buf : Z -> Z) (rlen : Z) (p : Z) (allow_ptr : bool) : option Z :=
  match fuel with
  | O => None
  | S f =>
      if (p <? 0) || (rlen <=? p) then None else
      let c := buf p in
      if c =? 0 then Some 1 else
      if 192 <=? c then
        if allow_ptr && (p + 1 <? rlen) then
          let target := 256 * (c - 192) + buf (p + 1) in
          if target <? p then match dn_simple_from f buf rlen target false with Some _ => Some 2 | None => None end else None
        else None
      else if 64 <=? c then None
      else match dn_simple_from f buf rlen (p + 1 + c) allow_ptr with Some i => Some (1 + c + i) | None => None end
  end.
Definition dn_fuel : nat := 128.
Definition dn_simple (buf : Z -> Z) (rlen : Z) (p : Z) : option Z := dn_simple_from dn_fuel buf rlen p true.
