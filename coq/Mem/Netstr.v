(* qmail-qmtpd.c / qmail-qmqpd.c: netstring length parsing (getlen), the inline length parser of the
   QMTP recipient loop, and the fixed 1000-byte buffer writes guarded by those lengths.  Model only (C20).
   unsigned long is 64 bits: arithmetic on len is written with explicit mod 2^64.  Input characters are the
   values of the C variable `char ch` as an integer (so -128..127 with signed char, 0..255 with unsigned). *)
From NQ Require Import Base.Bytes.
From Coq Require Import ZArith.
Local Open Scope Z_scope.

Definition M64 : Z := 18446744073709551616.

Inductive glen :=
  | GOk (len : Z) (rest : list Z)     (* ':' seen: return len *)
  | GResources                        (* resources(): exits *)
  | GBadproto                         (* badproto(): exits *)
  | GEof.                             (* input exhausted (substdio_get blocks / die) *)

(* unsigned long getlen(): for (;;) { get ch; if (ch == ':') return len; if (len > 200000000) resources();
                                      if (ch < '0' || ch > '9') badproto(); len = 10 * len + (ch - '0'); } *)
Fixpoint getlen_loop (inp : list Z) (len : Z) : glen :=
  match inp with
  | [] => GEof
  | ch :: r =>
    if ch =? 58 then GOk len r
    else if 200000000 <? len then GResources
    else if (ch <? 48) || (57 <? ch) then GBadproto
    else getlen_loop r ((10 * len + (ch - 48)) mod M64)
  end.
Definition getlen (inp : list Z) : glen := getlen_loop inp 0.

(* the same loop computed in unbounded integers *)
Fixpoint getlen_ideal_loop (inp : list Z) (len : Z) : glen :=
  match inp with
  | [] => GEof
  | ch :: r =>
    if ch =? 58 then GOk len r
    else if 200000000 <? len then GResources
    else if (ch <? 48) || (57 <? ch) then GBadproto
    else getlen_ideal_loop r (10 * len + (ch - 48))
  end.

(* qmail-qmtpd.c main(), recipient loop: len = 0; for (;;) { if (!biglen) badproto(); get ch; --biglen;
     if (ch == ':') break; if (len > 200000000) resources(); len = 10 * len + (ch - '0'); }
   NOTE: unlike getlen() there is no digit check here, so ch - '0' may be negative or > 9. *)
Inductive rlen :=
  | ROk (len biglen : Z) (rest : list Z)
  | RResources | RBadproto | REof.
Fixpoint rcpt_len (inp : list Z) (biglen len : Z) : rlen :=
  if biglen =? 0 then RBadproto else
  match inp with
  | [] => REof
  | ch :: r =>
    let biglen' := biglen - 1 in
    if ch =? 58 then ROk len biglen' r
    else if 200000000 <? len then RResources
    else rcpt_len r biglen' ((10 * len + (ch - 48)) mod M64)
  end.

(* after the loop: if (len >= biglen) badproto();
   if (len + relayclientlen >= 1000) { mark 'L'; skip len bytes }
   else { read buf[0..len); buf[len] = 0; if (relayclient) str_copy(buf + len, relayclient); ... }
   relayclient : None = RELAYCLIENT unset, Some l = set with strlen l (str_copy stores l+1 bytes).
   Writes into char buf[1000] are reported as ranges (lo, hi): indices lo <= k < hi. *)
Inductive rdecision :=
  | RBad
  | RTooLong (skip : Z)
  | RAccept (writes : list (Z * Z)).
Definition rcpt_decide (len biglen : Z) (relayclient : option Z) : rdecision :=
  if biglen <=? len then RBad else
  let rl := match relayclient with Some l => l | None => 0 end in
  if 1000 <=? (len + rl) mod M64 then RTooLong len else
  RAccept ([(0, len); (len, len + 1)] ++
           match relayclient with Some l => [(len, len + l + 1)] | None => [] end).

(* the sender address in qmail-qmtpd.c main() and getaddr() in qmail-qmqpd.c: len = getlen();
   if (len >= 1000) { buf[0] = 0; skip } else { read buf[0..len); buf[len] = 0 } *)
Definition addr_writes (len : Z) : list (Z * Z) :=
  if 1000 <=? len then [(0, 1)] else [(0, len); (len, len + 1)].
