(* substdio: the buffered I/O layer under every qmail program (substdo.c, substdi.c) and getln2()/getln().
   The model keeps the VALID bytes of the buffer (the p bytes at x, resp. at x+n) and reports every copy into the buffer
   as (offset, length), so that "no write outside the buffer" and "the byte stream is neither reordered, duplicated nor
   lost" are statements about what the functions return.  The operating system enters as a script of results for the
   successive calls of op (short writes/reads, EINTR, errors).  No proofs here.  (C20, C05/C06's transport) *)
From NQ Require Import Base.Bytes.
From Coq Require Import Arith.
Local Open Scope nat_scope.

Definition OUTSIZE : nat := 8192.

(* ------------------------------------------------------------------ output side *)
Inductive wres := WOk (k : nat) | WIntr | WErr.      (* write accepted S k bytes (at most what was offered) / EINTR / error *)
(* the script of op results still to come; when it runs out every write takes everything *)
Definition wscript := list wres.

Record obuf := { o_cap : nat;            (* s->n *)
                 o_pend : bytes;         (* the s->p bytes waiting in s->x *)
                 o_out : bytes;          (* everything op has accepted so far, in order (ghost of the file descriptor) *)
                 o_scr : wscript;
                 o_copies : list (nat * nat) }.     (* every byte_copy into s->x: (offset, length) *)

(* allwrite(): returns ok?, the bytes accepted (also on failure some may have been), the remaining script.
   fuel bounds the EINTR retries the script can ask for; each successful write takes at least one byte. *)
Fixpoint allwrite (fuel : nat) (scr : wscript) (data : bytes) : bool * bytes * wscript :=
  match data with
  | [] => (true, [], scr)
  | _ =>
    match fuel with
    | O => (false, [], scr)
    | S f =>
      match scr with
      | [] => (true, data, [])
      | WErr :: scr' => (false, [], scr')
      | WIntr :: scr' => allwrite f scr' data
      | WOk k :: scr' =>
          let w := Nat.min (S k) (length data) in
          let '(ok, more, scr'') := allwrite f scr' (skipn w data) in
          (ok, firstn w data ++ more, scr'')
      end
    end
  end.
Definition aw_fuel (scr : wscript) (data : bytes) : nat := S (length scr + length data).

Definition o_write (b : obuf) (data : bytes) : bool * obuf :=
  let '(ok, acc, scr') := allwrite (aw_fuel (o_scr b) data) (o_scr b) data in
  (ok, {| o_cap := o_cap b; o_pend := o_pend b; o_out := o_out b ++ acc; o_scr := scr'; o_copies := o_copies b |}).

(* substdio_flush: p = s->p; if (!p) return 0; s->p = 0; return allwrite(x, p)  - the buffer is emptied BEFORE the write *)
Definition o_flush (b : obuf) : bool * obuf :=
  match o_pend b with
  | [] => (true, b)
  | pend => o_write {| o_cap := o_cap b; o_pend := []; o_out := o_out b; o_scr := o_scr b; o_copies := o_copies b |} pend
  end.

Definition o_copy (b : obuf) (data : bytes) : obuf :=
  {| o_cap := o_cap b; o_pend := o_pend b ++ data; o_out := o_out b; o_scr := o_scr b;
     o_copies := o_copies b ++ [(length (o_pend b), length data)] |}.

(* the direct-write loop of substdio_put: while (len > s->n) { if (n > len) n = len; allwrite(buf, n); ... } *)
Fixpoint put_direct (fuel : nat) (b : obuf) (n : nat) (data : bytes) : bool * obuf * bytes :=
  match fuel with
  | O => (true, b, data)
  | S f =>
      if Nat.ltb (o_cap b) (length data) then
        let n' := Nat.min n (length data) in
        let '(ok, b') := o_write b (firstn n' data) in
        if ok then put_direct f b' n' (skipn n' data) else (false, b', skipn n' data)
      else (true, b, data)
  end.

Definition o_put (b : obuf) (data : bytes) : bool * obuf :=
  if Nat.ltb (o_cap b - length (o_pend b)) (length data) then
    let '(ok, b1) := o_flush b in
    if negb ok then (false, b1) else
    let n := Nat.max (o_cap b) OUTSIZE in
    let '(ok2, b2, rest) := put_direct (S (length data)) b1 n data in
    if negb ok2 then (false, b2) else (true, o_copy b2 rest)
  else (true, o_copy b data).

(* substdio_bput: while (len > (n = s->n - s->p)) { copy n; p += n; flush } ; copy the rest *)
Fixpoint o_bput_loop (fuel : nat) (b : obuf) (data : bytes) : bool * obuf :=
  match fuel with
  | O => (false, b)
  | S f =>
      let n := o_cap b - length (o_pend b) in
      if Nat.ltb n (length data) then
        let '(ok, b') := o_flush (o_copy b (firstn n data)) in
        if ok then o_bput_loop f b' (skipn n data) else (false, b')
      else (true, o_copy b data)
  end.
Definition o_bput (b : obuf) (data : bytes) : bool * obuf := o_bput_loop (S (S (length data))) b data.

Definition o_putflush (b : obuf) (data : bytes) : bool * obuf :=
  let '(ok, b1) := o_flush b in
  if negb ok then (false, b1) else o_write b1 data.

Inductive oop := OPut (d : bytes) | OBput (d : bytes) | OFlush | OPutflush (d : bytes).
Definition o_step (b : obuf) (op : oop) : bool * obuf :=
  match op with OPut d => o_put b d | OBput d => o_bput b d | OFlush => o_flush b | OPutflush d => o_putflush b d end.
(* run until the first failing operation; returns the state and whether all succeeded *)
Fixpoint o_run (b : obuf) (ops : list oop) : bool * obuf :=
  match ops with
  | [] => (true, b)
  | op :: ops' => let '(ok, b') := o_step b op in if ok then o_run b' ops' else (false, b')
  end.
Definition o_init (cap : nat) (scr : wscript) : obuf :=
  {| o_cap := cap; o_pend := []; o_out := []; o_scr := scr; o_copies := [] |}.
Definition op_data (op : oop) : bytes := match op with OPut d | OBput d | OPutflush d => d | OFlush => [] end.

(* ------------------------------------------------------------------ input side *)
Inductive rres := RChunk (k : nat) | RIntr | RErr.    (* read returns up to S k bytes (fewer if less was asked for or left) *)
Record ibuf := { i_cap : nat;            (* size of the buffer: s->n + s->p *)
                 i_avail : bytes;        (* the s->p bytes at s->x + s->n *)
                 i_src : bytes;          (* what the descriptor will still deliver (ghost) *)
                 i_scr : list rres;
                 i_copies : list (nat * nat) }.     (* copies into s->x by feed: (offset, length) *)

Inductive rd := RdData (d : bytes) | RdEof | RdErr.
(* oneread(len): EINTR is retried *)
Fixpoint oneread (fuel : nat) (scr : list rres) (src : bytes) (len : nat) : rd * list rres * bytes :=
  match fuel with
  | O => (RdErr, scr, src)
  | S f =>
      match scr with
      | RErr :: scr' => (RdErr, scr', src)
      | RIntr :: scr' => oneread f scr' src len
      | RChunk k :: scr' =>
          match src with
          | [] => (RdEof, scr', src)
          | _ => let r := Nat.min (Nat.min (S k) len) (length src) in
                 if Nat.eqb r 0 then (RdData [], scr', src) else (RdData (firstn r src), scr', skipn r src)
          end
      | [] =>
          match src with
          | [] => (RdEof, [], src)
          | _ => let r := Nat.min len (length src) in (RdData (firstn r src), [], skipn r src)
          end
      end
  end.
Definition or_fuel (scr : list rres) : nat := S (length scr).

(* substdio_feed: if (s->p) return s->p; r = oneread(x, q = s->n); ... p = r; n = q - r; shift to x + q - r *)
Inductive feedres := FdHave (n : nat) | FdEof | FdErr.
Definition i_feed (b : ibuf) : feedres * ibuf :=
  match i_avail b with
  | _ :: _ => (FdHave (length (i_avail b)), b)
  | [] =>
      let '(r, scr', src') := oneread (or_fuel (i_scr b)) (i_scr b) (i_src b) (i_cap b) in
      match r with
      | RdErr => (FdErr, {| i_cap := i_cap b; i_avail := []; i_src := src'; i_scr := scr'; i_copies := i_copies b |})
      | RdEof => (FdEof, {| i_cap := i_cap b; i_avail := []; i_src := src'; i_scr := scr'; i_copies := i_copies b |})
      | RdData [] => (FdEof, {| i_cap := i_cap b; i_avail := []; i_src := src'; i_scr := scr'; i_copies := i_copies b |})   (* r == 0 *)
      | RdData d => (FdHave (length d),
                     {| i_cap := i_cap b; i_avail := d; i_src := src'; i_scr := scr';
                        i_copies := i_copies b ++ [(0, length d); (i_cap b - length d, length d)] |})
      end
  end.

(* getthis(len): the first min(len, p) available bytes *)
Definition i_getthis (b : ibuf) (len : nat) : bytes * ibuf :=
  let r := Nat.min len (length (i_avail b)) in
  (firstn r (i_avail b), {| i_cap := i_cap b; i_avail := skipn r (i_avail b); i_src := i_src b; i_scr := i_scr b; i_copies := i_copies b |}).

(* substdio_get(len): None = -1; Some [] = end of file *)
Definition i_get (b : ibuf) (len : nat) : option bytes * ibuf :=
  match i_avail b with
  | _ :: _ => let (d, b') := i_getthis b len in (Some d, b')
  | [] =>
      if Nat.leb (i_cap b) len then
        let '(r, scr', src') := oneread (or_fuel (i_scr b)) (i_scr b) (i_src b) len in
        let b' := {| i_cap := i_cap b; i_avail := []; i_src := src'; i_scr := scr'; i_copies := i_copies b |} in
        match r with RdErr => (None, b') | RdEof => (Some [], b') | RdData d => (Some d, b') end
      else
        let (f, b1) := i_feed b in
        match f with
        | FdErr => (None, b1)
        | FdEof => (Some [], b1)
        | FdHave _ => let (d, b2) := i_getthis b1 len in (Some d, b2)
        end
  end.

(* getln(): Some (line, match) or None = -1.  fuel bounds the feed/get rounds (each consumes at least one byte). *)
Fixpoint find_sep (sep : N) (s : bytes) : option nat :=
  match s with
  | [] => None
  | c :: s' => if N.eqb c sep then Some 0 else match find_sep sep s' with Some i => Some (S i) | None => None end
  end.
Fixpoint getln_loop (fuel : nat) (b : ibuf) (sep : N) (sa : bytes) : option (bytes * bool) * ibuf :=
  match fuel with
  | O => (None, b)
  | S f =>
      let (fd, b1) := i_feed b in
      match fd with
      | FdErr => (None, b1)
      | FdEof => (Some (sa, false), b1)
      | FdHave n =>
          match find_sep sep (i_avail b1) with
          | Some i =>
              (* substdio_SEEK(i + 1); the caller appends cont[0 .. i] *)
              (Some (sa ++ firstn (S i) (i_avail b1), true),
               {| i_cap := i_cap b1; i_avail := skipn (S i) (i_avail b1); i_src := i_src b1; i_scr := i_scr b1; i_copies := i_copies b1 |})
          | None =>
              let (m, b2) := i_get b1 n in
              match m with
              | None => getln_loop f b2 sep sa              (* m == -1: sa->len unchanged, loop again *)
              | Some d => getln_loop f b2 sep (sa ++ d)
              end
          end
      end
  end.
Definition i_getln (b : ibuf) (sep : N) : option (bytes * bool) * ibuf :=
  getln_loop (S (S (length (i_avail b) + length (i_src b) + length (i_scr b)))) b sep [].
Definition i_init (cap : nat) (src : bytes) (scr : list rres) : ibuf :=
  {| i_cap := cap; i_avail := []; i_src := src; i_scr := scr; i_copies := [] |}.

(* read all lines until end of file or error *)
Fixpoint getlns_all (fuel : nat) (b : ibuf) (sep : N) : list (bytes * bool) * bool :=
  match fuel with
  | O => ([], false)
  | S f =>
      let (r, b') := i_getln b sep in
      match r with
      | None => ([], false)
      | Some (l, true) => let (ls, ok) := getlns_all f b' sep in ((l, true) :: ls, ok)
      | Some (l, false) => ([(l, false)], true)
      end
  end.
