(* C20: the first (counting) pass of token822_parse computes exactly the number of tokens and the number
   of buffer bytes the second pass writes, and fails exactly when the second pass model fails. *)
From NQ Require Import Addr.Tok Mem.TokCount.
Local Open Scope N_scope.

(* run the second-pass machine from an arbitrary state to the end of the input *)
Definition finish (st : list tok * lex) (s : bytes) : option (list tok) :=
  match lex_run st s with Some st' => lex_end st' | None => None end.

Lemma parse_finish s : parse s = finish ([], LTop) s.
Proof. reflexivity. Qed.

Lemma finish_nil st : finish st [] = lex_end st.
Proof. reflexivity. Qed.

Lemma finish_cons st c s :
  finish st (c :: s) = match lex_step st c with Some st' => finish st' s | None => None end.
Proof. unfold finish. cbn [lex_run]. destruct (lex_step st c); reflexivity. Qed.

Lemma rev_append_length {A} (a b : list A) : length (rev_append a b) = (length a + length b)%nat.
Proof. rewrite rev_append_rev, app_length, rev_length. reflexivity. Qed.

Lemma toks_chars_cons t ts : toks_chars (t :: ts) = (tok_chars t + toks_chars ts)%nat.
Proof. reflexivity. Qed.

Lemma toks_chars_rev_append a b : toks_chars (rev_append a b) = (toks_chars a + toks_chars b)%nat.
Proof.
  revert b; induction a as [|t a IH]; intro b; cbn [rev_append].
  - reflexivity.
  - rewrite IH, !toks_chars_cons. lia.
Qed.

Lemma tok_chars_mk_atom racc : tok_chars (mk_atom racc) = length racc.
Proof.
  unfold mk_atom. destruct (existsb atom_bad (rev_append racc [])); cbn [tok_chars];
    rewrite rev_append_length; cbn [length]; lia.
Qed.

(* ---- the comment loop ---- *)
Lemma comment_loop_sim : forall (s : bytes) (n : nat), (length s <= n)%nat ->
  forall (lv : nat) (racc : bytes) (out : list tok) (base : nat),
  match comment_loop (S lv) s (base + length racc) with
  | None => finish (out, LComment lv racc false) s = None
  | Some (rest, nc') =>
    (length rest < length s)%nat /\
    exists racc', nc' = (base + length racc')%nat /\
      finish (out, LComment lv racc false) s = finish (TComment (rev_append racc' []) :: out, LTop) rest
  end.
Proof.
  intros s n; revert s; induction n as [|n IH]; intros s Hlen lv racc out base.
  - destruct s as [|c s']; [reflexivity | cbn [length] in Hlen; lia].
  - destruct s as [|c s']; [reflexivity|].
    cbn [length] in Hlen. cbn [comment_loop]. rewrite finish_cons. cbn [lex_step].
    destruct (c =? 40) eqn:E40.
    { specialize (IH s' ltac:(lia) (S lv) racc out base).
      destruct (comment_loop (S (S lv)) s' (base + length racc)) as [[rest nc']|]; [|exact IH].
      destruct IH as [Hl Hex]. split; [cbn [length]; lia | exact Hex]. }
    destruct (c =? 41) eqn:E41.
    { cbn [Nat.pred]. destruct lv as [|lv'].
      - cbn [Nat.eqb]. split; [cbn [length]; lia|]. exists racc. split; reflexivity.
      - cbn [Nat.eqb]. specialize (IH s' ltac:(lia) lv' racc out base).
        destruct (comment_loop (S lv') s' (base + length racc)) as [[rest nc']|]; [|exact IH].
        destruct IH as [Hl Hex]. split; [cbn [length]; lia | exact Hex]. }
    destruct (c =? 92) eqn:E92.
    { destruct s' as [|e s'']; [reflexivity|].
      rewrite finish_cons. cbn [lex_step]. cbn [length] in Hlen.
      specialize (IH s'' ltac:(lia) lv (e :: racc) out base).
      cbn [length] in IH. replace (S (base + length racc)) with (base + S (length racc))%nat by lia.
      destruct (comment_loop (S lv) s'' (base + S (length racc))) as [[rest nc']|]; [|exact IH].
      destruct IH as [Hl Hex]. split; [cbn [length]; lia | exact Hex]. }
    specialize (IH s' ltac:(lia) lv (c :: racc) out base).
    cbn [length] in IH. replace (S (base + length racc)) with (base + S (length racc))%nat by lia.
    destruct (comment_loop (S lv) s' (base + S (length racc))) as [[rest nc']|]; [|exact IH].
    destruct IH as [Hl Hex]. split; [cbn [length]; lia | exact Hex].
Qed.

(* ---- the quote / literal loops ---- *)
Definition delim_state (close : N) (racc : bytes) (esc : bool) : lex :=
  if close =? 34 then LQuote racc esc else LLiteral racc esc.
Definition delim_tok (close : N) (s : bytes) : tok :=
  if close =? 34 then TQuote s else TLiteral s.

Lemma delim_loop_sim : forall (close : N), close = 34 \/ close = 93 ->
  forall (s : bytes) (n : nat), (length s <= n)%nat ->
  forall (racc : bytes) (out : list tok) (base : nat),
  match delim_loop close s (base + length racc) with
  | None => finish (out, delim_state close racc false) s = None
  | Some (rest, nc') =>
    (length rest < length s)%nat /\
    exists racc', nc' = (base + length racc')%nat /\
      finish (out, delim_state close racc false) s = finish (delim_tok close (rev_append racc' []) :: out, LTop) rest
  end.
Proof.
  intros close Hclose s n; revert s; induction n as [|n IH]; intros s Hlen racc out base.
  - destruct s as [|c s']; [destruct Hclose; subst close; reflexivity | cbn [length] in Hlen; lia].
  - destruct s as [|c s']; [destruct Hclose; subst close; reflexivity|].
    cbn [length] in Hlen. cbn [delim_loop]. rewrite finish_cons.
    assert (Hstep : lex_step (out, delim_state close racc false) c =
                    if c =? close then Some (delim_tok close (rev_append racc []) :: out, LTop)
                    else if c =? 92 then Some (out, delim_state close racc true)
                    else Some (out, delim_state close (c :: racc) false)).
    { destruct Hclose; subst close; reflexivity. }
    rewrite Hstep; clear Hstep.
    destruct (c =? close) eqn:Ecl.
    { split; [cbn [length]; lia|]. exists racc. split; reflexivity. }
    destruct (c =? 92) eqn:E92.
    { destruct s' as [|e s'']; [destruct Hclose; subst close; reflexivity|].
      rewrite finish_cons.
      assert (Hstep : lex_step (out, delim_state close racc true) e = Some (out, delim_state close (e :: racc) false)).
      { destruct Hclose; subst close; reflexivity. }
      rewrite Hstep; clear Hstep. cbn [length] in Hlen.
      specialize (IH s'' ltac:(lia) (e :: racc) out base).
      cbn [length] in IH. replace (S (base + length racc)) with (base + S (length racc))%nat by lia.
      destruct (delim_loop close s'' (base + S (length racc))) as [[rest nc']|]; [|exact IH].
      destruct IH as [Hl Hex]. split; [cbn [length]; lia | exact Hex]. }
    specialize (IH s' ltac:(lia) (c :: racc) out base).
    cbn [length] in IH. replace (S (base + length racc)) with (base + S (length racc))%nat by lia.
    destruct (delim_loop close s' (base + S (length racc))) as [[rest nc']|]; [|exact IH].
    destruct IH as [Hl Hex]. split; [cbn [length]; lia | exact Hex].
Qed.

(* ---- the atom loop ---- *)
(* the state of the second-pass machine after the head byte of an atom (or a further atomok byte) *)
Definition atom_enter (racc : bytes) (c : N) : lex :=
  if c =? 92 then LAtom racc true else LAtom (c :: racc) false.

Lemma atom_exit out racc s :
  match s with [] => True | d :: _ => atomok d = false end ->
  finish (out, LAtom racc false) s = finish (mk_atom racc :: out, LTop) s.
Proof.
  destruct s as [|d s']; intro H.
  - reflexivity.
  - rewrite !finish_cons. cbn [lex_step]. rewrite H. reflexivity.
Qed.

Lemma atom_continue out racc d :
  atomok d = true -> lex_step (out, LAtom racc false) d = Some (out, atom_enter racc d).
Proof. intro H. cbn [lex_step]. rewrite H. unfold atom_enter. destruct (d =? 92); reflexivity. Qed.

Lemma atom_loop_sim : forall (n : nat) (c : N) (s' : bytes), (length s' <= n)%nat ->
  forall (racc : bytes) (out : list tok) (base : nat),
  let (rest, nc') := atom_loop (c :: s') (base + length racc) in
  (length rest <= length s')%nat /\
  exists racc', nc' = (base + length racc')%nat /\
    finish (out, atom_enter racc c) s' = finish (mk_atom racc' :: out, LTop) rest.
Proof.
  induction n as [|n IH]; intros c s' Hlen racc out base.
  - destruct s' as [|e s'']; [|cbn [length] in Hlen; lia].
    cbn [atom_loop]. unfold atom_enter. destruct (c =? 92).
    + split; [lia|]. exists racc. split; reflexivity.
    + split; [lia|]. exists (c :: racc). split; [cbn [length]; lia | reflexivity].
  - cbn [atom_loop]. unfold atom_enter at 1. destruct (c =? 92) eqn:E92.
    + destruct s' as [|e s''].
      { split; [lia|]. exists racc. split; reflexivity. }
      rewrite finish_cons. cbn [lex_step]. cbn [length] in Hlen.
      destruct s'' as [|d s3].
      { split; [cbn [length]; lia|]. exists (e :: racc). split; [cbn [length]; lia | reflexivity]. }
      destruct (atomok d) eqn:Eok.
      * rewrite finish_cons, (atom_continue _ _ _ Eok).
        cbn [length] in Hlen.
        specialize (IH d s3 ltac:(lia) (e :: racc) out base). cbn [length] in IH.
        replace (S (base + length racc)) with (base + S (length racc))%nat by lia.
        destruct (atom_loop (d :: s3) (base + S (length racc))) as [rest nc'].
        destruct IH as [Hl Hex]. split; [cbn [length]; lia | exact Hex].
      * split; [cbn [length]; lia|]. exists (e :: racc). split; [cbn [length]; lia|].
        apply atom_exit. exact Eok.
    + destruct s' as [|d s''].
      { split; [lia|]. exists (c :: racc). split; [cbn [length]; lia | reflexivity]. }
      destruct (atomok d) eqn:Eok.
      * rewrite finish_cons, (atom_continue _ _ _ Eok).
        cbn [length] in Hlen.
        specialize (IH d s'' ltac:(lia) (c :: racc) out base). cbn [length] in IH.
        replace (S (base + length racc)) with (base + S (length racc))%nat by lia.
        destruct (atom_loop (d :: s'') (base + S (length racc))) as [rest nc'].
        destruct IH as [Hl Hex]. split; [cbn [length]; lia | exact Hex].
      * split; [cbn [length]; lia|]. exists (c :: racc). split; [cbn [length]; lia|].
        apply atom_exit. exact Eok.
Qed.

(* ---- the outer loop ---- *)
Definition agree (r : option (nat * nat)) (p : option (list tok)) : Prop :=
  match r, p with
  | Some (nt, nc), Some ts => nt = length ts /\ nc = toks_chars ts
  | None, None => True
  | _, _ => False
  end.

Lemma count_loop_sim : forall (fuel : nat) (s : bytes) (out : list tok),
  (length s < fuel)%nat ->
  agree (count_loop fuel s (length out) (toks_chars out)) (finish (out, LTop) s).
Proof.
  induction fuel as [|fuel IH]; intros s out Hfuel; [lia|].
  destruct s as [|c s'].
  - cbn [count_loop]. rewrite finish_nil. unfold lex_end. cbn [snd fst agree].
    rewrite rev_append_length, toks_chars_rev_append. change (toks_chars []) with 0%nat. cbn [length].
    split; lia.
  - cbn [length] in Hfuel. cbn [count_loop]. rewrite finish_cons. cbn [lex_step]. unfold top_step.
    unfold is_special, is_space.
    destruct (c =? 46) eqn:E46; [cbn [orb]; apply (IH s' (TDot :: out)); lia|].
    destruct (c =? 44) eqn:E44; [cbn [orb]; apply (IH s' (TComma :: out)); lia|].
    destruct (c =? 64) eqn:E64; [cbn [orb]; apply (IH s' (TAt :: out)); lia|].
    destruct (c =? 60) eqn:E60; [cbn [orb]; apply (IH s' (TLeft :: out)); lia|].
    destruct (c =? 62) eqn:E62; [cbn [orb]; apply (IH s' (TRight :: out)); lia|].
    destruct (c =? 58) eqn:E58; [cbn [orb]; apply (IH s' (TColon :: out)); lia|].
    destruct (c =? 59) eqn:E59; [cbn [orb]; apply (IH s' (TSemi :: out)); lia|].
    cbn [orb].
    destruct ((c =? 32) || (c =? 9) || (c =? 13) || (c =? 10)) eqn:Esp; [apply (IH s' out); lia|].
    destruct ((c =? 41) || (c =? 93)) eqn:Ecl; [exact I|].
    destruct (c =? 40) eqn:E40.
    { pose proof (comment_loop_sim s' (length s') (le_n _) 0%nat [] out (toks_chars out)) as H.
      cbn [length] in H. rewrite Nat.add_0_r in H.
      destruct (comment_loop 1 s' (toks_chars out)) as [[rest nc']|].
      - destruct H as [Hl [racc' [Hnc Hfin]]]. rewrite Hfin.
        replace nc' with (toks_chars (TComment (rev_append racc' []) :: out)).
        + apply (IH rest (TComment (rev_append racc' []) :: out)). lia.
        + rewrite toks_chars_cons. cbn [tok_chars]. rewrite rev_append_length. cbn [length]. lia.
      - rewrite H. exact I. }
    destruct (c =? 34) eqn:E34.
    { pose proof (delim_loop_sim 34 (or_introl eq_refl) s' (length s') (le_n _) [] out (toks_chars out)) as H.
      cbn [length] in H. rewrite Nat.add_0_r in H.
      change (delim_state 34 [] false) with (LQuote [] false) in H.
      destruct (delim_loop 34 s' (toks_chars out)) as [[rest nc']|].
      - destruct H as [Hl [racc' [Hnc Hfin]]]. rewrite Hfin.
        change (delim_tok 34 (rev_append racc' [])) with (TQuote (rev_append racc' [])).
        replace nc' with (toks_chars (TQuote (rev_append racc' []) :: out)).
        + apply (IH rest (TQuote (rev_append racc' []) :: out)). lia.
        + rewrite toks_chars_cons. cbn [tok_chars]. rewrite rev_append_length. cbn [length]. lia.
      - rewrite H. exact I. }
    destruct (c =? 91) eqn:E91.
    { pose proof (delim_loop_sim 93 (or_intror eq_refl) s' (length s') (le_n _) [] out (toks_chars out)) as H.
      cbn [length] in H. rewrite Nat.add_0_r in H.
      change (delim_state 93 [] false) with (LLiteral [] false) in H.
      destruct (delim_loop 93 s' (toks_chars out)) as [[rest nc']|].
      - destruct H as [Hl [racc' [Hnc Hfin]]]. rewrite Hfin.
        change (delim_tok 93 (rev_append racc' [])) with (TLiteral (rev_append racc' [])).
        replace nc' with (toks_chars (TLiteral (rev_append racc' []) :: out)).
        + apply (IH rest (TLiteral (rev_append racc' []) :: out)). lia.
        + rewrite toks_chars_cons. cbn [tok_chars]. rewrite rev_append_length. cbn [length]. lia.
      - rewrite H. exact I. }
    pose proof (atom_loop_sim (length s') c s' (le_n _) [] out (toks_chars out)) as H.
    cbn [length] in H. rewrite Nat.add_0_r in H.
    assert (Hent : (if c =? 92 then Some (out, LAtom [] true) else Some (out, LAtom [c] false))
                   = Some (out, atom_enter [] c)).
    { unfold atom_enter. destruct (c =? 92); reflexivity. }
    rewrite Hent; clear Hent.
    destruct (atom_loop (c :: s') (toks_chars out)) as [rest nc'].
    destruct H as [Hl [racc' [Hnc Hfin]]]. rewrite Hfin.
    replace nc' with (toks_chars (mk_atom racc' :: out)).
    + apply (IH rest (mk_atom racc' :: out)). lia.
    + rewrite toks_chars_cons, tok_chars_mk_atom. lia.
Qed.

(* MAIN THEOREM: for every input, the first pass fails exactly when the second-pass model fails, and
   otherwise numtoks is the number of tokens written and numchars the number of bytes written into buf. *)
Theorem count_pass_exact : forall s : bytes,
  match count_pass s, parse s with
  | Some (nt, nc), Some ts => nt = length ts /\ nc = list_sum (map tok_chars ts)
  | None, None => True
  | _, _ => False
  end.
Proof.
  intro s. rewrite parse_finish. unfold count_pass.
  exact (count_loop_sim (S (length s)) s [] (Nat.lt_succ_diag_r _)).
Qed.
Print Assumptions count_pass_exact.

(* every token's character string lies inside the allocated buffer: the j-th token's string occupies
   [sum of earlier slen, + slen) which is within [0, numchars) *)
Corollary count_pass_prefix_bound : forall (s : bytes) (nt nc : nat) (ts : list tok),
  count_pass s = Some (nt, nc) -> parse s = Some ts ->
  forall k : nat, (k <= length ts)%nat -> (toks_chars (firstn k ts) <= nc)%nat /\ (length (firstn k ts) <= nt)%nat.
Proof.
  intros s nt nc ts Hc Hp k Hk. pose proof (count_pass_exact s) as H. rewrite Hc, Hp in H.
  destruct H as [Hnt Hnc]. subst nt nc. split.
  - fold (toks_chars ts). rewrite <- (firstn_skipn k ts) at 2. unfold toks_chars.
    rewrite map_app, list_sum_app. lia.
  - rewrite firstn_length. lia.
Qed.
Print Assumptions count_pass_prefix_bound.

Corollary count_pass_fails_iff : forall s : bytes, count_pass s = None <-> parse s = None.
Proof.
  intro s. pose proof (count_pass_exact s) as H.
  destruct (count_pass s) as [[nt nc]|], (parse s) as [ts|]; split; intro E; try discriminate; try reflexivity;
    contradiction.
Qed.
Print Assumptions count_pass_fails_iff.
