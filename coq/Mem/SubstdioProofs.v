(* Proofs about Mem/Substdio.v.  Statements marked REQUIRED must be proved exactly as stated. *)
From NQ Require Import Base.Bytes Mem.Substdio.
From Coq Require Import Arith Lia.
Local Open Scope nat_scope.


(* ================================================================ auxiliary: output side *)
Lemma OUTSIZE_pos : 0 < OUTSIZE.
Proof. apply Nat.ltb_lt. vm_compute. reflexivity. Qed.
Local Opaque OUTSIZE.

Definition OInv (b : obuf) : Prop :=
  length (o_pend b) <= o_cap b /\ Forall (fun c => fst c + snd c <= o_cap b) (o_copies b).
Definition sent (b : obuf) : bytes := o_out b ++ o_pend b.

Lemma allwrite_S : forall f scr data, data <> [] ->
  allwrite (S f) scr data =
  match scr with
  | [] => (true, data, [])
  | WErr :: scr' => (false, [], scr')
  | WIntr :: scr' => allwrite f scr' data
  | WOk k :: scr' =>
      let w := Nat.min (S k) (length data) in
      let '(ok, more, scr'') := allwrite f scr' (skipn w data) in
      (ok, firstn w data ++ more, scr'')
  end.
Proof. intros f scr data Hne. destruct data as [|c d]; [congruence | reflexivity]. Qed.

Lemma allwrite_spec : forall fuel scr data ok acc scr',
  allwrite fuel scr data = (ok, acc, scr') ->
  exists r, data = acc ++ r /\ (ok = true -> r = []).
Proof.
  induction fuel as [|f IH]; intros scr data ok acc scr' H.
  - destruct data as [|c d]; cbn [allwrite] in H; injection H as <- <- <-.
    + exists []. split; reflexivity.
    + exists (c :: d). split; [reflexivity | discriminate].
  - destruct data as [|c d].
    + cbn [allwrite] in H. injection H as <- <- <-. exists []. split; reflexivity.
    + assert (Hne : c :: d <> []) by discriminate.
      rewrite (allwrite_S f scr (c :: d) Hne) in H.
      remember (c :: d) as data eqn:Hd. clear Hd Hne.
      destruct scr as [|[k| |] scr1].
      * injection H as <- <- <-. exists []. split; [rewrite app_nil_r; reflexivity | reflexivity].
      * cbv zeta in H.
        destruct (allwrite f scr1 (skipn (Nat.min (S k) (length data)) data)) as [[ok1 more] scr2] eqn:E.
        injection H as <- <- <-. apply IH in E. destruct E as [r [E1 E2]].
        exists r. split; [|exact E2].
        rewrite <- app_assoc, <- E1, firstn_skipn. reflexivity.
      * apply IH in H. exact H.
      * injection H as <- <- <-. exists data. split; [reflexivity | discriminate].
Qed.

Lemma o_write_spec : forall b data ok b', o_write b data = (ok, b') ->
  o_cap b' = o_cap b /\ o_pend b' = o_pend b /\ o_copies b' = o_copies b /\
  exists r, o_out b ++ data = o_out b' ++ r /\ (ok = true -> r = []).
Proof.
  intros b data ok b' H. unfold o_write in H.
  destruct (allwrite (aw_fuel (o_scr b) data) (o_scr b) data) as [[ok1 acc] scr'] eqn:E.
  injection H as <- <-. cbn [o_cap o_pend o_out o_scr o_copies].
  apply allwrite_spec in E. destruct E as [r [E1 E2]].
  split; [reflexivity|]. split; [reflexivity|]. split; [reflexivity|].
  exists r. split; [|exact E2]. rewrite E1, app_assoc. reflexivity.
Qed.

Lemma o_flush_spec : forall b ok b', o_flush b = (ok, b') ->
  o_cap b' = o_cap b /\ o_pend b' = [] /\ o_copies b' = o_copies b /\
  exists r, o_out b ++ o_pend b = o_out b' ++ r /\ (ok = true -> r = []).
Proof.
  intros b ok b' H. unfold o_flush in H. destruct (o_pend b) as [|c p] eqn:E.
  - injection H as <- <-. rewrite E.
    split; [reflexivity|]. split; [reflexivity|]. split; [reflexivity|].
    exists []. split; reflexivity.
  - apply o_write_spec in H. cbn [o_cap o_pend o_out o_scr o_copies] in H.
    destruct H as (H1 & H2 & H3 & r & H4 & H5).
    split; [exact H1|]. split; [exact H2|]. split; [exact H3|].
    exists r. split; assumption.
Qed.

Lemma put_direct_spec : forall fuel b n data ok b' rest,
  1 <= n -> length data < fuel -> put_direct fuel b n data = (ok, b', rest) ->
  o_cap b' = o_cap b /\ o_pend b' = o_pend b /\ o_copies b' = o_copies b /\
  exists r, o_out b ++ data = o_out b' ++ r /\ (ok = true -> r = rest /\ length rest <= o_cap b).
Proof.
  induction fuel as [|f IH]; intros b n data ok b' rest Hn Hf H.
  - inversion Hf.
  - cbn [put_direct] in H.
    destruct (Nat.ltb_spec (o_cap b) (length data)) as [Hlt|Hge].
    + destruct (o_write b (firstn (Nat.min n (length data)) data)) as [ok1 b1] eqn:Ew.
      apply o_write_spec in Ew. destruct Ew as (W1 & W2 & W3 & r1 & W4 & W5).
      destruct ok1.
      * specialize (W5 eq_refl). subst r1. rewrite app_nil_r in W4.
        apply IH in H; [| lia | rewrite skipn_length; lia].
        destruct H as (P1 & P2 & P3 & r & P4 & P5).
        split; [congruence|]. split; [congruence|]. split; [congruence|].
        exists r. split.
        -- rewrite <- P4, <- W4, <- app_assoc, firstn_skipn. reflexivity.
        -- intros Hok. destruct (P5 Hok) as [Q1 Q2]. split; [exact Q1 | rewrite <- W1; exact Q2].
      * injection H as <- <- <-.
        split; [exact W1|]. split; [exact W2|]. split; [exact W3|].
        exists (r1 ++ skipn (Nat.min n (length data)) data). split; [|discriminate].
        rewrite app_assoc, <- W4, <- app_assoc, firstn_skipn. reflexivity.
    + injection H as <- <- <-.
      split; [reflexivity|]. split; [reflexivity|]. split; [reflexivity|].
      exists data. split; [reflexivity|]. intros _. split; [reflexivity | exact Hge].
Qed.

(* what every operation guarantees *)
Definition Spec (b : obuf) (d : bytes) (ok : bool) (b' : obuf) : Prop :=
  o_cap b' = o_cap b /\ (OInv b -> OInv b') /\ (ok = true -> sent b' = sent b ++ d) /\
  exists rest, sent b ++ d = o_out b' ++ rest.

Lemma Spec_eq : forall b d d' ok b', Spec b d ok b' -> d = d' -> Spec b d' ok b'.
Proof. intros b d d' ok b' H E. subst d'. exact H. Qed.

Lemma Spec_refl : forall b ok, Spec b [] ok b.
Proof.
  intros b ok. unfold Spec. split; [reflexivity|]. split; [auto|]. split.
  - intros _. rewrite app_nil_r. reflexivity.
  - exists (o_pend b). rewrite app_nil_r. reflexivity.
Qed.

Lemma Spec_stay_false : forall b d, Spec b d false b.
Proof.
  intros b d. unfold Spec. split; [reflexivity|]. split; [auto|]. split; [discriminate|].
  exists (o_pend b ++ d). unfold sent. rewrite app_assoc. reflexivity.
Qed.

Lemma Spec_trans : forall b d1 b1 d2 ok b2,
  Spec b d1 true b1 -> Spec b1 d2 ok b2 -> Spec b (d1 ++ d2) ok b2.
Proof.
  intros b d1 b1 d2 ok b2 (A1 & A2 & A3 & _) (B1 & B2 & B3 & r & B4).
  specialize (A3 eq_refl). unfold Spec.
  split; [congruence|]. split; [auto|]. split.
  - intros Hok. rewrite (B3 Hok), A3, app_assoc. reflexivity.
  - exists r. rewrite app_assoc, <- A3. exact B4.
Qed.

Lemma Spec_fail : forall b d1 ok b1 d2, Spec b d1 ok b1 -> Spec b (d1 ++ d2) false b1.
Proof.
  intros b d1 ok b1 d2 (A1 & A2 & _ & r & A4). unfold Spec.
  split; [exact A1|]. split; [exact A2|]. split; [discriminate|].
  exists (r ++ d2). rewrite !app_assoc, A4. reflexivity.
Qed.

Lemma Spec_copy : forall b d, (OInv b -> length (o_pend b) + length d <= o_cap b) -> Spec b d true (o_copy b d).
Proof.
  intros b d Hfit. unfold Spec, o_copy, sent, OInv. cbn [o_cap o_pend o_out o_scr o_copies].
  split; [reflexivity|]. split.
  - intros Hinv. specialize (Hfit Hinv). destruct Hinv as [I1 I2]. split.
    + rewrite app_length. exact Hfit.
    + apply Forall_app. split; [exact I2|]. constructor; [|constructor]. cbn [fst snd]. exact Hfit.
  - split.
    + intros _. rewrite app_assoc. reflexivity.
    + exists (o_pend b ++ d). rewrite app_assoc. reflexivity.
Qed.

Lemma Spec_flush : forall b ok b', o_flush b = (ok, b') -> Spec b [] ok b'.
Proof.
  intros b ok b' H. apply o_flush_spec in H. destruct H as (H1 & H2 & H3 & r & H4 & H5).
  unfold Spec, sent, OInv. rewrite H1, H2, H3, !app_nil_r. cbn [length].
  split; [reflexivity|]. split.
  - intros [_ I2]. split; [lia | exact I2].
  - split.
    + intros Hok. rewrite (H5 Hok), app_nil_r in H4. symmetry. exact H4.
    + exists r. exact H4.
Qed.

Lemma Spec_write : forall b d ok b', o_pend b = [] -> o_write b d = (ok, b') -> Spec b d ok b'.
Proof.
  intros b d ok b' Hp H. apply o_write_spec in H. destruct H as (H1 & H2 & H3 & r & H4 & H5).
  unfold Spec, sent, OInv. rewrite H1, H2, H3, Hp, !app_nil_r.
  split; [reflexivity|]. split; [auto|]. split.
  - intros Hok. rewrite (H5 Hok), app_nil_r in H4. symmetry. exact H4.
  - exists r. exact H4.
Qed.

Lemma Spec_put : forall b d ok b', o_put b d = (ok, b') -> Spec b d ok b'.
Proof.
  intros b d ok b' H. unfold o_put in H.
  destruct (Nat.ltb_spec (o_cap b - length (o_pend b)) (length d)) as [Hlt|Hge].
  - destruct (o_flush b) as [ok1 b1] eqn:Ef.
    pose proof (Spec_flush _ _ _ Ef) as Sf.
    apply o_flush_spec in Ef. destruct Ef as (F1 & F2 & F3 & rf & F4 & F5).
    destruct ok1; cbn [negb] in H.
    + destruct (put_direct (S (length d)) b1 (Nat.max (o_cap b) OUTSIZE) d) as [[ok2 b2] rest] eqn:Ep.
      apply put_direct_spec in Ep; [| pose proof OUTSIZE_pos; lia | lia].
      destruct Ep as (P1 & P2 & P3 & r & P4 & P5).
      assert (S12 : Spec b1 d ok2 (if ok2 then o_copy b2 rest else b2)).
      { unfold Spec, sent, OInv. destruct ok2.
        - destruct (P5 eq_refl) as [-> Q2]. unfold o_copy. cbn [o_cap o_pend o_out o_scr o_copies].
          rewrite P1, P2, P3, F2, !app_nil_r. cbn [app length].
          split; [reflexivity|]. split.
          + intros [_ I2]. split; [exact Q2|]. apply Forall_app. split; [exact I2|].
            constructor; [|constructor]. cbn [fst snd]. exact Q2.
          + split; [intros _; symmetry; exact P4 | exists rest; exact P4].
        - rewrite P1, P2, P3, F2, !app_nil_r.
          split; [reflexivity|]. split; [auto|]. split; [discriminate|]. exists r. exact P4. }
      eapply Spec_eq; [eapply Spec_trans; [exact Sf|]|reflexivity].
      destruct ok2; cbn [negb] in H; injection H as <- <-; exact S12.
    + injection H as <- <-. apply (Spec_fail _ _ _ _ d) in Sf. exact Sf.
  - injection H as <- <-. apply Spec_copy. intros [I1 _]. lia.
Qed.

Lemma Spec_bput_loop : forall fuel b d ok b', o_bput_loop fuel b d = (ok, b') -> Spec b d ok b'.
Proof.
  induction fuel as [|f IH]; intros b d ok b' H.
  - cbn [o_bput_loop] in H. injection H as <- <-. apply Spec_stay_false.
  - cbn [o_bput_loop] in H.
    destruct (Nat.ltb_spec (o_cap b - length (o_pend b)) (length d)) as [Hlt|Hge].
    + remember (o_cap b - length (o_pend b)) as n eqn:Hn.
      assert (Sc : Spec b (firstn n d) true (o_copy b (firstn n d))).
      { apply Spec_copy. intros [I1 _]. rewrite firstn_length. lia. }
      destruct (o_flush (o_copy b (firstn n d))) as [ok1 b1] eqn:Ef.
      apply Spec_flush in Ef.
      pose proof (Spec_trans _ _ _ _ _ _ Sc Ef) as S1. rewrite app_nil_r in S1.
      destruct ok1.
      * apply IH in H. eapply Spec_eq; [eapply Spec_trans; [exact S1 | exact H]|].
        apply firstn_skipn.
      * injection H as <- <-. eapply Spec_eq; [eapply Spec_fail; exact S1|].
        apply (firstn_skipn n d).
    + injection H as <- <-. apply Spec_copy. intros [I1 _]. lia.
Qed.

Lemma Spec_putflush : forall b d ok b', o_putflush b d = (ok, b') -> Spec b d ok b'.
Proof.
  intros b d ok b' H. unfold o_putflush in H.
  destruct (o_flush b) as [ok1 b1] eqn:Ef.
  pose proof (Spec_flush _ _ _ Ef) as Sf.
  apply o_flush_spec in Ef. destruct Ef as (_ & F2 & _).
  destruct ok1; cbn [negb] in H.
  - apply (Spec_write _ _ _ _ F2) in H. apply (Spec_trans _ _ _ _ _ _ Sf H).
  - injection H as <- <-. apply (Spec_fail _ _ _ _ d) in Sf. exact Sf.
Qed.

Lemma Spec_step : forall b op ok b', o_step b op = (ok, b') -> Spec b (op_data op) ok b'.
Proof.
  intros b op ok b' H. destruct op as [d|d| |d]; cbn [o_step op_data] in *.
  - apply Spec_put. exact H.
  - apply (Spec_bput_loop _ _ _ _ _ H).
  - apply Spec_flush. exact H.
  - apply Spec_putflush. exact H.
Qed.

Lemma Spec_run : forall ops b ok b', o_run b ops = (ok, b') -> Spec b (flat_map op_data ops) ok b'.
Proof.
  induction ops as [|op ops IH]; intros b ok b' H; cbn [o_run flat_map] in *.
  - injection H as <- <-. apply Spec_refl.
  - destruct (o_step b op) as [ok1 b1] eqn:Es. apply Spec_step in Es.
    destruct ok1.
    + apply IH in H. apply (Spec_trans _ _ _ _ _ _ Es H).
    + injection H as <- <-. apply (Spec_fail _ _ _ _ (flat_map op_data ops)) in Es. exact Es.
Qed.

Lemma OInv_init : forall cap scr, OInv (o_init cap scr).
Proof. intros cap scr. unfold OInv, o_init. cbn [o_cap o_pend o_copies length]. split; [lia | constructor]. Qed.

(* ---------------------------------------------------------------- output side *)
(* REQUIRED 1: as long as no operation failed, what the descriptor accepted followed by what waits in the buffer is
   exactly the concatenation of everything that was put - whatever the sizes, the buffer size and the short writes *)
Theorem o_run_stream : forall cap scr ops b,
  o_run (o_init cap scr) ops = (true, b) -> o_out b ++ o_pend b = flat_map op_data ops.
Proof.
  intros cap scr ops b H. apply Spec_run in H. destruct H as (_ & _ & H & _).
  apply (H eq_refl).
Qed.

(* REQUIRED 2: also when an operation failed, nothing was invented or reordered: the accepted bytes are a prefix *)
Theorem o_run_prefix : forall cap scr ops ok b,
  o_run (o_init cap scr) ops = (ok, b) -> exists rest, flat_map op_data ops = o_out b ++ rest.
Proof.
  intros cap scr ops ok b H. apply Spec_run in H. destruct H as (_ & _ & _ & H). exact H.
Qed.

(* REQUIRED 3: every copy into the buffer lies inside it, and never more than cap bytes wait *)
Theorem o_run_safe : forall cap scr ops ok b,
  o_run (o_init cap scr) ops = (ok, b) ->
  length (o_pend b) <= cap /\ Forall (fun c => fst c + snd c <= cap) (o_copies b).
Proof.
  intros cap scr ops ok b H. apply Spec_run in H. destruct H as (H1 & H2 & _).
  specialize (H2 (OInv_init cap scr)). unfold OInv in H2. rewrite H1 in H2. exact H2.
Qed.

(* REQUIRED 4 *)
Theorem o_flush_empties : forall b b', o_flush b = (true, b') -> o_pend b' = [] /\ o_out b' = o_out b ++ o_pend b.
Proof.
  intros b b' H. apply o_flush_spec in H. destruct H as (_ & H2 & _ & r & H4 & H5).
  split; [exact H2|]. rewrite (H5 eq_refl), app_nil_r in H4. symmetry. exact H4.
Qed.


(* ================================================================ auxiliary: input side *)
Lemma oneread_S : forall f scr src len,
  oneread (S f) scr src len =
      match scr with
      | RErr :: scr' => (RdErr, scr', src)
      | RIntr :: scr' => oneread f scr' src len
      | RChunk k :: scr' =>
          match src with
          | [] => (RdEof, scr', src)
          | _ => let r := Nat.min (Nat.min (S k) len) (length src) in
                 if Nat.eqb r 0 then (RdData [], scr', src) else (RdData (firstn r src), scr', skipn r src)
          end
      | [] =>
          match src with
          | [] => (RdEof, [], src)
          | _ => let r := Nat.min len (length src) in (RdData (firstn r src), [], skipn r src)
          end
      end.
Proof. reflexivity. Qed.

Lemma oneread_spec : forall fuel scr src len r scr' src',
  oneread fuel scr src len = (r, scr', src') ->
  match r with
  | RdData d => src = d ++ src' /\ length d <= len /\ (d = [] -> len = 0)
  | RdEof => src' = src /\ src = []
  | RdErr => src' = src
  end.
Proof.
  induction fuel as [|f IH]; intros scr src len r scr' src' H.
  - cbn [oneread] in H. injection H as <- <- <-. reflexivity.
  - rewrite oneread_S in H. cbv zeta in H. destruct scr as [|[k| |] scr1].
    + destruct src as [|c s].
      * injection H as <- <- <-. split; reflexivity.
      * remember (c :: s) as src eqn:Hs.
        injection H as <- <- <-. split; [symmetry; apply firstn_skipn|]. split.
        -- rewrite firstn_length. lia.
        -- intros E. apply (f_equal (@length N)) in E. rewrite firstn_length in E.
           rewrite Hs in E. cbn [length] in E. lia.
    + destruct src as [|c s].
      * injection H as <- <- <-. split; reflexivity.
      * remember (c :: s) as src eqn:Hs.
        remember (Nat.min (Nat.min (S k) len) (length src)) as r0 eqn:Hr.
        destruct (Nat.eqb_spec r0 0) as [E0|E0].
        -- injection H as <- <- <-. split; [reflexivity|]. split; [cbn [length]; lia|].
           intros _. rewrite Hs in Hr. cbn [length] in Hr. lia.
        -- injection H as <- <- <-. split; [symmetry; apply firstn_skipn|]. split.
           ++ rewrite firstn_length. lia.
           ++ intros E. apply (f_equal (@length N)) in E. rewrite firstn_length in E.
              cbn [length] in E. lia.
    + apply IH in H. exact H.
    + injection H as <- <- <-. reflexivity.
Qed.

(* ---------------------------------------------------------------- input side *)
Definition i_ok (b : ibuf) : Prop :=
  length (i_avail b) <= i_cap b /\ Forall (fun c => fst c + snd c <= i_cap b) (i_copies b).
Definition i_rest (b : ibuf) : bytes := i_avail b ++ i_src b.

Lemma no_err_tail : forall x scr, ~ In RErr (x :: scr) -> ~ In RErr scr.
Proof. intros x scr H I. apply H. right. exact I. Qed.

Lemma oneread_noerr : forall fuel scr src len r scr' src',
  ~ In RErr scr -> length scr < fuel -> oneread fuel scr src len = (r, scr', src') ->
  r <> RdErr /\ ~ In RErr scr'.
Proof.
  induction fuel as [|f IH]; intros scr src len r scr' src' Hn Hf H.
  - inversion Hf.
  - rewrite oneread_S in H. cbv zeta in H. destruct scr as [|[k| |] scr1].
    + destruct src as [|c s]; injection H as <- <- <-; (split; [discriminate | exact Hn]).
    + apply no_err_tail in Hn.
      destruct src as [|c s]; [|destruct (Nat.eqb _ 0)]; injection H as <- <- <-;
        (split; [discriminate | exact Hn]).
    + apply no_err_tail in Hn. cbn [length] in Hf. apply (IH _ _ _ _ _ _ Hn) in H; [exact H | lia].
    + exfalso. apply Hn. left. reflexivity.
Qed.

Lemma i_getthis_ok : forall b len d b', i_ok b -> i_getthis b len = (d, b') ->
  i_ok b' /\ i_cap b' = i_cap b /\ i_rest b = d ++ i_rest b' /\ length d <= len /\
  i_scr b' = i_scr b /\ d = firstn (Nat.min len (length (i_avail b))) (i_avail b) /\
  i_avail b' = skipn (Nat.min len (length (i_avail b))) (i_avail b) /\ i_src b' = i_src b.
Proof.
  intros b len d b' [K1 K2] H. unfold i_getthis in H. injection H as <- <-.
  unfold i_ok, i_rest. cbn [i_cap i_avail i_src i_scr i_copies].
  split; [split; [rewrite skipn_length; lia | exact K2]|].
  split; [reflexivity|]. split; [rewrite app_assoc, firstn_skipn; reflexivity|].
  split; [rewrite firstn_length; lia|].
  split; [reflexivity|]. split; [reflexivity|]. split; reflexivity.
Qed.

(* feed: everything needed later in one statement *)
Lemma i_feed_full : forall b r b', i_ok b -> i_feed b = (r, b') ->
  i_ok b' /\ i_cap b' = i_cap b /\ i_rest b' = i_rest b /\
  match r with
  | FdHave n => n = length (i_avail b') /\ 0 < n
  | FdEof => i_avail b' = [] /\ (0 < i_cap b -> i_src b' = [])
  | FdErr => True
  end.
Proof.
  intros b r b' [K1 K2] H. unfold i_feed in H. destruct (i_avail b) as [|a av] eqn:Ea.
  - destruct (oneread (or_fuel (i_scr b)) (i_scr b) (i_src b) (i_cap b)) as [[rd scr'] src'] eqn:Eo.
    apply oneread_spec in Eo. unfold i_ok, i_rest. rewrite Ea.
    destruct rd as [d| |]; [destruct d as [|c d]|..]; injection H as <- <-;
      cbn [i_cap i_avail i_src i_scr i_copies app length].
    + destruct Eo as (E1 & E2 & E3). cbn [app] in E1.
      split; [split; [lia | exact K2]|]. split; [reflexivity|]. split; [congruence|].
      split; [reflexivity|]. intros Hc. specialize (E3 eq_refl). lia.
    + destruct Eo as (E1 & E2 & E3). cbn [length] in E2.
      split; [split; [exact E2|]|].
      { apply Forall_app. split; [exact K2|]. constructor; [|constructor; [|constructor]]; cbn [fst snd]; lia. }
      split; [reflexivity|]. split; [symmetry; exact E1|]. split; [reflexivity | lia].
    + destruct Eo as (E1 & E2).
      split; [split; [lia | exact K2]|]. split; [reflexivity|]. split; [exact E1|].
      split; [reflexivity|]. intros _. congruence.
    + split; [split; [lia | exact K2]|]. split; [reflexivity|]. split; [exact Eo|]. exact I.
  - injection H as <- <-. rewrite Ea.
    split; [split; [rewrite Ea; exact K1 | exact K2]|]. split; [reflexivity|]. split; [reflexivity|].
    split; [reflexivity | cbn [length]; lia].
Qed.


(* REQUIRED 5: feed and get keep the buffer discipline and hand out the stream in order, nothing lost or repeated *)
Theorem i_feed_ok : forall b r b', i_ok b -> i_feed b = (r, b') ->
  i_ok b' /\ i_cap b' = i_cap b /\ i_rest b' = i_rest b /\
  match r with FdHave n => n = length (i_avail b') /\ 0 < n | FdEof => i_avail b' = [] | FdErr => True end.
Proof.
  intros b r b' K H. apply (i_feed_full _ _ _ K) in H. destruct H as (H1 & H2 & H3 & H4).
  split; [exact H1|]. split; [exact H2|]. split; [exact H3|].
  destruct r as [n| |]; [exact H4 | apply H4 | exact I].
Qed.

Theorem i_get_ok : forall b len r b', i_ok b -> i_get b len = (r, b') ->
  i_ok b' /\ i_cap b' = i_cap b /\
  match r with
  | Some d => i_rest b = d ++ i_rest b' /\ length d <= len
  | None => i_rest b' = i_rest b
  end.
Proof.
  intros b len r b' K H. unfold i_get in H. destruct (i_avail b) as [|a av] eqn:Ea.
  - destruct (Nat.leb (i_cap b) len).
    + destruct (oneread (or_fuel (i_scr b)) (i_scr b) (i_src b) len) as [[rd scr'] src'] eqn:Eo.
      apply oneread_spec in Eo. destruct K as [K1 K2]. unfold i_ok, i_rest. rewrite Ea.
      destruct rd as [d| |]; injection H as <- <-; cbn [i_cap i_avail i_src i_scr i_copies app length].
      * destruct Eo as (E1 & E2 & _).
        split; [split; [lia | exact K2]|]. split; [reflexivity|]. split; [exact E1 | exact E2].
      * destruct Eo as (E1 & E2).
        split; [split; [lia | exact K2]|]. split; [reflexivity|]. split; [congruence | lia].
      * split; [split; [lia | exact K2]|]. split; [reflexivity|]. exact Eo.
    + destruct (i_feed b) as [f b1] eqn:Ef. apply (i_feed_full _ _ _ K) in Ef.
      destruct Ef as (F1 & F2 & F3 & F4).
      destruct f as [n| |].
      * destruct (i_getthis b1 len) as [d b2] eqn:Eg. injection H as <- <-.
        apply (i_getthis_ok _ _ _ _ F1) in Eg. destruct Eg as (G1 & G2 & G3 & G4 & _).
        split; [exact G1|]. split; [congruence|]. split; [congruence | exact G4].
      * injection H as <- <-. split; [exact F1|]. split; [exact F2|]. split; [symmetry; exact F3 | cbn [length]; lia].
      * injection H as <- <-. split; [exact F1|]. split; [exact F2|]. exact F3.
  - destruct (i_getthis b len) as [d b2] eqn:Eg. injection H as <- <-.
    apply (i_getthis_ok _ _ _ _ K) in Eg. destruct Eg as (G1 & G2 & G3 & G4 & _).
    split; [exact G1|]. split; [exact G2|]. split; [exact G3 | exact G4].
Qed.


Lemma find_sep_some : forall sep s i, find_sep sep s = Some i ->
  firstn (S i) s = firstn i s ++ [sep] /\ ~ In sep (firstn i s).
Proof.
  intros sep. induction s as [|c s IH]; intros i H; cbn [find_sep] in H.
  - discriminate.
  - destruct (N.eqb_spec c sep) as [E|E].
    + injection H as <-. subst c. cbn [firstn app]. split; [reflexivity | intros []].
    + destruct (find_sep sep s) as [j|] eqn:Ej; [|discriminate].
      injection H as <-. destruct (IH j eq_refl) as [A B]. split.
      * change (firstn (S (S j)) (c :: s)) with (c :: firstn (S j) s). rewrite A. reflexivity.
      * change (firstn (S j) (c :: s)) with (c :: firstn j s). intros [X|X]; [congruence | auto].
Qed.

Lemma find_sep_none : forall sep s, find_sep sep s = None -> ~ In sep s.
Proof.
  intros sep. induction s as [|c s IH]; intros H; cbn [find_sep] in H.
  - intros [].
  - destruct (N.eqb_spec c sep) as [E|E]; [discriminate|].
    destruct (find_sep sep s) as [j|] eqn:Ej; [discriminate|].
    intros [X|X]; [congruence | exact (IH eq_refl X)].
Qed.

Lemma i_get_all : forall b, i_avail b <> [] ->
  i_get b (length (i_avail b)) =
  (Some (i_avail b), {| i_cap := i_cap b; i_avail := []; i_src := i_src b; i_scr := i_scr b; i_copies := i_copies b |}).
Proof.
  intros b Hne. unfold i_get. destruct (i_avail b) as [|a av] eqn:Ea; [congruence|].
  unfold i_getthis. rewrite Ea, Nat.min_id, firstn_all, skipn_all. reflexivity.
Qed.

Lemma getln_loop_S : forall f b sep sa,
  getln_loop (S f) b sep sa =
      let (fd, b1) := i_feed b in
      match fd with
      | FdErr => (None, b1)
      | FdEof => (Some (sa, false), b1)
      | FdHave n =>
          match find_sep sep (i_avail b1) with
          | Some i =>
              (Some (sa ++ firstn (S i) (i_avail b1), true),
               {| i_cap := i_cap b1; i_avail := skipn (S i) (i_avail b1); i_src := i_src b1; i_scr := i_scr b1; i_copies := i_copies b1 |})
          | None =>
              let (m, b2) := i_get b1 n in
              match m with
              | None => getln_loop f b2 sep sa
              | Some d => getln_loop f b2 sep (sa ++ d)
              end
          end
      end.
Proof. reflexivity. Qed.

Lemma getln_loop_spec : forall sep fuel b sa l m b',
  i_ok b -> 0 < i_cap b -> ~ In sep sa -> getln_loop fuel b sep sa = (Some (l, m), b') ->
  i_ok b' /\ i_cap b' = i_cap b /\ (exists l', l = sa ++ l' /\ i_rest b = l' ++ i_rest b') /\
  (m = true -> exists body, l = body ++ [sep] /\ ~ In sep body) /\
  (m = false -> ~ In sep l /\ i_rest b' = []).
Proof.
  intros sep. induction fuel as [|f IH]; intros b sa l m b' K Hc Hsa H.
  - cbn [getln_loop] in H. discriminate.
  - rewrite getln_loop_S in H. destruct (i_feed b) as [fd b1] eqn:Ef.
    apply (i_feed_full _ _ _ K) in Ef. destruct Ef as (F1 & F2 & F3 & F4).
    destruct fd as [n| |].
    + destruct F4 as [Fn Fpos].
      destruct (find_sep sep (i_avail b1)) as [i|] eqn:Es.
      * apply find_sep_some in Es. destruct Es as [A B].
        remember (S i) as si eqn:Hsi. injection H as <- <- <-.
        destruct F1 as [K1 K2]. unfold i_ok, i_rest in *. cbn [i_cap i_avail i_src i_scr i_copies].
        split; [split; [rewrite skipn_length; lia | exact K2]|]. split; [exact F2|]. split.
        { exists (firstn si (i_avail b1)). split; [reflexivity|].
          rewrite <- F3, app_assoc, firstn_skipn. reflexivity. }
        split.
        { intros _. exists (sa ++ firstn i (i_avail b1)). split; [rewrite A, app_assoc; reflexivity|].
          intros X. apply in_app_or in X. destruct X as [X|X]; [exact (Hsa X) | exact (B X)]. }
        discriminate.
      * subst n. assert (Hne : i_avail b1 <> []).
        { intros E. rewrite E in Fpos. cbn [length] in Fpos. lia. }
        rewrite (i_get_all b1 Hne) in H. cbv beta iota in H.
        apply find_sep_none in Es.
        apply IH in H.
        -- cbn [i_cap i_avail i_src i_scr i_copies] in H.
           destruct H as (H1 & H2 & (l' & H3 & H4) & H5 & H6).
           split; [exact H1|]. split; [congruence|]. split; [|split; assumption].
           exists (i_avail b1 ++ l'). split; [rewrite H3, app_assoc; reflexivity|].
           rewrite <- F3. unfold i_rest in *. cbn [i_avail i_src app] in H4.
           rewrite H4, app_assoc. reflexivity.
        -- destruct F1 as [K1 K2]. unfold i_ok. cbn [i_cap i_avail i_copies length]. split; [lia | exact K2].
        -- cbn [i_cap]. lia.
        -- intros X. apply in_app_or in X. destruct X as [X|X]; [exact (Hsa X) | exact (Es X)].
    + injection H as <- <- <-. destruct F4 as [F4 F5]. specialize (F5 Hc).
      assert (R0 : i_rest b1 = []). { unfold i_rest. rewrite F4, F5. reflexivity. }
      split; [exact F1|]. split; [exact F2|]. split.
      { exists []. split; [rewrite app_nil_r; reflexivity|]. rewrite <- F3, R0. reflexivity. }
      split; [discriminate|]. intros _. split; [exact Hsa | exact R0].
    + discriminate.
Qed.

Lemma i_feed_noerr : forall b r b', ~ In RErr (i_scr b) -> i_feed b = (r, b') ->
  r <> FdErr /\ ~ In RErr (i_scr b').
Proof.
  intros b r b' Hn H. unfold i_feed in H. destruct (i_avail b) as [|a av] eqn:Ea.
  - destruct (oneread (or_fuel (i_scr b)) (i_scr b) (i_src b) (i_cap b)) as [[rd scr'] src'] eqn:Eo.
    apply (oneread_noerr _ _ _ _ _ _ _ Hn) in Eo; [|unfold or_fuel; lia].
    destruct Eo as [E1 E2].
    destruct rd as [d| |]; [destruct d as [|c d]|..]; injection H as <- <-;
      cbn [i_scr]; try (split; [discriminate | exact E2]).
    congruence.
  - injection H as <- <-. split; [discriminate | exact Hn].
Qed.

Lemma getln_loop_total : forall sep fuel b sa,
  i_ok b -> ~ In RErr (i_scr b) -> length (i_avail b) + length (i_src b) < fuel ->
  exists l m b', getln_loop fuel b sep sa = (Some (l, m), b') /\ ~ In RErr (i_scr b').
Proof.
  intros sep. induction fuel as [|f IH]; intros b sa K Hn Hf.
  - inversion Hf.
  - rewrite getln_loop_S. destruct (i_feed b) as [fd b1] eqn:Ef.
    pose proof (i_feed_noerr _ _ _ Hn Ef) as [N1 N2].
    apply (i_feed_full _ _ _ K) in Ef. destruct Ef as (F1 & F2 & F3 & F4).
    destruct fd as [n| |].
    + destruct F4 as [Fn Fpos].
      destruct (find_sep sep (i_avail b1)) as [i|] eqn:Es.
      * eexists. eexists. eexists. split; [reflexivity|]. cbn [i_scr]. exact N2.
      * subst n. assert (Hne : i_avail b1 <> []).
        { intros E. rewrite E in Fpos. cbn [length] in Fpos. lia. }
        rewrite (i_get_all b1 Hne). cbv beta iota.
        apply IH.
        -- destruct F1 as [K1 K2]. unfold i_ok. cbn [i_cap i_avail i_copies length]. split; [lia | exact K2].
        -- cbn [i_scr]. exact N2.
        -- cbn [i_avail i_src length].
           apply (f_equal (@length N)) in F3. unfold i_rest in F3. rewrite !app_length in F3. lia.
    + eexists. eexists. eexists. split; [reflexivity | exact N2].
    + congruence.
Qed.

(* REQUIRED 6: one getln: the line is a prefix of what was left; with match it ends in the separator and contains it
   nowhere else; without match (end of file) it contains no separator and nothing is left *)
Theorem i_getln_ok : forall b sep l m b', i_ok b -> 0 < i_cap b -> i_getln b sep = (Some (l, m), b') ->
  i_ok b' /\ i_cap b' = i_cap b /\ i_rest b = l ++ i_rest b' /\
  (m = true -> exists body, l = body ++ [sep] /\ ~ In sep body) /\
  (m = false -> ~ In sep l /\ i_rest b' = []).
Proof.
  intros b sep l m b' K Hc H. unfold i_getln in H.
  apply (getln_loop_spec _ _ _ _ _ _ _ K Hc) in H; [|intros []].
  destruct H as (H1 & H2 & (l' & H3 & H4) & H5 & H6). cbn [app] in H3. subst l'.
  split; [exact H1|]. split; [exact H2|]. split; [exact H4|]. split; assumption.
Qed.

Lemma i_getln_total : forall b sep, i_ok b -> ~ In RErr (i_scr b) ->
  exists l m b', i_getln b sep = (Some (l, m), b') /\ ~ In RErr (i_scr b').
Proof.
  intros b sep K Hn. unfold i_getln. apply getln_loop_total; [exact K | exact Hn | lia].
Qed.

Lemma getlns_all_S : forall f b sep,
  getlns_all (S f) b sep =
      let (r, b') := i_getln b sep in
      match r with
      | None => ([], false)
      | Some (l, true) => let (ls, ok) := getlns_all f b' sep in ((l, true) :: ls, ok)
      | Some (l, false) => ([(l, false)], true)
      end.
Proof. reflexivity. Qed.

Lemma getlns_all_spec : forall sep fuel b ls, i_ok b -> 0 < i_cap b ->
  getlns_all fuel b sep = (ls, true) ->
  flat_map fst ls = i_rest b /\
  Forall (fun l => snd l = true -> exists body, fst l = body ++ [sep] /\ ~ In sep body) ls.
Proof.
  intros sep. induction fuel as [|f IH]; intros b ls K Hc H.
  - cbn [getlns_all] in H. discriminate.
  - rewrite getlns_all_S in H. destruct (i_getln b sep) as [r b1] eqn:Eg.
    destruct r as [[l m]|]; [|discriminate].
    apply (i_getln_ok _ _ _ _ _ K Hc) in Eg. destruct Eg as (G1 & G2 & G3 & G4 & G5).
    destruct m.
    + destruct (getlns_all f b1 sep) as [ls1 ok1] eqn:Er. injection H as <- ->.
      apply IH in Er; [|exact G1|lia]. destruct Er as [A B]. split.
      * cbn [flat_map fst]. rewrite A. symmetry. exact G3.
      * constructor; [|exact B]. cbn [fst snd]. intros _. apply G4. reflexivity.
    + injection H as <-. destruct (G5 eq_refl) as [_ R0]. split.
      * cbn [flat_map fst]. rewrite G3, R0. reflexivity.
      * constructor; [|constructor]. cbn [snd]. discriminate.
Qed.

Lemma getlns_all_tot : forall sep fuel b, i_ok b -> 0 < i_cap b -> ~ In RErr (i_scr b) ->
  length (i_rest b) < fuel -> exists ls, getlns_all fuel b sep = (ls, true).
Proof.
  intros sep. induction fuel as [|f IH]; intros b K Hc Hn Hf.
  - inversion Hf.
  - rewrite getlns_all_S. destruct (i_getln_total b sep K Hn) as (l & m & b1 & Eg & N1).
    rewrite Eg. apply (i_getln_ok _ _ _ _ _ K Hc) in Eg. destruct Eg as (G1 & G2 & G3 & G4 & G5).
    destruct m.
    + destruct (G4 eq_refl) as (body & Hb & _).
      destruct (IH b1) as [ls E]; [exact G1 | lia | exact N1 | |].
      * rewrite G3, Hb, !app_length in Hf. cbn [length] in Hf. lia.
      * rewrite E. eexists. reflexivity.
    + eexists. reflexivity.
Qed.

Lemma i_ok_init : forall cap src scr, i_ok (i_init cap src scr).
Proof. intros. unfold i_ok, i_init. cbn [i_cap i_avail i_copies length]. split; [lia | constructor]. Qed.

(* REQUIRED 7: reading a whole input line by line with a well-behaved descriptor (no errors in the script: RErr absent)
   gives back exactly the input, cut after each separator *)
Definition no_err (scr : list rres) : Prop := ~ In RErr scr.
Theorem getlns_all_concat : forall cap src scr sep fuel ls,
  0 < cap -> length src < fuel -> no_err scr ->
  getlns_all fuel (i_init cap src scr) sep = (ls, true) ->
  flat_map fst ls = src /\
  Forall (fun l => snd l = true -> exists body, fst l = body ++ [sep] /\ ~ In sep body) ls.
Proof.
  intros cap src scr sep fuel ls Hc _ _ H.
  apply getlns_all_spec in H; [exact H | apply i_ok_init | exact Hc].
Qed.

(* REQUIRED 8: with a descriptor that never fails, reading line by line always comes to the end of the input *)
Theorem getlns_all_total : forall cap src scr sep fuel,
  0 < cap -> length src < fuel -> no_err scr ->
  exists ls, getlns_all fuel (i_init cap src scr) sep = (ls, true).
Proof.
  intros cap src scr sep fuel Hc Hf Hn.
  apply getlns_all_tot; [apply i_ok_init | exact Hc | exact Hn | exact Hf].
Qed.

