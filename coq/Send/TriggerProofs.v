(* C16 proofs about Send/Trigger.v: the wake-up protocol (link, then pull the trigger  ||  close+reopen the
   FIFO, then opendir) loses no wake-up, and the select timeout of main() is 0 exactly when there is work
   and otherwise sleeps exactly until the earliest due time.

   Invariant [Inv] (per injector j that has linked its entry): the entry is in done and not in todo, or it is
   in todo and a wake-up that will see it is guaranteed ([Cw]): at select a byte is buffered; between
   select and opendir nothing is needed (the opendir to come is after the link); during a scan the entry is
   in the snapshot or a byte is buffered.  An injector that has opened the FIFO but not yet written either
   has [Cw] already or holds a writable FIFO (reader open), so its write will buffer the byte; if its open
   failed the reader was closed, i.e. the daemon was between close and open, and [Cw] holds from then on.
   The writer count is not needed for any of the theorems; it is proved separately ([InvW]). *)
From NQ Require Import Send.Trigger.
Import ListNotations.

(* ------------------------------------------------------------------ small list facts *)
Lemma mem_In n l : mem n l = true <-> In n l.
Proof.
  unfold mem. rewrite existsb_exists. split.
  - intros [x [Hx He]]. apply Nat.eqb_eq in He. subst x. exact Hx.
  - intros H. exists n. split; [exact H | apply Nat.eqb_refl].
Qed.

Lemma mem_false n l : mem n l = false <-> ~ In n l.
Proof.
  rewrite <- mem_In. split.
  - intros H H0. rewrite H in H0. discriminate.
  - intro H. destruct (mem n l); [exfalso; apply H; reflexivity | reflexivity].
Qed.

Lemma In_remove_id x n l : In x (remove_id n l) <-> In x l /\ x <> n.
Proof.
  unfold remove_id. rewrite filter_In, negb_true_iff, Nat.eqb_neq. tauto.
Qed.

Lemma length_remove_id n l : length (remove_id n l) <= length l.
Proof.
  unfold remove_id. induction l as [|a l IH]; cbn [filter length]; [lia|].
  destruct (negb (a =? n)); cbn [length]; lia.
Qed.

Lemma upd_inj_decomp (l : list inj) k jk :
  nth_error l k = Some jk -> l = firstn k l ++ jk :: skipn (S k) l.
Proof.
  revert k. induction l as [|a l IH]; intros [|k] H; cbn in H; try discriminate.
  - inversion H. reflexivity.
  - cbn [firstn skipn app]. f_equal. apply IH. exact H.
Qed.

Lemma upd_inj_ids (l : list inj) k jk j' :
  nth_error l k = Some jk -> i_id j' = i_id jk -> map i_id (upd_inj l k j') = map i_id l.
Proof.
  intros H He. rewrite (upd_inj_decomp l k jk H) at 2. unfold upd_inj.
  rewrite !map_app. cbn [map]. rewrite He. reflexivity.
Qed.

Lemma upd_inj_In (l : list inj) k jk j' j :
  nth_error l k = Some jk -> NoDup (map i_id l) -> In j (upd_inj l k j') ->
  j = j' \/ (In j l /\ i_id j <> i_id jk).
Proof.
  intros H Hn Hi. pose proof (upd_inj_decomp l k jk H) as Hd.
  unfold upd_inj in Hi. apply in_app_or in Hi.
  rewrite Hd in Hn. rewrite map_app in Hn. cbn [map] in Hn.
  apply NoDup_remove_2 in Hn.
  assert (Hrest : In j (firstn k l ++ skipn (S k) l) -> In j l /\ i_id j <> i_id jk).
  { intro Hin. split.
    - rewrite Hd. apply in_app_or in Hin. apply in_or_app. destruct Hin as [Hin|Hin]; [left; exact Hin | right; right; exact Hin].
    - intro He. apply Hn. rewrite <- He, <- map_app. apply in_map. exact Hin. }
  destruct Hi as [Hi|[Hi|Hi]].
  - right. apply Hrest. apply in_or_app. left. exact Hi.
  - left. symmetry. exact Hi.
  - right. apply Hrest. apply in_or_app. right. exact Hi.
Qed.

(* ------------------------------------------------------------------ the invariant *)
(* a wake-up of the daemon that will see entry n is guaranteed *)
Definition Cw (s : tst) (n : nat) : Prop :=
  match t_dpc s with
  | 0 => t_data s = true
  | 1 | 2 | 3 => True
  | 4 => In n (t_snap s) \/ t_data s = true
  | _ => False
  end.

Definition oblig (s : tst) (j : inj) : Prop :=
  match i_pc j with
  | 0 | 1 => True
  | 2 => Cw s (i_id j) \/ (i_wopen j = true /\ t_reader s = true)
  | _ => Cw s (i_id j)
  end.

Definition inj_ok (s : tst) (j : inj) : Prop :=
  i_pc j <= 4 /\
  (i_pc j = 0 -> ~ In (i_id j) (t_todo s) /\ ~ In (i_id j) (t_done s)) /\
  (1 <= i_pc j ->
     (In (i_id j) (t_done s) /\ ~ In (i_id j) (t_todo s)) \/
     (In (i_id j) (t_todo s) /\ oblig s j)).

Record Inv (s : tst) : Prop := {
  inv_dpc : t_dpc s <= 4;
  inv_reader : t_reader s = false <-> t_dpc s = 2;
  inv_nodup : NoDup (map i_id (t_injs s));
  inv_injs : forall j, In j (t_injs s) -> inj_ok s j
}.

Lemma inv_init ids : NoDup ids -> Inv (init real_dprog ids).
Proof.
  intro Hn. constructor; cbn.
  - lia.
  - split; intro H; discriminate.
  - rewrite map_map. cbn. rewrite map_id. exact Hn.
  - intros j Hj. apply in_map_iff in Hj. destruct Hj as [n [Hj _]]. subst j.
    unfold inj_ok; cbn. split; [lia|]. split; [tauto|]. intro H; lia.
Qed.

(* ------------------------------------------------------------------ daemon steps *)
Ltac inv_some H := inversion H; subst; clear H.

Lemma d_step_inv s s' : Inv s -> d_step real_dprog s = Some s' -> Inv s'.
Proof.
  intros [Hd Hr Hn Hj] Hs. unfold d_step in Hs.
  destruct s as [todo done reader writers data wsince dpc snap injs].
  cbn [t_todo t_done t_reader t_writers t_data t_wsince t_dpc t_snap t_injs] in *.
  destruct dpc as [|[|[|[|[|dpc]]]]]; cbn in Hs; try lia.
  - (* DSelect *)
    destruct (readable _) eqn:Hrd; [|discriminate]. inv_some Hs.
    constructor; cbn.
    + lia.
    + split; intro H; [apply Hr in H|]; discriminate.
    + exact Hn.
    + intros j Hin. specialize (Hj j Hin). unfold inj_ok, oblig, Cw in *; cbn in *.
      destruct Hj as [H1 [H2 H3]]. split; [exact H1|]. split; [exact H2|].
      intro Hp. specialize (H3 Hp). destruct H3 as [H3|[H3 H4]]; [left; exact H3|right].
      split; [exact H3|]. destruct (i_pc j) as [|[|[|?]]]; tauto.
  - (* DCloseT *)
    inv_some Hs. constructor; cbn.
    + lia.
    + tauto.
    + exact Hn.
    + intros j Hin. specialize (Hj j Hin). unfold inj_ok, oblig, Cw in *; cbn in *.
      destruct Hj as [H1 [H2 H3]]. split; [exact H1|]. split; [exact H2|].
      intro Hp. specialize (H3 Hp). destruct H3 as [H3|[H3 H4]]; [left; exact H3|right].
      split; [exact H3|]. destruct (i_pc j) as [|[|[|?]]]; tauto.
  - (* DOpenT *)
    inv_some Hs. constructor; cbn.
    + lia.
    + split; intro H; discriminate.
    + exact Hn.
    + intros j Hin. specialize (Hj j Hin). unfold inj_ok, oblig, Cw in *; cbn in *.
      destruct Hj as [H1 [H2 H3]]. split; [exact H1|]. split; [exact H2|].
      intro Hp. specialize (H3 Hp). destruct H3 as [H3|[H3 H4]]; [left; exact H3|right].
      split; [exact H3|]. destruct (i_pc j) as [|[|[|?]]]; tauto.
  - (* DOpendir *)
    inv_some Hs. constructor; cbn.
    + lia.
    + split; intro H; [apply Hr in H|]; discriminate.
    + exact Hn.
    + intros j Hin. specialize (Hj j Hin). unfold inj_ok, oblig, Cw in *; cbn in *.
      destruct Hj as [H1 [H2 H3]]. split; [exact H1|]. split; [exact H2|].
      intro Hp. specialize (H3 Hp). destruct H3 as [H3|[H3 H4]]; [left; exact H3|right].
      split; [exact H3|]. destruct (i_pc j) as [|[|[|?]]]; tauto.
  - (* DScan *)
    destruct snap as [|n r].
    + inv_some Hs. constructor; cbn.
      * lia.
      * split; intro H; [apply Hr in H|]; discriminate.
      * exact Hn.
      * intros j Hin. specialize (Hj j Hin). unfold inj_ok, oblig, Cw in *; cbn in *.
        destruct Hj as [H1 [H2 H3]]. split; [exact H1|]. split; [exact H2|].
        intro Hp. specialize (H3 Hp). destruct H3 as [H3|[H3 H4]]; [left; exact H3|right].
        split; [exact H3|]. destruct (i_pc j) as [|[|[|?]]]; tauto.
    + destruct (mem n todo) eqn:Hm.
      * inv_some Hs. apply mem_In in Hm. constructor; cbn.
        -- lia.
        -- exact Hr.
        -- exact Hn.
        -- intros j Hin. specialize (Hj j Hin). unfold inj_ok, oblig, Cw in *; cbn in *.
           destruct Hj as [H1 [H2 H3]]. split; [exact H1|].
           rewrite In_remove_id.
           destruct (Nat.eq_dec (i_id j) n) as [He|He].
           ++ split.
              ** intro H0. destruct (H2 H0) as [H4 _]. exfalso. apply H4. rewrite He. exact Hm.
              ** intro Hp. left. split; [left; symmetry; exact He | tauto].
           ++ split.
              ** intro H0. destruct (H2 H0) as [H4 H5]. split; [tauto|]. intros [H6|H6]; [apply He; symmetry; exact H6 | tauto].
              ** intro Hp. specialize (H3 Hp).
                 destruct H3 as [[H3 H4]|[H3 H4]]; [left; split; [right; exact H3 | tauto] | right].
                 split; [tauto|].
                 assert (Hsn : n = i_id j \/ In (i_id j) r -> In (i_id j) r).
                 { intros [H6|H6]; [exfalso; apply He; symmetry; exact H6 | exact H6]. }
                 destruct (i_pc j) as [|[|[|?]]]; tauto.
      * inv_some Hs. apply mem_false in Hm. constructor; cbn.
        -- lia.
        -- exact Hr.
        -- exact Hn.
        -- intros j Hin. specialize (Hj j Hin). unfold inj_ok, oblig, Cw in *; cbn in *.
           destruct Hj as [H1 [H2 H3]]. split; [exact H1|]. split; [exact H2|].
           intro Hp. specialize (H3 Hp).
           destruct H3 as [H3|[H3 H4]]; [left; exact H3 | right].
           split; [exact H3|].
           assert (Hsn : n = i_id j \/ In (i_id j) r -> In (i_id j) r).
           { intros [H6|H6]; [exfalso; apply Hm; rewrite H6; exact H3 | exact H6]. }
           destruct (i_pc j) as [|[|[|?]]]; tauto.
Qed.

Lemma d_late_inv s s' n : Inv s -> d_late real_dprog s n = Some s' -> Inv s'.
Proof.
  intros [Hd Hr Hn Hj] Hs. unfold d_late in Hs.
  destruct s as [todo done reader writers data wsince dpc snap injs].
  cbn [t_todo t_done t_reader t_writers t_data t_wsince t_dpc t_snap t_injs] in *.
  destruct dpc as [|[|[|[|[|dpc]]]]]; cbn in Hs; try discriminate.
  destruct (mem n todo) eqn:Hm; [|discriminate].
  inv_some Hs. apply mem_In in Hm. constructor; cbn.
  - lia.
  - exact Hr.
  - exact Hn.
  - intros j Hin. specialize (Hj j Hin). unfold inj_ok, oblig, Cw in *; cbn in *.
    destruct Hj as [H1 [H2 H3]]. split; [exact H1|].
    rewrite In_remove_id.
    destruct (Nat.eq_dec (i_id j) n) as [He|He].
    + split.
      * intro H0. destruct (H2 H0) as [H4 _]. exfalso. apply H4. rewrite He. exact Hm.
      * intro Hp. left. split; [left; symmetry; exact He | tauto].
    + split.
      * intro H0. destruct (H2 H0) as [H4 H5]. split; [tauto|]. intros [H6|H6]; [apply He; symmetry; exact H6 | tauto].
      * intro Hp. specialize (H3 Hp).
        destruct H3 as [[H3 H4]|[H3 H4]]; [left; split; [right; exact H3 | tauto] | right].
        split; [tauto|]. exact H4.
  - destruct dpc; discriminate.
Qed.

Lemma Cw_frame s s' n :
  t_dpc s' = t_dpc s -> t_snap s' = t_snap s ->
  (t_data s = true -> t_data s' = true \/ t_dpc s = 2) ->
  Cw s n -> Cw s' n.
Proof.
  unfold Cw. intros Hd Hsn Hda. rewrite Hd, Hsn.
  destruct (t_dpc s) as [|[|[|[|[|?]]]]]; try tauto.
  - intro H. destruct (Hda H) as [H0|H0]; [exact H0 | discriminate].
  - intros [H|H]; [left; exact H|]. destruct (Hda H) as [H0|H0]; [right; exact H0 | discriminate].
Qed.

Lemma inj_ok_frame s s' j :
  (In (i_id j) (t_todo s') <-> In (i_id j) (t_todo s)) -> t_done s' = t_done s ->
  t_dpc s' = t_dpc s -> t_snap s' = t_snap s -> t_reader s' = t_reader s ->
  (t_data s = true -> t_data s' = true \/ t_dpc s = 2) ->
  inj_ok s j -> inj_ok s' j.
Proof.
  intros Ht Hdn Hd Hsn Hrd Hda [H1 [H2 H3]]. unfold inj_ok. rewrite Ht, Hdn.
  split; [exact H1|]. split; [exact H2|]. intro Hp. specialize (H3 Hp).
  destruct H3 as [H3|[H3 H4]]; [left; exact H3 | right]. split; [exact H3|].
  pose proof (Cw_frame s s' (i_id j) Hd Hsn Hda) as HC.
  unfold oblig in *. rewrite Hrd. destruct (i_pc j) as [|[|[|?]]]; tauto.
Qed.

Lemma inj_step_inv s s' k : Inv s -> inj_step real_iprog s k = Some s' -> Inv s'.
Proof.
  intros HI Hs. pose proof HI as [Hd Hr Hn Hj]. unfold inj_step in Hs.
  destruct (nth_error (t_injs s) k) as [jk|] eqn:Hk; [|discriminate].
  pose proof (nth_error_In _ _ Hk) as Hjk. pose proof (Hj jk Hjk) as Hok.
  destruct jk as [id pc wo]. cbn [i_id i_pc i_wopen] in *.
  assert (Hothers : forall s1 j' j,
            inj_ok s1 j' ->
            (forall j, In j (t_injs s) -> i_id j <> id -> inj_ok s1 j) ->
            In j (upd_inj (t_injs s) k j') -> inj_ok s1 j).
  { intros s1 j' j Hnew Hold Hin.
    apply (upd_inj_In _ _ _ _ _ Hk Hn) in Hin. destruct Hin as [He|[Hin Hne]].
    - subst j. exact Hnew.
    - apply Hold; assumption. }
  assert (Hids : forall j', i_id j' = id -> map i_id (upd_inj (t_injs s) k j') = map i_id (t_injs s)).
  { intros j' Hid. apply (upd_inj_ids _ _ _ _ Hk). exact Hid. }
  destruct Hok as [Hk1 [Hk2 Hk3]]. cbn [i_id i_pc i_wopen] in *.
  destruct pc as [|[|[|[|pc]]]]; cbn in Hs.
  - (* ILink *)
    inv_some Hs. constructor; cbn [t_todo t_done t_reader t_writers t_data t_wsince t_dpc t_snap t_injs].
    + exact Hd.
    + exact Hr.
    + rewrite Hids; [exact Hn | reflexivity].
    + intros j. apply Hothers.
      * unfold inj_ok, oblig; cbn. split; [lia|]. split; [intro; discriminate|].
        intros _. right. split; [|exact I]. apply in_or_app. right. left. reflexivity.
      * intros j0 Hin Hne. apply (inj_ok_frame s); cbn; try reflexivity; auto.
        rewrite in_app_iff. cbn. split; [intros [H|[H|[]]]; [exact H | exfalso; apply Hne; symmetry; exact H] | tauto].
  - (* IOpenW *)
    assert (Hp : 1 <= 1) by lia. specialize (Hk3 Hp). clear Hp.
    destruct (t_reader s) eqn:Hrd.
    + inv_some Hs. constructor; cbn [t_todo t_done t_reader t_writers t_data t_wsince t_dpc t_snap t_injs].
      * exact Hd.
      * exact Hr.
      * rewrite Hids; [exact Hn | reflexivity].
      * intros j. apply Hothers.
        -- unfold inj_ok, oblig; cbn. split; [lia|]. split; [intro; discriminate|].
           intros _. destruct Hk3 as [Hk3|[Hk3 _]]; [left; exact Hk3 | right].
           split; [exact Hk3|]. right. split; reflexivity.
        -- intros j0 Hin Hne. apply (inj_ok_frame s); cbn; try reflexivity; auto.
    + inv_some Hs. constructor; cbn [set_injs t_todo t_done t_reader t_writers t_data t_wsince t_dpc t_snap t_injs].
      * exact Hd.
      * rewrite Hrd. exact Hr.
      * rewrite Hids; [exact Hn | reflexivity].
      * intros j. apply Hothers.
        -- unfold inj_ok, oblig, Cw; cbn. split; [lia|]. split; [intro; discriminate|].
           intros _. destruct Hk3 as [Hk3|[Hk3 _]]; [left; exact Hk3 | right].
           split; [exact Hk3|]. left. destruct Hr as [Hr _]. rewrite (Hr eq_refl). exact I.
        -- intros j0 Hin Hne. apply (inj_ok_frame s); cbn; try reflexivity; auto.
  - (* IWrite *)
    assert (Hp : 1 <= 2) by lia. specialize (Hk3 Hp). clear Hp.
    destruct (wo && t_reader s) eqn:Hc.
    + apply andb_prop in Hc. destruct Hc as [Hwo Hrd].
      inv_some Hs. constructor; cbn [t_todo t_done t_reader t_writers t_data t_wsince t_dpc t_snap t_injs].
      * exact Hd.
      * rewrite Hrd in Hr. exact Hr.
      * rewrite Hids; [exact Hn | reflexivity].
      * intros j. apply Hothers.
        -- unfold inj_ok, oblig, Cw; cbn. split; [lia|]. split; [intro; discriminate|].
           intros _. destruct Hk3 as [Hk3|[Hk3 _]]; [left; exact Hk3 | right].
           split; [exact Hk3|]. destruct (t_dpc s) as [|[|[|[|[|?]]]]]; try tauto. lia.
        -- intros j0 Hin Hne. apply (inj_ok_frame s); cbn; try reflexivity; auto.
    + inv_some Hs. constructor; cbn [set_injs t_todo t_done t_reader t_writers t_data t_wsince t_dpc t_snap t_injs].
      * exact Hd.
      * exact Hr.
      * rewrite Hids; [exact Hn | reflexivity].
      * intros j. apply Hothers.
        -- unfold inj_ok, oblig in *; cbn in *. split; [lia|]. split; [intro; discriminate|].
           intros _. destruct Hk3 as [Hk3|[Hk3 Hk4]]; [left; exact Hk3 | right].
           split; [exact Hk3|]. destruct Hk4 as [Hk4|[Hk4 Hk5]]; [exact Hk4|].
           rewrite Hk4, Hk5 in Hc. discriminate.
        -- intros j0 Hin Hne. apply (inj_ok_frame s); cbn; try reflexivity; auto.
  - (* ICloseW *)
    assert (Hp : 1 <= 3) by lia. specialize (Hk3 Hp). clear Hp.
    destruct wo.
    + inv_some Hs. constructor; cbn [t_todo t_done t_reader t_writers t_data t_wsince t_dpc t_snap t_injs].
      * exact Hd.
      * exact Hr.
      * rewrite Hids; [exact Hn | reflexivity].
      * assert (Hda : t_data s = true ->
                  (if (Nat.pred (t_writers s) =? 0) && negb (t_reader s) then false else t_data s) = true \/ t_dpc s = 2).
        { intro H. destruct (t_reader s) eqn:Hrd.
          - left. rewrite andb_false_r. exact H.
          - right. apply Hr. reflexivity. }
        intros j. apply Hothers.
        -- unfold inj_ok, oblig in *; cbn in *. split; [lia|]. split; [intro; discriminate|].
           intros _. destruct Hk3 as [Hk3|[Hk3 Hk4]]; [left; exact Hk3 | right].
           split; [exact Hk3|]. revert Hk4. apply Cw_frame; cbn; try reflexivity. exact Hda.
        -- intros j0 Hin Hne. apply (inj_ok_frame s); cbn; try reflexivity; auto.
    + inv_some Hs. constructor; cbn [set_injs t_todo t_done t_reader t_writers t_data t_wsince t_dpc t_snap t_injs].
      * exact Hd.
      * exact Hr.
      * rewrite Hids; [exact Hn | reflexivity].
      * intros j. apply Hothers.
        -- unfold inj_ok, oblig in *; cbn in *. split; [lia|]. split; [intro; discriminate|].
           intros _. exact Hk3.
        -- intros j0 Hin Hne. apply (inj_ok_frame s); cbn; try reflexivity; auto.
  - destruct pc; discriminate.
Qed.

Lemma step_inv s m : Inv s -> Inv (step real_dprog real_iprog s m).
Proof.
  intro HI. unfold step. destruct m as [k| |n].
  - destruct (inj_step real_iprog s k) as [s'|] eqn:Hs; [eapply inj_step_inv; eassumption | exact HI].
  - destruct (d_step real_dprog s) as [s'|] eqn:Hs; [eapply d_step_inv; eassumption | exact HI].
  - destruct (d_late real_dprog s n) as [s'|] eqn:Hs; [eapply d_late_inv; eassumption | exact HI].
Qed.

Lemma run_inv ms : forall s, Inv s -> Inv (run real_dprog real_iprog s ms).
Proof.
  unfold run. induction ms as [|m ms IH]; intros s HI; cbn [fold_left]; [exact HI|].
  apply IH. apply step_inv. exact HI.
Qed.

Theorem reachable_inv_l ids ms :
  NoDup ids -> Inv (run real_dprog real_iprog (init real_dprog ids) ms).
Proof. intro Hn. apply run_inv. apply inv_init. exact Hn. Qed.

(* goal 1 in the form asked for *)
Theorem protocol_invariant_l ids ms :
  NoDup ids ->
  let s := run real_dprog real_iprog (init real_dprog ids) ms in
  forall j, In j (t_injs s) -> 1 <= i_pc j ->
    (In (i_id j) (t_done s) /\ ~ In (i_id j) (t_todo s)) \/
    (In (i_id j) (t_todo s) /\
     match i_pc j with
     | 0 | 1 => True
     | 2 => Cw s (i_id j) \/ (i_wopen j = true /\ t_reader s = true)
     | _ => Cw s (i_id j)
     end).
Proof.
  intros Hn s j Hin Hp. pose proof (reachable_inv_l ids ms Hn) as HI. fold s in HI.
  destruct (inv_injs s HI j Hin) as [_ [_ H3]]. exact (H3 Hp).
Qed.

(* ------------------------------------------------------------------ theorem 2 *)
Lemma blocked_inv s :
  Inv s -> d_step real_dprog s = None ->
  forall j, In j (t_injs s) -> inj_finished real_iprog j = true -> mem (i_id j) (t_todo s) = false.
Proof.
  intros HI Hb j Hin Hf. apply mem_false.
  destruct (inv_injs s HI j Hin) as [_ [_ H3]].
  unfold inj_finished in Hf. cbn [real_iprog length] in Hf. apply Nat.leb_le in Hf.
  assert (Hp : 1 <= i_pc j) by lia. specialize (H3 Hp).
  destruct H3 as [[_ H3]|[H3 H4]]; [exact H3|]. exfalso.
  unfold oblig in H4. destruct (i_pc j) as [|[|[|pc]]]; try lia.
  unfold Cw in H4. pose proof (inv_dpc s HI) as Hd.
  unfold d_step in Hb.
  destruct (t_dpc s) as [|[|[|[|[|dpc]]]]] eqn:Hdpc; cbn in Hb; try discriminate; try lia.
  - unfold readable in Hb. rewrite H4 in Hb. cbn in Hb. discriminate.
  - destruct (t_snap s) as [|n r]; [discriminate|]. destruct (mem n (t_todo s)); discriminate.
Qed.

Theorem daemon_blocks_only_when_all_taken_l : forall ids ms, NoDup ids ->
  let s := run real_dprog real_iprog (init real_dprog ids) ms in
  d_step real_dprog s = None ->
  forall j, In j (t_injs s) -> inj_finished real_iprog j = true -> mem (i_id j) (t_todo s) = false.
Proof.
  intros ids ms Hn s. apply blocked_inv. apply reachable_inv_l. exact Hn.
Qed.
Print Assumptions daemon_blocks_only_when_all_taken_l.

(* ------------------------------------------------------------------ theorem 3: bounded progress *)
(* number of daemon-alone steps after which entry n is certainly out of todo/ *)
Definition mu (s : tst) (n : nat) : nat :=
  match t_dpc s with
  | 0 => length (t_todo s) + 5
  | 1 => length (t_todo s) + 4
  | 2 => length (t_todo s) + 3
  | 3 => length (t_todo s) + 2
  | _ => if mem n (t_snap s) then length (t_snap s) else length (t_snap s) + length (t_todo s) + 6
  end.

Lemma d_step_progress s s' n :
  d_step real_dprog s = Some s' -> In n (t_todo s) -> Cw s n ->
  ~ In n (t_todo s') \/ (In n (t_todo s') /\ Cw s' n /\ mu s' n < mu s n).
Proof.
  intros Hs Hin HC. unfold d_step in Hs. unfold Cw in HC. unfold mu.
  destruct s as [todo done reader writers data wsince dpc snap injs].
  cbn [t_todo t_done t_reader t_writers t_data t_wsince t_dpc t_snap t_injs] in *.
  destruct dpc as [|[|[|[|[|dpc]]]]]; cbn in Hs; try (exfalso; exact HC).
  - destruct (readable _); [|discriminate]. inv_some Hs. right. unfold Cw; cbn [t_todo t_dpc t_snap t_data length]. split; [exact Hin|]. split; [exact I | lia].
  - inv_some Hs. right. unfold Cw; cbn [t_todo t_dpc t_snap t_data length]. split; [exact Hin|]. split; [exact I | lia].
  - inv_some Hs. right. unfold Cw; cbn [t_todo t_dpc t_snap t_data length]. split; [exact Hin|]. split; [exact I | lia].
  - inv_some Hs. right. unfold Cw; cbn [t_todo t_dpc t_snap t_data length]. split; [exact Hin|]. split; [left; exact Hin|].
    apply mem_In in Hin. rewrite Hin. lia.
  - destruct snap as [|a r].
    + inv_some Hs. right. unfold Cw; cbn [t_todo t_dpc t_snap t_data length]. destruct HC as [[]|HC]. split; [exact Hin|]. split; [exact HC | unfold mem; cbn [existsb length]; lia].
    + assert (Hmu : forall todo' : list nat, length todo' <= length todo -> (In n (a :: r) -> In n r) ->
                (if mem n r then length r else length r + length todo' + 6) <
                (if mem n (a :: r) then length (a :: r) else length (a :: r) + length todo + 6)).
      { intros todo' Hl Himp. cbn [length]. destruct (mem n (a :: r)) eqn:Hm.
        - apply mem_In in Hm. apply Himp in Hm. apply mem_In in Hm. rewrite Hm. lia.
        - destruct (mem n r); lia. }
      destruct (mem a todo) eqn:Hm.
      * inv_some Hs. cbn [t_todo t_dpc t_snap t_data]. rewrite In_remove_id.
        destruct (Nat.eq_dec n a) as [He|He]; [left; tauto | right].
        assert (Himp : In n (a :: r) -> In n r).
        { intros [H|H]; [exfalso; apply He; symmetry; exact H | exact H]. }
        split; [tauto|]. split.
        -- unfold Cw; cbn [t_todo t_dpc t_snap t_data length]. tauto.
        -- apply Hmu; [apply length_remove_id | exact Himp].
      * inv_some Hs. cbn [t_todo t_dpc t_snap t_data]. right.
        apply mem_false in Hm.
        assert (Himp : In n (a :: r) -> In n r).
        { intros [H|H]; [exfalso; apply Hm; rewrite H; exact Hin | exact H]. }
        split; [exact Hin|]. split.
        -- unfold Cw; cbn [t_todo t_dpc t_snap t_data length]. tauto.
        -- apply Hmu; [lia | exact Himp].
Qed.

Lemma d_step_todo_mono s s' n :
  d_step real_dprog s = Some s' -> ~ In n (t_todo s) -> ~ In n (t_todo s').
Proof.
  intros Hs Hn. unfold d_step in Hs.
  destruct (nth_error real_dprog (t_dpc s)) as [[| | | |]|]; try discriminate.
  - destruct (readable s); [|discriminate]. inv_some Hs. exact Hn.
  - inv_some Hs. exact Hn.
  - inv_some Hs. exact Hn.
  - inv_some Hs. exact Hn.
  - destruct (t_snap s) as [|a r]; [inv_some Hs; exact Hn|].
    destruct (mem a (t_todo s)); inv_some Hs; cbn; [|exact Hn].
    rewrite In_remove_id. tauto.
Qed.

Lemma d_alone_todo_mono f : forall s n, ~ In n (t_todo s) -> ~ In n (t_todo (d_alone real_dprog f s)).
Proof.
  induction f as [|f IH]; intros s n Hn; cbn [d_alone]; [exact Hn|].
  destruct (d_step real_dprog s) as [s'|] eqn:Hs; [|exact Hn].
  apply IH. eapply d_step_todo_mono; eassumption.
Qed.

Lemma blocked_not_Cw s n : d_step real_dprog s = None -> Cw s n -> False.
Proof.
  intros Hb HC. unfold d_step in Hb. unfold Cw in HC.
  destruct (t_dpc s) as [|[|[|[|[|dpc]]]]]; cbn in Hb; try discriminate; try exact HC.
  - unfold readable in Hb. rewrite HC in Hb. discriminate.
  - destruct (t_snap s) as [|a r]; [discriminate|]. destruct (mem a (t_todo s)); discriminate.
Qed.

Lemma mu_pos s n : In n (t_todo s) -> Cw s n -> 0 < mu s n.
Proof.
  intros Hin HC. unfold mu. unfold Cw in HC.
  destruct (t_dpc s) as [|[|[|[|[|dpc]]]]]; try lia; try (exfalso; exact HC).
  destruct (mem n (t_snap s)) eqn:Hm; [|lia].
  apply mem_In in Hm. destruct (t_snap s); [destruct Hm | cbn; lia].
Qed.

(* the daemon left alone takes entry n within mu steps *)
Lemma d_alone_takes f : forall s n,
  (In n (t_todo s) -> Cw s n) -> mu s n <= f -> ~ In n (t_todo (d_alone real_dprog f s)).
Proof.
  induction f as [|f IH]; intros s n HC Hmu; cbn [d_alone].
  - intro Hin. pose proof (mu_pos s n Hin (HC Hin)). lia.
  - destruct (d_step real_dprog s) as [s'|] eqn:Hs.
    + destruct (in_dec Nat.eq_dec n (t_todo s)) as [Hin|Hnin].
      * destruct (d_step_progress s s' n Hs Hin (HC Hin)) as [Hout|[Hin' [HC' Hlt]]].
        -- apply d_alone_todo_mono. exact Hout.
        -- apply IH; [intros _; exact HC' | lia].
      * apply d_alone_todo_mono. eapply d_step_todo_mono; eassumption.
    + intro Hin. exact (blocked_not_Cw s n Hs (HC Hin)).
Qed.

Lemma mu_bound s n : t_dpc s <= 4 -> mu s n <= length (t_todo s) + length (t_snap s) + 6.
Proof.
  intro Hd. unfold mu. destruct (t_dpc s) as [|[|[|[|[|dpc]]]]]; try lia.
  - destruct (mem n (t_snap s)); lia.
Qed.

(* the bound actually proved: |todo| + |snap| + 6 daemon steps suffice *)
Lemma no_lost_wakeup_fuel_l s f :
  Inv s -> length (t_todo s) + length (t_snap s) + 6 <= f ->
  forall j, In j (t_injs s) -> inj_finished real_iprog j = true ->
    mem (i_id j) (t_todo (d_alone real_dprog f s)) = false.
Proof.
  intros HI Hf j Hin Hfin. apply mem_false. apply d_alone_takes.
  - intro Hit. destruct (inv_injs s HI j Hin) as [_ [_ H3]].
    unfold inj_finished in Hfin. cbn [real_iprog length] in Hfin. apply Nat.leb_le in Hfin.
    assert (Hp : 1 <= i_pc j) by lia. specialize (H3 Hp).
    destruct H3 as [[_ H3]|[_ H4]]; [exfalso; exact (H3 Hit)|].
    unfold oblig in H4. destruct (i_pc j) as [|[|[|pc]]]; try lia. exact H4.
  - pose proof (mu_bound s (i_id j) (inv_dpc s HI)). lia.
Qed.

Lemma lost_false_inv s : Inv s -> lost real_dprog real_iprog s = false.
Proof.
  intro HI. unfold lost.
  destruct (existsb _ (t_injs s)) eqn:He; [|reflexivity]. exfalso.
  apply existsb_exists in He. destruct He as [j [Hin Hj]].
  apply andb_prop in Hj. destruct Hj as [Hfin Hm].
  rewrite (no_lost_wakeup_fuel_l s _ HI) in Hm; [discriminate | | exact Hin | exact Hfin].
  cbn [real_dprog length]. lia.
Qed.

Theorem no_lost_wakeup_l : forall ids ms, NoDup ids ->
  lost real_dprog real_iprog (run real_dprog real_iprog (init real_dprog ids) ms) = false.
Proof.
  intros ids ms Hn. apply lost_false_inv. apply reachable_inv_l. exact Hn.
Qed.
Print Assumptions no_lost_wakeup_l.

(* ------------------------------------------------------------------ the order of the calls matters *)
Definition dprog_rearm_after_scan : list dop := [DSelect; DOpendir; DScan; DCloseT; DOpenT].
Example rearm_after_scan_refuted :
  lost dprog_rearm_after_scan real_iprog
    (run dprog_rearm_after_scan real_iprog (init dprog_rearm_after_scan [7])
       [MDaemon; MInj 0; MInj 0; MInj 0; MInj 0]) = true.
Proof. vm_compute. reflexivity. Qed.

Definition iprog_signal_before_publish : list iop := [IOpenW; IWrite; ICloseW; ILink].
Example signal_before_publish_refuted :
  lost real_dprog iprog_signal_before_publish
    (run real_dprog iprog_signal_before_publish (init real_dprog [7])
       [MInj 0; MInj 0; MInj 0; MDaemon; MDaemon; MDaemon; MInj 0]) = true.
Proof. vm_compute. reflexivity. Qed.

(* ------------------------------------------------------------------ auxiliary: the writer count *)
Definition cntw (l : list inj) : nat := length (filter i_wopen l).

Record InvW (s : tst) : Prop := {
  w_count : t_writers s = cntw (t_injs s);
  w_pc : forall j, In j (t_injs s) -> i_wopen j = true -> i_pc j = 2 \/ i_pc j = 3
}.

Lemma cntw_upd (l : list inj) k jk j' :
  nth_error l k = Some jk ->
  cntw (upd_inj l k j') + (if i_wopen jk then 1 else 0) = cntw l + (if i_wopen j' then 1 else 0).
Proof.
  intro H. rewrite (upd_inj_decomp l k jk H) at 2. unfold upd_inj, cntw.
  rewrite !filter_app, !app_length. cbn [filter].
  destruct (i_wopen jk), (i_wopen j'); cbn [length]; lia.
Qed.

Lemma upd_inj_In_weak (l : list inj) k jk j' j :
  nth_error l k = Some jk -> In j (upd_inj l k j') -> j = j' \/ In j l.
Proof.
  intros H Hi. rewrite (upd_inj_decomp l k jk H). unfold upd_inj in Hi.
  apply in_app_or in Hi. destruct Hi as [Hi|[Hi|Hi]].
  - right. apply in_or_app. left. exact Hi.
  - left. symmetry. exact Hi.
  - right. apply in_or_app. right. right. exact Hi.
Qed.

Lemma invw_init ids : InvW (init real_dprog ids).
Proof.
  constructor; cbn.
  - unfold cntw. induction ids as [|a ids IH]; cbn; [reflexivity | exact IH].
  - intros j Hj. apply in_map_iff in Hj. destruct Hj as [n [Hj _]]. subst j. cbn. discriminate.
Qed.

Lemma d_step_invw s s' : InvW s -> d_step real_dprog s = Some s' -> InvW s'.
Proof.
  intros [Hc Hp] Hs.
  assert (He : t_writers s' = t_writers s /\ t_injs s' = t_injs s).
  { unfold d_step in Hs.
    destruct (nth_error real_dprog (t_dpc s)) as [[| | | |]|]; try discriminate.
    - destruct (readable s); [|discriminate]. inv_some Hs. split; reflexivity.
    - inv_some Hs. split; reflexivity.
    - inv_some Hs. split; reflexivity.
    - inv_some Hs. split; reflexivity.
    - destruct (t_snap s) as [|a r]; [inv_some Hs; split; reflexivity|].
      destruct (mem a (t_todo s)); inv_some Hs; split; reflexivity. }
  destruct He as [He1 He2]. constructor; rewrite ?He1, He2; assumption.
Qed.

Lemma d_late_invw s s' n : InvW s -> d_late real_dprog s n = Some s' -> InvW s'.
Proof.
  intros [Hc Hp] Hs. unfold d_late in Hs.
  destruct (nth_error real_dprog (t_dpc s)) as [[| | | |]|]; try discriminate.
  destruct (mem n (t_todo s)); [|discriminate]. inv_some Hs. constructor; cbn; assumption.
Qed.

Lemma inj_step_invw s s' k : InvW s -> inj_step real_iprog s k = Some s' -> InvW s'.
Proof.
  intros [Hc Hp] Hs. unfold inj_step in Hs.
  destruct (nth_error (t_injs s) k) as [jk|] eqn:Hk; [|discriminate].
  pose proof (nth_error_In _ _ Hk) as Hjk. pose proof (Hp jk Hjk) as Hpk.
  assert (Hothers : forall j' j, (i_wopen j' = true -> i_pc j' = 2 \/ i_pc j' = 3) ->
            In j (upd_inj (t_injs s) k j') -> i_wopen j = true -> i_pc j = 2 \/ i_pc j = 3).
  { intros j' j Hnew Hin. apply (upd_inj_In_weak _ _ _ _ _ Hk) in Hin.
    destruct Hin as [He|Hin]; [subst j; exact Hnew | apply Hp; exact Hin]. }
  assert (Hcnt : forall j', cntw (upd_inj (t_injs s) k j') + (if i_wopen jk then 1 else 0)
                            = cntw (t_injs s) + (if i_wopen j' then 1 else 0)).
  { intro j'. apply cntw_upd. exact Hk. }
  destruct jk as [id pc wo]. cbn [i_id i_pc i_wopen] in *.
  destruct pc as [|[|[|[|pc]]]]; cbn in Hs.
  - (* ILink *)
    assert (Hwo : wo = false).
    { destruct wo; [|reflexivity]. destruct (Hpk eq_refl); discriminate. }
    subst wo. inv_some Hs. constructor; cbn [t_writers t_injs].
    + specialize (Hcnt {| i_id := id; i_pc := 1; i_wopen := false |}). cbn [i_wopen] in Hcnt. lia.
    + intro j. apply Hothers. cbn. discriminate.
  - (* IOpenW *)
    assert (Hwo : wo = false).
    { destruct wo; [|reflexivity]. destruct (Hpk eq_refl); discriminate. }
    subst wo. destruct (t_reader s); inv_some Hs; constructor; cbn [set_injs t_writers t_injs].
    + specialize (Hcnt {| i_id := id; i_pc := 2; i_wopen := true |}). cbn [i_wopen] in Hcnt. lia.
    + intro j. apply Hothers. cbn. intros _. left. reflexivity.
    + specialize (Hcnt {| i_id := id; i_pc := 2; i_wopen := false |}). cbn [i_wopen] in Hcnt. lia.
    + intro j. apply Hothers. cbn. discriminate.
  - (* IWrite *)
    destruct (wo && t_reader s); inv_some Hs; constructor; cbn [set_injs t_writers t_injs].
    + specialize (Hcnt {| i_id := id; i_pc := 3; i_wopen := wo |}). cbn [i_wopen] in Hcnt. lia.
    + intro j. apply Hothers. cbn. intros _. right. reflexivity.
    + specialize (Hcnt {| i_id := id; i_pc := 3; i_wopen := wo |}). cbn [i_wopen] in Hcnt. lia.
    + intro j. apply Hothers. cbn. intros _. right. reflexivity.
  - (* ICloseW *)
    destruct wo; inv_some Hs; constructor; cbn [set_injs t_writers t_injs].
    + specialize (Hcnt {| i_id := id; i_pc := 4; i_wopen := false |}). cbn [i_wopen] in Hcnt. lia.
    + intro j. apply Hothers. cbn. discriminate.
    + specialize (Hcnt {| i_id := id; i_pc := 4; i_wopen := false |}). cbn [i_wopen] in Hcnt. lia.
    + intro j. apply Hothers. cbn. discriminate.
  - destruct pc; discriminate.
Qed.

Lemma step_invw s m : InvW s -> InvW (step real_dprog real_iprog s m).
Proof.
  intro HI. unfold step. destruct m as [k| |n].
  - destruct (inj_step real_iprog s k) as [s'|] eqn:Hs; [eapply inj_step_invw; eassumption | exact HI].
  - destruct (d_step real_dprog s) as [s'|] eqn:Hs; [eapply d_step_invw; eassumption | exact HI].
  - destruct (d_late real_dprog s n) as [s'|] eqn:Hs; [eapply d_late_invw; eassumption | exact HI].
Qed.

Theorem writers_counted_l ids ms : InvW (run real_dprog real_iprog (init real_dprog ids) ms).
Proof.
  unfold run. generalize (invw_init ids). generalize (init real_dprog ids).
  induction ms as [|m ms IH]; intros s HI; cbn [fold_left]; [exact HI|].
  apply IH. apply step_invw. exact HI.
Qed.

(* ------------------------------------------------------------------ the select timeout *)
Local Open Scope Z_scope.

Lemma fold_min_le_init l : forall w, fold_left Z.min l w <= w.
Proof.
  induction l as [|a l IH]; intro w; cbn [fold_left]; [lia|].
  specialize (IH (Z.min w a)). lia.
Qed.

Lemma fold_min_le_elem l : forall w d, In d l -> fold_left Z.min l w <= d.
Proof.
  induction l as [|a l IH]; intros w d Hin; cbn [fold_left]; [destruct Hin|].
  destruct Hin as [He|Hin].
  - subst a. pose proof (fold_min_le_init l (Z.min w d)). lia.
  - apply IH. exact Hin.
Qed.

Lemma fold_min_cases l : forall w, fold_left Z.min l w = w \/ In (fold_left Z.min l w) l.
Proof.
  induction l as [|a l IH]; intro w; cbn [fold_left]; [left; reflexivity|].
  destruct (IH (Z.min w a)) as [H|H].
  - rewrite H. destruct (Z.min_spec w a) as [[_ Hm]|[_ Hm]]; rewrite Hm; [left; reflexivity | right; left; reflexivity].
  - right. right. exact H.
Qed.

Lemma fold_min_le_iff l w r :
  fold_left Z.min l w <= r <-> w <= r \/ exists d, In d l /\ d <= r.
Proof.
  split.
  - intro H. destruct (fold_min_cases l w) as [He|Hin].
    + left. lia.
    + right. exists (fold_left Z.min l w). split; assumption.
  - intros [H|[d [Hin H]]].
    + pose proof (fold_min_le_init l w). lia.
    + pose proof (fold_min_le_elem l w d Hin). lia.
Qed.

(* the unconditional reasons to run now *)
Definition flags (x : sel) : bool :=
  (negb (exitasap x) && (pass_ready x || scanning x)) || flagcleanup x.

Lemma work_now_flags x :
  work_now x = flags x || existsb (fun d => d <=? recent x) (due_times x).
Proof. reflexivity. Qed.

Lemma wakeup_idle x :
  flags x = false -> wakeup x = fold_left Z.min (due_times x) (recent x + SLEEP_FOREVER).
Proof.
  unfold flags, wakeup, cleanup_selprep, todo_selprep, pass_selprep, due_times, zmin_opt.
  intro Hf.
  destruct (flagcleanup x); [rewrite orb_true_r in Hf; discriminate|].
  destruct (exitasap x); cbn [negb andb orb app fold_left] in *; [reflexivity|].
  destruct (pass_ready x); [discriminate|].
  destruct (scanning x); [discriminate|].
  rewrite !fold_left_app.
  destruct (job_free x), (fail_due x), (done_due x); cbn [fold_left app]; reflexivity.
Qed.

Lemma wakeup_busy x : flags x = true -> wakeup x <= 0.
Proof.
  unfold flags, wakeup, cleanup_selprep, todo_selprep. intro Hf.
  destruct (flagcleanup x); [lia|]. rewrite orb_false_r in Hf.
  apply andb_prop in Hf. destruct Hf as [Hex Hps].
  apply negb_true_iff in Hex. rewrite Hex.
  destruct (scanning x); [lia|]. rewrite orb_false_r in Hps.
  unfold pass_selprep. rewrite Hex, Hps. lia.
Qed.

Lemma wakeup_le_horizon x : wakeup x <= recent x + SLEEP_FOREVER \/ wakeup x <= 0.
Proof.
  destruct (flags x) eqn:Hf.
  - right. apply wakeup_busy. exact Hf.
  - left. rewrite (wakeup_idle x Hf). apply fold_min_le_init.
Qed.

Lemma existsb_due_iff x :
  existsb (fun d => d <=? recent x) (due_times x) = true <-> exists d, In d (due_times x) /\ d <= recent x.
Proof.
  rewrite existsb_exists. split; intros [d [Hin Hd]]; exists d; (split; [exact Hin|]).
  - apply Z.leb_le. exact Hd.
  - apply Z.leb_le. exact Hd.
Qed.

(* nothing to do now  ==>  the wake-up time is the earliest due time (or the 24h horizon), in the future *)
Lemma idle_wakeup x :
  work_now x = false ->
  wakeup x = fold_left Z.min (due_times x) (recent x + SLEEP_FOREVER) /\ recent x < wakeup x.
Proof.
  rewrite work_now_flags. intro Hw. apply orb_false_elim in Hw. destruct Hw as [Hf He].
  rewrite (wakeup_idle x Hf). split; [reflexivity|].
  destruct (Z.lt_ge_cases (recent x) (fold_left Z.min (due_times x) (recent x + SLEEP_FOREVER))) as [H|H]; [exact H|].
  exfalso. apply fold_min_le_iff in H. destruct H as [H|H].
  - unfold SLEEP_FOREVER in H. lia.
  - apply existsb_due_iff in H. rewrite H in He. discriminate.
Qed.

Lemma idle_timeout x :
  work_now x = false -> timeout x = wakeup x - recent x + SLEEP_FUZZ.
Proof.
  intro Hw. destruct (idle_wakeup x Hw) as [_ Hlt]. unfold timeout.
  destruct (wakeup x <=? recent x) eqn:Hc; [|reflexivity].
  apply Z.leb_le in Hc. lia.
Qed.

Theorem timeout_zero_iff_work_l : forall x, 0 <= recent x ->
  (timeout x = 0 <-> work_now x = true).
Proof.
  intros x Hr. split.
  - intro Ht. destruct (work_now x) eqn:Hw; [reflexivity|]. exfalso.
    rewrite (idle_timeout x Hw) in Ht. destruct (idle_wakeup x Hw) as [_ Hlt].
    unfold SLEEP_FUZZ in Ht. lia.
  - intro Hw. unfold timeout.
    destruct (wakeup x <=? recent x) eqn:Hc; [reflexivity|]. exfalso.
    apply Z.leb_gt in Hc. rewrite work_now_flags in Hw.
    destruct (flags x) eqn:Hf.
    + pose proof (wakeup_busy x Hf). lia.
    + cbn [orb] in Hw. apply existsb_due_iff in Hw. rewrite (wakeup_idle x Hf) in Hc.
      assert (H : fold_left Z.min (due_times x) (recent x + SLEEP_FOREVER) <= recent x).
      { apply fold_min_le_iff. right. exact Hw. }
      lia.
Qed.
Print Assumptions timeout_zero_iff_work_l.

(* the direction that does not need 0 <= recent *)
Lemma timeout_zero_work_l : forall x, timeout x = 0 -> work_now x = true.
Proof.
  intros x Ht. destruct (work_now x) eqn:Hw; [reflexivity|]. exfalso.
  rewrite (idle_timeout x Hw) in Ht. destruct (idle_wakeup x Hw) as [_ Hlt].
  unfold SLEEP_FUZZ in Ht. lia.
Qed.

Theorem timeout_positive_when_idle_l : forall x, 0 <= recent x ->
  work_now x = false -> 2 <= timeout x <= SLEEP_FOREVER + SLEEP_FUZZ.
Proof.
  intros x _ Hw. rewrite (idle_timeout x Hw). destruct (idle_wakeup x Hw) as [He Hlt].
  pose proof (fold_min_le_init (due_times x) (recent x + SLEEP_FOREVER)) as Hi.
  rewrite <- He in Hi. unfold SLEEP_FUZZ. lia.
Qed.
Print Assumptions timeout_positive_when_idle_l.

Theorem timeout_not_past_due_l : forall x, 0 <= recent x ->
  work_now x = false -> forall d, In d (due_times x) -> recent x + timeout x - SLEEP_FUZZ <= d.
Proof.
  intros x _ Hw d Hin. rewrite (idle_timeout x Hw). destruct (idle_wakeup x Hw) as [He _].
  pose proof (fold_min_le_elem (due_times x) (recent x + SLEEP_FOREVER) d Hin) as Hd.
  rewrite <- He in Hd. lia.
Qed.
Print Assumptions timeout_not_past_due_l.

Theorem timeout_exact_l : forall x, 0 <= recent x ->
  work_now x = false ->
  timeout x = fold_left Z.min (due_times x) (recent x + SLEEP_FOREVER) - recent x + SLEEP_FUZZ.
Proof.
  intros x _ Hw. rewrite (idle_timeout x Hw). destruct (idle_wakeup x Hw) as [He _].
  rewrite <- He. reflexivity.
Qed.
Print Assumptions timeout_exact_l.

(* 0 <= recent is needed for  work_now -> timeout = 0:  with a negative clock a raised flag asks for wake-up
   time 0, which is then in the future *)
Example timeout_zero_needs_nonneg_clock :
  let x := {| recent := -5; exitasap := false; pass_ready := false; job_free := false; chan_due := [];
              fail_due := None; done_due := None; scanning := false; nexttodorun := 100;
              flagcleanup := true; cleanuptime := 100 |} in
  work_now x = true /\ timeout x = 6.
Proof. vm_compute. split; reflexivity. Qed.
